#!/bin/bash
# Runs the repository's own test suite with the hook guard OFF (no -tags verif), offline.
# Usage: ./baseline.sh [module-dir ...]   (default: every Go module of /repo)
export GOPROXY=off GOSUMDB=off GOTOOLCHAIN=local
cd /repo || exit 2
mods=("$@")
if [ ${#mods[@]} -eq 0 ]; then
  mods=($(find . -name go.mod -not -path './.git/*' | sed 's|/go.mod||; s|^\./||' | sort))
fi
rc=0
for m in "${mods[@]}"; do
  echo "=== $m"
  (cd "/repo/$m" && go test -vet=off -count=1 -timeout 25m ./...) || rc=1
done
exit $rc
