package c03

import (
	"crypto/sha256"
	"encoding/hex"
	"fmt"
	"math/big"
	"math/bits"
	"os"
	"sort"
	"time"

	"pgregory.net/rapid"

	"verifharness/gen"
)

// generator switches (they only influence what Next draws, never what Apply does)
var (
	// F11 of DESIGN section 5 (asset removal / deactivation / limit lowering while transfers are open is a governance
	// precondition).  Such parameter changes ARE generated; what the generator leaves out by construction while the
	// parameters are incompatible with the live state is (a) a claim with the right secret of an open incoming
	// transfer whose asset is delisted or outside its limits (C03 mode) and (b) a restart (the module's genesis
	// import refuses such a state).  VERIF_C03_F11=1 lifts both exclusions.
	switchF11 = os.Getenv("VERIF_C03_F11") != ""
	// only compatible parameter changes (the behaviour before round 5)
	compatOnly = os.Getenv("VERIF_C03_COMPAT_PARAMS") != ""
	// do not draw the htlc module account as recipient of a contract (see finding C04/escrow-keeps-funds-claimed-to-escrow)
	avoidToEscrow = os.Getenv("VERIF_C04_AVOID_TO_ESCROW") != ""
)

const (
	maxContracts = 12
	maxBlocks    = 260
)

var htltDenoms = []string{"htltbnb", "htltbtc"}
var plainDenoms = []string{"btc", "eth", "point", "stake", "usdt"}

// rapid's integer and SampledFrom generators are deliberately biased to small values / the first elements
// (good for magnitudes, bad for choosing among alternatives with intended weights).  uni draws uniformly
// from 0..n-1 out of unbiased single bits; all-false bits (what shrinking moves to) give 0.
func uni(t *rapid.T, label string, n int) int {
	if n <= 1 {
		return 0
	}
	nb := bits.Len(uint(n - 1))
	for {
		v := 0
		for i := 0; i < nb; i++ {
			if rapid.Bool().Draw(t, label) {
				v |= 1 << i
			}
		}
		if v < n {
			return v
		}
	}
}

func pct(t *rapid.T, label string) int { return uni(t, label, 100) }

func chance(t *rapid.T, label string, p int) bool { return pct(t, label) < p }

func pick[T any](t *rapid.T, label string, xs []T) T { return xs[uni(t, label, len(xs))] }

func poolSecret(i int) string {
	s := sha256.Sum256([]byte(fmt.Sprintf("c03-secret-%d", i)))
	return hex.EncodeToString(s[:])
}

func drawBytes32(t *rapid.T, label string) string {
	b := make([]byte, 32)
	for i := 0; i < 4; i++ {
		v := rapid.Uint64().Draw(t, label)
		for j := 0; j < 8; j++ {
			b[i*8+j] = byte(v >> (8 * j))
		}
	}
	return hex.EncodeToString(b)
}

func bi(v int64) *big.Int { return big.NewInt(v) }

func minBig(xs ...*big.Int) *big.Int {
	m := xs[0]
	for _, x := range xs[1:] {
		if x.Cmp(m) < 0 {
			m = x
		}
	}
	return new(big.Int).Set(m)
}

// between draws an integer in [lo, hi] (hi >= lo), biased to the low end for wide ranges.
func between(t *rapid.T, label string, lo, hi *big.Int) *big.Int {
	span := new(big.Int).Sub(hi, lo)
	if span.Sign() <= 0 {
		return new(big.Int).Set(lo)
	}
	if span.IsInt64() && span.Int64() < 1<<40 {
		return new(big.Int).Add(lo, bi(rapid.Int64Range(0, span.Int64()).Draw(t, label)))
	}
	off := gen.Bits(t, label, uint(rapid.IntRange(1, span.BitLen()-1).Draw(t, label+"/bits")))
	return new(big.Int).Add(lo, off)
}

// ---------------------------------------------------------------------------------------------

func (m *machine) Next(t *rapid.T) hOp {
	if !m.installed {
		n := pick(t, "nassets", []int{1, 2, 2, 2})
		var as []assetJ
		first := uni(t, "first-asset", 2)
		for i := 0; i < n; i++ {
			as = append(as, m.genAsset(t, htltDenoms[(first+i)%2]))
		}
		return hOp{Kind: "params", Assets: as}
	}
	for _, d := range m.order {
		if !m.assets[d].hasSupply && chance(t, "first-block", 70) {
			return hOp{Kind: "block", N: 1, Dt: gen.Dt(t, "dt")}
		}
	}
	open := m.openContracts()
	openHTLT := 0
	for _, ct := range open {
		if ct.transfer {
			openHTLT++
		}
	}
	// a restart: anywhere in the history, preferably (once) while cross-chain transfers are pending
	if (openHTLT > 0 && m.n.reimports == 0 && chance(t, "reimport/first", 7)) || chance(t, "reimport/any", 2) {
		return m.genReimport(t)
	}
	if m.c03() && m.n.bursts == 0 && uni(t, "burst", 120) == 0 {
		// more than a hundred contracts in one expiry bucket (anything that pages through a bucket sees a second page)
		return hOp{Kind: "burst", Sender: uni(t, "burst/sender", 4), To: uni(t, "burst/to", 4), N: 101 + uni(t, "burst/n", 20),
			TimeLock: uint64(minTimeLock + uni(t, "burst/lock", 4)), Coins: []coinJ{{"stake", "1"}}}
	}
	var w [6]int // plain, htlt, dup, claim, block, params
	if m.c03() {
		w = [6]int{19, 17, 5, 29, 25, 5}
	} else {
		w = [6]int{5, 31, 2, 29, 25, 8}
	}
	k := pct(t, "kind")
	kind := 0
	for acc := 0; kind < 6; kind++ {
		acc += w[kind]
		if k < acc {
			break
		}
	}
	if kind <= 2 && len(m.contracts) >= maxContracts {
		kind = 3
	}
	if kind == 2 && len(m.contracts)+len(m.forgotten) == 0 {
		kind = 0
	}
	if kind == 3 && len(open) == 0 && (len(m.contracts) == 0 || chance(t, "claim->create", 60)) {
		if len(m.contracts) >= maxContracts {
			kind = 4
		} else if m.c03() {
			kind = 0
		} else {
			kind = 1
		}
	}
	switch kind {
	case 0:
		return m.genPlain(t)
	case 1:
		return m.genHTLT(t)
	case 2:
		return m.genDup(t)
	case 3:
		return m.genClaim(t, open)
	case 4:
		return m.genBlock(t, open)
	default:
		return m.genParamsChange(t)
	}
}

func (m *machine) genReimport(t *rapid.T) hOp {
	if !switchF11 && m.importNeedsCompatibleParams() {
		return hOp{Kind: "skip", Note: "skipped:reimport-with-incompatible-params"}
	}
	return hOp{Kind: "reimport", Respell: chance(t, "respell", 35)}
}

func (m *machine) openContracts() []*contract {
	var out []*contract
	for _, ct := range m.contracts {
		if ct.state == stOpen {
			out = append(out, ct)
		}
	}
	return out
}

// ---------------------------------------------------------------------------------------------
// parameters

func (m *machine) genAsset(t *rapid.T, denom string) assetJ {
	var limit *big.Int
	switch s := pct(t, "limit/shape"); {
	case s < 45:
		limit = bi(int64(rapid.IntRange(5, 200).Draw(t, "limit/small")))
	case s < 70:
		limit = bi(int64(rapid.IntRange(1000, 1000000).Draw(t, "limit/medium")))
	case s < 90:
		limit = gen.Bits(t, "limit/large", uint(rapid.IntRange(40, 100).Draw(t, "limit/bits")))
	case s < 94:
		limit = bi(0)
	default:
		limit = bi(int64(rapid.IntRange(1, 4).Draw(t, "limit/tiny")))
	}
	a := assetJ{Denom: denom, Limit: limit.String(), Deputy: pick(t, "deputy", []int{1, 1, 2})}
	a.TimeLimited = chance(t, "tl", 65)
	a.PeriodNs = m.genPeriod(t)
	a.TBL = m.genTBL(t, limit, bi(0)).String()
	a.Fee = bi(int64(pick(t, "fee", []int{0, 0, 0, 1, 1, 2, 3, 10, 1000}))).String()
	mn := bi(int64(pick(t, "min", []int{1, 1, 1, 1, 2, 3, 5, 20, 50})))
	a.Min = mn.String()
	var mx *big.Int
	switch s := uni(t, "max/shape", 10); {
	case s < 5:
		mx = sum(limit, mn, gen.Pow2(100))
	case s < 8:
		mx = sum(mn, bi(int64(rapid.IntRange(0, 30).Draw(t, "max/off"))))
	default:
		mx = new(big.Int).Rsh(limit, 1)
		if mx.Cmp(mn) < 0 {
			mx = new(big.Int).Set(mn)
		}
	}
	a.Max = mx.String()
	a.MinLock, a.MaxLock = m.genLocks(t)
	a.Active = chance(t, "active", 94)
	return a
}

func (m *machine) genPeriod(t *rapid.T) int64 {
	if chance(t, "period/std", 70) {
		return int64(pick(t, "period", []time.Duration{time.Minute, time.Minute, 61 * time.Second, 90 * time.Second, 5 * time.Minute, time.Hour, 2 * time.Hour}))
	}
	return int64(time.Second) * int64(rapid.IntRange(60, 7200).Draw(t, "period/s"))
}

// genTBL draws a time-based limit in [floor, limit].
func (m *machine) genTBL(t *rapid.T, limit, floor *big.Int) *big.Int {
	if floor.Cmp(limit) >= 0 {
		return new(big.Int).Set(limit)
	}
	var v *big.Int
	switch s := pct(t, "tbl/shape"); {
	case s < 25:
		v = new(big.Int).Set(limit)
	case s < 50:
		v = new(big.Int).Rsh(limit, 1)
	case s < 80:
		v = bi(int64(rapid.IntRange(1, 30).Draw(t, "tbl/small")))
	case s < 84:
		v = bi(0)
	default:
		v = between(t, "tbl/any", floor, limit)
	}
	if v.Cmp(limit) > 0 {
		v = new(big.Int).Set(limit)
	}
	if v.Cmp(floor) < 0 {
		v = new(big.Int).Set(floor)
	}
	return v
}

func (m *machine) genLocks(t *rapid.T) (uint64, uint64) {
	mn := uint64(pick(t, "minlock", []int{50, 50, 50, 51, 53, 55}))
	mx := uint64(pick(t, "maxlock", []int{0, 60, 60, 100, 34560, 34560}))
	if mx < mn {
		mx = mn
	}
	return mn, mx
}

func (m *machine) currentAssets() []assetJ {
	var as []assetJ
	for _, d := range m.order {
		as = append(as, m.assets[d].raw)
	}
	return as
}

func (m *machine) genParamsChange(t *rapid.T) hOp {
	as := m.currentAssets()
	var absent, never []string
	for _, d := range htltDenoms {
		switch a, ok := m.assets[d]; {
		case !ok:
			never = append(never, d)
		case !a.present:
			absent = append(absent, d)
		}
	}
	place := func(a assetJ) hOp {
		if chance(t, "list/front", 30) {
			return hOp{Kind: "params", Assets: append([]assetJ{a}, as...)}
		}
		return hOp{Kind: "params", Assets: append(as, a)}
	}
	// list a delisted asset again (a separate, later update than the one that removed it): with the parameters
	// it had, or with new ones
	if len(absent) > 0 && (len(as) == 0 || chance(t, "relist", 50)) {
		d := pick(t, "relist/which", absent)
		if chance(t, "relist/same-params", 55) {
			return place(m.assets[d].raw)
		}
		return place(m.genAsset(t, d))
	}
	// an asset listed for the first time, whatever is open for the others
	if len(never) > 0 && (len(as) == 0 || chance(t, "add-asset", 35)) {
		return place(m.genAsset(t, pick(t, "add/which", never)))
	}
	if len(as) == 0 {
		return hOp{Kind: "params", Assets: []assetJ{}}
	}
	i := uni(t, "which-asset", len(as))
	if chance(t, "which-asset/live", 60) { // prefer an asset that is in use
		for j := range as {
			if m.assets[as[j].Denom].live() {
				i = j
				if m.assets[as[j].Denom].busy() {
					break
				}
			}
		}
	}
	a := as[i]
	am := m.assets[a.Denom]
	committed := sum(am.cur, am.in) // what the total limit must cover
	windowUse := sum(am.tlc, am.in) // what the time-based limit must cover
	limit := gen.BigOf(a.Limit)
	if !a.Active && chance(t, "reactivate", 50) {
		a.Active = true
		as[i] = a
		return hOp{Kind: "params", Assets: as}
	}
	change := uni(t, "change", 14)
	if compatOnly && change >= 8 {
		change -= 8
		if change == 7 && am.busy() {
			change = 6
		}
	}
	switch change {
	case 0: // move the limit, never below what is committed nor below the time-based limit
		floor := committed
		if tb := gen.BigOf(a.TBL); tb.Cmp(floor) > 0 {
			floor = tb
		}
		var nl *big.Int
		if chance(t, "limit/exact", 40) {
			nl = new(big.Int).Set(floor)
		} else {
			nl = sum(floor, bi(int64(rapid.IntRange(1, 200).Draw(t, "limit/plus"))))
		}
		a.Limit = nl.String()
	case 1: // move the time-based limit inside [window use, limit]
		floor := bi(0)
		if a.TimeLimited {
			floor = windowUse
		}
		a.TBL = m.genTBL(t, limit, floor).String()
	case 2: // toggle the time limit (switching it on needs room for what is open)
		if a.TimeLimited {
			a.TimeLimited = false
		} else if windowUse.Cmp(gen.BigOf(a.TBL)) <= 0 {
			a.TimeLimited = true
		} else {
			a.PeriodNs = m.genPeriod(t)
		}
	case 3:
		a.PeriodNs = m.genPeriod(t)
	case 4:
		a.Fee = bi(int64(pick(t, "fee", []int{0, 1, 2, 5}))).String()
	case 5:
		a.MinLock, a.MaxLock = m.genLocks(t)
	case 6, 8:
		a.Deputy = 3 - a.Deputy
	case 7, 9: // (de)activate, whatever is open
		a.Active = !a.Active
	case 10, 11: // delist the asset: its supply record and its open transfers stay behind
		as = append(as[:i:i], as[i+1:]...)
		return hOp{Kind: "params", Assets: as}
	case 12: // lower the limit below what is committed
		nl := between(t, "low/limit", bi(0), committed)
		a.Limit = nl.String()
		if gen.BigOf(a.TBL).Cmp(nl) > 0 {
			a.TBL = nl.String()
		}
	default:
		if chance(t, "low/empty-list", 25) { // delist everything at once
			return hOp{Kind: "params", Assets: []assetJ{}}
		}
		// lower the time-based limit below what the window already carries
		a.TimeLimited = true
		a.TBL = between(t, "low/tbl", bi(0), minBig(windowUse, limit)).String()
	}
	as[i] = a
	return hOp{Kind: "params", Assets: as}
}

// ---------------------------------------------------------------------------------------------
// creates

func (m *machine) genSecret(t *rapid.T) string {
	if chance(t, "secret/pool", 80) {
		return poolSecret(uni(t, "secret/idx", 6))
	}
	return drawBytes32(t, "secret/rnd")
}

// genHashLock: mostly the documented binding sha256(secret||timestamp); sometimes a lock that leaves the
// timestamp out although it is non-zero (the generator's secret must then NOT open the contract), sometimes garbage.
func (m *machine) genHashLock(t *rapid.T, secret string, ts uint64) string {
	sec, _ := hex.DecodeString(secret)
	switch s := pct(t, "hashlock"); {
	case s < 86:
		return refHashLock(sec, ts)
	case s < 95:
		return refHashLock(sec, 0)
	default:
		return drawBytes32(t, "hashlock/rnd")
	}
}

func (m *machine) genTimeLock(t *rapid.T, lo, hi uint64) uint64 {
	h := uint64(m.c.Height())
	switch s := pct(t, "timelock"); {
	case s < 62:
		top := lo + 10
		if top > hi {
			top = hi
		}
		return rapid.Uint64Range(lo, top).Draw(t, "timelock/near")
	case s < 80: // share an expiry height with an open contract
		var cands []uint64
		for _, ct := range m.openContracts() {
			if ct.expiry > h && ct.expiry-h >= lo && ct.expiry-h <= hi {
				cands = append(cands, ct.expiry-h)
			}
		}
		if len(cands) > 0 {
			return pick(t, "timelock/share", cands)
		}
		return lo
	case s < 85:
		return hi
	case s < 90:
		return rapid.Uint64Range(lo, hi).Draw(t, "timelock/any")
	case s < 95:
		return lo - 1
	default:
		return hi + 1
	}
}

func (m *machine) genRecipient(t *rapid.T, not int) int {
	switch s := pct(t, "to/kind"); {
	case s < 4 && !avoidToEscrow:
		return toEscrow
	case s < 7:
		return toBlocked
	case s < 11:
		return toGov
	}
	for {
		i := uni(t, "to", len(m.c.E.Users))
		if i != not {
			return i
		}
	}
}

func (m *machine) genPlain(t *rapid.T) hOp {
	op := hOp{Kind: "create"}
	op.Sender = pick(t, "sender", []int{0, 0, 1, 1, 2, 2, 3, 3, 3, 4, 5})
	op.To = m.genRecipient(t, -1)
	op.UpperTo = chance(t, "upper-to", 12)
	sender := m.addrOf(op.Sender)
	cands := append([]string{}, plainDenoms...)
	for _, d := range htltDenoms {
		if m.c.Balance(sender, d).IsPositive() {
			cands = append(cands, d, d) // circulating HTLT coins may be locked in plain contracts too
		}
	}
	n := pick(t, "ncoins", []int{1, 1, 1, 2, 2, 3})
	seen := map[string]bool{}
	for len(op.Coins) < n {
		d := pick(t, "denom", cands)
		if seen[d] {
			continue
		}
		seen[d] = true
		bal := m.c.Balance(sender, d).BigInt()
		var amt *big.Int
		switch {
		case bal.Sign() == 0:
			amt = bi(int64(rapid.IntRange(1, 5).Draw(t, "amt/none")))
		case bal.BitLen() < 64:
			switch uni(t, "amt/rel", 6) {
			case 0:
				amt = new(big.Int).Set(bal)
			case 1:
				amt = sum(bal, bi(1))
			default:
				amt = between(t, "amt/upto", bi(1), bal)
			}
		default:
			amt = gen.Amount(t, "amt", 64)
		}
		op.Coins = append(op.Coins, coinJ{d, amt.String()})
	}
	sort.Slice(op.Coins, func(i, j int) bool { return op.Coins[i].D < op.Coins[j].D })
	if chance(t, "malformed-coins", 3) {
		if len(op.Coins) > 1 && chance(t, "unsorted", 50) {
			op.Coins[0], op.Coins[1] = op.Coins[1], op.Coins[0]
		} else {
			op.Coins[0].A = "0"
		}
	}
	op.Secret = m.genSecret(t)
	now := m.c.Time().Unix()
	switch s := uni(t, "ts/kind", 10); {
	case s < 4:
		op.Timestamp = 0
	case s < 7:
		op.Timestamp = uint64(now)
	default:
		op.Timestamp = uint64(now + int64(rapid.IntRange(-100000, 100000).Draw(t, "ts/off")))
	}
	op.HashLock = m.genHashLock(t, op.Secret, op.Timestamp)
	op.TimeLock = m.genTimeLock(t, minTimeLock, maxTimeLock)
	return op
}

func (m *machine) genTimestampHTLT(t *rapid.T) uint64 {
	past, future := m.tsWindow()
	now := m.c.Time().Unix()
	switch s := pct(t, "ts/kind"); {
	case s < 50:
		return uint64(now)
	case s < 58:
		return uint64(past)
	case s < 63:
		return uint64(past - 1)
	case s < 71:
		return uint64(future - 1)
	case s < 76:
		return uint64(future)
	case s < 79:
		return 0
	default:
		return uint64(now + int64(rapid.IntRange(-800, 1700).Draw(t, "ts/off")))
	}
}

// genAmountIn draws an amount for a window [lo, hi] of acceptable values: mostly inside, with both edges
// and one step outside.
func genAmountIn(t *rapid.T, lo, hi *big.Int) *big.Int {
	if hi.Cmp(lo) < 0 { // nothing fits: try the minimum anyway / a little more
		return sum(lo, bi(int64(rapid.IntRange(0, 2).Draw(t, "amt/nofit"))))
	}
	var v *big.Int
	switch s := pct(t, "amt/kind"); {
	case s < 40:
		v = minBig(hi, sum(lo, bi(int64(rapid.IntRange(0, 20).Draw(t, "amt/low")))))
	case s < 58:
		v = new(big.Int).Set(hi)
	case s < 68:
		v = sum(hi, bi(1))
	case s < 73:
		v = new(big.Int).Sub(lo, bi(1))
	case s < 85: // about half of the room, so that two open transfers meet the limit together
		v = new(big.Int).Rsh(sum(lo, hi, bi(1)), 1)
	default:
		v = between(t, "amt/any", lo, hi)
	}
	if v.Sign() <= 0 {
		v = bi(1)
	}
	return v
}

func (m *machine) genHTLT(t *rapid.T) hOp {
	op := hOp{Kind: "create", Transfer: true}
	if len(m.order) == 0 || chance(t, "htlt/odd-denom", 2) {
		op.Sender, op.To = 1, 0
		op.Coins = []coinJ{{pick(t, "odd-denom", []string{"stake", "htltxrp", "HTLTBNB", "Htltbtc"}), "5"}}
		op.Secret = m.genSecret(t)
		op.Timestamp = uint64(m.c.Time().Unix())
		op.HashLock = m.genHashLock(t, op.Secret, op.Timestamp)
		op.TimeLock = 50
		return op
	}
	// who could send an outgoing transfer right now?
	type holder struct {
		denom string
		user  int
		bal   *big.Int
	}
	var holders []holder
	for _, d := range m.order {
		a := m.assets[d]
		if new(big.Int).Sub(a.cur, a.out).Sign() <= 0 {
			continue
		}
		for u := range m.c.E.Users {
			if u == a.raw.Deputy {
				continue
			}
			if b := m.c.Balance(m.addrOf(u), d).BigInt(); b.Cmp(sum(a.fee, a.min)) >= 0 {
				holders = append(holders, holder{d, u, b})
			}
		}
	}
	outgoing := len(holders) > 0 && chance(t, "htlt/outgoing", 55)
	if !outgoing && len(holders) == 0 && chance(t, "htlt/outgoing-blind", 4) {
		// outgoing without funds / supply: refused
		d := pick(t, "asset", m.order)
		a := m.assets[d]
		op.Sender, op.To = 3, a.raw.Deputy
		op.Coins = []coinJ{{d, sum(a.fee, a.min).String()}}
		op.Secret = m.genSecret(t)
		op.Timestamp = m.genTimestampHTLT(t)
		op.HashLock = m.genHashLock(t, op.Secret, op.Timestamp)
		op.TimeLock = a.raw.MinLock
		return op
	}
	if outgoing {
		h := pick(t, "holder", holders)
		a := m.assets[h.denom]
		op.Sender = h.user
		op.To = a.raw.Deputy
		if chance(t, "out/to-other", 4) {
			op.To = m.genRecipient(t, op.Sender)
		}
		lo := sum(a.fee, a.min)
		hi := minBig(a.max, h.bal, new(big.Int).Sub(a.cur, a.out))
		op.Coins = []coinJ{{h.denom, genAmountIn(t, lo, hi).String()}}
		op.TimeLock = m.genTimeLock(t, a.raw.MinLock, a.raw.MaxLock)
	} else {
		// prefer assets that already have a supply record
		d := pick(t, "asset", m.order)
		a := m.assets[d]
		op.Sender = a.raw.Deputy
		op.To = m.genRecipient(t, -1)
		if op.To == a.raw.Deputy && !chance(t, "in/to-deputy", 30) {
			op.To = (a.raw.Deputy + 2) % 4
		}
		hi := minBig(a.max, new(big.Int).Sub(a.limit, sum(a.cur, a.in)))
		if a.raw.TimeLimited {
			hi = minBig(hi, new(big.Int).Sub(a.tbl, sum(a.tlc, a.in)))
		}
		op.Coins = []coinJ{{d, genAmountIn(t, a.min, hi).String()}}
		op.TimeLock = m.genTimeLock(t, minTimeLock, maxTimeLock)
	}
	op.Secret = m.genSecret(t)
	op.Timestamp = m.genTimestampHTLT(t)
	op.HashLock = m.genHashLock(t, op.Secret, op.Timestamp)
	return op
}

func (m *machine) genDup(t *rapid.T) hOp {
	pool := m.contracts
	if len(m.forgotten) > 0 && (len(pool) == 0 || chance(t, "dup/forgotten", 40)) {
		pool = m.forgotten // closed contracts a restart dropped: their ids are free again
	}
	o := pool[uni(t, "dup/of", len(pool))]
	op := hOp{Kind: "create", Sender: o.senderIdx, To: o.toIdx, HashLock: o.hashLock, Timestamp: o.ts, Transfer: o.transfer, Secret: o.secret}
	op.UpperTo = chance(t, "upper-to", 12)
	for _, c := range o.coins {
		op.Coins = append(op.Coins, coinJ{c.denom, c.amt.String()})
	}
	op.TimeLock = rapid.Uint64Range(50, 60).Draw(t, "dup/timelock")
	switch s := uni(t, "dup/kind", 10); {
	case s < 5: // byte-identical terms
	case s < 8: // same id, other timestamp (the id does not cover it)
		if o.transfer {
			op.Timestamp = uint64(m.c.Time().Unix())
		} else {
			op.Timestamp = o.ts + 1
		}
	default: // near duplicate: one unit more, a different id
		op.Coins[0].A = sum(o.coins[0].amt, bi(1)).String()
	}
	return op
}

// ---------------------------------------------------------------------------------------------
// claims and blocks

func (m *machine) genClaim(t *rapid.T, open []*contract) hOp {
	op := hOp{Kind: "claim", Who: uni(t, "who", len(m.c.E.Users))}
	h := uint64(m.c.Height())
	var racing []*contract
	for _, ct := range m.contracts {
		if ct.expiry == h || ct.expiry == h+1 {
			racing = append(racing, ct)
		}
	}
	var ct *contract
	switch s := pct(t, "claim/target"); {
	case len(racing) > 0 && s < 45:
		ct = pick(t, "claim/racing", racing)
	case len(open) > 0 && s < 80:
		ct = pick(t, "claim/open", open)
	case len(m.forgotten) > 0 && s >= 80 && s < 86:
		ct = pick(t, "claim/forgotten", m.forgotten)
	case len(m.contracts) > 0 && s < 95:
		ct = pick(t, "claim/any", m.contracts)
	}
	if ct == nil {
		op.ID = drawBytes32(t, "claim/unknown-id")
		op.Secret = m.genSecret(t)
		return op
	}
	op.ID = ct.id
	switch s := pct(t, "claim/secret"); {
	case s < 68:
		op.Secret = ct.secret
	case s < 83 && len(m.contracts) > 0:
		op.Secret = m.contracts[uni(t, "claim/other", len(m.contracts))].secret
	case s < 96:
		op.Secret = m.genSecret(t)
	default:
		op.Secret = ct.secret[:62] // too short
	}
	if len(op.Secret) == 0 {
		op.Secret = poolSecret(0)
	}
	// C03 mode: completing an incoming transfer needs room under the asset's limits; after an incompatible
	// parameter change (F11, a governance precondition) the right secret is not presented
	if m.c03() && !switchF11 && ct.state == stOpen && ct.transfer && ct.dir == dirIn && m.byID[ct.id] == ct {
		a := m.assets[ct.coins[0].denom]
		if sec, err := hex.DecodeString(op.Secret); err == nil && len(sec) == 32 && refHashLock(sec, ct.ts) == ct.hashLock &&
			(a == nil || !a.present || !a.withinLimits()) {
			op.Secret = drawBytes32(t, "claim/withheld")
			op.Note = "skipped:C03/right-claim-rejected-asset-outside-limits"
		}
	}
	return op
}

func (m *machine) genBlock(t *rapid.T, open []*contract) hOp {
	op := hOp{Kind: "block", N: 1}
	h := uint64(m.c.Height())
	var exps []uint64
	for _, ct := range open {
		if ct.expiry > h && ct.expiry-h <= 70 {
			exps = append(exps, ct.expiry)
		}
	}
	sort.Slice(exps, func(i, j int) bool { return exps[i] < exps[j] })
	if m.n.blocks < maxBlocks {
		if len(exps) > 0 {
			e := exps[0]
			if chance(t, "block/later-expiry", 30) {
				e = pick(t, "block/which", exps)
			}
			d := int(e - h)
			switch s := pct(t, "block/stop"); {
			case s < 30:
				op.N = d - 1
			case s < 60:
				op.N = d
			case s < 68:
				op.N = d + 1
			case s < 88:
				op.N = 1
			default:
				op.N = rapid.IntRange(2, 10).Draw(t, "block/n")
			}
		} else {
			op.N = rapid.IntRange(1, 5).Draw(t, "block/n")
		}
		if op.N < 1 {
			op.N = 1
		}
	}
	if len(open) > 0 && (switchF11 || !m.importNeedsCompatibleParams()) && chance(t, "block/restart", 10) {
		op.Restart = true
	}
	// block time: either the usual steps, or aimed at the end of an asset's limit window
	var tl []*assetM
	for _, d := range m.order {
		if a := m.assets[d]; a.raw.TimeLimited && a.hasSupply {
			tl = append(tl, a)
		}
	}
	aim := 15
	if m.c04() {
		aim = 45
	}
	if len(tl) > 0 && chance(t, "dt/aim", aim) {
		a := tl[uni(t, "dt/asset", len(tl))]
		rem := a.raw.PeriodNs - a.elapsed
		if chance(t, "dt/single", 50) {
			op.N = 1
		}
		op.Dt = rem / int64(op.N)
		if op.N == 1 || rem%int64(op.N) == 0 {
			op.Dt += int64(pick(t, "dt/edge", []int{0, 0, 0, -1, 1}))
		}
		if op.Dt < 1 {
			op.Dt = 1
		}
		return op
	}
	op.Dt = gen.Dt(t, "dt")
	return op
}
