package c03

import (
	"bytes"
	"context"
	"crypto/sha256"
	"encoding/binary"
	"encoding/hex"
	"encoding/json"
	"fmt"
	"math/big"
	"os"
	"regexp"
	"sort"
	"strings"
	"sync"
	"time"

	sdk "github.com/cosmos/cosmos-sdk/types"

	htlctypes "mods.irisnet.org/modules/htlc/types"
	"mods.irisnet.org/simapp"

	"verifharness/chain"
	"verifharness/gen"
	"verifharness/pbt"
)

// ---------------------------------------------------------------------------------------------
// environment: the default universe, but with a deterministic htlc "previous block time" (the module's
// default genesis carries time.Now(), which would make the limit window depend on the wall clock).

var (
	envOnce sync.Once
	envC03  *chain.Env
)

func env() *chain.Env {
	envOnce.Do(func() {
		envC03 = chain.NewEnv(chain.Options{GenesisMod: func(app *simapp.SimApp, gs simapp.GenesisState) {
			var g htlctypes.GenesisState
			app.AppCodec().MustUnmarshalJSON(gs[htlctypes.ModuleName], &g)
			g.PreviousBlockTime = chain.GenesisTimeDefault
			gs[htlctypes.ModuleName] = app.AppCodec().MustMarshalJSON(&g)
		}})
	})
	return envC03
}

// strict turns disagreements between the model's prediction of *create* acceptance and the code into
// failures (development aid: validates the model's reading of the preconditions the properties do not
// talk about).  Off by default: the model then simply follows the code's outcome.
var strict = os.Getenv("VERIF_C03_STRICT") != ""
var debug = os.Getenv("VERIF_C03_DEBUG") != ""

// ---------------------------------------------------------------------------------------------
// operations (plain JSON data)

type coinJ struct {
	D string `json:"d"`
	A string `json:"a"`
}

type assetJ struct {
	Denom       string `json:"denom"`
	Limit       string `json:"limit"`
	TimeLimited bool   `json:"tl,omitempty"`
	PeriodNs    int64  `json:"period_ns,omitempty"`
	TBL         string `json:"tbl"`
	Active      bool   `json:"active,omitempty"`
	Deputy      int    `json:"deputy"`
	Fee         string `json:"fee"`
	Min         string `json:"min"`
	Max         string `json:"max"`
	MinLock     uint64 `json:"min_lock"`
	MaxLock     uint64 `json:"max_lock"`
}

type hOp struct {
	Kind string `json:"kind"` // params | create | claim | block | reimport | skip
	// skip: an operation the generator left out by construction (Note names the excluded signature);
	// claim: Note is set when the generator replaced a right secret by a wrong one for the same reason
	Note string `json:"note,omitempty"`
	// params: the complete asset list handed to MsgUpdateParams by the authority
	Assets []assetJ `json:"assets,omitempty"`
	// create
	Sender    int     `json:"sender,omitempty"`
	To        int     `json:"to,omitempty"` // 0..5 users, 6 htlc module account, 7 fee collector (blocked), 8 gov module account
	Coins     []coinJ `json:"coins,omitempty"`
	HashLock  string  `json:"hash_lock,omitempty"`
	Timestamp uint64  `json:"timestamp,omitempty"`
	TimeLock  uint64  `json:"time_lock,omitempty"`
	Transfer  bool    `json:"transfer,omitempty"`
	Respell   bool    `json:"respell,omitempty"`  // reimport: the exported genesis is edited by hand first - hash locks and ids in lower-case hex, addresses in upper case
	UpperTo   bool    `json:"upper_to,omitempty"` // create: the recipient address is written in upper case
	// create: the secret the generator built the hash lock from (bookkeeping for later claims, not sent);
	// claim: the secret presented
	Secret string `json:"secret,omitempty"`
	// claim
	Who int    `json:"who,omitempty"`
	ID  string `json:"id,omitempty"`
	// block: N blocks, each advancing block time by Dt ns
	N  int   `json:"n,omitempty"`
	Dt int64 `json:"dt,omitempty"`
	// block: the module is exported and imported again between the last two of these blocks
	Restart bool `json:"restart,omitempty"`
}

const (
	stOpen      = 0
	stCompleted = 1
	stRefunded  = 2

	dirNone = 0
	dirIn   = 1
	dirOut  = 2

	toEscrow  = 6
	toBlocked = 7
	toGov     = 8

	minTimeLock = 50
	maxTimeLock = 34560
)

var stName = []string{"open", "completed", "refunded"}

// ---------------------------------------------------------------------------------------------
// reference model

type mcoin struct {
	denom string
	amt   *big.Int
}

type contract struct {
	id        string // lower-case hex
	senderIdx int
	toIdx     int
	sender    sdk.AccAddress
	to        sdk.AccAddress
	coins     []mcoin
	hashLock  string // lower-case hex
	ts        uint64
	expiry    uint64
	transfer  bool
	dir       int
	state     int    // model state
	seen      int    // last state the chain reported
	secret    string // generator's secret (generation only)
	claims    int    // claim attempts so far (classification)
	imported  int    // number of restarts (genesis export+import) this contract went through while open
}

type assetM struct {
	present bool
	raw     assetJ
	limit   *big.Int
	tbl     *big.Int
	fee     *big.Int
	min     *big.Int
	max     *big.Int
	// supply record model
	hasSupply bool
	in        *big.Int
	out       *big.Int
	cur       *big.Int
	tlc       *big.Int // amount completed inside the current limit window (time-limited assets)
	elapsed   int64
	// "was within its limits at the previous observation of the current parameter epoch"
	okLimit bool
	okTBL   bool
	fresh   bool // parameter epoch just started (C04: the two flags above are taken from the chain's record)
}

type counters struct {
	claimAtExpiryM1, claimAtExpiry, multiRefund, secondClaim, claimAfterRefund, dupCreate   int
	wrongSecret, unknownID, unboundClaim                                                    int
	plainCreated, inCreated, outCreated, plainClaimed, inClaimed, outClaimed                int
	plainRefunded, inRefunded, outRefunded                                                  int
	rejectedCreates, sharedBucket, paramChanges, windowResets, windowResetsNZ, windowExact  int
	limitHit, tbLimitHit, toEscrowClaimed, predMismatch, panics, overflows, blocks, maxLock int
	f11Changes, f11ClaimRejected                                                            int
	// restarts
	respelled                                                                                       int
	reimports, reimpOpenPlain, reimpOpenIn, reimpOpenOut, reimpForgot, reimpSupply, reimpAtExpiryM1 int
	bursts, burstRefunded                                                                           int
	boundaryRestarts, boundaryRestartsAtExpiry, upperTo                                             int
	impPlainRefunded, impInRefunded, impOutRefunded, impClaimed, impTwice                           int
	recreatedForgotten, claimForgotten                                                              int
	// parameter-change shapes
	delist, delistLive, relist, relistLive, relistNewParams, deactivateBusy, reactivate, reactivateBusy int
	deputyChangedBusy, limitBelowCommitted, firstAddWhileOpen, emptyList                                int
}

type machine struct {
	mode      string // "C03" | "C04"
	c         *chain.Case
	contracts []*contract
	byID      map[string]*contract
	assets    map[string]*assetM
	order     []string // denoms in parameter order (present assets)
	prevTime  time.Time
	installed bool
	quiet     bool // inside a burst
	n         counters
	why       map[string]int // refused creates by predicted reason (reported with VERIF_C03_DEBUG)
	// what a restart forgets: the htlc genesis carries only OPEN contracts, so closed ones are gone afterwards.
	// Their effect on the supply counters stays (the supply records are carried): curBase = minted minus burned by
	// forgotten completed transfers, strandedBase = what forgotten contracts paid out to the escrow account itself.
	forgotten    []*contract
	forgottenID  map[string]*contract
	curBase      map[string]*big.Int
	strandedBase map[string]*big.Int
	skipped      map[string]int // exclusions by construction, by signature
}

func newMachine(mode string) *machine {
	c := env().NewCase()
	return &machine{mode: mode, c: c, byID: map[string]*contract{}, assets: map[string]*assetM{}, prevTime: chain.GenesisTimeDefault,
		forgottenID: map[string]*contract{}, curBase: map[string]*big.Int{}, strandedBase: map[string]*big.Int{}, skipped: map[string]int{}}
}

func newC03() pbt.Machine[hOp] { return newMachine("C03") }
func newC04() pbt.Machine[hOp] { return newMachine("C04") }

func (m *machine) c03() bool { return m.mode == "C03" }
func (m *machine) c04() bool { return m.mode == "C04" }

func (m *machine) escrow() sdk.AccAddress { return chain.ModuleAddr(htlctypes.ModuleName) }

func (m *machine) addrOf(i int) sdk.AccAddress {
	switch {
	case i >= 0 && i < len(m.c.E.Users):
		return m.c.E.Users[i].Addr
	case i == toEscrow:
		return m.escrow()
	case i == toBlocked:
		return chain.BlockedAddrs()[0]
	default:
		return m.c.E.Gov
	}
}

func big0() *big.Int { return new(big.Int) }

func parseCoins(cs []coinJ) []mcoin {
	out := make([]mcoin, 0, len(cs))
	for _, c := range cs {
		v, ok := new(big.Int).SetString(c.A, 10)
		if !ok {
			v = big0()
		}
		out = append(out, mcoin{c.D, v})
	}
	return out
}

// coinsString renders coins the way the documented id formula expects: sorted by denom, "<amount><denom>"
// joined by commas.
func coinsString(cs []mcoin) string {
	s := append([]mcoin{}, cs...)
	sort.SliceStable(s, func(i, j int) bool { return s[i].denom < s[j].denom })
	parts := make([]string, len(s))
	for i, c := range s {
		parts[i] = c.amt.String() + c.denom
	}
	return strings.Join(parts, ",")
}

// refID = sha256(hashLock || sender || to || amount)
func refID(hashLock []byte, sender, to sdk.AccAddress, cs []mcoin) string {
	h := sha256.New()
	h.Write(hashLock)
	h.Write(sender)
	h.Write(to)
	h.Write([]byte(coinsString(cs)))
	return hex.EncodeToString(h.Sum(nil))
}

// refHashLock = sha256(secret || bigEndian(timestamp)) ; the timestamp is left out when it is zero
func refHashLock(secret []byte, ts uint64) string {
	h := sha256.New()
	h.Write(secret)
	if ts > 0 {
		var b [8]byte
		binary.BigEndian.PutUint64(b[:], ts)
		h.Write(b[:])
	}
	return hex.EncodeToString(h.Sum(nil))
}

func isHex(s string, n int) bool {
	if len(s) != n {
		return false
	}
	_, err := hex.DecodeString(s)
	return err == nil
}

func (m *machine) parseAsset(a assetJ) *assetM {
	return &assetM{raw: a, limit: gen.BigOf(a.Limit), tbl: gen.BigOf(a.TBL), fee: gen.BigOf(a.Fee), min: gen.BigOf(a.Min), max: gen.BigOf(a.Max),
		in: big0(), out: big0(), cur: big0(), tlc: big0()}
}

func sum(xs ...*big.Int) *big.Int {
	s := big0()
	for _, x := range xs {
		s.Add(s, x)
	}
	return s
}

// withinLimits: the inductive invariants that guarantee every open incoming transfer can still be completed.
func (a *assetM) withinLimits() bool {
	if sum(a.cur, a.in).Cmp(a.limit) > 0 {
		return false
	}
	if a.raw.TimeLimited && sum(a.tlc, a.in).Cmp(a.tbl) > 0 {
		return false
	}
	return true
}

// validAssets mirrors the documented validity rules of the parameters (only used in strict mode).
func validAssets(as []assetJ, nUsers int) bool {
	seen := map[string]bool{}
	for _, a := range as {
		if !strings.HasPrefix(a.Denom, "htlt") || len(a.Denom) < 6 || seen[a.Denom] {
			return false
		}
		seen[a.Denom] = true
		l, tb, fee, mn, mx := gen.BigOf(a.Limit), gen.BigOf(a.TBL), gen.BigOf(a.Fee), gen.BigOf(a.Min), gen.BigOf(a.Max)
		if l.Sign() < 0 || tb.Sign() < 0 || tb.Cmp(l) > 0 || fee.Sign() < 0 || mn.Sign() <= 0 || mx.Sign() <= 0 || mn.Cmp(mx) > 0 {
			return false
		}
		if a.MinLock < minTimeLock || a.MaxLock > maxTimeLock || a.MinLock > a.MaxLock {
			return false
		}
	}
	return true
}

func (a *assetM) live() bool {
	return a.cur.Sign() > 0 || a.in.Sign() > 0 || a.out.Sign() > 0
}

func (a *assetM) busy() bool { return a.in.Sign() > 0 || a.out.Sign() > 0 }

// applyParams: the model of an accepted parameter update.  The supply record of an asset belongs to its denom,
// not to its listing: an asset that leaves the list keeps its record (counters and window state frozen while it
// is not listed) and gets it back when it is listed again.
func (m *machine) applyParams(as []assetJ) {
	old := m.assets
	wasInstalled := m.installed
	wasPresent := map[string]bool{}
	openOther := func(denom string) bool {
		for d, a := range old {
			if d != denom && a.busy() {
				return true
			}
		}
		return false
	}
	m.order = m.order[:0]
	for d, a := range old {
		wasPresent[d] = a.present
		a.present = false
	}
	for _, aj := range as {
		na := m.parseAsset(aj)
		na.present = true
		if o, ok := old[aj.Denom]; ok {
			na.hasSupply, na.in, na.out, na.cur, na.tlc, na.elapsed = o.hasSupply, o.in, o.out, o.cur, o.tlc, o.elapsed
			relisted := !wasPresent[aj.Denom]
			if o.raw == aj && !relisted {
				na.okLimit, na.okTBL = o.okLimit, o.okTBL
			} else {
				// new parameter epoch: the "while unchanged" clauses start from how the new parameters fit now
				na.okLimit = sum(na.cur, na.in).Cmp(na.limit) <= 0
				na.okTBL = !aj.TimeLimited || na.tlc.Cmp(na.tbl) <= 0
				na.fresh = true
				m.n.paramChanges++
			}
			if relisted {
				m.n.relist++
				if na.live() {
					m.n.relistLive++
				}
				if o.raw != aj {
					m.n.relistNewParams++
				}
			} else {
				if o.raw.Active && !aj.Active && na.busy() {
					m.n.deactivateBusy++
				}
				if !o.raw.Active && aj.Active {
					m.n.reactivate++
					if na.busy() {
						m.n.reactivateBusy++
					}
				}
				if o.raw.Deputy != aj.Deputy && na.busy() {
					m.n.deputyChangedBusy++
				}
			}
		} else {
			na.okLimit, na.okTBL = true, true
			if wasInstalled && openOther(aj.Denom) {
				m.n.firstAddWhileOpen++
			}
		}
		if !na.withinLimits() {
			m.n.f11Changes++
			m.n.limitBelowCommitted++
		}
		m.assets[aj.Denom] = na
		m.order = append(m.order, aj.Denom)
	}
	for d, a := range m.assets {
		if a.present || !wasPresent[d] {
			continue
		}
		m.n.delist++
		if a.live() {
			m.n.delistLive++
		}
		if a.busy() {
			m.n.f11Changes++
		}
	}
	if len(as) == 0 && wasInstalled {
		m.n.emptyList++
	}
	m.installed = m.installed || len(as) > 0
}

// modelBegin is the model's begin-block: refunds of everything due exactly now, then the limit windows.
func (m *machine) modelBegin(h int64, now time.Time) (due []*contract) {
	for _, ct := range m.contracts {
		if ct.state == stOpen && ct.expiry == uint64(h) {
			ct.state = stRefunded
			due = append(due, ct)
			if ct.imported > 0 {
				switch {
				case !ct.transfer:
					m.n.impPlainRefunded++
				case ct.dir == dirIn:
					m.n.impInRefunded++
				default:
					m.n.impOutRefunded++
				}
			}
			if ct.transfer {
				if a := m.assets[ct.coins[0].denom]; a != nil {
					switch ct.dir {
					case dirIn:
						a.in = new(big.Int).Sub(a.in, ct.coins[0].amt)
						m.n.inRefunded++
					case dirOut:
						a.out = new(big.Int).Sub(a.out, ct.coins[0].amt)
						m.n.outRefunded++
					}
				}
			} else {
				m.n.plainRefunded++
			}
		}
	}
	if len(due) > 100 {
		m.n.burstRefunded++
	}
	if len(due) >= 2 {
		m.n.multiRefund++
	}
	if len(m.order) == 0 {
		return due
	}
	delta := now.Sub(m.prevTime).Nanoseconds()
	for _, d := range m.order {
		a := m.assets[d]
		a.hasSupply = true
		ne := a.elapsed + delta
		if a.raw.TimeLimited && ne < a.raw.PeriodNs {
			a.elapsed = ne
		} else {
			if a.raw.TimeLimited {
				m.n.windowResets++
				if a.tlc.Sign() > 0 {
					m.n.windowResetsNZ++
				}
				if ne == a.raw.PeriodNs {
					m.n.windowExact++
				}
			}
			a.elapsed = 0
			a.tlc = big0()
		}
	}
	m.prevTime = now
	return due
}

// pastFuture returns the bounds of the accepted timestamp window [past, future) at the current block time.
func (m *machine) tsWindow() (int64, int64) {
	bt := m.c.Time()
	return bt.Add(-15 * time.Minute).Unix(), bt.Add(30 * time.Minute).Unix()
}

// predictCreate: would a create with these arguments be accepted?  (reason is informative)
func (m *machine) predictCreate(op hOp, sender, to sdk.AccAddress, cs []mcoin, id string) (bool, string) {
	if !isHex(op.HashLock, 64) {
		return false, "hash lock format"
	}
	if op.TimeLock < minTimeLock || op.TimeLock > maxTimeLock {
		return false, "time lock range"
	}
	if len(cs) == 0 || (op.Transfer && len(cs) != 1) {
		return false, "coin count"
	}
	for i, c := range cs {
		if c.amt.Sign() <= 0 || (i > 0 && cs[i-1].denom >= c.denom) {
			return false, "coins invalid"
		}
	}
	if op.To == toBlocked {
		return false, "blocked recipient"
	}
	if _, dup := m.byID[id]; dup {
		return false, "duplicate"
	}
	enough := func() bool {
		for _, c := range cs {
			if m.c.Balance(sender, c.denom).BigInt().Cmp(c.amt) < 0 {
				return false
			}
		}
		return true
	}
	if !op.Transfer {
		if !enough() {
			return false, "funds"
		}
		return true, ""
	}
	a := m.assets[cs[0].denom]
	amt := cs[0].amt
	if a == nil || !a.present {
		return false, "asset unknown"
	}
	if !a.raw.Active {
		return false, "asset inactive"
	}
	if amt.Cmp(a.min) < 0 || amt.Cmp(a.max) > 0 {
		return false, "amount range"
	}
	past, future := m.tsWindow()
	if op.Timestamp < uint64(past) || op.Timestamp >= uint64(future) {
		return false, "timestamp window"
	}
	dep := m.addrOf(a.raw.Deputy)
	if sender.Equals(dep) {
		if to.Equals(dep) {
			return false, "deputy to deputy"
		}
		if !a.hasSupply {
			return false, "no supply record yet"
		}
		if sum(a.cur, a.in, amt).Cmp(a.limit) > 0 {
			m.n.limitHit++
			return false, "limit"
		}
		if a.raw.TimeLimited && sum(a.tlc, a.in, amt).Cmp(a.tbl) > 0 {
			m.n.tbLimitHit++
			return false, "time-based limit"
		}
		return true, ""
	}
	if !to.Equals(dep) {
		return false, "recipient not deputy"
	}
	if op.TimeLock < a.raw.MinLock || op.TimeLock > a.raw.MaxLock {
		return false, "asset lock range"
	}
	if amt.Cmp(sum(a.fee, a.min)) < 0 {
		return false, "fee"
	}
	if !a.hasSupply {
		return false, "no supply record yet"
	}
	if a.cur.Cmp(sum(a.out, amt)) < 0 {
		return false, "available supply"
	}
	if !enough() {
		return false, "funds"
	}
	return true, ""
}

func sdkCoins(cs []mcoin) sdk.Coins {
	out := make(sdk.Coins, 0, len(cs))
	for _, c := range cs {
		out = append(out, sdk.Coin{Denom: c.denom, Amount: gen.ToInt(c.amt)})
	}
	return out
}

// htlcImage is a digest of the htlc module store (for "a rejected message changes nothing").
func (m *machine) htlcImage() string {
	keys, vals := m.c.RawStore(htlctypes.StoreKey, nil)
	h := sha256.New()
	for i := range keys {
		fmt.Fprintf(h, "%d:%x=%d:%x;", len(keys[i]), keys[i], len(vals[i]), vals[i])
	}
	return hex.EncodeToString(h.Sum(nil))
}

func (m *machine) sig(s string) string { return m.mode + "/" + s }

// ---------------------------------------------------------------------------------------------
// Apply

func (m *machine) Apply(op hOp) error {
	switch op.Kind {
	case "params":
		return m.applyParamsOp(op)
	case "create":
		return m.applyCreate(op)
	case "claim":
		return m.applyClaim(op)
	case "block":
		return m.applyBlocks(op)
	case "reimport":
		return m.applyReimport(op)
	case "burst":
		if op.N < 1 || op.N > 400 {
			return fmt.Errorf("bad replay op %+v", op)
		}
		m.quiet = true
		for i := 0; i < op.N; i++ {
			sec := sha256.Sum256([]byte(fmt.Sprintf("c03-burst-%d", i)))
			one := hOp{Kind: "create", Sender: op.Sender, To: op.To, Coins: op.Coins, TimeLock: op.TimeLock, Secret: hex.EncodeToString(sec[:]),
				HashLock: refHashLock(sec[:], 0)}
			if err := m.applyCreate(one); err != nil {
				m.quiet = false
				return err
			}
		}
		m.quiet = false
		m.n.bursts++
		return m.afterStep()
	case "skip":
		m.skipped[op.Note]++
		return m.afterStep()
	}
	return nil
}

// importNeedsCompatibleParams: the htlc genesis import asserts that every supply record belongs to a listed asset
// and sits inside that asset's limit, and that the asset of every open transfer is listed and active.  After a
// parameter change that delists / deactivates an asset in use or lowers a limit below what is committed (F11 of
// DESIGN section 5, decided to be a governance precondition) the module's own export is therefore refused.
func (m *machine) importNeedsCompatibleParams() bool {
	for _, a := range m.assets {
		if !a.hasSupply {
			continue
		}
		if !a.present {
			return true
		}
		if sum(a.cur, a.in).Cmp(a.limit) > 0 || a.out.Cmp(a.limit) > 0 {
			return true
		}
	}
	for _, ct := range m.contracts {
		if ct.state == stOpen && ct.transfer {
			if a := m.assets[ct.coins[0].denom]; a == nil || !a.present || !a.raw.Active {
				return true
			}
		}
	}
	return false
}

// applyReimport: the module is restarted from its own exported genesis and the history continues.  The genesis
// carries the parameters, the supply records, the previous block time and the OPEN contracts; closed contracts
// are forgotten (the model forgets them too: nothing is asserted about their ids afterwards except that a claim
// on them is still refused).
// hexFieldRe matches the hash locks of an exported htlc genesis together with their key (the key is lower case already).
var hexFieldRe = regexp.MustCompile(`"hash_lock":\s*"[0-9A-Fa-f]+"`)

func (m *machine) applyReimport(op hOp) error {
	var before chain.Sheet
	if m.c03() {
		before = m.c.Snapshot()
	}
	reported := make([]int, len(m.contracts))
	for i, ct := range m.contracts {
		h, err := m.query(ct.id)
		if err != nil || h == nil {
			return pbt.Failf(m.sig("query-failed"), "contract %s cannot be queried before the restart: %v", ct.id, err)
		}
		reported[i] = int(h.State)
	}
	if op.Respell {
		// the same state in another spelling that the module's validation accepts (hex is case-insensitive; what the
		// module would refuse is imported as exported instead)
		m.c.GenesisEdit = func(_ string, exported json.RawMessage) json.RawMessage {
			return hexFieldRe.ReplaceAllFunc(exported, func(b []byte) []byte { return bytes.ToLower(b) })
		}
	}
	ei := m.c.EditedImports
	exported, stage, err := m.c.Reimport(htlctypes.ModuleName)
	m.c.GenesisEdit = nil
	if m.c.EditedImports > ei {
		m.n.respelled++
	}
	if err != nil {
		ex := string(exported)
		if len(ex) > 1500 {
			ex = ex[:1500] + "..."
		}
		return pbt.Failf(m.sig("reimport-"+stage), "height %d: restart of the htlc module from its own export failed: %v; exported: %s", m.c.Height(), err, ex)
	}
	m.n.reimports++
	h := uint64(m.c.Height())
	keep := make([]*contract, 0, len(m.contracts))
	var nPlain, nIn, nOut int
	for i, ct := range m.contracts {
		if reported[i] != stOpen {
			if reported[i] == stCompleted {
				d, amt := ct.coins[0].denom, ct.coins[0].amt
				if ct.transfer && ct.dir == dirIn {
					addTo(m.curBase, d, amt)
				}
				if ct.transfer && ct.dir == dirOut {
					addTo(m.curBase, d, new(big.Int).Neg(amt))
				}
				if ct.toIdx == toEscrow && (!ct.transfer || ct.dir == dirIn) {
					for _, c := range ct.coins {
						addTo(m.strandedBase, c.denom, c.amt)
					}
				}
			}
			delete(m.byID, ct.id)
			m.forgotten = append(m.forgotten, ct)
			m.forgottenID[ct.id] = ct
			m.n.reimpForgot++
			continue
		}
		ct.imported++
		if ct.imported >= 2 {
			m.n.impTwice++
		}
		if ct.expiry == h+1 {
			m.n.reimpAtExpiryM1++
		}
		switch {
		case !ct.transfer:
			nPlain++
		case ct.dir == dirIn:
			nIn++
		default:
			nOut++
		}
		keep = append(keep, ct)
	}
	m.contracts = keep
	if nPlain > 0 {
		m.n.reimpOpenPlain++
	}
	if nIn > 0 {
		m.n.reimpOpenIn++
	}
	if nOut > 0 {
		m.n.reimpOpenOut++
	}
	for _, a := range m.assets {
		if a.hasSupply && a.cur.Sign() > 0 {
			m.n.reimpSupply++
			break
		}
	}
	if m.c03() {
		if d := chain.Diff(before, m.c.Snapshot()); !d.Empty() {
			return pbt.Failf("C03/reimport-moved-coins", "height %d: restart of the htlc module moved coins: %s", m.c.Height(), d)
		}
		return m.c03States()
	}
	return m.c04Boundary("after the restart")
}

func (m *machine) applyParamsOp(op hOp) error {
	ps := htlctypes.Params{AssetParams: []htlctypes.AssetParam{}}
	for _, a := range op.Assets {
		ps.AssetParams = append(ps.AssetParams, htlctypes.AssetParam{
			Denom: a.Denom,
			SupplyLimit: htlctypes.SupplyLimit{Limit: gen.ToInt(gen.BigOf(a.Limit)), TimeLimited: a.TimeLimited,
				TimePeriod: time.Duration(a.PeriodNs), TimeBasedLimit: gen.ToInt(gen.BigOf(a.TBL))},
			Active: a.Active, DeputyAddress: m.addrOf(a.Deputy).String(), FixedFee: gen.ToInt(gen.BigOf(a.Fee)),
			MinSwapAmount: gen.ToInt(gen.BigOf(a.Min)), MaxSwapAmount: gen.ToInt(gen.BigOf(a.Max)),
			MinBlockLock: a.MinLock, MaxBlockLock: a.MaxLock,
		})
	}
	res := m.c.Deliver(&htlctypes.MsgUpdateParams{Authority: m.c.E.Gov.String(), Params: ps})
	if res.Outcome == chain.OK {
		if strict && !validAssets(op.Assets, len(m.c.E.Users)) {
			return pbt.Failf("harness/params-prediction", "invalid parameters accepted: %+v", op.Assets)
		}
		m.applyParams(op.Assets)
		if m.c04() {
			m.epochStart()
		}
	} else if strict && validAssets(op.Assets, len(m.c.E.Users)) {
		return pbt.Failf("harness/params-prediction", "valid parameters rejected: %v", res)
	}
	return m.afterStep()
}

// epochStart (C04): "while the parameters are unchanged" starts from how the new parameters fit what the chain has
// recorded at the moment of the change (not from the model's idea of it).
func (m *machine) epochStart() {
	for _, d := range m.order {
		a := m.assets[d]
		if !a.fresh {
			continue
		}
		a.fresh = false
		resp, err := m.c.E.K.HTLC.AssetSupply(context.Context(m.c.Ctx), &htlctypes.QueryAssetSupplyRequest{Denom: d})
		if err != nil || resp.AssetSupply == nil {
			continue
		}
		s := resp.AssetSupply
		a.okLimit = sum(s.CurrentSupply.Amount.BigInt(), s.IncomingSupply.Amount.BigInt()).Cmp(a.limit) <= 0
		a.okTBL = !a.raw.TimeLimited || s.TimeLimitedCurrentSupply.Amount.BigInt().Cmp(a.tbl) <= 0
	}
}

func (m *machine) applyCreate(op hOp) error {
	sender, to := m.addrOf(op.Sender), m.addrOf(op.To)
	cs := parseCoins(op.Coins)
	hl, _ := hex.DecodeString(op.HashLock)
	id := refID(hl, sender, to, cs)
	predOK, why := m.predictCreate(op, sender, to, cs, id)
	toStr := to.String()
	if op.UpperTo {
		toStr = strings.ToUpper(toStr) // the same account: a bech32 string is valid in all-upper-case form as well
	}
	msg := &htlctypes.MsgCreateHTLC{Sender: sender.String(), To: toStr, Amount: sdkCoins(cs), HashLock: op.HashLock,
		Timestamp: op.Timestamp, TimeLock: op.TimeLock, Transfer: op.Transfer}
	if op.Transfer {
		msg.ReceiverOnOtherChain, msg.SenderOnOtherChain = "0xreceiver", "0xsender"
	}
	var before chain.Sheet
	var img string
	if m.c03() {
		before, img = m.c.Snapshot(), m.htlcImage()
	}
	height := m.c.Height()
	res := m.c.Deliver(msg)
	if res.Outcome != chain.OK {
		m.n.rejectedCreates++
		m.countBad(res)
		if debug {
			if m.why == nil {
				m.why = map[string]int{}
			}
			m.why[fmt.Sprintf("%v/%s", op.Transfer, why)]++
		}
		if why == "duplicate" {
			m.n.dupCreate++
		}
		if m.c03() {
			if err := m.unchanged(before, img, "create", res); err != nil {
				return err
			}
		}
		// (a tree that refuses the htlc module account as recipient is as good as one that does not)
		if strict && predOK && res.Outcome != chain.Overflow && op.To != toEscrow {
			return pbt.Failf("harness/create-prediction", "create predicted valid was refused: %v op=%+v", res, op)
		}
		return m.afterStep()
	}
	resp, ok := res.Resp.(*htlctypes.MsgCreateHTLCResponse)
	if !ok {
		return pbt.Failf(m.sig("response"), "unexpected response %T", res.Resp)
	}
	gotID := strings.ToLower(resp.Id)
	if op.UpperTo {
		m.n.upperTo++
	}
	if m.c03() && op.To == toEscrow && !op.Transfer {
		// a claim would "pay" escrow -> escrow and an expiry refunds nothing after a claim: these funds can never leave
		// the escrow account once, whatever happens
		return pbt.Failf("C03/escrow-account-accepted-as-recipient", "contract %s names the htlc escrow account itself (%s) as recipient and was accepted: its funds can never leave escrow", gotID, toStr)
	}
	if m.c03() {
		if gotID != id {
			return pbt.Failf("C03/id-mismatch", "contract id %s, sha256(hashlock||sender||to||amount) = %s", gotID, id)
		}
		if _, dup := m.byID[id]; dup {
			return pbt.Failf("C03/duplicate-id-accepted", "second create of existing id %s accepted", id)
		}
	}
	if _, dup := m.byID[gotID]; dup {
		// (C04 mode) a re-created id overwrites the record; the sums below would count it twice - stop following it
		return pbt.Failf(m.sig("duplicate-id-accepted"), "second create of existing id %s accepted", gotID)
	}
	if !predOK {
		m.n.predMismatch++
		if strict {
			return pbt.Failf("harness/create-prediction", "create predicted invalid (%s) was accepted: op=%+v", why, op)
		}
	}
	ct := &contract{id: gotID, senderIdx: op.Sender, toIdx: op.To, sender: sender, to: to, coins: cs, hashLock: strings.ToLower(op.HashLock),
		ts: op.Timestamp, expiry: uint64(height) + op.TimeLock, transfer: op.Transfer, secret: op.Secret}
	exp := chain.NewExpect()
	if op.Transfer {
		a := m.assets[cs[0].denom]
		if a != nil && sender.Equals(m.addrOf(a.raw.Deputy)) {
			ct.dir = dirIn
			a.in = sum(a.in, cs[0].amt)
			m.n.inCreated++
		} else {
			ct.dir = dirOut
			if a != nil {
				a.out = sum(a.out, cs[0].amt)
			}
			exp.Move(sender, m.escrow(), cs[0].denom, cs[0].amt)
			m.n.outCreated++
		}
	} else {
		for _, c := range cs {
			exp.Move(sender, m.escrow(), c.denom, c.amt)
		}
		m.n.plainCreated++
	}
	for _, o := range m.contracts {
		if o.expiry == ct.expiry && o.state == stOpen {
			m.n.sharedBucket++
			break
		}
	}
	if op.TimeLock == maxTimeLock {
		m.n.maxLock++
	}
	m.contracts = append(m.contracts, ct)
	m.byID[ct.id] = ct
	if _, was := m.forgottenID[ct.id]; was {
		// the id of a closed contract that a restart dropped: the record is gone, nothing forbids using the id again
		m.n.recreatedForgotten++
		delete(m.forgottenID, ct.id)
	}
	if m.c03() {
		if d := chain.Diff(before, m.c.Snapshot()); !chain.SameDelta(d, exp.Delta()) {
			return pbt.Failf("C03/create-delta", "create %s moved [%s], expected [%s]", ct.id, d, exp.Delta())
		}
	}
	return m.afterStep()
}

func (m *machine) countBad(res chain.Result) {
	switch res.Outcome {
	case chain.Panicked:
		m.n.panics++
	case chain.Overflow:
		m.n.overflows++
	}
}

// unchanged: a refused message must leave the balance sheet and the htlc store as they were.
func (m *machine) unchanged(before chain.Sheet, img, what string, res chain.Result) error {
	if d := chain.Diff(before, m.c.Snapshot()); !d.Empty() {
		return pbt.Failf("C03/rejected-moved-coins", "refused %s (%v) moved coins: %s", what, res, d)
	}
	if m.htlcImage() != img {
		return pbt.Failf("C03/rejected-changed-state", "refused %s (%v) changed the htlc store", what, res)
	}
	return nil
}

func (m *machine) applyClaim(op hOp) error {
	if op.Note != "" {
		m.skipped[op.Note]++
	}
	id := strings.ToLower(op.ID)
	ct := m.byID[id]
	wellFormed := isHex(op.ID, 64) && isHex(op.Secret, 64)
	want, why := false, ""
	switch {
	case !wellFormed:
		why = "malformed"
	case ct == nil:
		why = "unknown-id"
		m.n.unknownID++
		if _, was := m.forgottenID[id]; was {
			m.n.claimForgotten++ // second claim / claim after refund of a contract a restart dropped
		}
	case ct.state != stOpen:
		why = "not-open"
		if ct.state == stCompleted {
			m.n.secondClaim++
		} else {
			m.n.claimAfterRefund++
		}
	default:
		sec, _ := hex.DecodeString(op.Secret)
		if refHashLock(sec, ct.ts) == ct.hashLock {
			want = true
		} else {
			why = "wrong-secret"
			m.n.wrongSecret++
			if ct.ts > 0 && refHashLock(sec, 0) == ct.hashLock {
				m.n.unboundClaim++
			}
		}
	}
	if ct != nil && wellFormed {
		ct.claims++
		switch uint64(m.c.Height()) {
		case ct.expiry - 1:
			m.n.claimAtExpiryM1++
		case ct.expiry:
			m.n.claimAtExpiry++
		}
	}
	// an incoming transfer whose asset no longer fits its parameters (removed asset, lowered limit: only
	// generated with VERIF_C03_F11=1) may be refused by a precondition the property does not talk about
	guaranteed := true
	if want && ct.transfer && ct.dir == dirIn {
		a := m.assets[ct.coins[0].denom]
		guaranteed = a != nil && a.present && a.withinLimits()
	}
	var before chain.Sheet
	var img string
	if m.c03() {
		before, img = m.c.Snapshot(), m.htlcImage()
	}
	res := m.c.Deliver(&htlctypes.MsgClaimHTLC{Sender: m.addrOf(op.Who).String(), Id: op.ID, Secret: op.Secret})
	if res.Outcome != chain.OK {
		m.countBad(res)
		if m.c03() {
			if err := m.unchanged(before, img, "claim", res); err != nil {
				return err
			}
			if want {
				if !guaranteed {
					m.n.f11ClaimRejected++
					return pbt.Failf("C03/right-claim-rejected-asset-outside-limits", "claim of open transfer %s with the right secret refused while its asset is removed or outside its limits: %v", id, res)
				}
				return pbt.Failf("C03/right-claim-rejected", "claim of open contract %s with the preimage of its hash lock refused: %v", id, res)
			}
		}
		return m.afterStep()
	}
	if ct == nil {
		return pbt.Failf(m.sig("unknown-id-claimed"), "claim of unknown id %s accepted", id)
	}
	if m.c03() && !want {
		return pbt.Failf("C03/claim-accepted-"+why, "claim of %s (model state %s, %s) accepted", id, stName[ct.state], why)
	}
	// the model follows the outcome
	exp := chain.NewExpect()
	amt := ct.coins[0].amt
	switch {
	case !ct.transfer:
		for _, c := range ct.coins {
			exp.Move(m.escrow(), ct.to, c.denom, c.amt)
		}
		m.n.plainClaimed++
	case ct.dir == dirIn:
		exp.Add(ct.to, ct.coins[0].denom, amt).Supply(ct.coins[0].denom, amt)
		if a := m.assets[ct.coins[0].denom]; a != nil {
			a.in = new(big.Int).Sub(a.in, amt)
			a.cur = sum(a.cur, amt)
			if a.present && a.raw.TimeLimited {
				a.tlc = sum(a.tlc, amt)
			}
		}
		m.n.inClaimed++
	default:
		exp.Add(m.escrow(), ct.coins[0].denom, new(big.Int).Neg(amt)).Supply(ct.coins[0].denom, new(big.Int).Neg(amt))
		if a := m.assets[ct.coins[0].denom]; a != nil {
			a.out = new(big.Int).Sub(a.out, amt)
			a.cur = new(big.Int).Sub(a.cur, amt)
		}
		m.n.outClaimed++
	}
	if ct.state == stOpen {
		ct.state = stCompleted
		if ct.imported > 0 {
			m.n.impClaimed++
		}
		if ct.toIdx == toEscrow && (!ct.transfer || ct.dir == dirIn) {
			m.n.toEscrowClaimed++
		}
	}
	if m.c03() {
		if d := chain.Diff(before, m.c.Snapshot()); !chain.SameDelta(d, exp.Delta()) {
			return pbt.Failf("C03/claim-delta", "claim of %s moved [%s], expected [%s]", id, d, exp.Delta())
		}
	}
	return m.afterStep()
}

func (m *machine) applyBlocks(op hOp) error {
	n := op.N
	if n < 1 {
		n = 1
	}
	for i := 0; i < n; i++ {
		end := m.c.EndBlock()
		if end.Outcome != chain.OK {
			return pbt.Failf(m.sig("block-hook"), "end-block at height %d failed: %v", m.c.Height(), end)
		}
		if m.c04() {
			if err := m.c04Boundary("after end-block"); err != nil {
				return err
			}
		}
		m.c.Advance(time.Duration(op.Dt), nil)
		if op.Restart && i == n-1 {
			// the module is restarted from its own export between two blocks (what an export-based upgrade does): the
			// import runs at the new first height, contracts that expire at exactly that height are still open
			atExpiry := false
			for _, ct := range m.contracts {
				if ct.state == stOpen && ct.expiry == uint64(m.c.Height()) {
					atExpiry = true
				}
			}
			if err := m.applyReimport(op); err != nil {
				return err
			}
			m.n.boundaryRestarts++
			if atExpiry {
				m.n.boundaryRestartsAtExpiry++
			}
		}
		var before chain.Sheet
		if m.c03() {
			before = m.c.Snapshot()
		}
		begin := m.c.BeginBlock()
		if begin.Outcome != chain.OK {
			return pbt.Failf(m.sig("block-hook"), "begin-block at height %d failed: %v", m.c.Height(), begin)
		}
		m.n.blocks++
		due := m.modelBegin(m.c.Height(), m.c.Time())
		if m.c03() {
			// refund events: exactly the contracts due now, each once
			var wantIDs []string
			exp := chain.NewExpect()
			for _, ct := range due {
				wantIDs = append(wantIDs, ct.id)
				if !ct.transfer || ct.dir == dirOut {
					for _, c := range ct.coins {
						exp.Move(m.escrow(), ct.sender, c.denom, c.amt)
					}
				}
			}
			var gotIDs []string
			for _, s := range chain.EventAttrs(begin.Events, htlctypes.EventTypeRefundHTLC, htlctypes.AttributeKeyID) {
				gotIDs = append(gotIDs, strings.ToLower(s))
			}
			sort.Strings(wantIDs)
			sort.Strings(gotIDs)
			if strings.Join(wantIDs, ",") != strings.Join(gotIDs, ",") {
				return pbt.Failf("C03/refund-events", "height %d: refund events for [%s], contracts expiring now and still open [%s]",
					m.c.Height(), strings.Join(gotIDs, ","), strings.Join(wantIDs, ","))
			}
			if d := chain.Diff(before, m.c.Snapshot()); !chain.SameDelta(d, exp.Delta()) {
				return pbt.Failf("C03/refund-delta", "height %d: begin-block moved [%s], expected refunds [%s]", m.c.Height(), d, exp.Delta())
			}
			if err := m.c03States(); err != nil {
				return err
			}
		} else {
			if err := m.c04Boundary("after begin-block"); err != nil {
				return err
			}
		}
	}
	return nil
}

func (m *machine) afterStep() error {
	if m.quiet { // inside a burst: the per-step clauses are evaluated at its end
		return nil
	}
	if m.c03() {
		return m.c03States()
	}
	return nil
}

func (m *machine) query(id string) (*htlctypes.HTLC, error) {
	resp, err := m.c.E.K.HTLC.HTLC(context.Context(m.c.Ctx), &htlctypes.QueryHTLCRequest{Id: id})
	if err != nil {
		return nil, err
	}
	return resp.Htlc, nil
}

// c03States: every contract reads back with the model's state, its terms never change, and the state the
// chain reports only ever moves open->completed or open->refunded.
func (m *machine) c03States() error {
	for _, ct := range m.contracts {
		h, err := m.query(ct.id)
		if err != nil || h == nil {
			return pbt.Failf("C03/query-failed", "contract %s cannot be queried: %v", ct.id, err)
		}
		st := int(h.State)
		if st != ct.seen {
			if ct.seen != stOpen || st < 0 || st > stRefunded {
				return pbt.Failf("C03/illegal-transition", "contract %s went %s -> %v", ct.id, stName[ct.seen], h.State)
			}
			ct.seen = st
		}
		if st != ct.state {
			return pbt.Failf("C03/state-mismatch", "height %d: contract %s (expiry %d) is %v, expected %s", m.c.Height(), ct.id, ct.expiry, h.State, stName[ct.state])
		}
		if h.Sender != ct.sender.String() || h.To != ct.to.String() || !strings.EqualFold(h.HashLock, ct.hashLock) || h.Timestamp != ct.ts ||
			h.ExpirationHeight != ct.expiry || h.Transfer != ct.transfer || int(h.Direction) != ct.dir || !sameCoins(h.Amount, ct.coins) {
			return pbt.Failf("C03/contract-mutated", "contract %s reads back as %+v, created as %+v", ct.id, h, ct)
		}
	}
	return nil
}

func sameCoins(a sdk.Coins, b []mcoin) bool {
	if len(a) != len(b) {
		return false
	}
	for _, c := range b {
		if a.AmountOf(c.denom).BigInt().Cmp(c.amt) != 0 {
			return false
		}
	}
	return true
}

func addTo(mp map[string]*big.Int, denom string, v *big.Int) {
	cur, ok := mp[denom]
	if !ok {
		cur = big0()
	}
	mp[denom] = new(big.Int).Add(cur, v)
}

func sameMap(a, b map[string]*big.Int) bool {
	for k, v := range a {
		w, ok := b[k]
		if !ok {
			w = big0()
		}
		if v.Cmp(w) != 0 {
			return false
		}
	}
	for k, v := range b {
		if _, ok := a[k]; !ok && v.Sign() != 0 {
			return false
		}
	}
	return true
}

func mapString(a map[string]*big.Int) string {
	var parts []string
	for k, v := range a {
		if v.Sign() != 0 {
			parts = append(parts, v.String()+k)
		}
	}
	sort.Strings(parts)
	return strings.Join(parts, ",")
}

// c04Boundary: the C04 equalities at a block boundary.  Which contracts are open / completed is what the
// chain itself reports; their terms (amount, direction) are the model's.
func (m *machine) c04Boundary(where string) error {
	at := fmt.Sprintf("height %d %s", m.c.Height(), where)
	escrowExp, stranded := map[string]*big.Int{}, map[string]*big.Int{}
	inExp, outExp, curExp := map[string]*big.Int{}, map[string]*big.Int{}, map[string]*big.Int{}
	for d, v := range m.curBase {
		addTo(curExp, d, v)
	}
	for d, v := range m.strandedBase {
		addTo(stranded, d, v)
	}
	for _, ct := range m.contracts {
		h, err := m.query(ct.id)
		if err != nil || h == nil {
			return pbt.Failf("C04/query-failed", "%s: contract %s cannot be queried: %v", at, ct.id, err)
		}
		d := ct.coins[0].denom
		switch int(h.State) {
		case stOpen:
			if !ct.transfer || ct.dir == dirOut {
				for _, c := range ct.coins {
					addTo(escrowExp, c.denom, c.amt)
				}
			}
			if ct.transfer && ct.dir == dirIn {
				addTo(inExp, d, ct.coins[0].amt)
			}
			if ct.transfer && ct.dir == dirOut {
				addTo(outExp, d, ct.coins[0].amt)
			}
		case stCompleted:
			if ct.transfer && ct.dir == dirIn {
				addTo(curExp, d, ct.coins[0].amt)
			}
			if ct.transfer && ct.dir == dirOut {
				addTo(curExp, d, new(big.Int).Neg(ct.coins[0].amt))
			}
			if ct.toIdx == toEscrow && (!ct.transfer || ct.dir == dirIn) {
				for _, c := range ct.coins {
					addTo(stranded, c.denom, c.amt)
				}
			}
		}
	}
	keys, _ := m.c.RawStore(htlctypes.StoreKey, htlctypes.HTLCKey)
	if len(keys) != len(m.contracts) {
		return pbt.Failf("C04/contract-count", "%s: %d contract records stored, %d contracts were created (not counting closed ones dropped by a restart)", at, len(keys), len(m.contracts))
	}
	got := map[string]*big.Int{}
	for _, c := range m.c.E.App.BankKeeper.GetAllBalances(m.c.Ctx, m.escrow()) {
		got[c.Denom] = c.Amount.BigInt()
	}
	if !sameMap(got, escrowExp) {
		withStranded := map[string]*big.Int{}
		for k, v := range escrowExp {
			addTo(withStranded, k, v)
		}
		for k, v := range stranded {
			addTo(withStranded, k, v)
		}
		if sameMap(got, withStranded) {
			return pbt.Failf("C04/escrow-keeps-funds-claimed-to-escrow", "%s: escrow holds [%s], open contracts and outgoing transfers sum to [%s]; the surplus [%s] was paid out to the escrow account itself by completed contracts whose recipient is the htlc module account",
				at, mapString(got), mapString(escrowExp), mapString(stranded))
		}
		return pbt.Failf("C04/escrow-mismatch", "%s: escrow holds [%s], open contracts and outgoing transfers sum to [%s]", at, mapString(got), mapString(escrowExp))
	}
	denoms := make([]string, 0, len(m.assets))
	for d := range m.assets {
		denoms = append(denoms, d)
	}
	sort.Strings(denoms)
	for _, d := range denoms {
		a := m.assets[d]
		zero := func(mp map[string]*big.Int) *big.Int {
			if v, ok := mp[d]; ok {
				return v
			}
			return big0()
		}
		resp, err := m.c.E.K.HTLC.AssetSupply(context.Context(m.c.Ctx), &htlctypes.QueryAssetSupplyRequest{Denom: d})
		bank := m.c.Supply(d).BigInt()
		if err != nil || resp.AssetSupply == nil {
			// no record (yet): nothing of this denom may be in flight or in circulation
			if zero(inExp).Sign() != 0 || zero(outExp).Sign() != 0 || zero(curExp).Sign() != 0 || bank.Sign() != 0 {
				return pbt.Failf("C04/supply-record-missing", "%s: no supply record for %s but incoming %s outgoing %s completed %s bank supply %s",
					at, d, zero(inExp), zero(outExp), zero(curExp), bank)
			}
			continue
		}
		s := resp.AssetSupply
		if s.IncomingSupply.Amount.BigInt().Cmp(zero(inExp)) != 0 {
			return pbt.Failf("C04/incoming-mismatch", "%s: %s incoming recorded %s, open incoming transfers sum to %s", at, d, s.IncomingSupply.Amount, zero(inExp))
		}
		if s.OutgoingSupply.Amount.BigInt().Cmp(zero(outExp)) != 0 {
			return pbt.Failf("C04/outgoing-mismatch", "%s: %s outgoing recorded %s, open outgoing transfers sum to %s", at, d, s.OutgoingSupply.Amount, zero(outExp))
		}
		cur := s.CurrentSupply.Amount.BigInt()
		if cur.Cmp(zero(curExp)) != 0 {
			return pbt.Failf("C04/current-mismatch", "%s: %s current recorded %s, completed incoming minus completed outgoing = %s", at, d, cur, zero(curExp))
		}
		if cur.Cmp(bank) != 0 {
			return pbt.Failf("C04/current-vs-bank-supply", "%s: %s current recorded %s, bank supply %s", at, d, cur, bank)
		}
		if s.TimeLimitedCurrentSupply.Amount.BigInt().Cmp(a.tlc) != 0 {
			return pbt.Failf("C04/time-limited-counter-mismatch", "%s: %s time-limited counter recorded %s, amount completed in the model's window %s (model elapsed %s, recorded %s)",
				at, d, s.TimeLimitedCurrentSupply.Amount, a.tlc, time.Duration(a.elapsed), s.TimeElapsed)
		}
		if !a.present {
			continue
		}
		// "while the parameters are unchanged": within a parameter epoch the asset never leaves its limits
		okL := sum(cur, s.IncomingSupply.Amount.BigInt()).Cmp(a.limit) <= 0
		if !okL && a.okLimit {
			return pbt.Failf("C04/limit-exceeded", "%s: %s current %s + incoming %s exceeds the limit %s", at, d, cur, s.IncomingSupply.Amount, a.limit)
		}
		a.okLimit = okL
		okT := !a.raw.TimeLimited || a.tlc.Cmp(a.tbl) <= 0
		if !okT && a.okTBL {
			return pbt.Failf("C04/time-limit-exceeded", "%s: %s amount completed in the current window %s exceeds the time-based limit %s", at, d, a.tlc, a.tbl)
		}
		a.okTBL = okT
	}
	return nil
}

func (m *machine) Finish() error {
	if m.c04() {
		return m.c04Boundary("at the end")
	}
	return m.c03States()
}

func (m *machine) Classify() (bool, []string) {
	var cl []string
	add := func(n int, name string) {
		if n > 0 {
			cl = append(cl, name)
		}
	}
	n := m.n
	add(n.claimAtExpiryM1, "claim-at-expiry-1")
	add(n.claimAtExpiry, "claim-at-expiry")
	add(n.multiRefund, "multi-refund-block")
	add(n.sharedBucket, "shared-expiry-bucket")
	add(n.secondClaim, "second-claim")
	add(n.claimAfterRefund, "claim-after-refund")
	add(n.dupCreate, "duplicate-create")
	add(n.wrongSecret, "wrong-secret")
	add(n.unboundClaim, "secret-without-timestamp")
	add(n.unknownID, "unknown-id")
	add(n.plainClaimed, "plain-claimed")
	add(n.inClaimed, "incoming-claimed")
	add(n.outClaimed, "outgoing-claimed")
	add(n.plainRefunded, "plain-refunded")
	add(n.inRefunded, "incoming-refunded")
	add(n.outRefunded, "outgoing-refunded")
	add(n.maxLock, "max-time-lock")
	add(n.limitHit, "limit-hit")
	add(n.tbLimitHit, "time-limit-hit")
	add(n.paramChanges, "params-changed-later")
	add(n.windowResets, "window-reset")
	add(n.windowResetsNZ, "window-reset-nonzero")
	add(n.windowExact, "window-reset-exactly-at-period")
	add(n.toEscrowClaimed, "claimed-to-escrow")
	add(n.predMismatch, "create-accepted-unpredicted")
	add(n.panics, "handler-panic")
	add(n.overflows, "overflow")
	add(n.f11Changes, "f11-incompatible-param-change")
	add(n.reimports, "reimport")
	add(n.respelled, "reimport-of-a-genesis-with-hash-locks-in-lower-case")
	add(n.bursts, "bucket-with->100-contracts")
	add(n.upperTo, "recipient-in-upper-case-accepted")
	add(n.boundaryRestarts, "restart-at-a-block-boundary")
	add(n.boundaryRestartsAtExpiry, "restart-at-the-boundary-to-an-expiry-height")
	add(n.burstRefunded, "bucket-with->100-contracts-expired")
	add(n.reimpOpenPlain, "reimport-with-open-plain")
	add(n.reimpOpenIn, "reimport-with-open-incoming")
	add(n.reimpOpenOut, "reimport-with-open-outgoing")
	add(n.reimpForgot, "reimport-forgets-closed")
	add(n.reimpSupply, "reimport-with-nonzero-supply")
	add(n.reimpAtExpiryM1, "reimport-at-expiry-1")
	add(n.impPlainRefunded, "imported-plain-refunded")
	add(n.impInRefunded, "imported-incoming-refunded")
	add(n.impOutRefunded, "imported-outgoing-refunded")
	add(n.impClaimed, "imported-claimed")
	add(n.impTwice, "imported-twice")
	add(n.recreatedForgotten, "recreated-forgotten-id")
	add(n.claimForgotten, "claim-forgotten-id")
	add(n.delist, "delist")
	add(n.delistLive, "delist-live")
	add(n.relist, "relist")
	add(n.relistLive, "relist-live")
	add(n.relistNewParams, "relist-new-params")
	add(n.deactivateBusy, "deactivate-with-open-transfers")
	add(n.reactivate, "reactivate")
	add(n.reactivateBusy, "reactivate-with-open-transfers")
	add(n.deputyChangedBusy, "deputy-changed-with-open-transfers")
	add(n.limitBelowCommitted, "limit-below-committed")
	add(n.firstAddWhileOpen, "first-add-while-others-open")
	add(n.emptyList, "empty-asset-list")
	for k, v := range m.skipped {
		add(v, k)
	}
	if len(m.contracts) >= 5 {
		cl = append(cl, "contracts>=5")
	}
	for k := range m.why {
		cl = append(cl, "refused-create:"+k)
	}
	if m.c03() {
		nt := n.claimAtExpiryM1 > 0 || n.claimAtExpiry > 0 || n.multiRefund > 0 || n.secondClaim > 0 || n.claimAfterRefund > 0 || n.dupCreate > 0
		return nt, cl
	}
	return n.inClaimed > 0 && n.outClaimed > 0 && n.windowResets > 0, cl
}
