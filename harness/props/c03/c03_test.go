// Package c03 serves two properties with one machine:
//
//	C03 HTLC: locked funds leave escrow exactly once - by secret, else refund at expiry
//	C04 HTLC: escrow balance and cross-chain supply counters match the open contracts
//
// The machine, its reference model and the oracles live in machine_test.go, the generator in
// gen_test.go.  Besides create / claim / block the histories contain parameter updates of every shape
// (also delist + relist, (de)activation, lowered limits) and restarts of the module from its own
// exported genesis (op "reimport"); the model forgets closed contracts at a restart because the htlc
// genesis carries only open ones.  TestC03 runs the machine in mode "C03" (only C03 oracle clauses fire, generator
// biased to plain contracts and claim/expiry races), TestC04 in mode "C04" (only C04 clauses,
// generator biased to cross-chain transfers, limits and limit-window boundaries).
package c03

import (
	"testing"

	"verifharness/pbt"
)

const c03Rule = "rapid state machine on the K-driver (irismod blockers, consecutive heights): params (authority UpdateParams installing 1-2 HTLT assets) / create (plain 1-3 coins, HTLT incoming by deputy, outgoing to deputy; time lock mostly 50-60, sometimes max; timestamps 0, inside and outside the window; duplicates; hash locks not bound to the timestamp) / claim (right, other contract's, random secret; unknown id; any account) / block(n) biased to stop at expiry-1 and expiry / later parameter updates (compatible edits, delist and relist by separate updates, (de)activation, deputy change, lowered limits, first listing of the second asset) / restart (the htlc module exported, wiped and imported from its own genesis, which carries only open contracts: closed ones are forgotten, ids of forgotten contracts are claimed and re-created afterwards; open plain, incoming and outgoing contracts pending over the restart are followed to claim or expiry); <=12 contracts at a time, <=260 blocks. non-trivial = history with a claim attempted at height expiry-1 or expiry of its contract, or >=2 contracts refunded in one block, or a second claim / claim after refund, or a duplicate create; distinct by SHA-256 of the op list"

const c04Rule = "same machine as C03 with 1-2 HTLT assets whose parameters are drawn from the valid space (limit, time-limited or not, period 1 min-2 h, fee, min/max amount, min/max lock, active, one or two deputies), later parameter updates (compatible edits; delisting an asset with live supply / open transfers and relisting it by a separate update with old or new parameters; deactivation and re-activation, deputy change and limits lowered below what is committed while transfers are open; first listing of the second asset while transfers of the first are open; empty list), restarts of the htlc module from its own exported genesis with open transfers and non-zero supplies pending (checked right after the import and at every later boundary), block-time steps that land just below / at / above the limit period; checked at every block boundary (after end-block and after begin-block). non-trivial = history with >=1 incoming and >=1 outgoing transfer completed and >=1 limit-window reset of a time-limited asset; distinct by SHA-256 of the op list"

func init() {
	pbt.RegisterMachine("c03", newC03)
	pbt.RegisterMachine("c04", newC04)
}

func TestReplay(t *testing.T) { pbt.ReplayMain(t) }

func TestC03(t *testing.T) { pbt.RunMachine(t, "C03", "c03", c03Rule, newC03) }

func TestC04(t *testing.T) { pbt.RunMachine(t, "C04", "c04", c04Rule, newC04) }
