package c17

// C17 Oracle: feeds store exactly the aggregated answers, bounded, creator-controlled.
//
// State machine on the K-driver. A prelude defines one service and binds three providers. Rules: create feed
// (max/min/avg, latest-history 1..5, provider subset, threshold 1..N, timeout/frequency), start / pause / edit
// by creator and strangers, providers answer the active requests with decimal strings of either sign
// (0..10 fractional digits, magnitudes 1e-8 .. 1e15), with an error result (no output) or not at all,
// a poor creator whose funds run out (automatic pause; its funds can also be moved away and back), blocks, and
// a restart: at a block boundary the zero-height preparation of "service" and "oracle" is run (what an application
// does before it exports for a restart), both modules are exported, their stores wiped and the exported genesis
// imported again (service first), and the history goes on.
//
// Oracle: every `complete_batch` event of a feed's request context is a completed batch. With the outputs the
// harness itself submitted for that batch and the threshold in force when the batch was issued, the model
// predicts whether exactly one value is appended, recomputes the aggregate with big.Rat and compares it within
// the float64 / 8-decimal tolerance, requires the block time as stamp, newest-first order and the
// latest-history bound after every step; the feed's state index must mirror the request context; strangers'
// start/pause/edit must be rejected without effect.
//
// Restart: the model keeps every feed (configuration, creator, request context id, stored values) and learns
// what the preparation documents: every request context is paused with its batch closed (batches in flight are
// abandoned: their requests are refunded and never complete), every feed is indexed as paused. All clauses then
// run on the restored state: started again, a restored feed must append a value for every completed batch that
// met its threshold and must follow an automatic pause of its context. A feed holding >= 2 values at a restart
// runs into known finding F9b (C12/oracle-value-history-collapses: the import stores all values under one key):
// for such a feed the model's value list is resynchronised from the store after the import (it must be a
// non-empty subsequence of what was there), counted in class skipped:C12/oracle-value-history-collapses; feeds
// with <= 1 value must come back unchanged.

import (
	"encoding/hex"
	"encoding/json"
	"fmt"
	"math/big"
	"sort"
	"strings"
	"testing"
	"time"

	abci "github.com/cometbft/cometbft/abci/types"
	tmbytes "github.com/cometbft/cometbft/libs/bytes"
	sdk "github.com/cosmos/cosmos-sdk/types"
	banktypes "github.com/cosmos/cosmos-sdk/x/bank/types"
	"pgregory.net/rapid"

	oraclemod "mods.irisnet.org/modules/oracle"
	servicemod "mods.irisnet.org/modules/service"

	oracletypes "mods.irisnet.org/modules/oracle/types"
	servicetypes "mods.irisnet.org/modules/service/types"

	"verifharness/chain"
	"verifharness/gen"
	"verifharness/pbt"
)

func TestReplay(t *testing.T) { pbt.ReplayMain(t) }

const (
	svcName  = "px"
	schemas  = `{"input":{"type":"object"},"output":{"type":"object"}}`
	input    = `{"header":{},"body":{}}`
	resultOK = `{"code":200,"message":""}`
	result5  = `{"code":500,"message":"no data"}`
)

type op struct {
	Kind      string `json:"kind"` // create start pause edit respond block direct funds restart
	Feed      int    `json:"feed,omitempty"`
	Who       int    `json:"who,omitempty"`
	Agg       string `json:"agg,omitempty"`
	Hist      uint64 `json:"hist,omitempty"`
	Providers []int  `json:"providers,omitempty"`
	Thr       uint32 `json:"thr,omitempty"`
	Timeout   int64  `json:"timeout,omitempty"`
	Freq      uint64 `json:"freq,omitempty"`
	ReqID     string `json:"req,omitempty"`
	Provider  int    `json:"provider,omitempty"`
	Mode      string `json:"mode,omitempty"` // respond: value | nofield | error; direct: pause | start | kill; funds: drain | refill
	Keep      int64  `json:"keep,omitempty"` // funds/drain: what the poor creator keeps
	Value     string `json:"value,omitempty"`
	Dt        int64  `json:"dt,omitempty"`
	Aged      uint64 `json:"aged,omitempty"` // create: batches the feed's request context has issued before the history starts
	Path      string `json:"path,omitempty"` // create: the feed's value path ("" = the top-level field "last")
}

type val struct {
	data string
	ts   time.Time
}

type batchM struct {
	thr       uint32
	outputs   []string // decimal strings of the valid outputs submitted ("" = output without the field)
	completed bool
}

type feedM struct {
	name    string
	creator int
	agg     string
	hist    uint64
	thr     uint32
	nprov   int
	ctxID   string // upper-case hex
	values  []val  // newest first
	batches map[uint64]*batchM
	// restarts counts the genesis round trips this feed went through
	restarts int
	aged     uint64 // batches issued before the history (0 = a new feed)
	path     string // value json path
}

type machine struct {
	c     *chain.Case
	feeds []*feedM
	// statistics
	nBatches, nValues, nNegative, nTrim, nBelowThr, nAutoPause, nStranger, nNoField int
	nAged, nAgedValues, nPathFeeds, nPathValues, nAggRefused                        int
	// restart statistics
	nRestart, nRestartRunning, nRestartOpenBatch, nRestartOneValue, nRestartCollapse     int
	nRestartManyValues                                                                   int
	nValueAfterRestart, nAutoPauseAfterRestart, nTrimAfterRestart, nBelowThrAfterRestart int
	// feeds that were running at the last restart and have not been started again by their creator (generator hint)
	pendingStart []int
}

var providers = []int{0, 1, 2}

// restartOneIn: a restart is drawn with probability 1/restartOneIn per step.
const restartOneIn = 45

func newMachine() pbt.Machine[op] {
	c := gen.Env().NewCase()
	m := &machine{c: c}
	u := c.E.Users
	must := func(r chain.Result) {
		if r.Outcome != chain.OK {
			panic(fmt.Sprintf("prelude failed: %v", r))
		}
	}
	must(c.Deliver(&servicetypes.MsgDefineService{Name: svcName, Description: "d", Tags: []string{"t"}, Author: u[0].Addr.String(), AuthorDescription: "a", Schemas: schemas}))
	for i, p := range providers {
		price := []int{1, 7, 150}[i]
		must(c.Deliver(&servicetypes.MsgBindService{ServiceName: svcName, Provider: u[p].Addr.String(), Deposit: sdk.NewCoins(sdk.NewInt64Coin("stake", 200000)),
			Pricing: fmt.Sprintf(`{"price":"%dstake"}`, price), QoS: 1, Options: "{}", Owner: u[p].Addr.String()}))
	}
	return m
}

// genValue draws a decimal string of either sign.
func genValue(t *rapid.T) string {
	neg := rapid.IntRange(0, 9).Draw(t, "neg") < 4
	var ip string
	switch rapid.IntRange(0, 3).Draw(t, "mag") {
	case 0:
		ip = "0"
	case 1:
		ip = fmt.Sprint(rapid.IntRange(0, 999).Draw(t, "small"))
	case 2:
		ip = fmt.Sprint(rapid.Int64Range(1000, 1_000_000_000).Draw(t, "mid"))
	default:
		ip = fmt.Sprint(rapid.Int64Range(1_000_000_000, 1_000_000_000_000_000).Draw(t, "big"))
	}
	s := ip
	if nd := rapid.IntRange(0, 10).Draw(t, "nd"); nd > 0 {
		frac := ""
		for i := 0; i < nd; i++ {
			frac += fmt.Sprint(rapid.IntRange(0, 9).Draw(t, "digit"))
		}
		s += "." + frac
	}
	if neg && strings.Trim(s, "0.") != "" {
		s = "-" + s
	}
	return s
}

type liveReq struct {
	id       string
	provider int
	feed     int
}

func (m *machine) activeRequests() []liveReq {
	var out []liveReq
	ctx := m.c.Ctx
	k := m.c.E.K.Service
	k.IterateRequests(ctx, func(id tmbytes.HexBytes, r servicetypes.CompactRequest) bool {
		if !k.IsRequestActive(ctx, id) {
			return false
		}
		fi := -1
		for i, f := range m.feeds {
			if strings.EqualFold(f.ctxID, r.RequestContextId) {
				fi = i
			}
		}
		pi := -1
		for i, u := range m.c.E.Users {
			if u.Addr.String() == r.Provider {
				pi = i
			}
		}
		if fi >= 0 && pi >= 0 {
			out = append(out, liveReq{id.String(), pi, fi})
		}
		return false
	})
	sort.Slice(out, func(i, j int) bool { return out[i].id < out[j].id })
	return out
}

func (m *machine) Next(t *rapid.T) op {
	k := rapid.IntRange(0, 99).Draw(t, "kind")
	reqs := m.activeRequests()
	if len(m.feeds) > 0 && rapid.IntRange(0, restartOneIn-1).Draw(t, "restart") == restartOneIn/2+7 {
		return op{Kind: "restart", Dt: gen.Dt(t, "dt")}
	}
	if len(m.pendingStart) > 0 && rapid.IntRange(0, 9).Draw(t, "startagain") < 6 {
		f := m.pendingStart[0]
		return op{Kind: "start", Feed: f, Who: m.feeds[f].creator}
	}
	switch {
	case len(m.feeds) == 0 || (k < 8 && len(m.feeds) < 4):
		n := rapid.IntRange(1, 3).Draw(t, "nprov")
		perm := rapid.Permutation(providers).Draw(t, "perm")[:n]
		sort.Ints(perm)
		timeout := int64(rapid.IntRange(1, 4).Draw(t, "timeout"))
		creator := rapid.SampledFrom([]int{3, 3, 3, 4, 0}).Draw(t, "creator") // 4 is poor
		return op{Kind: "create", Who: creator, Agg: rapid.SampledFrom([]string{"max", "min", "avg", "max", "min", "avg", "MAX", "Min", "aVg"}).Draw(t, "agg"), Hist: uint64(rapid.IntRange(1, 5).Draw(t, "hist")),
			Providers: perm, Thr: uint32(rapid.IntRange(1, n).Draw(t, "thr")), Timeout: timeout, Freq: uint64(timeout) + uint64(rapid.IntRange(0, 3).Draw(t, "freq")),
			// one feed in four has been running for a long time: its request context has already issued some 250 batches
			// (no generated history is that long; the batch counter is part of the keys the feed values are stored under)
			Aged: uint64(rapid.SampledFrom([]int{0, 0, 0, 249, 252, 254, 65533}).Draw(t, "aged")),
			// the value is addressed by a field name or by a path into the response body
			Path: rapid.SampledFrom([]string{"", "", "data.last", "ticks.1"}).Draw(t, "path")}
	case k < 45 && len(reqs) > 0:
		r := reqs[rapid.IntRange(0, len(reqs)-1).Draw(t, "req")]
		o := op{Kind: "respond", ReqID: r.id, Provider: r.provider, Feed: r.feed}
		switch md := rapid.IntRange(0, 19).Draw(t, "mode"); {
		case md == 0:
			o.Mode = "nofield"
		case md <= 2:
			o.Mode = "error"
		case md == 3:
			o.Mode, o.Provider = "value", rapid.IntRange(0, 3).Draw(t, "wrongprov") // maybe not the addressed provider
			o.Value = genValue(t)
		default:
			o.Mode, o.Value = "value", genValue(t)
		}
		return o
	case k < 68:
		return op{Kind: "block", Dt: gen.DtFar(t, "dt", m.c.Time())}
	case k < 70:
		// the poor creator's funds are moved away (the next batch of its running feeds cannot be paid: automatic
		// pause) or topped up again
		if rapid.IntRange(0, 2).Draw(t, "refill") == 0 {
			return op{Kind: "funds", Mode: "refill"}
		}
		return op{Kind: "funds", Mode: "drain", Keep: int64(rapid.IntRange(0, 160).Draw(t, "keep"))}
	case k < 80:
		f := rapid.IntRange(0, len(m.feeds)-1).Draw(t, "feed")
		who := m.feeds[f].creator
		if rapid.IntRange(0, 5).Draw(t, "stranger") == 0 {
			who = rapid.IntRange(0, 5).Draw(t, "who")
		}
		return op{Kind: "start", Feed: f, Who: who}
	case k < 87:
		f := rapid.IntRange(0, len(m.feeds)-1).Draw(t, "feed")
		who := m.feeds[f].creator
		if rapid.IntRange(0, 5).Draw(t, "stranger") == 0 {
			who = rapid.IntRange(0, 5).Draw(t, "who")
		}
		return op{Kind: "pause", Feed: f, Who: who}
	case k < 97:
		f := rapid.IntRange(0, len(m.feeds)-1).Draw(t, "feed")
		who := m.feeds[f].creator
		if rapid.IntRange(0, 5).Draw(t, "stranger") == 0 {
			who = rapid.IntRange(0, 5).Draw(t, "who")
		}
		o := op{Kind: "edit", Feed: f, Who: who, Hist: uint64(rapid.IntRange(0, 5).Draw(t, "hist"))}
		if rapid.Bool().Draw(t, "editthr") {
			o.Thr = uint32(rapid.IntRange(1, 3).Draw(t, "thr"))
		}
		if rapid.IntRange(0, 3).Draw(t, "editprov") == 0 {
			n := rapid.IntRange(1, 3).Draw(t, "nprov")
			o.Providers = rapid.Permutation(providers).Draw(t, "perm")[:n]
			sort.Ints(o.Providers)
		}
		return o
	default:
		f := rapid.IntRange(0, len(m.feeds)-1).Draw(t, "feed")
		return op{Kind: "direct", Feed: f, Who: m.feeds[f].creator, Mode: rapid.SampledFrom([]string{"pause", "start", "kill"}).Draw(t, "dop")}
	}
}

func (m *machine) addr(i int) string { return m.c.E.Users[i].Addr.String() }

func (m *machine) provAddrs(ps []int) []string {
	out := make([]string, len(ps))
	for i, p := range ps {
		out[i] = m.addr(p)
	}
	return out
}

// snapshotFeed captures what a rejected stranger operation must leave untouched.
func valuePath(p string) string {
	if p == "" {
		return "last"
	}
	return p
}

// bodyFor builds a response body that carries the number v where the feed's value path points.
func bodyFor(path, v string) string {
	switch path {
	case "data.last":
		return fmt.Sprintf(`{"data":{"last":%s,"first":1},"last":"x"}`, v)
	case "ticks.1":
		return fmt.Sprintf(`{"ticks":[0,%s,7]}`, v)
	}
	return fmt.Sprintf(`{"last":%s}`, v)
}

func (m *machine) snapshotFeed(f *feedM) string {
	ctx := m.c.Ctx
	feed, _ := m.c.E.K.Oracle.GetFeed(ctx, f.name)
	id, _ := hex.DecodeString(f.ctxID)
	rc, _ := m.c.E.K.Service.GetRequestContext(ctx, id)
	vals := m.c.E.K.Oracle.GetFeedValues(ctx, f.name)
	return fmt.Sprintf("%v|%v|%v", feed, rc, vals)
}

func (m *machine) Apply(o op) error {
	c := m.c
	var events []eventsOf
	switch o.Kind {
	case "create":
		// names that are prefixes of each other (store keys of one feed must not cover another's)
		name := []string{"eth", "eth-usd", "et", "eth-usd/2", "btc"}[len(m.feeds)%5]
		r := c.Deliver(&oracletypes.MsgCreateFeed{FeedName: name, LatestHistory: o.Hist, Description: "d", Creator: m.addr(o.Who), ServiceName: svcName,
			Providers: m.provAddrs(o.Providers), Input: input, Timeout: o.Timeout, ServiceFeeCap: sdk.NewCoins(sdk.NewInt64Coin("stake", 200)),
			RepeatedFrequency: o.Freq, AggregateFunc: o.Agg, ValueJsonPath: valuePath(o.Path), ResponseThreshold: o.Thr})
		if o.Agg != strings.ToLower(o.Agg) {
			// the name of the aggregate written in another letter case: refusing it is fine; a feed that is accepted under
			// such a name has "the configured aggregate" all the same and is held to every clause
			if r.Outcome != chain.OK {
				m.nAggRefused++
				if r.Outcome == chain.Panicked {
					return pbt.Failf("C17/create-panicked", "feed creation panicked: %v (%+v)", r, o)
				}
				return nil
			}
			o.Agg = strings.ToLower(o.Agg)
		}
		if r.Outcome != chain.OK {
			return pbt.Failf("C17/create-failed", "valid feed creation failed: %v (%+v)", r, o)
		}
		feed, found := c.E.K.Oracle.GetFeed(c.Ctx, name)
		if !found {
			return pbt.Failf("C17/create-failed", "feed %s not stored", name)
		}
		if o.Aged > 0 {
			id, _ := hex.DecodeString(feed.RequestContextID)
			rc, ok := c.E.K.Service.GetRequestContext(c.Ctx, id)
			if !ok {
				return pbt.Failf("harness/aged-feed", "request context of feed %s not found", name)
			}
			rc.BatchCounter = o.Aged
			c.E.K.Service.SetRequestContext(c.Ctx, id, rc)
			m.nAged++
		}
		m.feeds = append(m.feeds, &feedM{name: name, creator: o.Who, agg: o.Agg, hist: o.Hist, thr: o.Thr, nprov: len(o.Providers),
			ctxID: strings.ToUpper(feed.RequestContextID), batches: map[uint64]*batchM{}, aged: o.Aged, path: valuePath(o.Path)})
		if o.Path != "" {
			m.nPathFeeds++
		}
		events = append(events, eventsOf{r.Events})
	case "start", "pause", "edit":
		f := m.feeds[o.Feed]
		stranger := o.Who != f.creator
		before := m.snapshotFeed(f)
		var r chain.Result
		switch o.Kind {
		case "start":
			r = c.Deliver(&oracletypes.MsgStartFeed{FeedName: f.name, Creator: m.addr(o.Who)})
		case "pause":
			r = c.Deliver(&oracletypes.MsgPauseFeed{FeedName: f.name, Creator: m.addr(o.Who)})
		default:
			r = c.Deliver(&oracletypes.MsgEditFeed{FeedName: f.name, Description: "[do-not-modify]", LatestHistory: o.Hist, Providers: m.provAddrs(o.Providers),
				ResponseThreshold: o.Thr, Creator: m.addr(o.Who)})
		}
		if o.Kind == "start" && !stranger {
			m.dropPendingStart(o.Feed)
		}
		if stranger {
			m.nStranger++
			if r.Outcome == chain.OK {
				return pbt.Failf("C17/stranger-accepted", "%s of %s by non-creator %s accepted", o.Kind, f.name, c.E.Users[o.Who].Name)
			}
			if after := m.snapshotFeed(f); after != before {
				return pbt.Failf("C17/stranger-effect", "rejected %s by a non-creator changed the feed:\n%s\n%s", o.Kind, before, after)
			}
			break
		}
		if r.Outcome == chain.Panicked {
			return pbt.Failf("C17/panic", "%s panicked: %v", o.Kind, r.Panic)
		}
		if r.Outcome != chain.OK {
			if after := m.snapshotFeed(f); after != before {
				return pbt.Failf("C17/rejected-effect", "rejected %s changed the feed", o.Kind)
			}
			break
		}
		if o.Kind == "edit" {
			if o.Hist > 0 {
				if int(o.Hist) < len(f.values) {
					f.values = f.values[:o.Hist]
					m.nTrim++
				}
				f.hist = o.Hist
			}
			if o.Thr > 0 {
				f.thr = o.Thr
			}
			if len(o.Providers) > 0 {
				f.nprov = len(o.Providers)
			}
		}
		events = append(events, eventsOf{r.Events})
	case "direct":
		f := m.feeds[o.Feed]
		var msg sdk.Msg
		switch o.Mode {
		case "pause":
			msg = &servicetypes.MsgPauseRequestContext{RequestContextId: f.ctxID, Consumer: m.addr(o.Who)}
		case "start":
			msg = &servicetypes.MsgStartRequestContext{RequestContextId: f.ctxID, Consumer: m.addr(o.Who)}
		default:
			msg = &servicetypes.MsgKillRequestContext{RequestContextId: f.ctxID, Consumer: m.addr(o.Who)}
		}
		r := c.Deliver(msg)
		if r.Outcome == chain.Panicked {
			return pbt.Failf("C17/panic", "direct %s panicked: %v", o.Mode, r.Panic)
		}
		events = append(events, eventsOf{r.Events})
	case "respond":
		id, err := hex.DecodeString(o.ReqID)
		if err != nil {
			return nil
		}
		req, found := c.E.K.Service.GetRequest(c.Ctx, id)
		msg := &servicetypes.MsgRespondService{RequestId: o.ReqID, Provider: m.addr(o.Provider), Result: resultOK}
		switch o.Mode {
		case "value":
			path := "last"
			if o.Feed >= 0 && o.Feed < len(m.feeds) {
				path = m.feeds[o.Feed].path
			}
			msg.Output = fmt.Sprintf(`{"header":{},"body":%s}`, bodyFor(path, jsonNumber(o.Value)))
		case "nofield":
			msg.Output = `{"header":{},"body":{"other":"1"}}`
		default:
			msg.Result = result5
		}
		r := c.Deliver(msg)
		if r.Outcome == chain.Panicked {
			return pbt.Failf("C17/panic", "respond panicked: %v", r.Panic)
		}
		if r.Outcome == chain.OK && found {
			for _, f := range m.feeds {
				if strings.EqualFold(f.ctxID, req.RequestContextId) {
					b := m.batch(f, req.RequestContextBatchCounter)
					switch o.Mode {
					case "value":
						b.outputs = append(b.outputs, o.Value)
					case "nofield":
						b.outputs = append(b.outputs, "")
						m.nNoField++
					}
				}
			}
		}
		events = append(events, eventsOf{r.Events})
	case "funds":
		// bank transfers between the poor creator (user 4) and a rich user; the model holds no balances
		poor, rich := c.E.Users[4].Addr, c.E.Users[1].Addr
		var msg *banktypes.MsgSend
		if o.Mode == "refill" {
			msg = &banktypes.MsgSend{FromAddress: rich.String(), ToAddress: poor.String(), Amount: sdk.NewCoins(sdk.NewInt64Coin("stake", 1000))}
		} else {
			amt := c.Balance(poor, "stake").SubRaw(o.Keep)
			if !amt.IsPositive() {
				break
			}
			msg = &banktypes.MsgSend{FromAddress: poor.String(), ToAddress: rich.String(), Amount: sdk.NewCoins(sdk.NewCoin("stake", amt))}
		}
		if r := c.Deliver(msg); r.Outcome != chain.OK {
			return fmt.Errorf("harness: bank transfer failed: %v", r)
		}
	case "block":
		if err := m.endBlock(); err != nil {
			return err
		}
		c.Advance(time.Duration(o.Dt), nil)
		begin := c.BeginBlock()
		if begin.Outcome != chain.OK {
			return pbt.Failf("C17/block-hook", "begin block failed: %v", begin)
		}
		events = append(events, eventsOf{begin.Events})
	case "restart":
		// a restart happens between two blocks: the block in progress ends, the application prepares and exports,
		// the new chain imports and begins the next block
		if err := m.endBlock(); err != nil {
			return err
		}
		if err := m.check(); err != nil {
			return err
		}
		if err := m.restart(); err != nil {
			return err
		}
		c.Advance(time.Duration(o.Dt), nil)
		begin := c.BeginBlock()
		if begin.Outcome != chain.OK {
			return pbt.Failf("C17/block-hook", "begin block after the restart failed: %v", begin)
		}
		events = append(events, eventsOf{begin.Events})
	}
	for _, e := range events {
		if err := m.process(e.evs); err != nil {
			return err
		}
	}
	return m.check()
}

// ctxState reads the state of a feed's request context.
func (m *machine) ctxState(f *feedM) (servicetypes.RequestContext, bool) {
	id, _ := hex.DecodeString(f.ctxID)
	return m.c.E.K.Service.GetRequestContext(m.c.Ctx, id)
}

// endBlock runs the end blockers of the block in progress, feeds the model with the batch events (completions in
// the end blocker carry the time of the block that ends) and notes automatic pauses: a context that goes from
// running to paused inside an end blocker was paused by the service module itself.
func (m *machine) endBlock() error {
	was := make([]bool, len(m.feeds))
	for i, f := range m.feeds {
		rc, _ := m.ctxState(f)
		was[i] = rc.State == servicetypes.RUNNING
	}
	end := m.c.EndBlock()
	if end.Outcome != chain.OK {
		return pbt.Failf("C17/block-hook", "end block failed: %v", end)
	}
	if err := m.process(end.Events); err != nil {
		return err
	}
	for i, f := range m.feeds {
		if rc, ok := m.ctxState(f); ok && was[i] && rc.State == servicetypes.PAUSED {
			m.nAutoPause++
			if f.restarts > 0 {
				m.nAutoPauseAfterRestart++
			}
		}
	}
	return nil
}

func (m *machine) dropPendingStart(feed int) {
	out := m.pendingStart[:0]
	for _, f := range m.pendingStart {
		if f != feed {
			out = append(out, f)
		}
	}
	m.pendingStart = out
}

// restart takes "service" and "oracle" through the zero-height preparation and their own genesis.
func (m *machine) restart() error {
	c := m.c
	type pre struct {
		running, open bool
		values        []val
	}
	before := make([]pre, len(m.feeds))
	anyRunning, anyOpen, anyOne, anyMany := false, false, false, false
	for i, f := range m.feeds {
		rc, ok := m.ctxState(f)
		if !ok {
			return pbt.Failf("C17/context-missing", "request context of feed %s disappeared", f.name)
		}
		before[i] = pre{running: rc.State == servicetypes.RUNNING, open: rc.BatchState == servicetypes.BATCHRUNNING, values: append([]val{}, f.values...)}
		anyRunning = anyRunning || before[i].running
		anyOpen = anyOpen || before[i].open
		anyOne = anyOne || len(f.values) == 1
		anyMany = anyMany || len(f.values) >= 2
	}
	// 1. what an application does before it exports for a restart (service first, as the modules' import order)
	if err := func() (err error) {
		defer func() {
			if p := recover(); p != nil {
				err = pbt.Failf("C17/reimport-prepare", "zero-height preparation panicked: %v", p)
			}
		}()
		servicemod.PrepForZeroHeightGenesis(c.Ctx, c.E.K.Service)
		oraclemod.PrepForZeroHeightGenesis(c.Ctx, c.E.K.Oracle)
		return nil
	}(); err != nil {
		return err
	}
	// documented effect of the preparation: every context paused with its batch closed, feeds indexed accordingly
	for _, f := range m.feeds {
		if rc, _ := m.ctxState(f); rc.State != servicetypes.PAUSED || rc.BatchState != servicetypes.BATCHCOMPLETED {
			return pbt.Failf("C17/reimport-prepare", "after the zero-height preparation the context of feed %s is %s/%s", f.name, rc.State, rc.BatchState)
		}
	}
	if err := m.check(); err != nil {
		return err
	}
	// 2. export, wipe, import: service first (oracle InitGenesis looks its request contexts up)
	for _, mod := range []string{"service", "oracle"} {
		if exported, stage, err := c.Reimport(mod); err != nil {
			return pbt.Failf("C17/reimport-"+stage, "%s genesis round trip with %d feeds: %v\n%s", mod, len(m.feeds), err, exported)
		}
	}
	// 3. the model after the restart
	for _, f := range m.feeds {
		f.restarts++
		for n, b := range f.batches {
			if !b.completed {
				delete(f.batches, n) // abandoned: its requests are gone, it never completes
			}
		}
		if len(f.values) >= 2 && pbt.IsKnown("C12/oracle-value-history-collapses") {
			// while finding F9b is listed as known: resynchronise, demanding only that nothing new appears and
			// something is left (once it is repaired the whole history must come back: the ordinary clauses decide)
			got := c.E.K.Oracle.GetFeedValues(c.Ctx, f.name)
			j := 0
			var kept []val
			for _, g := range got {
				for j < len(f.values) && !(f.values[j].data == g.Data && f.values[j].ts.Equal(g.Timestamp)) {
					j++
				}
				if j == len(f.values) {
					return pbt.Failf("C17/reimport-values", "feed %s came back with values %v, not a subsequence of the %d values it held", f.name, got, len(f.values))
				}
				kept = append(kept, f.values[j])
				j++
			}
			if len(kept) == 0 {
				return pbt.Failf("C17/reimport-values", "feed %s held %d values and came back with none", f.name, len(f.values))
			}
			f.values = kept
		}
	}
	m.pendingStart = m.pendingStart[:0]
	for i := range m.feeds {
		if before[i].running {
			m.pendingStart = append(m.pendingStart, i)
		}
	}
	m.nRestart++
	count := func(ok bool, n *int) {
		if ok {
			*n++
		}
	}
	count(anyRunning, &m.nRestartRunning)
	count(anyOpen, &m.nRestartOpenBatch)
	count(anyOne, &m.nRestartOneValue)
	count(anyMany && pbt.IsKnown("C12/oracle-value-history-collapses"), &m.nRestartCollapse)
	count(anyMany, &m.nRestartManyValues)
	return nil
}

type abciEvent = abci.Event

type eventsOf struct{ evs []abciEvent }

func (m *machine) batch(f *feedM, n uint64) *batchM {
	b, ok := f.batches[n]
	if !ok {
		b = &batchM{thr: f.thr}
		f.batches[n] = b
	}
	return b
}

// process consumes new_batch / complete_batch events and updates the model's expected value lists.
func (m *machine) process(evs []abciEvent) error {
	for _, e := range evs {
		if e.Type != "new_batch" && e.Type != "complete_batch" {
			continue
		}
		var ctxID, stateJSON string
		for _, a := range e.Attributes {
			switch a.Key {
			case "request_context_id":
				ctxID = a.Value
			case "request_context_state":
				stateJSON = a.Value
			}
		}
		var st struct {
			BatchCounter uint64 `json:"batch_counter"`
		}
		if json.Unmarshal([]byte(stateJSON), &st) != nil {
			continue
		}
		for _, f := range m.feeds {
			if !strings.EqualFold(f.ctxID, ctxID) {
				continue
			}
			if e.Type == "new_batch" {
				m.batch(f, st.BatchCounter) // records the threshold in force now
				continue
			}
			b := m.batch(f, st.BatchCounter)
			if b.completed {
				return pbt.Failf("C17/batch-completed-twice", "feed %s batch %d completed twice", f.name, st.BatchCounter)
			}
			b.completed = true
			m.nBatches++
			if len(b.outputs) >= int(b.thr) && len(b.outputs) > 0 {
				if f.aged > 0 && st.BatchCounter > 255 {
					m.nAgedValues++
				}
				if f.path != "last" {
					m.nPathValues++
				}
				f.values = append([]val{{data: "?" + strings.Join(b.outputs, ","), ts: m.c.Time()}}, f.values...)
				if uint64(len(f.values)) > f.hist {
					f.values = f.values[:f.hist]
					m.nTrim++
					if f.restarts > 0 {
						m.nTrimAfterRestart++
					}
				}
				m.nValues++
				if f.restarts > 0 {
					m.nValueAfterRestart++
				}
			} else {
				m.nBelowThr++
				if f.restarts > 0 {
					m.nBelowThrAfterRestart++
				}
			}
		}
	}
	return nil
}

func jsonNumber(v string) string {
	// a JSON number must not have leading zeros or a bare trailing dot; the generator never produces those
	// except "-0.x"/"0.x", which are valid JSON
	return v
}

// aggregate computes the exact aggregate of decimal strings.
func aggregate(agg string, outs []string) *big.Rat {
	var acc *big.Rat
	for _, s := range outs {
		x, ok := new(big.Rat).SetString(s)
		if !ok {
			panic("bad decimal " + s)
		}
		switch {
		case acc == nil:
			acc = x
		case agg == "max" && x.Cmp(acc) > 0:
			acc = x
		case agg == "min" && x.Cmp(acc) < 0:
			acc = x
		case agg == "avg":
			acc = new(big.Rat).Add(acc, x)
		}
	}
	if agg == "avg" {
		acc = new(big.Rat).Quo(acc, big.NewRat(int64(len(outs)), 1))
	}
	return acc
}

func (m *machine) check() error {
	ctx := m.c.Ctx
	ok := m.c.E.K.Oracle
	running, paused := map[string]bool{}, map[string]bool{}
	ok.IteratorFeedsByState(ctx, servicetypes.RUNNING, func(f oracletypes.Feed) { running[f.FeedName] = true })
	ok.IteratorFeedsByState(ctx, servicetypes.PAUSED, func(f oracletypes.Feed) { paused[f.FeedName] = true })
	for _, f := range m.feeds {
		got := ok.GetFeedValues(ctx, f.name)
		if len(got) != len(f.values) {
			return pbt.Failf("C17/value-count", "feed %s (%s, history %d) holds %d values, model expects %d: got %v", f.name, f.agg, f.hist, len(got), len(f.values), got)
		}
		if uint64(len(got)) > f.hist {
			return pbt.Failf("C17/history-bound", "feed %s keeps %d values, latest-history is %d", f.name, len(got), f.hist)
		}
		for i := range got {
			w := &f.values[i]
			if !got[i].Timestamp.Equal(w.ts) {
				return pbt.Failf("C17/timestamp", "feed %s value %d stamped %s, block time of its batch completion was %s", f.name, i, got[i].Timestamp, w.ts)
			}
			if strings.HasPrefix(w.data, "?") { // fresh value: judge numerically, then pin the stored string
				outs := strings.Split(w.data[1:], ",")
				clean := outs[:0]
				nofield := false
				for _, s := range outs {
					if s == "" {
						nofield = true
					} else {
						clean = append(clean, s)
					}
				}
				if !nofield {
					if err := m.judge(f, got[i].Data, clean); err != nil {
						return err
					}
				}
				w.data = got[i].Data
			} else if got[i].Data != w.data {
				return pbt.Failf("C17/value-changed", "feed %s value %d changed from %s to %s", f.name, i, w.data, got[i].Data)
			}
		}
		id, _ := hex.DecodeString(f.ctxID)
		rc, found := m.c.E.K.Service.GetRequestContext(ctx, id)
		if !found {
			return pbt.Failf("C17/context-missing", "request context of feed %s disappeared", f.name)
		}
		wantRun, wantPause := rc.State == servicetypes.RUNNING, rc.State == servicetypes.PAUSED
		if running[f.name] != wantRun || paused[f.name] != wantPause {
			return pbt.Failf("C17/state-mirror", "feed %s: request context is %s but the feed is indexed running=%v paused=%v", f.name, rc.State, running[f.name], paused[f.name])
		}
	}
	return nil
}

// judge compares a stored aggregate with the exact one: |stored - exact| <= 0.5e-8 + (n+2) * 2^-52 * max|x|.
func (m *machine) judge(f *feedM, stored string, outs []string) error {
	got, ok := new(big.Rat).SetString(stored)
	if !ok {
		return pbt.Failf("C17/value-format", "feed %s stored a non-numeric value %q", f.name, stored)
	}
	if i := strings.IndexByte(stored, '.'); i < 0 || len(stored)-i-1 != 8 {
		return pbt.Failf("C17/value-format", "feed %s stored %q, expected 8 decimals", f.name, stored)
	}
	want := aggregate(f.agg, outs)
	maxAbs := new(big.Rat)
	allNeg := true
	for _, s := range outs {
		x, _ := new(big.Rat).SetString(s)
		if x.Sign() >= 0 {
			allNeg = false
		}
		if ax := new(big.Rat).Abs(x); ax.Cmp(maxAbs) > 0 {
			maxAbs = ax
		}
	}
	if allNeg {
		m.nNegative++
	}
	tol := new(big.Rat).SetFrac(big.NewInt(1), big.NewInt(200000000)) // 0.5e-8
	ulp := new(big.Rat).SetFrac(big.NewInt(int64(len(outs)+2)), new(big.Int).Lsh(big.NewInt(1), 52))
	tol.Add(tol, new(big.Rat).Mul(ulp, maxAbs))
	diff := new(big.Rat).Sub(got, want)
	if diff.Abs(diff).Cmp(tol) > 0 {
		sig := "C17/aggregate"
		if f.agg == "max" && allNeg {
			sig = "C17/max-of-negative-values"
		}
		return pbt.Failf(sig, "feed %s: %s of %v stored as %s, exact value %s", f.name, f.agg, outs, stored, want.FloatString(10))
	}
	return nil
}

func (m *machine) Finish() error { return nil }

func (m *machine) Classify() (bool, []string) {
	var cl []string
	add := func(ok bool, name string) {
		if ok {
			cl = append(cl, name)
		}
	}
	add(m.nBatches >= 3, "batches>=3")
	add(m.nValues >= 2, "values>=2")
	add(m.nNegative > 0, "all-negative-set")
	add(m.nTrim > 0, "history-trim")
	add(m.nAgedValues >= 2, "aged-feed-stored-values-across-a-counter-byte-boundary")
	add(m.nAggRefused > 0, "aggregate-name-in-other-letter-case-refused")
	add(m.nPathValues > 0, "value-addressed-by-a-path")
	add(m.c.Time().Year() > 2262 && m.nValues > 0, "block-time-beyond-2262")
	add(m.nBelowThr > 0, "below-threshold-batch")
	add(m.nStranger > 0, "stranger-attempt")
	add(m.nNoField > 0, "answer-without-field")
	add(m.nAutoPause > 0, "auto-pause")
	add(m.nRestart > 0, "reimport")
	add(m.nRestart >= 2, "reimport>=2")
	add(m.nRestartRunning > 0, "reimport-with-running-feed")
	add(m.nRestartOpenBatch > 0, "reimport-with-open-batch")
	add(m.nRestartOneValue > 0, "reimport-with-one-stored-value")
	add(m.nRestartCollapse > 0, "skipped:C12/oracle-value-history-collapses")
	add(m.nRestartManyValues > 0, "reimport-with->=2-stored-values")
	add(m.nValueAfterRestart > 0, "reimport-then-value")
	add(m.nTrimAfterRestart > 0, "reimport-then-history-trim")
	add(m.nBelowThrAfterRestart > 0, "reimport-then-below-threshold-batch")
	add(m.nAutoPauseAfterRestart > 0, "reimport-then-auto-pause")
	for _, f := range m.feeds {
		if f.creator == 4 {
			id, _ := hex.DecodeString(f.ctxID)
			if rc, ok := m.c.E.K.Service.GetRequestContext(m.c.Ctx, id); ok && rc.State == servicetypes.PAUSED && len(f.batches) > 0 {
				add(true, "poor-creator-paused")
				break
			}
		}
	}
	return m.nBatches >= 3 && m.nValues >= 1 && m.nTrim > 0, cl
}

const rule = "rapid state machine on the K-driver: create/start/pause/edit feeds (creator and strangers), providers answer with decimal strings of either sign / error results / not at all, blocks, restarts (zero-height preparation + genesis round trip of service and oracle); completed batches observed through complete_batch events; non-trivial = history with >=3 completed batches, >=1 stored value and >=1 history trim; distinct by SHA-256 of the op list"

func init() { pbt.RegisterMachine("c17", newMachine) }

func TestC17(t *testing.T) { pbt.RunMachine(t, "C17", "c17", rule, newMachine) }
