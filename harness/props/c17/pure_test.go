package c17

// The three aggregate functions as pure functions: random decimal strings of either sign against an exact
// big.Rat reference (TestC17Pure under rapid; FuzzC17Aggregate under the native fuzzer in the thorough tier).

import (
	"fmt"
	"math/big"
	"strings"
	"testing"

	"github.com/tidwall/gjson"
	"pgregory.net/rapid"

	oracletypes "mods.irisnet.org/modules/oracle/types"

	"verifharness/pbt"
)

type aggCase struct {
	Agg    string   `json:"agg"`
	Values []string `json:"values"`
}

func genAggCase(t *rapid.T) aggCase {
	n := rapid.IntRange(1, 6).Draw(t, "n")
	c := aggCase{Agg: rapid.SampledFrom([]string{"max", "min", "avg"}).Draw(t, "agg")}
	for i := 0; i < n; i++ {
		c.Values = append(c.Values, genValue(t))
	}
	return c
}

func checkAgg(c aggCase) (error, bool, []string) {
	f, err := oracletypes.GetAggregateFunc(c.Agg)
	if err != nil {
		return pbt.Failf("C17/aggregate", "no aggregate %s", c.Agg), false, nil
	}
	args := make([]oracletypes.ArgsType, len(c.Values))
	for i, v := range c.Values {
		args[i] = gjson.Parse(v)
	}
	stored := f(args)
	got, ok := new(big.Rat).SetString(stored)
	if !ok {
		return pbt.Failf("C17/value-format", "%s of %v gives non-numeric %q", c.Agg, c.Values, stored), false, nil
	}
	if i := strings.IndexByte(stored, '.'); i < 0 || len(stored)-i-1 != 8 {
		return pbt.Failf("C17/value-format", "%s of %v gives %q, expected 8 decimals", c.Agg, c.Values, stored), false, nil
	}
	want := aggregate(c.Agg, c.Values)
	maxAbs := new(big.Rat)
	neg, pos := 0, 0
	for _, s := range c.Values {
		x, _ := new(big.Rat).SetString(s)
		if x.Sign() < 0 {
			neg++
		} else {
			pos++
		}
		if ax := new(big.Rat).Abs(x); ax.Cmp(maxAbs) > 0 {
			maxAbs = ax
		}
	}
	tol := new(big.Rat).SetFrac(big.NewInt(1), big.NewInt(200000000))
	ulp := new(big.Rat).SetFrac(big.NewInt(int64(len(c.Values)+2)), new(big.Int).Lsh(big.NewInt(1), 52))
	tol.Add(tol, new(big.Rat).Mul(ulp, maxAbs))
	diff := new(big.Rat).Sub(got, want)
	if diff.Abs(diff).Cmp(tol) > 0 {
		sig := "C17/aggregate"
		if c.Agg == "max" && pos == 0 {
			sig = "C17/max-of-negative-values"
		}
		return pbt.Failf(sig, "%s of %v = %s, exact %s", c.Agg, c.Values, stored, want.FloatString(10)), true, nil
	}
	cl := []string{"agg=" + c.Agg}
	if pos == 0 {
		cl = append(cl, "all-negative")
	} else if neg > 0 {
		cl = append(cl, "mixed-sign")
	}
	return nil, neg > 0 && len(c.Values) >= 2, cl
}

const pureRule = "1-6 decimal strings of either sign (0-10 fractional digits, magnitudes up to 1e15) and one of max/min/avg; oracle = exact big.Rat aggregate within 0.5e-8 + (n+2)*2^-52*max|x|, 8-decimal format; non-trivial = >=2 values with at least one negative; distinct by SHA-256 of the input"

func init() { pbt.RegisterPure("c17pure", checkAgg) }

func TestC17Pure(t *testing.T) { pbt.RunPure(t, "C17", "c17pure", pureRule, genAggCase, checkAgg) }

func FuzzC17Aggregate(f *testing.F) {
	f.Fuzz(rapid.MakeFuzz(func(t *rapid.T) {
		c := genAggCase(t)
		if err, _, _ := checkAgg(c); err != nil {
			t.Fatalf("%v (%s)", err, fmt.Sprint(c))
		}
	}))
}
