package c09

import (
	"context"
	"crypto/sha256"
	"encoding/json"
	"fmt"
	"math"
	"math/big"
	"os"
	"regexp"
	"sort"
	"strings"
	"testing"

	sdkmath "cosmossdk.io/math"
	sdk "github.com/cosmos/cosmos-sdk/types"
	authtypes "github.com/cosmos/cosmos-sdk/x/auth/types"
	banktypes "github.com/cosmos/cosmos-sdk/x/bank/types"
	"pgregory.net/rapid"

	tokentypes "mods.irisnet.org/modules/token/types"
	v1 "mods.irisnet.org/modules/token/types/v1"
	"mods.irisnet.org/modules/token/types/v1beta1"

	"verifharness/chain"
	"verifharness/gen"
	"verifharness/pbt"
)

// C09 Token: identity is unique, only the owner governs, supply never exceeds the cap, burns are tallied
// exactly, issue/mint fees are split between fee pool and burning with nothing left in the module account.

// ---------------------------------------------------------------------------------------------
// universe

const (
	c09FeeDenom  = "stake" // fee denom of the default params (native token, scale 0)
	toSelf       = -1      // empty receiver field
	idxCollector = 6       // blocked address
	idxFresh     = 7       // address without an account
	idxModule    = 8       // the token module account itself (not a blocked address): coins sent or minted to it are parked there
	whoGov       = -1
)

var (
	c09Collector = chain.ModuleAddr(authtypes.FeeCollectorName)
	c09Module    = chain.ModuleAddr(tokentypes.ModuleName)
	c09Fresh     = func() sdk.AccAddress { s := sha256.Sum256([]byte("c09-fresh-account")); return sdk.AccAddress(s[:20]) }()
	one18        = gen.Pow10(18)
	maxU64       = new(big.Int).SetUint64(math.MaxUint64)
)

func c09Addr(e *chain.Env, i int) sdk.AccAddress {
	switch {
	case i >= 0 && i < len(e.Users):
		return e.Users[i].Addr
	case i == idxCollector:
		return c09Collector
	case i == idxModule:
		return c09Module
	default:
		return c09Fresh
	}
}

// string pools: the symbol pool and the min-unit pool overlap so that same-namespace and cross-namespace
// collisions both happen.
var (
	c09Symbols  = []string{"abc", "abd", "kitty", "doge2", "tok", "tokb", "s23456789012345678901234567890123", "z" + strings.Repeat("9", 63)}
	c09MinUnits = []string{"abc", "uabc", "kitty", "sat", "wei", "tok", "umax", "m" + strings.Repeat("0", 63)}
	// denoms with a trace (IBC vouchers and the like): MsgDeployERC20 creates a module-owned token record for them; "sat"
	// is also in the min-unit pool of issue, so a denom is reached by both routes
	c09Traced   = []string{"ibc/27394FB092D2ECCD56123C74F36E4C1F926001CEADA9CA97EA622B25F41E5EB2", "ibc/ABCD", "sat", "gwei"}
	c09BadNames = []string{"ab", "Abc", "ibcabc", "1abc", "htltx", "pegged", "lptoken", "tibcx", "a" + strings.Repeat("b", 64), "a-b", ""}
)

// ---------------------------------------------------------------------------------------------
// operations

type op09 struct {
	Kind     string `json:"kind"` // issue | edit | mint | burn | xfer | send | params
	Who      int    `json:"who"`
	Symbol   string `json:"symbol,omitempty"`
	MinUnit  string `json:"min_unit,omitempty"`
	Name     string `json:"name,omitempty"`
	Scale    uint32 `json:"scale,omitempty"`
	Initial  uint64 `json:"initial,omitempty"`
	Max      uint64 `json:"max,omitempty"`
	Mintable bool   `json:"mintable,omitempty"`
	MintEdit string `json:"mint_edit,omitempty"` // "", "true", "false"
	Amount   string `json:"amount,omitempty"`    // min units (v1) or main units (legacy)
	To       int    `json:"to,omitempty"`
	Legacy   bool   `json:"legacy,omitempty"` // v1beta1 message (mint/burn by symbol in main units)
	Tax      string `json:"tax,omitempty"`    // 18-decimal mantissas
	Ratio    string `json:"ratio,omitempty"`
	Base     string `json:"base,omitempty"`
	FeeSym   string `json:"fee_sym,omitempty"` // params: symbol of the token the issue/mint fee is quoted in ("" = stake)
}

type tok struct {
	symbol, minUnit, name string
	scale                 uint32
	initial, max          uint64
	mintable              bool
	owner                 string
	supply                *big.Int
	burned                *big.Int
	native                bool
	fracBurn              bool            // a fractional (in main units) burn succeeded
	oldOwners             map[string]bool // previous owners
	restored              bool            // went through a genesis export/import
	contract              bool            // bound to an ERC20 contract by MsgDeployERC20
	voucher               bool            // record created by MsgDeployERC20 for a traced denom: module-owned, no cap of its own
}

func (t *tok) unit() *big.Int { return gen.Pow10(int(t.scale)) }
func (t *tok) cap() *big.Int {
	return new(big.Int).Mul(new(big.Int).SetUint64(t.max), t.unit())
}

type m09 struct {
	c      *chain.Case
	bySym  map[string]*tok
	byMin  map[string]*tok
	order  []string
	tax    *big.Int // mantissas (x 10^18)
	ratio  *big.Int
	base   *big.Int
	feeSym string // symbol of the fee token (params.IssueTokenBaseFee.Denom)
	nReimp int
	parked map[string]*big.Int // denom -> coins sent or minted to the token module account itself
	cls    map[string]bool
	nt     bool
	avoid5 bool
}

func newC09() pbt.Machine[op09] {
	c := gen.Env().NewCase()
	m := &m09{c: c, bySym: map[string]*tok{}, byMin: map[string]*tok{}, cls: map[string]bool{},
		avoid5: os.Getenv("VERIF_C09_AVOID_F5") != ""}
	p := c.E.K.Token.GetParams(c.Ctx)
	m.tax, m.ratio, m.base = p.TokenTaxRate.BigInt(), p.MintTokenFeeRatio.BigInt(), p.IssueTokenBaseFee.Amount.BigInt()
	if p.IssueTokenBaseFee.Denom != c09FeeDenom {
		panic("unexpected fee denom " + p.IssueTokenBaseFee.Denom)
	}
	m.feeSym = c09FeeDenom
	// template prefix: a beacon, so that the authority can deploy ERC20 contracts
	p.Beacon, p.EnableErc20 = "0x000000000000000000000000000000000000bEAc", true
	if r := c.Deliver(&v1.MsgUpdateParams{Authority: c.E.Gov.String(), Params: p}); r.Outcome != chain.OK {
		panic(fmt.Sprintf("c09 setup: params: %v", r))
	}
	// the pre-registered native token
	nt := v1.GetNativeToken()
	t := &tok{symbol: nt.Symbol, minUnit: nt.MinUnit, name: nt.Name, scale: nt.Scale, initial: nt.InitialSupply, max: nt.MaxSupply,
		mintable: nt.Mintable, owner: nt.Owner, supply: c.Supply(nt.MinUnit).BigInt(), burned: new(big.Int), native: true, oldOwners: map[string]bool{}}
	m.bySym[t.symbol], m.byMin[t.minUnit] = t, t
	m.order = append(m.order, t.symbol)
	return m
}

// ---------------------------------------------------------------------------------------------
// independent fee evaluation: base / round2((ln len / ln 3)^4), at least 1

func feeFactor100(n int) *big.Int {
	x := math.Log(float64(n)) / math.Log(3)
	f := x * x * x * x * 100
	r := math.Floor(f + 0.5)
	if d := math.Abs(f - math.Floor(f) - 0.5); d < 1e-6 {
		panic(fmt.Sprintf("fee factor of length %d too close to a rounding boundary", n))
	}
	return big.NewInt(int64(r))
}

func (m *m09) issueFee(symbol string) *big.Int {
	if len(symbol) < 3 {
		return big.NewInt(1) // malformed symbol: the request is rejected before any fee is charged
	}
	q := new(big.Int).Mul(m.base, big.NewInt(100))
	q.Quo(q, feeFactor100(len(symbol)))
	if q.Cmp(big.NewInt(1)) < 0 {
		return big.NewInt(1)
	}
	return q
}

func (m *m09) mintFee(symbol string) *big.Int {
	f := new(big.Int).Mul(m.issueFee(symbol), m.ratio)
	return f.Quo(f, one18)
}

// feeTok is the token the fee is quoted in; the fee is charged in its min unit (fee x 10^scale).
func (m *m09) feeTok() *tok { return m.bySym[m.feeSym] }

func (m *m09) issueFeeMin(symbol string) *big.Int {
	return new(big.Int).Mul(m.issueFee(symbol), m.feeTok().unit())
}

func (m *m09) mintFeeMin(symbol string) *big.Int {
	return new(big.Int).Mul(m.mintFee(symbol), m.feeTok().unit())
}

func (m *m09) taxOf(fee *big.Int) *big.Int {
	t := new(big.Int).Mul(fee, m.tax)
	return t.Quo(t, one18)
}

// ---------------------------------------------------------------------------------------------
// validity of strings (independent of the module's regexps)

func lowerAlnum(s string, min, max int) bool {
	if len(s) < min || len(s) > max {
		return false
	}
	for i, r := range s {
		switch {
		case r >= 'a' && r <= 'z':
		case r >= '0' && r <= '9' && i > 0:
		default:
			return false
		}
	}
	for _, kw := range []string{"peg", "ibc", "lpt", "htlt", "tibc"} {
		if strings.HasPrefix(s, kw) {
			return false
		}
	}
	return true
}

// ---------------------------------------------------------------------------------------------
// generator

// mixCase writes some letters after the first in upper case (bit i of mask: letter i+1); the result differs from s
// whenever s has a letter after the first.
func mixCase(s string, mask int) string {
	b := []byte(s)
	n := 0
	for i := 1; i < len(b); i++ {
		if b[i] >= 'a' && b[i] <= 'z' {
			if mask>>(n%16)&1 == 1 {
				b[i] -= 'a' - 'A'
			}
			n++
		}
	}
	if string(b) == s {
		for i := 1; i < len(b); i++ {
			if b[i] >= 'a' && b[i] <= 'z' {
				b[i] -= 'a' - 'A'
				break
			}
		}
	}
	return string(b)
}

var erc20Name = regexp.MustCompile(`^[a-z][a-zA-Z0-9/]{2,100}$`)

func bigStr(b *big.Int) string { return b.String() }

func (m *m09) pickToken(t *rapid.T) *tok {
	// tokens with a fractional burn or a former owner are where the non-trivial rule bites
	var hot []string
	for _, sym := range m.order {
		if tk := m.bySym[sym]; tk.fracBurn || len(tk.oldOwners) > 0 {
			hot = append(hot, sym)
		}
	}
	if len(hot) > 0 && rapid.IntRange(0, 1).Draw(t, "hot?") == 0 {
		return m.bySym[rapid.SampledFrom(hot).Draw(t, "hotTok")]
	}
	// prefer tokens issued during the history
	if len(m.order) > 1 && rapid.IntRange(0, 19).Draw(t, "native?") != 0 {
		return m.bySym[m.order[1+rapid.IntRange(0, len(m.order)-2).Draw(t, "tok")]]
	}
	return m.bySym[m.order[0]]
}

func (m *m09) userIdx(addr string) int {
	for i, u := range m.c.E.Users {
		if u.Addr.String() == addr {
			return i
		}
	}
	return -100
}

func (m *m09) pickWho(t *rapid.T, tk *tok, pOwner int) int {
	oi := m.userIdx(tk.owner)
	if oi >= 0 && rapid.IntRange(0, 99).Draw(t, "byOwner") < pOwner {
		return oi
	}
	// old owners are the interesting non-owners
	var olds []int
	for a := range tk.oldOwners {
		if i := m.userIdx(a); i >= 0 && a != tk.owner {
			olds = append(olds, i)
		}
	}
	sort.Ints(olds)
	if len(olds) > 0 && rapid.IntRange(0, 2).Draw(t, "old") != 0 {
		return rapid.SampledFrom(olds).Draw(t, "oldOwner")
	}
	return rapid.IntRange(0, 5).Draw(t, "who")
}

func decMant(t *rapid.T, label string) string {
	switch rapid.IntRange(0, 9).Draw(t, label+"/k") {
	case 0:
		return "0"
	case 1:
		return one18.String()
	case 2:
		return "400000000000000000"
	case 3:
		return "1"
	case 4:
		return "999999999999999999"
	case 5:
		if rapid.IntRange(0, 2).Draw(t, label+"/invalid") == 0 {
			return "1000000000000000001" // invalid (> 1)
		}
		return gen.Pow10(rapid.IntRange(0, 17).Draw(t, label+"/pow")).String() // 10^-18 .. 0.1
	default:
		return new(big.Int).Mod(gen.Bits(t, label+"/bits", 61), new(big.Int).Add(one18, big.NewInt(1))).String()
	}
}

func (m *m09) Next(t *rapid.T) op09 {
	k := rapid.IntRange(0, 99).Draw(t, "kind")
	if len(m.order) == 1 && k >= 20 {
		k = 0
	}
	if len(m.order) > 1 && rapid.IntRange(0, 1<<20).Draw(t, "replay")%25 == 24 {
		// the owner (or somebody else) submits the issue request of an existing token once more, field for field as
		// the token is recorded now
		tk := m.bySym[m.order[rapid.IntRange(0, len(m.order)-1).Draw(t, "replayed")]]
		if tk != nil && !tk.native {
			who := m.userIdx(tk.owner)
			if who < 0 || rapid.IntRange(0, 3).Draw(t, "replayer") == 0 {
				who = rapid.IntRange(0, 4).Draw(t, "otherreplayer")
			}
			return op09{Kind: "issue", Who: who, Symbol: tk.symbol, MinUnit: tk.minUnit, Name: tk.name, Scale: tk.scale,
				Initial: tk.initial, Max: tk.max, Mintable: tk.mintable}
		}
	}
	if rapid.IntRange(0, 1<<20).Draw(t, "deploy")%10 == 9 {
		// the authority (rarely: a user) deploys an ERC20 contract: for a traced denom this creates a module-owned token
		// record under the symbol of the message, which follows the ERC20 rule (upper-case letters allowed after the first)
		op := op09{Kind: "deploy", Who: whoGov, Name: "erc", Scale: uint32(rapid.SampledFrom([]int{0, 6, 8, 18}).Draw(t, "dscale"))}
		if rapid.IntRange(0, 9).Draw(t, "nonGov") == 0 {
			op.Who = rapid.IntRange(0, 4).Draw(t, "who")
		}
		op.MinUnit = rapid.SampledFrom(c09Traced).Draw(t, "traced")
		if len(m.order) > 1 && rapid.IntRange(0, 3).Draw(t, "existing") == 0 {
			op.MinUnit = m.bySym[m.order[1+rapid.IntRange(0, len(m.order)-2).Draw(t, "tok")]].minUnit
		}
		taken := m.order[rapid.IntRange(0, len(m.order)-1).Draw(t, "taken")]
		switch rapid.IntRange(0, 9).Draw(t, "symKind") {
		case 0, 1, 2:
			op.Symbol = rapid.SampledFrom(c09Symbols).Draw(t, "symbol")
		case 3, 4:
			op.Symbol = taken
		case 5, 6, 7:
			op.Symbol = mixCase(taken, rapid.IntRange(1, 1<<16).Draw(t, "mix"))
		case 8:
			op.Symbol = mixCase(rapid.SampledFrom(c09Symbols).Draw(t, "symbol"), rapid.IntRange(1, 1<<16).Draw(t, "mix"))
		default:
			op.Symbol = rapid.SampledFrom([]string{"atom", "ibc/ABCD", "Atom", "ab"}).Draw(t, "symOther")
		}
		return op
	}
	switch {
	case k < 20: // issue
		op := op09{Kind: "issue", Who: rapid.SampledFrom([]int{0, 0, 1, 1, 2, 3, 4}).Draw(t, "who")}
		if ft := m.feeTok(); !ft.native && rapid.IntRange(0, 2).Draw(t, "feeHolder") != 0 {
			if i := m.userIdx(ft.owner); i >= 0 {
				op.Who = i // the fee token's owner is the likeliest holder of the fee denom
			}
		}
		op.Symbol = rapid.SampledFrom(c09Symbols).Draw(t, "symbol")
		op.MinUnit = rapid.SampledFrom(c09MinUnits).Draw(t, "minUnit")
		op.Name = "n"
		switch rapid.IntRange(0, 29).Draw(t, "invalid") {
		case 0:
			op.Symbol = rapid.SampledFrom(c09BadNames).Draw(t, "badSymbol")
		case 1:
			op.MinUnit = rapid.SampledFrom(c09BadNames).Draw(t, "badMinUnit")
		case 2:
			op.Name = rapid.SampledFrom([]string{"", strings.Repeat("x", 33)}).Draw(t, "badName")
		}
		op.Scale = uint32(rapid.SampledFrom([]int{0, 0, 1, 2, 6, 6, 18, 18, -1, -1, 19}).Draw(t, "scale"))
		if int32(op.Scale) == -1 {
			op.Scale = uint32(rapid.IntRange(0, 18).Draw(t, "scaleAny"))
		}
		switch rapid.IntRange(0, 9).Draw(t, "initialKind") {
		case 0:
			op.Initial = 0
		case 1:
			op.Initial = 1
		case 2:
			op.Initial = tokentypes.MaximumInitSupply
		case 3:
			op.Initial = tokentypes.MaximumInitSupply + 1
		case 4, 5:
			op.Initial = rapid.Uint64Range(0, tokentypes.MaximumInitSupply).Draw(t, "initial")
		default:
			op.Initial = uint64(rapid.IntRange(2, 1000).Draw(t, "initialSmall"))
		}
		switch rapid.IntRange(0, 9).Draw(t, "maxKind") {
		case 0:
			op.Max = 0
		case 1, 2:
			op.Max = op.Initial
		case 3, 4:
			op.Max = op.Initial + uint64(rapid.IntRange(1, 3).Draw(t, "maxPlus"))
		case 5:
			if op.Initial > 0 {
				op.Max = op.Initial - 1
			}
		case 6:
			op.Max = math.MaxUint64
		case 7:
			op.Max = rapid.Uint64().Draw(t, "maxAny")
		default:
			op.Max = op.Initial + uint64(rapid.IntRange(1, 100000).Draw(t, "maxSmall"))
		}
		op.Mintable = rapid.IntRange(0, 3).Draw(t, "mintable") != 0
		return op

	case k < 39: // edit
		tk := m.pickToken(t)
		op := op09{Kind: "edit", Symbol: tk.symbol, Who: m.pickWho(t, tk, 75), Name: v1.DoNotModify}
		if rapid.IntRange(0, 3).Draw(t, "rename") == 0 {
			op.Name = rapid.SampledFrom([]string{"renamed", "x", strings.Repeat("y", 32)}).Draw(t, "name")
		}
		if rapid.IntRange(0, 24).Draw(t, "unknown") == 0 {
			op.Symbol = "nosuchtoken"
		}
		fl := new(big.Int).Quo(tk.supply, tk.unit())
		cl := new(big.Int).Quo(new(big.Int).Add(tk.supply, new(big.Int).Sub(tk.unit(), big.NewInt(1))), tk.unit())
		var v *big.Int
		switch rapid.IntRange(0, 9).Draw(t, "maxKind") {
		case 0:
			v = new(big.Int)
		case 1, 2, 3:
			v = fl
		case 4:
			v = cl
		case 5:
			v = new(big.Int).Sub(fl, big.NewInt(1))
		case 6:
			v = new(big.Int).Add(cl, big.NewInt(int64(rapid.IntRange(1, 3).Draw(t, "above"))))
		case 7:
			v = new(big.Int).SetUint64(tk.initial)
		case 8:
			v = maxU64
		default:
			v = new(big.Int).SetUint64(rapid.Uint64().Draw(t, "maxAny"))
		}
		if v.Sign() < 0 {
			v = new(big.Int)
		}
		if v.Cmp(maxU64) > 0 {
			v = maxU64
		}
		if m.avoid5 && v.Sign() > 0 && v.Cmp(fl) == 0 && cl.Cmp(fl) != 0 {
			v = cl // generator switch: stay out of the F5 gap
		}
		op.Max = v.Uint64()
		op.MintEdit = rapid.SampledFrom([]string{"", "", "", "true", "false"}).Draw(t, "mintEdit")
		return op

	case k < 60: // mint
		tk := m.pickToken(t)
		op := op09{Kind: "mint", MinUnit: tk.minUnit, Symbol: tk.symbol, Who: m.pickWho(t, tk, 80)}
		op.To = rapid.SampledFrom([]int{toSelf, toSelf, toSelf, 0, 1, 2, 3, 5, idxCollector, idxFresh, idxModule}).Draw(t, "to")
		rem := new(big.Int).Sub(tk.cap(), tk.supply)
		if rapid.IntRange(0, 6).Draw(t, "legacy") == 0 {
			op.Legacy = true
			remMain := new(big.Int).Quo(rem, tk.unit())
			var v *big.Int
			switch rapid.IntRange(0, 3).Draw(t, "amtKind") {
			case 0:
				v = big.NewInt(1)
			case 1:
				v = remMain
			case 2:
				v = new(big.Int).Add(remMain, big.NewInt(1))
			default:
				v = big.NewInt(int64(rapid.IntRange(1, 1000).Draw(t, "amt")))
			}
			if v.Sign() <= 0 {
				v = big.NewInt(1)
			}
			if v.Cmp(maxU64) > 0 {
				v = maxU64
			}
			op.Amount = v.String()
			return op
		}
		var v *big.Int
		switch rapid.IntRange(0, 9).Draw(t, "amtKind") {
		case 0, 1:
			v = rem
		case 2:
			v = new(big.Int).Add(rem, big.NewInt(1))
		case 3:
			v = new(big.Int).Sub(rem, big.NewInt(1))
		case 4:
			v = big.NewInt(1)
		case 5:
			v = tk.unit()
		case 6:
			v = gen.Amount(t, "amt", 128)
		default:
			if rem.Sign() > 0 {
				v = new(big.Int).Mod(gen.Bits(t, "amtBits", 130), rem)
			} else {
				v = big.NewInt(int64(rapid.IntRange(1, 20).Draw(t, "amtTiny")))
			}
		}
		if v.Sign() <= 0 {
			v = big.NewInt(1)
		}
		op.Amount = v.String()
		if rapid.IntRange(0, 39).Draw(t, "bad") == 0 {
			op.MinUnit = rapid.SampledFrom([]string{"nosuchunit", "ab", "btc"}).Draw(t, "badUnit")
		}
		return op

	case k < 76: // burn
		tk := m.pickToken(t)
		op := op09{Kind: "burn", MinUnit: tk.minUnit, Symbol: tk.symbol}
		// prefer a holder
		var holders []int
		for i, u := range m.c.E.Users {
			if m.c.Balance(u.Addr, tk.minUnit).IsPositive() {
				holders = append(holders, i)
			}
		}
		if len(holders) > 0 && rapid.IntRange(0, 9).Draw(t, "holder") != 0 {
			op.Who = rapid.SampledFrom(holders).Draw(t, "who")
		} else {
			op.Who = rapid.IntRange(0, 5).Draw(t, "whoAny")
		}
		bal := m.c.Balance(m.c.E.Users[op.Who].Addr, tk.minUnit).BigInt()
		unit := tk.unit()
		if rapid.IntRange(0, 9).Draw(t, "legacy") == 0 {
			op.Legacy = true
			v := big.NewInt(int64(rapid.IntRange(1, 5).Draw(t, "amt")))
			if rapid.Bool().Draw(t, "all") {
				v = new(big.Int).Quo(bal, unit)
			}
			if v.Sign() <= 0 {
				v = big.NewInt(1)
			}
			if v.Cmp(maxU64) > 0 {
				v = maxU64
			}
			op.Amount = v.String()
			return op
		}
		var v *big.Int
		switch rapid.IntRange(0, 9).Draw(t, "amtKind") {
		case 0:
			v = big.NewInt(1)
		case 1:
			v = new(big.Int).Quo(unit, big.NewInt(2))
		case 2, 3:
			v = new(big.Int).Mod(gen.Bits(t, "frac", 64), unit) // strictly fractional
		case 4:
			v = new(big.Int).Mul(unit, big.NewInt(int64(rapid.IntRange(1, 3).Draw(t, "units"))))
		case 5:
			v = bal
		case 6:
			v = new(big.Int).Add(bal, big.NewInt(1))
		case 7:
			v = new(big.Int).Quo(bal, big.NewInt(3))
		default:
			v = new(big.Int).Add(unit, new(big.Int).Mod(gen.Bits(t, "frac2", 64), unit))
		}
		if v.Sign() <= 0 {
			v = big.NewInt(1)
		}
		op.Amount = v.String()
		return op

	case k < 85: // transfer ownership
		tk := m.pickToken(t)
		op := op09{Kind: "xfer", Symbol: tk.symbol, Who: m.pickWho(t, tk, 75)}
		op.To = rapid.SampledFrom([]int{0, 1, 2, 3, 4, 5, 0, 1, 2, idxCollector, idxFresh}).Draw(t, "to")
		return op

	case k < 88: // plain bank transfer of a token
		tk := m.pickToken(t)
		op := op09{Kind: "send", MinUnit: tk.minUnit, Who: rapid.IntRange(0, 3).Draw(t, "who"), To: rapid.IntRange(0, 5).Draw(t, "to")}
		bal := m.c.Balance(m.c.E.Users[op.Who].Addr, tk.minUnit).BigInt()
		v := new(big.Int).Quo(bal, big.NewInt(int64(rapid.IntRange(1, 4).Draw(t, "div"))))
		if rapid.IntRange(0, 2).Draw(t, "park") == 0 {
			op.To = idxModule // dust parked on the token module account
			v = big.NewInt(int64(rapid.IntRange(1, 9).Draw(t, "dust")))
		}
		if v.Sign() <= 0 {
			v = big.NewInt(1)
		}
		op.Amount = v.String()
		return op

	case k >= 96: // restart of the token module from its exported genesis
		op := op09{Kind: "reimport", Who: whoGov}
		if len(m.order) > 1 && rapid.IntRange(0, 3).Draw(t, "orphan") == 0 {
			// the exported file is edited by hand before the import: one token loses its owner (an empty owner passes the
			// module's validation); from then on nobody is its owner
			op.Symbol = m.order[1+rapid.IntRange(0, len(m.order)-2).Draw(t, "orphaned")]
		}
		return op

	default: // params
		op := op09{Kind: "params", Who: whoGov}
		if rapid.IntRange(0, 7).Draw(t, "nonGov") == 0 {
			op.Who = rapid.IntRange(0, 5).Draw(t, "who")
		}
		op.Tax, op.Ratio = decMant(t, "tax"), decMant(t, "ratio")
		switch rapid.IntRange(0, 7).Draw(t, "baseKind") {
		case 0:
			op.Base = "0"
		case 1:
			op.Base = "1"
		case 2:
			op.Base = "60000"
		case 3:
			op.Base = gen.Pow2(190).String()
		case 4:
			op.Base = fmt.Sprint(rapid.IntRange(2, 400).Draw(t, "baseSmall"))
		default:
			op.Base = fmt.Sprint(rapid.IntRange(1, 10000000).Draw(t, "base"))
		}
		// fee quoted in an issued token (symbol != min unit, scale > 0 wherever the history has one)
		if len(m.order) > 1 && rapid.IntRange(0, 3).Draw(t, "feeTok?") == 0 {
			var cand []string
			for _, sym := range m.order[1:] {
				if tk := m.bySym[sym]; tk.symbol != tk.minUnit && !tk.voucher {
					cand = append(cand, sym)
				}
			}
			if len(cand) == 0 {
				for _, sym := range m.order[1:] {
					if !m.bySym[sym].voucher {
						cand = append(cand, sym)
					}
				}
			}
			if len(cand) == 0 {
				return op
			}
			op.FeeSym = rapid.SampledFrom(cand).Draw(t, "feeSym")
			if gen.BigOf(op.Base).BitLen() > 64 {
				op.Base = "60000" // keep fee x 10^scale inside the integer range
			}
			if rapid.IntRange(0, 3).Draw(t, "affordable") != 0 {
				op.Base = fmt.Sprint(rapid.IntRange(0, 50).Draw(t, "baseTiny")) // main units of a token with a small supply
			}
		}
		return op
	}
}

// ---------------------------------------------------------------------------------------------
// execution

type verdict struct {
	reject bool   // the operation must be rejected
	sig    string // signature if it is accepted nevertheless
	why    string
}

func mustReject(sig, why string) verdict { return verdict{true, sig, why} }

func (m *m09) Apply(op op09) error {
	c := m.c
	e := c.E
	before := c.Snapshot()
	var msg sdk.Msg
	var v verdict
	exp := chain.NewExpect()
	var commit func()

	whoAddr := e.Gov
	if op.Who >= 0 {
		whoAddr = c09Addr(e, op.Who)
	}
	who := whoAddr.String()
	feeDenom := m.feeTok().minUnit
	stake := c.Balance(whoAddr, feeDenom).BigInt() // what the actor holds of the fee denom

	payFee := func(fee *big.Int) { // fee in min units of the fee token
		tax := m.taxOf(fee)
		burn := new(big.Int).Sub(fee, tax)
		exp.Add(whoAddr, feeDenom, new(big.Int).Neg(fee))
		exp.Add(c09Collector, feeDenom, tax)
		exp.Supply(feeDenom, new(big.Int).Neg(burn))
	}

	switch op.Kind {
	case "issue":
		msg = &v1.MsgIssueToken{Symbol: op.Symbol, Name: op.Name, Scale: op.Scale, MinUnit: op.MinUnit, InitialSupply: op.Initial,
			MaxSupply: op.Max, Mintable: op.Mintable, Owner: who}
		effMax := op.Max
		if effMax == 0 {
			if op.Mintable {
				effMax = math.MaxUint64
			} else {
				effMax = op.Initial
			}
		}
		fee := m.issueFeeMin(op.Symbol)
		switch {
		case len(op.Name) == 0 || len(op.Name) > 32 || !lowerAlnum(op.Symbol, 3, 64) || !lowerAlnum(op.MinUnit, 3, 64) ||
			op.Initial > 100000000000 || effMax < op.Initial || op.Scale > 18:
			v = mustReject("C09/invalid-issue-accepted", "malformed issue request")
		case m.bySym[op.Symbol] != nil:
			v = mustReject("C09/symbol-reused", "symbol already identifies a token")
			m.cls["symbol-collision-attempt"] = true
			if x := m.bySym[op.Symbol]; x.minUnit == op.MinUnit && x.name == op.Name && x.scale == op.Scale && x.initial == op.Initial &&
				x.max == op.Max && x.mintable == op.Mintable && x.owner == who {
				m.cls["issue-request-replayed-field-for-field"] = true
			}
			if m.bySym[op.Symbol].restored {
				m.cls["issue-colliding-with-restored-token"] = true
				m.cls["issue-colliding-with-restored-symbol"] = true
			}
		case m.byMin[op.MinUnit] != nil:
			v = mustReject("C09/min-unit-reused", "min unit already identifies a token")
			m.cls["min-unit-collision-attempt"] = true
			if m.byMin[op.MinUnit].restored {
				m.cls["issue-colliding-with-restored-token"] = true
				m.cls["issue-colliding-with-restored-min-unit"] = true
			}
		case stake.Cmp(fee) < 0:
			v = mustReject("C09/fee-not-charged", "owner cannot pay the issue fee")
			m.cls["issue-fee-unaffordable"] = true
		}
		amt := new(big.Int).Mul(new(big.Int).SetUint64(op.Initial), gen.Pow10(int(op.Scale)))
		payFee(fee)
		exp.Add(whoAddr, op.MinUnit, amt)
		exp.Supply(op.MinUnit, amt)
		commit = func() {
			t := &tok{symbol: op.Symbol, minUnit: op.MinUnit, name: op.Name, scale: op.Scale, initial: op.Initial, max: effMax,
				mintable: op.Mintable, owner: who, supply: amt, burned: new(big.Int), oldOwners: map[string]bool{}}
			if m.byMin[op.Symbol] != nil || m.bySym[op.MinUnit] != nil {
				m.cls["cross-namespace-collision"] = true
			}
			m.bySym[t.symbol], m.byMin[t.minUnit] = t, t
			m.order = append(m.order, t.symbol)
			m.feePaid(fee)
		}

	case "deploy":
		msg = &v1.MsgDeployERC20{Symbol: op.Symbol, Name: op.Name, Scale: op.Scale, MinUnit: op.MinUnit, Authority: who}
		tk := m.byMin[op.MinUnit]
		var clash string // a token whose symbol differs from the message's by letter case only
		for _, sym := range m.order {
			if sym != op.Symbol && strings.EqualFold(sym, op.Symbol) {
				clash = sym
			}
		}
		switch {
		case !erc20Name.MatchString(op.Symbol) || !erc20Name.MatchString(op.MinUnit) || op.Scale > 18:
			v = mustReject("C09/invalid-deploy-accepted", "malformed deployment")
		case op.Who != whoGov:
			v = mustReject("C09/deploy-by-non-authority", "deployment by a user")
			m.cls["deploy-by-non-authority"] = true
		case tk != nil && tk.contract:
			v = mustReject("C09/second-contract", "the token already has a contract")
		case tk == nil && m.bySym[op.Symbol] != nil:
			v = mustReject("C09/symbol-reused", "symbol already identifies a token")
			m.cls["deploy-symbol-collision-attempt"] = true
		}
		commit = func() {
			if tk != nil {
				tk.contract = true // the record of an existing token is otherwise untouched, whatever symbol the contract got
				m.cls["contract-deployed-for-issued-token"] = true
				return
			}
			t := &tok{symbol: op.Symbol, minUnit: op.MinUnit, name: op.Name, scale: op.Scale, mintable: true, owner: c09Module.String(),
				supply: c.Supply(op.MinUnit).BigInt(), burned: new(big.Int), oldOwners: map[string]bool{}, contract: true, voucher: true}
			m.bySym[t.symbol], m.byMin[t.minUnit] = t, t
			m.order = append(m.order, t.symbol)
			m.cls["voucher-token-created"] = true
			if clash != "" {
				m.cls["voucher-symbol-differs-from-a-token-symbol-by-case-only"] = true
			}
			if op.Symbol != strings.ToLower(op.Symbol) {
				m.cls["voucher-symbol-in-mixed-case"] = true
			}
		}

	case "edit":
		msg = &v1.MsgEditToken{Symbol: op.Symbol, Name: op.Name, MaxSupply: op.Max, Mintable: tokentypes.Bool(op.MintEdit), Owner: who}
		tk := m.bySym[op.Symbol]
		switch {
		case len(op.Name) == 0 || len(op.Name) > 32 || !lowerAlnum(op.Symbol, 3, 64) || tk == nil:
			v = mustReject("C09/invalid-edit-accepted", "malformed edit or unknown token")
		case tk.owner != who:
			v = mustReject("C09/non-owner-accepted", "edit by a non-owner")
			m.noteNonOwner(tk, who)
		default:
			if tk.fracBurn && op.Max > 0 {
				m.cls["frac-burn-then-edit"] = true
				m.nt = true
			}
			if op.Max > 0 {
				newCap := new(big.Int).Mul(new(big.Int).SetUint64(op.Max), tk.unit())
				if newCap.Cmp(tk.supply) < 0 {
					v = mustReject("C09/edit-max-below-supply", fmt.Sprintf("max supply %d x 10^%d is below the circulating %s", op.Max, tk.scale, tk.supply))
					fl := new(big.Int).Quo(tk.supply, tk.unit())
					if fl.IsUint64() && fl.Uint64() == op.Max {
						m.cls["edit-max-in-floor-gap"] = true
					}
				} else if newCap.Cmp(tk.supply) == 0 {
					m.cls["edit-max-equals-supply"] = true
				}
			}
		}
		commit = func() {
			if op.Max > 0 {
				tk.max = op.Max
			}
			if op.Name != v1.DoNotModify {
				tk.name = op.Name
			}
			if op.MintEdit != "" {
				tk.mintable = op.MintEdit == "true"
			}
			if tk.restored {
				m.cls["edit-after-reimport"] = true
			}
		}

	case "mint", "burn":
		amount := gen.BigOf(op.Amount)
		var tk *tok
		wellFormed := amount.Sign() > 0
		if op.Legacy {
			tk = m.bySym[op.Symbol]
			wellFormed = wellFormed && amount.IsUint64() && lowerAlnum(op.Symbol, 3, 64)
			if tk != nil {
				amount = new(big.Int).Mul(amount, tk.unit())
			}
		} else {
			tk = m.byMin[op.MinUnit]
			wellFormed = wellFormed && lowerAlnum(op.MinUnit, 3, 64)
		}
		if op.Kind == "mint" {
			to := whoAddr
			recv := ""
			if op.To != toSelf {
				to = c09Addr(e, op.To)
				recv = to.String()
			}
			if op.Legacy {
				msg = &v1beta1.MsgMintToken{Symbol: op.Symbol, Amount: gen.BigOf(op.Amount).Uint64(), To: recv, Owner: who}
			} else {
				msg = &v1.MsgMintToken{Coin: sdk.Coin{Denom: op.MinUnit, Amount: gen.ToInt(gen.BigOf(op.Amount))}, Receiver: recv, Owner: who}
			}
			// the mint fee is charged before the cap is looked at: when the fee is quoted in the minted token itself,
			// its burned share has already left the circulating amount
			supplyAtCheck := new(big.Int)
			if tk != nil {
				supplyAtCheck.Set(tk.supply)
				if m.feeTok() == tk {
					f := m.mintFeeMin(tk.symbol)
					supplyAtCheck.Sub(supplyAtCheck, new(big.Int).Sub(f, m.taxOf(f)))
					m.cls["mint-of-the-fee-token"] = true
				}
			}
			switch {
			case !wellFormed || tk == nil:
				v = mustReject("C09/invalid-mint-accepted", "malformed mint or unknown token")
			case tk.owner != who:
				v = mustReject("C09/non-owner-accepted", "mint by a non-owner")
				m.noteNonOwner(tk, who)
			case !tk.mintable:
				v = mustReject("C09/non-mintable-minted", "token is not mintable")
				m.cls["non-mintable-mint-attempt"] = true
			case new(big.Int).Add(supplyAtCheck, amount).Cmp(tk.cap()) > 0:
				v = mustReject("C09/mint-over-cap", "mint would exceed the maximum supply")
				if new(big.Int).Add(supplyAtCheck, amount).Cmp(new(big.Int).Add(tk.cap(), big.NewInt(1))) == 0 {
					m.cls["mint-one-over-cap"] = true
				}
			case to.Equals(c09Collector):
				v = mustReject("C09/mint-to-blocked", "recipient is a blocked module account")
			case stake.Cmp(m.mintFeeMin(tk.symbol)) < 0:
				v = mustReject("C09/fee-not-charged", "owner cannot pay the mint fee")
			}
			if tk != nil {
				fee := m.mintFeeMin(tk.symbol)
				payFee(fee)
				exp.Add(to, tk.minUnit, amount)
				exp.Supply(tk.minUnit, amount)
				if !v.reject && tk.fracBurn {
					m.cls["frac-burn-then-mint"] = true
					m.nt = true
				}
				commit = func() {
					tk.supply = new(big.Int).Add(tk.supply, amount)
					m.feePaid(fee)
					if to.Equals(c09Module) {
						m.park(tk.minUnit, amount)
					}
					if tk.supply.Cmp(tk.cap()) == 0 {
						m.cls["mint-to-exact-cap"] = true
					}
					if op.Legacy {
						m.cls["legacy-mint"] = true
					}
					if tk.restored {
						m.cls["mint-after-reimport"] = true
					}
				}
			}
		} else {
			if op.Legacy {
				msg = &v1beta1.MsgBurnToken{Symbol: op.Symbol, Amount: gen.BigOf(op.Amount).Uint64(), Sender: who}
			} else {
				msg = &v1.MsgBurnToken{Coin: sdk.Coin{Denom: op.MinUnit, Amount: gen.ToInt(gen.BigOf(op.Amount))}, Sender: who}
			}
			switch {
			case !wellFormed || tk == nil:
				v = mustReject("C09/invalid-burn-accepted", "malformed burn or unknown token")
			case c.Balance(whoAddr, tk.minUnit).BigInt().Cmp(amount) < 0:
				v = mustReject("C09/burn-without-funds", "sender does not hold the burned amount")
			}
			if tk != nil {
				exp.Add(whoAddr, tk.minUnit, new(big.Int).Neg(amount))
				exp.Supply(tk.minUnit, new(big.Int).Neg(amount))
				commit = func() {
					tk.supply = new(big.Int).Sub(tk.supply, amount)
					tk.burned = new(big.Int).Add(tk.burned, amount)
					if new(big.Int).Mod(amount, tk.unit()).Sign() != 0 && !tk.native {
						tk.fracBurn = true
						m.cls["fractional-burn"] = true
					}
					if tk.owner != who {
						m.cls["burn-by-non-owner-holder"] = true
					}
					if tk.restored {
						m.cls["burn-after-reimport"] = true
					}
				}
			}
		}

	case "xfer":
		to := c09Addr(e, op.To)
		msg = &v1.MsgTransferTokenOwner{SrcOwner: who, DstOwner: to.String(), Symbol: op.Symbol}
		tk := m.bySym[op.Symbol]
		switch {
		case tk == nil || to.Equals(whoAddr) || !lowerAlnum(op.Symbol, 3, 64):
			v = mustReject("C09/invalid-transfer-accepted", "malformed ownership transfer")
		case tk.owner != who:
			v = mustReject("C09/non-owner-accepted", "ownership transfer by a non-owner")
			m.noteNonOwner(tk, who)
		case to.Equals(c09Collector):
			v = mustReject("C09/owner-blocked", "new owner is a blocked module account")
		}
		commit = func() {
			tk.oldOwners[tk.owner] = true
			tk.owner = to.String()
			m.cls["ownership-transferred"] = true
			if tk.restored {
				m.cls["ownership-transferred-after-reimport"] = true
			}
		}

	case "send":
		amount := gen.BigOf(op.Amount)
		to := c09Addr(e, op.To)
		msg = &banktypes.MsgSend{FromAddress: who, ToAddress: to.String(), Amount: sdk.Coins{sdk.Coin{Denom: op.MinUnit, Amount: gen.ToInt(amount)}}}
		r := c.Deliver(msg)
		if r.Outcome == chain.Panicked {
			return pbt.Failf("C09/panic", "bank send panicked: %v", r.Panic)
		}
		if r.Outcome == chain.OK && op.To == idxModule {
			m.park(op.MinUnit, amount)
		}
		return m.invariants()

	case "params":
		p := c.E.K.Token.GetParams(c.Ctx)
		tax, ratio, base := gen.BigOf(op.Tax), gen.BigOf(op.Ratio), gen.BigOf(op.Base)
		p.TokenTaxRate = sdkmath.LegacyNewDecFromBigIntWithPrec(tax, 18)
		p.MintTokenFeeRatio = sdkmath.LegacyNewDecFromBigIntWithPrec(ratio, 18)
		feeSym := op.FeeSym
		if feeSym == "" {
			feeSym = c09FeeDenom
		}
		if m.bySym[feeSym] == nil {
			return pbt.Failf("harness/bad-op", "fee symbol %q names no token of the model", feeSym)
		}
		p.IssueTokenBaseFee = sdk.Coin{Denom: feeSym, Amount: gen.ToInt(base)}
		msg = &v1.MsgUpdateParams{Authority: who, Params: p}
		switch {
		case tax.Cmp(one18) > 0 || ratio.Cmp(one18) > 0:
			v = mustReject("C09/invalid-params-accepted", "ratio above 1")
		case op.Who != whoGov:
			v = mustReject("C09/params-by-non-authority", "parameter change by a user")
		}
		commit = func() {
			m.tax, m.ratio, m.base, m.feeSym = tax, ratio, base, feeSym
			m.cls["params-changed"] = true
			if tax.Sign() == 0 {
				m.cls["params-tax-0"] = true
			}
			if tax.Cmp(one18) == 0 {
				m.cls["params-tax-1"] = true
			}
			if base.Cmp(big.NewInt(3)) <= 0 {
				m.cls["params-tiny-base-fee"] = true
			}
			if ratio.Sign() > 0 && ratio.Cmp(gen.Pow10(12)) <= 0 {
				m.cls["params-tiny-mint-ratio"] = true
			}
			if ratio.Sign() == 0 {
				m.cls["params-mint-ratio-0"] = true
			}
			if ft := m.feeTok(); ft.symbol != ft.minUnit {
				m.cls["params-fee-denom-symbol!=min-unit"] = true
			}
		}

	case "reimport":
		// restart of the token module from its own exported genesis: params, every token record and the burned
		// totals are carried; the model stays as it is
		if tk := m.bySym[op.Symbol]; op.Symbol != "" && tk != nil && !tk.native && !tk.voucher {
			c.GenesisEdit = func(_ string, exported json.RawMessage) json.RawMessage {
				var g map[string]interface{}
				if json.Unmarshal(exported, &g) != nil {
					return nil
				}
				toks, _ := g["tokens"].([]interface{})
				for _, x := range toks {
					if t, ok := x.(map[string]interface{}); ok && t["symbol"] == op.Symbol {
						t["owner"] = ""
					}
				}
				out, _ := json.Marshal(g)
				return out
			}
		}
		ei := c.EditedImports
		_, stage, err := c.Reimport(tokentypes.ModuleName)
		c.GenesisEdit = nil
		if err != nil {
			return pbt.Failf("C09/reimport-"+stage, "token genesis round trip with %d tokens: %v", len(m.order), err)
		}
		if c.EditedImports > ei {
			tk := m.bySym[op.Symbol]
			tk.oldOwners[tk.owner] = true
			tk.owner = ""
			m.cls["token-left-without-owner-by-an-edited-genesis"] = true
		}
		if got := chain.Diff(before, c.Snapshot()); !got.Empty() {
			return pbt.Failf("C09/reimport-moved-coins", "genesis round trip changed balances: %s", got)
		}
		m.nReimp++
		m.cls["reimport"] = true
		for _, sym := range m.order {
			t := m.bySym[sym]
			t.restored = true
			if !t.native {
				m.cls["reimport-with-issued-tokens"] = true
			}
			if t.burned.Sign() > 0 {
				m.cls["reimport-with-burned-tally"] = true
			}
			if len(t.oldOwners) > 0 {
				m.cls["reimport-after-ownership-transfer"] = true
			}
			if !t.native && t.supply.Cmp(t.cap()) == 0 {
				m.cls["reimport-with-token-at-cap"] = true
			}
		}
		if m.feeSym != c09FeeDenom {
			m.cls["reimport-with-issued-fee-token"] = true
		}
		return m.invariants()

	default:
		return pbt.Failf("harness/bad-op", "unknown op kind %q", op.Kind)
	}

	res := c.Deliver(msg)
	got := chain.Diff(before, c.Snapshot())
	switch res.Outcome {
	case chain.Panicked:
		return pbt.Failf("C09/panic", "%s panicked: %v", op.Kind, res.Panic)
	case chain.OK:
		if v.reject {
			return pbt.Failf(v.sig, "%s accepted although %s: %+v", op.Kind, v.why, op)
		}
		if want := exp.Delta(); !chain.SameDelta(got, want) {
			return pbt.Failf("C09/"+op.Kind+"-effect", "%s moved coins {%s}, expected {%s}: %+v", op.Kind, got, want, op)
		}
		if commit != nil {
			commit()
		}
	default:
		if !got.Empty() {
			return pbt.Failf("C09/rejected-with-effect", "rejected %s changed balances: %s", op.Kind, got)
		}
		if !v.reject {
			return pbt.Failf("C09/valid-op-rejected", "%s rejected (%v) although every precondition the model knows holds: %+v", op.Kind, res, op)
		}
	}
	return m.invariants()
}

// park notes coins that reached the token module account as an ordinary recipient.
func (m *m09) park(denom string, amount *big.Int) {
	if m.parked == nil {
		m.parked = map[string]*big.Int{}
	}
	if m.parked[denom] == nil {
		m.parked[denom] = new(big.Int)
	}
	m.parked[denom].Add(m.parked[denom], amount)
	m.cls["coins-parked-on-the-module-account"] = true
}

func (m *m09) feePaid(fee *big.Int) {
	ft := m.feeTok()
	tax := m.taxOf(fee)
	burn := new(big.Int).Sub(fee, tax)
	if fee.Sign() > 0 {
		m.cls["fee-paid"] = true
		switch {
		case tax.Sign() == 0:
			m.cls["fee-with-zero-tax-share"] = true // everything is burned
		case burn.Sign() == 0:
			m.cls["fee-with-zero-burn-share"] = true // everything goes to the fee pool
		default:
			m.cls["fee-split-both-parts"] = true
		}
		if !ft.native {
			m.cls["fee-paid-in-issued-token"] = true
		}
		if m.nReimp > 0 {
			m.cls["fee-after-reimport"] = true
		}
	} else {
		m.cls["fee-zero"] = true
	}
	// the burned part of the fee reduces the fee token's circulating amount (it is not a MsgBurnToken: no tally)
	ft.supply = new(big.Int).Sub(ft.supply, burn)
}

func (m *m09) noteNonOwner(tk *tok, who string) {
	m.cls["non-owner-attempt"] = true
	if tk.restored {
		m.cls["non-owner-attempt-after-reimport"] = true
	}
	if tk.oldOwners[who] {
		m.cls["old-owner-op-after-transfer"] = true
		m.nt = true
		if tk.restored {
			m.cls["old-owner-op-after-reimport"] = true
		}
	}
}

func (m *m09) invariants() error {
	c := m.c
	k := c.E.K.Token
	ctx := context.Context(c.Ctx)
	owned := map[string][]string{}
	for _, sym := range m.order {
		t := m.bySym[sym]
		owned[t.owner] = append(owned[t.owner], sym)
		check := func(denom string) error {
			resp, err := k.Token(ctx, &v1.QueryTokenRequest{Denom: denom})
			if err != nil {
				return pbt.Failf("C09/token-record", "token %s not found by %q: %v", sym, denom, err)
			}
			g, ok := resp.Token.GetCachedValue().(*v1.Token)
			if !ok {
				return pbt.Failf("C09/token-record", "token query answered %T", resp.Token.GetCachedValue())
			}
			if g.Symbol != t.symbol || g.MinUnit != t.minUnit || g.Scale != t.scale || g.InitialSupply != t.initial {
				return pbt.Failf("C09/identity-changed", "token %s now reads %+v", sym, g)
			}
			if g.Name != t.name || g.MaxSupply != t.max || g.Mintable != t.mintable || g.Owner != t.owner {
				return pbt.Failf("C09/token-record", "token %s reads %+v, model name=%q max=%d mintable=%v owner=%s", sym, g, t.name, t.max, t.mintable, t.owner)
			}
			return nil
		}
		if err := check(t.symbol); err != nil {
			return err
		}
		if m.bySym[t.minUnit] == nil || m.bySym[t.minUnit] == t { // the lookup falls back to the min unit only if no symbol matches
			if err := check(t.minUnit); err != nil {
				return err
			}
		}
		sup := c.Supply(t.minUnit).BigInt()
		if sup.Cmp(t.supply) != 0 {
			return pbt.Failf("C09/supply-mismatch", "bank supply of %s is %s, model %s", t.minUnit, sup, t.supply)
		}
		if !t.native && !t.voucher && sup.Cmp(t.cap()) > 0 {
			return pbt.Failf("C09/supply-exceeds-cap", "circulating %s %s exceeds max supply %d x 10^%d", sup, t.minUnit, t.max, t.scale)
		}
	}
	// owner index
	addrs := []string{c09Collector.String(), c09Fresh.String(), c09Module.String()}
	for _, u := range c.E.Users {
		addrs = append(addrs, u.Addr.String())
	}
	for _, a := range append(addrs, "") {
		resp, err := k.Tokens(ctx, &v1.QueryTokensRequest{Owner: a})
		if err != nil {
			return pbt.Failf("C09/owner-index", "tokens query for %q failed: %v", a, err)
		}
		var got []string
		for _, any := range resp.Tokens {
			got = append(got, any.GetCachedValue().(*v1.Token).Symbol)
		}
		want := append([]string{}, owned[a]...)
		if a == "" {
			want = append([]string{}, m.order...)
		}
		sort.Strings(got)
		sort.Strings(want)
		if strings.Join(got, ",") != strings.Join(want, ",") {
			return pbt.Failf("C09/owner-index", "tokens of owner %q: [%s], model [%s]", a, strings.Join(got, ","), strings.Join(want, ","))
		}
	}
	// the same through the keeper getters other modules use: GetTokens(owner), GetOwner, HasToken
	for _, a := range append(addrs, "") {
		var acc sdk.AccAddress
		if a != "" {
			acc = sdk.MustAccAddressFromBech32(a)
		}
		var got []string
		for _, ti := range k.GetTokens(c.Ctx, acc) {
			got = append(got, ti.GetSymbol())
		}
		want := append([]string{}, owned[a]...)
		if a == "" {
			want = append([]string{}, m.order...)
		}
		sort.Strings(got)
		sort.Strings(want)
		if strings.Join(got, ",") != strings.Join(want, ",") {
			return pbt.Failf("C09/owner-index", "keeper GetTokens(%q): [%s], model [%s]", a, strings.Join(got, ","), strings.Join(want, ","))
		}
	}
	for _, sym := range m.order {
		t := m.bySym[sym]
		if o, err := k.GetOwner(c.Ctx, t.symbol); err != nil || o.String() != t.owner {
			return pbt.Failf("C09/owner-getter", "GetOwner(%s) = %s (%v), model %s", t.symbol, o, err, t.owner)
		}
		if !k.HasToken(c.Ctx, t.symbol) || !k.HasToken(c.Ctx, t.minUnit) {
			return pbt.Failf("C09/has-token", "HasToken denies token %s / %s", t.symbol, t.minUnit)
		}
		if len(t.oldOwners) > 0 {
			m.cls["owner-query-after-transfer"] = true
			if t.oldOwners[t.owner] {
				m.cls["owner-query-after-transfer-back"] = true
			}
			if t.restored {
				m.cls["owner-query-after-transfer-and-reimport"] = true
			}
		}
	}
	for _, name := range append(append([]string{}, c09Symbols...), c09MinUnits...) {
		if m.bySym[name] == nil && m.byMin[name] == nil && k.HasToken(c.Ctx, name) {
			return pbt.Failf("C09/has-token", "HasToken(%s) although no token has that symbol or min unit", name)
		}
	}
	// burned tally
	tb, err := k.TotalBurn(ctx, &v1.QueryTotalBurnRequest{})
	if err != nil {
		return pbt.Failf("C09/burn-tally", "total burn query failed: %v", err)
	}
	gotBurn := map[string]string{}
	for _, coin := range tb.BurnedCoins {
		if _, dup := gotBurn[coin.Denom]; dup {
			return pbt.Failf("C09/burn-tally", "denom %s listed twice", coin.Denom)
		}
		gotBurn[coin.Denom] = coin.Amount.String()
	}
	n := 0
	for _, sym := range m.order {
		t := m.bySym[sym]
		if t.burned.Sign() == 0 {
			continue
		}
		n++
		if gotBurn[t.minUnit] != t.burned.String() {
			return pbt.Failf("C09/burn-tally", "burned tally of %s is %q, burns add up to %s", t.minUnit, gotBurn[t.minUnit], t.burned)
		}
	}
	if n != len(gotBurn) {
		return pbt.Failf("C09/burn-tally", "burn tally lists %v, model has %d burned denoms", gotBurn, n)
	}
	// parameters read back as set (also after a restart)
	p := k.GetParams(c.Ctx)
	if p.TokenTaxRate.BigInt().Cmp(m.tax) != 0 || p.MintTokenFeeRatio.BigInt().Cmp(m.ratio) != 0 ||
		p.IssueTokenBaseFee.Denom != m.feeSym || p.IssueTokenBaseFee.Amount.BigInt().Cmp(m.base) != 0 {
		return pbt.Failf("C09/params-mismatch", "params read %+v, model tax=%s ratio=%s base=%s%s", p, m.tax, m.ratio, m.base, m.feeSym)
	}
	// nothing may stay in the token module account but what was sent or minted to it on purpose
	wantMod := sdk.Coins{}
	for d, v := range m.parked {
		if v.Sign() > 0 {
			wantMod = wantMod.Add(sdk.Coin{Denom: d, Amount: gen.ToInt(v)})
		}
	}
	if bal := c.E.App.BankKeeper.GetAllBalances(c.Ctx, c09Module); !bal.Equal(wantMod) {
		return pbt.Failf("C09/module-account-nonzero", "token module account holds %s, parked there: %s", bal, wantMod)
	}
	return nil
}

func (m *m09) Finish() error { return nil }

func (m *m09) Classify() (bool, []string) {
	var cl []string
	for k := range m.cls {
		cl = append(cl, k)
	}
	if len(m.order) >= 4 {
		cl = append(cl, "tokens>=3")
	}
	sort.Strings(cl)
	return m.nt, cl
}

const c09Rule = "rapid state machine over issue/edit/mint/burn/transfer-owner/bank-send/ERC20 deployment by the authority (for issued tokens and for traced denoms, whose module-owned record takes the symbol of the message: fresh, taken, or a taken one in other letter case)/update-params (tax 0..1 incl. both ends, tiny base fees and mint ratios, fee quoted in stake or in an issued token with symbol != min unit)/" +
	"restart of the token module from its exported genesis (v1 and legacy v1beta1 mint/burn), owners, old owners, " +
	"non-owners and poor accounts, scales 0..18, symbols/min units from overlapping 8-word pools plus malformed ones, initial/max at their limits, amounts relative to " +
	"the remaining cap and to 10^scale; non-trivial = history with a fractional (in main units) burn followed by a max-supply edit or a mint of that token by its owner, or " +
	"an ownership transfer followed by an owner-only operation by the old owner; distinct by SHA-256 of the op list"

func init() { pbt.RegisterMachine("c09", newC09) }

func TestReplay(t *testing.T) { pbt.ReplayMain(t) }

func TestC09(t *testing.T) { pbt.RunMachine(t, "C09", "c09", c09Rule, newC09) }
