package c09

import (
	"fmt"
	"math/big"
	"os"
	"strings"
	"testing"

	sdkmath "cosmossdk.io/math"
	"pgregory.net/rapid"

	tokentypes "mods.irisnet.org/modules/token/types"

	"verifharness/gen"
	"verifharness/pbt"
)

// C10 level 1: types.LossLessSwap(input, ratio, scaleIn, scaleOut) against exact rational arithmetic.

type in10 struct {
	Gen   string `json:"gen"`   // random | boundary
	Input string `json:"input"` // min units of the input token
	Ratio string `json:"ratio"` // 18-decimal mantissa of the ratio (ratio = Ratio / 10^18)
	SIn   uint32 `json:"scale_in"`
	SOut  uint32 `json:"scale_out"`
}

var c10Scales = []int{0, 0, 6, 6, 18, 18, -1, -1, -1}

func drawScale(t *rapid.T, label string) uint32 {
	s := rapid.SampledFrom(c10Scales).Draw(t, label)
	if s < 0 {
		s = rapid.IntRange(0, 18).Draw(t, label+"/any")
	}
	return uint32(s)
}

func drawRatio(t *rapid.T, avoidF6 bool) *big.Int {
	k := rapid.IntRange(0, 19).Draw(t, "ratio/kind")
	if avoidF6 {
		k = 0
	}
	switch {
	case k < 5:
		return new(big.Int).Set(one18) // 1
	case k == 5:
		return new(big.Int).Quo(one18, big.NewInt(2)) // 0.5
	case k == 6:
		return new(big.Int).Mul(gen.Pow10(17), big.NewInt(25)) // 2.5
	case k == 7:
		return big.NewInt(1) // 10^-18
	case k == 8:
		return new(big.Int).Add(gen.Pow10(36), big.NewInt(int64(rapid.IntRange(-3, 3).Draw(t, "ratio/near1e18")))) // ~10^18
	case k == 9:
		return new(big.Int).Add(one18, big.NewInt(int64(rapid.IntRange(-100000, 100000).Draw(t, "ratio/near1")))) // 1 +- tiny
	case k == 10:
		return new(big.Int).Add(one18, new(big.Int).Mul(gen.Pow10(12), big.NewInt(int64(rapid.IntRange(1, 99).Draw(t, "ratio/ppm"))))) // 1.0000xx
	case k < 14:
		// few significant digits: d.dd
		return new(big.Int).Mul(gen.Pow10(16), big.NewInt(int64(rapid.IntRange(1, 999).Draw(t, "ratio/ddd"))))
	default:
		bits := rapid.IntRange(1, 120).Draw(t, "ratio/bits")
		return gen.Bits(t, "ratio/any", uint(bits))
	}
}

func genC10Pure(t *rapid.T) in10 {
	avoidF6 := os.Getenv("VERIF_C10_AVOID_F6") != "" // generator switch: ratio 1 only (where exactness is claimed)
	if rapid.IntRange(0, 3).Draw(t, "gen") != 0 || avoidF6 {
		in := in10{Gen: "random", SIn: drawScale(t, "sIn"), SOut: drawScale(t, "sOut")}
		in.Input = gen.Amount(t, "input", 128).String()
		in.Ratio = drawRatio(t, avoidF6).String()
		return in
	}
	// Constructive boundary: choose k = sIn - sOut in 1..18 and a ratio mantissa R coprime to 10, then solve
	// input * R = -d (mod 10^(18+k)) so that the exact product input*ratio/10^k lies d*10^-(18+k) below an integer -
	// inside the window where an 18-decimal rounding multiplication lands on the integer.
	k := rapid.IntRange(1, 18).Draw(t, "k")
	sOut := rapid.IntRange(0, 18-k).Draw(t, "sOut")
	r := gen.Bits(t, "R", uint(rapid.IntRange(2, 90).Draw(t, "Rbits")))
	r.Or(r, big.NewInt(1))
	for new(big.Int).Mod(r, big.NewInt(5)).Sign() == 0 {
		r.Add(r, big.NewInt(2))
	}
	half := new(big.Int).Mul(gen.Pow10(k-1), big.NewInt(5))
	var d *big.Int
	switch rapid.IntRange(0, 5).Draw(t, "dKind") {
	case 0:
		d = new(big.Int).Sub(half, big.NewInt(1))
	case 1:
		d = new(big.Int).Set(half)
	case 2:
		d = new(big.Int).Add(half, big.NewInt(1))
	default:
		d = big.NewInt(int64(rapid.IntRange(1, 20).Draw(t, "d")))
	}
	mod := gen.Pow10(18 + k)
	inv := new(big.Int).ModInverse(r, mod)
	x := new(big.Int).Mul(new(big.Int).Neg(d), inv)
	x.Mod(x, mod)
	// lift by a multiple of the modulus while staying below 2^128
	room := new(big.Int).Quo(new(big.Int).Sub(gen.Pow2(128), x), mod)
	if room.Sign() > 0 {
		j := new(big.Int).Mod(gen.Bits(t, "lift", 64), new(big.Int).Add(room, big.NewInt(1)))
		x.Add(x, new(big.Int).Mul(j, mod))
	}
	if x.Sign() == 0 {
		x.Set(mod)
	}
	return in10{Gen: "boundary", Input: x.String(), Ratio: r.String(), SIn: uint32(sOut + k), SOut: uint32(sOut)}
}

func isOverflowPanic(p interface{}) bool {
	s := fmt.Sprint(p)
	if strings.Contains(s, "Int64()") || strings.Contains(s, "Uint64()") {
		return false // conversion of an existing number to a machine integer: not a range refusal
	}
	return strings.Contains(s, "overflow") || strings.Contains(s, "out of range") || strings.Contains(s, "out of bound")
}

// swapValueChecks judges one (offered, burned, minted) triple against the value clauses of the property.
// Returned signature is empty when all clauses hold.
func swapValueChecks(offered, burned, minted, ratio *big.Int, sIn, sOut uint32) (sig, msg string) {
	if burned.Sign() < 0 || burned.Cmp(offered) > 0 {
		return "C10/burn-out-of-range", fmt.Sprintf("burned %s is outside [0, offered %s]", burned, offered)
	}
	if minted.Sign() < 0 {
		return "C10/mint-negative", fmt.Sprintf("minted %s", minted)
	}
	// minted / 10^sOut <= burned / 10^sIn * ratio   <=>   minted * 10^sIn * 10^18 <= burned * R * 10^sOut
	lhs := new(big.Int).Mul(minted, gen.Pow10(int(sIn)+18))
	rhs := new(big.Int).Mul(new(big.Int).Mul(burned, ratio), gen.Pow10(int(sOut)))
	if lhs.Cmp(rhs) > 0 {
		worth := new(big.Rat).SetFrac(rhs, gen.Pow10(int(sIn)+18))
		return "C10/mint-exceeds-burned-value", fmt.Sprintf("minted %s but the burned %s is worth only %s output units at ratio %s/10^18, scales %d->%d",
			minted, burned, worth.FloatString(6), ratio, sIn, sOut)
	}
	if ratio.Cmp(one18) == 0 {
		if lhs.Cmp(rhs) != 0 {
			return "C10/ratio1-not-exact", fmt.Sprintf("ratio 1: burned %s x 10^%d != minted %s x 10^%d", burned, sOut, minted, sIn)
		}
		dust := new(big.Int).Sub(offered, burned)
		if new(big.Int).Mul(dust, gen.Pow10(int(sOut))).Cmp(gen.Pow10(int(sIn))) >= 0 {
			return "C10/ratio1-dust-convertible", fmt.Sprintf("ratio 1: %s input units were handed back although they are worth at least one output unit (scales %d->%d)", dust, sIn, sOut)
		}
	}
	return "", ""
}

func checkC10Pure(in in10) (err error, nt bool, classes []string) {
	input, ratio := gen.BigOf(in.Input), gen.BigOf(in.Ratio)
	if input.Sign() <= 0 || ratio.Sign() <= 0 || in.SIn > 18 || in.SOut > 18 {
		return pbt.Failf("harness/bad-input", "%+v", in), false, nil
	}
	var burned, minted *big.Int
	var pan interface{}
	func() {
		defer func() { pan = recover() }()
		b, m := tokentypes.LossLessSwap(sdkmath.NewIntFromBigInt(input), sdkmath.LegacyNewDecFromBigIntWithPrec(ratio, 18), in.SIn, in.SOut)
		burned, minted = b.BigInt(), m.BigInt()
	}()
	classes = append(classes, "gen="+in.Gen)
	switch c := ratio.Cmp(one18); {
	case c == 0:
		classes = append(classes, "ratio=1")
	case c < 0:
		classes = append(classes, "ratio<1")
	default:
		classes = append(classes, "ratio>1")
	}
	switch {
	case in.SIn > in.SOut:
		classes = append(classes, "scale-down")
	case in.SIn < in.SOut:
		classes = append(classes, "scale-up")
	default:
		classes = append(classes, "scale-same")
	}
	// exact value of the input in output units
	num := new(big.Int).Mul(new(big.Int).Mul(input, ratio), gen.Pow10(int(in.SOut)))
	den := gen.Pow10(int(in.SIn) + 18)
	frac := new(big.Int).Mod(num, den)
	nt = frac.Sign() != 0
	if nt {
		classes = append(classes, "fractional-output")
	}
	if pan != nil {
		if isOverflowPanic(pan) {
			return nil, false, append(classes, "overflow")
		}
		return pbt.Failf("C10/pure-panic", "LossLessSwap panicked: %v on %+v", pan, in), nt, classes
	}
	if sig, msg := swapValueChecks(input, burned, minted, ratio, in.SIn, in.SOut); sig != "" {
		return pbt.Failf(sig, "LossLessSwap(%s, %s/10^18, %d, %d) = (%s, %s): %s", input, ratio, in.SIn, in.SOut, burned, minted, msg), nt, classes
	}
	if minted.Sign() == 0 {
		classes = append(classes, "nothing-minted")
	}
	if burned.Cmp(input) < 0 {
		classes = append(classes, "dust-returned")
	}
	return nil, nt, classes
}

const c10PureRule = "types.LossLessSwap against big.Int/big.Rat: input by shape up to 2^128, scales 0..18 (weights on 0/6/18), ratio any positive 18-decimal " +
	"(weights on 1, 0.5, 2.5, 10^-18, ~10^18, 1+-tiny, d.dd, random up to 120 bits) plus a constructive generator for inputs whose exact product lies just below an " +
	"integer (input*R = -d mod 10^(18+k), R coprime to 10); non-trivial = the exact output value has a non-zero fractional part; distinct by SHA-256 of the input"

func init() { pbt.RegisterPure("c10pure", checkC10Pure) }

func TestC10Pure(t *testing.T) {
	pbt.RunPure(t, "C10", "c10pure", c10PureRule, genC10Pure, checkC10Pure)
}
