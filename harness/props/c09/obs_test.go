package c09

import (
	"os"
	"testing"

	sdkmath "cosmossdk.io/math"
	sdk "github.com/cosmos/cosmos-sdk/types"
	"github.com/ethereum/go-ethereum/common"

	v1 "mods.irisnet.org/modules/token/types/v1"

	"verifharness/chain"
	"verifharness/gen"
)

// TestObsCapViaERC20 is not an entry point of a property check: it is a scripted probe (run with
// VERIF_C09_OBS=1) of an interaction that lies between the statements of C09 (histories of issue / edit /
// mint / burn only) and C10 (conservation of native + ERC20 supply): the maximum supply is enforced against
// the *native* supply only, so the detour through the ERC20 form lifts the circulating amount above it.
func TestObsCapViaERC20(t *testing.T) {
	if os.Getenv("VERIF_C09_OBS") == "" {
		t.Skip("VERIF_C09_OBS not set")
	}
	c := gen.Env().NewCase()
	e := c.E
	u := e.Users[0].Addr
	ok := func(r chain.Result, what string) {
		if r.Outcome != chain.OK {
			t.Fatalf("%s: %v", what, r)
		}
	}
	p := e.K.Token.GetParams(c.Ctx)
	p.Beacon, p.EnableErc20 = c10Beacon, true
	ok(c.Deliver(&v1.MsgUpdateParams{Authority: e.Gov.String(), Params: p}), "params")
	ok(c.Deliver(&v1.MsgIssueToken{Symbol: "cap", Name: "cap", Scale: 0, MinUnit: "ucap", InitialSupply: 100, MaxSupply: 100, Mintable: true, Owner: u.String()}), "issue")
	ok(c.Deliver(&v1.MsgDeployERC20{Symbol: "cap", Name: "cap", Scale: 0, MinUnit: "ucap", Authority: e.Gov.String()}), "deploy")
	eth := common.BytesToAddress(u.Bytes())
	coin := func(n int64) sdk.Coin { return sdk.NewCoin("ucap", sdkmath.NewInt(n)) }
	ok(c.Deliver(&v1.MsgSwapToERC20{Amount: coin(60), Sender: u.String(), Receiver: eth.Hex()}), "to erc20")
	ok(c.Deliver(&v1.MsgMintToken{Coin: coin(60), Owner: u.String()}), "mint 60 although 100 of max 100 exist (40 native + 60 ERC20)")
	ok(c.Deliver(&v1.MsgSwapFromERC20{WantedAmount: coin(60), Sender: u.String(), Receiver: u.String()}), "from erc20")
	t.Logf("OBSERVATION max supply 100, native supply now %s", c.Supply("ucap"))
	if c.Supply("ucap").Int64() <= 100 {
		t.Fatalf("expected the native supply to exceed the cap, got %s", c.Supply("ucap"))
	}
}
