package c09

import (
	"fmt"
	"math/big"
	"os"
	"sort"
	"strings"
	"sync"
	"testing"

	sdkmath "cosmossdk.io/math"
	storetypes "cosmossdk.io/store/types"
	sdk "github.com/cosmos/cosmos-sdk/types"
	banktypes "github.com/cosmos/cosmos-sdk/x/bank/types"
	"github.com/ethereum/go-ethereum/common"
	ethtypes "github.com/ethereum/go-ethereum/core/types"
	"pgregory.net/rapid"

	tokenkeeper "mods.irisnet.org/modules/token/keeper"
	tokentypes "mods.irisnet.org/modules/token/types"
	v1 "mods.irisnet.org/modules/token/types/v1"

	"verifharness/chain"
	"verifharness/evm"
	"verifharness/gen"
	"verifharness/pbt"
)

// C10 level 2: histories of ERC20 <-> native conversions and fee-token swaps on the K-driver with the
// transactional harness EVM.

// token universe of a case (index -> token)
type tok10 struct {
	symbol, minUnit string // symbol "" = no token record yet (traced denom)
	defSym          string // traced denom: the symbol a deploy op without `sym` uses
	scale           uint32
	owner           int  // user index, -1 = token module (native, trace-only denoms)
	registered      bool // has a token record
	contract        *common.Address
	sum             *big.Int         // bank supply + ERC20 total supply, as the model expects it
	erc             map[int]*big.Int // holder index -> ERC20 balance
	noDeploy        bool             // the generator never binds a contract to this token
	twin            int              // index of the token whose SYMBOL equals this token's MIN UNIT (-1: none)
	twinOf          int              // index of the token whose MIN UNIT equals this token's SYMBOL (-1: none)
	restored        bool             // had a contract when the module went through a genesis export/import
	parked          *big.Int         // coins of this denom that users sent to the token module account itself (nil = none)
}

var c10Tokens = []tok10{
	{symbol: "tka", minUnit: "utka", scale: 6, owner: 0, registered: true},
	{symbol: "tkb", minUnit: "utkb", scale: 18, owner: 1, registered: true},
	{symbol: "tkc", minUnit: "utkc", scale: 0, owner: 2, registered: true},
	{defSym: "btcsym", minUnit: "btc", scale: 8, owner: -1, registered: false}, // bank denom without a token record ("ibc-like"): symbol chosen at deployment
	{symbol: "stake", minUnit: "stake", scale: 0, owner: -1, registered: true}, // the native token
	// Symbols and min units are separate namespaces: a token's SYMBOL may equal another token's MIN UNIT. Every lookup
	// on a conversion path has to resolve a coin denom as a min unit (never symbol first), or value moves between the
	// two token records. Pair 1: both sides can get a contract. Pair 2: only the side whose symbol collides can.
	{symbol: "aurum", minUnit: "gold", scale: 6, owner: 3, registered: true},
	{symbol: "gold", minUnit: "ugold", scale: 18, owner: 0, registered: true},
	{symbol: "argent", minUnit: "silver", scale: 0, owner: 1, registered: true, noDeploy: true},
	{symbol: "silver", minUnit: "usilver", scale: 6, owner: 2, registered: true},
	{defSym: "atom", minUnit: c10IBCDenom, scale: 6, owner: -1, registered: false},  // IBC voucher: token record (symbol, name, scale) only once deployed
	{defSym: "osmo", minUnit: c10IBCDenom2, scale: 6, owner: -1, registered: false}, // a second voucher
}

// indices of the traced denoms (no token record until MsgDeployERC20 creates a module-owned one)
var c10Vouchers = []int{3, 9, 10}

// c10IBCDenom is a bank denom as the IBC transfer module makes them (upper-case hash, slash): DeployERC20 accepts
// such min units for denoms with a trace (MsgDeployERC20.ValidateBasic -> ValidateERC20), it is the case the
// trace-only branch of buildERC20Token was written for.
const c10IBCDenom = "ibc/27394FB092D2ECCD56123C74F36E4C1F926001CEADA9CA97EA622B25F41E5EB2"
const c10IBCDenom2 = "ibc/0471F1C4E7AFD3F07702BEF6DC365268D64570F7C1FDC98EA6098DD6DE59817B"

var (
	c10EnvOnce sync.Once
	c10EnvV    *chain.Env
)

// c10Env is the environment of the C10 machine: the default universe plus whale balances of the IBC denom.
func c10Env() *chain.Env {
	c10EnvOnce.Do(func() { c10EnvV = chain.NewEnv(chain.Options{ExtraDenoms: []string{c10IBCDenom, c10IBCDenom2}}) })
	return c10EnvV
}

// indices of the tokens that take part in a cross-namespace collision
var c10PairToks = []int{5, 6, 7, 8}

const (
	c10Beacon     = "0x000000000000000000000000000000000000bEAc"
	holderNoAcct  = 6 // ERC20 holder without a cosmos account
	holderModule  = 7 // the token module's own eth address
	recvInvalid   = 8 // swapToNative: a `to` string that is not a bech32 address
	c10NumHolders = 8
)

type op10 struct {
	Kind   string `json:"kind"` // deploy | toerc20 | fromerc20 | tonative | feeswap | enable | mint | burn
	Who    int    `json:"who"`  // user index (holder index for tonative), -1 = governance
	Tok    int    `json:"tok"`
	To     int    `json:"to,omitempty"` // receiver: user 0..5, 6 = blocked fee collector, 7 = fresh account, 8 = invalid string, -1 = empty/self
	Tok2   int    `json:"tok2,omitempty"`
	Amount string `json:"amount,omitempty"`
	Ratio  string `json:"ratio,omitempty"`  // feeswap: 18-decimal mantissa
	Fault  string `json:"fault,omitempty"`  // "", error, revert, plus, minus, noop
	NoKey  bool   `json:"no_key,omitempty"` // toerc20: the EVM does not support the receiver's key type
	// toerc20/fromerc20: the coin's denom is the token's min unit in upper case - another bank denom, which names no token
	UpperDenom bool `json:"upper_denom,omitempty"`
	Enable     bool `json:"enable,omitempty"`
	Parts      int  `json:"parts,omitempty"` // tonative: the EVM transaction calls swapToNative this many times (one log each)
	// tonative: the same EVM transaction also touches a contract that is not bound to any token and emits
	// SwapToNative-shaped events of its own: Foreign of them, placed before (negative) or after the first real log
	Foreign int `json:"foreign,omitempty"`
	// tonative: what the EVM transaction was sent to - 0 the bound contract itself, 1 a router/wallet contract that calls
	// swapToNative internally (the log's emitter is still the bound contract), 2 the contract of another token, 3 nothing
	// (a contract creation whose constructor makes the call)
	Via    int    `json:"via,omitempty"`
	Sym    string `json:"sym,omitempty"`    // deploy: symbol (and name) of the message; "" = the token's own / default symbol
	DScale int    `json:"dscale,omitempty"` // deploy: scale of the message + 1; 0 = the token's own / default scale
}

type m10 struct {
	c        *chain.Case
	toks     []*tok10
	enabled  bool
	okConv   int
	nt       bool
	cls      map[string]bool
	avoidF6  bool
	avoidXNS bool // generator switch: no fee swap whose target min unit is another token's symbol
	avoidIBC bool // generator switch: no restart while the IBC voucher has a token record
	nReimp   int
	moduleEt common.Address
	feeSrv   map[string]v1.MsgServer // fee-swap msg servers over persistent registries, per (pair, ratio)
	feeSeen  []op10                  // fee swaps drawn so far (generator: repeat a pair and ratio)
}

func c10Holder(e *chain.Env, i int) common.Address {
	switch {
	case i >= 0 && i < len(e.Users):
		return common.BytesToAddress(e.Users[i].Addr.Bytes())
	case i == holderModule:
		return common.BytesToAddress(c09Module.Bytes())
	default:
		return common.HexToAddress("0x00000000000000000000000000000000DeaD0001")
	}
}

func mustOK(r chain.Result, what string) {
	if r.Outcome != chain.OK {
		panic(fmt.Sprintf("c10 setup: %s failed: %v", what, r))
	}
}

func newC10() pbt.Machine[op10] {
	c := c10Env().NewCase()
	e := c.E
	m := &m10{c: c, enabled: true, cls: map[string]bool{}, avoidF6: os.Getenv("VERIF_C10_AVOID_F6") != "",
		avoidXNS: os.Getenv("VERIF_C10_AVOID_XNS_FEESWAP") != "", avoidIBC: os.Getenv("VERIF_C10_AVOID_IBC_REIMPORT") != ""}
	// template prefix (identical for every case, so not part of the op list): beacon set, zero mint fee,
	// three tokens of scales 6/18/0 with balances spread over the users
	p := e.K.Token.GetParams(c.Ctx)
	p.Beacon, p.EnableErc20, p.MintTokenFeeRatio = c10Beacon, true, sdkmath.LegacyZeroDec()
	mustOK(c.Deliver(&v1.MsgUpdateParams{Authority: e.Gov.String(), Params: p}), "params")
	for i := range c10Tokens {
		t := c10Tokens[i]
		t.erc = map[int]*big.Int{}
		if t.owner >= 0 {
			mustOK(c.Deliver(&v1.MsgIssueToken{Symbol: t.symbol, Name: t.symbol, Scale: t.scale, MinUnit: t.minUnit, InitialSupply: 1000000,
				MaxSupply: 0, Mintable: true, Owner: e.Users[t.owner].Addr.String()}), "issue "+t.symbol)
			bal := c.Balance(e.Users[t.owner].Addr, t.minUnit)
			for j := 0; j < 5; j++ {
				if j != t.owner {
					r := c.Deliver(banktypesSend(e.Users[t.owner].Addr, e.Users[j].Addr, t.minUnit, bal.QuoRaw(7)))
					mustOK(r, "distribute "+t.symbol)
				}
			}
		}
		t.twin, t.twinOf = -1, -1
		m.toks = append(m.toks, &t)
	}
	for _, a := range m.toks {
		a.sum = c.Supply(a.minUnit).BigInt() // after every issue: the issue fees burn stake
	}
	m.retwin()
	return m
}

// retwin recomputes which token's SYMBOL equals which token's MIN UNIT (a voucher's symbol is chosen at deployment).
func (m *m10) retwin() {
	for _, a := range m.toks {
		a.twin, a.twinOf = -1, -1
	}
	for i, a := range m.toks {
		for j, b := range m.toks {
			if i != j && b.registered && b.symbol != "" && a.minUnit == b.symbol {
				a.twin, b.twinOf = j, i
			}
		}
	}
}

// bySymbol returns the registered token that owns a symbol.
func (m *m10) bySymbol(sym string) *tok10 {
	for _, t := range m.toks {
		if t.registered && t.symbol == sym {
			return t
		}
	}
	return nil
}

// ---------------------------------------------------------------------------------------------
// generator

func (m *m10) drawAmount(t *rapid.T, avail *big.Int) *big.Int {
	var v *big.Int
	switch rapid.IntRange(0, 9).Draw(t, "amt/kind") {
	case 0, 1, 2:
		v = big.NewInt(int64(rapid.IntRange(1, 20).Draw(t, "amt/tiny")))
	case 3:
		v = new(big.Int).Set(avail)
	case 4:
		v = new(big.Int).Add(avail, big.NewInt(1))
	case 5, 6:
		if avail.Sign() > 0 {
			v = new(big.Int).Mod(gen.Bits(t, "amt/bits", 130), avail)
		} else {
			v = big.NewInt(1)
		}
	case 7:
		v = new(big.Int).Quo(avail, big.NewInt(int64(rapid.IntRange(2, 9).Draw(t, "amt/div"))))
	default:
		v = gen.Amount(t, "amt", 128)
	}
	if v.Sign() <= 0 {
		v = big.NewInt(1)
	}
	if b := gen.Pow2(128); v.Cmp(b) > 0 {
		v = b // the property's bound
	}
	return v
}

func drawFault(t *rapid.T) string {
	return rapid.SampledFrom([]string{"", "", "", "", "", "", "", "error", "revert", "plus", "minus", "noop"}).Draw(t, "fault")
}

func (m *m10) deployed() []int {
	var out []int
	for i, t := range m.toks {
		if t.contract != nil {
			out = append(out, i)
		}
	}
	return out
}

func (m *m10) Next(t *rapid.T) op10 {
	e := m.c.E
	dep := m.deployed()
	k := rapid.IntRange(0, 99).Draw(t, "kind")
	if len(dep) == 0 && k >= 12 && k < 78 {
		k = 0
	}
	if rapid.IntRange(0, 1<<20).Draw(t, "park")%14 == 13 {
		// somebody sends coins of a token to the token module account itself (it is not a blocked address): they are
		// nobody's conversion and must stay where they are, whatever is converted afterwards
		op := op10{Kind: "park", Who: rapid.IntRange(0, 4).Draw(t, "who")}
		op.Tok = m.pickTok(t, dep)
		op.Amount = fmt.Sprint(rapid.IntRange(1, 9).Draw(t, "dust"))
		return op
	}
	switch {
	case k < 12: // deploy
		op := op10{Kind: "deploy", Who: -1, Tok: rapid.IntRange(0, len(m.toks)-1).Draw(t, "tok")}
		if rapid.IntRange(0, 9).Draw(t, "pairTok?") < 4 {
			op.Tok = rapid.SampledFrom(c10PairToks).Draw(t, "pairTok")
		}
		if m.toks[op.Tok].noDeploy {
			op.Tok = 8 // pair 2 keeps exactly one deployable side
		}
		if rapid.IntRange(0, 9).Draw(t, "voucher?") < 4 {
			op.Tok = rapid.SampledFrom(c10Vouchers).Draw(t, "voucher")
		}
		if tk := m.toks[op.Tok]; !tk.registered {
			// a traced denom gets its token record here: the message chooses symbol, name and scale
			var issued, minUnits, vouchers []string
			for i, o := range m.toks {
				if o == tk {
					continue
				}
				if o.registered {
					issued = append(issued, o.symbol)
					minUnits = append(minUnits, o.minUnit)
				}
				if o.owner < 0 && i != 4 {
					if o.registered {
						vouchers = append(vouchers, o.symbol)
					} else {
						vouchers = append(vouchers, o.defSym)
						minUnits = append(minUnits, o.minUnit) // a symbol that equals a not yet deployed voucher's denom
					}
				}
			}
			switch k := rapid.IntRange(0, 19).Draw(t, "symKind"); {
			case k < 7:
				op.Sym = tk.defSym
			case k < 9:
				op.Sym = tk.minUnit
			case k < 14:
				op.Sym = rapid.SampledFrom(issued).Draw(t, "symIssued")
			case k < 17:
				op.Sym = rapid.SampledFrom(minUnits).Draw(t, "symMinUnit")
			default:
				op.Sym = rapid.SampledFrom(vouchers).Draw(t, "symVoucher")
			}
			op.DScale = 1 + rapid.SampledFrom([]int{0, 6, 6, 8, 18}).Draw(t, "dscale")
		} else if rapid.IntRange(0, 3).Draw(t, "otherSym") == 0 {
			// existing record: the message's symbol/scale only name the ERC20, the record must not change
			op.Sym = rapid.SampledFrom([]string{"tka", "gold", "zzz", "btc", "stake"}).Draw(t, "symAny")
			op.DScale = 1 + rapid.IntRange(0, 18).Draw(t, "dscaleAny")
		}
		if rapid.IntRange(0, 9).Draw(t, "nonGov") == 0 {
			op.Who = rapid.IntRange(0, 3).Draw(t, "who")
		}
		op.Fault = rapid.SampledFrom([]string{"", "", "", "", "", "error", "revert"}).Draw(t, "fault")
		return op
	case k < 34: // native -> ERC20
		op := op10{Kind: "toerc20", Who: rapid.IntRange(0, 5).Draw(t, "who")}
		op.Tok = m.pickTok(t, dep)
		op.To = rapid.IntRange(0, c10NumHolders-1).Draw(t, "to")
		op.Amount = m.drawAmount(t, m.c.Balance(e.Users[op.Who].Addr, m.toks[op.Tok].minUnit).BigInt()).String()
		op.Fault = drawFault(t)
		op.NoKey = rapid.IntRange(0, 14).Draw(t, "noKey") == 0
		op.UpperDenom = rapid.IntRange(0, 1<<20).Draw(t, "upperdenom")%20 == 19
		return op
	case k < 54: // ERC20 -> native by message
		op := op10{Kind: "fromerc20"}
		op.Tok = m.pickTok(t, dep)
		op.Who = m.pickHolder(t, m.toks[op.Tok], 5)
		op.To = rapid.SampledFrom([]int{0, 1, 2, 3, 4, 5, op.Who, op.Who, 6, 6, 7, 7}).Draw(t, "to")
		op.Amount = m.drawAmount(t, m.ercBal(m.toks[op.Tok], op.Who)).String()
		op.Fault = drawFault(t)
		op.UpperDenom = rapid.IntRange(0, 1<<20).Draw(t, "upperdenom")%12 == 11
		return op
	case k < 72: // ERC20 -> native by the contract's swapToNative + hook
		op := op10{Kind: "tonative"}
		op.Tok = m.pickTok(t, dep)
		op.Who = m.pickHolder(t, m.toks[op.Tok], c10NumHolders-1)
		op.To = rapid.SampledFrom([]int{0, 1, 2, 3, 4, 5, 6, 6, 7, 7, 8}).Draw(t, "to")
		op.Amount = m.drawAmount(t, m.ercBal(m.toks[op.Tok], op.Who)).String()
		if rapid.IntRange(0, 19).Draw(t, "zero") == 0 {
			op.Amount = "0"
		}
		op.Parts = rapid.SampledFrom([]int{1, 1, 1, 2, 3}).Draw(t, "parts")
		op.Foreign = rapid.SampledFrom([]int{0, 0, 0, 1, 2, 3, -1, -2}).Draw(t, "foreign")
		op.Via = rapid.SampledFrom([]int{0, 0, 0, 1, 1, 2, 3}).Draw(t, "via")
		return op
	case k < 78: // plain native mint / burn by the owner (legitimate changes of the sum)
		op := op10{Kind: rapid.SampledFrom([]string{"mint", "burn"}).Draw(t, "mb"), Tok: rapid.SampledFrom([]int{0, 1, 2, 5, 6, 7, 8}).Draw(t, "tok")}
		op.Who = m.toks[op.Tok].owner
		op.Amount = m.drawAmount(t, m.c.Balance(e.Users[op.Who].Addr, m.toks[op.Tok].minUnit).BigInt()).String()
		return op
	case k < 91: // fee-token swap
		op := op10{Kind: "feeswap", Who: rapid.IntRange(0, 5).Draw(t, "who")}
		op.Tok = rapid.IntRange(0, len(m.toks)-1).Draw(t, "tok")
		op.Tok2 = rapid.IntRange(0, len(m.toks)-2).Draw(t, "tok2")
		if op.Tok2 >= op.Tok {
			op.Tok2++
		}
		op.To = rapid.SampledFrom([]int{-1, -1, -1, 0, 1, 2, 3, 5, 6, 7}).Draw(t, "to")
		op.Ratio = drawRatio(t, m.avoidF6).String()
		if m.avoidXNS && m.toks[op.Tok2].twin >= 0 {
			op.Tok2 = m.toks[op.Tok2].twin // swap into the twin instead: its min unit is nobody's symbol
			if op.Tok2 == op.Tok {
				op.Tok2 = 0
			}
		}
		if len(m.feeSeen) > 0 && rapid.IntRange(0, 1).Draw(t, "repeatpair") == 0 {
			prev := m.feeSeen[rapid.IntRange(0, len(m.feeSeen)-1).Draw(t, "prevfee")]
			op.Tok, op.Tok2, op.Ratio = prev.Tok, prev.Tok2, prev.Ratio
		}
		op.Amount = m.drawAmount(t, m.c.Balance(e.Users[op.Who].Addr, m.toks[op.Tok].minUnit).BigInt()).String()
		m.feeSeen = append(m.feeSeen, op)
		return op
	case k >= 96: // restart of the token module from its exported genesis
		if m.avoidIBC && (m.toks[9].registered || m.toks[10].registered) {
			m.cls["skipped:C10/reimport-import"] = true
			return op10{Kind: "enable", Who: -1, Enable: m.enabled}
		}
		return op10{Kind: "reimport", Who: -1}
	default:
		op := op10{Kind: "enable", Who: -1, Enable: rapid.IntRange(0, 4).Draw(t, "on") >= 2}
		return op
	}
}

func (m *m10) pickTok(t *rapid.T, dep []int) int {
	// the colliding denoms are converted often, deployed or not
	if rapid.IntRange(0, 9).Draw(t, "pairTok?") < 4 {
		return rapid.SampledFrom(c10PairToks).Draw(t, "pairTok")
	}
	if len(dep) > 0 && rapid.IntRange(0, 19).Draw(t, "undeployed") != 0 {
		return rapid.SampledFrom(dep).Draw(t, "tokDeployed")
	}
	return rapid.IntRange(0, len(m.toks)-1).Draw(t, "tokAny")
}

func (m *m10) ercBal(tk *tok10, holder int) *big.Int {
	if b, ok := tk.erc[holder]; ok {
		return b
	}
	return new(big.Int)
}

func (m *m10) pickHolder(t *rapid.T, tk *tok10, maxIdx int) int {
	var hs []int
	for h, b := range tk.erc {
		if b.Sign() > 0 && h <= maxIdx {
			hs = append(hs, h)
		}
	}
	sort.Ints(hs)
	if len(hs) > 0 && rapid.IntRange(0, 9).Draw(t, "holder?") != 0 {
		return rapid.SampledFrom(hs).Draw(t, "holder")
	}
	return rapid.IntRange(0, maxIdx).Draw(t, "holderAny")
}

// ---------------------------------------------------------------------------------------------
// execution

func banktypesSend(from, to sdk.AccAddress, denom string, amt sdkmath.Int) sdk.Msg {
	return &banktypes.MsgSend{FromAddress: from.String(), ToAddress: to.String(), Amount: sdk.Coins{sdk.Coin{Denom: denom, Amount: amt}}}
}

func faultOf(s string) evm.Fault {
	switch s {
	case "error":
		return evm.FaultError
	case "revert":
		return evm.FaultRevert
	case "plus":
		return evm.FaultMiscreditPlus
	case "minus":
		return evm.FaultMiscreditMinus
	case "noop":
		return evm.FaultSilentNoop
	}
	return evm.NoFault
}

// run executes f like one transaction: on a branch of the bank/token state and with an EVM snapshot that
// is restored when f fails (what an EVM state DB bound to the SDK context does). Adapter for the calls
// that are not routed messages: the swapToNative hook and the keeper copy built WithSwapRegistry.
func (m *m10) run(f func(ctx sdk.Context) error) (res chain.Result) {
	c := m.c
	c.E.EVM.Use(c.EVMState)
	snap := c.EVMState.Clone()
	ctx, write := c.Ctx.CacheContext()
	ctx = ctx.WithEventManager(sdk.NewEventManager()).WithGasMeter(storetypes.NewInfiniteGasMeter())
	func() {
		defer func() {
			if p := recover(); p != nil {
				res.Panic = p
				if isOverflowPanic(p) {
					res.Outcome = chain.Overflow
				} else {
					res.Outcome = chain.Panicked
				}
			}
		}()
		if err := f(ctx); err != nil {
			res.Outcome, res.Err = chain.Rejected, err
		}
	}()
	if res.Outcome == chain.OK {
		write()
	} else {
		c.EVMState = snap
		c.E.EVM.Use(snap)
	}
	return res
}

func (m *m10) recvAddr(i, self int) (sdk.AccAddress, string) {
	e := m.c.E
	switch {
	case i == -1:
		return e.Users[self].Addr, ""
	case i >= 0 && i < len(e.Users):
		return e.Users[i].Addr, e.Users[i].Addr.String()
	case i == 6:
		return c09Collector, c09Collector.String()
	case i == 7:
		return c09Fresh, c09Fresh.String()
	default:
		return nil, "not-a-bech32-address"
	}
}

func (m *m10) Apply(op op10) error {
	c := m.c
	e := c.E
	if op.Tok < 0 || op.Tok >= len(m.toks) {
		return pbt.Failf("harness/bad-op", "token index %d", op.Tok)
	}
	tk := m.toks[op.Tok]
	before := c.Snapshot()
	evmBefore := c.EVMState.Digest()
	exp := chain.NewExpect()
	var res chain.Result
	var commit func()
	reject := ""       // non-empty: the operation must not succeed (reason)
	conversion := true // counts for the non-trivial rule
	amount := new(big.Int)
	if op.Amount != "" {
		amount = gen.BigOf(op.Amount)
	}
	coin := sdk.Coin{Denom: tk.minUnit, Amount: gen.ToInt(amount)}
	otherCase := false
	if up := strings.ToUpper(tk.minUnit); op.UpperDenom && up != tk.minUnit && (op.Kind == "toerc20" || op.Kind == "fromerc20") {
		coin.Denom, otherCase = up, true
	}
	if f := faultOf(op.Fault); f != evm.NoFault {
		c.EVMState.Faults = []evm.Fault{f}
	}
	defer func() { c.EVMState.Faults = nil }()
	natBal := new(big.Int) // native balance of the acting user before the operation
	if op.Who >= 0 && op.Who < len(e.Users) {
		natBal = c.Balance(e.Users[op.Who].Addr, tk.minUnit).BigInt()
	}

	switch op.Kind {
	case "deploy":
		conversion = false
		auth := e.Gov.String()
		if op.Who >= 0 {
			auth = e.Users[op.Who].Addr.String()
		}
		sym, scale := tk.symbol, tk.scale
		if sym == "" {
			sym = tk.defSym
		}
		if op.Sym != "" {
			sym = op.Sym
		}
		if op.DScale > 0 {
			scale = uint32(op.DScale - 1)
		}
		name := sym
		if len(name) > 32 {
			name = name[:32]
		}
		res = c.Deliver(&v1.MsgDeployERC20{Symbol: sym, Name: name, Scale: scale, MinUnit: tk.minUnit, Authority: auth})
		holder := m.bySymbol(sym)
		switch {
		case op.Who >= 0:
			reject = "deployment by a non-authority"
		case tk.contract != nil:
			reject = "token already has a contract"
			if !tk.registered || tk.owner < 0 && tk != m.toks[4] {
				m.cls["deploy-voucher-second-contract-refused"] = true
			}
		case !tk.registered && holder != nil:
			reject = "the symbol already identifies token " + holder.symbol + "/" + holder.minUnit
			m.cls["deploy-voucher-symbol-taken"] = true
			switch {
			case holder.owner < 0 && holder != m.toks[4]:
				m.cls["deploy-voucher-symbol-taken-by-voucher"] = true
			case holder.contract != nil:
				m.cls["deploy-voucher-symbol-taken-by-token-with-contract"] = true
			default:
				m.cls["deploy-voucher-symbol-taken-by-token-without-contract"] = true
			}
		case !m.enabled:
			reject = "ERC20 disabled"
		case op.Fault != "":
			reject = "EVM failure injected"
		}
		commit = func() {
			if !tk.registered { // the module-owned token record of a traced denom is created with the message's symbol and scale
				tk.symbol, tk.scale = sym, scale
				switch {
				case sym == tk.minUnit:
					m.cls["deploy-voucher-symbol-is-denom"] = true
				case sym == tk.defSym:
					m.cls["deploy-voucher-fresh-symbol"] = true
				default:
					m.cls["deploy-voucher-symbol-is-other-min-unit-or-free-name"] = true
				}
				n := 0
				for _, i := range c10Vouchers {
					if m.toks[i].registered || m.toks[i] == tk {
						n++
					}
				}
				if n >= 2 {
					m.cls["several-vouchers-deployed"] = true
				}
			} else if sym != tk.symbol || scale != tk.scale {
				m.cls["deploy-existing-token-under-other-erc20-name"] = true
			}
			got, err := e.K.Token.GetToken(c.Ctx, tk.symbol) // by symbol: the lookup is symbol-first and symbols are unique
			if err != nil || got.GetContract() == "" || got.GetMinUnit() != tk.minUnit {
				return // the per-step token-record clause reports it
			}
			a := common.HexToAddress(got.GetContract())
			for _, o := range m.toks {
				if o.contract != nil && *o.contract == a {
					panic("two tokens bound to contract " + a.Hex())
				}
			}
			tk.contract, tk.registered = &a, true
			m.retwin()
			m.cls["deployed"] = true
			if m.nReimp > 0 {
				m.cls["deploy-after-reimport"] = true
			}
			if tk.twin >= 0 && m.toks[tk.twin].contract != nil || tk.twinOf >= 0 && m.toks[tk.twinOf].contract != nil {
				m.cls["cross-namespace-pair-both-deployed"] = true
			}
		}

	case "toerc20":
		recv := c10Holder(e, op.To)
		e.EVM.Unsupported = op.NoKey
		res = c.Deliver(&v1.MsgSwapToERC20{Amount: coin, Sender: e.Users[op.Who].Addr.String(), Receiver: recv.Hex()})
		e.EVM.Unsupported = false
		hasAccount := op.To < len(e.Users) || op.To == holderModule
		switch {
		case otherCase:
			reject = "the coin is of another denom (letter case), which names no token"
			m.cls["conversion-of-a-denom-in-other-letter-case-refused"] = true
		case tk.contract == nil:
			reject = "no contract"
		case !m.enabled:
			reject = "ERC20 disabled"
			m.cls["fail-disabled"] = true
		case natBal.Cmp(amount) < 0:
			reject = "insufficient native balance"
			m.cls["fail-insufficient"] = true
		case op.NoKey && hasAccount:
			reject = "receiver key not supported by the EVM"
			m.cls["fail-unsupported-key"] = true
		case op.Fault != "":
			reject = "EVM fault " + op.Fault
			m.noteFault(op.Fault)
		}
		exp.Add(e.Users[op.Who].Addr, tk.minUnit, new(big.Int).Neg(amount))
		exp.Supply(tk.minUnit, new(big.Int).Neg(amount))
		commit = func() {
			tk.erc[op.To] = new(big.Int).Add(m.ercBal(tk, op.To), amount)
			m.cls["toerc20-ok"] = true
			m.notePair(tk, true)
			if tk.restored {
				m.cls["toerc20-after-reimport"] = true
			}
		}

	case "fromerc20":
		to, toStr := m.recvAddr(op.To, op.Who)
		res = c.Deliver(&v1.MsgSwapFromERC20{WantedAmount: coin, Sender: e.Users[op.Who].Addr.String(), Receiver: toStr})
		switch {
		case otherCase:
			reject = "the wanted coin is of another denom (letter case), which names no token"
			m.cls["conversion-of-a-denom-in-other-letter-case-refused"] = true
		case tk.contract == nil:
			reject = "no contract"
		case !m.enabled:
			reject = "ERC20 disabled"
			m.cls["fail-disabled"] = true
		case m.ercBal(tk, op.Who).Cmp(amount) < 0:
			reject = "insufficient ERC20 balance"
			m.cls["fail-insufficient"] = true
		case op.Fault != "":
			reject = "EVM fault " + op.Fault
			m.noteFault(op.Fault)
		case op.To == 6:
			reject = "receiver is a blocked address"
			m.cls["fail-blocked-receiver"] = true
		}
		exp.Add(to, tk.minUnit, amount)
		exp.Supply(tk.minUnit, amount)
		commit = func() {
			tk.erc[op.Who] = new(big.Int).Sub(m.ercBal(tk, op.Who), amount)
			m.cls["fromerc20-ok"] = true
			m.notePair(tk, true)
			if tk.restored {
				m.cls["fromerc20-after-reimport"] = true
			}
			if op.To == 7 {
				m.cls["receiver-new-account"] = true
			}
		}

	case "tonative":
		to, toStr := m.recvAddr(op.To, 0)
		holder := c10Holder(e, op.Who)
		switch {
		case tk.contract == nil:
			reject = "no contract"
		case m.ercBal(tk, op.Who).Cmp(amount) < 0:
			reject = "insufficient ERC20 balance (EVM transaction reverts)"
			m.cls["fail-insufficient"] = true
		case !m.enabled:
			reject = "ERC20 disabled"
			m.cls["fail-disabled"] = true
		case amount.Sign() == 0:
			reject = "zero amount"
		case op.To == recvInvalid:
			reject = "receiver is not an address"
			m.cls["fail-bad-receiver"] = true
		case op.To == 6:
			reject = "receiver is a blocked address"
			m.cls["fail-blocked-receiver"] = true
		}
		res = m.run(func(ctx sdk.Context) error {
			if tk.contract == nil {
				return fmt.Errorf("no contract")
			}
			// one EVM transaction that calls swapToNative `parts` times: the receipt carries one log per call
			parts := op.Parts
			if parts < 1 || amount.Cmp(big.NewInt(int64(parts))) < 0 {
				parts = 1
			}
			receipt := &ethtypes.Receipt{}
			rest := new(big.Int).Set(amount)
			for i := 0; i < parts; i++ {
				part := new(big.Int).Quo(amount, big.NewInt(int64(parts)))
				if i == parts-1 {
					part = rest
				}
				rest = new(big.Int).Sub(rest, part)
				r, ok := c.EVMState.SwapToNativeReceipt(*tk.contract, holder, toStr, part)
				if !ok {
					return fmt.Errorf("evm: execution reverted")
				}
				receipt.Logs = append(receipt.Logs, r.Logs...)
				if i == 0 && op.Foreign > 0 {
					receipt.Logs = append(receipt.Logs, foreignLogs(holder, toStr, op.Foreign)...)
				}
			}
			if op.Foreign < 0 {
				receipt.Logs = append(foreignLogs(holder, toStr, -op.Foreign), receipt.Logs...)
			}
			if op.Foreign != 0 {
				m.cls["tonative-with-foreign-contract-logs"] = true
			}
			if parts > 1 {
				m.cls["tonative-multi-log"] = true
			}
			txTo := tk.contract
			switch op.Via {
			case 1:
				router := common.HexToAddress("0x0000000000000000000000000000000000407e12")
				txTo = &router
				m.cls["tonative-through-a-router-contract"] = true
			case 2:
				for _, o := range m.toks {
					if o != tk && o.contract != nil {
						txTo = o.contract
						m.cls["tonative-in-a-transaction-sent-to-another-token-contract"] = true
						break
					}
				}
			case 3:
				txTo = nil
				m.cls["tonative-in-a-contract-creation"] = true
			}
			msg := ethtypes.NewMessage(holder, txTo, 0, big.NewInt(0), 3000000, big.NewInt(0), big.NewInt(0), big.NewInt(0), nil, ethtypes.AccessList{}, false)
			return e.K.Token.Hooks().PostTxProcessing(ctx, msg, receipt)
		})
		if to != nil {
			exp.Add(to, tk.minUnit, amount)
		}
		exp.Supply(tk.minUnit, amount)
		commit = func() {
			tk.erc[op.Who] = new(big.Int).Sub(m.ercBal(tk, op.Who), amount)
			m.cls["tonative-ok"] = true
			if tk.restored {
				m.cls["tonative-after-reimport"] = true
			}
			if len(m.deployed()) > 1 {
				m.cls["tonative-with-several-contracts"] = true
			}
			if op.To == 7 {
				m.cls["receiver-new-account"] = true
			}
		}

	case "park":
		conversion = false
		res = c.Deliver(banktypesSend(e.Users[op.Who].Addr, c09Module, tk.minUnit, gen.ToInt(amount)))
		if natBal.Cmp(amount) < 0 {
			reject = "insufficient balance"
		}
		exp.Add(e.Users[op.Who].Addr, tk.minUnit, new(big.Int).Neg(amount))
		exp.Add(c09Module, tk.minUnit, amount)
		commit = func() {
			if tk.parked == nil {
				tk.parked = new(big.Int)
			}
			tk.parked.Add(tk.parked, amount)
			m.cls["coins-parked-on-the-module-account"] = true
		}

	case "mint", "burn":
		conversion = false
		owner := e.Users[op.Who].Addr
		if op.Kind == "mint" {
			res = c.Deliver(&v1.MsgMintToken{Coin: coin, Owner: owner.String()})
			exp.Add(owner, tk.minUnit, amount)
			exp.Supply(tk.minUnit, amount)
			commit = func() { tk.sum = new(big.Int).Add(tk.sum, amount) }
		} else {
			res = c.Deliver(&v1.MsgBurnToken{Coin: coin, Sender: owner.String()})
			if natBal.Cmp(amount) < 0 {
				reject = "insufficient balance"
			}
			exp.Add(owner, tk.minUnit, new(big.Int).Neg(amount))
			exp.Supply(tk.minUnit, new(big.Int).Neg(amount))
			commit = func() { tk.sum = new(big.Int).Sub(tk.sum, amount) }
		}

	case "feeswap":
		return m.feeSwap(op, tk, before, evmBefore)

	case "reimport":
		// restart of the token module from its own exported genesis: params (beacon, enable switch), every token
		// record with its bound contract and the burned totals are carried; the EVM state, the bank and the swap
		// registries (process configuration) are not part of it. The model stays as it is.
		nContracts := len(m.deployed())
		if _, stage, err := c.Reimport(tokentypes.ModuleName); err != nil {
			return pbt.Failf("C10/reimport-"+stage, "token genesis round trip with %d bound contracts (IBC voucher registered: %v): %v",
				nContracts, m.toks[9].registered || m.toks[10].registered, err)
		}
		if got := chain.Diff(before, c.Snapshot()); !got.Empty() {
			return pbt.Failf("C10/reimport-moved-coins", "genesis round trip changed balances: %s", got)
		}
		if d := c.EVMState.Digest(); d != evmBefore {
			return pbt.Failf("C10/reimport-touched-evm", "genesis round trip changed the EVM state")
		}
		m.nReimp++
		m.cls["reimport"] = true
		if nContracts > 0 {
			m.cls["reimport-with-contracts"] = true
		}
		if nContracts < len(m.toks) {
			m.cls["reimport-with-unbound-tokens"] = true
		}
		if !m.enabled {
			m.cls["reimport-while-disabled"] = true
		}
		for _, t := range m.toks {
			t.restored = t.contract != nil
			if t.contract != nil && t.twin >= 0 && m.toks[t.twin].contract != nil {
				m.cls["reimport-with-cross-namespace-pair-bound"] = true
			}
			for _, b := range t.erc {
				if b.Sign() > 0 {
					m.cls["reimport-with-erc20-balances"] = true
				}
			}
		}
		return m.invariants()

	case "enable":
		conversion = false
		p := e.K.Token.GetParams(c.Ctx)
		p.EnableErc20 = op.Enable
		res = c.Deliver(&v1.MsgUpdateParams{Authority: e.Gov.String(), Params: p})
		commit = func() {
			m.enabled = op.Enable
			if !op.Enable {
				m.cls["erc20-disabled"] = true
			}
		}

	default:
		return pbt.Failf("harness/bad-op", "unknown op kind %q", op.Kind)
	}

	got := chain.Diff(before, c.Snapshot())
	switch res.Outcome {
	case chain.Panicked:
		return pbt.Failf("C10/panic", "%s panicked: %v", op.Kind, res.Panic)
	case chain.OK:
		if op.Kind == "tonative" && amount.Sign() > 0 && got.Empty() && tk.contract != nil {
			return pbt.Failf("C10/tonative-event-ignored", "the contract of %s burned %s from holder %d and the hook returned success, but no native coin was minted "+
				"(restored by genesis import: %v): %+v", tk.symbol, amount, op.Who, tk.restored, op)
		}
		if reject != "" {
			return pbt.Failf("C10/"+op.Kind+"-accepted", "%s succeeded although %s: %+v; balances moved {%s}", op.Kind, reject, op, got)
		}
		if want := exp.Delta(); !chain.SameDelta(got, want) {
			return pbt.Failf("C10/"+op.Kind+"-native-side", "%s moved coins {%s}, expected {%s}: %+v", op.Kind, got, want, op)
		}
		if commit != nil {
			commit()
		}
		if conversion {
			m.okConv++
		}
	default:
		if !got.Empty() {
			return pbt.Failf("C10/failed-op-changed-bank", "failed %s (%v) changed balances: %s", op.Kind, res, got)
		}
		if d := c.EVMState.Digest(); d != evmBefore {
			return pbt.Failf("C10/failed-op-changed-evm", "failed %s (%v) changed the EVM state:\n before %s\n after  %s", op.Kind, res, evmBefore, d)
		}
		if reject == "" && op.Kind != "mint" {
			return pbt.Failf("C10/valid-op-rejected", "%s rejected (%v) although every precondition the model knows holds: %+v", op.Kind, res, op)
		}
		if conversion && m.okConv > 0 {
			m.nt = true
			m.cls["failed-conversion-after-success"] = true
		}
		if op.Kind == "toerc20" || op.Kind == "fromerc20" {
			m.notePair(tk, false)
		}
	}
	return m.invariants()
}

// notePair records conversions of a coin whose denom is also another token's symbol.
func (m *m10) notePair(tk *tok10, ok bool) {
	if tk.twin < 0 {
		return
	}
	other := m.toks[tk.twin].contract != nil
	switch {
	case ok && other:
		m.cls["cross-namespace-pair-converted"] = true // both records have a contract: a symbol-first lookup would hit the twin's
	case ok:
		m.cls["cross-namespace-converted-twin-undeployed"] = true // a symbol-first lookup would find no contract
	case tk.contract == nil && other:
		m.cls["cross-namespace-undeployed-side-attempt"] = true // a symbol-first lookup would convert into the twin's contract
	}
}

func (m *m10) noteFault(f string) {
	switch f {
	case "plus", "minus", "noop":
		m.cls["fail-miscredit-detected"] = true
	default:
		m.cls["fail-evm-error"] = true
	}
}

// feeSwap delivers MsgSwapFeeToken to a msg server over a keeper copy built WithSwapRegistry.
func (m *m10) feeSwap(op op10, tk *tok10, before chain.Sheet, evmBefore string) error {
	c := m.c
	e := c.E
	if op.Tok2 < 0 || op.Tok2 >= len(m.toks) || op.Tok2 == op.Tok {
		return pbt.Failf("harness/bad-op", "token index %d", op.Tok2)
	}
	out := m.toks[op.Tok2]
	ratio := gen.BigOf(op.Ratio)
	offered := gen.BigOf(op.Amount)
	sender := e.Users[op.Who].Addr
	recv, recvStr := m.recvAddr(op.To, op.Who)
	msg := &v1.MsgSwapFeeToken{FeePaid: sdk.Coin{Denom: tk.minUnit, Amount: gen.ToInt(offered)}, Receiver: recvStr, Sender: sender.String()}
	// The swap registry is application configuration that lives as long as the process: a (pair, ratio) entry is
	// built once per case and reused by every later swap of that pair, so state left behind in the registry by
	// an earlier call (successful or rejected) is seen by the next one.
	key := fmt.Sprintf("%d>%d@%s", op.Tok, op.Tok2, op.Ratio)
	srv, reused := m.feeSrv[key]
	if !reused {
		k := e.K.Token.WithSwapRegistry(v1.SwapRegistry{tk.minUnit: v1.SwapParams{MinUnit: out.minUnit, Ratio: sdkmath.LegacyNewDecFromBigIntWithPrec(ratio, 18)}})
		srv = tokenkeeper.NewMsgServerImpl(k)
		if m.feeSrv == nil {
			m.feeSrv = map[string]v1.MsgServer{}
		}
		m.feeSrv[key] = srv
	} else {
		m.cls["feeswap-registry-entry-reused"] = true
	}
	var resp *v1.MsgSwapFeeTokenResponse
	res := m.run(func(ctx sdk.Context) error {
		if err := msg.ValidateBasic(); err != nil {
			return err
		}
		var err error
		resp, err = srv.SwapFeeToken(ctx, msg)
		return err
	})
	got := chain.Diff(before, c.Snapshot())
	if d := c.EVMState.Digest(); d != evmBefore {
		return pbt.Failf("C10/feeswap-touched-evm", "fee swap changed the EVM state")
	}
	switch res.Outcome {
	case chain.Panicked:
		if !got.Empty() {
			return pbt.Failf("C10/failed-op-changed-bank", "panicking fee swap changed balances: %s", got)
		}
		return pbt.Failf("C10/feeswap-panic", "fee swap of %s %s at ratio %s/10^18 (scales %d->%d) panicked: %v", offered, tk.minUnit, ratio, tk.scale, out.scale, res.Panic)
	case chain.OK:
		switch {
		case !tk.registered || !out.registered:
			return pbt.Failf("C10/feeswap-accepted", "fee swap between unregistered tokens succeeded: %+v", op)
		case op.To == 6:
			return pbt.Failf("C10/feeswap-accepted", "fee swap to a blocked address succeeded: %+v", op)
		}
		burned := new(big.Int)
		if d, ok := got.Sup[tk.minUnit]; ok {
			burned = new(big.Int).Neg(d)
		}
		minted := new(big.Int)
		if d, ok := got.Sup[out.minUnit]; ok {
			minted = new(big.Int).Set(d)
		}
		want := chain.NewExpect().Add(sender, tk.minUnit, new(big.Int).Neg(burned)).Supply(tk.minUnit, new(big.Int).Neg(burned)).
			Add(recv, out.minUnit, minted).Supply(out.minUnit, minted).Delta()
		if !chain.SameDelta(got, want) {
			return pbt.Failf("C10/feeswap-native-side", "fee swap moved coins {%s}; burning %s and minting %s would be {%s}: %+v", got, burned, minted, want, op)
		}
		if resp == nil || resp.FeeGot.Denom != out.minUnit || resp.FeeGot.Amount.BigInt().Cmp(minted) != 0 {
			return pbt.Failf("C10/feeswap-response", "response says %v, minted %s %s", resp, minted, out.minUnit)
		}
		if sig, why := swapValueChecks(offered, burned, minted, ratio, tk.scale, out.scale); sig != "" {
			if out.twin >= 0 {
				// the minted denom is also another token's symbol: were the amounts computed with that token's scale?
				if s2, _ := swapValueChecks(offered, burned, minted, ratio, tk.scale, m.toks[out.twin].scale); s2 == "" {
					return pbt.Failf("C10/feeswap-target-resolved-by-symbol", "fee swap of %s %s -> %s (scale %d) at ratio %s/10^18 burned %s and minted %s: %s; the amounts fit "+
						"the scale %d of token %q whose SYMBOL equals the target min unit", offered, tk.minUnit, out.minUnit, out.scale, ratio, burned, minted, why,
						m.toks[out.twin].scale, m.toks[out.twin].symbol)
				}
			}
			return pbt.Failf(sig, "fee swap of %s %s -> %s at ratio %s/10^18: %s", offered, tk.minUnit, out.minUnit, ratio, why)
		}
		tk.sum = new(big.Int).Sub(tk.sum, burned)
		out.sum = new(big.Int).Add(out.sum, minted)
		m.okConv++
		m.cls["feeswap-ok"] = true
		if out.twin >= 0 {
			m.cls["feeswap-into-cross-namespace-min-unit"] = true
		}
		if ratio.Cmp(one18) != 0 {
			m.cls["feeswap-ok-ratio!=1"] = true
		}
		if burned.Cmp(offered) < 0 {
			m.cls["feeswap-dust-kept"] = true
		}
		if minted.Sign() == 0 {
			m.cls["feeswap-nothing-minted"] = true
		}
	default:
		if !got.Empty() {
			return pbt.Failf("C10/failed-op-changed-bank", "failed fee swap (%v) changed balances: %s", res, got)
		}
		if m.okConv > 0 {
			m.nt = true
			m.cls["failed-conversion-after-success"] = true
		}
		if res.Outcome == chain.Overflow {
			m.cls["feeswap-overflow"] = true
		}
	}
	return m.invariants()
}

func (m *m10) invariants() error {
	c := m.c
	nRegistered := 0
	for _, tk := range m.toks {
		// the token record names exactly the contract the model bound to it (also after a restart)
		if !tk.registered {
			if c.E.K.Token.HasMinUint(c.Ctx, tk.minUnit) {
				return pbt.Failf("C10/token-record", "denom %s has a token record although it was never deployed or issued", tk.minUnit)
			}
			continue
		}
		nRegistered++
		rec, err := c.E.K.Token.GetToken(c.Ctx, tk.symbol) // by symbol: unambiguous
		// by min unit where that is unambiguous too (the lookup is symbol-first)
		if err == nil && m.bySymbol(tk.minUnit) == nil {
			if r2, err2 := c.E.K.Token.GetToken(c.Ctx, tk.minUnit); err2 != nil || r2.GetSymbol() != tk.symbol {
				return pbt.Failf("C10/token-record", "min unit %s no longer leads to token %s (%v)", tk.minUnit, tk.symbol, err2)
			}
		}
		wantOwner := c09Module.String()
		if tk.owner >= 0 {
			wantOwner = c.E.Users[tk.owner].Addr.String()
		}
		switch {
		case err != nil:
			return pbt.Failf("C10/token-record", "token %s lost its record: %v", tk.symbol, err)
		case rec.GetSymbol() != tk.symbol || rec.GetMinUnit() != tk.minUnit || rec.GetScale() != tk.scale || rec.GetOwner().String() != wantOwner:
			return pbt.Failf("C10/token-record", "token %s/%s (scale %d, owner %s) reads symbol %s min unit %s scale %d owner %s", tk.symbol, tk.minUnit, tk.scale, wantOwner,
				rec.GetSymbol(), rec.GetMinUnit(), rec.GetScale(), rec.GetOwner())
		case tk.contract == nil && rec.GetContract() != "":
			return pbt.Failf("C10/token-record", "token %s is bound to %s, model: no contract", tk.symbol, rec.GetContract())
		case tk.contract != nil && common.HexToAddress(rec.GetContract()) != *tk.contract:
			return pbt.Failf("C10/token-record", "token %s is bound to %q, model %s", tk.symbol, rec.GetContract(), tk.contract.Hex())
		}
		sup := c.Supply(tk.minUnit).BigInt()
		total := new(big.Int)
		if tk.contract != nil {
			total = c.EVMState.TotalSupply(*tk.contract)
			sumBal := new(big.Int)
			for h := 0; h < c10NumHolders; h++ {
				want := m.ercBal(tk, h)
				if g := c.EVMState.BalanceOf(*tk.contract, c10Holder(c.E, h)); g.Cmp(want) != 0 {
					return pbt.Failf("C10/erc20-side", "ERC20 balance of holder %d in %s is %s, model %s", h, tk.symbol, g, want)
				}
				sumBal.Add(sumBal, want)
			}
			if sumBal.Cmp(total) != 0 {
				return pbt.Failf("C10/erc20-side", "ERC20 total supply of %s is %s, balances add up to %s", tk.symbol, total, sumBal)
			}
		}
		if s := new(big.Int).Add(sup, total); s.Cmp(tk.sum) != 0 {
			return pbt.Failf("C10/sum-changed", "%s: native supply %s + ERC20 supply %s = %s, model %s", tk.symbol, sup, total, s, tk.sum)
		}
	}
	if n := len(c.E.K.Token.GetTokens(c.Ctx, nil)); n != nRegistered {
		return pbt.Failf("C10/token-record", "the store holds %d token records, the model %d", n, nRegistered)
	}
	// the token module account holds what users parked there and nothing else: conversions pass through it without a rest
	want := sdk.Coins{}
	for _, tk := range m.toks {
		if tk.parked != nil && tk.parked.Sign() > 0 {
			want = want.Add(sdk.Coin{Denom: tk.minUnit, Amount: gen.ToInt(tk.parked)})
		}
	}
	if bal := c.E.App.BankKeeper.GetAllBalances(c.Ctx, c09Module); !bal.Equal(want) {
		return pbt.Failf("C10/module-account-nonzero", "token module account holds %s, users parked %s there", bal, want)
	}
	return nil
}

func (m *m10) Finish() error { return nil }

func (m *m10) Classify() (bool, []string) {
	var cl []string
	for k := range m.cls {
		cl = append(cl, k)
	}
	sort.Strings(cl)
	return m.nt, cl
}

const c10Rule = "rapid state machine on the K-driver with the transactional harness EVM: deployERC20 / swapToERC20 / swapFromERC20 / contract swapToNative + " +
	"PostTxProcessing hook / swapFeeToken (keeper copy WithSwapRegistry, any positive ratio, 11 tokens of scales 0..18 incl. three traced denoms (a plain bank denom and two IBC vouchers ibc/HASH) whose token record is created by MsgDeployERC20 under a symbol/scale drawn from: a fresh name, the denom itself, a taken symbol (token with/without contract, another voucher), another token's min unit; the native token and two pairs whose one symbol equals the other's min unit - one pair with both sides deployable, one with a single deployable side; 40 % of the conversions pick a pair token) / " +
	"owner mint+burn / enable-disable / restart of the token module from its exported genesis (the history continues on the restored state); receivers incl. blocked, new and malformed addresses; injected EVM error, revert, +-1 mis-credit and silent no-op; amounts relative to live " +
	"balances and by shape up to 2^128; non-trivial = history with a failed conversion after at least one successful conversion; distinct by SHA-256 of the op list"

func init() { pbt.RegisterMachine("c10", newC10) }

// foreignLogs are n consecutive SwapToNative-shaped events of one contract that is bound to no token, naming the same
// receiver and large amounts.
func foreignLogs(from common.Address, to string, n int) []*ethtypes.Log {
	var out []*ethtypes.Log
	for i := 0; i < n; i++ {
		out = append(out, evm.ForeignSwapToNativeLog(common.HexToAddress("0x00000000000000000000000000000000000f0e16"), from, to, big.NewInt(1_000_000+int64(i))))
	}
	return out
}

func TestC10(t *testing.T) { pbt.RunMachine(t, "C10", "c10", c10Rule, newC10) }
