package c09

import (
	"testing"

	"pgregory.net/rapid"
)

// FuzzC10LossLess drives the pure LossLessSwap check with the native coverage-guided fuzzer (thorough tier only).
func FuzzC10LossLess(f *testing.F) {
	f.Fuzz(rapid.MakeFuzz(func(t *rapid.T) {
		in := genC10Pure(t)
		if err, _, _ := checkC10Pure(in); err != nil {
			t.Fatalf("%v (%+v)", err, in)
		}
	}))
}
