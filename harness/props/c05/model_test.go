package c05

import (
	"math"
	"math/big"
	"sort"
)

// Reference model of the farm module (math/big only). It is fed the same operations as the code and
// predicts budgets, releases, end heights, refunds and every farmer's exact stake-time share.

type mrule struct {
	denom     string
	total     *big.Int // budget funded so far
	remaining *big.Int // budget not yet released (0 after the refund)
	rate      *big.Int // reward per block
	released  *big.Int // released to the collector so far
	refund    *big.Int // what was handed back to the creator (nil before the refund)
}

type mfarmer struct {
	stake  *big.Int
	exists bool                // a farmer record exists in the code (stake>0, or a zero stake was made)
	inter  int                 // successful stake/unstake/harvest interactions with this pool
	paid   map[string]*big.Int // cumulative rewards received, per denom
	exact  map[string]*big.Rat // exact stake-time share of the released rewards, per denom
	units  *big.Int            // sum over accrual events of the stake held (each event truncates < 10^-18 * stake)
	ever   bool
}

type mpool struct {
	id       string
	creator  int
	lpt      string
	start    int64
	end      int64
	last     int64 // height of the last accrual
	editable bool
	total    *big.Int // staked total
	rules    []*mrule // sorted by denom
	farmers  map[int]*mfarmer
	refunded bool // remaining budget handed back (end block or destroy)
	// class bookkeeping
	nonTerm bool // some accrual had a per-share quotient with non-terminating 18-decimal expansion
}

func bi(x int64) *big.Int { return big.NewInt(x) }

func cp(x *big.Int) *big.Int { return new(big.Int).Set(x) }

func (p *mpool) rule(denom string) *mrule {
	for _, r := range p.rules {
		if r.denom == denom {
			return r
		}
	}
	return nil
}

func (p *mpool) farmer(i int) *mfarmer {
	f, ok := p.farmers[i]
	if !ok {
		f = &mfarmer{stake: new(big.Int), paid: map[string]*big.Int{}, exact: map[string]*big.Rat{}, units: new(big.Int)}
		p.farmers[i] = f
	}
	return f
}

func (p *mpool) farmerIdx() []int {
	var ks []int
	for k := range p.farmers {
		ks = append(ks, k)
	}
	sort.Ints(ks)
	return ks
}

// expired mirrors the rule "a pool is over after its end height, or at its end height once the budget has
// been handed back (destroy in the same block)".
func (p *mpool) expired(h int64) bool {
	return h > p.end || (h == p.end && p.refunded)
}

func (p *mpool) started(h int64) bool { return p.start <= h }

var ten18 = new(big.Int).Exp(big.NewInt(10), big.NewInt(18), nil)

// accrue releases rate*(h-last) per denom if somebody is staked, credits every farmer's exact share and
// returns the released amounts (denom -> amount). short reports a budget that cannot cover the release.
func (p *mpool) accrue(h int64) (rel map[string]*big.Int, short bool) {
	rel = map[string]*big.Int{}
	if h > p.last && p.total.Sign() > 0 {
		dt := bi(h - p.last)
		for _, r := range p.rules {
			amt := new(big.Int).Mul(r.rate, dt)
			if r.remaining.Cmp(amt) < 0 {
				return map[string]*big.Int{}, true
			}
		}
		staked := 0
		for _, r := range p.rules {
			amt := new(big.Int).Mul(r.rate, dt)
			r.remaining.Sub(r.remaining, amt)
			r.released.Add(r.released, amt)
			rel[r.denom] = amt
			if new(big.Int).Mod(new(big.Int).Mul(amt, ten18), p.total).Sign() != 0 {
				p.nonTerm = true
			}
			for _, k := range p.farmerIdx() {
				f := p.farmers[k]
				if f.stake.Sign() <= 0 {
					continue
				}
				share := new(big.Rat).SetFrac(new(big.Int).Mul(f.stake, amt), p.total)
				if e, ok := f.exact[r.denom]; ok {
					e.Add(e, share)
				} else {
					f.exact[r.denom] = share
				}
			}
		}
		for _, k := range p.farmerIdx() {
			f := p.farmers[k]
			if f.stake.Sign() > 0 {
				f.units.Add(f.units, f.stake)
				staked++
			}
		}
		_ = staked
	}
	if h > p.last {
		p.last = h
	}
	return rel, false
}

// endFor = base + min_i floor(avail_i / rate_i); ok=false when that does not fit an int64 height.
func endFor(base int64, avail, rate []*big.Int) (int64, bool) {
	var min *big.Int
	for i := range avail {
		q := new(big.Int).Quo(avail[i], rate[i])
		if min == nil || q.Cmp(min) < 0 {
			min = q
		}
	}
	if min == nil || !min.IsInt64() {
		return 0, false
	}
	e := min.Int64()
	if e > math.MaxInt64-base {
		return 0, false
	}
	return base + e, true
}

// refundAll hands back every remaining budget; returns denom -> amount (only positive amounts).
func (p *mpool) refundAll() map[string]*big.Int {
	out := map[string]*big.Int{}
	for _, r := range p.rules {
		r.refund = cp(r.remaining)
		if r.remaining.Sign() > 0 {
			out[r.denom] = cp(r.remaining)
		}
		r.remaining = new(big.Int)
	}
	p.refunded = true
	return out
}

func (p *mpool) remainingAllZero() bool {
	for _, r := range p.rules {
		if r.remaining.Sign() != 0 {
			return false
		}
	}
	return true
}
