package c05

import (
	"math/big"
	"testing"

	"pgregory.net/rapid"

	"verifharness/gen"
	"verifharness/pbt"
)

// C05 Farm: staked principal is exactly accounted for and always withdrawable.
// C06 Farm: rewards are conserved and paid pro rata to stake and time.
// One machine serves both; m.prop selects the oracle clauses (see machine_test.go).

// ---------------------------------------------------------------------------------------------
// generator

func (m *machine) Next(t *rapid.T) fop {
	// one history in seven is a "many pools" history: early on a burst creates enough cheap pools for the pool
	// sequence to pass 10, so that farm-1 is a string prefix of farm-10.. while farm-1 is still operated on
	if !m.planDrawn {
		m.planDrawn = true
		m.burstPlan = rapid.IntRange(0, 6).Draw(t, "burstPlan") == 0
		m.cpoolPlan = rapid.IntRange(0, 4).Draw(t, "communityPoolPlan") == 0
		// one history in four starts with a parameter change, so that its pools are created under changed parameters
		if rapid.IntRange(0, 3).Draw(t, "paramsFirst") == 0 {
			return m.genParams(t)
		}
	}
	if m.cpoolPlan && m.cpoolDone < 2 && len(m.pools) < maxPools+1 && rapid.IntRange(0, 3).Draw(t, "communityPoolNow") == 0 {
		m.cpoolDone++
		return m.genCommunityPool(t)
	}
	if m.burstPlan && !m.bursted && len(m.pools) < maxPools && rapid.IntRange(0, 2).Draw(t, "burstNow") == 0 {
		m.bursted = true
		return m.genBurst(t)
	}
	if len(m.pools) == 0 && rapid.IntRange(0, 9).Draw(t, "first") < 9 {
		return m.genCreate(t)
	}
	if m.target >= 0 {
		tgt := m.target
		m.target = -1
		w := []string{"stake", "stake", "unstake", "unstake", "harvest", "adjust", "adjust", "adjust", "adjust", "destroy"}
		return m.genPoolOp(t, tgt, rapid.SampledFrom(w).Draw(t, "bop"))
	}
	k := rapid.IntRange(0, 99).Draw(t, "kind")
	h := m.c.Height()
	nLive := 0
	for _, p := range m.pools {
		if !p.expired(h) {
			nLive++
		}
	}
	switch {
	case k < 3 || (nLive == 0 && k < 50):
		if len(m.pools) < maxPools {
			return m.genCreate(t)
		}
		return m.genBlock(t)
	case k < 5:
		return m.genParams(t)
	case k < 20:
		return m.genBlock(t)
	case k < 94:
		if len(m.pools) == 0 {
			return m.genBlock(t)
		}
		w := []string{"stake", "stake", "stake", "stake", "stake", "unstake", "unstake", "unstake", "harvest", "harvest", "adjust", "adjust", "destroy"}
		kind := rapid.SampledFrom(w).Draw(t, "op")
		idx := m.pickPool(t, kind)
		if idx < 0 {
			return m.genBlock(t)
		}
		return m.genPoolOp(t, idx, kind)
	case k < 97:
		return fop{K: "epilogue", N: rapid.IntRange(0, 1<<16).Draw(t, "order")}
	default:
		// stranger attempts creator-only operations / operations on a missing pool
		idx := rapid.IntRange(0, len(m.pools)).Draw(t, "spool")
		who := rapid.SampledFrom([]int{strangerID, 2, 3}).Draw(t, "swho")
		if rapid.Bool().Draw(t, "sdestroy") {
			return fop{K: "destroy", Who: who, Pool: idx}
		}
		return fop{K: "adjust", Who: who, Pool: idx, Denoms: []string{"eth"}, Rates: []string{"1"}, Totals: []string{""}}
	}
}

// pickPool prefers pools on which an operation of this kind can succeed (9 of 10 draws).
func (m *machine) pickPool(t *rapid.T, kind string) int {
	h := m.c.Height()
	var good []int
	for i, p := range m.pools {
		ok := false
		switch kind {
		case "stake":
			ok = p.started(h) && !p.expired(h)
		case "unstake":
			for _, f := range p.farmers {
				if f.exists {
					ok = true
				}
			}
		case "harvest":
			if !p.expired(h) {
				for _, f := range p.farmers {
					if f.exists {
						ok = true
					}
				}
			}
		default:
			ok = p.editable && !p.expired(h)
		}
		if ok {
			good = append(good, i)
		}
	}
	if rapid.IntRange(0, 9).Draw(t, "goodpool") < 9 {
		if len(good) == 0 {
			return -1
		}
		// in a many-pools history stay mostly on the early pools (farm-1 above all: its id is a prefix of farm-10..)
		if len(m.pools) > maxPools {
			var early []int
			for _, i := range good {
				if i < maxPools {
					early = append(early, i)
				}
			}
			switch x := rapid.IntRange(0, 9).Draw(t, "earlypool"); {
			case x < 5 && len(early) > 0 && early[0] == 0:
				return 0
			case x < 8 && len(early) > 0:
				return rapid.SampledFrom(early).Draw(t, "pool")
			case x == 8:
				// the pools whose ids extend farm-1 (farm-10..): the same farmer in both probes prefix-keyed farmer records
				var ext []int
				for _, i := range good {
					if i >= 9 {
						ext = append(ext, i)
					}
				}
				if len(ext) > 0 {
					return rapid.SampledFrom(ext).Draw(t, "pool")
				}
			}
		}
		return rapid.SampledFrom(good).Draw(t, "pool")
	}
	return rapid.IntRange(0, len(m.pools)-1).Draw(t, "pool")
}

func (m *machine) genBlock(t *rapid.T) fop {
	h := m.c.Height()
	type bnd struct {
		pool int
		n    int64
	}
	var bs []bnd
	late := -1 // of the pools of a burst only one (rotating) offers its boundaries
	if len(m.pools) > maxPools {
		late = maxPools + int(h)%(len(m.pools)-maxPools)
	}
	for i, p := range m.pools {
		if p.refunded || (i >= maxPools && i != late) {
			continue
		}
		if p.start > h {
			bs = append(bs, bnd{i, p.start - h})
		}
		staked := p.total.Sign() > 0
		if p.end > h && p.end-h <= 60 && (staked || h%4 == 0) {
			bs = append(bs, bnd{i, p.end - h})
			if p.end-h > 1 {
				bs = append(bs, bnd{-1, p.end - h - 1}) // one block before the end, no forced target
			}
		}
	}
	// with probability 1/4 stop exactly at a pool's start or end height; the next operation then aims at that pool
	if len(bs) > 0 && rapid.IntRange(0, 3).Draw(t, "boundary") == 0 {
		b := rapid.SampledFrom(bs).Draw(t, "which")
		m.target = b.pool
		return fop{K: "block", N: int(b.n)}
	}
	// one plain block step in eight is a restart: the farm module goes through its own genesis at the new height
	if len(m.pools) > 0 && rapid.IntRange(0, 7).Draw(t, "restart") == 0 {
		return fop{K: "restart", Spell: rapid.SampledFrom([]int{0, 0, 0, 1}).Draw(t, "edited")}
	}
	return fop{K: "block", N: rapid.SampledFrom([]int{1, 1, 1, 1, 1, 1, 2, 2, 3, 6}).Draw(t, "n")}
}

// genParams draws a farm parameter change: fees and tax rates whose product is fractional, a fee of 0 or 1, other
// fee denoms, fewer / more reward categories (also below the rule count of existing pools), invalid tax rates and
// a sender that is not the authority (both must be refused).
func (m *machine) genParams(t *rapid.T) fop {
	o := fop{K: "params"}
	o.Fee = rapid.SampledFrom([]string{"5001", "5000", "5000", "1", "0", "7", "4999", "999983", "12345678901234567891"}).Draw(t, "fee")
	o.FeeD = rapid.SampledFrom([]string{"stake", "stake", "stake", "usdt", "eth", "ethx"}).Draw(t, "feeDenom")
	o.Tax = rapid.SampledFrom([]string{"0.4", "0.4", "0.3333", "0.5", "0.25", "0.1", "0.7", "0.000000000000000001", "0.999999999999999999",
		"0.333333333333333333", "0", "1", "1.5", "-0.1"}).Draw(t, "tax")
	o.MaxRD = rapid.SampledFrom([]int{2, 2, 2, 1, 1, 3, 3, 0}).Draw(t, "maxCategories")
	if rapid.IntRange(0, 19).Draw(t, "notAuthority") == 0 {
		o.Who = strangerID
	}
	return o
}

// genCommunityPool draws a farm pool funded out of the community pool (short-lived, so that it ends inside or soon
// after the history; budgets mostly not a multiple of the rate, so that something remains to be handed back).
func (m *machine) genCommunityPool(t *rapid.T) fop {
	o := fop{K: "cpool", Lpt: rapid.IntRange(0, 1).Draw(t, "clpt")}
	o.Route = rapid.SampledFrom([]string{"handler", "handler", "handler", "handler", "handler", "handler", "refund", "refund", "genesis"}).Draw(t, "route")
	nd := rapid.SampledFrom([]int{1, 1, 2}).Draw(t, "cdenoms")
	o.Edit = nd == 2 && rapid.Bool().Draw(t, "selfBond")
	perm := rapid.Permutation([]string{"eth", "usdt", "point", "stake", "ethx"}).Draw(t, "cperm")
	life := rapid.IntRange(5, 20).Draw(t, "clife")
	for i := 0; i < nd; i++ {
		rate := m.rateAmount(t, "crate")
		l := life
		if i > 0 {
			l = rapid.IntRange(5, 25).Draw(t, "clife2")
		}
		total := new(big.Int).Mul(rate, big.NewInt(int64(l)))
		if rapid.IntRange(0, 3).Draw(t, "crem") > 0 && rate.Cmp(big.NewInt(1)) > 0 {
			total.Add(total, new(big.Int).Quo(rate, big.NewInt(2)))
		}
		o.Denoms = append(o.Denoms, perm[i])
		o.Rates = append(o.Rates, rate.String())
		o.Totals = append(o.Totals, total.String())
	}
	return o
}

func (m *machine) amount(t *rapid.T, label string, bits uint) *big.Int {
	if m.avoidF4 {
		return big.NewInt(int64(rapid.IntRange(1, 10).Draw(t, label+"/small")))
	}
	return gen.Amount(t, label, bits)
}

func (m *machine) rateAmount(t *rapid.T, label string) *big.Int {
	if m.avoidF4 {
		return new(big.Int).Mul(lcm40, big.NewInt(int64(rapid.IntRange(1, 20).Draw(t, label+"/mult"))))
	}
	return gen.Amount(t, label, 94)
}

func (m *machine) genCreate(t *rapid.T) fop {
	o := fop{K: "create", Who: rapid.SampledFrom([]int{0, 0, 0, 1}).Draw(t, "creator"), Lpt: rapid.IntRange(0, 1).Draw(t, "lpt"),
		Edit: rapid.IntRange(0, 9).Draw(t, "editable") < 8}
	if rapid.Bool().Draw(t, "future") {
		o.Start = int64(rapid.IntRange(1, 10).Draw(t, "start"))
	}
	nd := 1
	switch x := rapid.IntRange(0, 19).Draw(t, "ndenoms"); {
	case x < 11:
		nd = 2
	case x == 19:
		nd = 3 // above the default maximum: must be rejected
	}
	perm := rapid.Permutation(rewardDenoms[:3]).Draw(t, "denoms")
	switch rapid.IntRange(0, 9).Draw(t, "stakeDenom") {
	case 0:
		perm[0] = "stake"
	case 1: // denoms that are string prefixes of each other
		perm[0], perm[1] = "eth", "ethx"
	case 2:
		perm[0], perm[1] = "usdt", "usd"
	case 3:
		perm[0] = rapid.SampledFrom([]string{"ethx", "usd"}).Draw(t, "prefixDenom")
	}
	life := rapid.IntRange(5, 40).Draw(t, "life")
	for i := 0; i < nd; i++ {
		rate := m.rateAmount(t, "rate")
		l := life
		if i > 0 && rapid.Bool().Draw(t, "otherlife") {
			l = rapid.IntRange(5, 40).Draw(t, "life2") // different exhaustion height
		}
		total := new(big.Int).Mul(rate, big.NewInt(int64(l)))
		switch rapid.IntRange(0, 5).Draw(t, "rem") {
		case 0, 1:
			if rate.Cmp(big.NewInt(1)) > 0 {
				total.Add(total, new(big.Int).Sub(rate, big.NewInt(1)))
			}
		case 2:
			total.Add(total, new(big.Int).Quo(rate, big.NewInt(2)))
		case 3:
			if rapid.IntRange(0, 9).Draw(t, "bad") == 0 {
				total = new(big.Int).Sub(rate, big.NewInt(1)) // budget below one block: invalid
			}
		}
		o.Denoms = append(o.Denoms, perm[i])
		o.Rates = append(o.Rates, rate.String())
		o.Totals = append(o.Totals, total.String())
	}
	return o
}

// genBurst creates enough cheap pools in one step for the pool sequence to reach 10..13: one reward denom, small
// rate and budget, start now or within two blocks, mixed editable flags and creators.
func (m *machine) genBurst(t *rapid.T) fop {
	n := 10 - len(m.pools) + rapid.IntRange(0, 3).Draw(t, "burstExtra")
	o := fop{K: "burst"}
	for i := 0; i < n; i++ {
		rate := big.NewInt(int64(rapid.IntRange(1, 5).Draw(t, "brate")))
		if m.avoidF4 {
			rate.Mul(rate, lcm40)
		}
		life := rapid.IntRange(8, 40).Draw(t, "blife")
		total := new(big.Int).Mul(rate, big.NewInt(int64(life)))
		if rapid.Bool().Draw(t, "brem") {
			total.Add(total, new(big.Int).Quo(rate, big.NewInt(2)))
		}
		o.Sub = append(o.Sub, fop{K: "create", Who: rapid.SampledFrom([]int{0, 0, 1}).Draw(t, "bcreator"), Lpt: rapid.IntRange(0, 1).Draw(t, "blpt"),
			Edit: rapid.Bool().Draw(t, "bedit"), Start: int64(rapid.SampledFrom([]int{0, 0, 1, 2}).Draw(t, "bstart")),
			Denoms: []string{rapid.SampledFrom(rewardDenoms).Draw(t, "bdenom")}, Rates: []string{rate.String()}, Totals: []string{total.String()}})
	}
	return o
}

// creatorUser: who sends creator operations (nobody can sign for the community pool: U0 tries and must be refused).
func creatorUser(p *mpool) int {
	if p.creator < 0 {
		return 0
	}
	return p.creator
}

// genPoolOp draws a farmer or creator operation on pool idx.
func (m *machine) genPoolOp(t *rapid.T, idx int, kind string) fop {
	p := m.pools[idx]
	h := m.c.Height()
	if kind == "adjust" && m.avoidF14 && h == p.end {
		kind = "harvest"
	}
	if kind == "destroy" && rapid.IntRange(0, 2).Draw(t, "reallyDestroy") > 0 {
		kind = "stake"
	}
	var staked, all []int
	for f := 1; f <= nFarmers; f++ {
		all = append(all, f)
		if fm, ok := p.farmers[f]; ok && fm.exists {
			staked = append(staked, f)
		}
	}
	switch kind {
	case "stake":
		who := 0
		var fresh []int
		for _, f := range all {
			if fm, ok := p.farmers[f]; !ok || !fm.exists {
				fresh = append(fresh, f)
			}
		}
		// several farmers in one pool matter more than one farmer staking repeatedly
		if len(fresh) > 0 && rapid.IntRange(0, 9).Draw(t, "freshFarmer") < 6 {
			who = rapid.SampledFrom(fresh).Draw(t, "farmer")
		} else {
			who = rapid.SampledFrom(all).Draw(t, "farmer")
		}
		var amt *big.Int
		switch x := rapid.IntRange(0, 19).Draw(t, "stakeShape"); {
		case m.avoidF4:
			amt = m.amount(t, "stake", 100)
		case x == 0:
			amt = m.c.Balance(m.user(who).Addr, p.lpt).BigInt() // everything
		case x == 1:
			amt = new(big.Int).Add(m.c.Balance(m.user(who).Addr, p.lpt).BigInt(), big.NewInt(1)) // one too many
		case x == 2 && p.total.Sign() > 0:
			amt = cp(p.total) // as much as everybody else together
		case x == 3:
			amt = new(big.Int) // zero stake creates an empty farmer record
		default:
			amt = m.amount(t, "stake", 100)
		}
		return fop{K: "stake", Who: who, Pool: idx, Amt: amt.String(), Spell: drawSpell(t)}
	case "unstake":
		var who int
		if len(staked) > 0 && rapid.IntRange(0, 9).Draw(t, "stakedFarmer") < 9 {
			who = rapid.SampledFrom(staked).Draw(t, "farmer")
		} else {
			who = rapid.SampledFrom(all).Draw(t, "farmer")
		}
		st := new(big.Int)
		if fm, ok := p.farmers[who]; ok {
			st = cp(fm.stake)
		}
		var amt *big.Int
		switch x := rapid.IntRange(0, 19).Draw(t, "unstakeShape"); {
		case x < 8:
			amt = st
		case x < 14:
			amt = new(big.Int).Quo(new(big.Int).Mul(st, big.NewInt(int64(rapid.IntRange(1, 999).Draw(t, "permille")))), big.NewInt(1000))
			if amt.Sign() == 0 {
				amt = big.NewInt(1)
			}
		case x < 16:
			amt = new(big.Int).Add(st, big.NewInt(1))
		case x == 16:
			amt = new(big.Int)
		case x == 17 && st.Sign() > 0:
			amt = new(big.Int).Sub(st, big.NewInt(1))
		default:
			amt = big.NewInt(int64(rapid.IntRange(1, 20).Draw(t, "tiny")))
		}
		return fop{K: "unstake", Who: who, Pool: idx, Amt: amt.String(), Spell: drawSpell(t)}
	case "harvest":
		var who int
		if len(staked) > 0 && rapid.IntRange(0, 9).Draw(t, "stakedFarmer") < 9 {
			who = rapid.SampledFrom(staked).Draw(t, "farmer")
		} else {
			who = rapid.SampledFrom(all).Draw(t, "farmer")
		}
		return fop{K: "harvest", Who: who, Pool: idx, Spell: drawSpell(t)}
	case "destroy":
		return fop{K: "destroy", Who: creatorUser(p), Pool: idx}
	default: // adjust
		o := fop{K: "adjust", Who: creatorUser(p), Pool: idx}
		any := false
		for i, r := range p.rules {
			rateS, topS := "", ""
			x := rapid.IntRange(0, 5).Draw(t, "adjShape")
			if i == len(p.rules)-1 && !any && x == 0 {
				x = 1
			}
			if x == 1 || x == 3 || x == 5 { // top-up
				var a *big.Int
				if rapid.IntRange(0, 3).Draw(t, "topShape") == 0 {
					a = m.amount(t, "topup", 90)
				} else {
					a = new(big.Int).Mul(r.rate, big.NewInt(int64(rapid.IntRange(1, 12).Draw(t, "topBlocks"))))
					if rapid.Bool().Draw(t, "topRem") && r.rate.Cmp(big.NewInt(1)) > 0 {
						a.Add(a, new(big.Int).Quo(r.rate, big.NewInt(3)))
					}
				}
				if m.avoidF4 {
					a = new(big.Int).Mul(r.rate, big.NewInt(int64(rapid.IntRange(1, 12).Draw(t, "topBlocks2"))))
				}
				topS = a.String()
			}
			if x == 2 || x == 3 || x == 4 { // new rate
				var a *big.Int
				switch rapid.IntRange(0, 4).Draw(t, "rateShape") {
				case 0:
					a = new(big.Int).Add(r.rate, big.NewInt(1))
				case 1:
					a = new(big.Int).Mul(r.rate, big.NewInt(2))
				case 2:
					a = new(big.Int).Quo(r.rate, big.NewInt(2))
					if a.Sign() == 0 {
						a = big.NewInt(1)
					}
				default:
					a = m.rateAmount(t, "newrate")
				}
				if m.avoidF4 {
					a = m.rateAmount(t, "newrate2")
				}
				rateS = a.String()
			}
			if rateS != "" || topS != "" {
				any = true
				o.Denoms = append(o.Denoms, r.denom)
				o.Rates = append(o.Rates, rateS)
				o.Totals = append(o.Totals, topS)
			}
		}
		if rapid.IntRange(0, 29).Draw(t, "foreignDenom") == 0 {
			o.Denoms = append(o.Denoms, "btc")
			o.Rates = append(o.Rates, "")
			o.Totals = append(o.Totals, "5")
		}
		if len(o.Denoms) == 0 {
			return fop{K: "harvest", Who: 1, Pool: idx}
		}
		if m.unsorted && rapid.Bool().Draw(t, "descending") {
			o.Rev = true
		}
		return o
	}
}

// ---------------------------------------------------------------------------------------------

const ruleCommon = "rapid state machine on the keeper-level driver (farm + coinswap + bank; irismod blockers): prelude = 2 coinswap pools, lpt-1/lpt-2 handed to 4 farmers; " +
	"rules burst (1 history in 7, early: 7-13 cheap one-denom pools in one step so that the pool sequence passes 10 and farm-1 is a string prefix of farm-10..; afterwards operations stay mostly on the early pools) / create (reward denoms include the prefix pairs eth/ethx and usd/usdt; start now or 1-10 blocks ahead, 1-2 reward denoms (3 = must reject), rate and stake by shape with tiny values at high weight, lifetime 5-40 blocks with different exhaustion heights, editable or not) / " +
	"stake (incl. 0, whole balance, balance+1) / unstake (full, partial, stake+1, 0) / harvest / adjust (top-up and/or new rate per denom) / destroy / strangers on creator-only operations / " +
	"block (1-8 blocks; with probability 1/4 stop exactly at a pool's start, end or end-1 height and aim the next operation at that pool); <=3 farm pools (<=13 in a many-pools history), amounts <= 2^100; "

const c05Rule = ruleCommon + "oracle after every step: recorded stakes = stakes made, their sum = recorded pool total, farm account = recorded totals + recorded remaining budgets, unstake of <= recorded stake succeeds and pays exactly amount + accrued reward; " +
	"full-withdrawal epilogue on a branch at generated points, at the end of the history and again after every pool has expired. " +
	"non-trivial = >=2 farmers in one pool, >=1 stake change while a non-terminating per-share quotient (reward*10^18 mod total stake != 0) has accrued, epilogue executed with somebody staked; distinct by SHA-256 of the op list"

const c06Rule = ruleCommon + "oracle after every step: exact reference of budgets (total = remaining + released + refunded), releases only while somebody is staked, end height = start + min floor(budget/rate) and its recomputation on adjust, " +
	"refund exactly once at the end block or destroy, every reported reward = balance delta and nothing else moves, per farmer |paid + pending - exact stake-time share| < interactions+1 (+ 10^-18*stake per accrual downwards); every pool is run to its end after the history. " +
	"non-trivial = >=2 farmers staked at the same time in one pool, >=1 successful adjust or destroy, >=1 pool reached its end height inside the generated history; distinct by SHA-256 of the op list"

func init() {
	pbt.RegisterMachine("c05", newC05)
	pbt.RegisterMachine("c06", newC06)
}

func TestReplay(t *testing.T) { pbt.ReplayMain(t) }

func TestC05(t *testing.T) { pbt.RunMachine(t, "C05", "c05", c05Rule, newC05) }

func TestC06(t *testing.T) { pbt.RunMachine(t, "C06", "c06", c06Rule, newC06) }

// drawSpell: one operation in twelve writes the pool id in another spelling that validation accepts.
func drawSpell(t *rapid.T) int {
	if rapid.IntRange(0, 1<<20).Draw(t, "spell")%12 == 11 {
		return rapid.IntRange(1, 2).Draw(t, "spelling")
	}
	return 0
}
