package c05

import (
	"math/big"
	"testing"

	"pgregory.net/rapid"

	"verifharness/pbt"
)

// Metamorphic form of C06's "independent of how often anyone harvests": the same history is executed twice,
// the second time with extra harvests inserted at generated points; per farmer, pool and denom the cumulative
// payout (paid + pending) of the two runs may differ only by the rounding allowance of both runs.
// The comparison does not use the exact rational reference, so it also cross-checks that reference.

type harv struct {
	Who  int `json:"who"`
	Pool int `json:"pool"`
}

type mop struct {
	Op    fop    `json:"op"`
	Extra []harv `json:"extra,omitempty"` // harvests executed before Op in the second run only
}

type metaMachine struct {
	a, b     *machine
	nExtra   int
	diverged bool
}

func newMeta() pbt.Machine[mop] {
	return &metaMachine{a: newMachine("C06"), b: newMachine("C06")}
}

func (mm *metaMachine) Next(t *rapid.T) mop {
	o := mop{Op: mm.a.Next(t)}
	h := mm.a.c.Height()
	var cand []harv
	for i, p := range mm.a.pools {
		if p.expired(h) {
			continue
		}
		for _, k := range p.farmerIdx() {
			if p.farmers[k].exists {
				cand = append(cand, harv{k, i})
			}
		}
	}
	if len(cand) > 0 {
		n := rapid.SampledFrom([]int{0, 0, 1, 1, 2, 3}).Draw(t, "extraHarvests")
		for i := 0; i < n; i++ {
			o.Extra = append(o.Extra, rapid.SampledFrom(cand).Draw(t, "extra"))
		}
	}
	return o
}

// sameShape tells whether both runs accepted the same operations so far: same pools, budgets, rates, end
// heights and stakes. The code's acceptance of a top-up depends on the recorded (not yet accrued) remaining
// budget, which an extra harvest in the same block changes - after such a split the runs are different
// histories and are not compared any more.
func (mm *metaMachine) sameShape() bool {
	if len(mm.a.pools) != len(mm.b.pools) {
		return false
	}
	for i, pa := range mm.a.pools {
		pb := mm.b.pools[i]
		if pa.end != pb.end || pa.start != pb.start || pa.refunded != pb.refunded || pa.total.Cmp(pb.total) != 0 || len(pa.rules) != len(pb.rules) {
			return false
		}
		for j, ra := range pa.rules {
			rb := pb.rules[j]
			if ra.denom != rb.denom || ra.total.Cmp(rb.total) != 0 || ra.rate.Cmp(rb.rate) != 0 {
				return false
			}
		}
		for _, k := range pa.farmerIdx() {
			fb, ok := pb.farmers[k]
			if !ok || pa.farmers[k].stake.Cmp(fb.stake) != 0 {
				return false
			}
		}
	}
	return true
}

func (mm *metaMachine) Apply(o mop) error {
	if mm.diverged {
		return nil
	}
	if err := mm.a.Apply(o.Op); err != nil {
		return err
	}
	for _, x := range o.Extra {
		before := mm.b.cls["harvest"]
		if err := mm.b.Apply(fop{K: "harvest", Who: x.Who, Pool: x.Pool}); err != nil {
			return err
		}
		if mm.b.cls["harvest"] > before {
			mm.nExtra++
		}
	}
	if err := mm.b.Apply(o.Op); err != nil {
		return err
	}
	if !mm.sameShape() {
		mm.diverged = true
		return nil
	}
	return mm.compare()
}

func (mm *metaMachine) compare() error {
	if len(mm.a.pools) != len(mm.b.pools) {
		return pbt.Failf("harness/meta-diverged", "runs diverged: %d vs %d pools", len(mm.a.pools), len(mm.b.pools))
	}
	for i, pa := range mm.a.pools {
		pb := mm.b.pools[i]
		for _, k := range pa.farmerIdx() {
			fa := pa.farmers[k]
			fb, ok := pb.farmers[k]
			if !ok {
				if fa.ever {
					return pbt.Failf("harness/meta-diverged", "farmer %d of pool %s missing in the second run", k, pa.id)
				}
				continue
			}
			if fa.stake.Cmp(fb.stake) != 0 {
				return pbt.Failf("harness/meta-diverged", "farmer %d of pool %s: stakes %s vs %s", k, pa.id, fa.stake, fb.stake)
			}
			pendA, pendB := mm.pending(mm.a, pa, k), mm.pending(mm.b, pb, k)
			for _, r := range pa.rules {
				ga := new(big.Int).Add(amtOf(fa.paid, r.denom), amtOf(pendA, r.denom))
				gb := new(big.Int).Add(amtOf(fb.paid, r.denom), amtOf(pendB, r.denom))
				diff := new(big.Rat).SetInt(new(big.Int).Sub(ga, gb))
				diff.Abs(diff)
				tol := new(big.Rat).SetInt64(int64(fa.inter + fb.inter + 2))
				tol.Add(tol, new(big.Rat).SetFrac(new(big.Int).Add(new(big.Int).Add(fa.units, fb.units), new(big.Int).Mul(fa.stake, big.NewInt(2))), ten18))
				if diff.Cmp(tol) >= 0 {
					return pbt.Failf("C06/harvest-frequency", "h=%d pool %s farmer %d %s: cumulative payout %s with %d interactions, %s with %d interactions (extra harvests); allowed difference < %s",
						mm.a.c.Height(), pa.id, k, r.denom, ga, fa.inter, gb, fb.inter, tol.FloatString(3))
				}
			}
		}
	}
	return nil
}

func amtOf(m map[string]*big.Int, d string) *big.Int {
	if v, ok := m[d]; ok {
		return v
	}
	return new(big.Int)
}

func (mm *metaMachine) pending(m *machine, p *mpool, k int) map[string]*big.Int {
	out := map[string]*big.Int{}
	if !p.farmers[k].exists {
		return out
	}
	if _, pend, err := m.farmerQuery(m.c, k, p); err == nil {
		for _, c := range pend {
			out[c.Denom] = c.Amount.BigInt()
		}
	}
	return out
}

func (mm *metaMachine) Finish() error {
	if mm.diverged {
		return nil
	}
	if err := mm.a.Finish(); err != nil {
		return err
	}
	if err := mm.b.Finish(); err != nil {
		return err
	}
	if !mm.sameShape() {
		mm.diverged = true
		return nil
	}
	return mm.compare()
}

func (mm *metaMachine) Classify() (bool, []string) {
	nt, cl := mm.a.Classify()
	if mm.diverged {
		return false, []string{"runs-diverged-on-acceptance"}
	}
	if mm.nExtra > 0 {
		cl = append(cl, "extra-harvests")
	}
	if mm.nExtra >= 3 {
		cl = append(cl, "extra-harvests>=3")
	}
	return nt && mm.nExtra > 0, cl
}

const c06MetaRule = ruleCommon + "metamorphic: the history is executed twice on independent states, the second time with 0-3 extra harvests (by farmers staked in running pools) before each operation; " +
	"per farmer, pool and denom |(paid+pending) of run 1 - (paid+pending) of run 2| < interactions1 + interactions2 + 2 (+ 10^-18*stake per accrual); both runs are also checked against the C06 reference. " +
	"non-trivial = as TestC06 and >=1 extra harvest succeeded; distinct by SHA-256 of the op list"

func init() { pbt.RegisterMachine("c06meta", newMeta) }

func TestC06Meta(t *testing.T) { pbt.RunMachine(t, "C06", "c06meta", c06MetaRule, newMeta) }
