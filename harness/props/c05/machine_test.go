package c05

import (
	"context"
	"encoding/json"
	"fmt"
	"math/big"
	"os"
	"regexp"
	"sort"
	"strings"
	"sync"
	"time"

	sdkmath "cosmossdk.io/math"
	storetypes "cosmossdk.io/store/types"
	abci "github.com/cometbft/cometbft/abci/types"
	"github.com/cosmos/cosmos-sdk/codec"
	sdk "github.com/cosmos/cosmos-sdk/types"
	banktypes "github.com/cosmos/cosmos-sdk/x/bank/types"
	distrtypes "github.com/cosmos/cosmos-sdk/x/distribution/types"

	coinswaptypes "mods.irisnet.org/modules/coinswap/types"
	farmkeeper "mods.irisnet.org/modules/farm/keeper"
	farmtypes "mods.irisnet.org/modules/farm/types"

	"verifharness/chain"
	"verifharness/gen"
	"verifharness/pbt"
)

// Universe: U0 = main creator and source of liquidity tokens, U1..U4 = farmers (U1 may also create pools,
// U4 is poor: lpt only), U5 = stranger (poor).
const (
	communityCreator = -1 // model creator index of a pool created out of the community pool
	nFarmers         = 4
	maxPools         = 3
	strangerID       = 5
)

var (
	distrAddr     = chain.ModuleAddr("distribution")
	farmAddr      = chain.ModuleAddr(farmtypes.ModuleName)
	collectorAddr = chain.ModuleAddr(farmtypes.RewardCollector)
	feeCollAddr   = chain.ModuleAddr("fee_collector")
	lptGrant      = gen.Pow2(104) // liquidity tokens handed to every farmer
	lptMint       = gen.Pow2(110)
	// reward denoms; ethx/usd are funded only in this package's environment: denoms that are string prefixes of
	// each other (eth/ethx, usd/usdt) probe prefix-keyed lookups of reward rules
	rewardDenoms = []string{"eth", "usdt", "point", "ethx", "usd", "stake"}
	// lcm(1..40): with stakes 1..10 (total <= 40) and rates that are multiples of it every per-share
	// quotient is an integer, so no truncation happens at all (VERIF_C05_AVOID_F4).
	lcm40 = gen.BigOf("5342931457063200")
)

// fop is one operation (plain data; the op list is the replay file).
type fop struct {
	K      string   `json:"k"` // create|burst|stake|unstake|harvest|adjust|destroy|block|epilogue|params|restart|cpool
	Who    int      `json:"who,omitempty"`
	Pool   int      `json:"pool,omitempty"`   // index in creation order
	Amt    string   `json:"amt,omitempty"`    // stake/unstake amount
	N      int      `json:"n,omitempty"`      // block: number of blocks; epilogue: order seed
	Lpt    int      `json:"lpt,omitempty"`    // create: which liquidity token
	Start  int64    `json:"start,omitempty"`  // create: start height = current height + Start
	Edit   bool     `json:"edit,omitempty"`   // create: editable
	Denoms []string `json:"denoms,omitempty"` // create/adjust: reward denoms
	Rates  []string `json:"rates,omitempty"`  // create: reward per block; adjust: new rate ("" = unchanged)
	Totals []string `json:"totals,omitempty"` // create: budget; adjust: top-up ("" = none)
	Sub    []fop    `json:"sub,omitempty"`    // burst: the pool creations executed in this one step
	Rev    bool     `json:"rev,omitempty"`
	Fee    string   `json:"fee,omitempty"`   // params: pool creation fee amount
	FeeD   string   `json:"feed,omitempty"`  // params: pool creation fee denom
	Tax    string   `json:"tax,omitempty"`   // params: tax rate (decimal text)
	MaxRD  int      `json:"maxrd,omitempty"` // params: max reward categories
	Spell  int      `json:"spell,omitempty"` // stake/unstake/harvest: the pool id written as farm-0N (1) or as the bare number (2): both pass validation
	Route  string   `json:"route,omitempty"` // cpool: genesis | handler | refund    // adjust: send the coin lists in descending denom order (VERIF_C05_UNSORTED)
}

type machine struct {
	editGenesis bool // the restart in progress imports a hand-edited spelling of the export
	c           *chain.Case
	prop        string // "C05" or "C06": which oracle clauses are active
	lpts        []string

	pools []*mpool
	fee   *big.Int
	tax   *big.Int
	feeD  string
	maxRD int
	// community pool (distribution FeePool.CommunityPool), integer amounts per denom; only this machine moves it
	// (the distribution/mint blockers do not run)
	cpool         map[string]*big.Int
	probedMsg     bool
	pendingInject *mpool
	hasEscrow     bool // the app registers farm's escrow_collector module account (needed by the proposal handlers)
	nextProp      uint64

	avoidZeroStake, avoidZeroRPS, avoidRestartAtEnd bool
	lowCat                                          bool

	target int // generator only: pool the next operation must aim at (-1 none)
	// generator only: many-pools plan
	planDrawn, burstPlan, bursted, cpoolPlan bool
	cpoolDone                                int

	avoidF4, avoidF14, strict, unsorted bool

	cls          map[string]int
	nEpilogue    int
	endedInHist  int
	inFinish     bool
	stakeChgNT   int
	overlap      bool
	nAdjDestroy  int
	softRejects  []string
	triggeredEpi bool
}

func newMachine(prop string) *machine {
	c := farmEnv().NewCase()
	m := &machine{c: c, prop: prop, target: -1, cls: map[string]int{}}
	m.avoidF4 = os.Getenv("VERIF_C05_AVOID_F4") != ""
	m.avoidF14 = os.Getenv("VERIF_C05_AVOID_F14") != ""
	m.strict = os.Getenv("VERIF_C05_STRICT") != ""
	m.unsorted = os.Getenv("VERIF_C05_UNSORTED") != ""
	m.avoidZeroStake = os.Getenv("VERIF_C05_AVOID_REIMPORT_ZERO_STAKE") != ""
	m.avoidZeroRPS = os.Getenv("VERIF_C05_AVOID_REIMPORT_ZERO_RPS") != ""
	m.avoidRestartAtEnd = os.Getenv("VERIF_C05_AVOID_RESTART_AT_END") != ""
	m.prelude()
	return m
}

var (
	envOnce sync.Once
	envFarm *chain.Env
)

// farmEnv is the package's own universe: the default one plus whale balances of ethx and usd.
func farmEnv() *chain.Env {
	envOnce.Do(func() { envFarm = chain.NewEnv(chain.Options{ExtraDenoms: []string{"ethx", "usd"}}) })
	return envFarm
}

// accrue = model accrual plus class bookkeeping: a release on a pool whose id is a strict string prefix of
// another pool's id (farm-1 once farm-10 exists) is what prefix-keyed store iteration would get wrong.
func (m *machine) accrue(p *mpool, h int64) (map[string]*big.Int, bool) {
	rel, short := p.accrue(h)
	if len(rel) > 0 {
		for _, q := range m.pools {
			if q != p && strings.HasPrefix(q.id, p.id) {
				m.class("release-on-prefix-related-pool")
				break
			}
		}
	}
	return rel, short
}

func newC05() pbt.Machine[fop] { return newMachine("C05") }
func newC06() pbt.Machine[fop] { return newMachine("C06") }

func (m *machine) user(i int) chain.User {
	if i < 0 {
		i = 0
	}
	return m.c.E.Users[i%len(m.c.E.Users)]
}

func coin(d string, a *big.Int) sdk.Coin { return sdk.Coin{Denom: d, Amount: gen.ToInt(a)} }

// prelude: U0 creates two coinswap pools (btc, eth against stake) and sends lpt-1 / lpt-2 to the farmers.
// The farm module only checks that the staked denom is the liquidity token of an existing coinswap pool.
func (m *machine) prelude() {
	u0 := m.user(0)
	for _, d := range []string{"btc", "eth"} {
		res := m.c.Deliver(&coinswaptypes.MsgAddLiquidity{
			MaxToken: coin(d, lptMint), ExactStandardAmt: gen.ToInt(lptMint), MinLiquidity: sdkmath.OneInt(),
			Deadline: m.c.Time().Add(1000 * time.Hour).Unix(), Sender: u0.Addr.String(),
		})
		if res.Outcome != chain.OK {
			panic(fmt.Sprintf("prelude: add liquidity failed: %v", res))
		}
		resp := res.Resp.(*coinswaptypes.MsgAddLiquidityResponse)
		lpt := resp.MintToken.Denom
		m.lpts = append(m.lpts, lpt)
		for f := 1; f <= nFarmers; f++ {
			r := m.c.Deliver(&banktypes.MsgSend{FromAddress: u0.Addr.String(), ToAddress: m.user(f).Addr.String(),
				Amount: sdk.Coins{coin(lpt, lptGrant)}})
			if r.Outcome != chain.OK {
				panic(fmt.Sprintf("prelude: send failed: %v", r))
			}
		}
	}
	params := m.c.E.K.Farm.GetParams(m.c.Ctx)
	m.fee = params.PoolCreationFee.Amount.BigInt()
	m.feeD = params.PoolCreationFee.Denom
	m.maxRD = int(params.MaxRewardCategories)
	// tax = floor(fee * taxRate); taxRate is an 18-decimal fixed-point number
	m.tax = taxOf(m.fee, params.TaxRate.String())
	m.cpool = map[string]*big.Int{}
	fp, err := m.c.E.App.DistrKeeper.FeePool.Get(m.c.Ctx)
	if err != nil {
		panic(err)
	}
	for _, dc := range fp.CommunityPool {
		m.cpool[dc.Denom] = dc.Amount.TruncateInt().BigInt()
	}
	m.hasEscrow = m.c.E.App.AccountKeeper.GetModuleAddress(farmtypes.EscrowCollector) != nil
	m.nextProp = 1000
}

// taxOf = floor(fee * rate) for a decimal rate given as text.
func taxOf(fee *big.Int, rate string) *big.Int {
	tr, ok := new(big.Rat).SetString(rate)
	if !ok {
		return new(big.Int)
	}
	t := new(big.Rat).Mul(new(big.Rat).SetInt(fee), tr)
	return new(big.Int).Quo(t.Num(), t.Denom())
}

// creatorAddr: pools created out of the community pool belong to the distribution module account.
func (m *machine) creatorAddr(p *mpool) sdk.AccAddress {
	if p.creator == communityCreator {
		return distrAddr
	}
	return m.user(p.creator).Addr
}

// refundTo books the hand-back of a pool's remaining budget: to the creator, or - community pool farms - to the
// distribution account together with a credit of the community pool record.
func (m *machine) refundTo(e *chain.Expect, p *mpool, ref map[string]*big.Int) {
	for d, a := range ref {
		e.Move(farmAddr, m.creatorAddr(p), d, a)
		if p.creator == communityCreator {
			if _, ok := m.cpool[d]; !ok {
				m.cpool[d] = new(big.Int)
			}
			m.cpool[d].Add(m.cpool[d], a)
		}
	}
	if p.creator == communityCreator {
		if len(ref) > 0 {
			m.class("community-pool-farm-ended-with-remaining-budget")
		} else {
			m.class("community-pool-farm-ended-without-remaining-budget")
		}
	}
}

// farmAddrRe matches the address fields of an exported farm genesis.
var farmAddrRe = regexp.MustCompile(`"(creator|address)":\s*"([a-z0-9]+)"`)

func poolID(idx int) string { return fmt.Sprintf("%s-%d", farmtypes.PrefixFarmPool, idx+1) }

// spelledID writes a pool id the way the operation asks for: canonical, with a leading zero, or as the bare number.
func spelledID(o fop) string {
	switch o.Spell {
	case 1:
		return fmt.Sprintf("%s-0%d", farmtypes.PrefixFarmPool, o.Pool+1)
	case 2:
		return fmt.Sprint(o.Pool + 1)
	}
	return poolID(o.Pool)
}

func (m *machine) pool(idx int) *mpool {
	if idx < 0 || idx >= len(m.pools) {
		return nil
	}
	return m.pools[idx]
}

func parseAmt(s string) *big.Int {
	if s == "" {
		return new(big.Int)
	}
	v, ok := new(big.Int).SetString(s, 10)
	if !ok || v.Sign() < 0 {
		return new(big.Int)
	}
	return v
}

func (m *machine) sig(what string) string { return m.prop + "/" + what }

func (m *machine) class(c string) {
	m.cls[c]++
	if trace {
		fmt.Fprintf(os.Stderr, "   h=%d %s\n", m.c.Height(), c)
	}
}

var trace = os.Getenv("VERIF_C05_TRACE") != ""

// soft records an unexpected rejection of an operation the properties do not promise to accept.
func (m *machine) soft(kind string, res chain.Result) error {
	m.class("unexpected-reject-" + kind)
	if m.strict {
		return pbt.Failf("harness/unexpected-reject-"+kind, "h=%d %v", m.c.Height(), res)
	}
	return nil
}

// ---------------------------------------------------------------------------------------------
// balance-sheet comparison

func (m *machine) checkDelta(kind string, before chain.Sheet, want *chain.Expect) error {
	got := chain.Diff(before, m.c.Snapshot())
	w := want.Delta()
	if m.prop == "C05" {
		// C05 owns the principal and the escrow equation (checked separately from the recorded budgets); the
		// size of reward releases is C06's business: ignore the reward-side entries of the two escrows.
		isLpt := func(k string) bool {
			for _, l := range m.lpts {
				if strings.HasSuffix(k, "/"+l) {
					return true
				}
			}
			return false
		}
		for _, d := range []chain.Delta{got, w} {
			for k := range d.Bal {
				if strings.HasPrefix(k, collectorAddr.String()+"/") || (strings.HasPrefix(k, farmAddr.String()+"/") && !isLpt(k)) {
					delete(d.Bal, k)
				}
			}
		}
	}
	if !chain.SameDelta(got, w) {
		return pbt.Failf(m.sig("balance-delta-"+kind), "h=%d coins moved: %s ; expected: %s", m.c.Height(), got, w)
	}
	return nil
}

func (m *machine) expectRelease(e *chain.Expect, rel map[string]*big.Int) {
	for d, a := range rel {
		if a.Sign() > 0 {
			e.Move(farmAddr, collectorAddr, d, a)
		}
	}
}

// rewardOK checks a reported reward (all coins positive, only pool denoms) and books it.
func (m *machine) bookReward(e *chain.Expect, p *mpool, who int, reward sdk.Coins) error {
	f := p.farmer(who)
	for _, c := range reward {
		if p.rule(c.Denom) == nil || !c.Amount.IsPositive() {
			return pbt.Failf(m.sig("reward-coins"), "pool %s reported reward %s", p.id, reward)
		}
		e.Move(collectorAddr, m.user(who).Addr, c.Denom, c.Amount.BigInt())
		if cur, ok := f.paid[c.Denom]; ok {
			cur.Add(cur, c.Amount.BigInt())
		} else {
			f.paid[c.Denom] = c.Amount.BigInt()
		}
	}
	f.inter++
	return nil
}

// ---------------------------------------------------------------------------------------------
// Apply

func (m *machine) Apply(o fop) error {
	var err error
	if trace {
		fmt.Fprintf(os.Stderr, "op %+v\n", o)
	}
	switch o.K {
	case "create":
		err = m.applyCreate(o)
	case "burst":
		// many cheap pools in one step, so that pool ids become string prefixes of each other (farm-1 / farm-10)
		for _, sub := range o.Sub {
			if sub.K != "create" {
				continue
			}
			if err = m.applyCreate(sub); err != nil {
				break
			}
		}
		m.class("burst")
	case "stake":
		err = m.applyStake(o)
	case "unstake":
		err = m.applyUnstake(o)
	case "harvest":
		err = m.applyHarvest(o)
	case "adjust":
		err = m.applyAdjust(o)
	case "destroy":
		err = m.applyDestroy(o)
	case "block":
		n := o.N
		if n < 1 {
			n = 1
		}
		if n > 60 {
			n = 60
		}
		for i := 0; i < n && err == nil; i++ {
			err = m.applyBlock()
			if err == nil && i < n-1 {
				err = m.checkAll()
			}
		}
	case "epilogue":
		if m.prop == "C05" {
			err = m.epilogue(o.N)
		}
	case "params":
		err = m.applyParams(o)
	case "restart":
		m.editGenesis = o.Spell != 0
		err = m.applyBlockOpt(true)
		m.editGenesis = false
	case "cpool":
		err = m.applyCommunityPool(o)
	default:
		return nil
	}
	if err != nil {
		return err
	}
	return m.checkAll()
}

func sortedCoins(denoms []string, amts []*big.Int) (sdk.Coins, bool) {
	seen := map[string]bool{}
	var cs sdk.Coins
	for i, d := range denoms {
		if seen[d] || i >= len(amts) {
			return nil, false
		}
		seen[d] = true
		cs = append(cs, coin(d, amts[i]))
	}
	sort.Slice(cs, func(i, j int) bool { return cs[i].Denom < cs[j].Denom })
	return cs, true
}

func (m *machine) applyCreate(o fop) error {
	if len(o.Denoms) == 0 || len(o.Rates) != len(o.Denoms) || len(o.Totals) != len(o.Denoms) || len(m.lpts) == 0 {
		return nil
	}
	var rates, totals []*big.Int
	for i := range o.Denoms {
		rates = append(rates, parseAmt(o.Rates[i]))
		totals = append(totals, parseAmt(o.Totals[i]))
	}
	rc, ok1 := sortedCoins(o.Denoms, rates)
	tc, ok2 := sortedCoins(o.Denoms, totals)
	if !ok1 || !ok2 {
		return nil
	}
	u := m.user(o.Who)
	h := m.c.Height()
	lpt := m.lpts[o.Lpt%len(m.lpts)]
	start := h + o.Start
	valid := len(o.Denoms) <= m.maxRD && o.Start >= 0
	for i := range rates {
		if rates[i].Sign() <= 0 || totals[i].Cmp(rates[i]) < 0 || !new(big.Int).Quo(totals[i], maxBig(rates[i], bi(1))).IsInt64() {
			valid = false
		}
	}
	// funds
	need := map[string]*big.Int{m.feeD: cp(m.fee)}
	for i, d := range o.Denoms {
		if _, ok := need[d]; !ok {
			need[d] = new(big.Int)
		}
		need[d].Add(need[d], totals[i])
	}
	funded := true
	for d, a := range need {
		if m.c.Balance(u.Addr, d).BigInt().Cmp(a) < 0 {
			funded = false
		}
	}
	before := m.c.Snapshot()
	res := m.c.Deliver(&farmtypes.MsgCreatePool{Description: "p", LptDenom: lpt, StartHeight: start, RewardPerBlock: rc,
		TotalReward: tc, Editable: o.Edit, Creator: u.Addr.String()})
	if res.Outcome == chain.Panicked {
		if m.prop == "C05" { // creator-side operations are C06's subject; a panic has no effect on the state
			m.class("create-panicked")
			return nil
		}
		return pbt.Failf(m.sig("create-panicked"), "%v", res)
	}
	if !valid || !funded {
		if res.Outcome == chain.OK {
			return pbt.Failf(m.sig("invalid-create-accepted"), "%+v", o)
		}
		m.class("create-rejected")
		return nil
	}
	if res.Outcome != chain.OK {
		return m.soft("create", res)
	}
	id := poolID(len(m.pools))
	if ev := chain.EventAttrs(res.Events, farmtypes.EventTypeCreatePool, farmtypes.AttributeValuePoolId); len(ev) != 1 || ev[0] != id {
		return pbt.Failf(m.sig("pool-id"), "created pool ids %v, expected %s", ev, id)
	}
	p := &mpool{id: id, creator: o.Who, lpt: lpt, start: start, editable: o.Edit, total: new(big.Int), farmers: map[int]*mfarmer{}}
	e := chain.NewExpect()
	e.Add(u.Addr, m.feeD, new(big.Int).Neg(m.fee))
	e.Add(feeCollAddr, m.feeD, m.tax)
	e.Supply(m.feeD, new(big.Int).Sub(m.tax, m.fee))
	for _, c := range tc {
		e.Move(u.Addr, farmAddr, c.Denom, c.Amount.BigInt())
		p.rules = append(p.rules, &mrule{denom: c.Denom, total: c.Amount.BigInt(), remaining: c.Amount.BigInt(),
			rate: rc.AmountOf(c.Denom).BigInt(), released: new(big.Int)})
	}
	var av, rt []*big.Int
	for _, r := range p.rules {
		av = append(av, r.total)
		rt = append(rt, r.rate)
	}
	p.end, _ = endFor(start, av, rt)
	m.pools = append(m.pools, p)
	m.class("create")
	if len(m.pools) >= 10 {
		m.class("pools>=10")
	}
	if len(p.rules) > 1 {
		m.class("multi-denom-pool")
	}
	if o.Start > 0 {
		m.class("future-start")
	}
	if m.prop == "C06" {
		return m.checkDelta("create", before, e)
	}
	return nil
}

func maxBig(a, b *big.Int) *big.Int {
	if a.Cmp(b) >= 0 {
		return a
	}
	return b
}

func (m *machine) boundaryClass(p *mpool, h int64) {
	if h == p.end && !p.refunded {
		m.class("op-at-end-height")
	}
	if h == p.start {
		m.class("op-at-start-height")
	}
}

func (m *machine) applyStake(o fop) error {
	if len(m.lpts) == 0 {
		return nil
	}
	amt := parseAmt(o.Amt)
	u := m.user(o.Who)
	p := m.pool(o.Pool)
	lpt := m.lpts[0]
	if p != nil {
		lpt = p.lpt
	}
	h := m.c.Height()
	bal := m.c.Balance(u.Addr, lpt).BigInt()
	mustReject := p == nil || !p.started(h) || p.expired(h) || bal.Cmp(amt) < 0
	before := m.c.Snapshot()
	res := m.c.Deliver(&farmtypes.MsgStake{PoolId: spelledID(o), Amount: coin(lpt, amt), Sender: u.Addr.String()})
	if res.Outcome == chain.Panicked {
		return pbt.Failf(m.sig("stake-panicked"), "%v", res)
	}
	if mustReject {
		if res.Outcome == chain.OK {
			return pbt.Failf(m.sig("invalid-stake-accepted"), "h=%d %+v", h, o)
		}
		m.class("stake-rejected")
		return nil
	}
	if res.Outcome != chain.OK && o.Spell != 0 {
		m.class("pool-id-in-other-spelling-refused") // fine; an accepted operation acts on the pool it names
		return nil
	}
	if res.Outcome != chain.OK {
		return m.soft("stake", res)
	}
	resp, ok := res.Resp.(*farmtypes.MsgStakeResponse)
	if !ok {
		return pbt.Failf(m.sig("response"), "unexpected response %T", res.Resp)
	}
	m.boundaryClass(p, h)
	rel, short := m.accrue(p, h)
	if short && m.prop == "C06" {
		return pbt.Failf("C06/budget-short", "pool %s: recorded budget cannot cover the release at h=%d", p.id, h)
	}
	e := chain.NewExpect()
	e.Move(u.Addr, farmAddr, lpt, amt)
	m.expectRelease(e, rel)
	f := p.farmer(o.Who)
	if f.stake.Sign() == 0 && len(resp.Reward) > 0 {
		return pbt.Failf(m.sig("reward-without-stake"), "farmer %d had no stake in %s but received %s", o.Who, p.id, resp.Reward)
	}
	if err := m.bookReward(e, p, o.Who, resp.Reward); err != nil {
		return err
	}
	if p.nonTerm && amt.Sign() > 0 && p.total.Sign() > 0 {
		m.stakeChgNT++
	}
	if f.ever && f.stake.Sign() > 0 {
		m.class("restake")
	}
	f.stake.Add(f.stake, amt)
	f.exists = true
	f.ever = true
	p.total.Add(p.total, amt)
	n := 0
	for _, k := range p.farmerIdx() {
		if p.farmers[k].stake.Sign() > 0 {
			n++
		}
	}
	if n >= 2 {
		m.overlap = true
	}
	if n >= 3 {
		m.class("three-farmers-staked")
	}
	for _, q := range m.pools {
		if q != p && (strings.HasPrefix(q.id, p.id) || strings.HasPrefix(p.id, q.id)) {
			if fq, ok := q.farmers[o.Who]; ok && fq.exists {
				m.class("farmer-in-prefix-related-pools")
				break
			}
		}
	}
	m.class("stake")
	return m.checkDelta("stake", before, e)
}

// unstakeFailSig names a failed withdrawal after the escrow that is short (read from the state the withdrawal
// was attempted on): the pool's recorded budget cannot cover the release due since the last distribution, or the
// reward collector holds less than the farmer's accrued reward.
func (m *machine) unstakeFailSig(c *chain.Case, p *mpool, who int) string {
	h := c.Height()
	stored, ok := c.E.K.Farm.GetPool(c.Ctx, p.id)
	if !ok {
		return "C05/unstake-failed"
	}
	rules := c.E.K.Farm.GetRewardRules(c.Ctx, p.id)
	resp, err := c.E.K.Farm.FarmPool(context.Context(c.Ctx), &farmtypes.QueryFarmPoolRequest{Id: p.id})
	live := err == nil && !resp.Pool.Expired
	virt := map[string]*big.Int{}
	if live && stored.TotalLptLocked.Amount.IsPositive() && h > stored.LastHeightDistrRewards {
		for _, r := range rules {
			need := new(big.Int).Mul(r.RewardPerBlock.BigInt(), bi(h-stored.LastHeightDistrRewards))
			if r.RemainingReward.BigInt().Cmp(need) < 0 {
				return "C05/unstake-failed-budget-short"
			}
			virt[r.Reward] = need
		}
	}
	if _, pend, err := m.farmerQuery(c, who, p); err == nil {
		for _, co := range pend {
			have := c.Balance(collectorAddr, co.Denom).BigInt()
			if v, ok := virt[co.Denom]; ok {
				have.Add(have, v)
			}
			if have.Cmp(co.Amount.BigInt()) < 0 {
				return "C05/unstake-failed-collector-short"
			}
		}
	}
	return "C05/unstake-failed"
}

func (m *machine) applyUnstake(o fop) error {
	if len(m.lpts) == 0 {
		return nil
	}
	amt := parseAmt(o.Amt)
	u := m.user(o.Who)
	p := m.pool(o.Pool)
	lpt := m.lpts[0]
	if p != nil {
		lpt = p.lpt
	}
	h := m.c.Height()
	var f *mfarmer
	if p != nil {
		f = p.farmer(o.Who)
	}
	mustReject := p == nil || !f.exists || f.stake.Cmp(amt) < 0
	var pendingBefore sdk.Coins
	havePending := false
	if !mustReject && m.prop == "C05" {
		if _, pend, err := m.farmerQuery(m.c, o.Who, p); err == nil {
			pendingBefore, havePending = pend, true
		}
	}
	before := m.c.Snapshot()
	res := m.c.Deliver(&farmtypes.MsgUnstake{PoolId: spelledID(o), Amount: coin(lpt, amt), Sender: u.Addr.String()})
	if res.Outcome == chain.Panicked {
		return pbt.Failf(m.sig("unstake-panicked"), "%v", res)
	}
	if mustReject {
		if res.Outcome == chain.OK {
			return pbt.Failf(m.sig("over-unstake-accepted"), "h=%d %+v", h, o)
		}
		m.class("unstake-rejected")
		return nil
	}
	if res.Outcome != chain.OK && o.Spell != 0 {
		m.class("pool-id-in-other-spelling-refused")
		return nil
	}
	if res.Outcome != chain.OK {
		if m.prop == "C05" {
			return pbt.Failf(m.unstakeFailSig(m.c, p, o.Who), "h=%d farmer %d cannot withdraw %s of recorded stake %s from %s (end %d): %v",
				h, o.Who, amt, f.stake, p.id, p.end, res)
		}
		return m.soft("unstake", res)
	}
	resp, ok := res.Resp.(*farmtypes.MsgUnstakeResponse)
	if !ok {
		return pbt.Failf(m.sig("response"), "unexpected response %T", res.Resp)
	}
	m.boundaryClass(p, h)
	e := chain.NewExpect()
	if !p.expired(h) {
		rel, short := m.accrue(p, h)
		if short && m.prop == "C06" {
			return pbt.Failf("C06/budget-short", "pool %s: recorded budget cannot cover the release at h=%d", p.id, h)
		}
		m.expectRelease(e, rel)
	} else {
		m.class("unstake-after-expiry")
	}
	e.Move(farmAddr, u.Addr, lpt, amt)
	if err := m.bookReward(e, p, o.Who, resp.Reward); err != nil {
		return err
	}
	if havePending && !coinsEqual(pendingBefore, resp.Reward) {
		return pbt.Failf("C05/unstake-reward-not-accrued", "farmer %d pool %s: accrued (query) %s, unstake paid %s", o.Who, p.id, pendingBefore, resp.Reward)
	}
	if p.nonTerm && amt.Sign() > 0 && !p.expired(h) {
		m.stakeChgNT++
	}
	f.stake.Sub(f.stake, amt)
	p.total.Sub(p.total, amt)
	if f.stake.Sign() == 0 {
		f.exists = false
		m.class("unstake-full")
	} else {
		m.class("unstake-partial")
	}
	return m.checkDelta("unstake", before, e)
}

func coinsEqual(a, b sdk.Coins) bool {
	am := map[string]string{}
	for _, c := range a {
		if !c.Amount.IsZero() {
			am[c.Denom] = c.Amount.String()
		}
	}
	n := 0
	for _, c := range b {
		if c.Amount.IsZero() {
			continue
		}
		n++
		if am[c.Denom] != c.Amount.String() {
			return false
		}
	}
	return n == len(am)
}

func (m *machine) applyHarvest(o fop) error {
	u := m.user(o.Who)
	p := m.pool(o.Pool)
	h := m.c.Height()
	mustReject := p == nil || p.expired(h) || !p.farmer(o.Who).exists
	before := m.c.Snapshot()
	res := m.c.Deliver(&farmtypes.MsgHarvest{PoolId: spelledID(o), Sender: u.Addr.String()})
	if res.Outcome == chain.Panicked {
		return pbt.Failf(m.sig("harvest-panicked"), "%v", res)
	}
	if mustReject {
		if res.Outcome == chain.OK {
			return pbt.Failf(m.sig("invalid-harvest-accepted"), "h=%d %+v", h, o)
		}
		m.class("harvest-rejected")
		return nil
	}
	if res.Outcome != chain.OK && o.Spell != 0 {
		m.class("pool-id-in-other-spelling-refused")
		return nil
	}
	if res.Outcome != chain.OK {
		return m.soft("harvest", res)
	}
	resp, ok := res.Resp.(*farmtypes.MsgHarvestResponse)
	if !ok {
		return pbt.Failf(m.sig("response"), "unexpected response %T", res.Resp)
	}
	m.boundaryClass(p, h)
	rel, short := m.accrue(p, h)
	if short && m.prop == "C06" {
		return pbt.Failf("C06/budget-short", "pool %s: recorded budget cannot cover the release at h=%d", p.id, h)
	}
	e := chain.NewExpect()
	m.expectRelease(e, rel)
	if err := m.bookReward(e, p, o.Who, resp.Reward); err != nil {
		return err
	}
	m.class("harvest")
	return m.checkDelta("harvest", before, e)
}

func (m *machine) applyAdjust(o fop) error {
	u := m.user(o.Who)
	p := m.pool(o.Pool)
	h := m.c.Height()
	if len(o.Rates) != len(o.Denoms) || len(o.Totals) != len(o.Denoms) {
		return nil
	}
	var rpb, add sdk.Coins
	newRate := map[string]*big.Int{}
	topup := map[string]*big.Int{}
	seen := map[string]bool{}
	for i, d := range o.Denoms {
		if seen[d] {
			return nil
		}
		seen[d] = true
		if o.Rates[i] != "" {
			v := parseAmt(o.Rates[i])
			if v.Sign() <= 0 {
				return nil
			}
			rpb = append(rpb, coin(d, v))
			newRate[d] = v
		}
		if o.Totals[i] != "" {
			v := parseAmt(o.Totals[i])
			if v.Sign() <= 0 {
				return nil
			}
			add = append(add, coin(d, v))
			topup[d] = v
		}
	}
	if len(rpb) == 0 && len(add) == 0 {
		return nil
	}
	sort.Slice(rpb, func(i, j int) bool { return rpb[i].Denom < rpb[j].Denom })
	sort.Slice(add, func(i, j int) bool { return add[i].Denom < add[j].Denom })
	unsortedTopup := false
	if o.Rev {
		// ValidateBasic sorts a copy before validating, so lists in descending order reach the keeper
		sort.Slice(rpb, func(i, j int) bool { return rpb[i].Denom > rpb[j].Denom })
		sort.Slice(add, func(i, j int) bool { return add[i].Denom > add[j].Denom })
		unsortedTopup = len(add) > 1
		if len(rpb) > 1 || len(add) > 1 {
			m.class("adjust-unsorted-coins")
		}
	}
	mustReject := p == nil || o.Who != p.creator || !p.editable || p.expired(h)
	mayReject := unsortedTopup // the bank refuses unsorted coins
	if p != nil {
		for d := range newRate {
			if p.rule(d) == nil {
				mayReject = true
			}
		}
		for d, v := range topup {
			r := p.rule(d)
			// the code refuses a top-up of a denom whose recorded remaining budget is zero (it vanishes from its coin set)
			if r == nil || r.remaining.Sign() == 0 || m.c.Balance(u.Addr, d).BigInt().Cmp(v) < 0 {
				mayReject = true
			}
		}
	}
	before := m.c.Snapshot()
	res := m.c.Deliver(&farmtypes.MsgAdjustPool{PoolId: poolID(o.Pool), AdditionalReward: add, RewardPerBlock: rpb, Creator: u.Addr.String()})
	if res.Outcome == chain.Panicked && p != nil && strings.Contains(fmt.Sprint(res.Panic), "Int64()") {
		// The schedule an adjustment asks for must end at a height that fits a signed 64-bit integer; the keeper
		// refuses a longer one by panicking in the conversion (a transaction-level panic is turned into a failed
		// transaction by baseapp). The property does not say how such a request is refused: it counts as a refusal
		// when some rule's budget divided by its new rate really exceeds the range, and it must have no effect.
		beyond := false
		for _, r := range p.rules {
			rate := r.rate
			if v, ok := newRate[r.denom]; ok {
				rate = v
			}
			budget := new(big.Int).Set(r.remaining)
			if v, ok := topup[r.denom]; ok {
				budget.Add(budget, v)
			}
			if rate.Sign() > 0 && !new(big.Int).Quo(budget, rate).IsInt64() {
				beyond = true
			}
		}
		if beyond {
			if d := chain.Diff(before, m.c.Snapshot()); !d.Empty() {
				return pbt.Failf(m.sig("refused-adjust-has-effect"), "h=%d refused adjust of pool %s moved %v", h, p.id, d)
			}
			m.class("adjust-refused:schedule-beyond-int64")
			return nil
		}
	}
	if res.Outcome == chain.Panicked {
		if p != nil && h == p.end {
			m.class("adjust-at-end-height")
		}
		if m.prop == "C05" {
			m.class("adjust-panicked")
			return nil
		}
		if p != nil && h == p.end && !mustReject {
			return pbt.Failf(m.sig("adjust-at-end-height"), "h=%d adjust of pool %s at its end height %d panics: %v", h, p.id, p.end, res.Panic)
		}
		return pbt.Failf(m.sig("adjust-panicked"), "h=%d pool %v end %v: %v", h, poolID(o.Pool), endOf(p), res.Panic)
	}
	if mustReject {
		if res.Outcome == chain.OK {
			return pbt.Failf(m.sig("unauthorized-adjust-accepted"), "h=%d %+v", h, o)
		}
		m.class("adjust-rejected")
		if p != nil && o.Who != p.creator {
			m.class("stranger-rejected")
		}
		return nil
	}
	if res.Outcome != chain.OK {
		if mayReject || res.Outcome == chain.Overflow {
			m.class("adjust-rejected")
			return nil
		}
		return m.soft("adjust", res)
	}
	if h == p.end {
		m.class("adjust-at-end-height")
	}
	m.boundaryClass(p, h)
	rel, short := m.accrue(p, h)
	if short && m.prop == "C06" {
		return pbt.Failf("C06/budget-short", "pool %s: recorded budget cannot cover the release at h=%d", p.id, h)
	}
	e := chain.NewExpect()
	m.expectRelease(e, rel)
	started := p.started(h)
	base := p.start
	if started {
		base = h
	}
	var av, rt []*big.Int
	for _, r := range p.rules {
		t := topup[r.denom]
		if t == nil {
			t = new(big.Int)
		}
		if t.Sign() > 0 {
			e.Move(u.Addr, farmAddr, r.denom, t)
		}
		r.total.Add(r.total, t)
		r.remaining.Add(r.remaining, t)
		a := cp(r.total)
		if started {
			// what the old rate still needs until the old end height, plus the top-up
			a = new(big.Int).Add(new(big.Int).Mul(r.rate, bi(p.end-h)), t)
		}
		if nr := newRate[r.denom]; nr != nil {
			r.rate = cp(nr)
		}
		av = append(av, a)
		rt = append(rt, r.rate)
	}
	oldEnd := p.end
	if end, ok := endFor(base, av, rt); ok {
		p.end = end
	}
	if m.prop == "C06" && o.Rev && len(rpb) > 1 {
		if resp, err := m.c.E.K.Farm.FarmPool(context.Context(m.c.Ctx), &farmtypes.QueryFarmPoolRequest{Id: p.id}); err == nil {
			for _, r := range p.rules {
				if g := resp.Pool.RewardPerBlock.AmountOf(r.denom).BigInt(); g.Cmp(r.rate) != 0 {
					return pbt.Failf("C06/adjust-unsorted-coins", "h=%d adjust of pool %s with rates %s (descending denom order) accepted, but %s's rate is %s, requested %s", h, p.id, rpb, r.denom, g, r.rate)
				}
			}
		}
	}
	if m.prop == "C06" {
		if resp, err := m.c.E.K.Farm.FarmPool(context.Context(m.c.Ctx), &farmtypes.QueryFarmPoolRequest{Id: p.id}); err == nil && resp.Pool.EndHeight != p.end {
			sig := "C06/adjust-end-height"
			if h == oldEnd {
				sig = "C06/adjust-at-end-height"
			}
			return pbt.Failf(sig, "h=%d adjust %+v of pool %s (old end %d): recorded end height %d, budgets and rates give %d (%s)", h, o, p.id, oldEnd, resp.Pool.EndHeight, p.end, m.describe(p))
		}
	}
	m.nAdjDestroy++
	m.class("adjust")
	if m.prop == "C06" {
		return m.checkDelta("adjust", before, e)
	}
	return nil
}

func endOf(p *mpool) interface{} {
	if p == nil {
		return nil
	}
	return p.end
}

func (m *machine) applyDestroy(o fop) error {
	u := m.user(o.Who)
	p := m.pool(o.Pool)
	h := m.c.Height()
	mustReject := p == nil || o.Who != p.creator || !p.editable || p.expired(h)
	before := m.c.Snapshot()
	res := m.c.Deliver(&farmtypes.MsgDestroyPool{PoolId: poolID(o.Pool), Creator: u.Addr.String()})
	if res.Outcome == chain.Panicked {
		if m.prop == "C05" {
			m.class("destroy-panicked")
			return nil
		}
		return pbt.Failf(m.sig("destroy-panicked"), "%v", res)
	}
	if mustReject {
		if res.Outcome == chain.OK {
			return pbt.Failf(m.sig("unauthorized-destroy-accepted"), "h=%d %+v", h, o)
		}
		m.class("destroy-rejected")
		if p != nil && o.Who != p.creator {
			m.class("stranger-rejected")
		}
		return nil
	}
	if res.Outcome != chain.OK {
		// the code refuses to destroy a pool whose budgets are all used up (nothing to refund)
		allZero := true
		for _, r := range p.rules {
			need := new(big.Int)
			if h > p.last && p.total.Sign() > 0 {
				need.Mul(r.rate, bi(h-p.last))
			}
			if r.remaining.Cmp(need) != 0 {
				allZero = false
			}
		}
		if allZero {
			m.class("destroy-rejected")
			return nil
		}
		return m.soft("destroy", res)
	}
	m.boundaryClass(p, h)
	rel, short := m.accrue(p, h)
	if short && m.prop == "C06" {
		return pbt.Failf("C06/budget-short", "pool %s: recorded budget cannot cover the release at h=%d", p.id, h)
	}
	e := chain.NewExpect()
	m.expectRelease(e, rel)
	for d, a := range p.refundAll() {
		e.Move(farmAddr, u.Addr, d, a)
	}
	p.end = h
	if p.start > h {
		p.start = h
	}
	m.nAdjDestroy++
	m.class("destroy")
	if m.prop == "C06" {
		return m.checkDelta("destroy", before, e)
	}
	return nil
}

// applyBlock: end block of the current height (pools whose end height is now hand back their budget), then the
// next height begins.
func (m *machine) applyBlock() error { return m.applyBlockOpt(false) }

// reimportHazard names the known genesis-validation defect the current state would run into (empty = none).
func (m *machine) reimportHazard() string {
	for _, p := range m.pools {
		for _, k := range p.farmerIdx() {
			if f := p.farmers[k]; f.exists && f.stake.Sign() == 0 {
				return "reimport-zero-stake-record"
			}
		}
	}
	for _, p := range m.pools {
		stored, ok := m.c.E.K.Farm.GetPool(m.c.Ctx, p.id)
		if !ok || stored.EndHeight == stored.LastHeightDistrRewards {
			continue
		}
		for _, r := range m.c.E.K.Farm.GetRewardRules(m.c.Ctx, p.id) {
			if !r.RewardPerShare.IsPositive() && !r.RemainingReward.Equal(r.TotalReward) {
				return "reimport-zero-reward-per-share"
			}
		}
	}
	return ""
}

// applyBlockOpt: end block of the current height, next height; with restart the farm module is exported, its
// store wiped and the export imported at the new height before its begin block - what a chain restart from an
// exported genesis with initial height h+1 does to this module (bank and the other modules keep their state).
func (m *machine) applyBlockOpt(restart bool) error {
	h := m.c.Height()
	before := m.c.Snapshot()
	e := chain.NewExpect()
	for _, p := range m.pools {
		if p.end == h && !p.refunded {
			rel, short := m.accrue(p, h)
			if short && m.prop == "C06" {
				return pbt.Failf("C06/budget-short", "pool %s: recorded budget cannot cover the release at its end height %d", p.id, h)
			}
			m.expectRelease(e, rel)
			m.refundTo(e, p, p.refundAll())
			if !m.inFinish {
				m.endedInHist++
			}
			m.class("pool-ended")
		}
	}
	end := m.c.EndBlock()
	m.c.Advance(5*time.Second, nil)
	if restart {
		hz := m.reimportHazard()
		skip := (hz == "reimport-zero-stake-record" && m.avoidZeroStake) || (hz == "reimport-zero-reward-per-share" && m.avoidZeroRPS)
		atEnd := false
		for _, p := range m.pools {
			if !p.refunded && p.end == h+1 {
				atEnd = true
			}
		}
		inject := m.pendingInject
		m.pendingInject = nil
		if inject != nil {
			// the genesis that is imported additionally contains a community pool farm starting at the new height
			viaSetters := skip || (atEnd && m.avoidRestartAtEnd)
			if err := m.injectPool(inject, viaSetters, hz); err != nil {
				return err
			}
			m.pools = append(m.pools, inject)
			if len(m.pools) >= 10 {
				m.class("pools>=10")
			}
		}
		switch {
		case skip:
			m.class("skipped:" + m.sig(hz))
		case atEnd && m.avoidRestartAtEnd:
			m.class("skipped:" + m.sig("restart-at-end-height"))
		default:
			var stage string
			var err error
			if inject == nil {
				if m.editGenesis {
					// the exported file edited by hand: a blank after every address (a spelling the module's validation
					// is expected to refuse - then the export is imported as it is; if it is accepted, the history goes on
					// and every clause holds for the accounts meant)
					m.c.GenesisEdit = func(_ string, exported json.RawMessage) json.RawMessage {
						return farmAddrRe.ReplaceAll(exported, []byte(`"$1":"$2 "`))
					}
				}
				ei, er := m.c.EditedImports, m.c.EditedRefused
				_, stage, err = m.c.Reimport(farmtypes.ModuleName)
				m.c.GenesisEdit = nil
				if m.c.EditedImports > ei {
					m.class("restart-from-a-genesis-with-blanks-after-addresses")
				}
				if m.c.EditedRefused > er {
					m.class("genesis-with-blanks-after-addresses-refused")
				}
			}
			if err != nil {
				what := "reimport-" + stage
				if hz != "" && stage == "import" {
					what = hz
				}
				return pbt.Failf(m.sig(what), "farm genesis round trip at h=%d (%d pools): %v", h+1, len(m.pools), err)
			}
			m.class("restart")
			live, staked, rps := false, false, false
			for _, p := range m.pools {
				if !p.refunded {
					live = true
					if p.total.Sign() > 0 {
						staked = true
						for _, r := range p.rules {
							if r.released.Sign() > 0 {
								rps = true
							}
						}
					}
				}
				if p.creator == communityCreator && !p.refunded {
					m.class("restart-with-community-pool-farm")
				}
			}
			if live {
				m.class("restart-with-live-pool")
			}
			if staked && rps {
				m.class("restart-with-accrued-rewards")
			}
			if atEnd {
				m.class("restart-at-end-height")
			}
			// a pool whose end height is the first height of the restarted chain must still be running
			for _, p := range m.pools {
				if p.refunded || p.end != h+1 {
					continue
				}
				resp, err := m.c.E.K.Farm.FarmPool(context.Context(m.c.Ctx), &farmtypes.QueryFarmPoolRequest{Id: p.id})
				if err == nil && resp.Pool.Expired && m.prop == "C06" {
					return pbt.Failf("C06/restart-at-end-height", "pool %s ends at height %d, the first height after the farm genesis was imported: it is reported expired and is not in the expiry queue (its remaining budget will never be handed back)", p.id, h+1)
				}
			}
		}
	}
	begin := m.c.BeginBlock()
	if end.Outcome != chain.OK || begin.Outcome != chain.OK {
		return pbt.Failf(m.sig("block-hook"), "h=%d end=%v begin=%v", h, end, begin)
	}
	if m.prop == "C06" {
		return m.checkDelta("block", before, e)
	}
	return nil
}

// applyParams: MsgUpdateParams by the authority (or by somebody else: must be refused).
func (m *machine) applyParams(o fop) error {
	fee := parseAmt(o.Fee)
	taxDec, derr := sdkmath.LegacyNewDecFromStr(o.Tax)
	if derr != nil || o.FeeD == "" || o.MaxRD < 0 {
		return nil
	}
	auth := m.c.E.Gov.String()
	if o.Who != 0 {
		auth = m.user(o.Who).Addr.String()
	}
	valid := o.Who == 0 && taxDec.IsPositive() && taxDec.LT(sdkmath.LegacyOneDec())
	res := m.c.Deliver(&farmtypes.MsgUpdateParams{Authority: auth, Params: farmtypes.Params{
		PoolCreationFee: coin(o.FeeD, fee), MaxRewardCategories: uint32(o.MaxRD), TaxRate: taxDec}})
	if res.Outcome == chain.Panicked {
		return pbt.Failf(m.sig("params-panicked"), "%+v: %v", o, res)
	}
	if !valid {
		if res.Outcome == chain.OK {
			return pbt.Failf(m.sig("invalid-params-accepted"), "%+v", o)
		}
		m.class("params-rejected")
		return nil
	}
	if res.Outcome != chain.OK {
		return m.soft("params", res)
	}
	m.fee, m.feeD, m.maxRD = fee, o.FeeD, o.MaxRD
	m.tax = taxOf(fee, taxDec.String())
	m.class("params-changed")
	prod := new(big.Rat)
	if tr, ok := new(big.Rat).SetString(taxDec.String()); ok {
		prod.Mul(new(big.Rat).SetInt(fee), tr)
	}
	if !prod.IsInt() {
		m.class("params-fractional-tax")
	}
	for _, p := range m.pools {
		if !p.refunded && len(p.rules) > o.MaxRD {
			m.class("params-max-categories-below-live-pool")
			m.lowCat = true
		}
	}
	return nil
}

// applyCommunityPool creates a farm pool whose creator is the community pool (distribution module account).
// Denoms[0] is applied for out of the community pool; with Edit set, Denoms[1] is the proposer's (U1) self bond.
//   - route "handler" / "refund" (needs farm's escrow_collector module account, registered by the verif build tag):
//     the escrow step of MsgCreatePoolWithCommunityPool (FeePool debit, distribution -> escrow_collector, self bond ->
//     escrow_collector, escrow info) followed by what gov does for a passed proposal (the legacy content handler =
//     HandleCreateFarmProposal) or for a failed one (gov hook -> refund of the escrow). The message itself is only
//     probed on a branch: the depinject wiring of the farm module registers neither its legacy proposal route nor its
//     gov hooks, so gov refuses the proposal ("no handler exists for proposal type").
//   - route "genesis" (fallback without the account): the budget leaves the community pool (FeePool debited, coins to
//     the farm account) and the pool is added to the farm module's exported genesis, which is imported again.
func (m *machine) applyCommunityPool(o fop) error {
	if len(o.Denoms) == 0 || len(o.Rates) != len(o.Denoms) || len(o.Totals) != len(o.Denoms) || len(m.lpts) == 0 || len(o.Denoms) > 2 {
		return nil
	}
	var rates, totals []*big.Int
	for i := range o.Denoms {
		rates = append(rates, parseAmt(o.Rates[i]))
		totals = append(totals, parseAmt(o.Totals[i]))
		if rates[i].Sign() <= 0 || totals[i].Cmp(rates[i]) < 0 || !new(big.Int).Quo(totals[i], rates[i]).IsInt64() {
			return nil
		}
	}
	rc, ok1 := sortedCoins(o.Denoms, rates)
	tc, ok2 := sortedCoins(o.Denoms, totals)
	if !ok1 || !ok2 {
		return nil
	}
	ac, sc := tc, sdk.Coins(nil) // applied out of the community pool / self bond
	if len(o.Denoms) == 2 && o.Edit {
		ac = sdk.Coins{coin(o.Denoms[0], totals[0])}
		sc = sdk.Coins{coin(o.Denoms[1], totals[1])}
	}
	route := o.Route
	if route != "genesis" && !m.hasEscrow {
		m.class("skipped:escrow-collector-not-registered")
		route = "genesis"
	}
	c := m.c
	u0, u1 := m.user(0), m.user(1)
	h := c.Height()
	lpt := m.lpts[o.Lpt%len(m.lpts)]
	before := c.Snapshot()
	bump := func(cs sdk.Coins, sign int64) {
		for _, co := range cs {
			if _, ok := m.cpool[co.Denom]; !ok {
				m.cpool[co.Denom] = new(big.Int)
			}
			m.cpool[co.Denom].Add(m.cpool[co.Denom], new(big.Int).Mul(co.Amount.BigInt(), bi(sign)))
		}
	}
	// a donor funds the community pool with what will be applied for
	if r := c.Deliver(&distrtypes.MsgFundCommunityPool{Amount: ac, Depositor: u0.Addr.String()}); r.Outcome != chain.OK {
		return pbt.Failf("harness/fund-community-pool", "%v", r)
	}
	bump(ac, 1)
	if m.hasEscrow && !m.probedMsg {
		// the message route, on a branch: refused by gov for lack of a legacy route in this application
		m.probedMsg = true
		r := c.Branch().Deliver(&farmtypes.MsgCreatePoolWithCommunityPool{
			Content:        farmtypes.CommunityPoolCreateFarmProposal{Title: "t", Description: "d", PoolDescription: "p", LptDenom: lpt, RewardPerBlock: rc, FundApplied: ac, FundSelfBond: sc},
			InitialDeposit: sdk.Coins{coin("stake", bi(1000))}, Proposer: u1.Addr.String()})
		if r.Outcome == chain.OK {
			m.class("community-pool-msg-accepted")
		} else {
			m.class("community-pool-msg-refused")
		}
	}
	e := chain.NewExpect()
	debit := func() error {
		fp, err := c.E.App.DistrKeeper.FeePool.Get(c.Ctx)
		if err != nil {
			return err
		}
		rest, neg := fp.CommunityPool.SafeSub(sdk.NewDecCoinsFromCoins(ac...))
		if neg {
			return fmt.Errorf("community pool short")
		}
		fp.CommunityPool = rest
		bump(ac, -1)
		return c.E.App.DistrKeeper.FeePool.Set(c.Ctx, fp)
	}
	newPool := func() *mpool {
		p := &mpool{id: poolID(len(m.pools)), creator: communityCreator, lpt: lpt, start: h, editable: false, total: new(big.Int), farmers: map[int]*mfarmer{}}
		var av, rt []*big.Int
		for _, co := range tc {
			p.rules = append(p.rules, &mrule{denom: co.Denom, total: co.Amount.BigInt(), remaining: co.Amount.BigInt(), rate: rc.AmountOf(co.Denom).BigInt(), released: new(big.Int)})
			av = append(av, co.Amount.BigInt())
			rt = append(rt, rc.AmountOf(co.Denom).BigInt())
		}
		p.end, _ = endFor(h, av, rt)
		return p
	}
	created := func(p *mpool) {
		for _, co := range ac {
			e.Move(u0.Addr, farmAddr, co.Denom, co.Amount.BigInt())
		}
		for _, co := range sc {
			e.Move(u1.Addr, farmAddr, co.Denom, co.Amount.BigInt())
		}
		m.pools = append(m.pools, p)
		if len(m.pools) >= 10 {
			m.class("pools>=10")
		}
		if len(sc) > 0 {
			m.class("community-pool-farm-with-self-bond")
		}
	}
	if err := debit(); err != nil {
		return pbt.Failf("harness/community-pool", "%v", err)
	}
	switch route {
	case "genesis":
		if err := c.E.App.BankKeeper.SendCoinsFromModuleToModule(c.Ctx, "distribution", farmtypes.ModuleName, ac); err != nil {
			return pbt.Failf("harness/community-pool", "%v", err)
		}
		if len(sc) > 0 {
			if err := c.E.App.BankKeeper.SendCoinsFromAccountToModule(c.Ctx, u1.Addr, farmtypes.ModuleName, sc); err != nil {
				return pbt.Failf("harness/community-pool", "%v", err)
			}
		}
		// the pool appears with the next block: the chain restarts from a genesis that contains it
		p := newPool()
		p.start++
		p.end++
		for _, co := range ac {
			e.Move(u0.Addr, farmAddr, co.Denom, co.Amount.BigInt())
		}
		for _, co := range sc {
			e.Move(u1.Addr, farmAddr, co.Denom, co.Amount.BigInt())
		}
		if len(sc) > 0 {
			m.class("community-pool-farm-with-self-bond")
		}
		m.class("community-pool-farm-by-genesis")
		if m.prop == "C06" {
			if err := m.checkDelta("cpool", before, e); err != nil {
				return err
			}
		}
		m.pendingInject = p
		return m.applyBlockOpt(true)
	default:
		if err := c.E.App.BankKeeper.SendCoinsFromModuleToModule(c.Ctx, "distribution", farmtypes.EscrowCollector, ac); err != nil {
			return pbt.Failf("harness/community-pool", "%v", err)
		}
		if len(sc) > 0 {
			if err := c.E.App.BankKeeper.SendCoinsFromAccountToModule(c.Ctx, u1.Addr, farmtypes.EscrowCollector, sc); err != nil {
				return pbt.Failf("harness/community-pool", "%v", err)
			}
		}
		m.nextProp++
		c.E.K.Farm.SetEscrowInfo(c.Ctx, farmtypes.EscrowInfo{Proposer: u1.Addr.String(), FundApplied: ac, FundSelfBond: sc, ProposalId: m.nextProp})
		if route == "handler" {
			prop := &farmtypes.CommunityPoolCreateFarmProposal{Title: "t", Description: "d", PoolDescription: "p", LptDenom: lpt, RewardPerBlock: rc, FundApplied: ac, FundSelfBond: sc}
			if err := prop.ValidateBasic(); err != nil {
				return pbt.Failf("harness/community-pool", "proposal invalid: %v", err)
			}
			cctx, write := c.Ctx.CacheContext()
			if err := c.E.K.Farm.HandleCreateFarmProposal(cctx, prop); err != nil {
				return pbt.Failf(m.sig("community-pool-proposal-failed"), "h=%d %v", h, err)
			}
			write()
			created(newPool())
			m.class("community-pool-farm-by-proposal")
		} else {
			// the proposal fails (minimum deposit not reached / voted down): gov calls the farm hook, which hands the
			// escrow back: self bond to the proposer, the applied funds to the community pool
			farmkeeper.NewGovHook(c.E.K.Farm).AfterProposalFailedMinDeposit(c.Ctx, m.nextProp)
			for _, co := range ac {
				e.Move(u0.Addr, distrAddr, co.Denom, co.Amount.BigInt())
			}
			bump(ac, 1)
			if _, still := c.E.K.Farm.GetEscrowInfo(c.Ctx, m.nextProp); still && m.prop == "C06" {
				return pbt.Failf("C06/escrow-not-refunded", "escrow info of the failed proposal %d still present", m.nextProp)
			}
			m.class("community-pool-escrow-refunded")
		}
	}
	if m.prop == "C06" {
		return m.checkDelta("cpool", before, e)
	}
	return nil
}

// injectPool appends a pool to the farm module's exported genesis and imports the result.
func (m *machine) injectPool(p *mpool, viaSetters bool, hz string) (err error) {
	c := m.c
	defer func() {
		if r := recover(); r != nil {
			what := "reimport-import"
			if hz != "" {
				what = hz
			}
			err = pbt.Failf(m.sig(what), "farm genesis with an added community pool farm refused: %v", r)
		}
	}()
	if viaSetters {
		// the round trip itself would fail for a known reason: write the pool with the keeper's setters instead
		fp := farmtypes.FarmPool{Id: p.id, Creator: distrAddr.String(), Description: "p", StartHeight: p.start, EndHeight: p.end,
			TotalLptLocked: sdk.NewCoin(p.lpt, sdkmath.ZeroInt())}
		for _, r := range p.rules {
			c.E.K.Farm.SetRewardRule(c.Ctx, p.id, farmtypes.RewardRule{Reward: r.denom, TotalReward: gen.ToInt(r.total), RemainingReward: gen.ToInt(r.total),
				RewardPerBlock: gen.ToInt(r.rate), RewardPerShare: sdkmath.LegacyZeroDec()})
		}
		c.E.K.Farm.SetPool(c.Ctx, fp)
		c.E.K.Farm.EnqueueActivePool(c.Ctx, p.id, p.end)
		c.E.K.Farm.SetSequence(c.Ctx, c.E.K.Farm.GetSequence(c.Ctx)+1)
		return nil
	}
	mod := c.E.App.ModuleManager.Modules[farmtypes.ModuleName].(interface {
		InitGenesis(sdk.Context, codec.JSONCodec, json.RawMessage) []abci.ValidatorUpdate
		ExportGenesis(sdk.Context, codec.JSONCodec) json.RawMessage
	})
	cdc := c.E.App.AppCodec()
	var gs farmtypes.GenesisState
	cdc.MustUnmarshalJSON(mod.ExportGenesis(c.Ctx, cdc), &gs)
	fp := farmtypes.FarmPool{Id: p.id, Creator: distrAddr.String(), Description: "p", StartHeight: p.start, EndHeight: p.end,
		TotalLptLocked: sdk.NewCoin(p.lpt, sdkmath.ZeroInt())}
	for _, r := range p.rules {
		fp.Rules = append(fp.Rules, farmtypes.RewardRule{Reward: r.denom, TotalReward: gen.ToInt(r.total), RemainingReward: gen.ToInt(r.total),
			RewardPerBlock: gen.ToInt(r.rate), RewardPerShare: sdkmath.LegacyZeroDec()})
	}
	gs.Pools = append(gs.Pools, fp)
	gs.Sequence++
	for _, k := range c.E.App.GetStoreKeys() {
		if kv, ok := k.(*storetypes.KVStoreKey); ok && kv.Name() == farmtypes.StoreKey {
			st := c.Ctx.KVStore(kv)
			var keys [][]byte
			it := st.Iterator(nil, nil)
			for ; it.Valid(); it.Next() {
				keys = append(keys, append([]byte{}, it.Key()...))
			}
			it.Close()
			for _, key := range keys {
				st.Delete(key)
			}
		}
	}
	mod.InitGenesis(c.Ctx, cdc, cdc.MustMarshalJSON(&gs))
	return nil
}

// ---------------------------------------------------------------------------------------------
// observation and the per-step oracle

func (m *machine) farmerQuery(c *chain.Case, who int, p *mpool) (*big.Int, sdk.Coins, error) {
	resp, err := c.E.K.Farm.Farmer(context.Context(c.Ctx), &farmtypes.QueryFarmerRequest{Farmer: m.user(who).Addr.String(), PoolId: p.id})
	if err != nil {
		return nil, nil, err
	}
	if len(resp.List) != 1 {
		return nil, nil, fmt.Errorf("farmer query returned %d entries", len(resp.List))
	}
	return resp.List[0].Locked.Amount.BigInt(), resp.List[0].PendingReward, nil
}

func (m *machine) checkAll() error {
	c := m.c
	h := c.Height()
	// recorded farmer stakes straight from the store (catches records of anybody, not only the universe's farmers)
	recSum := map[string]*big.Int{}
	recBy := map[string]*big.Int{} // pool|address
	_, vals := c.RawStore(farmtypes.StoreKey, farmtypes.FarmerKey)
	for _, v := range vals {
		var fi farmtypes.FarmInfo
		if err := c.E.App.AppCodec().Unmarshal(v, &fi); err != nil {
			return pbt.Failf("harness/decode", "farm info: %v", err)
		}
		if _, ok := recSum[fi.PoolId]; !ok {
			recSum[fi.PoolId] = new(big.Int)
		}
		recSum[fi.PoolId].Add(recSum[fi.PoolId], fi.Locked.BigInt())
		recBy[fi.PoolId+"|"+fi.Address] = fi.Locked.BigInt()
	}
	wantModule := map[string]*big.Int{}
	addTo := func(mm map[string]*big.Int, d string, a *big.Int) {
		if _, ok := mm[d]; !ok {
			mm[d] = new(big.Int)
		}
		mm[d].Add(mm[d], a)
	}
	pendingSum := map[string]*big.Int{}
	for _, p := range m.pools {
		resp, err := c.E.K.Farm.FarmPool(context.Context(c.Ctx), &farmtypes.QueryFarmPoolRequest{Id: p.id})
		if err != nil || resp.Pool == nil {
			return pbt.Failf(m.sig("pool-query-failed"), "pool %s: %v", p.id, err)
		}
		en := resp.Pool
		recTotal := en.TotalLptLocked.Amount.BigInt()
		stored, _ := c.E.K.Farm.GetPool(c.Ctx, p.id)
		if m.prop == "C05" {
			if en.TotalLptLocked.Denom != p.lpt || recTotal.Cmp(p.total) != 0 {
				return pbt.Failf("C05/pool-total", "h=%d pool %s records total %s, stakes made add up to %s%s", h, p.id, en.TotalLptLocked, p.total, p.lpt)
			}
			sum := recSum[p.id]
			if sum == nil {
				sum = new(big.Int)
			}
			if sum.Cmp(recTotal) != 0 {
				return pbt.Failf("C05/stake-sum", "h=%d pool %s: farmers' recorded stakes add up to %s, recorded total %s", h, p.id, sum, recTotal)
			}
			for _, k := range p.farmerIdx() {
				f := p.farmers[k]
				rec := recBy[p.id+"|"+m.user(k).Addr.String()]
				if rec == nil {
					rec = new(big.Int)
				}
				if rec.Cmp(f.stake) != 0 {
					return pbt.Failf("C05/stake-record", "h=%d pool %s farmer %d: recorded stake %s, staked-unstaked = %s", h, p.id, k, rec, f.stake)
				}
			}
			// the budgets are C06's subject: adopt what the code records
			p.start, p.end, p.last = en.StartHeight, en.EndHeight, stored.LastHeightDistrRewards
			p.refunded = en.Expired || p.refunded
			for _, r := range p.rules {
				r.total = en.TotalReward.AmountOf(r.denom).BigInt()
				r.remaining = en.RemainingReward.AmountOf(r.denom).BigInt()
				r.rate = en.RewardPerBlock.AmountOf(r.denom).BigInt()
			}
		} else {
			if en.StartHeight != p.start || en.Editable != p.editable || en.Creator != m.creatorAddr(p).String() {
				return pbt.Failf("C06/pool-fields", "h=%d pool %s: start %d editable %v, expected start %d editable %v", h, p.id, en.StartHeight, en.Editable, p.start, p.editable)
			}
			if en.EndHeight != p.end {
				return pbt.Failf("C06/end-height", "h=%d pool %s: recorded end height %d, budgets and rates give %d (%s)", h, p.id, en.EndHeight, p.end, m.describe(p))
			}
			if en.Expired != p.expired(h) {
				return pbt.Failf("C06/expired-flag", "h=%d pool %s: expired=%v, expected %v (end %d)", h, p.id, en.Expired, p.expired(h), p.end)
			}
			if recTotal.Cmp(p.total) != 0 {
				return pbt.Failf("C06/pool-total", "h=%d pool %s records total %s, expected %s", h, p.id, recTotal, p.total)
			}
			if len(en.TotalReward) > len(p.rules) || len(en.RewardPerBlock) != len(p.rules) {
				return pbt.Failf("C06/rule-set", "pool %s: rules %s / %s", p.id, en.TotalReward, en.RewardPerBlock)
			}
			for _, r := range p.rules {
				gt, gr, gp := en.TotalReward.AmountOf(r.denom).BigInt(), en.RemainingReward.AmountOf(r.denom).BigInt(), en.RewardPerBlock.AmountOf(r.denom).BigInt()
				if gt.Cmp(r.total) != 0 {
					return pbt.Failf("C06/budget-total", "h=%d pool %s %s: recorded total %s, funded %s", h, p.id, r.denom, gt, r.total)
				}
				if gr.Cmp(r.remaining) != 0 {
					return pbt.Failf("C06/budget-remaining", "h=%d pool %s %s: recorded remaining %s, funded %s - released %s - refunded %v = %s", h, p.id, r.denom, gr, r.total, r.released, r.refund, r.remaining)
				}
				if gp.Cmp(r.rate) != 0 {
					return pbt.Failf("C06/rate", "h=%d pool %s %s: recorded rate %s, expected %s", h, p.id, r.denom, gp, r.rate)
				}
				// budget identity of the model itself (guards the model)
				id := new(big.Int).Add(r.remaining, r.released)
				if r.refund != nil {
					id.Add(id, r.refund)
				}
				if id.Cmp(r.total) != 0 {
					return pbt.Failf("harness/model-identity", "pool %s %s", p.id, r.denom)
				}
			}
		}
		addTo(wantModule, p.lpt, recTotal)
		for _, c := range en.RemainingReward {
			addTo(wantModule, c.Denom, c.Amount.BigInt())
		}
		// per farmer: pending reward, tolerance
		for _, k := range p.farmerIdx() {
			f := p.farmers[k]
			if !f.exists {
				if m.prop == "C06" {
					if err := m.tolerance(p, k, f, nil); err != nil {
						return err
					}
				}
				continue
			}
			locked, pend, err := m.farmerQuery(c, k, p)
			if err != nil {
				if m.prop == "C06" {
					return pbt.Failf("C06/farmer-query-failed", "h=%d pool %s farmer %d: %v", h, p.id, k, err)
				}
				continue
			}
			if locked.Cmp(f.stake) != 0 {
				return pbt.Failf(m.sig("stake-query"), "h=%d pool %s farmer %d: query says %s staked, expected %s", h, p.id, k, locked, f.stake)
			}
			for _, c := range pend {
				addTo(pendingSum, c.Denom, c.Amount.BigInt())
			}
			if m.prop == "C06" {
				if err := m.tolerance(p, k, f, pend); err != nil {
					return err
				}
			}
		}
	}
	if m.prop == "C06" {
		// community pool record: credited with the remaining budget of community pool farms, exactly once
		fp, err := c.E.App.DistrKeeper.FeePool.Get(c.Ctx)
		if err != nil {
			return pbt.Failf("harness/fee-pool", "%v", err)
		}
		seen := map[string]bool{}
		for _, dc := range fp.CommunityPool {
			seen[dc.Denom] = true
			w := m.cpool[dc.Denom]
			if w == nil {
				w = new(big.Int)
			}
			if !dc.Amount.IsInteger() || dc.Amount.TruncateInt().BigInt().Cmp(w) != 0 {
				return pbt.Failf("C06/community-pool-record", "h=%d community pool holds %s%s, expected %s (donations - budgets applied for + budgets returned)", h, dc.Amount, dc.Denom, w)
			}
		}
		for d, w := range m.cpool {
			if !seen[d] && w.Sign() != 0 {
				return pbt.Failf("C06/community-pool-record", "h=%d community pool holds no %s, expected %s", h, d, w)
			}
		}
	}
	if m.prop == "C05" {
		got := map[string]*big.Int{}
		for _, co := range c.E.App.BankKeeper.GetAllBalances(c.Ctx, farmAddr) {
			got[co.Denom] = co.Amount.BigInt()
		}
		for d, w := range wantModule {
			g := got[d]
			if g == nil {
				g = new(big.Int)
			}
			if g.Cmp(w) != 0 {
				return pbt.Failf("C05/module-account-equation", "h=%d farm account holds %s%s, recorded stakes + remaining budgets = %s", h, g, d, w)
			}
		}
		for d, g := range got {
			if _, ok := wantModule[d]; !ok && g.Sign() != 0 {
				return pbt.Failf("C05/module-account-equation", "h=%d farm account holds %s%s, nothing recorded", h, g, d)
			}
		}
		// scheduling only: when the collector cannot cover what the queries promise, a full withdrawal must fail
		// for somebody - run the withdrawal epilogue right now instead of waiting for the generator to ask for it
		if !m.triggeredEpi {
			// the queries include the release a real operation would first make
			virt := map[string]*big.Int{}
			for _, p := range m.pools {
				if !p.expired(h) && h > p.last && p.total.Sign() > 0 {
					for _, r := range p.rules {
						addTo(virt, r.denom, new(big.Int).Mul(r.rate, bi(h-p.last)))
					}
				}
			}
			for _, d := range sortedKeys(pendingSum) {
				s := pendingSum[d]
				have := c.Balance(collectorAddr, d).BigInt()
				if v, ok := virt[d]; ok {
					have.Add(have, v)
				}
				if have.Cmp(s) < 0 {
					m.triggeredEpi = true
					m.class("collector-below-pending")
					if err := m.epilogue(0); err != nil {
						return err
					}
					break
				}
			}
		}
	}
	return nil
}

func sortedKeys(mm map[string]*big.Int) []string {
	var ks []string
	for k := range mm {
		ks = append(ks, k)
	}
	sort.Strings(ks)
	return ks
}

func (m *machine) describe(p *mpool) string {
	var s []string
	for _, r := range p.rules {
		s = append(s, fmt.Sprintf("%s total %s remaining %s rate %s", r.denom, r.total, r.remaining, r.rate))
	}
	return fmt.Sprintf("start %d last %d staked %s; %s", p.start, p.last, p.total, strings.Join(s, "; "))
}

// tolerance: cumulative payout + pending differs from the exact stake-time share by less than
// (interactions+1) base units, plus (downwards only) the 10^-18*stake truncation of the per-share accumulator
// per accrual event.
func (m *machine) tolerance(p *mpool, k int, f *mfarmer, pend sdk.Coins) error {
	for _, r := range p.rules {
		got := new(big.Int)
		if v, ok := f.paid[r.denom]; ok {
			got.Add(got, v)
		}
		got.Add(got, pend.AmountOf(r.denom).BigInt())
		exact := f.exact[r.denom]
		if exact == nil {
			exact = new(big.Rat)
		}
		exact = new(big.Rat).Set(exact)
		units := cp(f.units)
		// the pending amount of the query includes the blocks since the last accrual
		if h := m.c.Height(); pend != nil && !p.expired(h) && h > p.last && p.total.Sign() > 0 && f.stake.Sign() > 0 {
			amt := new(big.Int).Mul(r.rate, bi(h-p.last))
			exact.Add(exact, new(big.Rat).SetFrac(new(big.Int).Mul(f.stake, amt), p.total))
			units.Add(units, f.stake)
		}
		diff := new(big.Rat).Sub(new(big.Rat).SetInt(got), exact)
		up := new(big.Rat).SetInt64(int64(f.inter + 1))
		lo := new(big.Rat).Add(up, new(big.Rat).SetFrac(units, ten18))
		lo.Neg(lo)
		if diff.Cmp(up) >= 0 || diff.Cmp(lo) <= 0 {
			return pbt.Failf("C06/pro-rata-share", "h=%d pool %s farmer %d %s: paid+pending %s, exact share %s (diff %s), %d interactions, tolerance (%s, %s)",
				m.c.Height(), p.id, k, r.denom, got, exact.FloatString(6), diff.FloatString(6), f.inter, lo.FloatString(6), up.FloatString(0))
		}
	}
	return nil
}

// epilogue: on a branch of the current state every farmer withdraws the full recorded stake, in an order
// derived from seed; every withdrawal must succeed and return exactly the stake.
func (m *machine) epilogue(seed int) error {
	type item struct {
		p *mpool
		k int
	}
	var items []item
	for _, p := range m.pools {
		for _, k := range p.farmerIdx() {
			if p.farmers[k].exists {
				items = append(items, item{p, k})
			}
		}
	}
	if len(items) == 0 {
		return nil
	}
	// deterministic shuffle
	s := uint64(seed)*6364136223846793005 + 1442695040888963407
	for i := len(items) - 1; i > 0; i-- {
		s = s*6364136223846793005 + 1442695040888963407
		j := int((s >> 33) % uint64(i+1))
		items[i], items[j] = items[j], items[i]
	}
	b := m.c.Branch()
	for _, it := range items {
		f := it.p.farmers[it.k]
		u := m.user(it.k)
		before := b.Balance(u.Addr, it.p.lpt).BigInt()
		res := b.Deliver(&farmtypes.MsgUnstake{PoolId: it.p.id, Amount: coin(it.p.lpt, f.stake), Sender: u.Addr.String()})
		if res.Outcome != chain.OK {
			sig := m.unstakeFailSig(b, it.p, it.k)
			if res.Outcome == chain.Panicked {
				sig = "C05/unstake-panicked"
			}
			return pbt.Failf(sig, "withdrawal epilogue at h=%d: farmer %d cannot withdraw the recorded stake %s from %s (end %d, expired %v): %v",
				b.Height(), it.k, f.stake, it.p.id, it.p.end, it.p.expired(b.Height()), res)
		}
		resp := res.Resp.(*farmtypes.MsgUnstakeResponse)
		got := new(big.Int).Sub(b.Balance(u.Addr, it.p.lpt).BigInt(), before)
		got.Sub(got, resp.Reward.AmountOf(it.p.lpt).BigInt())
		if got.Cmp(f.stake) != 0 {
			return pbt.Failf("C05/unstake-amount", "withdrawal epilogue: farmer %d withdrew %s from %s and received %s", it.k, f.stake, it.p.id, got)
		}
	}
	for _, p := range m.pools {
		resp, err := b.E.K.Farm.FarmPool(context.Context(b.Ctx), &farmtypes.QueryFarmPoolRequest{Id: p.id})
		if err != nil || !resp.Pool.TotalLptLocked.Amount.IsZero() {
			return pbt.Failf("C05/total-after-full-withdrawal", "pool %s records %v staked after everybody withdrew everything (%v)", p.id, resp, err)
		}
	}
	m.nEpilogue++
	return nil
}

// Finish: withdrawal epilogue at the final state, then run every pool to its end (the refunds are checked by
// the block rule) and withdraw again, now from expired pools.
func (m *machine) Finish() error {
	m.inFinish = true
	if m.prop == "C05" {
		if err := m.epilogue(1); err != nil {
			return err
		}
	}
	for i := 0; i < 80; i++ {
		live := false
		for _, p := range m.pools {
			if !p.refunded {
				live = true
			}
		}
		if !live {
			break
		}
		if err := m.applyBlock(); err != nil {
			return err
		}
		if err := m.checkAll(); err != nil {
			return err
		}
	}
	if m.prop == "C05" {
		return m.epilogue(2)
	}
	return nil
}

func (m *machine) Classify() (bool, []string) {
	var cl []string
	for k := range m.cls {
		cl = append(cl, k)
	}
	twoFarmers := false
	for _, p := range m.pools {
		n := 0
		for _, f := range p.farmers {
			if f.ever {
				n++
			}
		}
		if n >= 2 {
			twoFarmers = true
		}
		if p.nonTerm {
			cl = append(cl, "nonterminating-per-share")
		}
	}
	if twoFarmers {
		cl = append(cl, "two-farmers")
	}
	if m.overlap {
		cl = append(cl, "overlapping-stakes")
	}
	if m.stakeChgNT > 0 {
		cl = append(cl, "stake-change-while-nonterminating")
	}
	if m.nEpilogue > 0 {
		cl = append(cl, "epilogue")
	}
	if m.endedInHist > 0 {
		cl = append(cl, "pool-ended-in-history")
	}
	sort.Strings(cl)
	// dedupe
	out := cl[:0]
	for i, c := range cl {
		if i == 0 || c != cl[i-1] {
			out = append(out, c)
		}
	}
	var nt bool
	if m.prop == "C05" {
		nt = twoFarmers && m.stakeChgNT > 0 && m.nEpilogue > 0
	} else {
		nt = m.overlap && m.nAdjDestroy > 0 && m.endedInHist > 0
	}
	return nt, out
}
