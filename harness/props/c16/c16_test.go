// Package c16 checks property C16: module parameters (coinswap, farm, htlc, service, token) change only
// through the authority, a set rejected by the module's own validation is never stored, and no accepted
// parameter set makes a message handler or a block hook abort that works under the defaults.
package c16

import (
	"fmt"
	"os"
	"testing"

	tokentypes "mods.irisnet.org/modules/token/types"

	"verifharness/chain"
	"verifharness/pbt"
)

func tokentypesParamsKey() []byte { return tokentypes.PrefixParamsKey }

func init() {
	pbt.RegisterMachine("c16-authority", newAuthority)
	pbt.RegisterMachine("c16-differential", newDiff)
}

func TestReplay(t *testing.T) { pbt.ReplayMain(t) }

// TestSmoke (development aid, VERIF_C16_SMOKE=1) prints how every catalogue operation fares on the prepared state.
func TestSmoke(t *testing.T) {
	if os.Getenv("VERIF_C16_SMOKE") == "" {
		t.Skip("VERIF_C16_SMOKE not set")
	}
	missing, stale, total := catalogueGaps()
	t.Logf("catalogue: %d methods, missing %v, stale %v", total, missing, stale)
	base := prepared()
	t.Logf("prepared state at height %d: %d farm pools, %d open HTLCs, %d active requests, %d contexts", base.Height(),
		len(farmPools(base)), len(openHTLCs(base)), len(activeRequests(base)), len(requestContexts(base)))
	ops := []cOp{
		{M: "cs.add", W: 0, D: "usdt", A: "1000"}, {M: "cs.add", W: 1, D: "btc", A: "1000"}, {M: "cs.addUni", W: 0, D: "btc", A: "1000"},
		{M: "cs.addUni", W: 0, D: "btc", A: "1000", F: true}, {M: "cs.remove", W: 0, D: "btc", K: 1}, {M: "cs.removeUni", W: 0, D: "btc", K: 1},
		{M: "cs.swap", W: 0, V: 1, D: "stake", E: "btc", A: "1000", B: "1"}, {M: "cs.swap", W: 0, V: 1, D: "btc", E: "eth", A: "100000", B: "1"},
		{M: "cs.swap", W: 0, V: 0, D: "stake", E: "btc", A: "1000000000000", B: "10", F: true},
		{M: "farm.create", W: 0, D: "btc", A: "10", B: "10", N: 1, K: 1}, {M: "farm.createCommunity", W: 0, D: "btc", A: "10", B: "10"},
		{M: "farm.stake", W: 0, K: 0, A: "10"}, {M: "farm.harvest", W: 0, K: 0}, {M: "farm.unstake", W: 0, K: 0, A: "1", N: 1},
		{M: "farm.adjust", W: 0, K: 0, A: "100", B: "20"}, {M: "farm.destroy", W: 0, K: 0},
		{M: "htlc.create", W: 0, V: 1, D: "stake", A: "10", B: "50", K: 3}, {M: "htlc.claim", W: 0, K: 0}, {M: "htlc.claim", W: 0, K: 2},
		{M: "svc.define", W: 0, D: "svc1"}, {M: "svc.bind", W: 3, D: "svc0", E: "stake", A: "10000", B: "1", N: 2},
		{M: "svc.updateBinding", W: 1, D: "svc0", E: "stake", A: "1", B: "3", N: 2}, {M: "svc.setWithdraw", W: 1, V: 2},
		{M: "svc.disable", W: 2, D: "svc0"}, {M: "svc.enable", W: 2, D: "svc0", E: "stake", A: "1"}, {M: "svc.refund", W: 2, D: "svc0"},
		{M: "svc.call", W: 0, D: "svc0", E: "stake", K: 1, A: "10", N: 2}, {M: "svc.respond", W: 1, K: 0},
		{M: "svc.pause", W: 0, K: 0}, {M: "svc.start", W: 0, K: 0}, {M: "svc.updateContext", W: 0, K: 0, E: "stake", A: "20", N: 3, B: "6"},
		{M: "svc.kill", W: 0, K: 0}, {M: "svc.withdrawEarned", W: 1},
		{M: "tok.issue", W: 0, D: "tkc", K: 6, A: "10", B: "1000", F: true}, {M: "tokb.issue", W: 0, D: "tkd", K: 6, A: "10", B: "1000", F: true},
		{M: "tok.edit", W: 0, D: "tka", B: "200000000"}, {M: "tokb.edit", W: 0, D: "tka", B: "300000000"},
		{M: "tok.mint", W: 0, V: 1, D: "tka", A: "10"}, {M: "tokb.mint", W: 0, V: 1, D: "tka", A: "10"},
		{M: "tok.burn", W: 0, D: "tka", A: "10"}, {M: "tokb.burn", W: 0, D: "tka", A: "1"},
		{M: "tok.transferOwner", W: 0, V: 2, D: "tka"}, {M: "tokb.transferOwner", W: 0, V: 0, D: "tka"},
		{M: "tok.swapFee", W: 0, V: 1, D: "tka", A: "10"}, {M: "tok.deploy", D: "tka", K: 6},
		{M: "tok.toERC20", W: 1, V: 1, D: "tkb", A: "10"}, {M: "tok.fromERC20", W: 1, V: 1, D: "tkb", A: "10"}, {M: "tok.upgrade"},
		{M: "block", N: 12, A: "5000000000"},
	}
	c := base.Branch()
	for _, o := range ops {
		r := exec(c, o)
		t.Logf("%-22s %-9s %s", o.M, r.outcome, truncate(r.detail, 150))
	}
	t.Logf("after: %d open HTLCs, %d active requests", len(openHTLCs(c)), len(activeRequests(c)))
	_ = chain.OK
}

func truncate(s string, n int) string {
	if len(s) > n {
		return s[:n]
	}
	return s
}

var _ = fmt.Sprint
