package c16

// Oracle A of C16: parameters change only through the authority, a set that the module's own
// Validate() rejects is never stored (message, bare handler, keeper-level genesis import, genesis
// validation), and a successful update stores exactly the submitted set.

import (
	"bytes"
	"fmt"
	"sort"
	"strings"
	"testing"

	storetypes "cosmossdk.io/store/types"
	sdk "github.com/cosmos/cosmos-sdk/types"
	"pgregory.net/rapid"

	"mods.irisnet.org/modules/farm"
	farmtypes "mods.irisnet.org/modules/farm/types"
	"mods.irisnet.org/modules/htlc"
	htlctypes "mods.irisnet.org/modules/htlc/types"
	"mods.irisnet.org/modules/service"
	servicetypes "mods.irisnet.org/modules/service/types"
	"mods.irisnet.org/modules/token"
	tokenv1 "mods.irisnet.org/modules/token/types/v1"

	coinswapkeeper "mods.irisnet.org/modules/coinswap/keeper"
	coinswaptypes "mods.irisnet.org/modules/coinswap/types"
	farmkeeper "mods.irisnet.org/modules/farm/keeper"
	htlckeeper "mods.irisnet.org/modules/htlc/keeper"
	servicekeeper "mods.irisnet.org/modules/service/keeper"
	tokenkeeper "mods.irisnet.org/modules/token/keeper"

	"verifharness/chain"
	"verifharness/gen"
	"verifharness/pbt"
)

type aOp struct {
	Kind   string    `json:"kind"`   // update | genesis
	Via    string    `json:"via"`    // update: deliver | handler (routed handler, as an embedding message reaches it) | msgserver (the Msg service implementation, below the router's ValidateBasic) | keeper (Keeper.SetParams)
	Sender string    `json:"sender"` // "gov" = authority, "U0".., "self" = the module's own account, "GOV" = upper-case bech32 of the authority, or a literal
	Spec   paramSpec `json:"spec"`
}

type aMachine struct {
	c     *chain.Case
	norm  map[string]string // module -> normal form the store must read back as
	raw   map[string][]byte // module -> raw params record
	seen  map[string]int
	nOps  int
	flags map[string]bool
}

var paramsKeyOf = map[string][]byte{}

func init() {
	paramsKeyOf["coinswap"] = []byte(coinswaptypes.ParamsKey)
	paramsKeyOf["farm"] = farmtypes.ParamsKey
	paramsKeyOf["htlc"] = htlctypes.ParamsKey
	paramsKeyOf["service"] = servicetypes.ParamsKey
	paramsKeyOf["token"] = tokentypesParamsKey()
}

func rawParams(c *chain.Case, module string) []byte {
	keys, vals := c.RawStore(module, paramsKeyOf[module])
	for i, k := range keys {
		if bytes.Equal(k, paramsKeyOf[module]) {
			return vals[i]
		}
	}
	return nil
}

func newAuthority() pbt.Machine[aOp] {
	c := gen.Env().NewCase()
	m := &aMachine{c: c, norm: map[string]string{}, raw: map[string][]byte{}, seen: map[string]int{}, flags: map[string]bool{}}
	for _, mod := range modules {
		m.norm[mod] = defaultSpec(mod).norm(c.E)
		m.raw[mod] = rawParams(c, mod)
	}
	return m
}

func (m *aMachine) Next(t *rapid.T) aOp {
	mod := rapid.SampledFrom(modules).Draw(t, "module")
	wild := rapid.SampledFrom([]int{0, 5, 15, 15, 40, 100}).Draw(t, "wild")
	op := aOp{Kind: "update", Spec: genSpec(t, mod, wild)}
	if rapid.IntRange(0, 9).Draw(t, "kind") < 2 {
		op.Kind = "genesis"
		return op
	}
	op.Via = rapid.SampledFrom([]string{"deliver", "deliver", "handler", "msgserver", "msgserver", "keeper"}).Draw(t, "via")
	op.Sender = rapid.SampledFrom([]string{"gov", "gov", "gov", "gov", "U0", "U1", "U4", "self", "GOV", "", "cosmos1notbech32"}).Draw(t, "sender")
	if op.Via == "keeper" {
		op.Sender = "gov" // Keeper.SetParams has no notion of a sender: it is what the authority's message ends in
	}
	return op
}

func senderAddr(E *chain.Env, module, s string) string {
	switch s {
	case "gov":
		return E.Gov.String()
	case "GOV":
		return strings.ToUpper(E.Gov.String())
	case "self":
		return chain.ModuleAddr(module).String()
	}
	return resolveAddr(E, s)
}

// direct calls the module's Msg service implementation (keeper.NewMsgServerImpl(k).UpdateParams) or Keeper.SetParams itself,
// i.e. the layers below the router's ValidateBasic, on a branch that is written only on success.
func direct(c *chain.Case, p paramSpec, authority string, keeperLevel bool) (ok bool, detail string) {
	E := c.E
	mctx, write := c.Ctx.CacheContext()
	mctx = mctx.WithEventManager(sdk.NewEventManager()).WithGasMeter(storetypes.NewInfiniteGasMeter())
	defer func() {
		if r := recover(); r != nil {
			ok, detail = false, fmt.Sprintf("panic: %v", r)
		}
	}()
	var err error
	switch p.Module {
	case "coinswap":
		if keeperLevel {
			err = E.K.Coinswap.SetParams(mctx, p.coinswap())
		} else {
			_, err = coinswapkeeper.NewMsgServerImpl(E.K.Coinswap).UpdateParams(mctx, &coinswaptypes.MsgUpdateParams{Authority: authority, Params: p.coinswap()})
		}
	case "farm":
		if keeperLevel {
			err = E.K.Farm.SetParams(mctx, p.farm())
		} else {
			_, err = farmkeeper.NewMsgServerImpl(E.K.Farm).UpdateParams(mctx, &farmtypes.MsgUpdateParams{Authority: authority, Params: p.farm()})
		}
	case "htlc":
		if keeperLevel {
			err = E.K.HTLC.SetParams(mctx, p.htlc(E))
		} else {
			_, err = htlckeeper.NewMsgServerImpl(E.K.HTLC).UpdateParams(mctx, &htlctypes.MsgUpdateParams{Authority: authority, Params: p.htlc(E)})
		}
	case "service":
		if keeperLevel {
			err = E.K.Service.SetParams(mctx, p.service())
		} else {
			_, err = servicekeeper.NewMsgServerImpl(E.K.Service).UpdateParams(mctx, &servicetypes.MsgUpdateParams{Authority: authority, Params: p.service()})
		}
	case "token":
		if keeperLevel {
			err = E.K.Token.SetParams(mctx, p.token())
		} else {
			_, err = tokenkeeper.NewMsgServerImpl(E.K.Token).UpdateParams(mctx, &tokenv1.MsgUpdateParams{Authority: authority, Params: p.token()})
		}
	}
	if err != nil {
		return false, err.Error()
	}
	write()
	return true, ""
}

// bareHandler runs the routed handler on a branch that is written only on success (what baseapp does for a message embedded
// in another message; the SDK 0.50 router calls ValidateBasic itself).
func bareHandler(c *chain.Case, msg sdk.Msg) (ok bool, detail string) {
	mctx, write := c.Ctx.CacheContext()
	mctx = mctx.WithEventManager(sdk.NewEventManager()).WithGasMeter(storetypes.NewInfiniteGasMeter())
	defer func() {
		if r := recover(); r != nil {
			ok, detail = false, fmt.Sprintf("panic: %v", r)
		}
	}()
	h := c.E.App.MsgServiceRouter().Handler(msg)
	if h == nil {
		return false, "no handler"
	}
	if _, err := h(mctx, msg); err != nil {
		return false, err.Error()
	}
	write()
	return true, ""
}

func (m *aMachine) Apply(op aOp) error {
	m.nOps++
	E := m.c.E
	mod := op.Spec.Module
	accepted, vpanic, why := op.Spec.validate(E)
	submitted := op.Spec.norm(E)
	switch op.Kind {
	case "update":
		msg := op.Spec.updateMsg(E, senderAddr(E, mod, op.Sender))
		var ok bool
		var detail string
		switch op.Via {
		case "handler":
			ok, detail = bareHandler(m.c, msg)
		case "msgserver", "keeper":
			ok, detail = direct(m.c, op.Spec, senderAddr(E, mod, op.Sender), op.Via == "keeper")
		default:
			r := m.c.Deliver(msg)
			ok, detail = r.Outcome == chain.OK, r.String()
		}
		isAuth := op.Sender == "gov"
		switch {
		case ok && !isAuth:
			return pbt.Failf("C16/non-authority-update-accepted", "%s UpdateParams from %q (via %s) succeeded: %s", mod, op.Sender, op.Via, op.Spec)
		case ok && !accepted:
			return pbt.Failf("C16/rejected-set-stored", "%s UpdateParams (via %s) succeeded with a set its Validate() rejects (%s): %s", mod, op.Via, why, op.Spec)
		case !ok && isAuth && accepted:
			return pbt.Failf("C16/accepted-set-refused", "%s UpdateParams from the authority failed (%s) although Validate() accepts the set: %s", mod, detail, op.Spec)
		}
		if ok {
			m.norm[mod] = submitted
			m.raw[mod] = rawParams(m.c, mod)
			if submitted != defaultSpec(mod).norm(E) {
				m.seen["stored-nondefault/"+mod]++
			}
			m.seen["stored/"+mod]++
		} else {
			switch {
			case !isAuth && accepted:
				m.seen["stranger-with-valid-set/"+mod]++
			case !isAuth:
				m.seen["stranger-with-invalid-set/"+mod]++
			case vpanic:
				m.seen["authority-validate-panics/"+mod]++
			default:
				m.seen["authority-rejected/"+mod]++
			}
		}
	case "genesis":
		if err := m.genesis(op, accepted, why, submitted); err != nil {
			return err
		}
	}
	// the stores read back exactly what the model says — for every module, after every operation
	for _, x := range modules {
		if got := storedNorm(m.c, x); got != m.norm[x] {
			sig := "C16/stored-differs-from-submitted"
			if x != mod {
				sig = "C16/other-module-params-changed"
			}
			return pbt.Failf(sig, "%s params read back as %s, expected %s (after %s on %s)", x, got, m.norm[x], op.Kind, mod)
		}
		if !bytes.Equal(rawParams(m.c, x), m.raw[x]) {
			return pbt.Failf("C16/params-record-changed", "%s raw params record changed without a successful authority update (after %s on %s)", x, op.Kind, mod)
		}
	}
	return nil
}

// genesis imports the module's own exported state with the generated parameter set on a throw-away branch.
func (m *aMachine) genesis(op aOp, accepted bool, why, submitted string) error {
	E := m.c.E
	mod := op.Spec.Module
	b := m.c.Branch()
	var verr error
	vpanicked := false
	var initPanic interface{}
	run := func(validate func() error, init func()) {
		func() {
			defer func() {
				if r := recover(); r != nil {
					vpanicked = true
				}
			}()
			verr = validate()
		}()
		func() {
			defer func() { initPanic = recover() }()
			init()
		}()
	}
	switch mod {
	case "coinswap":
		gs := E.K.Coinswap.ExportGenesis(b.Ctx)
		gs.Params = op.Spec.coinswap()
		run(func() error { return coinswaptypes.ValidateGenesis(gs) }, func() { E.K.Coinswap.InitGenesis(b.Ctx, gs) })
	case "farm":
		gs := farm.ExportGenesis(b.Ctx, E.K.Farm)
		gs.Params = op.Spec.farm()
		run(func() error { return farmtypes.ValidateGenesis(*gs) }, func() { farm.InitGenesis(b.Ctx, E.K.Farm, *gs) })
	case "htlc":
		gs := htlc.ExportGenesis(b.Ctx, E.K.HTLC)
		gs.Params = op.Spec.htlc(E)
		run(func() error { return htlctypes.ValidateGenesis(*gs) }, func() { htlc.InitGenesis(b.Ctx, E.K.HTLC, *gs) })
	case "service":
		gs := service.ExportGenesis(b.Ctx, E.K.Service)
		gs.Params = op.Spec.service()
		run(func() error { return servicetypes.ValidateGenesis(*gs) }, func() { service.InitGenesis(b.Ctx, E.K.Service, *gs) })
	case "token":
		gs := token.ExportGenesis(b.Ctx, E.K.Token)
		gs.Params = op.Spec.token()
		gs.Tokens, gs.BurnedCoins = nil, nil // the tokens are already in the branch (AddToken refuses duplicates)
		run(func() error { return tokenv1.ValidateGenesis(*gs) }, func() { token.InitGenesis(b.Ctx, E.K.Token, *gs) })
	}
	after := storedNorm(b, mod)
	if !accepted {
		if verr == nil && !vpanicked {
			// ValidateGenesis is laxer than Params.Validate(): not a violation (nothing is stored), but worth knowing
			m.seen["genesis-validation-laxer-than-validate/"+mod]++
		}
		if initPanic == nil {
			return pbt.Failf("C16/genesis-import-stored-rejected-set", "%s InitGenesis returned normally with a set Params.Validate() rejects (%s): %s", mod, why, op.Spec)
		}
		if after != m.norm[mod] && after == submitted {
			return pbt.Failf("C16/genesis-import-stored-rejected-set", "%s InitGenesis panicked (%v) but left the rejected set in the store: %s", mod, initPanic, op.Spec)
		}
		m.seen["genesis-rejected/"+mod]++
		return nil
	}
	if initPanic == nil {
		if after != submitted {
			return pbt.Failf("C16/genesis-stored-differs", "%s InitGenesis stored %s, submitted %s", mod, after, submitted)
		}
		m.seen["genesis-imported/"+mod]++
	} else {
		m.seen["genesis-accepted-set-import-panicked/"+mod]++ // module-specific extra genesis conditions (token fee symbol, htlc supplies)
	}
	return nil
}

func (m *aMachine) Finish() error { return nil }

func (m *aMachine) Classify() (bool, []string) {
	var cl []string
	agg := map[string]bool{}
	for k := range m.seen {
		cl = append(cl, k)
		agg[k[:strings.Index(k, "/")]] = true
	}
	sort.Strings(cl)
	nt := agg["stored-nondefault"] && agg["stranger-with-valid-set"] && (agg["authority-rejected"] || agg["authority-validate-panics"])
	if nt && agg["genesis-rejected"] {
		cl = append(cl, "full-history")
	}
	return nt, cl
}

const authorityRule = "rapid state machine over the five UpdateParams messages: sender in {authority, users, module account, upper-case authority, garbage} x via {ValidateBasic+routed handler, routed handler alone, the keeper's Msg service implementation called directly (below the router's ValidateBasic), Keeper.SetParams} x parameter sets drawn per field from the message-space grids (absent/negative/0/10^-18/mid/1-10^-18/1/>1/huge decimals; nil/negative/0/huge coin amounts; odd, empty and over-long denoms; durations 0/1ns/max/negative; integers 0/1/max; HTLC asset lists with boundary locks, limits, deputies), plus keeper-level genesis import and ValidateGenesis of the module's own export with the generated set; non-trivial = history in which the authority stored a non-default set, a stranger submitted a set that Validate() accepts and the authority submitted a set that Validate() rejects; distinct by SHA-256 of the op list"

func TestC16Authority(t *testing.T) {
	pbt.RunMachine(t, "C16", "c16-authority", authorityRule, newAuthority)
}
