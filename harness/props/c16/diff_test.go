package c16

// Oracle B of C16 (differential): for a state s reached by a history under default parameters, an
// accepted parameter set P of one module and a short operation sequence o1..ok, P is installed on a
// branch B of s by the authority; before every oi the state of B is branched again, the module's
// default parameters are put back on that sub-branch and oi is run there ("oi on this very state under
// the defaults"); then oi is run on B under P. Violation iff the default run ends in success or an
// ordinary rejection and the run under P panics. Block hooks are treated the same way (and for them an
// error or an overflow abort under P counts as well: a hook cannot be "rejected").

import (
	"encoding/hex"
	"fmt"
	"math/big"
	"os"
	"sort"
	"strings"
	"sync"
	"testing"
	"time"

	abci "github.com/cometbft/cometbft/abci/types"
	sdk "github.com/cosmos/cosmos-sdk/types"
	distrtypes "github.com/cosmos/cosmos-sdk/x/distribution/types"
	"pgregory.net/rapid"

	htlctypes "mods.irisnet.org/modules/htlc/types"

	"verifharness/chain"
	"verifharness/gen"
	"verifharness/pbt"
)

type dOp struct {
	Kind string     `json:"kind"` // do = operations on the main history (default parameters) | diff = differential sequence under P
	P    *paramSpec `json:"p,omitempty"`
	Ops  []cOp      `json:"ops"`
}

// ---------------------------------------------------------------------------------------------
// prepared state (built once per process under default parameters, branched by every case)

var (
	prepOnce sync.Once
	prepCase *chain.Case
)

func must(c *chain.Case, what string, msg sdk.Msg) chain.Result {
	r := c.Deliver(msg)
	if r.Outcome != chain.OK {
		panic(fmt.Sprintf("C16 preparation step %q failed: %v", what, r))
	}
	return r
}

func mustOp(c *chain.Case, op cOp) { must(c, op.M, resolve(c, op)) }

func mustBlocks(c *chain.Case, n int) {
	for i := 0; i < n; i++ {
		end, begin := c.NextBlock(5*time.Second, nil)
		if end.Outcome != chain.OK || begin.Outcome != chain.OK {
			panic(fmt.Sprintf("C16 preparation: block hooks failed: end=%v begin=%v", end, begin))
		}
	}
}

const beaconAddr = "0x00000000000000000000000000000000000000b1"

func prepared() *chain.Case {
	prepOnce.Do(func() {
		E := gen.Env()
		c := E.NewCase()
		gov := E.Gov.String()
		// htlc: the authority lists two HTLT assets (the baseline of the htlc module in this machine); their supply records
		// appear at the next begin-block
		must(c, "htlc baseline assets", baselineSpec("htlc").updateMsg(E, gov))
		// tokens: tka (scale 6, U0), tkb (scale 0, U1, with an ERC20 contract deployed while a beacon was configured)
		mustOp(c, cOp{M: "tok.issue", W: 0, D: "tka", K: 6, A: "1000000", B: "100000000", F: true})
		mustOp(c, cOp{M: "tok.issue", W: 1, D: "tkb", K: 0, A: "1000000", B: "100000000", F: true})
		withBeacon := defaultSpec("token")
		withBeacon.Token.Beacon = beaconAddr
		must(c, "token beacon on", withBeacon.updateMsg(E, gov))
		mustOp(c, cOp{M: "tok.deploy", D: "tkb", K: 0})
		mustOp(c, cOp{M: "tok.toERC20", W: 1, V: 1, D: "tkb", A: "5000"})
		must(c, "token defaults back", defaultSpec("token").updateMsg(E, gov))
		// coinswap: pools stake/btc (lpt-1), stake/eth (lpt-2), two liquidity providers
		mustOp(c, cOp{M: "cs.add", W: 0, D: "btc", A: "1000000000"})
		mustOp(c, cOp{M: "cs.add", W: 0, D: "eth", A: "500000"})
		mustOp(c, cOp{M: "cs.add", W: 1, D: "btc", A: "1000000"})
		mustOp(c, cOp{M: "cs.add", W: 2, D: "btc", A: "70000"})
		mustOp(c, cOp{M: "cs.swap", W: 1, V: 1, D: "stake", E: "btc", A: "1000", B: "1"})
		// farm: community pool funded, one running editable pool on lpt-1 with two farmers, one single-block pool
		must(c, "fund community pool", &distrtypes.MsgFundCommunityPool{Amount: sdk.NewCoins(sdk.NewInt64Coin("stake", 100000000)), Depositor: E.Users[0].Addr.String()})
		mustOp(c, cOp{M: "farm.create", W: 0, D: "btc", A: "10", B: "100000", N: 1, K: 2, F: true})
		mustOp(c, cOp{M: "farm.create", W: 1, D: "btc", A: "5", B: "200", N: 2, K: 1})
		mustBlocks(c, 1)
		mustOp(c, cOp{M: "farm.stake", W: 0, K: 0, A: "100000"})
		mustOp(c, cOp{M: "farm.stake", W: 1, K: 0, A: "333"})
		mustBlocks(c, 1)
		mustOp(c, cOp{M: "farm.stake", W: 2, K: 1, A: "70"})
		// htlc: two plain HTLCs (secrets 0 and 1) that expire a few blocks after the preparation ends, one long-lived (secret 2)
		mustOp(c, cOp{M: "htlc.create", W: 0, V: 1, D: "stake", A: "1000", B: "50", K: 0})
		mustOp(c, cOp{M: "htlc.create", W: 1, V: 2, D: "btc", A: "77", B: "53", K: 1})
		mustOp(c, cOp{M: "htlc.create", W: 2, V: 0, D: "stake", A: "5", B: "34560", K: 2})
		// HTLT supply in flight for both assets: completed incoming swaps (current > 0, time-limited current > 0), open incoming
		// swaps (incoming > 0) that expire shortly after the preparation ends or much later, one open outgoing swap
		claimed := func(asset, amount string, to, secret int) {
			r := must(c, "incoming HTLT", resolve(c, cOp{M: "htlc.create", V: to, D: "in", E: asset, A: amount, B: "50", K: secret, F: true}))
			id := r.Resp.(*htlctypes.MsgCreateHTLCResponse).Id
			must(c, "claim incoming HTLT", &htlctypes.MsgClaimHTLC{Sender: E.Users[to].Addr.String(), Id: id, Secret: hex.EncodeToString(secretOf(secret))})
		}
		claimed("0", "5000", 0, 3)
		claimed("1", "3000", 1, 3)
		mustOp(c, cOp{M: "htlc.create", V: 1, D: "in", E: "0", A: "700", B: "52", K: 4, F: true})
		mustOp(c, cOp{M: "htlc.create", V: 2, D: "in", E: "1", A: "200", B: "55", K: 4, F: true})
		mustOp(c, cOp{M: "htlc.create", V: 0, D: "in", E: "0", A: "41", B: "34560", K: 5, F: true})
		mustOp(c, cOp{M: "htlc.create", V: 0, D: "in", E: "1", A: "17", B: "34560", K: 5, F: true})
		mustOp(c, cOp{M: "htlc.create", W: 0, D: "out", E: "0", A: "1000", B: "54", K: 6, F: true})
		// service: svc0 defined by U0, bound by U1 and U2 (QoS 2), one repeated and one single call by U0
		mustOp(c, cOp{M: "svc.define", W: 0, D: "svc0"})
		mustOp(c, cOp{M: "svc.bind", W: 1, D: "svc0", E: "stake", A: "1000000", B: "2", N: 2})
		mustOp(c, cOp{M: "svc.bind", W: 2, D: "svc0", E: "stake", A: "20000", B: "3", N: 3})
		mustOp(c, cOp{M: "svc.setWithdraw", W: 1, V: 5})
		mustOp(c, cOp{M: "svc.bind", W: 3, D: "svc0", E: "stake", A: "6000", B: "1", N: 50})
		mustOp(c, cOp{M: "svc.disable", W: 3, D: "svc0"}) // a disabled binding whose deposit becomes refundable with time
		mustOp(c, cOp{M: "svc.call", W: 0, D: "svc0", E: "stake", K: 3, A: "10", N: 3, F: true, B: "5"})
		mustBlocks(c, 1)
		if len(activeRequests(c)) == 0 {
			panic("C16 preparation: the repeated call produced no requests")
		}
		mustOp(c, cOp{M: "svc.respond", W: 1, K: 0})
		// run forward so that the plain HTLCs are about to expire; keep a batch of requests active at the end
		mustBlocks(c, 41)
		for i := 0; i < 6 && len(activeRequests(c)) == 0; i++ {
			mustBlocks(c, 1)
		}
		if len(activeRequests(c)) == 0 {
			panic("C16 preparation: no active request at the end")
		}
		mustOp(c, cOp{M: "svc.call", W: 0, D: "svc0", E: "stake", K: 1, A: "10", N: 2})
		for _, mod := range modules {
			if got, want := storedNorm(c, mod), baselineSpec(mod).norm(E); got != want {
				panic(fmt.Sprintf("C16 preparation: %s parameters are not the baseline: %s != %s", mod, got, want))
			}
		}
		for _, a := range baselineSpec("htlc").HTLC.Assets {
			if sv := supplyOf(c, a.Denom); !sv.found || sv.cur.Sign() <= 0 || sv.inc.Sign() <= 0 {
				panic(fmt.Sprintf("C16 preparation: asset %s has no current/incoming supply: %+v", a.Denom, sv))
			}
		}
		prepCase = c
	})
	return prepCase
}

// ---------------------------------------------------------------------------------------------
// execution of one catalogue operation

type execResult struct {
	outcome chain.Outcome
	detail  string
	pan     interface{}
	events  []abci.Event
	hook    string // which hook failed first (blocks)
}

func worse(a, b chain.Outcome) bool { // is b worse than a
	rank := map[chain.Outcome]int{chain.OK: 0, chain.Rejected: 1, chain.Overflow: 2, chain.Panicked: 3}
	return rank[b] > rank[a]
}

func exec(c *chain.Case, op cOp) execResult {
	if op.M == "block" {
		res := execResult{outcome: chain.OK}
		dt := time.Duration(gen.BigOf(op.A).Int64())
		for i := int64(0); i < op.N; i++ {
			end, begin := c.NextBlock(dt, nil)
			for _, h := range []struct {
				n string
				r chain.HookResult
			}{{"EndBlock", end}, {"BeginBlock", begin}} {
				res.events = append(res.events, h.r.Events...)
				if h.r.Outcome == chain.Panicked && isIntRangePanic(h.r.Panic) {
					h.r.Outcome = chain.Overflow
				}
				if worse(res.outcome, h.r.Outcome) {
					res.outcome, res.detail, res.pan = h.r.Outcome, h.r.String(), h.r.Panic
					res.hook = fmt.Sprintf("%s@%d", h.n, c.Height())
				}
			}
			if res.outcome == chain.Panicked || res.outcome == chain.Overflow {
				break
			}
		}
		return res
	}
	r := c.Deliver(resolve(c, op))
	res := execResult{outcome: r.Outcome, detail: r.String(), pan: r.Panic, events: r.Events}
	if res.outcome == chain.Panicked && isIntRangePanic(res.pan) {
		res.outcome = chain.Overflow
	}
	return res
}

// isIntRangePanic recognises the 256-bit range panics of cosmossdk.io/math that chain.Deliver does not classify as
// Overflow itself (math.ErrIntOverflow reads "integer overflow", the LegacyDec ones "decimal out of range" / "Int overflow").
func isIntRangePanic(p interface{}) bool {
	s := fmt.Sprint(p)
	return strings.Contains(s, "integer overflow") || strings.Contains(s, "Int overflow") || strings.Contains(s, "out of range; bitLen") ||
		strings.Contains(s, "decimal out of range")
}

func panicClass(p interface{}) string {
	s := strings.ToLower(fmt.Sprint(p))
	for _, k := range []struct{ sub, class string }{
		{"negative coin amount", "negative-coin-amount"}, {"invalid denom", "invalid-denom"}, {"division by zero", "division-by-zero"},
		{"divide by zero", "division-by-zero"}, {"nil pointer", "nil-dereference"}, {"invalid memory address", "nil-dereference"},
		{"index out of range", "index-out-of-range"}, {"slice bounds", "index-out-of-range"}, {"negative", "negative-value"},
		{"invalid coin", "invalid-coins"}, {"unmarshal", "codec"}, {"overflow", "overflow"},
	} {
		if strings.Contains(s, k.sub) {
			return k.class
		}
	}
	return "other"
}

func hasEvent(evs []abci.Event, typ string) bool {
	for _, e := range evs {
		if e.Type == typ {
			return true
		}
	}
	return false
}

// ---------------------------------------------------------------------------------------------
// the machine

type dMachine struct {
	c     *chain.Case
	seen  map[string]int
	arith bool
	hist  int
}

func newDiff() pbt.Machine[dOp] {
	return &dMachine{c: prepared().Branch(), seen: map[string]int{}}
}

func (m *dMachine) Next(t *rapid.T) dOp {
	if rapid.IntRange(0, 9).Draw(t, "kind") < 3 {
		op := dOp{Kind: "do"}
		op.Ops = rapid.SliceOfN(rapid.Custom(func(t *rapid.T) cOp {
			if rapid.IntRange(0, 5).Draw(t, "blk") == 0 {
				return genBlock(t)
			}
			return genModuleOp(t, rapid.SampledFrom(modules).Draw(t, "mod"))
		}), 1, 3).Draw(t, "ops")
		return op
	}
	mod := rapid.SampledFrom(modules).Draw(t, "module")
	p := genSpec(t, mod, rapid.SampledFrom([]int{0, 8, 8, 20}).Draw(t, "wild"))
	relTarget := -1
	if mod == "htlc" && rapid.IntRange(0, 9).Draw(t, "relative") < 6 {
		// limits, time-based limits and periods placed relative to the live supply records of the existing assets
		p.HTLC, relTarget = genHTLCRelative(t, m.c)
	}
	op := dOp{Kind: "diff", P: &p}
	if mod == "htlc" || rapid.Bool().Draw(t, "lead") {
		op.Ops = append(op.Ops, cOp{M: "block", N: 1, A: fmt.Sprint(int64(5 * time.Second))}) // asset supplies appear at the next begin-block
	}
	// a slice generator, so that rapid can shrink the sequence by dropping elements
	one := rapid.Custom(func(t *rapid.T) cOp {
		switch k := rapid.IntRange(0, 19).Draw(t, "what"); {
		case k < 14:
			return genModuleOp(t, mod)
		case k < 16:
			return genModuleOp(t, rapid.SampledFrom(modules).Draw(t, "other"))
		default:
			return genBlock(t)
		}
	})
	op.Ops = append(op.Ops, rapid.SliceOfN(one, 1, 10).Draw(t, "seq")...)
	if mod == "service" && p.Service != nil && (p.Service.BaseDenom == "btc" || p.Service.BaseDenom == "eth") && rapid.Bool().Draw(t, "stale") {
		// objects created under the old base denom (the running repeated context with its fee cap) meet something
		// expressed in the new one: a provider of that context re-prices its binding, then the next batches fall due
		op.Ops = append(op.Ops, cOp{M: "svc.updateBinding", W: rapid.IntRange(1, 2).Draw(t, "repricer"), D: "svc0", E: "@base", A: "1000000000000", B: "1", N: 0},
			cOp{M: "block", N: 6, A: fmt.Sprint(int64(5 * time.Second))})
	} else if mod == "service" && rapid.IntRange(0, 2).Draw(t, "earn") == 0 {
		// the fee parameters are consumed when a provider answers and when its owner collects: both providers of the
		// prepared context answer an active request under P and withdraw what they earned (before and under P)
		for i := 0; i < 3; i++ { // the first active request, whoever it is addressed to (answered ones are no longer active)
			op.Ops = append(op.Ops, cOp{M: "svc.respond", W: 1, K: 0})
		}
		op.Ops = append(op.Ops, cOp{M: "svc.withdrawEarned", W: 1}, cOp{M: "svc.withdrawEarned", W: 2})
	} else if rapid.IntRange(0, 2).Draw(t, "tailblocks") == 0 {
		op.Ops = append(op.Ops, genBlock(t)) // whatever the operations left behind meets the block hooks under P
	}
	if relTarget >= 0 { // aim most HTLT creations at the asset whose limits were edited
		for i := range op.Ops {
			if o := &op.Ops[i]; o.M == "htlc.create" && o.F && rapid.IntRange(0, 3).Draw(t, "aim") > 0 {
				o.E = fmt.Sprint(relTarget)
			}
		}
	}
	return op
}

func shortType(op cOp) string {
	if op.M == "block" {
		return "block"
	}
	return strings.TrimPrefix(opType[op.M], "irismod.")
}

func (m *dMachine) Apply(op dOp) error {
	E := m.c.E
	switch op.Kind {
	case "do":
		for _, o := range op.Ops {
			r := exec(m.c, o)
			m.hist++
			if r.outcome == chain.Panicked {
				m.seen["default/panicked/"+shortType(o)]++ // not C16's business: nothing is demanded when the default run aborts
			}
		}
		return nil
	case "diff":
	default:
		return fmt.Errorf("bad op kind %q", op.Kind)
	}
	P := *op.P
	mod := P.Module
	accepted, _, why := P.validate(E)
	B := m.c.Branch()
	r := B.Deliver(P.updateMsg(E, E.Gov.String()))
	switch {
	case r.Outcome == chain.OK && !accepted:
		return pbt.Failf("C16/rejected-set-stored", "%s UpdateParams succeeded with a set its Validate() rejects (%s): %s", mod, why, P)
	case r.Outcome != chain.OK && accepted:
		return pbt.Failf("C16/accepted-set-refused", "%s UpdateParams from the authority failed (%v) although Validate() accepts the set: %s", mod, r, P)
	}
	if !accepted {
		m.seen["P/"+mod+"/rejected"]++
		return nil
	}
	if got := storedNorm(B, mod); got != P.norm(E) {
		return pbt.Failf("C16/stored-differs-from-submitted", "%s params read back as %s, submitted %s", mod, got, P.norm(E))
	}
	dflt := baselineSpec(mod) // the defaults, except htlc: the prepared two-asset list
	nonDefault := P.norm(E) != dflt.norm(E)
	tight := map[string]string{} // htlc asset denom -> which limit of P lies below what the supply record already holds
	if mod == "htlc" {
		tight = m.htlcShapes(B, P)
	}
	if nonDefault {
		m.seen["P/"+mod+"/accepted-nondefault"]++
	} else {
		m.seen["P/"+mod+"/default"]++
	}
	answered := 0 // requests answered under P so far
	// a third run executes the whole sequence under the defaults: a state that the sequence reached under P may make an
	// operation abort under either parameter set (tallies that no longer add up, say), and then the same-state comparison
	// sees two aborts and demands nothing, although the operation is possible under the defaults
	D := m.c.Branch()
	for i, o := range op.Ops {
		rH := exec(D, o)
		sb := B.Branch()
		if rr := sb.Deliver(dflt.updateMsg(E, E.Gov.String())); rr.Outcome != chain.OK {
			return pbt.Failf("harness/defaults-refused", "cannot put %s defaults back: %v", mod, rr)
		}
		newPool := o.M == "cs.add" && lptOf(B, o.D) == "lpt-99"
		rD := exec(sb, o)
		rQ := exec(B, o)
		ty := shortType(o)
		if traceOn {
			fmt.Fprintf(os.Stderr, "TRACE %s P=%s | %s %+v | default: %s | P: %s\n", mod, P, ty, o, truncate(rD.detail, 200), truncate(rQ.detail, 200))
		}
		if nonDefault && mod == "service" && o.M == "svc.respond" && rQ.outcome == chain.OK {
			answered++
		}
		if nonDefault && mod == "service" && o.M == "svc.withdrawEarned" && rQ.outcome == chain.OK && answered > 0 && P.Service != nil {
			m.seen["service-fees-earned-and-withdrawn-under-P"]++
			if P.Service.FeeTax == "0" {
				m.seen["service-fees-earned-and-withdrawn-under-zero-tax"]++
			}
		}
		if nonDefault {
			m.seen["msg/"+ty+"/compared"]++
			if rQ.outcome == chain.OK {
				m.seen["msg/"+ty+"/ok-under-P"]++
			}
			m.seen[fmt.Sprintf("outcome/default-%s+P-%s", rD.outcome, rQ.outcome)]++
		}
		if rD.outcome == chain.Panicked {
			m.seen["default/panicked/"+ty]++ // the operation aborts under the defaults on this state: nothing is demanded of the run under P
		}
		if nonDefault && mod == "htlc" && len(tight) > 0 {
			m.htlcOpClasses(B, o, tight, rQ)
		}
		dOrdinary := rD.outcome == chain.OK || rD.outcome == chain.Rejected
		if !dOrdinary && rQ.outcome == chain.Panicked && rD.outcome == chain.Panicked && (rH.outcome == chain.OK || rH.outcome == chain.Rejected) {
			what := fmt.Sprintf("step %d %s %+v aborts on the state the sequence reached under P - under P: %s; with the defaults put back: %s - while the same sequence under the defaults throughout gives: %s\nP = %s",
				i, ty, o, truncate(rQ.detail, 300), truncate(rD.detail, 300), truncate(rH.detail, 200), P)
			if o.M == "block" {
				return pbt.Failf("C16/hook-panic-on-state-reached-under-P/"+mod+"/"+panicClass(rQ.pan), "%s", what)
			}
			return pbt.Failf("C16/handler-panic-on-state-reached-under-P/"+mod+"/"+panicClass(rQ.pan), "%s", what)
		}
		if o.M == "block" {
			if nonDefault && rQ.outcome == chain.OK {
				if mod == "service" && hasEvent(rQ.events, "service_slash") {
					m.seen["hooks/service-slash-under-P"]++
					m.arith = true
				}
				if mod == "htlc" && hasEvent(rQ.events, "refund_htlc") {
					m.seen["hooks/htlc-refund-under-P"]++
				}
			}
			if rD.outcome == chain.OK && rQ.outcome != chain.OK {
				what := fmt.Sprintf("step %d (%d blocks): hooks fine under default %s params, under P %s: %s\nP = %s", i, o.N, mod, rQ.hook, rQ.detail, P)
				switch rQ.outcome {
				case chain.Panicked:
					return pbt.Failf("C16/hook-panic/"+mod+"/"+panicClass(rQ.pan), "%s", what)
				case chain.Overflow:
					return pbt.Failf("C16/hook-overflow/"+mod, "%s", what)
				default:
					return pbt.Failf("C16/hook-error/"+mod, "%s", what)
				}
			}
			continue
		}
		if dOrdinary && rQ.outcome == chain.Panicked {
			return pbt.Failf("C16/handler-panic/"+mod+"/"+panicClass(rQ.pan),
				"step %d %s %+v: under default %s params: %s; under P: %s\nP = %s", i, ty, o, mod, rD.detail, rQ.detail, P)
		}
		if nonDefault && opModule(o.M) == mod && rQ.outcome != chain.Rejected {
			switch o.M {
			case "cs.swap", "cs.addUni", "cs.removeUni", "farm.create", "svc.bind", "svc.updateBinding", "svc.enable", "svc.respond", "svc.call",
				"tok.issue", "tok.mint", "tokb.issue", "tokb.mint":
				m.arith = true
				m.seen["arith/"+mod]++
			case "cs.add":
				if newPool {
					m.arith = true
					m.seen["arith/"+mod]++
					m.seen["arith/coinswap-pool-creation"]++
				}
			case "htlc.create", "htlc.claim":
				if hasEvent(rQ.events, "create_htlc") && o.F || o.M == "htlc.claim" && hasTransferClaim(rQ.events) {
					m.arith = true
					m.seen["arith/"+mod]++
				}
			}
		}
	}
	return nil
}

// htlcShapes classifies an installed htlc parameter set against the supply records of the state it was installed on.
func (m *dMachine) htlcShapes(B *chain.Case, P paramSpec) map[string]string {
	tight := map[string]string{}
	listed := map[string]bool{}
	for _, a := range P.HTLC.Assets {
		listed[a.Denom] = true
		sv := supplyOf(B, a.Denom)
		if !sv.found {
			continue
		}
		limit, tl := gen.BigOf(a.Limit.norm()), gen.BigOf(a.TimeLimit.norm())
		tot, used := new(big.Int).Add(sv.cur, sv.inc), new(big.Int).Add(sv.tlc, sv.inc)
		switch limit.Cmp(tot) {
		case -1:
			m.seen["htlc-shape/limit-below-supply"]++
			tight[a.Denom] = "limit-below-supply"
			if limit.Cmp(sv.cur) < 0 {
				m.seen["htlc-shape/limit-below-current"]++
			}
		case 0:
			m.seen["htlc-shape/limit-equals-supply"]++
		}
		if a.TimeLimited {
			switch tl.Cmp(used) {
			case -1:
				m.seen["htlc-shape/time-limit-below-used"]++
				if tight[a.Denom] == "" {
					tight[a.Denom] = "time-limit-below-used"
				} else {
					tight[a.Denom] = "both-limits-below"
				}
			case 0:
				m.seen["htlc-shape/time-limit-equals-used"]++
			}
			if a.Period <= sv.elapsed+int64(5*time.Second) {
				m.seen["htlc-shape/period-within-elapsed"]++
			}
		}
		if !a.Active && (sv.inc.Sign() > 0 || sv.out.Sign() > 0) {
			m.seen["htlc-shape/deactivated-with-open-swaps"]++
		}
	}
	for _, a := range baselineSpec("htlc").HTLC.Assets {
		if sv := supplyOf(B, a.Denom); !listed[a.Denom] && sv.found && (sv.inc.Sign() > 0 || sv.out.Sign() > 0) {
			m.seen["htlc-shape/removed-with-open-swaps"]++
		}
	}
	return tight
}

// htlcOpClasses counts the operations that were compared under a parameter set whose limits lie below the stored supply.
func (m *dMachine) htlcOpClasses(B *chain.Case, o cOp, tight map[string]string, rQ execResult) {
	switch {
	case o.M == "htlc.create" && o.F:
		msg, ok := resolve(B, o).(*htlctypes.MsgCreateHTLC)
		if !ok || len(msg.Amount) != 1 {
			return
		}
		if why := tight[msg.Amount[0].Denom]; why != "" {
			dir := "outgoing"
			if o.D == "in" {
				dir = "incoming"
			}
			m.seen["htlc-op/"+dir+"-create-vs-"+why]++
			if dir == "incoming" && rQ.outcome == chain.Rejected {
				m.seen["htlc-op/incoming-create-refused-by-tight-limit"]++
			}
		}
	case o.M == "htlc.claim":
		m.seen["htlc-op/claim-under-tight-limit"]++
	case o.M == "block":
		m.seen["htlc-op/blocks-under-tight-limit"]++
		if hasEvent(rQ.events, "refund_htlc") {
			m.seen["htlc-op/expiry-refund-under-tight-limit"]++
		}
	}
}

func hasTransferClaim(evs []abci.Event) bool {
	for _, v := range chain.EventAttrs(evs, "claim_htlc", "transfer") {
		if v == "true" {
			return true
		}
	}
	return false
}

func (m *dMachine) Finish() error { return nil }

func (m *dMachine) Classify() (bool, []string) {
	cl := make([]string, 0, len(m.seen))
	for k := range m.seen {
		cl = append(cl, k)
	}
	sort.Strings(cl)
	return m.arith, cl
}

const diffRule = "rapid state machine on a prepared state (coinswap pools, farm pools with farmers, open plain HTLCs near expiry, two listed HTLT assets with completed and open incoming swaps and an open outgoing swap (current, incoming, outgoing and time-limited supply all > 0), service definition/bindings/running repeated context with active requests, tokens incl. one ERC20 pair) that evolves under default parameters; differential step = (module, parameter set P from the message-space grids — for htlc additionally edits of the live asset list with Limit / TimeBasedLimit / TimePeriod placed just below, at and just above the stored current+incoming, time-limited and elapsed values, deactivation, removal —, sequence of 1-11 symbolic operations over every Msg method of coinswap/farm/htlc/service/token(v1+v1beta1) and block runs of 1-61 blocks): P installed by the authority on a branch, every operation run on a sub-branch with the baseline (module defaults; for htlc the prepared asset list) restored and on the branch under P, outcomes compared; non-trivial = history with an accepted non-default P under which at least one operation that computes with the parameters (swap/unilateral fee, pool creation fee and tax, farm creation fee and tax, HTLT limits, service deposit/tax/timeout, slash at expiry, token issue/mint fee) ran to success or abort; distinct by SHA-256 of the op list"

func TestC16Differential(t *testing.T) {
	missing, stale, total := catalogueGaps()
	if len(missing) > 0 || len(stale) > 0 {
		t.Fatalf("operation catalogue does not match the Msg services: missing %v, stale %v", missing, stale)
	}
	if os.Getenv("VERIF_C16_VERBOSE") != "" {
		t.Logf("catalogue covers %d Msg methods", total)
	}
	pbt.RunMachine(t, "C16", "c16-differential", diffRule, newDiff)
}

var traceOn = os.Getenv("VERIF_C16_TRACE") != ""
