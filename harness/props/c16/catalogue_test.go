package c16

// Operation catalogue: one entry per method of the Msg services of coinswap, farm, htlc, service and
// token (both token families), written as symbolic, JSON-able operations that are resolved against the
// live state of whatever branch they are applied to ("the k-th pool", "a quarter of my liquidity",
// "the newest open HTLC whose secret we know"), so that the same operation list can be replayed on
// a branch under default parameters and on a branch under a generated parameter set.

import (
	"crypto/sha256"
	"encoding/hex"
	"fmt"
	"math/big"
	"sort"
	"strings"
	"time"

	sdkmath "cosmossdk.io/math"
	tmbytes "github.com/cometbft/cometbft/libs/bytes"
	sdk "github.com/cosmos/cosmos-sdk/types"
	gogoproto "github.com/cosmos/gogoproto/proto"
	"github.com/ethereum/go-ethereum/common"
	"google.golang.org/protobuf/reflect/protoreflect"
	"pgregory.net/rapid"

	coinswaptypes "mods.irisnet.org/modules/coinswap/types"
	farmtypes "mods.irisnet.org/modules/farm/types"
	htlctypes "mods.irisnet.org/modules/htlc/types"
	servicetypes "mods.irisnet.org/modules/service/types"
	tokenv1 "mods.irisnet.org/modules/token/types/v1"
	tokenv1beta1 "mods.irisnet.org/modules/token/types/v1beta1"

	"verifharness/chain"
	"verifharness/gen"
)

// cOp is one symbolic operation. The meaning of the generic fields depends on M (see resolve).
type cOp struct {
	M string `json:"m"`
	W int    `json:"w,omitempty"` // acting user
	V int    `json:"v,omitempty"` // second user
	D string `json:"d,omitempty"` // denom / symbol / service name
	E string `json:"e,omitempty"` // second denom
	A string `json:"a,omitempty"` // amount
	B string `json:"b,omitempty"` // second amount
	N int64  `json:"n,omitempty"` // count / offset / timeout
	K int    `json:"k,omitempty"` // selector
	F bool   `json:"f,omitempty"` // flag
}

// msgServices lists the Msg services whose methods make up the message space of C16.
var msgServices = map[string]string{
	"irismod.coinswap.Msg": "coinswap",
	"irismod.farm.Msg":     "farm",
	"irismod.htlc.Msg":     "htlc",
	"irismod.service.Msg":  "service",
	"irismod.token.v1.Msg": "token",
	"irismod.token.Msg":    "token",
}

// opType maps every catalogue entry to the message type it produces ("" = block operation).
var opType = map[string]string{
	"cs.add": "irismod.coinswap.MsgAddLiquidity", "cs.addUni": "irismod.coinswap.MsgAddUnilateralLiquidity",
	"cs.remove": "irismod.coinswap.MsgRemoveLiquidity", "cs.removeUni": "irismod.coinswap.MsgRemoveUnilateralLiquidity",
	"cs.swap": "irismod.coinswap.MsgSwapOrder",

	"farm.create": "irismod.farm.MsgCreatePool", "farm.createCommunity": "irismod.farm.MsgCreatePoolWithCommunityPool",
	"farm.destroy": "irismod.farm.MsgDestroyPool", "farm.adjust": "irismod.farm.MsgAdjustPool", "farm.stake": "irismod.farm.MsgStake",
	"farm.unstake": "irismod.farm.MsgUnstake", "farm.harvest": "irismod.farm.MsgHarvest",

	"htlc.create": "irismod.htlc.MsgCreateHTLC", "htlc.claim": "irismod.htlc.MsgClaimHTLC",

	"svc.define": "irismod.service.MsgDefineService", "svc.bind": "irismod.service.MsgBindService",
	"svc.updateBinding": "irismod.service.MsgUpdateServiceBinding", "svc.setWithdraw": "irismod.service.MsgSetWithdrawAddress",
	"svc.enable": "irismod.service.MsgEnableServiceBinding", "svc.disable": "irismod.service.MsgDisableServiceBinding",
	"svc.refund": "irismod.service.MsgRefundServiceDeposit", "svc.call": "irismod.service.MsgCallService",
	"svc.respond": "irismod.service.MsgRespondService", "svc.pause": "irismod.service.MsgPauseRequestContext",
	"svc.start": "irismod.service.MsgStartRequestContext", "svc.kill": "irismod.service.MsgKillRequestContext",
	"svc.updateContext": "irismod.service.MsgUpdateRequestContext", "svc.withdrawEarned": "irismod.service.MsgWithdrawEarnedFees",

	"tok.issue": "irismod.token.v1.MsgIssueToken", "tok.edit": "irismod.token.v1.MsgEditToken", "tok.mint": "irismod.token.v1.MsgMintToken",
	"tok.burn": "irismod.token.v1.MsgBurnToken", "tok.transferOwner": "irismod.token.v1.MsgTransferTokenOwner",
	"tok.swapFee": "irismod.token.v1.MsgSwapFeeToken", "tok.toERC20": "irismod.token.v1.MsgSwapToERC20",
	"tok.fromERC20": "irismod.token.v1.MsgSwapFromERC20", "tok.deploy": "irismod.token.v1.MsgDeployERC20",
	"tok.upgrade": "irismod.token.v1.MsgUpgradeERC20",
	"tokb.issue":  "irismod.token.MsgIssueToken", "tokb.edit": "irismod.token.MsgEditToken", "tokb.mint": "irismod.token.MsgMintToken",
	"tokb.burn": "irismod.token.MsgBurnToken", "tokb.transferOwner": "irismod.token.MsgTransferTokenOwner",

	"block": "",
}

// the five UpdateParams messages are exercised as the installer of every differential pair and by TestC16Authority
var updateParamsTypes = map[string]bool{
	"irismod.coinswap.MsgUpdateParams": true, "irismod.farm.MsgUpdateParams": true, "irismod.htlc.MsgUpdateParams": true,
	"irismod.service.MsgUpdateParams": true, "irismod.token.v1.MsgUpdateParams": true,
}

func opModule(name string) string {
	switch name[:strings.Index(name+".", ".")] {
	case "cs":
		return "coinswap"
	case "farm":
		return "farm"
	case "htlc":
		return "htlc"
	case "svc":
		return "service"
	case "tok", "tokb":
		return "token"
	}
	return ""
}

// catalogueGaps enumerates every method of the Msg services through the protobuf registry and reports the
// request types that have no catalogue entry (and catalogue entries that name no existing type).
func catalogueGaps() (missing, stale []string, total int) {
	have := map[string]bool{}
	for _, ty := range opType {
		if ty != "" {
			have[ty] = true
		}
	}
	seen := map[string]bool{}
	for svc := range msgServices {
		d, err := gogoproto.HybridResolver.FindDescriptorByName(protoreflect.FullName(svc))
		if err != nil {
			missing = append(missing, "service "+svc+": "+err.Error())
			continue
		}
		sd, ok := d.(protoreflect.ServiceDescriptor)
		if !ok {
			missing = append(missing, "not a service: "+svc)
			continue
		}
		for i := 0; i < sd.Methods().Len(); i++ {
			in := string(sd.Methods().Get(i).Input().FullName())
			seen[in] = true
			total++
			if !have[in] && !updateParamsTypes[in] {
				missing = append(missing, in)
			}
		}
	}
	for ty := range have {
		if !seen[ty] {
			stale = append(stale, ty)
		}
	}
	sort.Strings(missing)
	sort.Strings(stale)
	return
}

// ---------------------------------------------------------------------------------------------
// resolution against live state

const (
	testSchemas = `{"input":{"type":"object"},"output":{"type":"object"}}`
	testInput   = `{"header":{},"body":{}}`
	testResult  = `{"code":200,"message":""}`
	testOutput  = `{"header":{},"body":{}}`
)

func secretOf(i int) []byte { s := sha256.Sum256([]byte(fmt.Sprintf("c16-secret-%d", i))); return s[:] }

const nSecrets = 8

func amt(s string) sdkmath.Int {
	if s == "" {
		return sdkmath.ZeroInt()
	}
	return sdkmath.NewIntFromBigInt(gen.BigOf(s))
}

func u64(s string) uint64 {
	if s == "" {
		return 0
	}
	return gen.BigOf(s).Uint64()
}

func user(E *chain.Env, i int) sdk.AccAddress {
	if i < 0 || i >= len(E.Users) {
		i = 0
	}
	return E.Users[i].Addr
}

func farmPools(c *chain.Case) []farmtypes.FarmPool {
	var ps []farmtypes.FarmPool
	c.E.K.Farm.IteratorAllPools(c.Ctx, func(p farmtypes.FarmPool) { ps = append(ps, p) })
	sort.Slice(ps, func(i, j int) bool { return ps[i].Id < ps[j].Id })
	return ps
}

type openHTLC struct {
	id     string
	h      htlctypes.HTLC
	secret int
}

func openHTLCs(c *chain.Case) []openHTLC {
	var out []openHTLC
	c.E.K.HTLC.IterateHTLCs(c.Ctx, func(id tmbytes.HexBytes, h htlctypes.HTLC) bool {
		if h.State != htlctypes.Open {
			return false
		}
		o := openHTLC{id: id.String(), h: h, secret: -1}
		for i := 0; i < nSecrets; i++ {
			if strings.EqualFold(hex.EncodeToString(htlctypes.GetHashLock(secretOf(i), h.Timestamp)), h.HashLock) {
				o.secret = i
			}
		}
		out = append(out, o)
		return false
	})
	sort.Slice(out, func(i, j int) bool {
		if out[i].h.ExpirationHeight != out[j].h.ExpirationHeight {
			return out[i].h.ExpirationHeight > out[j].h.ExpirationHeight // newest first
		}
		return out[i].id < out[j].id
	})
	return out
}

type liveRequest struct {
	id  string
	req servicetypes.CompactRequest
}

func activeRequests(c *chain.Case) []liveRequest {
	var out []liveRequest
	c.E.K.Service.IterateRequests(c.Ctx, func(id tmbytes.HexBytes, r servicetypes.CompactRequest) bool {
		if c.E.K.Service.IsRequestActive(c.Ctx, id) {
			out = append(out, liveRequest{id.String(), r})
		}
		return false
	})
	sort.Slice(out, func(i, j int) bool { return out[i].id < out[j].id })
	return out
}

type liveContext struct {
	id string
	rc servicetypes.RequestContext
}

func requestContexts(c *chain.Case) []liveContext {
	var out []liveContext
	c.E.K.Service.IterateRequestContexts(c.Ctx, func(id tmbytes.HexBytes, rc servicetypes.RequestContext) bool {
		out = append(out, liveContext{id.String(), rc})
		return false
	})
	sort.Slice(out, func(i, j int) bool { return out[i].id < out[j].id })
	return out
}

func pickIdx(k, n int) int {
	if n == 0 {
		return -1
	}
	if k < 0 {
		k = -k
	}
	return k % n
}

func frac(x sdkmath.Int, k int) sdkmath.Int { // k/4 of x, at least 1
	v := x.MulRaw(int64(k)).QuoRaw(4)
	if !v.IsPositive() {
		v = sdkmath.OneInt()
	}
	return v
}

func tokenMinUnit(c *chain.Case, symbol string) (minUnit, owner string) {
	t, err := c.E.K.Token.GetToken(c.Ctx, symbol)
	if err != nil {
		return "u" + symbol, ""
	}
	return t.GetMinUnit(), t.GetOwner().String()
}

func lptOf(c *chain.Case, denom string) string {
	if p, ok := c.E.K.Coinswap.GetPool(c.Ctx, coinswaptypes.GetPoolId(denom)); ok {
		return p.LptDenom
	}
	return "lpt-99"
}

// resolve turns a symbolic operation into a concrete message for the state of c.
func resolve(c *chain.Case, op cOp) sdk.Msg {
	E := c.E
	w, v := user(E, op.W).String(), user(E, op.V).String()
	deadline := c.Time().Unix() + 1_000_000
	if op.E == "@base" {
		// the coin in which the service module expresses deposits and fee caps *now* (it is a parameter)
		op.E = E.K.Service.BaseDenom(c.Ctx)
	}
	switch op.M {
	// ------------------------------------------------------------------ coinswap
	case "cs.add":
		return &coinswaptypes.MsgAddLiquidity{MaxToken: sdk.Coin{Denom: op.D, Amount: sdkmath.NewIntFromBigInt(gen.Pow2(120))},
			ExactStandardAmt: amt(op.A), MinLiquidity: sdkmath.OneInt(), Deadline: deadline, Sender: w}
	case "cs.addUni":
		d := op.D
		if op.F {
			d = "stake"
		}
		return &coinswaptypes.MsgAddUnilateralLiquidity{CounterpartyDenom: op.D, ExactToken: sdk.Coin{Denom: d, Amount: amt(op.A)},
			MinLiquidity: sdkmath.OneInt(), Deadline: deadline, Sender: w}
	case "cs.remove":
		lpt := lptOf(c, op.D)
		return &coinswaptypes.MsgRemoveLiquidity{WithdrawLiquidity: sdk.Coin{Denom: lpt, Amount: frac(c.Balance(user(E, op.W), lpt), op.K)},
			MinToken: sdkmath.ZeroInt(), MinStandardAmt: sdkmath.ZeroInt(), Deadline: deadline, Sender: w}
	case "cs.removeUni":
		lpt := lptOf(c, op.D)
		d := op.D
		if op.F {
			d = "stake"
		}
		return &coinswaptypes.MsgRemoveUnilateralLiquidity{CounterpartyDenom: op.D, MinToken: sdk.Coin{Denom: d, Amount: sdkmath.OneInt()},
			ExactLiquidity: frac(c.Balance(user(E, op.W), lpt), op.K).QuoRaw(2).AddRaw(1), Deadline: deadline, Sender: w}
	case "cs.swap":
		return &coinswaptypes.MsgSwapOrder{Input: coinswaptypes.Input{Address: w, Coin: sdk.Coin{Denom: op.D, Amount: amt(op.A)}},
			Output: coinswaptypes.Output{Address: v, Coin: sdk.Coin{Denom: op.E, Amount: amt(op.B)}}, Deadline: deadline, IsBuyOrder: op.F}

	// ------------------------------------------------------------------ farm
	case "farm.create":
		denoms := []string{"stake", "btc", "eth"}
		var per, tot sdk.Coins
		for i := 0; i < op.K && i < 3; i++ {
			per = append(per, sdk.Coin{Denom: denoms[i], Amount: amt(op.A)})
			tot = append(tot, sdk.Coin{Denom: denoms[i], Amount: amt(op.A).Mul(amt(op.B))})
		}
		return &farmtypes.MsgCreatePool{Description: "c16", LptDenom: lptOf(c, op.D), StartHeight: c.Height() + op.N,
			RewardPerBlock: per.Sort(), TotalReward: tot.Sort(), Editable: op.F, Creator: w}
	case "farm.createCommunity":
		// the community pool pays the stake rewards, the proposer bonds the btc rewards (F: no self bond)
		total := amt(op.A).Mul(amt(op.B))
		content := farmtypes.CommunityPoolCreateFarmProposal{Title: "c16", Description: "c16", PoolDescription: "c16", LptDenom: lptOf(c, op.D),
			RewardPerBlock: sdk.Coins{{Denom: "stake", Amount: amt(op.A)}}, FundApplied: sdk.Coins{{Denom: "stake", Amount: total}}}
		if !op.F {
			content.RewardPerBlock = sdk.Coins{{Denom: "btc", Amount: amt(op.A)}, {Denom: "stake", Amount: amt(op.A)}}
			content.FundSelfBond = sdk.Coins{{Denom: "btc", Amount: total}}
		}
		return &farmtypes.MsgCreatePoolWithCommunityPool{Content: content, InitialDeposit: sdk.Coins{{Denom: "stake", Amount: sdkmath.NewInt(10)}}, Proposer: w}
	case "farm.destroy", "farm.adjust", "farm.stake", "farm.unstake", "farm.harvest":
		ps := farmPools(c)
		id, creator, lpt := "pool-99", w, "lpt-1"
		if i := pickIdx(op.K, len(ps)); i >= 0 {
			id, creator = ps[i].Id, ps[i].Creator
			lpt = ps[i].TotalLptLocked.Denom
		}
		if op.F {
			creator = w
		}
		switch op.M {
		case "farm.destroy":
			return &farmtypes.MsgDestroyPool{PoolId: id, Creator: creator}
		case "farm.adjust":
			m := &farmtypes.MsgAdjustPool{PoolId: id, Creator: creator}
			if a := amt(op.A); a.IsPositive() {
				m.AdditionalReward = sdk.Coins{{Denom: "stake", Amount: a}}
			}
			if b := amt(op.B); b.IsPositive() {
				m.RewardPerBlock = sdk.Coins{{Denom: "stake", Amount: b}}
			}
			return m
		case "farm.stake":
			return &farmtypes.MsgStake{PoolId: id, Amount: sdk.Coin{Denom: lpt, Amount: amt(op.A)}, Sender: w}
		case "farm.unstake":
			a := amt(op.A)
			if info, ok := E.K.Farm.GetFarmInfo(c.Ctx, id, w); ok && op.N > 0 {
				a = frac(info.Locked, int(op.N))
			}
			return &farmtypes.MsgUnstake{PoolId: id, Amount: sdk.Coin{Denom: lpt, Amount: a}, Sender: w}
		default:
			return &farmtypes.MsgHarvest{PoolId: id, Sender: w}
		}

	// ------------------------------------------------------------------ htlc
	case "htlc.create":
		if !op.F { // plain HTLC
			return &htlctypes.MsgCreateHTLC{Sender: w, To: v, ReceiverOnOtherChain: "0xreceiver", SenderOnOtherChain: "0xsender",
				Amount: sdk.Coins{{Denom: op.D, Amount: amt(op.A)}}, HashLock: hex.EncodeToString(htlctypes.GetHashLock(secretOf(op.K), 0)),
				TimeLock: u64(op.B)}
		}
		// HTLT: D = "in" | "out", E = index into the live asset list, A = amount relative to the asset's limits; the timestamp must be
		// close to the block time
		ts := uint64(c.Time().Unix() + op.N)
		denom, deputy := "htltbnb", user(E, 3).String()
		a := sdkmath.NewInt(100)
		if assets := E.K.HTLC.GetParams(c.Ctx).AssetParams; len(assets) > 0 {
			as := assets[pickIdx(int(u64(op.E)), len(assets))]
			denom, deputy = as.Denom, as.DeputyAddress
			switch op.A {
			case "min":
				a = as.MinSwapAmount
			case "max":
				a = as.MaxSwapAmount
			case "minfee":
				sum := new(big.Int).Add(as.MinSwapAmount.BigInt(), as.FixedFee.BigInt())
				if sum.BitLen() > 256 {
					sum = new(big.Int).Sub(gen.Pow2(256), big.NewInt(1))
				}
				a = sdkmath.NewIntFromBigInt(sum)
			case "below":
				a = as.MinSwapAmount.SubRaw(1)
			case "above":
				if a = as.MaxSwapAmount; a.BigInt().BitLen() < 256 {
					a = a.AddRaw(1)
				}
			case "bal":
				if a = c.Balance(user(E, op.W), denom); a.GT(as.MaxSwapAmount) {
					a = as.MaxSwapAmount
				}
			default:
				a = amt(op.A)
			}
		} else if op.A != "" && op.A[0] >= '0' && op.A[0] <= '9' {
			a = amt(op.A)
		}
		m := &htlctypes.MsgCreateHTLC{Sender: w, To: deputy, ReceiverOnOtherChain: "0xreceiver", SenderOnOtherChain: "0xsender",
			Amount: sdk.Coins{{Denom: denom, Amount: a}}, HashLock: hex.EncodeToString(htlctypes.GetHashLock(secretOf(op.K), ts)),
			Timestamp: ts, TimeLock: u64(op.B), Transfer: true}
		if op.D == "in" {
			m.Sender, m.To = deputy, v
		}
		return m
	case "htlc.claim":
		hs := openHTLCs(c)
		var known []openHTLC
		for _, h := range hs {
			if h.secret >= 0 {
				known = append(known, h)
			}
		}
		id, secret := strings.Repeat("ab", 32), secretOf(0)
		if i := pickIdx(op.K, len(known)); i >= 0 {
			id, secret = known[i].id, secretOf(known[i].secret)
		}
		if op.F {
			secret = secretOf(nSecrets + 1) // a wrong secret
		}
		return &htlctypes.MsgClaimHTLC{Sender: w, Id: id, Secret: hex.EncodeToString(secret)}

	// ------------------------------------------------------------------ service
	case "svc.define":
		return &servicetypes.MsgDefineService{Name: op.D, Description: "c16", Tags: []string{"t"}, Author: w, AuthorDescription: "a", Schemas: testSchemas}
	case "svc.bind":
		return &servicetypes.MsgBindService{ServiceName: op.D, Provider: w, Deposit: sdk.Coins{{Denom: op.E, Amount: amt(op.A)}},
			Pricing: fmt.Sprintf(`{"price":"%s%s"}`, op.B, op.E), QoS: uint64(op.N), Options: "{}", Owner: w}
	case "svc.updateBinding":
		m := &servicetypes.MsgUpdateServiceBinding{ServiceName: op.D, Provider: w, QoS: uint64(op.N), Options: "{}", Owner: w}
		if a := amt(op.A); a.IsPositive() {
			m.Deposit = sdk.Coins{{Denom: op.E, Amount: a}}
		}
		if op.B != "" {
			m.Pricing = fmt.Sprintf(`{"price":"%s%s"}`, op.B, op.E)
		}
		return m
	case "svc.setWithdraw":
		return &servicetypes.MsgSetWithdrawAddress{Owner: w, WithdrawAddress: v}
	case "svc.enable":
		m := &servicetypes.MsgEnableServiceBinding{ServiceName: op.D, Provider: w, Owner: w}
		if a := amt(op.A); a.IsPositive() {
			m.Deposit = sdk.Coins{{Denom: op.E, Amount: a}}
		}
		return m
	case "svc.disable":
		return &servicetypes.MsgDisableServiceBinding{ServiceName: op.D, Provider: w, Owner: w}
	case "svc.refund":
		return &servicetypes.MsgRefundServiceDeposit{ServiceName: op.D, Provider: w, Owner: w}
	case "svc.call":
		var provs []string
		for i := 1; i <= 3; i++ {
			if op.K&(1<<(i-1)) != 0 {
				provs = append(provs, user(E, i).String())
			}
		}
		m := &servicetypes.MsgCallService{ServiceName: op.D, Providers: provs, Consumer: w, Input: testInput,
			ServiceFeeCap: sdk.Coins{{Denom: op.E, Amount: amt(op.A)}}, Timeout: op.N, Repeated: op.F}
		if op.F {
			m.RepeatedFrequency, m.RepeatedTotal = u64(op.B), -1
		}
		return m
	case "svc.respond":
		rs := activeRequests(c)
		id, prov := strings.Repeat("cd", 58), w
		if i := pickIdx(op.K, len(rs)); i >= 0 {
			id, prov = rs[i].id, rs[i].req.Provider
		}
		if op.F {
			prov = w
		}
		return &servicetypes.MsgRespondService{RequestId: id, Provider: prov, Result: testResult, Output: testOutput}
	case "svc.pause", "svc.start", "svc.kill", "svc.updateContext":
		all := requestContexts(c)
		// prefer contexts on which the operation can succeed: paused ones for start, running repeated ones otherwise
		var cs []liveContext
		for _, x := range all {
			if op.M == "svc.start" && x.rc.State == servicetypes.PAUSED || op.M != "svc.start" && x.rc.State == servicetypes.RUNNING && x.rc.Repeated {
				cs = append(cs, x)
			}
		}
		if len(cs) == 0 || op.K >= 2*len(cs) {
			cs = all
		}
		id, consumer := strings.Repeat("ef", 40), w
		if i := pickIdx(op.K, len(cs)); i >= 0 {
			id, consumer = cs[i].id, cs[i].rc.Consumer
		}
		if op.F {
			consumer = w
		}
		switch op.M {
		case "svc.pause":
			return &servicetypes.MsgPauseRequestContext{RequestContextId: id, Consumer: consumer}
		case "svc.start":
			return &servicetypes.MsgStartRequestContext{RequestContextId: id, Consumer: consumer}
		case "svc.kill":
			return &servicetypes.MsgKillRequestContext{RequestContextId: id, Consumer: consumer}
		default:
			m := &servicetypes.MsgUpdateRequestContext{RequestContextId: id, Consumer: consumer, Timeout: op.N, RepeatedFrequency: u64(op.B)}
			if a := amt(op.A); a.IsPositive() {
				m.ServiceFeeCap = sdk.Coins{{Denom: op.E, Amount: a}}
			}
			return m
		}
	case "svc.withdrawEarned":
		return &servicetypes.MsgWithdrawEarnedFees{Owner: w, Provider: w}

	// ------------------------------------------------------------------ token
	case "tok.issue":
		return &tokenv1.MsgIssueToken{Symbol: op.D, Name: "c16 " + op.D, Scale: uint32(op.K), MinUnit: "u" + op.D, InitialSupply: u64(op.A),
			MaxSupply: u64(op.B), Mintable: op.F, Owner: w}
	case "tokb.issue":
		return &tokenv1beta1.MsgIssueToken{Symbol: op.D, Name: "c16 " + op.D, Scale: uint32(op.K), MinUnit: "u" + op.D, InitialSupply: u64(op.A),
			MaxSupply: u64(op.B), Mintable: op.F, Owner: w}
	case "tok.edit", "tokb.edit", "tok.mint", "tokb.mint", "tok.transferOwner", "tokb.transferOwner":
		minUnit, owner := tokenMinUnit(c, op.D)
		if owner == "" || op.F {
			owner = w
		}
		switch op.M {
		case "tok.edit":
			return &tokenv1.MsgEditToken{Symbol: op.D, Name: "c16e " + op.D, MaxSupply: u64(op.B), Mintable: "true", Owner: owner}
		case "tokb.edit":
			return &tokenv1beta1.MsgEditToken{Symbol: op.D, Name: "c16e " + op.D, MaxSupply: u64(op.B), Mintable: "true", Owner: owner}
		case "tok.mint":
			return &tokenv1.MsgMintToken{Coin: sdk.Coin{Denom: minUnit, Amount: amt(op.A)}, Receiver: v, Owner: owner}
		case "tokb.mint":
			return &tokenv1beta1.MsgMintToken{Symbol: op.D, Amount: u64(op.A), To: v, Owner: owner}
		case "tok.transferOwner":
			return &tokenv1.MsgTransferTokenOwner{SrcOwner: owner, DstOwner: v, Symbol: op.D}
		default:
			return &tokenv1beta1.MsgTransferTokenOwner{SrcOwner: owner, DstOwner: v, Symbol: op.D}
		}
	case "tok.burn":
		minUnit, _ := tokenMinUnit(c, op.D)
		return &tokenv1.MsgBurnToken{Coin: sdk.Coin{Denom: minUnit, Amount: amt(op.A)}, Sender: w}
	case "tokb.burn":
		return &tokenv1beta1.MsgBurnToken{Symbol: op.D, Amount: u64(op.A), Sender: w}
	case "tok.swapFee":
		minUnit, _ := tokenMinUnit(c, op.D)
		return &tokenv1.MsgSwapFeeToken{FeePaid: sdk.Coin{Denom: minUnit, Amount: amt(op.A)}, Receiver: v, Sender: w}
	case "tok.deploy":
		auth := E.Gov.String()
		if op.F {
			auth = w
		}
		return &tokenv1.MsgDeployERC20{Symbol: op.D, Name: "c16 " + op.D, Scale: uint32(op.K), MinUnit: "u" + op.D, Authority: auth}
	case "tok.toERC20":
		minUnit, _ := tokenMinUnit(c, op.D)
		return &tokenv1.MsgSwapToERC20{Amount: sdk.Coin{Denom: minUnit, Amount: amt(op.A)}, Sender: w, Receiver: common.BytesToAddress(user(E, op.V).Bytes()).Hex()}
	case "tok.fromERC20":
		minUnit, _ := tokenMinUnit(c, op.D)
		return &tokenv1.MsgSwapFromERC20{WantedAmount: sdk.Coin{Denom: minUnit, Amount: amt(op.A)}, Sender: w, Receiver: v}
	case "tok.upgrade":
		auth := E.Gov.String()
		if op.F {
			auth = w
		}
		return &tokenv1.MsgUpgradeERC20{Implementation: "0x00000000000000000000000000000000000000c2", Authority: auth}
	}
	panic("unknown catalogue operation " + op.M)
}

// ---------------------------------------------------------------------------------------------
// generators of symbolic operations

func smallAmt(t *rapid.T, label string) string {
	return rapid.SampledFrom([]string{"1", "2", "3", "7", "10", "100", "1000", "12345", "1000000", "1000000007"}).Draw(t, label)
}

func bigAmt(t *rapid.T, label string) string {
	if rapid.IntRange(0, 9).Draw(t, label+"/big") == 0 {
		return gen.Amount(t, label, 128).String()
	}
	return smallAmt(t, label)
}

var csDenoms = []string{"btc", "btc", "eth", "usdt", "point", "utka"}

func genCoinswapOp(t *rapid.T) cOp {
	w := rapid.IntRange(0, 2).Draw(t, "w")
	switch rapid.IntRange(0, 9).Draw(t, "cs") {
	case 0, 1:
		return cOp{M: "cs.add", W: w, D: rapid.SampledFrom(csDenoms).Draw(t, "d"), A: bigAmt(t, "a")}
	case 2:
		return cOp{M: "cs.addUni", W: w, D: rapid.SampledFrom(csDenoms).Draw(t, "d"), A: smallAmt(t, "a"), F: rapid.Bool().Draw(t, "std")}
	case 3:
		return cOp{M: "cs.remove", W: w, D: rapid.SampledFrom(csDenoms).Draw(t, "d"), K: rapid.IntRange(1, 4).Draw(t, "k")}
	case 4:
		return cOp{M: "cs.removeUni", W: w, D: rapid.SampledFrom(csDenoms).Draw(t, "d"), K: rapid.IntRange(1, 4).Draw(t, "k"), F: rapid.Bool().Draw(t, "std")}
	default:
		in := rapid.SampledFrom([]string{"stake", "btc", "eth", "usdt"}).Draw(t, "in")
		out := rapid.SampledFrom([]string{"stake", "btc", "eth", "usdt"}).Draw(t, "out")
		if in == out {
			out = map[string]string{"stake": "btc", "btc": "stake", "eth": "btc", "usdt": "stake"}[in]
		}
		op := cOp{M: "cs.swap", W: w, V: rapid.IntRange(0, 2).Draw(t, "v"), D: in, E: out, F: rapid.Bool().Draw(t, "buy")}
		if op.F {
			op.A, op.B = gen.Pow2(150).String(), smallAmt(t, "out") // at most / exactly
		} else {
			op.A, op.B = bigAmt(t, "in"), "1" // exactly / at least
		}
		return op
	}
}

func genFarmOp(t *rapid.T) cOp {
	w := rapid.IntRange(0, 2).Draw(t, "w")
	k := rapid.IntRange(0, 3).Draw(t, "pool")
	switch rapid.IntRange(0, 11).Draw(t, "farm") {
	case 0, 1, 2:
		return cOp{M: "farm.create", W: w, D: rapid.SampledFrom([]string{"btc", "btc", "eth", "usdt"}).Draw(t, "d"), A: smallAmt(t, "per"),
			B: rapid.SampledFrom([]string{"1", "2", "10", "100"}).Draw(t, "blocks"), N: int64(rapid.IntRange(-1, 3).Draw(t, "start")),
			K: rapid.SampledFrom([]int{1, 1, 2, 2, 3}).Draw(t, "cats"), F: rapid.Bool().Draw(t, "editable")}
	case 3:
		return cOp{M: "farm.createCommunity", W: w, D: "btc", A: smallAmt(t, "per"), B: rapid.SampledFrom([]string{"2", "10", "100"}).Draw(t, "blocks"),
			F: rapid.Bool().Draw(t, "nobond")}
	case 4:
		return cOp{M: "farm.destroy", W: w, K: k, F: rapid.IntRange(0, 4).Draw(t, "stranger") == 0}
	case 5:
		return cOp{M: "farm.adjust", W: w, K: k, A: rapid.SampledFrom([]string{"0", "10", "1000"}).Draw(t, "add"),
			B: rapid.SampledFrom([]string{"0", "1", "20"}).Draw(t, "per"), F: rapid.IntRange(0, 4).Draw(t, "stranger") == 0}
	case 6, 7:
		return cOp{M: "farm.stake", W: w, K: k, A: bigAmt(t, "a")}
	case 8:
		return cOp{M: "farm.unstake", W: w, K: k, A: smallAmt(t, "a"), N: int64(rapid.IntRange(0, 4).Draw(t, "frac"))}
	default:
		return cOp{M: "farm.harvest", W: w, K: k}
	}
}

func genHTLCOp(t *rapid.T) cOp {
	switch rapid.IntRange(0, 9).Draw(t, "htlc") {
	case 0, 1: // plain HTLC
		return cOp{M: "htlc.create", W: rapid.IntRange(0, 2).Draw(t, "w"), V: rapid.IntRange(0, 3).Draw(t, "v"), D: rapid.SampledFrom([]string{"stake", "btc"}).Draw(t, "d"),
			A: smallAmt(t, "a"), B: rapid.SampledFrom([]string{"50", "50", "51", "60", "34560"}).Draw(t, "lock"), K: rapid.IntRange(0, nSecrets-1).Draw(t, "secret")}
	case 2, 3, 4: // incoming HTLT: the asset's deputy is the sender
		return cOp{M: "htlc.create", V: rapid.IntRange(0, 2).Draw(t, "v"), D: "in", E: fmt.Sprint(rapid.IntRange(0, 2).Draw(t, "asset")),
			A: rapid.SampledFrom([]string{"min", "min", "max", "minfee", "below", "above", "1000", "7"}).Draw(t, "a"),
			B: rapid.SampledFrom([]string{"50", "50", "51", "60", "34560"}).Draw(t, "lock"), K: rapid.IntRange(0, nSecrets-1).Draw(t, "secret"),
			N: rapid.SampledFrom([]int64{0, 0, 0, -899, 1799, -901, 1800}).Draw(t, "ts"), F: true}
	case 5, 6: // outgoing HTLT: a user sends to the asset's deputy
		return cOp{M: "htlc.create", W: rapid.IntRange(0, 2).Draw(t, "w"), D: "out", E: fmt.Sprint(rapid.IntRange(0, 2).Draw(t, "asset")),
			A: rapid.SampledFrom([]string{"bal", "bal", "min", "minfee", "max", "1"}).Draw(t, "a"),
			B: rapid.SampledFrom([]string{"50", "50", "51", "60", "100", "34560"}).Draw(t, "lock"), K: rapid.IntRange(0, nSecrets-1).Draw(t, "secret"), F: true}
	default:
		return cOp{M: "htlc.claim", W: rapid.IntRange(0, 3).Draw(t, "w"), K: rapid.SampledFrom([]int{0, 0, 0, 1, 2, 3}).Draw(t, "which"), F: rapid.IntRange(0, 7).Draw(t, "wrong") == 0}
	}
}

func genServiceOp(t *rapid.T) cOp {
	svc := rapid.SampledFrom([]string{"svc0", "svc0", "svc0", "svc1"}).Draw(t, "svc")
	prov := rapid.IntRange(1, 3).Draw(t, "prov")
	den := rapid.SampledFrom([]string{"stake", "stake", "@base", "@base", "btc"}).Draw(t, "den")
	switch rapid.IntRange(0, 20).Draw(t, "svcop") {
	case 0:
		return cOp{M: "svc.define", W: rapid.IntRange(0, 2).Draw(t, "w"), D: rapid.SampledFrom([]string{"svc1", "svc2", "svc0"}).Draw(t, "name")}
	case 1, 2, 3:
		return cOp{M: "svc.bind", W: rapid.SampledFrom([]int{0, 0, 1, 2, 3}).Draw(t, "binder"), D: rapid.SampledFrom([]string{"svc0", "svc0", "svc1"}).Draw(t, "bsvc"), E: den, A: rapid.SampledFrom([]string{"1", "5000", "10000", "1000000", "1000000000000"}).Draw(t, "deposit"),
			B: rapid.SampledFrom([]string{"0", "1", "2", "10", "1000000"}).Draw(t, "price"), N: rapid.SampledFrom([]int64{1, 2, 3, 50, 100, 101}).Draw(t, "qos")}
	case 4:
		return cOp{M: "svc.updateBinding", W: prov, D: svc, E: den, A: rapid.SampledFrom([]string{"0", "1", "10000"}).Draw(t, "deposit"),
			B: rapid.SampledFrom([]string{"", "1", "3", "1000000"}).Draw(t, "price"), N: rapid.SampledFrom([]int64{0, 1, 2, 100, 101}).Draw(t, "qos")}
	case 5:
		return cOp{M: "svc.setWithdraw", W: prov, V: rapid.IntRange(0, 5).Draw(t, "v")}
	case 6:
		return cOp{M: "svc.enable", W: prov, D: svc, E: den, A: rapid.SampledFrom([]string{"0", "1", "10000"}).Draw(t, "deposit")}
	case 7:
		return cOp{M: "svc.disable", W: prov, D: svc}
	case 8:
		return cOp{M: "svc.refund", W: prov, D: svc}
	case 9, 10, 11, 12:
		op := cOp{M: "svc.call", W: rapid.SampledFrom([]int{0, 0, 0, 4}).Draw(t, "consumer"), D: svc, E: den, K: rapid.IntRange(1, 7).Draw(t, "provs"),
			A: rapid.SampledFrom([]string{"1", "2", "10", "1000", "10000000"}).Draw(t, "cap"), N: rapid.SampledFrom([]int64{1, 2, 3, 5, 100, 101}).Draw(t, "timeout"),
			F: rapid.Bool().Draw(t, "repeated")}
		if op.F {
			op.B = fmt.Sprint(op.N + int64(rapid.IntRange(0, 3).Draw(t, "freq")))
		}
		return op
	case 13, 14, 15:
		return cOp{M: "svc.respond", W: prov, K: rapid.IntRange(0, 5).Draw(t, "which"), F: rapid.IntRange(0, 7).Draw(t, "wrongprov") == 0}
	case 16, 18:
		return cOp{M: rapid.SampledFrom([]string{"svc.pause", "svc.pause", "svc.start", "svc.start", "svc.kill"}).Draw(t, "ctxop"), W: 0, K: rapid.IntRange(0, 3).Draw(t, "which"),
			F: rapid.IntRange(0, 7).Draw(t, "stranger") == 0}
	case 17:
		return cOp{M: "svc.updateContext", W: 0, K: rapid.IntRange(0, 3).Draw(t, "which"), E: den, A: rapid.SampledFrom([]string{"0", "5", "1000"}).Draw(t, "cap"),
			N: rapid.SampledFrom([]int64{0, 2, 3, 100, 101}).Draw(t, "timeout"), B: rapid.SampledFrom([]string{"0", "3", "200"}).Draw(t, "freq")}
	case 19:
		// a provider of the running repeated context re-prices its binding in the coin that is the base denom now and
		// tops its deposit up in that coin (the context keeps the fee cap it was created with)
		return cOp{M: "svc.updateBinding", W: rapid.IntRange(1, 2).Draw(t, "repricer"), D: "svc0", E: "@base", A: "1000000000000",
			B: rapid.SampledFrom([]string{"1", "3"}).Draw(t, "reprice"), N: 0}
	default:
		return cOp{M: "svc.withdrawEarned", W: prov}
	}
}

var tokSymbols = []string{"tka", "tka", "tkb", "tkc", "newtoken", "stake"}

func genTokenOp(t *rapid.T) cOp {
	w := rapid.IntRange(0, 2).Draw(t, "w")
	sym := rapid.SampledFrom(tokSymbols).Draw(t, "sym")
	fam := "tok."
	if rapid.IntRange(0, 3).Draw(t, "legacy") == 0 {
		fam = "tokb."
	}
	switch rapid.IntRange(0, 15).Draw(t, "tok") {
	case 0, 1, 2, 3:
		return cOp{M: fam + "issue", W: w, D: rapid.SampledFrom([]string{"tkc", "tkd", "abc", "newtoken", "averyveryverylongsymbolname000000000000000000000000000000000000a", "tka"}).Draw(t, "newsym"),
			K: rapid.SampledFrom([]int{0, 6, 18}).Draw(t, "scale"), A: rapid.SampledFrom([]string{"0", "1", "1000", "1000000"}).Draw(t, "init"),
			B: rapid.SampledFrom([]string{"0", "1000000", "10000000000"}).Draw(t, "max"), F: rapid.Bool().Draw(t, "mintable")}
	case 4:
		return cOp{M: fam + "edit", W: w, D: sym, B: rapid.SampledFrom([]string{"0", "2000000", "1"}).Draw(t, "max"), F: rapid.IntRange(0, 4).Draw(t, "stranger") == 0}
	case 5, 6, 7:
		return cOp{M: fam + "mint", W: w, V: rapid.IntRange(0, 2).Draw(t, "v"), D: sym, A: smallAmt(t, "a"), F: rapid.IntRange(0, 6).Draw(t, "stranger") == 0}
	case 8:
		return cOp{M: fam + "burn", W: w, D: sym, A: smallAmt(t, "a")}
	case 9:
		return cOp{M: fam + "transferOwner", W: w, V: rapid.IntRange(0, 2).Draw(t, "v"), D: sym, F: rapid.IntRange(0, 4).Draw(t, "stranger") == 0}
	case 10:
		return cOp{M: "tok.swapFee", W: w, V: rapid.IntRange(0, 2).Draw(t, "v"), D: sym, A: smallAmt(t, "a")}
	case 11:
		return cOp{M: "tok.deploy", W: w, D: rapid.SampledFrom([]string{"tka", "tkb", "erc", "ercb"}).Draw(t, "dsym"), K: rapid.SampledFrom([]int{0, 6, 18}).Draw(t, "scale"),
			F: rapid.IntRange(0, 5).Draw(t, "stranger") == 0}
	case 12, 13:
		return cOp{M: "tok.toERC20", W: w, V: rapid.IntRange(0, 2).Draw(t, "v"), D: rapid.SampledFrom([]string{"tka", "tkb", "erc"}).Draw(t, "dsym"), A: smallAmt(t, "a")}
	case 14:
		return cOp{M: "tok.fromERC20", W: rapid.SampledFrom([]int{1, 1, 1, 0, 2}).Draw(t, "holder"), V: rapid.IntRange(0, 2).Draw(t, "v"),
			D: rapid.SampledFrom([]string{"tkb", "tkb", "tka", "erc"}).Draw(t, "dsym"), A: smallAmt(t, "a")}
	default:
		return cOp{M: "tok.upgrade", W: w, F: rapid.IntRange(0, 3).Draw(t, "stranger") == 0}
	}
}

func genBlock(t *rapid.T) cOp {
	dt := gen.Dt(t, "dt")
	if rapid.IntRange(0, 11).Draw(t, "month") == 0 {
		dt = int64(30 * 24 * time.Hour) // beyond the default complaint + arbitration periods
	}
	return cOp{M: "block", N: rapid.SampledFrom([]int64{1, 1, 1, 2, 3, 5, 10, 52, 61}).Draw(t, "n"), A: fmt.Sprint(dt)}
}

func genModuleOp(t *rapid.T, module string) cOp {
	switch module {
	case "coinswap":
		return genCoinswapOp(t)
	case "farm":
		return genFarmOp(t)
	case "htlc":
		return genHTLCOp(t)
	case "service":
		return genServiceOp(t)
	default:
		return genTokenOp(t)
	}
}

var _ = big.NewInt
