package c16

// Parameter-set specifications: plain JSON data that covers the *message* space of the five
// MsgUpdateParams types (absent decimals, negative values, odd denoms, extreme magnitudes),
// builders that turn a specification into the module's Params value without going through any
// validating constructor, and an independent normal form used to compare what a module stored with
// what was submitted.

import (
	"encoding/json"
	"fmt"
	"math"
	"math/big"
	"os"
	"strings"
	"time"

	sdkmath "cosmossdk.io/math"
	sdk "github.com/cosmos/cosmos-sdk/types"
	"pgregory.net/rapid"

	coinswaptypes "mods.irisnet.org/modules/coinswap/types"
	farmtypes "mods.irisnet.org/modules/farm/types"
	htlctypes "mods.irisnet.org/modules/htlc/types"
	servicetypes "mods.irisnet.org/modules/service/types"
	tokenv1 "mods.irisnet.org/modules/token/types/v1"

	"verifharness/chain"
	"verifharness/gen"
)

var modules = []string{"coinswap", "farm", "htlc", "service", "token"}

// decS is an 18-decimal fixed point value given as its integer number of 10^-18 units, or "nil" for a
// decimal field that is absent from the message.
type decS string

// intS is an integer as decimal text, or "nil" for an absent field.
type intS string

type coinS struct {
	D string `json:"d"`
	A intS   `json:"a"`
}

func (d decS) dec() sdkmath.LegacyDec {
	if d == "nil" {
		return sdkmath.LegacyDec{}
	}
	return sdkmath.LegacyNewDecFromBigIntWithPrec(gen.BigOf(string(d)), 18)
}

func (d decS) norm() string {
	if d == "nil" {
		return "0" // an absent decimal is written back as 0 by the codec
	}
	return gen.BigOf(string(d)).String()
}

func (i intS) int() sdkmath.Int {
	if i == "nil" {
		return sdkmath.Int{}
	}
	return sdkmath.NewIntFromBigInt(gen.BigOf(string(i)))
}

func (i intS) norm() string {
	if i == "nil" {
		return "0"
	}
	return gen.BigOf(string(i)).String()
}

func (c coinS) coin() sdk.Coin { return sdk.Coin{Denom: c.D, Amount: c.A.int()} }
func (c coinS) norm() string   { return c.A.norm() + "|" + c.D }

func normDec(d sdkmath.LegacyDec) string {
	if d.IsNil() {
		return "0"
	}
	return d.BigInt().String()
}

func normInt(i sdkmath.Int) string {
	if i.IsNil() {
		return "0"
	}
	return i.BigInt().String()
}

func normCoin(c sdk.Coin) string { return normInt(c.Amount) + "|" + c.Denom }

type coinswapS struct {
	Fee     decS  `json:"fee"`
	Tax     decS  `json:"tax"`
	Uni     decS  `json:"uni"`
	PoolFee coinS `json:"pool_fee"`
}

type farmS struct {
	PoolFee coinS  `json:"pool_fee"`
	MaxCat  uint32 `json:"max_cat"`
	Tax     decS   `json:"tax"`
}

type assetS struct {
	Denom       string `json:"denom"`
	Limit       intS   `json:"limit"`
	TimeLimited bool   `json:"time_limited,omitempty"`
	Period      int64  `json:"period,omitempty"`
	TimeLimit   intS   `json:"time_limit"`
	Active      bool   `json:"active,omitempty"`
	Deputy      string `json:"deputy"` // "U3" style reference, "gov", "htlcmod" or a literal string
	FixedFee    intS   `json:"fixed_fee"`
	MinSwap     intS   `json:"min_swap"`
	MaxSwap     intS   `json:"max_swap"`
	MinLock     uint64 `json:"min_lock"`
	MaxLock     uint64 `json:"max_lock"`
}

type htlcS struct {
	Assets []assetS `json:"assets,omitempty"`
}

type serviceS struct {
	MaxTimeout  int64   `json:"max_timeout"`
	MinDepMult  int64   `json:"min_dep_mult"`
	MinDeposit  []coinS `json:"min_deposit,omitempty"`
	FeeTax      decS    `json:"fee_tax"`
	Slash       decS    `json:"slash"`
	Complaint   int64   `json:"complaint"`
	Arbitration int64   `json:"arbitration"`
	TxSize      uint64  `json:"tx_size"`
	BaseDenom   string  `json:"base_denom"`
	Restricted  bool    `json:"restricted,omitempty"`
}

type tokenS struct {
	Tax       decS   `json:"tax"`
	MintRatio decS   `json:"mint_ratio"`
	BaseFee   coinS  `json:"base_fee"`
	Erc20     bool   `json:"erc20,omitempty"`
	Beacon    string `json:"beacon,omitempty"`
}

// paramSpec is one generated parameter set for one module.
type paramSpec struct {
	Module   string     `json:"module"`
	Coinswap *coinswapS `json:"coinswap,omitempty"`
	Farm     *farmS     `json:"farm,omitempty"`
	HTLC     *htlcS     `json:"htlc,omitempty"`
	Service  *serviceS  `json:"service,omitempty"`
	Token    *tokenS    `json:"token,omitempty"`
}

func resolveAddr(E *chain.Env, ref string) string {
	switch {
	case ref == "gov":
		return E.Gov.String()
	case ref == "htlcmod":
		return chain.ModuleAddr(htlctypes.ModuleName).String()
	case len(ref) == 2 && ref[0] == 'U' && ref[1] >= '0' && int(ref[1]-'0') < len(E.Users):
		return E.Users[ref[1]-'0'].Addr.String()
	}
	return ref
}

func (p paramSpec) coinswap() coinswaptypes.Params {
	s := p.Coinswap
	return coinswaptypes.Params{Fee: s.Fee.dec(), TaxRate: s.Tax.dec(), UnilateralLiquidityFee: s.Uni.dec(), PoolCreationFee: s.PoolFee.coin()}
}

func (p paramSpec) farm() farmtypes.Params {
	s := p.Farm
	return farmtypes.Params{PoolCreationFee: s.PoolFee.coin(), MaxRewardCategories: s.MaxCat, TaxRate: s.Tax.dec()}
}

func (p paramSpec) htlc(E *chain.Env) htlctypes.Params {
	out := htlctypes.Params{}
	for _, a := range p.HTLC.Assets {
		out.AssetParams = append(out.AssetParams, htlctypes.AssetParam{
			Denom: a.Denom,
			SupplyLimit: htlctypes.SupplyLimit{Limit: a.Limit.int(), TimeLimited: a.TimeLimited,
				TimePeriod: time.Duration(a.Period), TimeBasedLimit: a.TimeLimit.int()},
			Active: a.Active, DeputyAddress: resolveAddr(E, a.Deputy), FixedFee: a.FixedFee.int(),
			MinSwapAmount: a.MinSwap.int(), MaxSwapAmount: a.MaxSwap.int(), MinBlockLock: a.MinLock, MaxBlockLock: a.MaxLock,
		})
	}
	return out
}

func (p paramSpec) service() servicetypes.Params {
	s := p.Service
	out := servicetypes.Params{MaxRequestTimeout: s.MaxTimeout, MinDepositMultiple: s.MinDepMult, ServiceFeeTax: s.FeeTax.dec(),
		SlashFraction: s.Slash.dec(), ComplaintRetrospect: time.Duration(s.Complaint), ArbitrationTimeLimit: time.Duration(s.Arbitration),
		TxSizeLimit: s.TxSize, BaseDenom: s.BaseDenom, RestrictedServiceFeeDenom: s.Restricted}
	for _, c := range s.MinDeposit {
		out.MinDeposit = append(out.MinDeposit, c.coin())
	}
	return out
}

func (p paramSpec) token() tokenv1.Params {
	s := p.Token
	return tokenv1.Params{TokenTaxRate: s.Tax.dec(), MintTokenFeeRatio: s.MintRatio.dec(), IssueTokenBaseFee: s.BaseFee.coin(),
		EnableErc20: s.Erc20, Beacon: s.Beacon}
}

// updateMsg builds the module's MsgUpdateParams carrying this set.
func (p paramSpec) updateMsg(E *chain.Env, authority string) sdk.Msg {
	switch p.Module {
	case "coinswap":
		return &coinswaptypes.MsgUpdateParams{Authority: authority, Params: p.coinswap()}
	case "farm":
		return &farmtypes.MsgUpdateParams{Authority: authority, Params: p.farm()}
	case "htlc":
		return &htlctypes.MsgUpdateParams{Authority: authority, Params: p.htlc(E)}
	case "service":
		return &servicetypes.MsgUpdateParams{Authority: authority, Params: p.service()}
	case "token":
		return &tokenv1.MsgUpdateParams{Authority: authority, Params: p.token()}
	}
	panic("unknown module " + p.Module)
}

// validate asks the module's own Validate(); a panic inside it counts as a rejection.
func (p paramSpec) validate(E *chain.Env) (accepted, panicked bool, reason string) {
	defer func() {
		if r := recover(); r != nil {
			accepted, panicked, reason = false, true, fmt.Sprint(r)
		}
	}()
	var err error
	switch p.Module {
	case "coinswap":
		err = p.coinswap().Validate()
	case "farm":
		err = p.farm().Validate()
	case "htlc":
		err = p.htlc(E).Validate()
	case "service":
		err = p.service().Validate()
	case "token":
		err = p.token().Validate()
	}
	if err != nil {
		return false, false, err.Error()
	}
	return true, false, ""
}

// norm is the normal form of the submitted set: what a faithful store must read back as.
func (p paramSpec) norm(E *chain.Env) string {
	var parts []string
	switch p.Module {
	case "coinswap":
		s := p.Coinswap
		parts = []string{s.Fee.norm(), s.Tax.norm(), s.Uni.norm(), s.PoolFee.norm()}
	case "farm":
		s := p.Farm
		parts = []string{s.PoolFee.norm(), fmt.Sprint(s.MaxCat), s.Tax.norm()}
	case "htlc":
		for _, a := range p.HTLC.Assets {
			parts = append(parts, fmt.Sprintf("%s,%s,%v,%d,%s,%v,%s,%s,%s,%s,%d,%d", a.Denom, a.Limit.norm(), a.TimeLimited, a.Period,
				a.TimeLimit.norm(), a.Active, resolveAddr(E, a.Deputy), a.FixedFee.norm(), a.MinSwap.norm(), a.MaxSwap.norm(), a.MinLock, a.MaxLock))
		}
	case "service":
		s := p.Service
		var md []string
		for _, c := range s.MinDeposit {
			md = append(md, c.norm())
		}
		parts = []string{fmt.Sprint(s.MaxTimeout), fmt.Sprint(s.MinDepMult), strings.Join(md, "+"), s.FeeTax.norm(), s.Slash.norm(),
			fmt.Sprint(s.Complaint), fmt.Sprint(s.Arbitration), fmt.Sprint(s.TxSize), s.BaseDenom, fmt.Sprint(s.Restricted)}
	case "token":
		s := p.Token
		parts = []string{s.Tax.norm(), s.MintRatio.norm(), s.BaseFee.norm(), fmt.Sprint(s.Erc20), s.Beacon}
	}
	return p.Module + ":" + strings.Join(parts, ";")
}

// storedNorm reads the module's parameters through its keeper and renders them in the same normal form.
func storedNorm(c *chain.Case, module string) string {
	var parts []string
	switch module {
	case "coinswap":
		s := c.E.K.Coinswap.GetParams(c.Ctx)
		parts = []string{normDec(s.Fee), normDec(s.TaxRate), normDec(s.UnilateralLiquidityFee), normCoin(s.PoolCreationFee)}
	case "farm":
		s := c.E.K.Farm.GetParams(c.Ctx)
		parts = []string{normCoin(s.PoolCreationFee), fmt.Sprint(s.MaxRewardCategories), normDec(s.TaxRate)}
	case "htlc":
		s := c.E.K.HTLC.GetParams(c.Ctx)
		for _, a := range s.AssetParams {
			parts = append(parts, fmt.Sprintf("%s,%s,%v,%d,%s,%v,%s,%s,%s,%s,%d,%d", a.Denom, normInt(a.SupplyLimit.Limit), a.SupplyLimit.TimeLimited,
				int64(a.SupplyLimit.TimePeriod), normInt(a.SupplyLimit.TimeBasedLimit), a.Active, a.DeputyAddress, normInt(a.FixedFee),
				normInt(a.MinSwapAmount), normInt(a.MaxSwapAmount), a.MinBlockLock, a.MaxBlockLock))
		}
	case "service":
		s := c.E.K.Service.GetParams(c.Ctx)
		var md []string
		for _, x := range s.MinDeposit {
			md = append(md, normCoin(x))
		}
		parts = []string{fmt.Sprint(s.MaxRequestTimeout), fmt.Sprint(s.MinDepositMultiple), strings.Join(md, "+"), normDec(s.ServiceFeeTax),
			normDec(s.SlashFraction), fmt.Sprint(int64(s.ComplaintRetrospect)), fmt.Sprint(int64(s.ArbitrationTimeLimit)), fmt.Sprint(s.TxSizeLimit),
			s.BaseDenom, fmt.Sprint(s.RestrictedServiceFeeDenom)}
	case "token":
		s := c.E.K.Token.GetParams(c.Ctx)
		parts = []string{normDec(s.TokenTaxRate), normDec(s.MintTokenFeeRatio), normCoin(s.IssueTokenBaseFee), fmt.Sprint(s.EnableErc20), s.Beacon}
	}
	return module + ":" + strings.Join(parts, ";")
}

// defaultSpec is the parameter set every module starts with in the harness genesis (the modules' defaults),
// written down independently of DefaultParams().
func defaultSpec(module string) paramSpec {
	switch module {
	case "coinswap":
		return paramSpec{Module: module, Coinswap: &coinswapS{Fee: "3000000000000000", Tax: "400000000000000000", Uni: "2000000000000000", PoolFee: coinS{"stake", "5000"}}}
	case "farm":
		return paramSpec{Module: module, Farm: &farmS{PoolFee: coinS{"stake", "5000"}, MaxCat: 2, Tax: "400000000000000000"}}
	case "htlc":
		return paramSpec{Module: module, HTLC: &htlcS{}}
	case "service":
		return paramSpec{Module: module, Service: &serviceS{MaxTimeout: 100, MinDepMult: 1000, MinDeposit: []coinS{{"stake", "5000"}},
			FeeTax: "50000000000000000", Slash: "1000000000000000", Complaint: int64(15 * 24 * time.Hour), Arbitration: int64(5 * 24 * time.Hour),
			TxSize: 4000, BaseDenom: "stake"}}
	case "token":
		return paramSpec{Module: module, Token: &tokenS{Tax: "400000000000000000", MintRatio: "100000000000000000", BaseFee: coinS{"stake", "60000"}, Erc20: true}}
	}
	panic(module)
}

func (p paramSpec) String() string { bz, _ := json.Marshal(p); return string(bz) }

// ---------------------------------------------------------------------------------------------
// generators

var one18 = gen.Pow10(18)

func atto(num, den int64) string {
	v := new(big.Int).Mul(one18, big.NewInt(num))
	return v.Quo(v, big.NewInt(den)).String()
}

// decGrid: {absent, negative, -10^-18, 0, 10^-18, small, mid, 1-10^-18, 1, 1+10^-18, 2, huge, largest encodable}.
var decGrid = []decS{"nil", decS(atto(-1, 1)), "-1", "0", "1", decS(atto(3, 1000)), decS(atto(2, 5)), decS(atto(1, 2)),
	decS(new(big.Int).Sub(one18, big.NewInt(1)).String()), decS(one18.String()), decS(new(big.Int).Add(one18, big.NewInt(1)).String()),
	decS(atto(2, 1)), decS(gen.Pow10(58).String()), decS(new(big.Int).Sub(gen.Pow2(315), big.NewInt(1)).String())}

// values strictly inside (0,1), inside [0,1), inside [0,1]
var decOpen = []decS{"1", decS(atto(3, 1000)), decS(atto(2, 5)), decS(atto(1, 2)), decS(new(big.Int).Sub(one18, big.NewInt(1)).String())}
var decHalfOpen = append([]decS{"0"}, decOpen...)
var decClosed = append([]decS{decS(one18.String())}, decHalfOpen...)

func maxInt256() string { return new(big.Int).Sub(gen.Pow2(256), big.NewInt(1)).String() }

var amtGrid = []intS{"nil", "-1", "0", "1", "2", "5000", "60000", intS(gen.Pow10(18).String()), intS(gen.Pow2(64).String()),
	intS(gen.Pow2(200).String()), intS(new(big.Int).Add(gen.Pow2(200), big.NewInt(1)).String()), intS(gen.Pow2(255).String()), intS(maxInt256())}
var amtPos = []intS{"1", "2", "5000", "60000", intS(gen.Pow10(18).String()), intS(gen.Pow2(64).String())}
var amtNonNeg = append([]intS{"0"}, amtPos...)

var longDenom = "d" + strings.Repeat("x", 127)    // 128 characters: the longest valid denom
var tooLongDenom = "d" + strings.Repeat("x", 128) // 129 characters
var denomGrid = []string{"stake", "btc", "eth", "tka", "utka", "tkb", "", "a", "ab", "1ab", "Stake", "sta ke", "stake!", longDenom, tooLongDenom,
	"lpt-1", "ibc/27394FB092D2ECCD56123C74F36E4C1F926001CEADA9CA97EA622B25F41E5EB2", "htltbnb", "nosuchdenom"}
var denomValid = []string{"stake", "stake", "stake", "btc", "tka", "utka", "tkb", "Stake", longDenom, "lpt-1", "htltbnb", "nosuchdenom"}

func avoid(name string) bool { return os.Getenv("VERIF_C16_AVOID_"+name) != "" }

// pick draws from the full message-space grid with probability wild/100, else from the values the
// module is expected to accept (so that whole sets are accepted often enough to be installed).
func pickDec(t *rapid.T, label string, wild int, ok []decS) decS {
	if rapid.IntRange(0, 99).Draw(t, label+"/w") < wild {
		return rapid.SampledFrom(decGrid).Draw(t, label)
	}
	return rapid.SampledFrom(ok).Draw(t, label)
}

func pickAmt(t *rapid.T, label string, wild int, ok []intS) intS {
	if rapid.IntRange(0, 99).Draw(t, label+"/w") < wild {
		return rapid.SampledFrom(amtGrid).Draw(t, label)
	}
	return rapid.SampledFrom(ok).Draw(t, label)
}

func pickDenom(t *rapid.T, label string, wild int, validOnly bool) string {
	if !validOnly && rapid.IntRange(0, 99).Draw(t, label+"/w") < wild {
		return rapid.SampledFrom(denomGrid).Draw(t, label)
	}
	return rapid.SampledFrom(denomValid).Draw(t, label)
}

func pickI64(t *rapid.T, label string, wild int, ok []int64) int64 {
	if rapid.IntRange(0, 99).Draw(t, label+"/w") < wild {
		return rapid.SampledFrom([]int64{math.MinInt64, -1, 0, 1, 2, 100, 1000, math.MaxInt64}).Draw(t, label)
	}
	return rapid.SampledFrom(ok).Draw(t, label)
}

var durGrid = []int64{0, 1, int64(time.Second), int64(time.Hour), int64(15 * 24 * time.Hour), math.MaxInt64, -1}

func genCoinswap(t *rapid.T, wild int) *coinswapS {
	s := &coinswapS{
		Fee: pickDec(t, "cs.fee", wild, decOpen), Tax: pickDec(t, "cs.tax", wild, decOpen), Uni: pickDec(t, "cs.uni", wild, decHalfOpen),
		PoolFee: coinS{pickDenom(t, "cs.pfd", wild, avoid("F10C")), pickAmt(t, "cs.pfa", wild, amtPos)},
	}
	return s
}

func genFarm(t *rapid.T, wild int) *farmS {
	s := &farmS{PoolFee: coinS{pickDenom(t, "fm.pfd", wild, false), pickAmt(t, "fm.pfa", wild, amtNonNeg)},
		MaxCat: rapid.SampledFrom([]uint32{0, 1, 2, 2, 3, math.MaxUint32}).Draw(t, "fm.cat")}
	if avoid("F10A") {
		s.Tax = rapid.SampledFrom(append([]decS{"nil"}, decClosed...)).Draw(t, "fm.tax")
	} else {
		s.Tax = pickDec(t, "fm.tax", wild+30, decClosed) // Validate does not look at the rate: the whole grid is "accepted"
	}
	return s
}

func genToken(t *rapid.T, wild int) *tokenS {
	s := &tokenS{Tax: pickDec(t, "tk.tax", wild, decClosed), MintRatio: pickDec(t, "tk.ratio", wild, decClosed),
		BaseFee: coinS{pickDenom(t, "tk.bfd", wild+20, avoid("F10B")), pickAmt(t, "tk.bfa", wild, amtNonNeg)},
		Erc20:   rapid.IntRange(0, 3).Draw(t, "tk.erc20") > 0,
		Beacon: rapid.SampledFrom([]string{"", "0x00000000000000000000000000000000000000b1", "0x00000000000000000000000000000000000000b1",
			"00000000000000000000000000000000000000B1", "0xzz", "beacon", "0x00"}).Draw(t, "tk.beacon")}
	return s
}

func genService(t *rapid.T, wild int) *serviceS {
	s := &serviceS{
		MaxTimeout: pickI64(t, "sv.mt", wild, []int64{1, 2, 3, 100, 100, math.MaxInt64}),
		MinDepMult: pickI64(t, "sv.mm", wild, []int64{1, 2, 1000, 1000, math.MaxInt64}),
		FeeTax:     pickDec(t, "sv.tax", wild, decHalfOpen), Slash: pickDec(t, "sv.slash", wild, decClosed),
		Complaint:   rapid.SampledFrom(durGrid).Draw(t, "sv.cr"),
		Arbitration: rapid.SampledFrom(durGrid).Draw(t, "sv.at"),
		TxSize:      rapid.SampledFrom([]uint64{0, 1, 4000, 4000, math.MaxUint64}).Draw(t, "sv.tx"),
		BaseDenom:   pickDenom(t, "sv.bd", wild, false),
		Restricted:  rapid.Bool().Draw(t, "sv.r"),
	}
	if rapid.IntRange(0, 2).Draw(t, "sv.bdfunded") == 0 {
		// a base denom that accounts actually hold, so that deposits, prices and caps in the new coin can be paid
		s.BaseDenom = rapid.SampledFrom([]string{"btc", "btc", "eth"}).Draw(t, "sv.bdcoin")
	}
	if rapid.IntRange(0, 99).Draw(t, "sv.durw") >= wild { // keep the durations acceptable most of the time
		if s.Complaint <= 0 {
			s.Complaint = int64(time.Hour)
		}
		if s.Arbitration <= 0 {
			s.Arbitration = 1
		}
		if s.TxSize == 0 {
			s.TxSize = 1
		}
		if rapid.IntRange(0, 2).Draw(t, "sv.bdk") > 0 {
			s.BaseDenom = "stake"
		}
	}
	switch rapid.IntRange(0, 9).Draw(t, "sv.mdk") {
	case 0: // empty list
	case 1: // two coins, possibly unsorted / duplicate / invalid
		s.MinDeposit = []coinS{{pickDenom(t, "sv.md0", 50, false), pickAmt(t, "sv.ma0", 50, amtPos)}, {pickDenom(t, "sv.md1", 50, false), pickAmt(t, "sv.ma1", 50, amtPos)}}
	case 2:
		s.MinDeposit = []coinS{{"btc", "7"}, {"stake", pickAmt(t, "sv.ma", wild, amtPos)}} // sorted, valid two-denom
	default:
		d := s.BaseDenom
		if rapid.IntRange(0, 3).Draw(t, "sv.mdd") == 0 {
			d = pickDenom(t, "sv.md", wild, false)
		}
		s.MinDeposit = []coinS{{d, pickAmt(t, "sv.ma", wild, amtPos)}}
	}
	return s
}

var htlcDenoms = []string{"htltbnb", "htltbnb", "htltbtc", "htlt", "htltx", "HTLTBNB", "htltBNB", "bnbhtlt", "", "htlt bnb", "htlt" + strings.Repeat("y", 124), "htlt" + strings.Repeat("y", 125)}
// htlcValidDenoms: asset names, two of them related to another one (a doubled first letter after the prefix, an extra
// last letter): whatever is derived from a name by trimming or prefixing must keep them apart
var htlcValidDenoms = []string{"htltbnb", "htltbtc", "htlteth", "htlttbtc", "htltbnbx"}
var lockGrid = []uint64{0, 49, 50, 51, 60, 100, 34559, 34560, 34561, math.MaxUint64}

func genAsset(t *rapid.T, i int, wild int) assetS {
	l := fmt.Sprintf("ht%d.", i)
	a := assetS{
		Denom:       rapid.SampledFrom(htlcValidDenoms).Draw(t, l+"denom"),
		Limit:       pickAmt(t, l+"limit", wild, []intS{"0", "1", "1000000", intS(gen.Pow2(128).String()), intS(gen.Pow2(255).String()), intS(maxInt256())}),
		TimeLimited: rapid.Bool().Draw(t, l+"tl"),
		Period:      rapid.SampledFrom(durGrid).Draw(t, l+"period"),
		Active:      rapid.IntRange(0, 4).Draw(t, l+"active") > 0,
		Deputy:      rapid.SampledFrom([]string{"U3", "U3", "U3", "U0", "gov", "htlcmod"}).Draw(t, l+"deputy"),
		FixedFee:    pickAmt(t, l+"fee", wild, []intS{"0", "1", "1000", intS(gen.Pow2(255).String())}),
		MinSwap:     pickAmt(t, l+"min", wild, []intS{"1", "1", "2", "100"}),
		MaxSwap:     pickAmt(t, l+"max", wild, []intS{"100", "1000000000", intS(gen.Pow2(255).String()), intS(maxInt256())}),
		MinLock:     rapid.SampledFrom([]uint64{50, 50, 51, 60}).Draw(t, l+"minlock"),
		MaxLock:     rapid.SampledFrom([]uint64{60, 100, 34560, 34560}).Draw(t, l+"maxlock"),
	}
	// time based limit: mostly <= limit
	a.TimeLimit = pickAmt(t, l+"tlimit", wild, []intS{"0", "1", "1000000"})
	if a.Limit != "nil" && a.TimeLimit != "nil" && gen.BigOf(string(a.TimeLimit)).Cmp(gen.BigOf(string(a.Limit))) > 0 && rapid.IntRange(0, 9).Draw(t, l+"tlfix") > 0 {
		a.TimeLimit = a.Limit
	}
	if rapid.IntRange(0, 99).Draw(t, l+"w") < wild {
		switch rapid.IntRange(0, 3).Draw(t, l+"wk") {
		case 0:
			a.Denom = rapid.SampledFrom(htlcDenoms).Draw(t, l+"wdenom")
		case 1:
			a.Deputy = rapid.SampledFrom([]string{"", "notanaddress", "cosmos1xxx", "U4"}).Draw(t, l+"wdeputy")
		case 2:
			a.MinLock = rapid.SampledFrom(lockGrid).Draw(t, l+"wminlock")
		default:
			a.MaxLock = rapid.SampledFrom(lockGrid).Draw(t, l+"wmaxlock")
		}
	}
	return a
}

func genHTLC(t *rapid.T, wild int) *htlcS {
	n := rapid.SampledFrom([]int{0, 1, 1, 1, 2, 2, 3}).Draw(t, "ht.n")
	s := &htlcS{}
	for i := 0; i < n; i++ {
		a := genAsset(t, i, wild)
		if i > 0 && rapid.IntRange(0, 9).Draw(t, fmt.Sprintf("ht%d.dup", i)) > 0 { // mostly distinct denoms
			for _, b := range s.Assets {
				if b.Denom == a.Denom {
					a.Denom = htlcValidDenoms[(i+1)%len(htlcValidDenoms)]
				}
			}
		}
		s.Assets = append(s.Assets, a)
	}
	return s
}

// genSpec draws a parameter set for the module. wild is the per-field percentage of full-grid draws.
func genSpec(t *rapid.T, module string, wild int) paramSpec {
	p := paramSpec{Module: module}
	switch module {
	case "coinswap":
		p.Coinswap = genCoinswap(t, wild)
	case "farm":
		p.Farm = genFarm(t, wild)
	case "htlc":
		p.HTLC = genHTLC(t, wild)
	case "service":
		p.Service = genService(t, wild)
	case "token":
		p.Token = genToken(t, wild)
	}
	return p
}

// ---------------------------------------------------------------------------------------------
// htlc: baseline with assets, and parameter sets drawn relative to the live asset supplies

// baselineSpec is the parameter set of the prepared state of the differential machine: the module defaults, except for
// htlc, whose default (no assets) makes every HTLT operation impossible — there the baseline is a two-asset list that
// the authority installed before the prepared HTLT history was created.
func baselineSpec(module string) paramSpec {
	if module != "htlc" {
		return defaultSpec(module)
	}
	return paramSpec{Module: "htlc", HTLC: &htlcS{Assets: []assetS{
		{Denom: "htltbnb", Limit: "1000000000000", TimeLimit: "0", Active: true, Deputy: "U3", FixedFee: "10", MinSwap: "1", MaxSwap: "1000000000",
			MinLock: 50, MaxLock: 34560},
		{Denom: "htltbtc", Limit: "1000000000", TimeLimited: true, Period: int64(time.Hour), TimeLimit: "1000000", Active: true, Deputy: "U3",
			FixedFee: "0", MinSwap: "1", MaxSwap: "1000000", MinLock: 50, MaxLock: 34560},
	}}}
}

func liveAssets(c *chain.Case) []assetS {
	var out []assetS
	for _, a := range c.E.K.HTLC.GetParams(c.Ctx).AssetParams {
		out = append(out, assetS{Denom: a.Denom, Limit: intS(normInt(a.SupplyLimit.Limit)), TimeLimited: a.SupplyLimit.TimeLimited,
			Period: int64(a.SupplyLimit.TimePeriod), TimeLimit: intS(normInt(a.SupplyLimit.TimeBasedLimit)), Active: a.Active, Deputy: a.DeputyAddress,
			FixedFee: intS(normInt(a.FixedFee)), MinSwap: intS(normInt(a.MinSwapAmount)), MaxSwap: intS(normInt(a.MaxSwapAmount)),
			MinLock: a.MinBlockLock, MaxLock: a.MaxBlockLock})
	}
	return out
}

// supplyView is the stored supply record of one asset.
type supplyView struct {
	found              bool
	cur, inc, out, tlc *big.Int
	elapsed            int64
}

func supplyOf(c *chain.Case, denom string) supplyView {
	s, ok := c.E.K.HTLC.GetAssetSupply(c.Ctx, denom)
	if !ok {
		return supplyView{cur: new(big.Int), inc: new(big.Int), out: new(big.Int), tlc: new(big.Int)}
	}
	return supplyView{found: true, cur: s.CurrentSupply.Amount.BigInt(), inc: s.IncomingSupply.Amount.BigInt(), out: s.OutgoingSupply.Amount.BigInt(),
		tlc: s.TimeLimitedCurrentSupply.Amount.BigInt(), elapsed: int64(s.TimeElapsed)}
}

func clamp0(v *big.Int) *big.Int {
	if v.Sign() < 0 {
		return new(big.Int)
	}
	return v
}

func off(v *big.Int, d int64) *big.Int { return new(big.Int).Add(v, big.NewInt(d)) }

// genHTLCRelative edits the live asset list: limits and time-based limits are placed just below, at and just above what the
// asset's supply record already holds, period boundaries sit around the elapsed time, plus deactivation / removal / limit
// changes of other kinds. Every result keeps 0 <= TimeBasedLimit <= Limit, i.e. stays inside what Params.Validate() accepts.
// The returned index is the asset that was edited (-1 if the list is empty).
func genHTLCRelative(t *rapid.T, c *chain.Case) (*htlcS, int) {
	assets := liveAssets(c)
	if len(assets) == 0 {
		return genHTLC(t, 0), -1
	}
	target := rapid.IntRange(0, len(assets)-1).Draw(t, "rel.asset")
	edits := 1
	if len(assets) > 1 && rapid.IntRange(0, 3).Draw(t, "rel.two") == 0 {
		edits = 2
	}
	for e := 0; e < edits; e++ {
		i := (target + e) % len(assets)
		a := &assets[i]
		sv := supplyOf(c, a.Denom)
		tot := new(big.Int).Add(sv.cur, sv.inc)
		used := new(big.Int).Add(sv.tlc, sv.inc)
		l := fmt.Sprintf("rel%d.", e)
		setLimit := func() {
			v := rapid.SampledFrom([]*big.Int{off(tot, -1), off(tot, -1), tot, off(tot, 1), off(sv.cur, -1), sv.cur, sv.inc, big.NewInt(0), big.NewInt(1),
				off(tot, 1000)}).Draw(t, l+"limit")
			a.Limit = intS(clamp0(v).String())
		}
		setTime := func() {
			a.TimeLimited = true
			v := rapid.SampledFrom([]*big.Int{off(used, -1), off(used, -1), used, off(used, 1), sv.tlc, off(sv.tlc, -1), big.NewInt(0), big.NewInt(1)}).Draw(t, l+"tlimit")
			a.TimeLimit = intS(clamp0(v).String())
			a.Period = rapid.SampledFrom([]int64{0, 1, sv.elapsed, sv.elapsed + 1, sv.elapsed + int64(5*time.Second), int64(time.Hour), math.MaxInt64, -1}).Draw(t, l+"period")
		}
		switch rapid.IntRange(0, 11).Draw(t, l+"shape") {
		case 0, 1, 2, 3:
			setLimit()
		case 4, 5, 6:
			setTime()
		case 7, 8:
			setLimit()
			setTime()
		case 9:
			a.Active = false
		case 10:
			switch rapid.IntRange(0, 4).Draw(t, l+"misc") {
			case 0:
				a.Deputy = rapid.SampledFrom([]string{"U0", "gov", "htlcmod"}).Draw(t, l+"deputy")
			case 1:
				a.MinSwap, a.MaxSwap = "1000000", a.MaxSwap
				if gen.BigOf(string(a.MaxSwap)).Cmp(big.NewInt(1000000)) < 0 {
					a.MaxSwap = "1000000"
				}
			case 2:
				a.MinSwap, a.MaxSwap = "1", "1"
			case 3:
				a.FixedFee = rapid.SampledFrom([]intS{"0", "1000000000000", intS(maxInt256())}).Draw(t, l+"fee")
			default:
				a.TimeLimited = !a.TimeLimited
			}
		default: // the asset disappears from the list while it has supply / open swaps
			assets = append(assets[:i:i], assets[i+1:]...)
			if len(assets) == 0 || rapid.Bool().Draw(t, l+"add") {
				assets = append(assets, assetS{Denom: "htlteth", Limit: "1000000", TimeLimit: "0", Active: true, Deputy: "U3", FixedFee: "0", MinSwap: "1",
					MaxSwap: "1000", MinLock: 50, MaxLock: 60})
			}
			return &htlcS{Assets: assets}, -1
		}
		// keep the set inside the accepted region: 0 <= time based limit <= limit
		if gen.BigOf(string(a.TimeLimit)).Cmp(gen.BigOf(string(a.Limit))) > 0 {
			a.TimeLimit = a.Limit
		}
	}
	return &htlcS{Assets: assets}, target
}
