package c14

import (
	"bytes"
	"context"
	"encoding/json"
	"fmt"
	"github.com/cosmos/cosmos-sdk/types/query"
	"os"
	"sort"
	"strings"
	"testing"

	"github.com/cosmos/cosmos-sdk/codec"
	sdk "github.com/cosmos/cosmos-sdk/types"
	"pgregory.net/rapid"

	nftkeeper "mods.irisnet.org/modules/nft/keeper"
	nfttypes "mods.irisnet.org/modules/nft/types"

	"verifharness/chain"
	"verifharness/gen"
	"verifharness/pbt"
)

// C14 NFT: each token has one owner; only owners and class creators can act.
//
// The reference model is a plain map (class -> metadata, (class,id) -> token). For every message it predicts
// exactly whether the message is accepted, and after every message every public query answer is compared
// with the model (so a rejected or unauthorised message that left a trace is visible as well).

const c14Sentinel = "[do-not-modify]"

type c14Op struct {
	Kind  string `json:"kind"` // issue | mint | edit | transfer | burn | xferdenom | reimport | burst
	Who   int    `json:"who"`
	To    int    `json:"to,omitempty"`
	Denom string `json:"denom"`
	ID    string `json:"id,omitempty"`
	Name  string `json:"name,omitempty"`
	URI   string `json:"uri,omitempty"`
	Hash  string `json:"hash,omitempty"`
	Data  string `json:"data,omitempty"`
	MintR bool   `json:"mint_restricted,omitempty"`
	UpdR  bool   `json:"update_restricted,omitempty"`
	// issue only: the remaining optional class fields
	Schema string `json:"schema,omitempty"`
	Symbol string `json:"symbol,omitempty"`
	Desc   string `json:"desc,omitempty"`
	// burst only: number of tokens minted into the class (ids <ID>000, <ID>001, ...)
	N int `json:"n,omitempty"`
}

type c14Class struct {
	creator                                  string
	mintR, updR                              bool
	name, schema, symbol, desc, uri, uriHash string
	data                                     string
}

type c14Tok struct {
	owner                 string
	name, uri, hash, data string
}

type c14Machine struct {
	c       *chain.Case
	classes map[string]*c14Class
	toks    map[string]map[string]*c14Tok // class -> id -> token
	burned  map[string]bool               // class/id burned at some time
	handed  map[string]bool               // class handed over at some time

	nBurnRemint, nHandoverMint, nRestrictedEdit, nRestrictedXfer int
	nSelfXfer, nSentinelXfer, nChangeXfer, nStrangerRefused      int
	nAccepted, nRejected, nLax, nInvalidRefused                  int
	flagCombos                                                   map[string]bool

	// genesis round trips (restart of the module from its own export)
	nReimport, nReimportMultiClass, nReimportRestricted, nReimportHanded, nReimportMoved, nReimportBurned int
	nBurst, nReimportAfterBurst                                                                           int
	quiet                                                                                                 bool // inside a burst: per-step clauses are evaluated at its end
	sinceReimport                                                                                         int  // messages since the last round trip (-1 = none yet)
	nAcceptedAfterReimport, nStrangerAfterReimport, nRestrictedAfterReimport                              int
	nRemintAfterReimport, nCreatorActsAfterReimport                                                       int
	skipped                                                                                               map[string]int
	// optional fields and actors
	cnt map[string]int
	// VERIF_C14_AVOID_OVERLONG_URI=1: transfers never carry a uri longer than the 256 bytes that mint, edit and the
	// genesis validation allow (MsgTransferNFT does not check the length; the export of such a state is refused on
	// import: C14/reimport-rejects-uri-set-by-transfer)
	avoidOverlongURI bool
}

const c14SkipOverlong = "skipped:C14/reimport-rejects-uri-set-by-transfer"

const c14Users = 4 // senders; recipients additionally include user 4

var (
	// (two class ids extend another one, and one token id extends another: key prefixes without a terminator then
	// cover the longer name as well)
	c14ClassIDs = []string{"clsa", "clsb", "clsc", "cls/D", "clsa/v2", "clsab"}
	c14TokenIDs = []string{"tka", "tkb", "tkc", "tk/d", "tkab"}
	// odd class ids: too short, upper-case first letter, reserved keywords, the tibc- escape, never issued
	c14OddClassIDs = []string{"ab", "Clsx", "pegx", "ibc/abc", "htltq", "tibcz", "tibc-X", "nonex", "cls_a", ""}
	c14OddTokenIDs = []string{"ab", "Tka", "tk_a", "tk-a", ""}
	c14Names       = []string{"", "n1", "n2", c14Sentinel}
	c14URIs        = []string{"", "ipfs://a", "ipfs://b", c14Sentinel}
	c14Hashes      = []string{"", "h1", "h2", c14Sentinel}
	c14Datas       = []string{"", `{"k":1}`, `"s"`, `7`, c14Sentinel}
	c14BadDatas    = []string{`{bad`, `nojson`, `{"k":}`}
	c14LongURI     = strings.Repeat("u", 257)
	c14MaxURI      = strings.Repeat("v", 256)
)

func newC14() pbt.Machine[c14Op] {
	return &c14Machine{c: gen.Env().NewCase(), classes: map[string]*c14Class{}, toks: map[string]map[string]*c14Tok{},
		burned: map[string]bool{}, handed: map[string]bool{}, flagCombos: map[string]bool{}, cnt: map[string]int{}, skipped: map[string]int{},
		sinceReimport: -1, avoidOverlongURI: os.Getenv("VERIF_C14_AVOID_OVERLONG_URI") != ""}
}

// ---------------------------------------------------------------------------------------------
// independent re-statement of the documented validation rules

func c14IDOK(s string) bool { // ^[a-z][a-zA-Z0-9/]{2,100}$
	if len(s) < 3 || len(s) > 101 {
		return false
	}
	for i := 0; i < len(s); i++ {
		ch := s[i]
		lower := ch >= 'a' && ch <= 'z'
		if i == 0 {
			if !lower {
				return false
			}
			continue
		}
		if !(lower || ch >= 'A' && ch <= 'Z' || ch >= '0' && ch <= '9' || ch == '/') {
			return false
		}
	}
	return true
}

func c14DenomIDOK(s string) bool { return c14IDOK(s) || strings.HasPrefix(s, "tibc-") }

func c14Keyword(s string) bool {
	for _, k := range []string{"peg", "ibc", "htlt", "tibc"} {
		if strings.HasPrefix(s, k) {
			return true
		}
	}
	return false
}

// c14JSONOK knows the validity of the strings of the data alphabet only.
func c14JSONOK(s string) bool {
	for _, b := range c14BadDatas {
		if s == b {
			return false
		}
	}
	return s != c14Sentinel
}

func c14Mod(origin, target string) string {
	if target == c14Sentinel {
		return origin
	}
	return target
}

// ---------------------------------------------------------------------------------------------
// generator

func (m *c14Machine) addr(i int) string { return m.c.E.Users[i].Addr.String() }

func (m *c14Machine) userOf(addr string) int {
	for i := range m.c.E.Users {
		if m.addr(i) == addr {
			return i
		}
	}
	return 0
}

func (m *c14Machine) drawClass(t *rapid.T, wantExisting bool) string {
	var ex, free []string
	for _, id := range c14ClassIDs {
		if _, ok := m.classes[id]; ok {
			ex = append(ex, id)
		} else {
			free = append(free, id)
		}
	}
	r := rapid.IntRange(0, 19).Draw(t, "classpick")
	switch {
	case r == 0:
		return rapid.SampledFrom(c14OddClassIDs).Draw(t, "oddclass")
	case r == 1 || (wantExisting && len(ex) == 0) || (!wantExisting && len(free) == 0):
		return rapid.SampledFrom(c14ClassIDs).Draw(t, "anyclass")
	case wantExisting:
		return rapid.SampledFrom(ex).Draw(t, "class")
	default:
		return rapid.SampledFrom(free).Draw(t, "freeclass")
	}
}

// drawToken picks a token id of class d: existing / absent as wanted, mostly.
func (m *c14Machine) drawToken(t *rapid.T, d string, wantExisting bool) string {
	var ex, free []string
	for _, id := range c14TokenIDs {
		if _, ok := m.toks[d][id]; ok {
			ex = append(ex, id)
		} else {
			free = append(free, id)
		}
	}
	r := rapid.IntRange(0, 19).Draw(t, "tokpick")
	switch {
	case r == 0:
		return rapid.SampledFrom(c14OddTokenIDs).Draw(t, "oddtok")
	case r <= 2 || (wantExisting && len(ex) == 0) || (!wantExisting && len(free) == 0):
		return rapid.SampledFrom(c14TokenIDs).Draw(t, "anytok")
	case wantExisting:
		return rapid.SampledFrom(ex).Draw(t, "tok")
	default:
		// prefer an id that was burned earlier
		var b []string
		for _, id := range free {
			if m.burned[d+"|"+id] {
				b = append(b, id)
			}
		}
		if len(b) > 0 && rapid.Bool().Draw(t, "reuse-burned") {
			return rapid.SampledFrom(b).Draw(t, "burnedtok")
		}
		return rapid.SampledFrom(free).Draw(t, "freetok")
	}
}

// drawWho: the rightful actor with probability ~2/3, else anybody.
func (m *c14Machine) drawWho(t *rapid.T, rightful string) int {
	if rightful != "" && rapid.IntRange(0, 2).Draw(t, "rightful") > 0 {
		return m.userOf(rightful)
	}
	return rapid.IntRange(0, c14Users-1).Draw(t, "who")
}

// drawTokenActor: the token owner 2 times in 3, else the class creator (who has no say over a token he does not
// own) or anybody.
func (m *c14Machine) drawTokenActor(t *rapid.T, d, id string) int {
	rightful := ""
	if tk := m.toks[d][id]; tk != nil {
		rightful = tk.owner
	}
	if cl := m.classes[d]; cl != nil && rightful != "" && cl.creator != rightful && rapid.IntRange(0, 5).Draw(t, "class-creator-acts") == 0 {
		return m.userOf(cl.creator)
	}
	return m.drawWho(t, rightful)
}

func (m *c14Machine) drawFields(t *rapid.T, op *c14Op, sentinelBias int) {
	pick := func(label string, alphabet []string) string {
		if rapid.IntRange(0, 9).Draw(t, label+"/keep") < sentinelBias {
			return c14Sentinel
		}
		return rapid.SampledFrom(alphabet).Draw(t, label)
	}
	op.Name = pick("name", c14Names)
	op.URI = pick("uri", c14URIs)
	op.Hash = pick("hash", c14Hashes)
	op.Data = pick("data", c14Datas)
	switch rapid.IntRange(0, 29).Draw(t, "oddfield") {
	case 0:
		op.Data = rapid.SampledFrom(c14BadDatas).Draw(t, "baddata")
	case 1:
		op.URI = c14LongURI
	case 2:
		op.URI = c14MaxURI
	}
}

func (m *c14Machine) Next(t *rapid.T) c14Op {
	nTok, holding := 0, 0
	for _, ts := range m.toks {
		nTok += len(ts)
		if len(ts) > 0 {
			holding++
		}
	}
	// restart of the module from its own exported genesis: at any point of the history, more often while the state is
	// one a restart has not seen yet (tokens in two or more classes)
	if len(m.classes) > 0 {
		odds := 40
		if holding >= 2 && m.nReimportMultiClass == 0 {
			odds = 8
		}
		if m.nBurst > 0 && m.nReimportAfterBurst == 0 {
			odds = 5
		}
		// (rapid draws small values far more often than large ones; the remainder of a large draw is close to uniform)
		if rapid.IntRange(0, 1<<20).Draw(t, "reimport")%odds == odds-1 {
			return c14Op{Kind: "reimport"}
		}
	}
	if len(m.classes) > 0 && m.nBurst == 0 && rapid.IntRange(0, 1<<20).Draw(t, "burst")%150 == 149 {
		// one class grows beyond a hundred tokens (minted by whoever may mint into it)
		d := m.drawClass(t, true)
		who := rapid.IntRange(0, len(m.c.E.Users)-1).Draw(t, "burstwho")
		if cl := m.classes[d]; cl != nil && cl.mintR {
			who = m.userOf(cl.creator)
		}
		return c14Op{Kind: "burst", Who: who, To: rapid.IntRange(0, len(m.c.E.Users)-1).Draw(t, "burstto"), Denom: d,
			ID: rapid.SampledFrom([]string{"bulk", "tok", "zz"}).Draw(t, "burstid"), N: rapid.IntRange(101, 130).Draw(t, "burstn"),
			Name: "n", URI: "u", Hash: "h", Data: ""}
	}
	k := rapid.IntRange(0, 99).Draw(t, "kind")
	if len(m.classes) == 0 && k >= 20 {
		k = 0
	}
	if nTok == 0 && k >= 45 && k < 90 {
		k = 30
	}
	switch {
	case k < 12: // issue
		op := c14Op{Kind: "issue", Who: rapid.IntRange(0, c14Users-1).Draw(t, "who"), Denom: m.drawClass(t, false),
			MintR: rapid.Bool().Draw(t, "mintR"), UpdR: rapid.Bool().Draw(t, "updR"),
			Name:   rapid.SampledFrom([]string{"", "cn1", "cn2"}).Draw(t, "cname"),
			URI:    rapid.SampledFrom([]string{"", "ipfs://c"}).Draw(t, "curi"),
			Hash:   rapid.SampledFrom([]string{"", "ch1"}).Draw(t, "chash"),
			Data:   rapid.SampledFrom([]string{"", `{"c":1}`, c14Sentinel, `{bad`}).Draw(t, "cdata"),
			Schema: rapid.SampledFrom([]string{"", "sch", `{"type":"object"}`}).Draw(t, "cschema"),
			Symbol: rapid.SampledFrom([]string{"", "sym"}).Draw(t, "csymbol"),
			Desc:   rapid.SampledFrom([]string{"", "d"}).Draw(t, "cdesc")}
		switch rapid.IntRange(0, 7).Draw(t, "call") {
		case 0: // every optional field left empty
			op.Name, op.URI, op.Hash, op.Data, op.Schema, op.Symbol, op.Desc = "", "", "", "", "", "", ""
		case 1: // every optional field given
			op.Name, op.URI, op.Hash, op.Data, op.Schema, op.Symbol, op.Desc = "cn1", "ipfs://c", "ch1", `{"c":1}`, "sch", "sym", "d"
		}
		if rapid.IntRange(0, 9).Draw(t, "cdata-ok") < 8 && !c14JSONOK(op.Data) {
			op.Data = ""
		}
		return op
	case k < 45: // mint
		d := m.drawClass(t, true)
		rightful := ""
		if cl := m.classes[d]; cl != nil {
			rightful = cl.creator
		}
		op := c14Op{Kind: "mint", Denom: d, ID: m.drawToken(t, d, false), Who: m.drawWho(t, rightful),
			To: rapid.IntRange(0, c14Users).Draw(t, "to")}
		switch rapid.IntRange(0, 5).Draw(t, "to/mode") {
		case 0: // the sender himself
			op.To = op.Who
		case 1: // the class creator (a stranger minting "for" the creator gains nothing by it)
			if rightful != "" {
				op.To = m.userOf(rightful)
			}
		}
		m.drawFields(t, &op, 0)
		switch rapid.IntRange(0, 9).Draw(t, "mall") {
		case 0: // every optional field left empty
			op.Name, op.URI, op.Hash, op.Data = "", "", "", ""
		case 1: // every optional field given
			op.Name, op.URI, op.Hash, op.Data = "n1", "ipfs://a", "h1", `{"k":1}`
		}
		if rapid.IntRange(0, 9).Draw(t, "mint-clean") < 8 && op.Data == c14Sentinel {
			op.Data = "" // the sentinel is not valid JSON for a mint
		}
		return op
	case k < 60: // edit
		d := m.drawClass(t, true)
		id := m.drawToken(t, d, true)
		op := c14Op{Kind: "edit", Denom: d, ID: id, Who: m.drawTokenActor(t, d, id)}
		m.drawFields(t, &op, 4)
		switch rapid.IntRange(0, 9).Draw(t, "edit-mode") {
		case 0: // an edit that keeps every field
			op.Name, op.URI, op.Hash, op.Data = c14Sentinel, c14Sentinel, c14Sentinel, c14Sentinel
		case 1: // an edit that replaces every field
			op.Name = rapid.SampledFrom([]string{"n1", "n2", ""}).Draw(t, "name!")
			op.URI = rapid.SampledFrom([]string{"ipfs://a", "ipfs://b", ""}).Draw(t, "uri!")
			op.Hash = rapid.SampledFrom([]string{"h1", "h2", ""}).Draw(t, "hash!")
			op.Data = rapid.SampledFrom([]string{`{"k":1}`, `"s"`, `7`, ""}).Draw(t, "data!")
		}
		return op
	case k < 80: // transfer
		d := m.drawClass(t, true)
		id := m.drawToken(t, d, true)
		op := c14Op{Kind: "transfer", Denom: d, ID: id, Who: m.drawTokenActor(t, d, id), To: rapid.IntRange(0, c14Users).Draw(t, "to")}
		switch rapid.IntRange(0, 3).Draw(t, "xfermode") {
		case 0, 1: // plain: every field kept
			op.Name, op.URI, op.Hash, op.Data = c14Sentinel, c14Sentinel, c14Sentinel, c14Sentinel
		case 2: // exactly one field changed
			op.Name, op.URI, op.Hash, op.Data = c14Sentinel, c14Sentinel, c14Sentinel, c14Sentinel
			switch rapid.IntRange(0, 3).Draw(t, "field") {
			case 0:
				op.Name = rapid.SampledFrom(c14Names).Draw(t, "name")
			case 1:
				op.URI = rapid.SampledFrom(c14URIs).Draw(t, "uri")
			case 2:
				op.Hash = rapid.SampledFrom(c14Hashes).Draw(t, "hash")
			default:
				op.Data = rapid.SampledFrom(c14Datas).Draw(t, "data")
			}
		default:
			m.drawFields(t, &op, 3)
		}
		if rapid.IntRange(0, 7).Draw(t, "self") == 0 {
			op.To = op.Who
		}
		if m.avoidOverlongURI && len(op.URI) > 256 { // known finding excluded by construction
			op.URI = c14MaxURI
			m.skipped[c14SkipOverlong]++
		}
		return op
	case k < 90: // burn
		d := m.drawClass(t, true)
		id := m.drawToken(t, d, true)
		return c14Op{Kind: "burn", Denom: d, ID: id, Who: m.drawTokenActor(t, d, id)}
	default: // class hand-over
		d := m.drawClass(t, true)
		rightful := ""
		if cl := m.classes[d]; cl != nil {
			rightful = cl.creator
		}
		op := c14Op{Kind: "xferdenom", Denom: d, Who: m.drawWho(t, rightful), To: rapid.IntRange(0, c14Users).Draw(t, "to")}
		if rapid.IntRange(0, 7).Draw(t, "self") == 0 {
			op.To = op.Who // hand-over to the current creator
		}
		return op
	}
}

// ---------------------------------------------------------------------------------------------
// model step + execution

func (m *c14Machine) Apply(op c14Op) error {
	if op.Kind == "reimport" {
		return m.applyReimport()
	}
	if op.Kind == "burst" {
		// more tokens in one class than a default query page holds (100): every mint goes through the ordinary rules,
		// the listing and supply clauses are evaluated once at the end
		if op.N < 1 || op.N > 400 {
			return fmt.Errorf("bad replay op %+v", op)
		}
		m.quiet = true
		for i := 0; i < op.N; i++ {
			one := op
			one.Kind, one.ID, one.N = "mint", fmt.Sprintf("%s%03d", op.ID, i), 0
			if i%2 == 1 {
				one.To = op.Who
			}
			if err := m.Apply(one); err != nil {
				m.quiet = false
				return err
			}
		}
		m.quiet = false
		m.nBurst++
		return m.check()
	}
	if op.Who < 0 || op.Who >= len(m.c.E.Users) || op.To < 0 || op.To >= len(m.c.E.Users) {
		return fmt.Errorf("bad replay op %+v", op)
	}
	sender, rcpt := m.addr(op.Who), m.addr(op.To)
	cl := m.classes[op.Denom]
	var tk *c14Tok
	if cl != nil {
		tk = m.toks[op.Denom][op.ID]
	}
	changed := op.Name != c14Sentinel || op.URI != c14Sentinel || op.Hash != c14Sentinel || op.Data != c14Sentinel

	var msg sdk.Msg
	accept := false
	valid := true // input validation (id syntax, reserved words, URI length, JSON data): not part of the property
	why := ""     // property clause that forbids acceptance
	var commit func()
	c0, c1, c2 := m.nStrangerRefused, m.nRestrictedEdit, m.nRestrictedXfer
	var notes []string // optional-field / actor classes of this message, counted when it is accepted
	refusedNote := ""  // class counted when a well-formed message is refused
	note := func(c bool, name string) {
		if c {
			notes = append(notes, name)
		}
	}
	sentinels := 0
	for _, f := range []string{op.Name, op.URI, op.Hash, op.Data} {
		if f == c14Sentinel {
			sentinels++
		}
	}
	creatorNotOwner := cl != nil && tk != nil && cl.creator == sender && tk.owner != sender
	switch op.Kind {
	case "issue":
		msg = &nfttypes.MsgIssueDenom{Id: op.Denom, Name: op.Name, Schema: op.Schema, Sender: sender, Symbol: op.Symbol,
			MintRestricted: op.MintR, UpdateRestricted: op.UpdR, Description: op.Desc, Uri: op.URI, UriHash: op.Hash, Data: op.Data}
		given := 0
		for _, f := range []string{op.Name, op.Schema, op.Symbol, op.Desc, op.URI, op.Hash, op.Data} {
			if f != "" {
				given++
			}
		}
		note(given == 0, "issue-optional-fields-all-empty")
		note(given == 7, "issue-optional-fields-all-given")
		note(given > 0 && given < 7, "issue-optional-fields-mixed")
		note(op.Hash != "", "issue-with-uri-hash")
		valid = c14DenomIDOK(op.Denom) && !c14Keyword(op.Denom) && (op.Data == "" || c14JSONOK(op.Data))
		switch {
		case cl != nil:
			why = "C14/class-id-reused"
		default:
			accept = true
		}
		commit = func() {
			m.classes[op.Denom] = &c14Class{creator: sender, mintR: op.MintR, updR: op.UpdR, name: op.Name, schema: op.Schema,
				symbol: op.Symbol, desc: op.Desc, uri: op.URI, uriHash: op.Hash, data: op.Data}
			m.toks[op.Denom] = map[string]*c14Tok{}
			m.flagCombos[fmt.Sprintf("class-flags-mintR=%v-updR=%v", op.MintR, op.UpdR)] = true
		}
	case "mint":
		msg = &nfttypes.MsgMintNFT{Id: op.ID, DenomId: op.Denom, Name: op.Name, URI: op.URI, UriHash: op.Hash, Data: op.Data,
			Sender: sender, Recipient: rcpt}
		valid = c14DenomIDOK(op.Denom) && !strings.HasPrefix(op.Denom, "ibc/") && c14IDOK(op.ID) && len(op.URI) <= 256 &&
			(op.Data == "" || c14JSONOK(op.Data))
		switch {
		case cl == nil:
			why = "C14/mint-into-missing-class"
		case cl.mintR && cl.creator != sender:
			why = "C14/restricted-mint-by-stranger"
			m.nStrangerRefused++
			if cl.creator == rcpt {
				refusedNote = "restricted-mint-by-stranger-for-the-creator-refused"
			} else {
				refusedNote = "restricted-mint-by-stranger-refused"
			}
		case tk != nil:
			why = "C14/token-id-reused"
		default:
			accept = true
		}
		if cl != nil {
			note(rcpt == sender, "mint-to-sender")
			note(rcpt != sender, "mint-to-other")
			note(cl.mintR && rcpt != sender, "restricted-mint-by-creator-to-other")
			note(cl.mintR && rcpt == sender, "restricted-mint-by-creator-to-himself")
			note(!cl.mintR && cl.creator != sender, "unrestricted-mint-by-stranger")
			note(!cl.mintR && cl.creator != sender && cl.creator == rcpt, "unrestricted-mint-by-stranger-for-the-creator")
			note(op.Name == "" && op.URI == "" && op.Hash == "" && op.Data == "", "mint-optional-fields-all-empty")
			note(op.Name != "" && op.URI != "" && op.Hash != "" && op.Data != "", "mint-optional-fields-all-given")
		}
		commit = func() {
			m.toks[op.Denom][op.ID] = &c14Tok{owner: rcpt, name: op.Name, uri: op.URI, hash: op.Hash, data: op.Data}
			if m.burned[op.Denom+"|"+op.ID] {
				m.nBurnRemint++
				if m.sinceReimport >= 0 {
					m.nRemintAfterReimport++
				}
			}
			if m.handed[op.Denom] {
				m.nHandoverMint++
			}
		}
	case "edit":
		msg = &nfttypes.MsgEditNFT{Id: op.ID, DenomId: op.Denom, Name: op.Name, URI: op.URI, UriHash: op.Hash, Data: op.Data, Sender: sender}
		valid = c14DenomIDOK(op.Denom) && c14IDOK(op.ID) && len(op.URI) <= 256 && (op.Data == "" || op.Data == c14Sentinel || c14JSONOK(op.Data))
		switch {
		case cl == nil || tk == nil:
			why = "C14/edit-of-missing-token"
		case cl.updR:
			why = "C14/restricted-class-edit"
			m.nRestrictedEdit++
		case tk.owner != sender:
			why = "C14/edit-by-non-owner"
			m.nStrangerRefused++
			if creatorNotOwner {
				refusedNote = "edit-by-class-creator-who-is-not-the-owner-refused"
			}
		default:
			accept = true
		}
		note(sentinels == 4, "edit-all-do-not-modify")
		note(sentinels > 0 && sentinels < 4, "edit-some-do-not-modify")
		note(sentinels == 0, "edit-no-do-not-modify")
		note(op.Name == "" || op.URI == "" || op.Hash == "" || op.Data == "", "edit-empties-a-field")
		commit = func() {
			tk.name, tk.uri, tk.hash, tk.data = c14Mod(tk.name, op.Name), c14Mod(tk.uri, op.URI), c14Mod(tk.hash, op.Hash), c14Mod(tk.data, op.Data)
		}
	case "transfer":
		msg = &nfttypes.MsgTransferNFT{Id: op.ID, DenomId: op.Denom, Name: op.Name, URI: op.URI, UriHash: op.Hash, Data: op.Data,
			Sender: sender, Recipient: rcpt}
		// the uri bound is documented for the token (mint, edit and the genesis validation enforce it); where the transfer
		// message is laxer the model follows the code, as for every other input rule
		valid = c14DenomIDOK(op.Denom) && c14IDOK(op.ID) && len(op.URI) <= 256 && (op.Data == "" || op.Data == c14Sentinel || c14JSONOK(op.Data))
		switch {
		case cl == nil || tk == nil:
			why = "C14/transfer-of-missing-token"
		case tk.owner != sender:
			why = "C14/transfer-by-non-owner"
			m.nStrangerRefused++
			if creatorNotOwner {
				refusedNote = "transfer-by-class-creator-who-is-not-the-owner-refused"
			}
		case cl.updR && changed:
			why = "C14/restricted-class-transfer-with-changes"
			m.nRestrictedXfer++
		default:
			accept = true
		}
		commit = func() {
			tk.name, tk.uri, tk.hash, tk.data = c14Mod(tk.name, op.Name), c14Mod(tk.uri, op.URI), c14Mod(tk.hash, op.Hash), c14Mod(tk.data, op.Data)
			tk.owner = rcpt
			if op.To == op.Who {
				m.nSelfXfer++
			}
			if changed {
				m.nChangeXfer++
			} else {
				m.nSentinelXfer++
			}
			if len(op.URI) > 256 {
				m.cnt["transfer-sets-overlong-uri(validation-laxer-than-on-mint-and-edit)"]++
			}
		}
	case "burn":
		msg = &nfttypes.MsgBurnNFT{Id: op.ID, DenomId: op.Denom, Sender: sender}
		valid = c14DenomIDOK(op.Denom) && c14IDOK(op.ID)
		switch {
		case cl == nil || tk == nil:
			why = "C14/burn-of-missing-token"
		case tk.owner != sender:
			why = "C14/burn-by-non-owner"
			m.nStrangerRefused++
			if creatorNotOwner {
				refusedNote = "burn-by-class-creator-who-is-not-the-owner-refused"
			}
		default:
			accept = true
		}
		note(cl != nil && cl.creator == sender, "burn-by-owner-who-is-the-class-creator")
		note(cl != nil && cl.creator != sender, "burn-by-owner-who-is-not-the-class-creator")
		commit = func() {
			delete(m.toks[op.Denom], op.ID)
			m.burned[op.Denom+"|"+op.ID] = true
		}
	case "xferdenom":
		msg = &nfttypes.MsgTransferDenom{Id: op.Denom, Sender: sender, Recipient: rcpt}
		valid = c14DenomIDOK(op.Denom)
		switch {
		case cl == nil:
			why = "C14/handover-of-missing-class"
		case cl.creator != sender:
			why = "C14/class-handover-by-non-creator"
			m.nStrangerRefused++
		default:
			accept = true
		}
		note(rcpt == sender, "class-handover-to-current-creator")
		note(rcpt != sender, "class-handover-to-other")
		commit = func() {
			cl.creator = rcpt
			m.handed[op.Denom] = true
		}
	default:
		return fmt.Errorf("unknown op kind %q", op.Kind)
	}

	if !valid { // a refusal of malformed input says nothing about the authority rules
		m.nStrangerRefused, m.nRestrictedEdit, m.nRestrictedXfer = c0, c1, c2
	}
	// accept = no property clause forbids the operation; an operation with malformed input must additionally be
	// refused by the documented validation rules - if the code is laxer there, the model follows it (counted),
	// because the property does not talk about input syntax
	res := m.c.Deliver(msg)
	switch {
	case res.Outcome == chain.Panicked || res.Outcome == chain.Overflow:
		return pbt.Failf("C14/panic", "%s panicked: %v", op.Kind, res.Panic)
	case accept && valid && res.Outcome != chain.OK:
		return pbt.Failf("C14/rightful-"+op.Kind+"-refused", "model accepts %+v, code: %v", op, res)
	case !accept && res.Outcome == chain.OK:
		return pbt.Failf(why, "model refuses %+v, code accepted it", op)
	}
	if res.Outcome == chain.OK {
		if !valid {
			m.nLax++
		}
		commit()
		m.nAccepted++
		for _, n := range notes {
			m.cnt[n]++
		}
		if m.sinceReimport >= 0 {
			m.nAcceptedAfterReimport++
			if cl != nil && cl.creator == sender && (op.Kind == "mint" && cl.mintR || op.Kind == "xferdenom") {
				m.nCreatorActsAfterReimport++
			}
		}
	} else {
		m.nRejected++
		if !valid {
			m.nInvalidRefused++
			if op.Denom == "" || (op.Kind != "issue" && op.Kind != "xferdenom" && op.ID == "") {
				m.cnt["empty-id-refused"]++
			}
		} else {
			if refusedNote != "" {
				m.cnt[refusedNote]++
			}
			if m.sinceReimport >= 0 {
				if m.nStrangerRefused > c0 {
					m.nStrangerAfterReimport++
				}
				if m.nRestrictedEdit > c1 || m.nRestrictedXfer > c2 {
					m.nRestrictedAfterReimport++
				}
			}
		}
	}
	if m.sinceReimport >= 0 {
		m.sinceReimport++
	}
	if m.quiet {
		return nil
	}
	return m.check()
}

// ---------------------------------------------------------------------------------------------
// restart: the module is exported, its store wiped, the export imported; the history goes on

func (m *c14Machine) exportJSON() json.RawMessage {
	mod, ok := m.c.E.App.ModuleManager.Modules["nft"].(interface {
		ExportGenesis(sdk.Context, codec.JSONCodec) json.RawMessage
	})
	if !ok {
		panic("nft module has no ExportGenesis of the expected shape")
	}
	return mod.ExportGenesis(m.c.Ctx, m.c.E.App.AppCodec())
}

// applyReimport takes the nft module through its own genesis. The genesis carries every class (all fields, the
// restriction flags, the creator) and every token (owner, name, uri, uri_hash, data); nothing else lives in the store.
// The model therefore stays as it is: every clause of check() holds on the restored state, and who may do what is the
// same as before for the rest of the history.
func (m *c14Machine) applyReimport() error {
	holding, restricted, handed, moved, burned, overlong := 0, false, false, false, false, ""
	for d, ts := range m.toks {
		if len(ts) > 100 {
			m.nReimportAfterBurst++
		}
		if len(ts) > 0 {
			holding++
			restricted = restricted || m.classes[d].mintR || m.classes[d].updR
		}
		handed = handed || m.handed[d]
		for id, tk := range ts {
			moved = moved || tk.owner != m.classes[d].creator
			if len(tk.uri) > 256 && (overlong == "" || d+"/"+id < overlong) {
				overlong = d + "/" + id
			}
		}
	}
	for range m.burned {
		burned = true
	}
	if overlong != "" && m.avoidOverlongURI { // only reachable when replaying a history generated without the switch
		m.skipped[c14SkipOverlong]++
		return nil
	}
	before, stage, err := m.c.Reimport("nft")
	if err != nil {
		if overlong != "" && stage == "import" {
			return pbt.Failf("C14/reimport-rejects-uri-set-by-transfer", "token %s got a uri longer than 256 bytes through an accepted transfer; the module's own export is refused on import: %v", overlong, err)
		}
		return pbt.Failf("C14/reimport-"+stage, "nft genesis round trip with %d classes (%d holding tokens): %v\nexported: %s", len(m.classes), holding, err, before)
	}
	if err := m.check(); err != nil { // ownership, restrictions, creators, every record as before
		return err
	}
	if after := m.exportJSON(); !bytes.Equal(before, after) {
		return pbt.Failf("C14/reimport-export-differs", "the restored state exports a different genesis\nbefore: %s\nafter:  %s", before, after)
	}
	b2i := func(b bool) int {
		if b {
			return 1
		}
		return 0
	}
	m.nReimport++
	m.nReimportMultiClass += b2i(holding >= 2)
	m.nReimportRestricted += b2i(restricted)
	m.nReimportHanded += b2i(handed)
	m.nReimportMoved += b2i(moved)
	m.nReimportBurned += b2i(burned)
	m.sinceReimport = 0
	return nil
}

// ---------------------------------------------------------------------------------------------
// observation: every query answer equals the model

func (m *c14Machine) check() error {
	k := m.c.E.K.NFT
	ctx := context.Context(m.c.Ctx)
	allClassIDs := append(append([]string{}, c14ClassIDs...), c14OddClassIDs...)
	perOwner := map[string]map[string][]string{} // owner -> class -> ids
	for _, d := range allClassIDs {
		cl := m.classes[d]
		dres, derr := k.Denom(ctx, &nfttypes.QueryDenomRequest{DenomId: d})
		sres, serr := k.Supply(ctx, &nfttypes.QuerySupplyRequest{DenomId: d})
		if cl == nil {
			if derr == nil {
				return pbt.Failf("C14/phantom-class", "class %q exists in the code, never issued in the model: %+v", d, dres.Denom)
			}
			if d != "" && (serr != nil || sres.Amount != 0) {
				return pbt.Failf("C14/phantom-supply", "supply of non-existent class %q = %v %v", d, sres, serr)
			}
			continue
		}
		if derr != nil {
			return pbt.Failf("C14/class-lost", "class %s: %v", d, derr)
		}
		want := nfttypes.Denom{Id: d, Name: cl.name, Schema: cl.schema, Creator: cl.creator, Symbol: cl.symbol, MintRestricted: cl.mintR,
			UpdateRestricted: cl.updR, Description: cl.desc, Uri: cl.uri, UriHash: cl.uriHash, Data: cl.data}
		if *dres.Denom != want {
			return pbt.Failf("C14/class-record", "class %s reads %+v, model %+v", d, *dres.Denom, want)
		}
		toks := m.toks[d]
		if serr != nil || sres.Amount != uint64(len(toks)) {
			return pbt.Failf("C14/supply", "supply of %s = %v (%v), model has %d tokens", d, sres, serr, len(toks))
		}
		// collection
		cres, err := k.Collection(ctx, &nfttypes.QueryCollectionRequest{DenomId: d})
		if err != nil {
			return pbt.Failf("C14/collection-query", "collection %s: %v", d, err)
		}
		// a class may hold more tokens than one page: follow the pages (default limit) to the end
		for page := cres; page.Pagination != nil && len(page.Pagination.NextKey) > 0; {
			page, err = k.Collection(ctx, &nfttypes.QueryCollectionRequest{DenomId: d, Pagination: &query.PageRequest{Key: page.Pagination.NextKey}})
			if err != nil {
				return pbt.Failf("C14/collection-query", "collection %s, next page: %v", d, err)
			}
			cres.Collection.NFTs = append(cres.Collection.NFTs, page.Collection.NFTs...)
		}
		if cres.Collection.Denom != want {
			return pbt.Failf("C14/class-record", "collection %s carries class %+v, model %+v", d, cres.Collection.Denom, want)
		}
		if len(cres.Collection.NFTs) != len(toks) {
			return pbt.Failf("C14/collection", "collection %s has %d tokens, model %d", d, len(cres.Collection.NFTs), len(toks))
		}
		seen := map[string]bool{}
		for _, n := range cres.Collection.NFTs {
			tk := toks[n.Id]
			if tk == nil || seen[n.Id] {
				return pbt.Failf("C14/collection", "collection %s lists unknown/duplicate token %q", d, n.Id)
			}
			seen[n.Id] = true
			if n.Owner != tk.owner {
				return pbt.Failf("C14/owner", "token %s/%s owned by %s, model %s", d, n.Id, n.Owner, tk.owner)
			}
			if n.Name != tk.name || n.URI != tk.uri || n.UriHash != tk.hash || n.Data != tk.data {
				return pbt.Failf("C14/token-record", "token %s/%s reads %+v, model %+v", d, n.Id, n, *tk)
			}
		}
		// single-token queries, existing and not
		ids := append(append([]string{}, c14TokenIDs...), c14OddTokenIDs...)
		for id := range toks { // and every other token the model holds (burst ids)
			known := false
			for _, x := range ids {
				known = known || x == id
			}
			if !known {
				ids = append(ids, id)
			}
		}
		sort.Strings(ids)
		for _, id := range ids {
			tk := toks[id]
			nres, err := k.NFT(ctx, &nfttypes.QueryNFTRequest{DenomId: d, TokenId: id})
			if tk == nil {
				if err == nil {
					return pbt.Failf("C14/phantom-token", "token %s/%q exists in the code only: %+v", d, id, nres.NFT)
				}
				continue
			}
			if err != nil {
				return pbt.Failf("C14/token-lost", "token %s/%s: %v", d, id, err)
			}
			n := nres.NFT
			if n.Id != id || n.Owner != tk.owner || n.Name != tk.name || n.URI != tk.uri || n.UriHash != tk.hash || n.Data != tk.data {
				return pbt.Failf("C14/token-record", "token %s/%s reads %+v, model %+v", d, id, *n, *tk)
			}
			if perOwner[tk.owner] == nil {
				perOwner[tk.owner] = map[string][]string{}
			}
			perOwner[tk.owner][d] = append(perOwner[tk.owner][d], id)
		}
		// balances: per owner and their sum
		var sum uint64
		for i := range m.c.E.Users {
			a := m.addr(i)
			bres, err := k.Supply(ctx, &nfttypes.QuerySupplyRequest{DenomId: d, Owner: a})
			if err != nil {
				return pbt.Failf("C14/balance-query", "balance of %s in %s: %v", a, d, err)
			}
			if bres.Amount != uint64(len(perOwner[a][d])) {
				return pbt.Failf("C14/balance", "balance of U%d in %s = %d, model %d", i, d, bres.Amount, len(perOwner[a][d]))
			}
			sum += bres.Amount
		}
		if sum != sres.Amount {
			return pbt.Failf("C14/supply-vs-balances", "class %s: supply %d, sum of balances %d", d, sres.Amount, sum)
		}
	}
	// owner index
	for i := range m.c.E.Users {
		a := m.addr(i)
		got := map[string][]string{}
		var next []byte
		for pageNo := 0; ; pageNo++ {
			ores, err := k.NFTsOfOwner(ctx, &nfttypes.QueryNFTsOfOwnerRequest{Owner: a, Pagination: &query.PageRequest{Key: next}})
			if err != nil {
				return pbt.Failf("C14/owner-query", "NFTsOfOwner(U%d): %v", i, err)
			}
			inPage := map[string]bool{}
			for _, idc := range ores.Owner.IDCollections {
				if inPage[idc.DenomId] {
					return pbt.Failf("C14/owner-index", "NFTsOfOwner(U%d) lists class %s twice", i, idc.DenomId)
				}
				inPage[idc.DenomId] = true
				got[idc.DenomId] = append(got[idc.DenomId], idc.TokenIds...) // a class may continue on the next page
			}
			if ores.Pagination == nil || len(ores.Pagination.NextKey) == 0 {
				break
			}
			next = ores.Pagination.NextKey
			if pageNo > 50 {
				return pbt.Failf("C14/owner-query", "NFTsOfOwner(U%d) does not end after 50 pages", i)
			}
		}
		want := perOwner[a]
		if len(got) != len(want) {
			return pbt.Failf("C14/owner-index", "NFTsOfOwner(U%d) = %v, model %v", i, got, want)
		}
		for d, ids := range want {
			g := got[d]
			sort.Strings(g)
			w := append([]string{}, ids...)
			sort.Strings(w)
			if strings.Join(g, ",") != strings.Join(w, ",") {
				return pbt.Failf("C14/owner-index", "NFTsOfOwner(U%d) class %s = %v, model %v", i, d, g, w)
			}
		}
	}
	// list of classes
	lres, err := k.Denoms(ctx, &nfttypes.QueryDenomsRequest{})
	if err != nil {
		return pbt.Failf("C14/denoms-query", "%v", err)
	}
	if len(lres.Denoms) != len(m.classes) {
		return pbt.Failf("C14/class-list", "Denoms lists %d classes, model %d", len(lres.Denoms), len(m.classes))
	}
	for _, d := range lres.Denoms {
		if m.classes[d.Id] == nil {
			return pbt.Failf("C14/class-list", "Denoms lists unknown class %q", d.Id)
		}
	}
	if msg, broken := nftkeeper.SupplyInvariant(k)(m.c.Ctx); broken {
		return pbt.Failf("C14/supply-invariant", "%s", msg)
	}
	return nil
}

func (m *c14Machine) Finish() error { return nil }

func (m *c14Machine) Classify() (bool, []string) {
	var cl []string
	add := func(c bool, name string) {
		if c {
			cl = append(cl, name)
		}
	}
	add(m.nBurst > 0, "class-with->100-tokens")
	add(m.nReimportAfterBurst > 0, "restart-with-a-class-of->100-tokens")
	add(m.nBurnRemint > 0, "burn-then-remint")
	add(m.nHandoverMint > 0, "handover-then-mint")
	add(m.nRestrictedEdit > 0, "restricted-class-edit-attempt")
	add(m.nRestrictedXfer > 0, "restricted-class-transfer-with-changes-attempt")
	add(m.nSelfXfer > 0, "transfer-to-self")
	add(m.nSentinelXfer > 0, "transfer-all-sentinel")
	add(m.nChangeXfer > 0, "transfer-with-changes")
	add(m.nStrangerRefused > 0, "non-entitled-actor-refused")
	add(len(m.flagCombos) == 4, "all-four-flag-combinations")
	for _, f := range []string{"class-flags-mintR=false-updR=false", "class-flags-mintR=false-updR=true", "class-flags-mintR=true-updR=false", "class-flags-mintR=true-updR=true"} {
		add(m.flagCombos[f], f)
	}
	add(m.nAccepted >= 10, "accepted>=10")
	add(m.nInvalidRefused > 0, "malformed-input-refused")
	add(m.nLax > 0, "malformed-input-accepted(validation-laxer-than-documented)")
	add(m.nReimport > 0, "reimport")
	add(m.nReimport >= 2, "reimport-twice")
	add(m.nReimportMultiClass > 0, "reimport-with-tokens-in-2+-classes")
	add(m.nReimportRestricted > 0, "reimport-with-tokens-in-restricted-class")
	add(m.nReimportHanded > 0, "reimport-with-handed-over-class")
	add(m.nReimportMoved > 0, "reimport-with-token-not-owned-by-class-creator")
	add(m.nReimportBurned > 0, "reimport-after-burn")
	add(m.nAcceptedAfterReimport > 0, "reimport-then-accepted-message")
	add(m.nStrangerAfterReimport > 0, "reimport-then-non-entitled-actor-refused")
	add(m.nRestrictedAfterReimport > 0, "reimport-then-restricted-class-change-refused")
	add(m.nCreatorActsAfterReimport > 0, "reimport-then-class-creator-uses-his-authority")
	add(m.nRemintAfterReimport > 0, "reimport-then-remint-of-burned-id")
	for _, n := range c14Notes {
		add(m.cnt[n] > 0, n)
	}
	for n := range m.skipped {
		cl = append(cl, n)
	}
	return m.nBurnRemint > 0 || m.nHandoverMint > 0 || m.nRestrictedEdit > 0, cl
}

var c14Notes = []string{
	"issue-optional-fields-all-empty", "issue-optional-fields-all-given", "issue-optional-fields-mixed", "issue-with-uri-hash",
	"mint-to-sender", "mint-to-other", "restricted-mint-by-creator-to-other", "restricted-mint-by-creator-to-himself",
	"restricted-mint-by-stranger-refused", "restricted-mint-by-stranger-for-the-creator-refused",
	"unrestricted-mint-by-stranger", "unrestricted-mint-by-stranger-for-the-creator",
	"mint-optional-fields-all-empty", "mint-optional-fields-all-given",
	"edit-all-do-not-modify", "edit-some-do-not-modify", "edit-no-do-not-modify", "edit-empties-a-field",
	"edit-by-class-creator-who-is-not-the-owner-refused", "transfer-by-class-creator-who-is-not-the-owner-refused",
	"burn-by-class-creator-who-is-not-the-owner-refused", "burn-by-owner-who-is-the-class-creator", "burn-by-owner-who-is-not-the-class-creator",
	"class-handover-to-current-creator", "class-handover-to-other", "empty-id-refused",
	"transfer-sets-overlong-uri(validation-laxer-than-on-mint-and-edit)",
}

const c14Rule = "rapid state machine over 4 class ids (+10 odd ids) x 4 token ids (+5 odd ids), 4 senders, 5 recipients: issue (all flag combinations, optional fields empty/given) / mint (to the sender, to another account, for the class creator; optional fields empty/given) / edit (all, some, no do-not-modify placeholders) / transfer (all-sentinel, one field, mixed; to self) / burn / class hand-over (incl. to the current creator) / restart of the module from its own exported genesis (the model continues unchanged), the rightful actor 2 times in 3, the class creator acting on tokens he does not own 1 time in 6; non-trivial = history with a burn-then-remint of one id, or a class hand-over followed by a mint, or an edit attempt in an update-restricted class; distinct by SHA-256 of the op list"

func init() { pbt.RegisterMachine("c14", newC14) }

func TestReplay(t *testing.T) { pbt.ReplayMain(t) }

func TestC14(t *testing.T) { pbt.RunMachine(t, "C14", "c14", c14Rule, newC14) }
