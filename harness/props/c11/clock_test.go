package c11

// Host-clock replica of C11. The same history is executed twice from the same genesis: at once (R0) and after
// a real, bounded sleep (R4). Genesis time and block times are placed relative to the harness start T0 so
// that for a candidate threshold theta:  now_R0 - t  <  theta  <  now_R4 - t   for the block times t of the
// history. Code that compares the host clock with chain time against theta then behaves differently in the
// two runs; code that never reads the host clock cannot (so a slow machine can only make the test miss,
// never raise a false alarm). This is the one place where a check reads the wall clock.

import (
	sdkmath "cosmossdk.io/math"
	"fmt"
	coinswaptypes "mods.irisnet.org/modules/coinswap/types"
	"os"
	"path/filepath"
	"regexp"
	"sort"
	"strconv"
	"strings"
	"testing"
	"time"

	tmbytes "github.com/cometbft/cometbft/libs/bytes"
	sdk "github.com/cosmos/cosmos-sdk/types"
	"pgregory.net/rapid"

	oracletypes "mods.irisnet.org/modules/oracle/types"
	servicetypes "mods.irisnet.org/modules/service/types"
	"mods.irisnet.org/simapp"

	"verifharness/chain"
	"verifharness/pbt"
)

// clockOpts: service genesis with the oracle-price system service, as an application's InitChainer installs it.
func clockOpts(genesis time.Time) chain.Options {
	o := nodeOpts
	o.GenesisTime = genesis
	o.GenesisMod = func(app *simapp.SimApp, gs simapp.GenesisState) {
		baseGenesisMod(app, gs) // includes the oracle-price system service
	}
	return o
}

// scanThresholds looks for duration constants next to host-clock reads in the module sources (generator
// input only: it proposes candidate thresholds to straddle; the verdict always comes from executing both runs).
func scanThresholds(root string) []time.Duration {
	clock := regexp.MustCompile(`time\.(Since|Now|Until)\(`)
	dur := regexp.MustCompile(`(?:(\d+)\s*\*\s*)?time\.(Second|Minute|Hour)(?:\s*\*\s*(\d+))?`)
	unit := map[string]time.Duration{"Second": time.Second, "Minute": time.Minute, "Hour": time.Hour}
	seen := map[time.Duration]bool{}
	_ = filepath.Walk(root, func(p string, info os.FileInfo, err error) error {
		if err != nil || info.IsDir() || !strings.HasSuffix(p, ".go") || strings.HasSuffix(p, "_test.go") ||
			strings.Contains(p, "/simulation/") || strings.Contains(p, "/client/") || strings.HasSuffix(p, ".pb.go") {
			return nil
		}
		bz, err := os.ReadFile(p)
		if err != nil {
			return nil
		}
		lines := strings.Split(string(bz), "\n")
		for i, l := range lines {
			if !clock.MatchString(l) {
				continue
			}
			lo, hi := i-3, i+3
			if lo < 0 {
				lo = 0
			}
			if hi >= len(lines) {
				hi = len(lines) - 1
			}
			for _, m := range dur.FindAllStringSubmatch(strings.Join(lines[lo:hi+1], "\n"), -1) {
				n := int64(1)
				if m[1] != "" {
					n, _ = strconv.ParseInt(m[1], 10, 64)
				}
				if m[3] != "" {
					k, _ := strconv.ParseInt(m[3], 10, 64)
					n *= k
				}
				seen[time.Duration(n)*unit[m[2]]] = true
			}
		}
		return nil
	})
	var out []time.Duration
	for d := range seen {
		out = append(out, d)
	}
	sort.Slice(out, func(i, j int) bool { return out[i] < out[j] })
	return out
}

func repoRoot() string {
	if r := os.Getenv("VERIF_REPO"); r != "" {
		return r
	}
	return "/repo"
}

// clockCase is the replayable form of one straddle experiment.
type clockCase struct {
	ThetaNs int64     `json:"theta_ns"`
	MarginS int       `json:"margin_s"`
	Ops     []blockOp `json:"ops"`
}

// clockTemplate produces the scripted prefix that makes the known clock-reading paths execute: a feed named
// like an exchange pair gets a value, then the oracle-price system service is called and a binding priced
// in a non-base denom is used. Each step looks at the baseline replica's state.
func (h *hist) clockTemplate(step int) (blockOp, bool) {
	u := func(i int) string { return h.addr(i) }
	tiny := int64(time.Millisecond)
	switch step {
	case 0:
		return blockOp{Dt: tiny, Txs: []txSpec{
			{0, h.enc(&servicetypes.MsgDefineService{Name: "pricesvc", Description: "d", Tags: []string{"t"}, Author: u(0), AuthorDescription: "a", Schemas: hSchemas})},
			{1, h.enc(&servicetypes.MsgDefineService{Name: "usdtsvc", Description: "d", Tags: []string{"t"}, Author: u(1), AuthorDescription: "a", Schemas: hSchemas})},
		}}, true
	case 1:
		return blockOp{Dt: tiny, Txs: []txSpec{
			{0, h.enc(&servicetypes.MsgBindService{ServiceName: "pricesvc", Provider: u(0), Deposit: coins("stake", 25000), Pricing: `{"price":"1stake"}`, QoS: 1, Options: "{}", Owner: u(0)})},
		}}, true
	case 2:
		return blockOp{Dt: tiny, Txs: []txSpec{
			{2, h.enc(&oracletypes.MsgCreateFeed{FeedName: "usdt-stake", LatestHistory: 3, Description: "pair", Creator: u(2), ServiceName: "pricesvc", Providers: []string{u(0)},
				Input: hInput, Timeout: 2, ServiceFeeCap: coins("stake", 50), RepeatedFrequency: 3, AggregateFunc: "avg", ValueJsonPath: "last", ResponseThreshold: 1},
				&oracletypes.MsgStartFeed{FeedName: "usdt-stake", Creator: u(2)})},
		}}, true
	case 3, 4:
		// answer whatever request is active (the batch is issued by the end blocker)
		var txs []txSpec
		ctx := h.n.Ctx()
		h.n.K.Service.IterateRequests(ctx, func(id tmbytes.HexBytes, r servicetypes.CompactRequest) bool {
			if h.n.K.Service.IsRequestActive(ctx, id) && r.Provider == u(0) {
				txs = append(txs, txSpec{0, h.enc(&servicetypes.MsgRespondService{RequestId: id.String(), Provider: u(0), Result: hResult, Output: `{"header":{},"body":{"last":"2.5"}}`})})
			}
			return false
		})
		return blockOp{Dt: tiny, Txs: txs}, true
	case 5:
		return blockOp{Dt: tiny, Txs: []txSpec{
			{1, h.enc(&servicetypes.MsgBindService{ServiceName: "usdtsvc", Provider: u(1), Deposit: coins("stake", 50000), Pricing: `{"price":"10usdt"}`, QoS: 1, Options: "{}", Owner: u(1)})},
			// an order whose deadline lies one second after the last block's time: whether it is still valid is a matter
			// of block time alone
			{3, h.enc(&coinswaptypes.MsgAddLiquidity{MaxToken: sdk.NewInt64Coin("btc", 2000), ExactStandardAmt: sdkmath.NewInt(1000), MinLiquidity: sdkmath.OneInt(),
				Deadline: h.n.Time.Unix() + 1, Sender: u(3)})},
		}}, true
	case 6:
		return blockOp{Dt: tiny, Txs: []txSpec{
			{3, h.enc(&servicetypes.MsgCallService{ServiceName: servicetypes.OraclePriceServiceName, Providers: []string{servicetypes.OraclePriceServiceProvider.String()}, Consumer: u(3),
				Input: `{"header":{},"body":{"pair":"usdt-stake"}}`, ServiceFeeCap: coins("stake", 10), Timeout: 1})},
			{2, h.enc(&servicetypes.MsgCallService{ServiceName: "usdtsvc", Providers: []string{u(1)}, Consumer: u(2), Input: hInput, ServiceFeeCap: coins("stake", 100), Timeout: 3})},
		}}, true
	}
	return blockOp{}, false
}

// tinyDts rewrites block-time steps to milliseconds so that all block times stay close to the genesis time.
func tinyDts(op blockOp) blockOp {
	op.Dt = int64(time.Millisecond) * (1 + op.Dt%7)
	op.Restart, op.Export = false, ""
	return op
}

func runHistory(genesis time.Time, ops []blockOp) ([]blockDigest, error) {
	n, err := chain.NewNode(clockOpts(genesis), nil, 1)
	if err != nil {
		return nil, err
	}
	var out []blockDigest
	for _, op := range ops {
		resp, err := runBlock(n, op)
		if err != nil {
			return nil, err
		}
		out = append(out, digestBlock(n, resp))
	}
	return out, nil
}

// clockCheck runs one replayable straddle experiment (used by replay; the rapid test batches the sleeps).
func clockCheck(c clockCase) (error, bool, []string) {
	margin := time.Duration(c.MarginS) * time.Second
	t0 := time.Now()
	g := t0.Add(-time.Duration(c.ThetaNs)).Add(margin).Truncate(time.Millisecond).UTC()
	d0, err := runHistory(g, c.Ops)
	if err != nil {
		return pbt.Failf("C11/block-failed", "clock baseline: %v", err), false, nil
	}
	time.Sleep(time.Until(t0.Add(2*margin + 500*time.Millisecond)))
	d4, err := runHistory(g, c.Ops)
	if err != nil {
		return pbt.Failf("C11/block-failed", "clock replica: %v", err), false, nil
	}
	for i := range d0 {
		if diff := diffDigest(d0[i], d4[i]); diff != "" {
			return pbt.Failf("C11/host-clock", "theta=%s: block %d differs between a run at T0 and a run %s later: %s", time.Duration(c.ThetaNs), i+1, 2*margin, diff), true, nil
		}
	}
	return nil, true, nil
}

func init() { pbt.RegisterPure("c11clock", clockCheck) }

const c11ClockRule = "per candidate threshold theta (duration constants found next to host-clock reads in /repo/modules plus a fixed grid): a history = scripted prefix (feed with a value, oracle-price call, binding priced in a non-base denom) + generated all-module blocks with millisecond steps, genesis time = T0 - theta + margin; executed at T0 and again after sleeping 2*margin; per-block digests must be identical; non-trivial = the oracle-price call transaction succeeded in the baseline; distinct by SHA-256 of (theta, ops)"

func TestC11Clock(t *testing.T) {
	marginS := 6
	if v, err := strconv.Atoi(os.Getenv("VERIF_C11_MARGIN_S")); err == nil && v > 0 {
		marginS = v
	}
	margin := time.Duration(marginS) * time.Second
	thetas := scanThresholds(filepath.Join(repoRoot(), "modules"))
	grid := []time.Duration{0, time.Second, time.Minute, 10 * time.Minute, time.Hour, 24 * time.Hour}
	thetas = append(thetas, 0, 5*time.Minute)
	if os.Getenv("VERIF_TIER") == "thorough" {
		thetas = append(thetas, grid...)
	}
	sort.Slice(thetas, func(i, j int) bool { return thetas[i] < thetas[j] })
	uniq := thetas[:0]
	for i, d := range thetas {
		if i == 0 || d != thetas[i-1] {
			uniq = append(uniq, d)
		}
	}
	thetas = uniq
	extra := 6
	if v, err := strconv.Atoi(os.Getenv("VERIF_C11_CLOCK_BLOCKS")); err == nil {
		extra = v
	}
	st := pbt.NewStats("C11", "c11clock", c11ClockRule)
	defer st.Flush()
	rapid.Check(t, func(rt *rapid.T) {
		type run struct {
			cs      clockCase
			genesis time.Time
			d0      []blockDigest
			callOK  bool
		}
		t0 := time.Now()
		var runs []run
		for ti, theta := range thetas {
			g := t0.Add(-theta).Add(margin).Truncate(time.Millisecond).UTC()
			n, err := chain.NewNode(clockOpts(g), nil, 1)
			if err != nil {
				rt.Fatalf("node: %v", err)
			}
			h := &hist{n: n, w: newWorld(), rich: 4, noTemplate: true}
			r := run{cs: clockCase{ThetaNs: int64(theta), MarginS: marginS}, genesis: g}
			exec := func(op blockOp) {
				resp, err := runBlock(n, op)
				if err != nil {
					rt.Fatalf("clock baseline block failed: %v", err)
				}
				h.observe(op, resp)
				r.cs.Ops = append(r.cs.Ops, op)
				r.d0 = append(r.d0, digestBlock(n, resp))
				for i, tx := range op.Txs {
					for _, raw := range tx.Msgs {
						if strings.Contains(string(raw), `"oracle-price"`) && resp.TxResults[i].Code == 0 {
							r.callOK = true
						}
					}
				}
			}
			for step := 0; ; step++ {
				op, ok := h.clockTemplate(step)
				if !ok {
					break
				}
				exec(op)
			}
			k := rapid.IntRange(0, extra).Draw(rt, fmt.Sprintf("blocks%d", ti))
			for i := 0; i < k; i++ {
				exec(tinyDts(h.nextBlock(rt, 3)))
			}
			runs = append(runs, r)
		}
		late := time.Since(t0) > margin-2*time.Second
		time.Sleep(time.Until(t0.Add(2*margin + 500*time.Millisecond)))
		for _, r := range runs {
			d4, err := runHistory(r.genesis, r.cs.Ops)
			if err != nil {
				rt.Fatalf("clock replica failed: %v", err)
			}
			for i := range r.d0 {
				if diff := diffDigest(r.d0[i], d4[i]); diff != "" {
					err := pbt.Failf("C11/host-clock", "theta=%s: block %d differs between a run at T0 and a run %s later: %s", time.Duration(r.cs.ThetaNs), i+1, 2*margin, diff)
					if pbt.IsKnown("C11/host-clock") {
						st.Exclude("C11/host-clock")
						break
					}
					p := pbt.WriteViolation("C11", "c11clock", r.cs, err)
					rt.Fatalf("VIOLATION-FILE %s\n%v", p, err)
				}
			}
			cl := []string{"theta=" + time.Duration(r.cs.ThetaNs).String()}
			if late {
				cl = append(cl, "generation-slower-than-margin")
			}
			if r.callOK {
				cl = append(cl, "oracle-price-call-ok")
			}
			st.Case(r.cs, r.callOK && !late, cl)
		}
	})
}

var _ = sdk.AccAddress{}
