package c11

// History generator shared by C11 (determinism) and C12 (export/import): blocks of signed transactions over
// all ten irismod modules on the A-driver. Operations are plain data (messages as codec JSON), the
// generator keeps a light "world" of objects it has created so that most messages are valid.

import (
	"crypto/sha256"
	"encoding/hex"
	"encoding/json"
	"fmt"
	"github.com/tidwall/gjson"
	"math"
	"os"
	"sort"
	"strconv"
	"strings"
	"time"

	sdkmath "cosmossdk.io/math"
	abci "github.com/cometbft/cometbft/abci/types"
	tmbytes "github.com/cometbft/cometbft/libs/bytes"
	sdk "github.com/cosmos/cosmos-sdk/types"
	"pgregory.net/rapid"

	coinswaptypes "mods.irisnet.org/modules/coinswap/types"
	farmtypes "mods.irisnet.org/modules/farm/types"
	htlctypes "mods.irisnet.org/modules/htlc/types"
	mttypes "mods.irisnet.org/modules/mt/types"
	nfttypes "mods.irisnet.org/modules/nft/types"
	oracletypes "mods.irisnet.org/modules/oracle/types"
	randomtypes "mods.irisnet.org/modules/random/types"
	recordtypes "mods.irisnet.org/modules/record/types"
	servicetypes "mods.irisnet.org/modules/service/types"
	tokentypes "mods.irisnet.org/modules/token/types"
	tokenv1 "mods.irisnet.org/modules/token/types/v1"

	govv1 "github.com/cosmos/cosmos-sdk/x/gov/types/v1"

	authtypes "github.com/cosmos/cosmos-sdk/x/auth/types"
	banktypes "github.com/cosmos/cosmos-sdk/x/bank/types"
	govtypes "github.com/cosmos/cosmos-sdk/x/gov/types"

	"verifharness/chain"
)

type txSpec struct {
	User int               `json:"user"`
	Msgs []json.RawMessage `json:"msgs"`
}

type blockOp struct {
	Dt      int64    `json:"dt"`
	Txs     []txSpec `json:"txs,omitempty"`
	Restart bool     `json:"restart,omitempty"` // restart the restarting replica before this block
	Export  string   `json:"export,omitempty"`  // C12: "asis" = export/import round trip after this block
	Genesis string   `json:"genesis,omitempty"` // first op only: genesis variant the replicas are built from ("" = default)
	Idle    int      `json:"idle,omitempty"`    // number of empty blocks (same time step) that follow this block
	Start   int64    `json:"start,omitempty"`   // first op only: the chain's initial height (0 = 1)
}

// expandIdle turns a block followed by op.Idle empty blocks into the list of single blocks.
func expandIdle(op blockOp) []blockOp {
	idle := op.Idle
	op.Idle = 0
	out := []blockOp{op}
	for i := 0; i < idle; i++ {
		out = append(out, blockOp{Dt: op.Dt})
	}
	return out
}

const (
	hSchemas  = `{"input":{"type":"object"},"output":{"type":"object"}}`
	hInput    = `{"header":{},"body":{}}`
	hResult   = `{"code":200,"message":""}`
	farFuture = int64(4102444800) // 2100-01-01, swap deadlines
)

type hNFT struct {
	Denom, ID string
	Owner     int
}
type hMT struct {
	Denom, ID string
	Owner     int
}
type hDenom struct {
	ID    string
	Owner int
}
type hBinding struct {
	Svc      string
	Provider int
	Price    int64
	Owner    int // the account that bound the provider (and signs every later change of the binding)
}
type hCtx struct {
	ID       string
	Consumer int
}
type hFeed struct {
	Name    string
	Creator int
	Svc     string
	Upper   bool // the creator wrote its address in upper case (the oracle keeps the spelling)
}

// feedCreator spells the creator's address the way the feed was created with.
func (h *hist) feedCreator(f hFeed) string {
	if f.Upper {
		return strings.ToUpper(h.addr(f.Creator))
	}
	return h.addr(f.Creator)
}
type hHTLC struct {
	ID     string
	Secret string
	To     int
}
type hStake struct {
	Pool string
	User int
}
type hToken struct {
	Symbol, MinUnit string
	Owner           int
	Scale           uint32
}

// world is what the generator knows about the objects its history created (updated from tx results).
type world struct {
	seq        int
	nftDenoms  []hDenom
	nfts       []hNFT
	mtDenoms   []hDenom
	mts        []hMT
	svcs       []string
	bindings   []hBinding
	ctxs       []hCtx
	feeds      []hFeed
	htlcs      []hHTLC
	tokens     []hToken
	stakers    []hStake
	proposals  []uint64       // submitted, not yet voted
	contention int            // successful multi-call transactions of a poor consumer
	paramsSet  int            // proposals that passed through a vote
	modules    map[string]int // successful messages per module
	msgOK      map[string]int
	msgFail    map[string]int
	// counters of the rarer shapes (classes shared by the C11/C12/C13 machines)
	htltCreated, htltClaimed, oracleRandom, seedProviders, timePromoBindings int
	discardedAfterExec, historyShortened, foreignProviders                   int
	autoPaused, foreignPriced, priceCalls, hugePrices, farRandom             int
	rateTemplates, nftTwinIDs, toEscrow, hugeValues, oddValues               int
	upperCreators, upperAddrs, noValue                                       int
	escrows                                                                  map[string]bool // pool escrow addresses named as recipients
}

// shapeClasses names the rarer shapes this history contained (accepted transactions only).
func (w *world) shapeClasses() []string {
	var cl []string
	add := func(ok bool, s string) {
		if ok {
			cl = append(cl, s)
		}
	}
	add(w.htltCreated > 0, "htlt-created")
	add(w.htltClaimed > 0, "htlt-claimed")
	add(w.oracleRandom > 0, "oracle-random-request")
	add(w.oracleRandom > 0 && w.seedProviders >= 2, "oracle-random-request-with->=2-providers")
	add(w.timePromoBindings > 0, "binding-with-time-promotion")
	add(w.discardedAfterExec > 0, "tx-executed-then-discarded")
	add(w.historyShortened > 0, "feed-history-length-edited")
	add(w.foreignProviders > 0, "binding-owner-is-not-provider")
	add(w.autoPaused > 0, "context-paused-by-end-blocker")
	add(w.foreignPriced > 0, "binding-priced-through-exchange-rate")
	add(w.priceCalls > 0, "oracle-price-call-ok")
	add(w.hugePrices > 0, "binding-price>=2^63")
	add(w.rateTemplates > 0, "exchange-rate-template")
	add(w.farRandom > 0, "random-request-due-beyond-2^31")
	add(w.nftTwinIDs > 0, "nft-id-used-in-two-classes")
	add(w.hugeValues > 0, "provider-reported-an-astronomical-value")
	add(w.hugeValues > 0 && w.rateTemplates > 0 && w.foreignPriced > 0, "astronomical-value-in-a-history-with-exchange-rate-feeds-and-bindings-priced-through-them")
	add(w.oddValues > 0, "provider-reported-zero-or-a-negative-value")
	add(w.upperCreators > 0, "feed-creator-written-in-upper-case")
	add(w.upperAddrs > 0, "provider-answered-under-its-address-in-upper-case")
	add(w.noValue > 0, "response-without-the-member-the-feed-reads")
	add(w.toEscrow > 0, "coins-sent-to-a-pool-escrow-by-a-third-party")
	return cl
}

// spell writes a bech32 address the way a user may: mostly as the SDK prints it, sometimes in upper case (the other
// spelling the format allows; it denotes the same account).
func spell(t *rapid.T, addr string) string {
	if rapid.IntRange(0, 1<<20).Draw(t, "spelling")%5 == 4 {
		return strings.ToUpper(addr)
	}
	return addr
}

// hOutput is a provider's response output: the value under the member the feeds read ("last"), sometimes under a
// member spelled otherwise or under none at all (the output schema of the generated services demands no member).
func hOutput(t *rapid.T, rates, sloppy bool) string {
	v := hValue(t, rates)
	if sloppy && rapid.Bool().Draw(t, "sloppy") {
		// one provider (U1) is sloppy about its documents half of the time: batches that only it answers then carry no
		// value at all
		return `{"header":{},"body":{"Last":"3"}}`
	}
	switch rapid.IntRange(0, 1<<20).Draw(t, "member") % 8 {
	case 6:
		return fmt.Sprintf(`{"header":{},"body":{"Last":"%s"}}`, v)
	case 7:
		return `{"header":{},"body":{}}`
	}
	return fmt.Sprintf(`{"header":{},"body":{"last":"%s"}}`, v)
}

// hValue is the number a provider reports: mostly an everyday price, sometimes zero, negative, tiny or astronomically
// large (feed values are what providers say they are; the pair feeds are read back as exchange rates by the service
// module's end blocker).
func hValue(t *rapid.T, rates bool) string {
	if v := os.Getenv("VERIF_HVALUE"); v != "" {
		return v // generator switch for sensitivity runs
	}
	if rates && rapid.IntRange(0, 3).Draw(t, "ratekind") == 0 {
		// the history has exchange-rate feeds: what their providers report is multiplied into prices and deposits
		return rapid.SampledFrom([]string{"1e60", "9e75", "1e76", "1e78", "1e300", "0", "-1", "0.00000001"}).Draw(t, "rate")
	}
	switch k := rapid.IntRange(0, 1<<20).Draw(t, "valkind") % 16; k {
	case 11:
		return "0"
	case 12:
		return fmt.Sprintf("-%d.5", rapid.IntRange(0, 5000).Draw(t, "neg"))
	case 13:
		return "0.00000001"
	case 14:
		return rapid.SampledFrom([]string{"1e30", "1e60", "9e76", "1e78", "1e300"}).Draw(t, "huge")
	case 15:
		return rapid.SampledFrom([]string{"18446744073709551616", "340282366920938463463374607431768211456"}).Draw(t, "pow2")
	}
	return fmt.Sprintf("%d.%02d", rapid.IntRange(0, 5000).Draw(t, "val"), rapid.IntRange(0, 99).Draw(t, "frac"))
}

// startHeights: a chain may start at any height (a restart from an exported genesis continues the old numbering):
// mostly 1, sometimes shortly before the height's big-endian encoding rolls over a byte, two bytes or four bytes.
var startHeights = []int64{1, 1, 1, 1, 215, 65500, 1<<32 - 40}

func drawStart(t *rapid.T) int64 {
	return startHeights[rapid.IntRange(0, len(startHeights)-1).Draw(t, "start")]
}

func newWorld() *world {
	return &world{modules: map[string]int{}, msgOK: map[string]int{}, msgFail: map[string]int{}}
}

type hist struct {
	n    *chain.Node // the baseline replica: Next reads committed state from it
	w    *world
	rich int // users 0..rich-1 hold funds
	// dueBias (C13): prefer operations on objects that fall due in the block being built.
	dueBias bool
	// maxIdle > 0: a block is sometimes followed by a stretch of up to maxIdle empty blocks, so that histories reach
	// heights far from where their objects were created (HTLT expiry is >= 50 blocks away)
	maxIdle int
	// exchange-rate template (see nextBlock): step being emitted (0 = not running), blocks drawn so far
	tmpl, nblocks int
	noTemplate    bool
}

func (h *hist) addr(i int) string { return h.n.Users[i].Addr.String() }

func (h *hist) enc(msgs ...sdk.Msg) []json.RawMessage {
	out := make([]json.RawMessage, len(msgs))
	for i, m := range msgs {
		bz, err := h.n.App.AppCodec().MarshalInterfaceJSON(m)
		if err != nil {
			panic(err)
		}
		out[i] = bz
	}
	return out
}

func decodeMsgs(n *chain.Node, raws []json.RawMessage) ([]sdk.Msg, error) {
	out := make([]sdk.Msg, len(raws))
	for i, r := range raws {
		var m sdk.Msg
		if err := n.App.AppCodec().UnmarshalInterfaceJSON(r, &m); err != nil {
			return nil, err
		}
		out[i] = m
	}
	return out, nil
}

func coins(denom string, amt int64) sdk.Coins { return sdk.NewCoins(sdk.NewInt64Coin(denom, amt)) }

func pick[T any](t *rapid.T, label string, xs []T) T {
	return xs[rapid.IntRange(0, len(xs)-1).Draw(t, label)]
}

// nextBlock draws the next block of the history.
func (h *hist) nextBlock(t *rapid.T, maxTxs int) blockOp {
	// One history in three starts with the exchange-rate template (a service with a provider, the feed "usdt-stake"
	// started and answered, a binding priced in usdt, a call of the oracle-price system service): afterwards prices
	// quoted in usdt can be converted, and contexts mix providers priced in different coins.
	if h.nblocks == 0 && !h.noTemplate && rapid.IntRange(0, 2).Draw(t, "ratetemplate") == 0 {
		h.tmpl = 1
	}
	h.nblocks++
	if h.tmpl > 0 {
		if op, ok := h.clockTemplate(h.tmpl - 1); ok {
			h.tmpl++
			op.Dt = int64(time.Second) * int64(rapid.IntRange(1, 5).Draw(t, "tmpldt"))
			return op
		}
		h.tmpl = 0
		h.w.rateTemplates++
	}
	op := blockOp{}
	switch rapid.IntRange(0, 9).Draw(t, "dtk") {
	case 0:
		op.Dt = 1
	case 1:
		op.Dt = int64(time.Minute) * int64(rapid.IntRange(1, 90).Draw(t, "min"))
	default:
		op.Dt = int64(time.Second) * int64(rapid.IntRange(1, 8).Draw(t, "sec"))
	}
	ntx := rapid.IntRange(0, maxTxs).Draw(t, "ntx")
	used := map[int]bool{}
	for i := 0; i < ntx; i++ {
		tx, ok := h.nextTx(t)
		if !ok {
			continue
		}
		_ = used
		if rapid.IntRange(0, 11).Draw(t, "poison") == 0 {
			// a trailing message that must fail (a coin nobody holds): the earlier messages of the transaction are
			// executed and then discarded, which only leaves a trace in state that lives outside the store
			tx.Msgs = append(tx.Msgs, h.enc(&banktypes.MsgSend{FromAddress: h.addr(tx.User), ToAddress: h.addr(0), Amount: coins("nosuchcoin", 1)})...)
		}
		op.Txs = append(op.Txs, tx)
	}
	if h.maxIdle > 0 && rapid.IntRange(0, 9).Draw(t, "idle?") == 0 {
		if rapid.IntRange(0, 2).Draw(t, "idlek") == 0 {
			op.Idle = rapid.IntRange(1, h.maxIdle).Draw(t, "idle")
		} else {
			op.Idle = rapid.IntRange(1, 6).Draw(t, "idle")
		}
	}
	return op
}

// deadline of a coinswap order: mostly far away, sometimes a few seconds after the last block's time (the order is
// then accepted or refused by block time alone, whatever a node's own clock says).
func (h *hist) deadline(t *rapid.T, ctx sdk.Context) int64 {
	if rapid.IntRange(0, 2).Draw(t, "neardeadline") != 0 {
		return farFuture
	}
	return ctx.BlockTime().Unix() + int64(rapid.SampledFrom([]int{1, 2, 5, 30}).Draw(t, "deadlinein"))
}

// user draws an account: mostly one of the funded users, sometimes one of the two poor ones (1000 stake), so that
// consumers run out of money.
func (h *hist) user(t *rapid.T, label string) int {
	if len(h.n.Users) > h.rich && rapid.IntRange(0, 5).Draw(t, label+"/poor") == 0 {
		return rapid.IntRange(h.rich, len(h.n.Users)-1).Draw(t, label+"/p")
	}
	return rapid.IntRange(0, h.rich-1).Draw(t, label)
}

// nextTx draws one transaction (one or two messages of one module family).
func (h *hist) nextTx(t *rapid.T) (txSpec, bool) {
	w := h.w
	w.seq++
	s := w.seq
	u := h.user(t, "user")
	me := h.addr(u)
	ctx := h.n.Ctx()
	k := h.n.K
	if h.dueBias && rapid.IntRange(0, 2).Draw(t, "due") == 0 {
		if tx, ok := h.dueTx(t); ok {
			return tx, true
		}
	}
	if len(w.feeds) > 0 && rapid.IntRange(0, 2).Draw(t, "feedanswer") == 0 {
		// answer an active request of a feed's context, so that feeds accumulate a value history
		type req struct{ id, provider string }
		var reqs []req
		k.Service.IterateRequests(ctx, func(id tmbytes.HexBytes, r servicetypes.CompactRequest) bool {
			if !k.Service.IsRequestActive(ctx, id) {
				return false
			}
			cid, _ := hex.DecodeString(r.RequestContextId)
			if rc, ok := k.Service.GetRequestContext(ctx, cid); ok && rc.ModuleName == "oracle" {
				reqs = append(reqs, req{id.String(), r.Provider})
			}
			return len(reqs) >= 16
		})
		if len(reqs) > 0 {
			r := pick(t, "feedreq", reqs)
			if pu := userIndex(h.n, r.provider); pu >= 0 {
				out := hOutput(t, w.rateTemplates > 0, pu == 1)
				msgs := h.enc(&servicetypes.MsgRespondService{RequestId: r.id, Provider: spell(t, r.provider), Result: hResult, Output: out})
				if rapid.IntRange(0, 5).Draw(t, "discardanswer") == 3 {
					// the answer (and the feed value it would append) is executed and then discarded with its transaction;
					// the request stays open and can be answered again
					msgs = append(msgs, h.enc(&banktypes.MsgSend{FromAddress: r.provider, ToAddress: h.addr(0), Amount: coins("nosuchcoin", 1)})...)
				}
				return txSpec{pu, msgs}, true
			}
		}
	}
	if len(w.feeds) > 0 && rapid.IntRange(0, 29).Draw(t, "shrinkhist") == 7 {
		// the creator shortens the history of a feed that already holds several values
		for _, f := range w.feeds {
			if n := len(k.Oracle.GetFeedValues(ctx, f.Name)); n >= 2 {
				return txSpec{f.Creator, h.enc(&oracletypes.MsgEditFeed{FeedName: f.Name, Description: "[do-not-modify]", LatestHistory: uint64(rapid.IntRange(1, n-1).Draw(t, "shorter")), Creator: h.feedCreator(f)})}, true
			}
		}
	}
	if (len(w.ctxs) > 0 || len(w.feeds) > 0) && rapid.IntRange(0, 5).Draw(t, "ctxlife") == 0 {
		if tx, ok := h.ctxLifeTx(t); ok {
			return tx, true
		}
	}
	if rapid.IntRange(0, 9).Draw(t, "contention") == 0 {
		// a poor consumer opens several contexts in one transaction against a provider it can pay only once or
		// twice: their first batches fall due in the same end block and not all of them can be charged
		var dear []hBinding
		for _, b := range w.bindings {
			if b.Price >= 300 {
				dear = append(dear, b)
			}
		}
		if len(dear) > 0 && len(h.n.Users) > h.rich {
			b := pick(t, "dearbinding", dear)
			pu := rapid.IntRange(h.rich, len(h.n.Users)-1).Draw(t, "pooruser")
			n := rapid.IntRange(2, 4).Draw(t, "ncalls")
			var msgs []sdk.Msg
			for i := 0; i < n; i++ {
				msgs = append(msgs, &servicetypes.MsgCallService{ServiceName: b.Svc, Providers: []string{h.addr(b.Provider)}, Consumer: h.addr(pu),
					Input: fmt.Sprintf(`{"header":{},"body":{"n":%d}}`, i), ServiceFeeCap: coins("stake", 1000), Timeout: 5})
			}
			return txSpec{pu, h.enc(msgs...)}, true
		}
	}
	if rapid.IntRange(0, 11).Draw(t, "govfam") == 0 {
		if tx, ok := h.govTx(t); ok {
			return tx, true
		}
	}
	fam := rapid.SampledFrom([]string{"coinswap", "coinswap", "farm", "htlc", "mt", "nft", "service", "service", "service", "oracle", "random", "record", "token", "bank"}).Draw(t, "family")
	switch fam {
	case "bank":
		// an account with a running obligation (consumer of a request context, creator of a feed) moves its stake away:
		// the next batch cannot be charged and the end blocker pauses the context on its own; or a drained account is
		// topped up again
		if pools := k.Coinswap.GetAllPools(ctx); len(pools) > 0 && rapid.IntRange(0, 2).Draw(t, "toescrow") == 0 {
			to := pick(t, "escrow", pools).EscrowAddress
			if w.escrows == nil {
				w.escrows = map[string]bool{}
			}
			w.escrows[to] = true
			return txSpec{u, h.enc(&banktypes.MsgSend{FromAddress: me, ToAddress: to, Amount: coins("stake", int64(rapid.IntRange(1, 9).Draw(t, "dust")))})}, true
		}
		var cands []int
		for _, c := range w.ctxs {
			cands = append(cands, c.Consumer)
		}
		for _, f := range w.feeds {
			cands = append(cands, f.Creator)
		}
		if len(cands) == 0 {
			return txSpec{}, false
		}
		who := pick(t, "drain", cands)
		bal := h.n.App.BankKeeper.GetBalance(ctx, h.n.Users[who].Addr, "stake").Amount
		if bal.LT(sdkmath.NewInt(200)) || rapid.IntRange(0, 3).Draw(t, "topup") == 0 {
			from := (who + 1) % h.rich
			return txSpec{from, h.enc(&banktypes.MsgSend{FromAddress: h.addr(from), ToAddress: h.addr(who), Amount: coins("stake", 1_000_000)})}, true
		}
		keep := int64(rapid.SampledFrom([]int{0, 1, 5, 49, 120}).Draw(t, "keep"))
		to := (who + 1) % h.rich
		return txSpec{who, h.enc(&banktypes.MsgSend{FromAddress: h.addr(who), ToAddress: h.addr(to), Amount: sdk.NewCoins(sdk.NewCoin("stake", bal.SubRaw(keep)))})}, true
	case "record":
		n := rapid.IntRange(1, 2).Draw(t, "copies")
		msg := &recordtypes.MsgCreateRecord{Creator: me, Contents: []recordtypes.Content{{Digest: pick(t, "dg", []string{"d0", "d1"}), DigestAlgo: "sha256", URI: "u", Meta: "m"}}}
		msgs := []sdk.Msg{msg}
		if n == 2 {
			msgs = append(msgs, msg)
		}
		return txSpec{u, h.enc(msgs...)}, true
	case "random":
		// providers of the seed service: several of them, so that the module's provider draw has a choice
		nprov, mine := 0, false
		k.Service.IterateServiceBindings(ctx, func(b servicetypes.ServiceBinding) bool {
			if b.ServiceName == randomtypes.ServiceName {
				nprov++
				mine = mine || b.Provider == me
			}
			return false
		})
		switch r := rapid.IntRange(0, 5).Draw(t, "randop"); {
		case r <= 1 && nprov < 4 && !mine && u < h.rich:
			return txSpec{u, h.enc(&servicetypes.MsgBindService{ServiceName: randomtypes.ServiceName, Provider: me, Deposit: coins("stake", 30000),
				Pricing: fmt.Sprintf(`{"price":"%dstake"}`, rapid.IntRange(1, 3).Draw(t, "seedprice")), QoS: uint64(rapid.IntRange(1, 3).Draw(t, "qos")), Options: "{}", Owner: me})}, true
		case r <= 3 && nprov > 0:
			return txSpec{u, h.enc(&randomtypes.MsgRequestRandom{BlockInterval: uint64(rapid.IntRange(0, 4).Draw(t, "interval")), Consumer: spell(t, me), Oracle: true,
				ServiceFeeCap: coins("stake", int64(rapid.SampledFrom([]int{10, 10, 2, 1}).Draw(t, "seedcap")))})}, true
		}
		interval := uint64(rapid.IntRange(0, 6).Draw(t, "interval"))
		if rapid.IntRange(0, 9).Draw(t, "farinterval") == 0 {
			// due beyond the 32-bit range: stays pending for the whole history (and is part of every export)
			interval = rapid.SampledFrom([]uint64{1 << 31, 3_000_000_000, 1 << 40, 1<<62 - 1}).Draw(t, "far")
		}
		return txSpec{u, h.enc(&randomtypes.MsgRequestRandom{BlockInterval: interval, Consumer: spell(t, me)})}, true
	case "nft":
		switch a := rapid.IntRange(0, 5).Draw(t, "nftop"); {
		case a == 0 || len(w.nftDenoms) == 0 || (len(w.nftDenoms) == 1 && len(w.nfts) > 0 && a <= 3):
			return txSpec{u, h.enc(&nfttypes.MsgIssueDenom{Id: fmt.Sprintf("cls%d", s), Name: "class", Schema: "{}", Sender: me, Symbol: "sym",
				MintRestricted: rapid.Bool().Draw(t, "mr"), UpdateRestricted: rapid.Bool().Draw(t, "ur"), Description: "d", Uri: "u", UriHash: "h", Data: `{"k":"v"}`})}, true
		case a <= 2 || len(w.nfts) == 0:
			d := pick(t, "denom", w.nftDenoms)
			id := fmt.Sprintf("nft%d", s)
			if len(w.nfts) > 0 && rapid.IntRange(0, 2).Draw(t, "sameid") != 0 {
				// token ids are unique per class only: reuse the id of a token of another class
				x := pick(t, "twin", w.nfts)
				free := x.Denom != d.ID
				for _, y := range w.nfts {
					if y.Denom == d.ID && y.ID == x.ID {
						free = false
					}
				}
				if free {
					id = x.ID
				}
			}
			return txSpec{d.Owner, h.enc(&nfttypes.MsgMintNFT{Id: id, DenomId: d.ID, Name: "n", URI: "u", Data: `{"x":1}`, Sender: h.addr(d.Owner), Recipient: spell(t, h.addr(h.user(t, "rcpt"))), UriHash: "h"})}, true
		case a == 3:
			x := pick(t, "nft", w.nfts)
			return txSpec{x.Owner, h.enc(&nfttypes.MsgTransferNFT{Id: x.ID, DenomId: x.Denom, Name: "[do-not-modify]", URI: "[do-not-modify]", Data: "[do-not-modify]", UriHash: "[do-not-modify]", Sender: h.addr(x.Owner), Recipient: spell(t, h.addr(h.user(t, "rcpt")))})}, true
		case a == 4:
			x := pick(t, "nft", w.nfts)
			return txSpec{x.Owner, h.enc(&nfttypes.MsgEditNFT{Id: x.ID, DenomId: x.Denom, Name: fmt.Sprintf("n%d", s), URI: "[do-not-modify]", Data: "[do-not-modify]", UriHash: "[do-not-modify]", Sender: h.addr(x.Owner)})}, true
		default:
			x := pick(t, "nft", w.nfts)
			return txSpec{x.Owner, h.enc(&nfttypes.MsgBurnNFT{Id: x.ID, DenomId: x.Denom, Sender: h.addr(x.Owner)})}, true
		}
	case "mt":
		switch a := rapid.IntRange(0, 5).Draw(t, "mtop"); {
		case a == 0 || len(w.mtDenoms) == 0:
			return txSpec{u, h.enc(&mttypes.MsgIssueDenom{Name: fmt.Sprintf("mtd%d", s), Data: []byte("d"), Sender: me})}, true
		case a <= 2 || len(w.mts) == 0:
			d := pick(t, "denom", w.mtDenoms)
			id := ""
			if len(w.mts) > 0 && rapid.Bool().Draw(t, "existing") {
				x := pick(t, "mt", w.mts)
				if x.Denom == d.ID {
					id = x.ID
				}
			}
			return txSpec{d.Owner, h.enc(&mttypes.MsgMintMT{Id: id, DenomId: d.ID, Amount: uint64(rapid.IntRange(1, 1000).Draw(t, "amt")), Data: []byte("m"), Sender: h.addr(d.Owner), Recipient: spell(t, h.addr(h.user(t, "rcpt")))})}, true
		case a == 3:
			x := pick(t, "mt", w.mts)
			return txSpec{x.Owner, h.enc(&mttypes.MsgTransferMT{Id: x.ID, DenomId: x.Denom, Amount: uint64(rapid.IntRange(1, 3).Draw(t, "amt")), Sender: h.addr(x.Owner), Recipient: spell(t, h.addr(h.user(t, "rcpt")))})}, true
		case a == 4:
			x := pick(t, "mt", w.mts)
			return txSpec{x.Owner, h.enc(&mttypes.MsgBurnMT{Id: x.ID, DenomId: x.Denom, Amount: 1, Sender: h.addr(x.Owner)})}, true
		default:
			d := pick(t, "denom", w.mtDenoms)
			return txSpec{d.Owner, h.enc(&mttypes.MsgTransferDenom{Id: d.ID, Sender: h.addr(d.Owner), Recipient: spell(t, h.addr(h.user(t, "rcpt")))})}, true
		}
	case "coinswap":
		pools := k.Coinswap.GetAllPools(ctx)
		denom := pick(t, "cp", []string{"btc", "eth", "usdt"})
		var tok []string
		for _, tk := range w.tokens {
			tok = append(tok, tk.MinUnit)
		}
		if len(tok) > 0 && rapid.IntRange(0, 3).Draw(t, "usetoken") == 0 {
			denom = pick(t, "tokdenom", tok)
		}
		var pool *coinswaptypes.Pool
		for i := range pools {
			if pools[i].CounterpartyDenom == denom {
				pool = &pools[i]
			}
		}
		a := rapid.IntRange(0, 6).Draw(t, "csop")
		if pool == nil {
			return txSpec{u, h.enc(&coinswaptypes.MsgAddLiquidity{MaxToken: sdk.NewInt64Coin(denom, int64(rapid.IntRange(1000, 2000000).Draw(t, "maxtok"))),
				ExactStandardAmt: sdkmath.NewInt(int64(rapid.IntRange(1000, 1000000).Draw(t, "std"))), MinLiquidity: sdkmath.OneInt(), Deadline: h.deadline(t, ctx), Sender: me})}, true
		}
		switch a {
		case 0, 1, 2:
			rcpt := h.addr(h.user(t, "rcpt"))
			if rapid.IntRange(0, 4).Draw(t, "toescrow") == 0 {
				// a third party names a pool's escrow account as the recipient (a donation to the reserve): what the
				// chain answers must not depend on what this process has executed since it started
				rcpt = pick(t, "escrow", pools).EscrowAddress
				if w.escrows == nil {
					w.escrows = map[string]bool{}
				}
				w.escrows[rcpt] = true
			}
			if rapid.Bool().Draw(t, "sell") {
				in, out := "stake", denom
				if rapid.Bool().Draw(t, "dir") {
					in, out = denom, "stake"
				}
				if len(pools) > 1 && rapid.IntRange(0, 2).Draw(t, "route") == 0 {
					other := pick(t, "other", pools)
					if other.CounterpartyDenom != denom {
						in, out = denom, other.CounterpartyDenom
					}
				}
				return txSpec{u, h.enc(&coinswaptypes.MsgSwapOrder{Input: coinswaptypes.Input{Address: me, Coin: sdk.NewInt64Coin(in, int64(rapid.IntRange(1, 5000).Draw(t, "in")))},
					Output: coinswaptypes.Output{Address: rcpt, Coin: sdk.NewInt64Coin(out, 1)}, Deadline: h.deadline(t, ctx), IsBuyOrder: false})}, true
			}
			in, out := "stake", denom
			if rapid.Bool().Draw(t, "dir") {
				in, out = denom, "stake"
			}
			return txSpec{u, h.enc(&coinswaptypes.MsgSwapOrder{Input: coinswaptypes.Input{Address: me, Coin: sdk.NewInt64Coin(in, 1<<40)},
				Output: coinswaptypes.Output{Address: rcpt, Coin: sdk.NewInt64Coin(out, int64(rapid.IntRange(1, 500).Draw(t, "out")))}, Deadline: h.deadline(t, ctx), IsBuyOrder: true})}, true
		case 3:
			bal := h.n.App.BankKeeper.GetBalance(ctx, h.n.Users[u].Addr, pool.LptDenom).Amount
			if !bal.IsPositive() {
				return txSpec{}, false
			}
			amt := bal.QuoRaw(int64(rapid.IntRange(1, 4).Draw(t, "frac")))
			if !amt.IsPositive() {
				amt = bal
			}
			return txSpec{u, h.enc(&coinswaptypes.MsgRemoveLiquidity{WithdrawLiquidity: sdk.NewCoin(pool.LptDenom, amt), MinToken: sdkmath.OneInt(), MinStandardAmt: sdkmath.OneInt(), Deadline: h.deadline(t, ctx), Sender: me})}, true
		case 4:
			side := denom
			if rapid.Bool().Draw(t, "side") {
				side = "stake"
			}
			return txSpec{u, h.enc(&coinswaptypes.MsgAddUnilateralLiquidity{CounterpartyDenom: denom, ExactToken: sdk.NewInt64Coin(side, int64(rapid.IntRange(10, 5000).Draw(t, "amt"))), MinLiquidity: sdkmath.OneInt(), Deadline: h.deadline(t, ctx), Sender: me})}, true
		case 5:
			bal := h.n.App.BankKeeper.GetBalance(ctx, h.n.Users[u].Addr, pool.LptDenom).Amount
			if !bal.IsPositive() {
				return txSpec{}, false
			}
			side := denom
			if rapid.Bool().Draw(t, "side") {
				side = "stake"
			}
			amt := bal.QuoRaw(4)
			if !amt.IsPositive() {
				amt = bal
			}
			return txSpec{u, h.enc(&coinswaptypes.MsgRemoveUnilateralLiquidity{CounterpartyDenom: denom, MinToken: sdk.NewInt64Coin(side, 1), ExactLiquidity: amt, Deadline: h.deadline(t, ctx), Sender: me})}, true
		default:
			return txSpec{u, h.enc(&coinswaptypes.MsgAddLiquidity{MaxToken: sdk.NewInt64Coin(denom, 1<<40), ExactStandardAmt: sdkmath.NewInt(int64(rapid.IntRange(1, 100000).Draw(t, "std"))), MinLiquidity: sdkmath.OneInt(), Deadline: h.deadline(t, ctx), Sender: me})}, true
		}
	case "farm":
		var fpools []farmtypes.FarmPool
		k.Farm.IteratorAllPools(ctx, func(p farmtypes.FarmPool) { fpools = append(fpools, p) })
		pools := k.Coinswap.GetAllPools(ctx)
		a := rapid.IntRange(0, 6).Draw(t, "farmop")
		if len(fpools) == 0 || a == 0 {
			if len(pools) == 0 {
				return txSpec{}, false
			}
			p := pick(t, "lpt", pools)
			rpb := int64(rapid.IntRange(1, 50).Draw(t, "rpb"))
			blocks := int64(rapid.IntRange(3, 30).Draw(t, "blocks"))
			rew := coins("stake", rpb)
			tot := coins("stake", rpb*blocks+int64(rapid.IntRange(0, 5).Draw(t, "extra")))
			if rapid.Bool().Draw(t, "two") {
				rew = rew.Add(sdk.NewInt64Coin("eth", 3))
				tot = tot.Add(sdk.NewInt64Coin("eth", 3*blocks+1))
			}
			return txSpec{u, h.enc(&farmtypes.MsgCreatePool{Description: "farm", LptDenom: p.LptDenom, StartHeight: h.n.Height + 1 + int64(rapid.IntRange(1, 4).Draw(t, "start")),
				RewardPerBlock: rew, TotalReward: tot, Editable: rapid.Bool().Draw(t, "editable"), Creator: me})}, true
		}
		fp := pick(t, "fpool", fpools)
		creator := -1
		for i, us := range h.n.Users {
			if us.Addr.String() == fp.Creator {
				creator = i
			}
		}
		switch a {
		case 1, 2:
			bal := h.n.App.BankKeeper.GetBalance(ctx, h.n.Users[u].Addr, fp.TotalLptLocked.Denom).Amount
			for i := 0; i < h.rich && !bal.IsPositive(); i++ { // prefer a user who holds the staking token
				if b := h.n.App.BankKeeper.GetBalance(ctx, h.n.Users[i].Addr, fp.TotalLptLocked.Denom).Amount; b.IsPositive() {
					u, me, bal = i, h.addr(i), b
				}
			}
			if !bal.IsPositive() {
				return txSpec{}, false
			}
			amt := bal.QuoRaw(int64(rapid.IntRange(2, 10).Draw(t, "frac")))
			if !amt.IsPositive() {
				amt = sdkmath.OneInt()
			}
			return txSpec{u, h.enc(&farmtypes.MsgStake{PoolId: fp.Id, Amount: sdk.NewCoin(fp.TotalLptLocked.Denom, amt), Sender: me})}, true
		case 3:
			if len(w.stakers) > 0 && rapid.IntRange(0, 4).Draw(t, "staker") != 0 {
				st := pick(t, "stk", w.stakers)
				if p, ok := k.Farm.GetPool(ctx, st.Pool); ok {
					fp, u, me = p, st.User, h.addr(st.User)
				}
			}
			return txSpec{u, h.enc(&farmtypes.MsgUnstake{PoolId: fp.Id, Amount: sdk.NewCoin(fp.TotalLptLocked.Denom, sdkmath.NewInt(int64(rapid.IntRange(1, 50).Draw(t, "amt")))), Sender: me})}, true
		case 4:
			if len(w.stakers) > 0 && rapid.IntRange(0, 4).Draw(t, "staker") != 0 {
				st := pick(t, "stk", w.stakers)
				return txSpec{st.User, h.enc(&farmtypes.MsgHarvest{PoolId: st.Pool, Sender: h.addr(st.User)})}, true
			}
			return txSpec{u, h.enc(&farmtypes.MsgHarvest{PoolId: fp.Id, Sender: me})}, true
		case 5:
			if creator < 0 {
				return txSpec{}, false
			}
			return txSpec{creator, h.enc(&farmtypes.MsgAdjustPool{PoolId: fp.Id, AdditionalReward: coins("stake", int64(rapid.IntRange(1, 100).Draw(t, "add"))), Creator: fp.Creator})}, true
		default:
			if creator < 0 || rapid.IntRange(0, 2).Draw(t, "really") != 0 {
				return txSpec{}, false
			}
			return txSpec{creator, h.enc(&farmtypes.MsgDestroyPool{PoolId: fp.Id, Creator: fp.Creator})}, true
		}
	case "htlc":
		if len(w.htlcs) > 0 && rapid.IntRange(0, 2).Draw(t, "claim") == 0 {
			x := pick(t, "htlc", w.htlcs)
			return txSpec{u, h.enc(&htlctypes.MsgClaimHTLC{Sender: me, Id: x.ID, Secret: x.Secret})}, true
		}
		sec := sha256.Sum256([]byte(fmt.Sprintf("secret-%d", s)))
		if x := rapid.IntRange(0, 3).Draw(t, "htlt"); x <= 1 {
			// cross-chain transfer of the genesis asset (deputy U1): incoming = created by the deputy, minted to the
			// recipient on claim; outgoing = created by a holder towards the deputy, burned on claim
			ts := uint64(h.n.Time.Unix())
			hl := hex.EncodeToString(htlctypes.GetHashLock(sec[:], ts))
			lock := uint64(rapid.IntRange(50, 60).Draw(t, "lock"))
			deputy := h.addr(1)
			if x == 0 {
				return txSpec{1, h.enc(&htlctypes.MsgCreateHTLC{Sender: deputy, To: spell(t, h.addr(h.user(t, "to"))), ReceiverOnOtherChain: "r", SenderOnOtherChain: "s",
					Amount: coins(HtltDenom, int64(rapid.IntRange(2, 5000).Draw(t, "amt"))), HashLock: hl, Timestamp: ts, TimeLock: lock, Transfer: true})}, true
			}
			if bal := h.n.App.BankKeeper.GetBalance(ctx, h.n.Users[u].Addr, HtltDenom).Amount; bal.GT(sdkmath.NewInt(2)) && u != 1 {
				amt := bal.QuoRaw(int64(rapid.IntRange(1, 3).Draw(t, "part")))
				if amt.LTE(sdkmath.NewInt(2)) {
					amt = sdkmath.NewInt(3)
				}
				return txSpec{u, h.enc(&htlctypes.MsgCreateHTLC{Sender: me, To: deputy, ReceiverOnOtherChain: "r", SenderOnOtherChain: "s",
					Amount: sdk.NewCoins(sdk.NewCoin(HtltDenom, amt)), HashLock: hl, Timestamp: ts, TimeLock: lock, Transfer: true})}, true
			}
		}
		ts := uint64(0)
		if rapid.Bool().Draw(t, "withts") {
			ts = uint64(h.n.Time.Unix())
		}
		to := h.user(t, "to")
		amt := coins(pick(t, "hd", []string{"stake", "btc"}), int64(rapid.IntRange(1, 1000).Draw(t, "amt")))
		hl := htlctypes.GetHashLock(sec[:], ts)
		return txSpec{u, h.enc(&htlctypes.MsgCreateHTLC{Sender: me, To: spell(t, h.addr(to)), ReceiverOnOtherChain: "r", SenderOnOtherChain: "s", Amount: amt,
			HashLock: hex.EncodeToString(hl), Timestamp: ts, TimeLock: uint64(rapid.IntRange(50, 60).Draw(t, "lock")), Transfer: false})}, true
	case "token":
		switch a := rapid.IntRange(0, 5).Draw(t, "tokop"); {
		case a == 0 || len(w.tokens) == 0:
			scale := uint32(rapid.IntRange(0, 8).Draw(t, "scale"))
			if len(w.tokens) > 0 && rapid.IntRange(0, 4).Draw(t, "crossns") == 0 {
				// the two namespaces are separate: a min unit may equal another token's symbol (and vice versa)
				x := pick(t, "other", w.tokens)
				sym, mu := fmt.Sprintf("aa%dx", s), x.Symbol
				if rapid.Bool().Draw(t, "swapns") {
					sym, mu = x.MinUnit, fmt.Sprintf("zz%dx", s)
				}
				return txSpec{u, h.enc(&tokenv1.MsgIssueToken{Symbol: sym, Name: "Token", Scale: scale, MinUnit: mu,
					InitialSupply: uint64(rapid.IntRange(0, 1000).Draw(t, "init")), MaxSupply: 100000000, Mintable: true, Owner: me})}, true
			}
			return txSpec{u, h.enc(&tokenv1.MsgIssueToken{Symbol: fmt.Sprintf("tk%dx", s), Name: "Token", Scale: scale, MinUnit: fmt.Sprintf("mu%dx", s),
				InitialSupply: uint64(rapid.IntRange(0, 100000).Draw(t, "init")), MaxSupply: 100000000, Mintable: rapid.IntRange(0, 3).Draw(t, "mintable") != 0, Owner: me})}, true
		case a == 1:
			x := pick(t, "tok", w.tokens)
			return txSpec{x.Owner, h.enc(&tokenv1.MsgMintToken{Coin: sdk.NewInt64Coin(x.MinUnit, int64(rapid.IntRange(1, 100000).Draw(t, "amt"))), Receiver: h.addr(h.user(t, "rcpt")), Owner: h.addr(x.Owner)})}, true
		case a == 2:
			x := pick(t, "tok", w.tokens)
			amt := sdkmath.NewInt(int64(rapid.IntRange(1, 50).Draw(t, "amt")))
			if rapid.Bool().Draw(t, "burnmost") { // burn most of what the owner holds: lets a later edit lower the cap below the initial supply
				if bal := h.n.App.BankKeeper.GetBalance(ctx, h.n.Users[x.Owner].Addr, x.MinUnit).Amount; bal.GT(sdkmath.NewInt(10)) {
					amt = bal.MulRaw(int64(rapid.IntRange(5, 10).Draw(t, "tenths"))).QuoRaw(10)
				}
			}
			return txSpec{x.Owner, h.enc(&tokenv1.MsgBurnToken{Coin: sdk.NewCoin(x.MinUnit, amt), Sender: h.addr(x.Owner)})}, true
		case a == 3:
			x := pick(t, "tok", w.tokens)
			if tk, err := k.Token.GetToken(ctx, x.Symbol); err == nil && rapid.Bool().Draw(t, "tightcap") {
				// a cap between what circulates now and what was issued initially (reachable after burns)
				scale := sdkmath.NewIntWithDecimal(1, int(tk.GetScale()))
				circ := h.n.App.BankKeeper.GetSupply(ctx, tk.GetMinUnit()).Amount
				circMain := circ.Add(scale).SubRaw(1).Quo(scale)
				if circMain.IsUint64() && circMain.Uint64() < tk.GetInitialSupply() && circMain.IsPositive() {
					max := circMain.Uint64() + uint64(rapid.Uint64Range(0, tk.GetInitialSupply()-circMain.Uint64()-1).Draw(t, "cap"))
					return txSpec{x.Owner, h.enc(&tokenv1.MsgEditToken{Symbol: x.Symbol, Name: "[do-not-modify]", MaxSupply: max, Mintable: tokentypes.Bool(""), Owner: h.addr(x.Owner)})}, true
				}
			}
			return txSpec{x.Owner, h.enc(&tokenv1.MsgEditToken{Symbol: x.Symbol, Name: fmt.Sprintf("T%d", s), MaxSupply: pick(t, "max", []uint64{0, 0, 50000000, 100000000, 150000000, 1, 1000, 50000}), Mintable: tokentypes.Bool(pick(t, "mint", []string{"", "true", "false"})), Owner: h.addr(x.Owner)})}, true
		default:
			x := pick(t, "tok", w.tokens)
			return txSpec{x.Owner, h.enc(&tokenv1.MsgTransferTokenOwner{SrcOwner: h.addr(x.Owner), DstOwner: h.addr(h.user(t, "dst")), Symbol: x.Symbol})}, true
		}
	case "service":
		a := rapid.IntRange(0, 11).Draw(t, "svcop")
		if len(w.feeds) > 0 && rapid.IntRange(0, 7).Draw(t, "pricecall") == 0 {
			// the oracle-price system service answers from the feed of that name (registered by the oracle keeper in the
			// service keeper's process memory)
			f := pick(t, "pricefeed", w.feeds)
			return txSpec{u, h.enc(&servicetypes.MsgCallService{ServiceName: servicetypes.OraclePriceServiceName, Providers: []string{servicetypes.OraclePriceServiceProvider.String()}, Consumer: me,
				Input: fmt.Sprintf(`{"header":{},"body":{"pair":"%s"}}`, f.Name), ServiceFeeCap: coins("stake", 10), Timeout: 1})}, true
		}
		switch {
		case a == 0 || len(w.svcs) == 0:
			return txSpec{u, h.enc(&servicetypes.MsgDefineService{Name: fmt.Sprintf("svc%d", s), Description: "d", Tags: []string{"t"}, Author: me, AuthorDescription: "a", Schemas: hSchemas})}, true
		case a == 1 || len(w.bindings) == 0:
			svc := pick(t, "svc", w.svcs)
			price := rapid.IntRange(1, 20).Draw(t, "price")
			if rapid.IntRange(0, 3).Draw(t, "dear") == 0 {
				price = rapid.SampledFrom([]int{300, 400, 700}).Draw(t, "dearprice") // a poor consumer can pay one such batch, not two
			}
			pdenom := "stake"
			if rapid.IntRange(0, 4).Draw(t, "pricedenom") == 0 {
				// priced in another coin: the service module converts through the oracle-price system service and a feed
				// named "<coin>-stake"
				pdenom = rapid.SampledFrom([]string{"usdt", "eth"}).Draw(t, "pdenom")
			}
			for _, d := range []string{"usdt", "eth"} {
				// a pair feed holds a value: a price in that coin can be converted now
				if len(k.Oracle.GetFeedValues(ctx, d+"-stake")) > 0 && rapid.Bool().Draw(t, "usepair") {
					pdenom = d
				}
			}
			pricing := fmt.Sprintf(`{"price":"%d%s"`, price, pdenom)
			hugePrice := pdenom == "stake" && rapid.IntRange(0, 11).Draw(t, "hugeprice") == 0
			if hugePrice {
				// nine units of an 18-decimals coin per call: more than a signed 64-bit integer holds
				pricing = fmt.Sprintf(`{"price":"%sstake"`, rapid.SampledFrom([]string{"9223372036854775808", "18446744073709551616", "9223372036854775807"}).Draw(t, "hugep"))
			}
			if rapid.IntRange(0, 2).Draw(t, "timepromo") == 0 {
				// a promotion by time that is in force now, about to start, or about to end (blocks advance 1-8 s, sometimes minutes)
				now := ctx.BlockTime().Unix()
				from := now + int64(rapid.SampledFrom([]int{-3600, -3600, -10, 12, 40}).Draw(t, "promofrom"))
				to := from + int64(rapid.SampledFrom([]int{30, 90, 7200, 7200}).Draw(t, "promolen"))
				pricing += fmt.Sprintf(`,"promotions_by_time":[{"start_time":"%s","end_time":"%s","discount":"%s"}]`,
					time.Unix(from, 0).UTC().Format(time.RFC3339), time.Unix(to, 0).UTC().Format(time.RFC3339), rapid.SampledFrom([]string{"0.5", "0.8", "0.25"}).Draw(t, "promodisc"))
			}
			if rapid.Bool().Draw(t, "promo") {
				pricing += `,"promotions_by_volume":[{"volume":2,"discount":"0.5"}]`
			}
			pricing += "}"
			prov := me
			if rapid.IntRange(0, 2).Draw(t, "foreignprov") == 0 {
				// an owner binds another account as provider: owner and provider indexes are then different things
				prov = h.addr(h.user(t, "prov"))
			}
			deposit := coins("stake", 25000+int64(price)*1000)
			if pdenom != "stake" {
				// the minimum deposit is the converted price times the deposit multiple; feed values go up to 5000
				deposit = coins("stake", 1_000_000_000_000)
			}
			if hugePrice {
				deposit = sdk.NewCoins(sdk.NewCoin("stake", sdkmath.NewIntWithDecimal(1, 24)))
			}
			return txSpec{u, h.enc(&servicetypes.MsgBindService{ServiceName: svc, Provider: prov, Deposit: deposit, Pricing: pricing, QoS: uint64(rapid.IntRange(1, 3).Draw(t, "qos")), Options: "{}", Owner: me})}, true
		case a <= 4:
			b := pick(t, "binding", w.bindings)
			var provs []string
			for _, bb := range w.bindings {
				if bb.Svc == b.Svc {
					provs = append(provs, h.addr(bb.Provider))
				}
			}
			sort.Strings(provs)
			rep := rapid.Bool().Draw(t, "repeated")
			feeCap := coins("stake", int64(rapid.SampledFrom([]int{50, 50, 1000}).Draw(t, "cap")))
			if b.Price == math.MaxInt64 {
				feeCap = sdk.NewCoins(sdk.NewCoin("stake", sdkmath.NewIntWithDecimal(1, 21)))
			}
			msg := &servicetypes.MsgCallService{ServiceName: b.Svc, Providers: provs, Consumer: me, Input: hInput, ServiceFeeCap: feeCap, Timeout: int64(rapid.SampledFrom([]int{1, 2, 3, 4, 5, 6, 6, 9, 12}).Draw(t, "timeout"))}
			if rep {
				msg.Repeated, msg.RepeatedFrequency, msg.RepeatedTotal = true, uint64(msg.Timeout)+uint64(rapid.IntRange(0, 4).Draw(t, "freq")), int64(rapid.IntRange(1, 5).Draw(t, "total"))
			}
			if !rep && rapid.IntRange(0, 3).Draw(t, "junkrepeat") == 0 {
				// a one-shot call may carry values in the fields that only matter for repeated calls
				msg.RepeatedFrequency = uint64(rapid.SampledFrom([]int{0, 1, 3, 8}).Draw(t, "junkfreq"))
				msg.RepeatedTotal = int64(rapid.SampledFrom([]int{-1, 2, 5}).Draw(t, "junktotal"))
			}
			// several contexts of one consumer created in one transaction: their first batches fall due together
			msgs := []sdk.Msg{msg}
			for k := rapid.SampledFrom([]int{0, 0, 1, 2, 3}).Draw(t, "morecalls"); k > 0; k-- {
				m2 := *msg
				m2.Input = fmt.Sprintf(`{"header":{},"body":{"n":%d}}`, k)
				msgs = append(msgs, &m2)
			}
			return txSpec{u, h.enc(msgs...)}, true
		case a <= 7:
			// answer an active request
			type req struct{ id, provider string }
			var reqs []req
			k.Service.IterateRequests(ctx, func(id tmbytes.HexBytes, r servicetypes.CompactRequest) bool {
				if k.Service.IsRequestActive(ctx, id) {
					reqs = append(reqs, req{id.String(), r.Provider})
				}
				return len(reqs) >= 32
			})
			if len(reqs) == 0 {
				return txSpec{}, false
			}
			r := pick(t, "req", reqs)
			pu := -1
			for i, us := range h.n.Users {
				if us.Addr.String() == r.provider {
					pu = i
				}
			}
			if pu < 0 {
				return txSpec{}, false
			}
			out := hOutput(t, false, pu == 1)
			if rid, err := hex.DecodeString(r.id); err == nil {
				if rq, ok := k.Service.GetRequest(ctx, rid); ok && rq.ServiceName == randomtypes.ServiceName {
					// the seed service of the random module answers with 32 bytes in hex
					out = fmt.Sprintf(`{"header":{},"body":{"seed":"%s"}}`, hex.EncodeToString(rapid.SliceOfN(rapid.Byte(), 32, 32).Draw(t, "seed")))
				}
			}
			return txSpec{pu, h.enc(&servicetypes.MsgRespondService{RequestId: r.id, Provider: spell(t, r.provider), Result: hResult, Output: out})}, true
		case a == 8 && len(w.ctxs) > 0:
			c := pick(t, "ctx", w.ctxs)
			var m sdk.Msg
			switch rapid.IntRange(0, 4).Draw(t, "ctxop") {
			case 3:
				// update with only some of the fields set (0 = leave unchanged): timeout only, frequency only, both
				upd := &servicetypes.MsgUpdateRequestContext{RequestContextId: c.ID, Consumer: h.addr(c.Consumer)}
				switch rapid.IntRange(0, 2).Draw(t, "updshape") {
				case 0:
					upd.Timeout = int64(rapid.SampledFrom([]int{1, 2, 5, 9, 30, 100}).Draw(t, "updtimeout"))
				case 1:
					upd.RepeatedFrequency = uint64(rapid.SampledFrom([]int{1, 2, 5, 9, 30}).Draw(t, "updfreq"))
				default:
					upd.Timeout = int64(rapid.IntRange(1, 6).Draw(t, "updtimeout2"))
					upd.RepeatedFrequency = uint64(upd.Timeout) + uint64(rapid.IntRange(0, 3).Draw(t, "updfreq2"))
				}
				if rapid.Bool().Draw(t, "updtotal") {
					upd.RepeatedTotal = int64(rapid.SampledFrom([]int{-1, 1, 3, 10}).Draw(t, "total"))
				}
				m = upd
			case 4:
				m = &servicetypes.MsgStartRequestContext{RequestContextId: c.ID, Consumer: h.addr(c.Consumer)}
			case 0:
				m = &servicetypes.MsgPauseRequestContext{RequestContextId: c.ID, Consumer: h.addr(c.Consumer)}
			case 1:
				m = &servicetypes.MsgStartRequestContext{RequestContextId: c.ID, Consumer: h.addr(c.Consumer)}
			default:
				m = &servicetypes.MsgKillRequestContext{RequestContextId: c.ID, Consumer: h.addr(c.Consumer)}
			}
			return txSpec{c.Consumer, h.enc(m)}, true
		case a == 9:
			b := pick(t, "binding", w.bindings)
			if rapid.Bool().Draw(t, "withdraw") {
				return txSpec{b.Owner, h.enc(&servicetypes.MsgWithdrawEarnedFees{Owner: h.addr(b.Owner), Provider: h.addr(b.Provider)})}, true
			}
			return txSpec{b.Owner, h.enc(&servicetypes.MsgSetWithdrawAddress{Owner: h.addr(b.Owner), WithdrawAddress: h.addr(h.user(t, "wa"))})}, true
		case a == 10:
			b := pick(t, "binding", w.bindings)
			if rapid.Bool().Draw(t, "disable") {
				return txSpec{b.Owner, h.enc(&servicetypes.MsgDisableServiceBinding{ServiceName: b.Svc, Provider: h.addr(b.Provider), Owner: h.addr(b.Owner)})}, true
			}
			return txSpec{b.Owner, h.enc(&servicetypes.MsgEnableServiceBinding{ServiceName: b.Svc, Provider: h.addr(b.Provider), Deposit: coins("stake", 1), Owner: h.addr(b.Owner)})}, true
		default:
			b := pick(t, "binding", w.bindings)
			return txSpec{b.Owner, h.enc(&servicetypes.MsgUpdateServiceBinding{ServiceName: b.Svc, Provider: h.addr(b.Provider), Deposit: coins("stake", int64(rapid.IntRange(1, 100).Draw(t, "dep"))), Pricing: "", QoS: 0, Options: "", Owner: h.addr(b.Owner)})}, true
		}
	case "oracle":
		if len(w.bindings) == 0 {
			return txSpec{}, false
		}
		if len(w.feeds) == 0 || rapid.IntRange(0, 3).Draw(t, "newfeed") == 0 {
			b := pick(t, "binding", w.bindings)
			if b.Price > 50 {
				// a feed over a provider dearer than its fee cap never gets a request: prefer an affordable service
				for _, c := range w.bindings {
					if c.Price <= 50 {
						b = c
						break
					}
				}
			}
			var provs []string
			for _, bb := range w.bindings {
				if bb.Svc == b.Svc {
					provs = append(provs, h.addr(bb.Provider))
				}
			}
			sort.Strings(provs)
			timeout := int64(rapid.IntRange(1, 4).Draw(t, "timeout"))
			name := fmt.Sprintf("feed%d", s)
			switch rapid.IntRange(0, 5).Draw(t, "pairname") {
			case 0:
				name = fmt.Sprintf("usdt%d-stake", s)
			case 1, 2, 3:
				// an exchange pair the service module looks up when a price is quoted in that coin
				name = rapid.SampledFrom([]string{"usdt-stake", "eth-stake"}).Draw(t, "pair")
				if _, found := k.Oracle.GetFeed(ctx, name); found {
					name = map[string]string{"usdt-stake": "eth-stake", "eth-stake": "usdt-stake"}[name]
				}
			}
			return txSpec{u, h.enc(&oracletypes.MsgCreateFeed{FeedName: name, LatestHistory: uint64(rapid.SampledFrom([]int{1, 2, 2, 2, 3, 4}).Draw(t, "hist")), Description: "feed", Creator: spell(t, me), ServiceName: b.Svc,
				Providers: provs, Input: hInput, Timeout: timeout, ServiceFeeCap: coins("stake", 50), RepeatedFrequency: uint64(timeout) + uint64(rapid.IntRange(0, 3).Draw(t, "freq")),
				AggregateFunc: pick(t, "agg", []string{"avg", "max", "min"}), ValueJsonPath: "last", ResponseThreshold: uint32(rapid.IntRange(1, len(provs)).Draw(t, "thr"))})}, true
		}
		f := pick(t, "feed", w.feeds)
		switch rapid.IntRange(0, 3).Draw(t, "feedop") {
		case 0, 1:
			return txSpec{f.Creator, h.enc(&oracletypes.MsgStartFeed{FeedName: f.Name, Creator: h.feedCreator(f)})}, true
		case 2:
			return txSpec{f.Creator, h.enc(&oracletypes.MsgPauseFeed{FeedName: f.Name, Creator: h.feedCreator(f)})}, true
		default:
			return txSpec{f.Creator, h.enc(&oracletypes.MsgEditFeed{FeedName: f.Name, Description: "[do-not-modify]", LatestHistory: uint64(rapid.SampledFrom([]int{1, 2, 3, 4, 4, 4}).Draw(t, "hist")), Creator: h.feedCreator(f)})}, true
		}
	}
	return txSpec{}, false
}

func userIndex(n *chain.Node, addr string) int {
	for i, u := range n.Users {
		if strings.EqualFold(u.Addr.String(), addr) { // a bech32 address may be written in upper case
			return i
		}
	}
	return -1
}

func attrs(evs []abci.Event, typ, key string) []string { return chain.EventAttrs(evs, typ, key) }

// observe updates the world from the baseline replica's results of a block.
func (h *hist) observe(op blockOp, resp *abci.ResponseFinalizeBlock) {
	w := h.w
	// contexts the end blocker paused on its own (the consumer cannot pay, or the batch cannot be priced)
	for _, ev := range resp.Events {
		if ev.Type == "pause_context" || ev.Type == "no_exchange_rate" {
			w.autoPaused++
		}
	}
	for i, tx := range op.Txs {
		msgs, err := decodeMsgs(h.n, tx.Msgs)
		if err != nil {
			continue
		}
		res := resp.TxResults[i]
		for _, m := range msgs {
			name := sdk.MsgTypeURL(m)
			if res.Code != 0 {
				w.msgFail[name]++
				continue
			}
			w.msgOK[name]++
			parts := strings.Split(strings.TrimPrefix(name, "/irismod."), ".")
			w.modules[parts[0]]++
		}
		if res.Code != 0 {
			if os.Getenv("VERIF_DEBUG_BIND") != "" {
				if b, ok := msgs[0].(*servicetypes.MsgBindService); ok && !strings.Contains(b.Pricing, `stake"`) {
					fmt.Fprintf(os.Stderr, "BINDFAIL %s\n", res.Log)
				}
			}
			if _, poisoned := msgs[len(msgs)-1].(*banktypes.MsgSend); poisoned && len(msgs) >= 2 {
				w.discardedAfterExec++
			}
			continue
		}
		if tx.User >= h.rich && len(msgs) >= 2 {
			if c, ok := msgs[0].(*servicetypes.MsgCallService); ok && c.ServiceFeeCap.AmountOf("stake").GTE(sdkmath.NewInt(1000)) {
				w.contention++
			}
		}
		for _, m := range msgs {
			switch x := m.(type) {
			case *nfttypes.MsgIssueDenom:
				w.nftDenoms = append(w.nftDenoms, hDenom{x.Id, tx.User})
			case *servicetypes.MsgRespondService:
				if strings.ToUpper(x.Provider) == x.Provider {
					w.upperAddrs++
				}
				if !gjson.Get(x.Output, "body.last").Exists() {
					w.noValue++
				}
				if v := gjson.Get(x.Output, "body.last").String(); v != "" {
					if f, err := strconv.ParseFloat(v, 64); err == nil && f >= 1e19 {
						w.hugeValues++
					} else if err == nil && f <= 0 {
						w.oddValues++
					}
				}
			case *coinswaptypes.MsgSwapOrder:
				if w.escrows[x.Output.Address] {
					w.toEscrow++
				}
			case *banktypes.MsgSend:
				if w.escrows[x.ToAddress] {
					w.toEscrow++
				}
			case *nfttypes.MsgMintNFT:
				for _, y := range w.nfts {
					if y.ID == x.Id && y.Denom != x.DenomId {
						w.nftTwinIDs++
						break
					}
				}
				w.nfts = append(w.nfts, hNFT{x.DenomId, x.Id, userIndex(h.n, x.Recipient)})
			case *nfttypes.MsgTransferNFT:
				for j := range w.nfts {
					if w.nfts[j].Denom == x.DenomId && w.nfts[j].ID == x.Id {
						w.nfts[j].Owner = userIndex(h.n, x.Recipient)
					}
				}
			case *nfttypes.MsgBurnNFT:
				for j := range w.nfts {
					if w.nfts[j].Denom == x.DenomId && w.nfts[j].ID == x.Id {
						w.nfts = append(w.nfts[:j], w.nfts[j+1:]...)
						break
					}
				}
			case *mttypes.MsgIssueDenom:
				for _, id := range attrs(res.Events, "issue_denom", "denom_id") {
					w.mtDenoms = append(w.mtDenoms, hDenom{id, tx.User})
				}
			case *mttypes.MsgMintMT:
				for _, id := range attrs(res.Events, "mint_mt", "mt_id") {
					w.mts = append(w.mts, hMT{x.DenomId, id, userIndex(h.n, x.Recipient)})
				}
			case *mttypes.MsgTransferMT:
				w.mts = append(w.mts, hMT{x.DenomId, x.Id, userIndex(h.n, x.Recipient)})
			case *mttypes.MsgTransferDenom:
				for j := range w.mtDenoms {
					if w.mtDenoms[j].ID == x.Id {
						w.mtDenoms[j].Owner = userIndex(h.n, x.Recipient)
					}
				}
			case *servicetypes.MsgDefineService:
				w.svcs = append(w.svcs, x.Name)
			case *servicetypes.MsgBindService:
				var price int64
				if n, _ := fmt.Sscanf(x.Pricing, `{"price":"%dstake`, &price); n == 0 && strings.HasPrefix(x.Pricing, `{"price":"9`) || strings.HasPrefix(x.Pricing, `{"price":"18446`) {
					price = math.MaxInt64 // beyond what the generator's small integers hold: callers offer a matching cap
					w.hugePrices++
				}
				if x.ServiceName != randomtypes.ServiceName {
					prov := userIndex(h.n, x.Provider)
					if prov < 0 {
						prov = tx.User
					}
					w.bindings = append(w.bindings, hBinding{x.ServiceName, prov, price, tx.User})
					if prov != tx.User {
						w.foreignProviders++
					}
				} else {
					w.seedProviders++
				}
				if strings.Contains(x.Pricing, "promotions_by_time") {
					w.timePromoBindings++
				}
				if !strings.Contains(x.Pricing, `stake"`) {
					w.foreignPriced++
				}
			case *servicetypes.MsgCallService:
				if x.ServiceName == servicetypes.OraclePriceServiceName {
					w.priceCalls++
				}
				for _, id := range attrs(res.Events, "create_context", "request_context_id") {
					w.ctxs = append(w.ctxs, hCtx{id, tx.User})
				}
			case *oracletypes.MsgCreateFeed:
				up := x.Creator == strings.ToUpper(x.Creator)
				w.feeds = append(w.feeds, hFeed{x.FeedName, tx.User, x.ServiceName, up})
				if up {
					w.upperCreators++
				}
			case *oracletypes.MsgEditFeed:
				if x.LatestHistory > 0 {
					w.historyShortened++
				}
			case *randomtypes.MsgRequestRandom:
				if x.Oracle {
					w.oracleRandom++
				}
				if x.BlockInterval >= 1<<31 {
					w.farRandom++
				}
			case *htlctypes.MsgClaimHTLC:
				if strings.Contains(fmt.Sprint(attrs(res.Events, "claim_htlc", "transfer")), "true") {
					w.htltClaimed++
				}
			case *htlctypes.MsgCreateHTLC:
				if x.Transfer {
					w.htltCreated++
				}
				for _, id := range attrs(res.Events, "create_htlc", "id") {
					// the secret is a function of the sequence number used when the message was drawn: recover it
					// from the hash lock by search over the few candidates
					for s := 1; s <= w.seq; s++ {
						sec := sha256.Sum256([]byte(fmt.Sprintf("secret-%d", s)))
						if hex.EncodeToString(htlctypes.GetHashLock(sec[:], x.Timestamp)) == strings.ToLower(x.HashLock) {
							w.htlcs = append(w.htlcs, hHTLC{id, hex.EncodeToString(sec[:]), userIndex(h.n, x.To)})
							break
						}
					}
				}
			case *farmtypes.MsgStake:
				w.stakers = append(w.stakers, hStake{x.PoolId, tx.User})
			case *govv1.MsgSubmitProposal:
				for _, id := range attrs(res.Events, "submit_proposal", "proposal_id") {
					if n, err := strconv.ParseUint(id, 10, 64); err == nil {
						w.proposals = append(w.proposals, n)
					}
				}
			case *govv1.MsgVote:
				for j, id := range w.proposals {
					if id == x.ProposalId {
						w.proposals = append(w.proposals[:j], w.proposals[j+1:]...)
						w.paramsSet++
						break
					}
				}
			case *tokenv1.MsgIssueToken:
				w.tokens = append(w.tokens, hToken{x.Symbol, x.MinUnit, tx.User, x.Scale})
			case *tokenv1.MsgTransferTokenOwner:
				for j := range w.tokens {
					if w.tokens[j].Symbol == x.Symbol {
						w.tokens[j].Owner = userIndex(h.n, x.DstOwner)
					}
				}
			}
		}
	}
}

// dueTx draws an operation aimed at an object that falls due in the next block (the one being built).
func (h *hist) dueTx(t *rapid.T) (txSpec, bool) {
	ctx := h.n.Ctx()
	k := h.n.K
	next := h.n.Height + 1
	var cands []txSpec
	// farm pools ending (or starting) in this block: creator adjusts/destroys, anyone stakes/unstakes/harvests
	k.Farm.IteratorAllPools(ctx, func(p farmtypes.FarmPool) {
		if p.EndHeight != next && p.StartHeight != next {
			return
		}
		rules := k.Farm.GetRewardRules(ctx, p.Id)
		if c := userIndex(h.n, p.Creator); c >= 0 && len(rules) > 0 {
			cands = append(cands, txSpec{c, h.enc(&farmtypes.MsgAdjustPool{PoolId: p.Id, AdditionalReward: coins(rules[len(rules)-1].Reward, 7), Creator: p.Creator})})
			cands = append(cands, txSpec{c, h.enc(&farmtypes.MsgDestroyPool{PoolId: p.Id, Creator: p.Creator})})
		}
		for _, st := range h.w.stakers {
			if st.Pool == p.Id {
				cands = append(cands, txSpec{st.User, h.enc(&farmtypes.MsgHarvest{PoolId: p.Id, Sender: h.addr(st.User)})})
				cands = append(cands, txSpec{st.User, h.enc(&farmtypes.MsgUnstake{PoolId: p.Id, Amount: sdk.NewCoin(p.TotalLptLocked.Denom, sdkmath.OneInt()), Sender: h.addr(st.User)})})
			}
		}
	})
	// request contexts with a batch starting or expiring in this block: consumer pauses/starts/kills/updates
	k.Service.IterateRequestContexts(ctx, func(id tmbytes.HexBytes, rc servicetypes.RequestContext) bool {
		c := userIndex(h.n, rc.Consumer)
		if c < 0 || rc.ModuleName != "" {
			return false
		}
		due := false
		for _, prefix := range [][]byte{servicetypes.GetNewRequestBatchKey(id, next), servicetypes.GetExpiredRequestBatchKey(id, next)} {
			if keys, _ := rawStore(h.n, ctx, "service", prefix); len(keys) > 0 {
				due = true
			}
		}
		if !due {
			return false
		}
		cands = append(cands,
			txSpec{c, h.enc(&servicetypes.MsgPauseRequestContext{RequestContextId: id.String(), Consumer: rc.Consumer})},
			txSpec{c, h.enc(&servicetypes.MsgStartRequestContext{RequestContextId: id.String(), Consumer: rc.Consumer})},
			txSpec{c, h.enc(&servicetypes.MsgKillRequestContext{RequestContextId: id.String(), Consumer: rc.Consumer})},
			txSpec{c, h.enc(&servicetypes.MsgUpdateRequestContext{RequestContextId: id.String(), Consumer: rc.Consumer, Timeout: 2, RepeatedFrequency: 2, RepeatedTotal: -1})},
			txSpec{c, h.enc(&servicetypes.MsgUpdateRequestContext{RequestContextId: id.String(), Consumer: rc.Consumer, Timeout: int64(rc.RepeatedFrequency) + 3})},
			txSpec{c, h.enc(&servicetypes.MsgUpdateRequestContext{RequestContextId: id.String(), Consumer: rc.Consumer, RepeatedFrequency: 1})})
		return false
	})
	// HTLCs expiring in this block: claim attempts (the refund happens in the begin blocker, before the txs)
	for _, x := range h.w.htlcs {
		id, _ := hex.DecodeString(x.ID)
		if c, found := k.HTLC.GetHTLC(ctx, id); found && int64(c.ExpirationHeight) == next {
			cands = append(cands, txSpec{x.To, h.enc(&htlctypes.MsgClaimHTLC{Sender: h.addr(x.To), Id: x.ID, Secret: x.Secret})})
		}
	}
	if len(cands) == 0 {
		return txSpec{}, false
	}
	return pick(t, "duecand", cands), true
}

// ctxLifeTx steers repeated request contexts (user-owned ones and those of feeds) through the life cycle
// "current batch fully answered -> paused -> started again before that batch's expiry height": it answers the
// outstanding requests of a context that has few of them, pauses a running context whose batch is already
// complete, and restarts a paused context whose last batch has not reached its expiry entry yet.
func (h *hist) ctxLifeTx(t *rapid.T) (txSpec, bool) {
	ctx := h.n.Ctx()
	k := h.n.K
	feedOf := map[string]hFeed{}
	for _, f := range h.w.feeds {
		if fd, ok := k.Oracle.GetFeed(ctx, f.Name); ok {
			feedOf[strings.ToUpper(fd.RequestContextID)] = f
		}
	}
	var restart, pause, answer []txSpec
	k.Service.IterateRequestContexts(ctx, func(id tmbytes.HexBytes, rc servicetypes.RequestContext) bool {
		if !rc.Repeated || rc.State == servicetypes.COMPLETED {
			return false
		}
		c := userIndex(h.n, rc.Consumer)
		f, isFeed := feedOf[id.String()]
		if (rc.ModuleName == "" && c < 0) || (rc.ModuleName != "" && !isFeed) {
			return false
		}
		pending := k.Service.HasRequestBatchExpiration(ctx, id) // the last batch still has its expiry entry ahead
		switch {
		case isFeed && rc.State == servicetypes.PAUSED && !pending && len(k.Oracle.GetFeedValues(ctx, f.Name)) < 2:
			// a feed that was created (paused) and never started, or stopped before it had a history: get it going
			restart = append(restart, txSpec{f.Creator, h.enc(&oracletypes.MsgStartFeed{FeedName: f.Name, Creator: h.feedCreator(f)})})
		case rc.State == servicetypes.PAUSED && rc.BatchState == servicetypes.BATCHCOMPLETED && pending:
			if isFeed {
				restart = append(restart, txSpec{f.Creator, h.enc(&oracletypes.MsgStartFeed{FeedName: f.Name, Creator: h.feedCreator(f)})})
			} else {
				restart = append(restart, txSpec{c, h.enc(&servicetypes.MsgStartRequestContext{RequestContextId: id.String(), Consumer: rc.Consumer})})
			}
		case rc.State == servicetypes.RUNNING && rc.BatchState == servicetypes.BATCHCOMPLETED && pending:
			if isFeed {
				pause = append(pause, txSpec{f.Creator, h.enc(&oracletypes.MsgPauseFeed{FeedName: f.Name, Creator: h.feedCreator(f)})})
			} else {
				pause = append(pause, txSpec{c, h.enc(&servicetypes.MsgPauseRequestContext{RequestContextId: id.String(), Consumer: rc.Consumer})})
			}
		case rc.State == servicetypes.RUNNING && rc.BatchState == servicetypes.BATCHRUNNING:
			var out []txSpec
			it := k.Service.RequestsIteratorByReqCtx(ctx, id, rc.BatchCounter)
			for ; it.Valid(); it.Next() {
				rid := tmbytes.HexBytes(it.Key()[1:])
				if r, ok := k.Service.GetRequest(ctx, rid); ok && k.Service.IsRequestActive(ctx, rid) {
					if pu := userIndex(h.n, r.Provider); pu >= 0 {
						out = append(out, txSpec{pu, h.enc(&servicetypes.MsgRespondService{RequestId: rid.String(), Provider: r.Provider, Result: hResult, Output: `{"header":{},"body":{"last":"7.50"}}`})})
					}
				}
			}
			it.Close()
			if len(out) > 0 && (len(out) <= 2 || isFeed) {
				answer = append(answer, out[0])
			}
		}
		return false
	})
	order := [][]txSpec{restart, pause, answer}
	if rapid.Bool().Draw(t, "answerfirst") {
		order = [][]txSpec{answer, restart, pause}
	}
	for _, cands := range order {
		if len(cands) > 0 && rapid.IntRange(0, 3).Draw(t, "lifestage") != 0 {
			return pick(t, "lifecand", cands), true
		}
	}
	return txSpec{}, false
}

// govTx draws a governance transaction: a proposal that changes one module's parameters to another valid
// set (the authority of every module is the gov account), or U0's deciding vote on a pending proposal.
func (h *hist) govTx(t *rapid.T) (txSpec, bool) {
	w := h.w
	ctx := h.n.Ctx()
	k := h.n.K
	// forget proposals whose voting period is over
	live := w.proposals[:0]
	for _, id := range w.proposals {
		if p, err := h.n.App.GovKeeper.Proposals.Get(ctx, id); err == nil && p.Status == govv1.StatusVotingPeriod {
			live = append(live, id)
		}
	}
	w.proposals = live
	if len(w.proposals) > 0 && rapid.IntRange(0, 3).Draw(t, "vote") != 0 {
		id := pick(t, "proposal", w.proposals)
		return txSpec{0, h.enc(govv1.NewMsgVote(h.n.Users[0].Addr, id, govv1.OptionYes, ""))}, true
	}
	gov := authtypes.NewModuleAddress(govtypes.ModuleName).String()
	dec := func(label string, choices ...string) sdkmath.LegacyDec {
		return sdkmath.LegacyMustNewDecFromStr(pick(t, label, choices))
	}
	paramsMsg := func() sdk.Msg {
		var msg sdk.Msg
		switch rapid.IntRange(0, 4).Draw(t, "govmod") {
		case 4:
			// htlc: the cross-chain asset is delisted, listed again, paused, or its limits are changed
			p := k.HTLC.GetParams(ctx)
			base := htlctypes.AssetParam{
				Denom: HtltDenom, SupplyLimit: htlctypes.SupplyLimit{Limit: sdkmath.NewInt(1_000_000_000), TimeLimited: false, TimePeriod: time.Hour, TimeBasedLimit: sdkmath.ZeroInt()},
				Active: true, DeputyAddress: h.addr(1), FixedFee: sdkmath.NewInt(1), MinSwapAmount: sdkmath.NewInt(2), MaxSwapAmount: sdkmath.NewInt(1_000_000),
				MinBlockLock: 50, MaxBlockLock: 100,
			}
			switch pick(t, "htlcparams", []string{"delist", "list", "pause", "lowlimit", "timelimit"}) {
			case "delist":
				p.AssetParams = nil
			case "list":
				p.AssetParams = []htlctypes.AssetParam{base}
			case "pause":
				base.Active = false
				p.AssetParams = []htlctypes.AssetParam{base}
			case "lowlimit":
				base.SupplyLimit.Limit = sdkmath.NewInt(int64(pick(t, "limit", []int{1, 100, 5000})))
				p.AssetParams = []htlctypes.AssetParam{base}
			default:
				base.SupplyLimit.TimeLimited, base.SupplyLimit.TimePeriod, base.SupplyLimit.TimeBasedLimit = true, time.Minute, sdkmath.NewInt(3000)
				p.AssetParams = []htlctypes.AssetParam{base}
			}
			msg = &htlctypes.MsgUpdateParams{Authority: gov, Params: p}
		case 0:
			p := k.Token.GetParams(ctx)
			p.IssueTokenBaseFee = sdk.NewInt64Coin("stake", int64(pick(t, "basefee", []int{60000, 120000, 1000, 7})))
			p.TokenTaxRate = dec("tax", "0.4", "0.1", "0.999", "0")
			p.MintTokenFeeRatio = dec("mintratio", "0.1", "0.5", "1", "0")
			// the two fields whose zero value is a meaningful setting (proto3 leaves zero values out of the encoding)
			p.EnableErc20 = rapid.Bool().Draw(t, "erc20on")
			p.Beacon = pick(t, "beacon", []string{"", "", "0x00000000000000000000000000000000000000b1"})
			msg = &tokenv1.MsgUpdateParams{Authority: gov, Params: p}
		case 1:
			p := k.Coinswap.GetParams(ctx)
			p.Fee = dec("fee", "0.003", "0.01", "0.5", "0.000000000000000001")
			p.TaxRate = dec("cstax", "0.4", "0.01", "0.99")
			p.UnilateralLiquidityFee = dec("unifee", "0.002", "0", "0.3")
			p.PoolCreationFee = sdk.NewInt64Coin("stake", int64(pick(t, "poolfee", []int{5000, 1, 100000})))
			msg = &coinswaptypes.MsgUpdateParams{Authority: gov, Params: p}
		case 2:
			p := k.Farm.GetParams(ctx)
			p.PoolCreationFee = sdk.NewInt64Coin("stake", int64(pick(t, "farmfee", []int{5000, 1, 70000})))
			p.TaxRate = dec("farmtax", "0.4", "0.05", "0.9", "0.3333", "0", "1")
			// the category limit only guards new pools and appended rewards: existing pools keep their rules
			p.MaxRewardCategories = uint32(pick(t, "maxcat", []int{2, 1, 1, 3}))
			if rapid.IntRange(0, 3).Draw(t, "oddfee") == 0 {
				p.PoolCreationFee = sdk.NewInt64Coin("stake", int64(pick(t, "farmfee2", []int{5001, 3, 7777})))
			}
			msg = &farmtypes.MsgUpdateParams{Authority: gov, Params: p}
		default:
			p := k.Service.GetParams(ctx)
			p.ServiceFeeTax = dec("svctax", "0.05", "0", "0.5")
			p.SlashFraction = dec("slash", "0.001", "0", "0.5", "1")
			p.MaxRequestTimeout = int64(pick(t, "maxto", []int{100, 10, 1000}))
			p.MinDepositMultiple = int64(pick(t, "depmult", []int{1000, 1000, 1, 5000}))
			p.MinDeposit = coins("stake", int64(pick(t, "mindep", []int{5000, 5000, 1, 20000})))
			p.RestrictedServiceFeeDenom = rapid.IntRange(0, 5).Draw(t, "restrictdenom") == 0
			p.TxSizeLimit = uint64(pick(t, "txsize", []int{4000, 4000, 1, 100000}))
			p.ArbitrationTimeLimit = time.Duration(pick(t, "arbitration", []int{432000, 1, 3600})) * time.Second
			p.ComplaintRetrospect = time.Duration(pick(t, "complaint", []int{1296000, 1, 60})) * time.Second
			if rapid.IntRange(0, 5).Draw(t, "basedenom") == 0 {
				// the coin in which deposits and fee caps are expressed changes (and may change back later): objects created
				// under the old one stay as they are
				p.BaseDenom = pick(t, "newbase", []string{"usdt", "stake", "eth"})
				p.MinDeposit = sdk.NewCoins(sdk.NewInt64Coin(p.BaseDenom, 5000))
			}
			msg = &servicetypes.MsgUpdateParams{Authority: gov, Params: p}
		}
		return msg
	}
	// one proposal may change the parameters of several modules at once
	msgs := []sdk.Msg{paramsMsg()}
	for i := 0; i < 2 && rapid.IntRange(0, 2).Draw(t, "moreparams") == 0; i++ {
		m := paramsMsg()
		dup := false
		for _, x := range msgs {
			dup = dup || sdk.MsgTypeURL(x) == sdk.MsgTypeURL(m)
		}
		if !dup {
			msgs = append(msgs, m)
		}
	}
	sp, err := govv1.NewMsgSubmitProposal(msgs, sdk.NewCoins(sdk.NewInt64Coin("stake", 5)), h.addr(0), "", "params", "change parameters", false)
	if err != nil {
		return txSpec{}, false
	}
	return txSpec{0, h.enc(sp)}, true
}
