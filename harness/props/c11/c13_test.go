package c11

// C13 All modules: begin/end block never halts and handles each due item exactly once.
//
// The all-module history generator runs on one A-driver node (real FinalizeBlock with every module's begin and
// end blocker, real tx atomicity), biased towards same-block events: operations aimed at objects that fall
// due in the block being built (farm pool at its end height, request context at its batch/expiry height,
// HTLC at its expiry), shortest legal lifetimes, many objects due at one height, block-time steps from 1 ns
// to hours, valid parameter changes are left to C16.
//
// Oracle after every block h (committed state):
//  * FinalizeBlock/Commit returned without error or panic;
//  * HTLC: expiry-queue entries == {(expiry,id) : contract open}, none with expiry <= h; the refund events of the
//    block are exactly the contracts that were open with expiry == h before it;
//  * farm: queue entries == {(end,id) : pool.EndHeight > h}; every pool with EndHeight <= h has no remaining
//    reward budget (ended pools were refunded, exactly once: the creator's refund is checked by C06);
//  * service: every queue entry (new-batch and expiry) names an existing request context, lies above h and
//    equals the context's height marker; a running context has exactly one entry, a paused or completed (killed,
//    last batch still to expire) one at most one;
//  * random: no queue entry below h; every plain request queued at h-1 … was answered by exactly one
//    generate_random event in block h and is readable afterwards.

import (
	"encoding/binary"
	"encoding/hex"
	"fmt"
	"sort"
	"strings"
	"testing"

	tmbytes "github.com/cometbft/cometbft/libs/bytes"
	sdk "github.com/cosmos/cosmos-sdk/types"
	"pgregory.net/rapid"

	farmtypes "mods.irisnet.org/modules/farm/types"
	htlctypes "mods.irisnet.org/modules/htlc/types"
	randomtypes "mods.irisnet.org/modules/random/types"
	servicetypes "mods.irisnet.org/modules/service/types"

	"verifharness/chain"
	"verifharness/pbt"
)

type c13Machine struct {
	n   *chain.Node
	h   *hist
	ops []blockOp
	// per-history counters for classification
	htlcRefunds, farmEnds, svcExpiries, randomsDue int
	multiDue, sameBlockMod                         int
	okTxs                                          int
	start                                          int64
}

func newC13() pbt.Machine[blockOp] { return &c13Machine{} }

// build creates the node at the initial height named by the first operation.
func (m *c13Machine) build(start int64) {
	if start < 1 {
		start = 1
	}
	o := nodeOpts
	o.WhaleBits = 130
	n, err := chain.NewNode(o, nil, start)
	if err != nil {
		panic(err)
	}
	m.n, m.start = n, start
	m.h = &hist{n: n, w: newWorld(), rich: 4, dueBias: true, maxIdle: 60}
}

func (m *c13Machine) Next(t *rapid.T) blockOp {
	if m.n == nil {
		return blockOp{Genesis: "default", Start: drawStart(t)}
	}
	return m.h.nextBlock(t, 5)
}

type dueSet struct {
	htlc   []string // open contracts with expiry == next height
	random []string // plain request ids queued at the current height (answered in the next block)
	farm   []string
	svc    int
}

func (m *c13Machine) dueNext() dueSet {
	ctx := m.n.Ctx()
	next := m.n.Height + 1
	var d dueSet
	m.n.K.HTLC.IterateHTLCs(ctx, func(id tmbytes.HexBytes, h htlctypes.HTLC) bool {
		if h.State == htlctypes.Open && int64(h.ExpirationHeight) == next {
			d.htlc = append(d.htlc, strings.ToUpper(id.String()))
		}
		return false
	})
	m.n.K.Random.IterateRandomRequestQueue(ctx, func(height int64, reqID []byte, r randomtypes.Request) bool {
		if height == m.n.Height && !r.Oracle {
			d.random = append(d.random, hex.EncodeToString(reqID))
		}
		return false
	})
	m.n.K.Farm.IteratorAllPools(ctx, func(p farmtypes.FarmPool) {
		if p.EndHeight == next {
			d.farm = append(d.farm, p.Id)
		}
	})
	keys, _ := rawStore(m.n, ctx, "service", servicetypes.ExpiredRequestBatchKey)
	for _, k := range keys {
		if len(k) >= 9 && int64(binary.BigEndian.Uint64(k[1:9])) == next {
			d.svc++
		}
	}
	keys, _ = rawStore(m.n, ctx, "service", servicetypes.NewRequestBatchKey)
	for _, k := range keys {
		if len(k) >= 9 && int64(binary.BigEndian.Uint64(k[1:9])) == next {
			d.svc++
		}
	}
	return d
}

func (m *c13Machine) Apply(op blockOp) error {
	if m.n == nil {
		m.build(op.Start)
		if op.Genesis != "" {
			return nil
		}
	}
	for _, b := range expandIdle(op) {
		if err := m.applyOne(b); err != nil {
			return err
		}
	}
	return nil
}

func (m *c13Machine) applyOne(op blockOp) error {
	due := m.dueNext()
	resp, err := runBlock(m.n, op)
	if err != nil {
		return pbt.Failf("C13/block-halt", "block %d did not complete: %v", m.n.Height+1, firstLine(err.Error()))
	}
	m.h.observe(op, resp)
	m.ops = append(m.ops, op)
	for _, r := range resp.TxResults {
		if r.Code == 0 {
			m.okTxs++
		}
	}
	kinds := 0
	for _, n := range []int{len(due.htlc), len(due.random), len(due.farm), due.svc} {
		if n > 0 {
			kinds++
		}
	}
	if kinds >= 2 {
		m.multiDue++
	}
	if (len(due.farm) > 0 || due.svc > 0 || len(due.htlc) > 0) && len(op.Txs) > 0 {
		m.sameBlockMod++
	}
	m.htlcRefunds += len(due.htlc)
	m.farmEnds += len(due.farm)
	m.svcExpiries += due.svc
	m.randomsDue += len(due.random)

	// exactly-once from the block's events
	refunds := attrs(resp.Events, "refund_htlc", "id")
	for i := range refunds {
		refunds[i] = strings.ToUpper(refunds[i])
	}
	sort.Strings(refunds)
	sort.Strings(due.htlc)
	if strings.Join(refunds, ",") != strings.Join(due.htlc, ",") {
		return pbt.Failf("C13/htlc-refund-set", "block %d refunded %v, contracts open with that expiry were %v", m.n.Height, refunds, due.htlc)
	}
	gen := attrs(resp.Events, "generate_random", "request_id")
	for _, id := range due.random {
		c := 0
		for _, g := range gen {
			if strings.EqualFold(g, id) {
				c++
			}
		}
		if c != 1 {
			return pbt.Failf("C13/random-not-once", "block %d: plain random request %s due was fulfilled %d times", m.n.Height, id, c)
		}
		bz, _ := hex.DecodeString(id)
		if _, err := m.n.K.Random.GetRandom(m.n.Ctx(), bz); err != nil {
			return pbt.Failf("C13/random-not-once", "random number of request %s not readable after its block: %v", id, err)
		}
	}
	if len(gen) != len(due.random) {
		return pbt.Failf("C13/random-not-once", "block %d generated %d random numbers, %d plain requests were due", m.n.Height, len(gen), len(due.random))
	}
	return m.hygiene()
}

func (m *c13Machine) hygiene() error { return queueHygiene(m.n) }

// queueHygiene scans the time-bound queues of htlc, farm, service and random on the node's current state against
// the objects they refer to (the per-block clauses of C13 that need no knowledge of the block's events).
func queueHygiene(n *chain.Node) error {
	ctx := n.Ctx()
	h := n.Height
	k := n.K
	m := struct{ n *chain.Node }{n}

	// ---- HTLC
	open := map[string]bool{}
	k.HTLC.IterateHTLCs(ctx, func(id tmbytes.HexBytes, c htlctypes.HTLC) bool {
		if c.State == htlctypes.Open {
			open[fmt.Sprintf("%d/%s", c.ExpirationHeight, strings.ToUpper(id.String()))] = true
		}
		return false
	})
	keys, _ := rawStore(m.n, ctx, "htlc", htlctypes.HTLCExpiredQueueKey)
	seen := map[string]bool{}
	for _, key := range keys {
		exp := binary.BigEndian.Uint64(key[1:9])
		ent := fmt.Sprintf("%d/%s", exp, strings.ToUpper(hex.EncodeToString(key[9:])))
		if int64(exp) <= h {
			return pbt.Failf("C13/htlc-queue", "after block %d the expiry queue still holds %s", h, ent)
		}
		if !open[ent] {
			return pbt.Failf("C13/htlc-queue", "expiry queue entry %s refers to no open contract", ent)
		}
		seen[ent] = true
	}
	for ent := range open {
		if !seen[ent] {
			return pbt.Failf("C13/htlc-queue", "open contract %s has no expiry queue entry (height %d)", ent, h)
		}
	}

	// ---- farm
	want := map[string]bool{}
	var ferr error
	k.Farm.IteratorAllPools(ctx, func(p farmtypes.FarmPool) {
		if p.EndHeight > h {
			want[fmt.Sprintf("%d/%s", p.EndHeight, p.Id)] = true
			return
		}
		for _, r := range k.Farm.GetRewardRules(ctx, p.Id) {
			if r.RemainingReward.IsPositive() && ferr == nil {
				ferr = pbt.Failf("C13/farm-not-refunded", "farm pool %s ended at %d (now %d) but still holds a reward budget of %s%s", p.Id, p.EndHeight, h, r.RemainingReward, r.Reward)
			}
		}
	})
	if ferr != nil {
		return ferr
	}
	keys, vals := rawStore(m.n, ctx, "farm", farmtypes.ActiveFarmPoolKey)
	got := map[string]bool{}
	for i, key := range keys {
		end := int64(binary.BigEndian.Uint64(key[1:9]))
		id := farmtypes.MustUnMarshalPoolId(m.n.App.AppCodec(), vals[i])
		ent := fmt.Sprintf("%d/%s", end, id)
		if end <= h {
			return pbt.Failf("C13/farm-queue", "after block %d the farm queue still holds %s", h, ent)
		}
		if !want[ent] {
			return pbt.Failf("C13/farm-queue", "farm queue entry %s matches no running pool", ent)
		}
		got[ent] = true
	}
	for ent := range want {
		if !got[ent] {
			return pbt.Failf("C13/farm-queue", "farm pool %s (not ended at height %d) has no queue entry", ent, h)
		}
	}

	// ---- service
	entries := map[string][]string{} // ctxID -> entries
	for _, q := range []struct {
		name         string
		prefix, mark []byte
	}{{"new-batch", servicetypes.NewRequestBatchKey, servicetypes.NewRequestBatchHeightKey}, {"expiry", servicetypes.ExpiredRequestBatchKey, servicetypes.ExpiredRequestBatchHeightKey}} {
		keys, _ := rawStore(m.n, ctx, "service", q.prefix)
		for _, key := range keys {
			height := int64(binary.BigEndian.Uint64(key[1:9]))
			id := tmbytes.HexBytes(key[9:])
			if _, found := k.Service.GetRequestContext(ctx, id); !found {
				return pbt.Failf("C13/service-queue", "%s queue entry at %d names a missing request context %s", q.name, height, id)
			}
			if height <= h {
				return pbt.Failf("C13/service-queue", "after block %d the %s queue still holds context %s at height %d", h, q.name, id, height)
			}
			entries[id.String()] = append(entries[id.String()], fmt.Sprintf("%s@%d", q.name, height))
		}
	}
	var serr error
	k.Service.IterateRequestContexts(ctx, func(id tmbytes.HexBytes, rc servicetypes.RequestContext) bool {
		n := len(entries[id.String()])
		switch rc.State {
		case servicetypes.RUNNING:
			if n != 1 {
				serr = pbt.Failf("C13/service-queue", "running request context %s has %d queue entries %v at height %d", id, n, entries[id.String()], h)
			}
		case servicetypes.PAUSED:
			if n > 1 {
				serr = pbt.Failf("C13/service-queue", "paused request context %s has %d queue entries %v", id, n, entries[id.String()])
			}
		case servicetypes.COMPLETED:
			// a killed context keeps the entry of its last batch (expiry) or of its next batch (new-batch) until that
			// height, where the end blocker drops it; more than one entry would be a leak
			if n > 1 {
				serr = pbt.Failf("C13/service-queue", "completed request context %s still has queue entries %v", id, entries[id.String()])
			}
		}
		return serr != nil
	})
	if serr != nil {
		return serr
	}

	// ---- random
	var rerr error
	k.Random.IterateRandomRequestQueue(ctx, func(height int64, reqID []byte, r randomtypes.Request) bool {
		if height < h {
			rerr = pbt.Failf("C13/random-queue", "after block %d the random queue still holds request %x queued for height %d", h, reqID, height)
		}
		return rerr != nil
	})
	return rerr
}

func (m *c13Machine) Finish() error { return nil }

func (m *c13Machine) Classify() (bool, []string) {
	var cl []string
	if m.n == nil {
		return false, nil
	}
	add := func(ok bool, s string) {
		if ok {
			cl = append(cl, s)
		}
	}
	add(m.htlcRefunds > 0, "htlc-expired")
	add(m.farmEnds > 0, "farm-pool-ended")
	add(m.svcExpiries > 0, "service-batch-due")
	add(m.randomsDue > 0, "random-due")
	add(m.multiDue > 0, "two-modules-due-in-one-block")
	add(m.sameBlockMod > 0, "txs-in-a-due-block")
	add(len(m.h.w.modules) >= 8, "modules>=8")
	add(passedProposals(m.n) > 0, "params-changed-by-proposal")
	add(m.start > 1 && (m.start-1)>>8 != m.n.Height>>8, "height-crossed-a-byte-boundary")
	add(m.start > 1<<31, "heights-beyond-2^32")
	cl = append(cl, m.h.w.shapeClasses()...)
	return m.multiDue > 0 && m.sameBlockMod > 0, cl
}

const c13Rule = "rapid state machine over blocks of signed txs on the ABCI driver (every module's begin/end blocker), generator biased to objects falling due in the block being built; after every block: no halt, queue scans of htlc/farm/service/random against object state, refund and random events exactly once; non-trivial = history with a block in which >=2 modules had items due and a block with txs while an item was due; distinct by SHA-256 of the op list"

func init() { pbt.RegisterMachine("c13", newC13) }

func TestC13(t *testing.T) { pbt.RunMachine(t, "C13", "c13", c13Rule, newC13) }

var _ = sdk.AccAddress{}
