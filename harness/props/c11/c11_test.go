package c11

// C11 All modules: state transitions are deterministic functions of chain data.
//
// A generated history of signed transactions over all ten modules is executed on several replicas of the
// same genesis: R0 baseline, R1 a second run in the same process (fresh Go map seeds), R2 with node restarts
// (new application object over the same DB) at generated block boundaries, R3 in a second OS process.
// Per block the app hash, the (code, codespace, data) of every tx result and the hash of every store must be
// identical; at the end the exported genesis must be byte-identical (each replica exports twice).
// The host-clock replica is TestC11Clock (clock_test.go).

import (
	"bytes"
	"crypto/sha256"
	"encoding/hex"
	"encoding/json"
	"fmt"
	"os"
	"os/exec"
	"path/filepath"
	"sort"
	"strconv"
	"strings"
	"testing"
	"time"

	sdkmath "cosmossdk.io/math"
	abci "github.com/cometbft/cometbft/abci/types"
	sdk "github.com/cosmos/cosmos-sdk/types"
	govtypes "github.com/cosmos/cosmos-sdk/x/gov/types"
	govv1 "github.com/cosmos/cosmos-sdk/x/gov/types/v1"
	coinswaptypes "mods.irisnet.org/modules/coinswap/types"
	farmtypes "mods.irisnet.org/modules/farm/types"
	htlctypes "mods.irisnet.org/modules/htlc/types"
	mttypes "mods.irisnet.org/modules/mt/types"
	nfttypes "mods.irisnet.org/modules/nft/types"
	oracletypes "mods.irisnet.org/modules/oracle/types"
	randomtypes "mods.irisnet.org/modules/random/types"
	recordtypes "mods.irisnet.org/modules/record/types"
	servicetypes "mods.irisnet.org/modules/service/types"
	tokenv1 "mods.irisnet.org/modules/token/types/v1"
	"mods.irisnet.org/simapp"
	"pgregory.net/rapid"

	"verifharness/chain"
	"verifharness/pbt"
)

func TestReplay(t *testing.T) { pbt.ReplayMain(t) }

var nodeOpts = chain.Options{AllRich: false, WhaleBits: 120, GenesisMod: baseGenesisMod}

// baseGenesisMod shortens the governance periods so that parameter changes by proposal (the only way a
// transaction history can change module parameters) pass within a generated history: minimum deposit 1 stake,
// voting period 5 min. U0 holds the only delegation, so its vote decides.
func baseGenesisMod(app *simapp.SimApp, gs simapp.GenesisState) {
	var gg govv1.GenesisState
	app.AppCodec().MustUnmarshalJSON(gs[govtypes.ModuleName], &gg)
	vp, dp := 5*time.Minute, 10*time.Minute
	gg.Params.MinDeposit = sdk.NewCoins(sdk.NewInt64Coin("stake", 1))
	gg.Params.ExpeditedMinDeposit = sdk.NewCoins(sdk.NewInt64Coin("stake", 2))
	gg.Params.VotingPeriod = &vp
	gg.Params.MaxDepositPeriod = &dp
	evp := 1 * time.Minute
	gg.Params.ExpeditedVotingPeriod = &evp
	gs[govtypes.ModuleName] = app.AppCodec().MustMarshalJSON(&gg)

	// the definition of the random module's seed service (an application installs it at genesis), so that
	// histories can bind providers to it and make oracle-seeded random requests
	var sg servicetypes.GenesisState
	app.AppCodec().MustUnmarshalJSON(gs[servicetypes.ModuleName], &sg)
	sg.Definitions = append(sg.Definitions, servicetypes.GetRandomSvcDefinition())
	// and the oracle-price system service (exchange rates for prices quoted in other coins)
	sg.Definitions = append(sg.Definitions, servicetypes.GenOraclePriceSvcDefinition())
	sg.Bindings = append(sg.Bindings, servicetypes.GenOraclePriceSvcBinding("stake"))
	gs[servicetypes.ModuleName] = app.AppCodec().MustMarshalJSON(&sg)

	// one cross-chain asset with U1 as its deputy, so that histories contain HTLTs of both directions
	var hg htlctypes.GenesisState
	app.AppCodec().MustUnmarshalJSON(gs[htlctypes.ModuleName], &hg)
	deputy := chain.MakeUsers(2)[1].Addr
	hg.Params.AssetParams = append(hg.Params.AssetParams, htlctypes.AssetParam{
		Denom: HtltDenom, SupplyLimit: htlctypes.SupplyLimit{Limit: sdkmath.NewInt(1_000_000_000), TimeLimited: false, TimePeriod: time.Hour, TimeBasedLimit: sdkmath.ZeroInt()},
		Active: true, DeputyAddress: deputy.String(), FixedFee: sdkmath.NewInt(1), MinSwapAmount: sdkmath.NewInt(2), MaxSwapAmount: sdkmath.NewInt(1_000_000),
		MinBlockLock: 50, MaxBlockLock: 100,
	})
	zero := sdk.NewCoin(HtltDenom, sdkmath.ZeroInt())
	hg.Supplies = append(hg.Supplies, htlctypes.NewAssetSupply(zero, zero, zero, zero, time.Duration(0)))
	gs[htlctypes.ModuleName] = app.AppCodec().MustMarshalJSON(&hg)
}

// HtltDenom is the cross-chain asset of the A-driver genesis; its deputy is U1.
const HtltDenom = "htltbnb"

type blockDigest struct {
	AppHash string            `json:"app_hash"`
	Results []string          `json:"results"`
	Stores  map[string]string `json:"stores"`
}

func digestBlock(n *chain.Node, resp *abci.ResponseFinalizeBlock) blockDigest {
	d := blockDigest{AppHash: hex.EncodeToString(resp.AppHash), Stores: n.StoreHashes()}
	for _, r := range resp.TxResults {
		// code, codespace, data and the gas figures: all of them enter the block's results hash
		d.Results = append(d.Results, fmt.Sprintf("%d|%s|%x|gas %d/%d", r.Code, r.Codespace, r.Data, r.GasUsed, r.GasWanted))
	}
	return d
}

func diffDigest(a, b blockDigest) string {
	if a.AppHash != b.AppHash {
		var stores []string
		for k, v := range a.Stores {
			if b.Stores[k] != v {
				stores = append(stores, k)
			}
		}
		sort.Strings(stores)
		return fmt.Sprintf("app hash differs (stores that differ: %v)", stores)
	}
	if len(a.Results) != len(b.Results) {
		return "number of tx results differs"
	}
	for i := range a.Results {
		if a.Results[i] != b.Results[i] {
			return fmt.Sprintf("tx result %d differs: %s vs %s", i, a.Results[i], b.Results[i])
		}
	}
	for k, v := range a.Stores {
		if b.Stores[k] != v {
			return "store " + k + " differs"
		}
	}
	if len(a.Stores) != len(b.Stores) {
		return "store sets differ"
	}
	return ""
}

// oddReads are queries with arguments no client was ever given: empty, short, odd-length and unknown ids.
func oddReads(n *chain.Node) []query {
	var qs []query
	for _, id := range []string{"", "0", "05", "ff", "zz", strings.Repeat("ab", 31), strings.Repeat("cd", 33)} {
		qs = append(qs,
			query{"/irismod.record.Query/Record", &recordtypes.QueryRecordRequest{RecordId: id}, "record " + id},
			query{"/irismod.htlc.Query/HTLC", &htlctypes.QueryHTLCRequest{Id: id}, "htlc " + id},
			query{"/irismod.service.Query/RequestContext", &servicetypes.QueryRequestContextRequest{RequestContextId: id}, "context " + id},
			query{"/irismod.service.Query/Request", &servicetypes.QueryRequestRequest{RequestId: id}, "request " + id},
			query{"/irismod.random.Query/Random", &randomtypes.QueryRandomRequest{ReqId: id}, "random " + id},
			query{"/irismod.oracle.Query/Feed", &oracletypes.QueryFeedRequest{FeedName: id}, "feed " + id},
			query{"/irismod.token.v1.Query/Token", &tokenv1.QueryTokenRequest{Denom: id}, "token " + id},
			query{"/irismod.farm.Query/FarmPool", &farmtypes.QueryFarmPoolRequest{Id: id}, "farm pool " + id},
			query{"/irismod.coinswap.Query/LiquidityPool", &coinswaptypes.QueryLiquidityPoolRequest{LptDenom: id}, "pool " + id},
			query{"/irismod.nft.Query/Denom", &nfttypes.QueryDenomRequest{DenomId: id}, "nft class " + id},
			query{"/irismod.mt.Query/Denom", &mttypes.QueryDenomRequest{DenomId: id}, "mt class " + id})
	}
	return qs
}

// runBlock signs and executes one block of the history on a node.
func runBlock(n *chain.Node, op blockOp) (*abci.ResponseFinalizeBlock, error) {
	txs := make([]chain.Tx, 0, len(op.Txs))
	for _, tx := range op.Txs {
		msgs, err := decodeMsgs(n, tx.Msgs)
		if err != nil {
			return nil, fmt.Errorf("decode: %w", err)
		}
		txs = append(txs, chain.Tx{User: tx.User, Msgs: msgs})
	}
	raw, err := n.SignTxs(txs)
	if err != nil {
		return nil, err
	}
	return n.Block(time.Duration(op.Dt), raw)
}

// exportSections returns the exported app state split per module (raw JSON).
func exportSections(n *chain.Node) (map[string]json.RawMessage, []byte, error) {
	ex, err := n.Export(false)
	if err != nil {
		return nil, nil, err
	}
	var m map[string]json.RawMessage
	if err := json.Unmarshal(ex.AppState, &m); err != nil {
		return nil, nil, err
	}
	return m, ex.AppState, nil
}

func diffSections(a, b map[string]json.RawMessage) []string {
	var out []string
	for k, v := range a {
		if !bytes.Equal(v, b[k]) {
			out = append(out, k)
		}
	}
	for k := range b {
		if _, ok := a[k]; !ok {
			out = append(out, k)
		}
	}
	sort.Strings(out)
	return out
}

type c11Machine struct {
	r0, r1, r2 *chain.Node
	h          *hist
	ops        []blockOp
	digests    []blockDigest
	restarts   int
	variant    string
	txs, okTxs int
	maxTxs     int
	queries    int
	start      int64
}

func mustNode() *chain.Node {
	n, err := chain.NewNode(nodeOpts, nil, 1)
	if err != nil {
		panic(err)
	}
	return n
}

// genesisVariants: the same genesis with fields a genesis file may legitimately leave out.
var genesisVariants = []string{"", "", "htlc-no-previous-block-time"}

func variantOpts(variant string) chain.Options {
	o := nodeOpts
	if variant == "htlc-no-previous-block-time" {
		o.GenesisMod = func(app *simapp.SimApp, gs simapp.GenesisState) {
			baseGenesisMod(app, gs)
			var hg htlctypes.GenesisState
			app.AppCodec().MustUnmarshalJSON(gs[htlctypes.ModuleName], &hg)
			hg.PreviousBlockTime = time.Time{}
			gs[htlctypes.ModuleName] = app.AppCodec().MustMarshalJSON(&hg)
		}
	}
	return o
}

func nodeFor(variant string, start int64) *chain.Node {
	if start < 1 {
		start = 1
	}
	n, err := chain.NewNode(variantOpts(variant), nil, start)
	if err != nil {
		panic(err)
	}
	return n
}

func newC11() pbt.Machine[blockOp] { return &c11Machine{maxTxs: 4} }

// build constructs the replicas from the genesis variant named by the first operation.
func (m *c11Machine) build(variant string, start int64) {
	m.variant, m.start = variant, start
	m.r0, m.r1, m.r2 = nodeFor(variant, start), nodeFor(variant, start), nodeFor(variant, start)
	m.h = &hist{n: m.r0, w: newWorld(), rich: 4, maxIdle: 12}
}

func (m *c11Machine) Next(t *rapid.T) blockOp {
	if m.r0 == nil {
		v := rapid.SampledFrom(genesisVariants).Draw(t, "genesis")
		if v == "" {
			v = "default"
		}
		return blockOp{Genesis: v, Start: drawStart(t)}
	}
	op := m.h.nextBlock(t, m.maxTxs)
	if len(m.ops) > 0 && rapid.IntRange(0, 3).Draw(t, "restart") == 0 {
		op.Restart = true
	}
	return op
}

func (m *c11Machine) Apply(op blockOp) error {
	if m.r0 == nil {
		v := op.Genesis
		if v == "default" {
			v = ""
		}
		m.build(v, op.Start)
		if op.Genesis != "" {
			return nil
		}
	}
	for _, b := range expandIdle(op) {
		if err := m.applyOne(b); err != nil {
			return err
		}
	}
	return nil
}

func (m *c11Machine) applyOne(op blockOp) error {
	if op.Restart && m.r2.Height >= 1 {
		m.r2.Restart()
		m.restarts++
	}
	resp0, err := runBlock(m.r0, op)
	if err != nil {
		return pbt.Failf("C11/block-failed", "baseline replica: %v", err)
	}
	d0 := digestBlock(m.r0, resp0)
	for i, n := range []*chain.Node{m.r1, m.r2} {
		resp, err := runBlock(n, op)
		if err != nil {
			return pbt.Failf("C11/block-failed", "replica R%d: %v", i+1, err)
		}
		if diff := diffDigest(d0, digestBlock(n, resp)); diff != "" {
			return pbt.Failf("C11/replica-divergence", "height %d: replica R%d (%s) differs from baseline: %s", m.r0.Height, i+1,
				[]string{"same process, second run", "restarted between blocks"}[i], diff)
		}
	}
	m.h.observe(op, resp0)
	m.ops = append(m.ops, op)
	m.digests = append(m.digests, d0)
	// R1 is a node that also serves clients: between blocks it answers the whole query catalogue (plus reads with
	// ids nobody was given) on query contexts of the committed height, as the gRPC server does. Reads must leave no
	// trace that a later block can see - the per-block comparison with R0, which serves nothing, decides.
	if qctx, err := m.r1.App.CreateQueryContext(m.r1.Height, false); err == nil {
		qs := catalogue(m.r1, qctx, m.h.w)
		qs = append(qs, oddReads(m.r1)...)
		for _, q := range qs {
			if _, err := runQuery(m.r1, qctx, q); err != nil {
				return pbt.Failf("harness/query", "%v", err)
			}
			m.queries++
		}
	}
	for _, r := range resp0.TxResults {
		m.txs++
		if r.Code == 0 {
			m.okTxs++
		}
	}
	return nil
}

// childReport is what the second OS process prints.
type childReport struct {
	Digests []blockDigest `json:"digests"`
	Export  string        `json:"export"`
	Err     string        `json:"err,omitempty"`
}

func exportHash(n *chain.Node) (string, error) {
	_, bz, err := exportSections(n)
	if err != nil {
		return "", err
	}
	s := sha256.Sum256(bz)
	return hex.EncodeToString(s[:]), nil
}

func (m *c11Machine) Finish() error {
	if m.r0 == nil || len(m.ops) == 0 {
		return nil
	}
	// every replica exports twice; all exports must be byte-identical
	base, baseBz, err := exportSections(m.r0)
	if err != nil {
		return pbt.Failf("C11/export-failed", "baseline export: %v", err)
	}
	for i, n := range []*chain.Node{m.r0, m.r1, m.r2, m.r0} {
		sec, bz, err := exportSections(n)
		if err != nil {
			return pbt.Failf("C11/export-failed", "replica export: %v", err)
		}
		if !bytes.Equal(bz, baseBz) {
			return pbt.Failf("C11/export-divergence", "export #%d (%s) differs from the baseline export in sections %v", i,
				[]string{"baseline, second export", "second run", "restarted", "baseline, third export"}[i], diffSections(base, sec))
		}
	}
	// second OS process
	if os.Getenv("VERIF_C11_NOCHILD") == "" {
		rep, err := runChild(m.variant, m.start, m.ops)
		if err != nil {
			return pbt.Failf("harness/child", "child process: %v", err)
		}
		if rep.Err != "" {
			return pbt.Failf("C11/block-failed", "child replica: %s", rep.Err)
		}
		for i := range m.digests {
			if i >= len(rep.Digests) {
				return pbt.Failf("C11/replica-divergence", "child process stopped at block %d", i)
			}
			if diff := diffDigest(m.digests[i], rep.Digests[i]); diff != "" {
				return pbt.Failf("C11/replica-divergence", "block %d: second OS process differs from baseline: %s", i+1, diff)
			}
		}
		s := sha256.Sum256(baseBz)
		if rep.Export != hex.EncodeToString(s[:]) {
			return pbt.Failf("C11/export-divergence", "export of the second OS process differs from the baseline export")
		}
	}
	return nil
}

func runChild(variant string, start int64, ops []blockOp) (*childReport, error) {
	dir, err := os.MkdirTemp(pbt.OutDir(), "c11child")
	if err != nil {
		return nil, err
	}
	defer os.RemoveAll(dir)
	in := filepath.Join(dir, "history.json")
	bz, _ := json.Marshal(ops)
	if err := os.WriteFile(in, bz, 0o644); err != nil {
		return nil, err
	}
	cmd := exec.Command(os.Args[0], "-test.run", "^TestC11Child$", "-test.timeout", "300s")
	cmd.Env = append(os.Environ(), "VERIF_C11_CHILD="+in, "VERIF_C11_VARIANT="+variant, fmt.Sprintf("VERIF_C11_START=%d", start))
	out, err := cmd.Output()
	if err != nil {
		return nil, fmt.Errorf("%v: %s", err, out)
	}
	i := bytes.Index(out, []byte("CHILD-REPORT "))
	if i < 0 {
		return nil, fmt.Errorf("no report in child output: %s", out)
	}
	line := out[i+len("CHILD-REPORT "):]
	if j := bytes.IndexByte(line, '\n'); j >= 0 {
		line = line[:j]
	}
	var rep childReport
	if err := json.Unmarshal(line, &rep); err != nil {
		return nil, err
	}
	return &rep, nil
}

// TestC11Child is the second-process replica: it replays a history file and prints the digests.
func TestC11Child(t *testing.T) {
	p := os.Getenv("VERIF_C11_CHILD")
	if p == "" {
		t.Skip("helper for TestC11")
	}
	bz, err := os.ReadFile(p)
	if err != nil {
		t.Fatal(err)
	}
	var ops []blockOp
	if err := json.Unmarshal(bz, &ops); err != nil {
		t.Fatal(err)
	}
	rep := childReport{}
	start, _ := strconv.ParseInt(os.Getenv("VERIF_C11_START"), 10, 64)
	n := nodeFor(os.Getenv("VERIF_C11_VARIANT"), start)
	for _, op := range ops {
		resp, err := runBlock(n, op)
		if err != nil {
			rep.Err = err.Error()
			break
		}
		rep.Digests = append(rep.Digests, digestBlock(n, resp))
	}
	if rep.Err == "" {
		if rep.Export, err = exportHash(n); err != nil {
			rep.Err = err.Error()
		}
	}
	out, _ := json.Marshal(rep)
	fmt.Printf("CHILD-REPORT %s\n", out)
}

var dbgOK, dbgFail = map[string]int{}, map[string]int{}

func (m *c11Machine) Classify() (bool, []string) {
	var cl []string
	if m.r0 == nil {
		return false, nil
	}
	if m.variant != "" {
		cl = append(cl, "genesis-variant:"+m.variant)
	}
	if m.start > 1 {
		cl = append(cl, "chain-started-above-height-1")
	}
	for k, v := range m.h.w.msgOK {
		dbgOK[k] += v
	}
	for k, v := range m.h.w.msgFail {
		dbgFail[k] += v
	}
	mods := len(m.h.w.modules)
	if mods >= 6 {
		cl = append(cl, "modules>=6")
	}
	if mods >= 9 {
		cl = append(cl, "modules>=9")
	}
	if m.restarts > 0 {
		cl = append(cl, "restart")
	}
	owners := map[int]bool{}
	for _, x := range m.h.w.mts {
		owners[x.Owner] = true
	}
	if len(owners) >= 3 {
		cl = append(cl, "mt-owners>=3")
	}
	if len(m.h.w.feeds) > 0 {
		cl = append(cl, "feed")
	}
	if passedProposals(m.r0) > 0 {
		cl = append(cl, "params-changed-by-proposal")
	}
	if m.h.w.contention > 0 {
		cl = append(cl, "poor-consumer-contention")
	}
	if len(m.h.w.ctxs) > 0 {
		cl = append(cl, "service-context")
	}
	if m.okTxs >= 20 {
		cl = append(cl, "ok-txs>=20")
	}
	if m.queries >= 1000 {
		cl = append(cl, "replica-served>=1000-queries")
	}
	cl = append(cl, m.h.w.shapeClasses()...)
	return mods >= 6 && m.restarts > 0 && m.okTxs >= 10, cl
}

const c11Rule = "rapid state machine over blocks of signed txs (0-4 txs per block, all ten modules, 4 funded users) on the ABCI driver; replicas: second run in process, restarts at generated boundaries, second OS process; per block app hash + tx results + per-store hashes, at the end byte-identical exports (each twice); non-trivial = >=6 modules with successful messages, >=1 restart and >=10 successful txs; distinct by SHA-256 of the op list"

func init() { pbt.RegisterMachine("c11", newC11) }

func TestC11(t *testing.T) {
	pbt.RunMachine(t, "C11", "c11", c11Rule, newC11)
	if os.Getenv("VERIF_DEBUG") != "" {
		var keys []string
		for k := range dbgOK {
			keys = append(keys, k)
		}
		for k := range dbgFail {
			if _, ok := dbgOK[k]; !ok {
				keys = append(keys, k)
			}
		}
		sort.Strings(keys)
		for _, k := range keys {
			fmt.Printf("MSG %-55s ok=%d fail=%d\n", k, dbgOK[k], dbgFail[k])
		}
	}
}

// passedProposals counts governance proposals that passed (and therefore executed their parameter update).
func passedProposals(n *chain.Node) int {
	c := 0
	_ = n.App.GovKeeper.Proposals.Walk(n.Ctx(), nil, func(_ uint64, p govv1.Proposal) (bool, error) {
		if p.Status == govv1.StatusPassed {
			c++
		}
		return false, nil
	})
	return c
}
