package c11

// C12 All modules: exported state re-imports and preserves what users rely on.
//
// The all-module history of hist_test.go runs on one A-driver node. At generated heights ("asis") and at the
// end of the history (as-is and zero-height) the state is exported, imported into a fresh application and
// judged by three clauses: (1) import succeeds and the registered invariants hold, (2) exporting the imported
// application again yields the same per-module genesis, (3) a catalogue of queries about durable objects
// gives byte-identical answers on both applications.

import (
	"bytes"
	"encoding/binary"
	"encoding/hex"
	"encoding/json"
	"fmt"
	"os"
	"regexp"
	"sort"
	"strings"
	"testing"
	"time"

	abci "github.com/cometbft/cometbft/abci/types"
	tmbytes "github.com/cometbft/cometbft/libs/bytes"
	sdk "github.com/cosmos/cosmos-sdk/types"
	gogoproto "github.com/cosmos/gogoproto/proto"
	"pgregory.net/rapid"

	coinswaptypes "mods.irisnet.org/modules/coinswap/types"
	farmtypes "mods.irisnet.org/modules/farm/types"
	"mods.irisnet.org/modules/htlc"
	htlctypes "mods.irisnet.org/modules/htlc/types"
	mttypes "mods.irisnet.org/modules/mt/types"
	nfttypes "mods.irisnet.org/modules/nft/types"
	"mods.irisnet.org/modules/oracle"
	oracletypes "mods.irisnet.org/modules/oracle/types"
	"mods.irisnet.org/modules/random"
	randomtypes "mods.irisnet.org/modules/random/types"
	recordtypes "mods.irisnet.org/modules/record/types"
	"mods.irisnet.org/modules/service"
	servicetypes "mods.irisnet.org/modules/service/types"
	tokenv1 "mods.irisnet.org/modules/token/types/v1"

	"verifharness/chain"
	"verifharness/pbt"
)

type query struct {
	Path string
	Req  gogoproto.Message
	Desc string
}

func runQuery(n *chain.Node, ctx sdk.Context, q query) (string, error) {
	h := n.App.GRPCQueryRouter().Route(q.Path)
	if h == nil {
		return "", fmt.Errorf("no route %s", q.Path)
	}
	bz, err := gogoproto.Marshal(q.Req)
	if err != nil {
		return "", err
	}
	var out string
	func() {
		defer func() {
			if p := recover(); p != nil {
				err = fmt.Errorf("query panicked: %v", p)
			}
		}()
		var resp *abci.ResponseQuery
		resp, err = h(ctx, &abci.RequestQuery{Data: bz, Path: q.Path})
		if err == nil {
			out = hex.EncodeToString(resp.Value)
		}
	}()
	if err != nil {
		return "ERR " + err.Error(), nil
	}
	return out, nil
}

// catalogue lists the queries about durable user-visible objects; ids are discovered on the source application.
func catalogue(n *chain.Node, ctx sdk.Context, w *world) []query {
	k := n.K
	var qs []query
	add := func(path string, req gogoproto.Message, desc string) { qs = append(qs, query{path, req, desc}) }
	users := n.Users

	// coinswap
	add("/irismod.coinswap.Query/LiquidityPools", &coinswaptypes.QueryLiquidityPoolsRequest{}, "coinswap pools")
	add("/irismod.coinswap.Query/Params", &coinswaptypes.QueryParamsRequest{}, "coinswap params")
	for _, p := range k.Coinswap.GetAllPools(ctx) {
		add("/irismod.coinswap.Query/LiquidityPool", &coinswaptypes.QueryLiquidityPoolRequest{LptDenom: p.LptDenom}, "coinswap pool "+p.LptDenom)
	}
	// farm
	add("/irismod.farm.Query/FarmPools", &farmtypes.QueryFarmPoolsRequest{}, "farm pools")
	add("/irismod.farm.Query/Params", &farmtypes.QueryParamsRequest{}, "farm params")
	k.Farm.IteratorAllPools(ctx, func(p farmtypes.FarmPool) {
		add("/irismod.farm.Query/FarmPool", &farmtypes.QueryFarmPoolRequest{Id: p.Id}, "farm pool "+p.Id)
	})
	for _, u := range users {
		add("/irismod.farm.Query/Farmer", &farmtypes.QueryFarmerRequest{Farmer: u.Addr.String()}, "farmer stakes and pending rewards of "+u.Name)
	}
	// htlc
	add("/irismod.htlc.Query/AssetSupplies", &htlctypes.QueryAssetSuppliesRequest{}, "htlc asset supplies")
	add("/irismod.htlc.Query/Params", &htlctypes.QueryParamsRequest{}, "htlc params")
	k.HTLC.IterateHTLCs(ctx, func(id tmbytes.HexBytes, h htlctypes.HTLC) bool {
		if h.State == htlctypes.Open {
			add("/irismod.htlc.Query/HTLC", &htlctypes.QueryHTLCRequest{Id: id.String()}, "open htlc "+id.String())
		}
		return false
	})
	// token
	add("/irismod.token.v1.Query/Tokens", &tokenv1.QueryTokensRequest{}, "tokens")
	add("/irismod.token.v1.Query/Params", &tokenv1.QueryParamsRequest{}, "token params")
	add("/irismod.token.v1.Query/TotalBurn", &tokenv1.QueryTotalBurnRequest{}, "token burned totals")
	for _, tk := range k.Token.GetTokens(ctx, nil) {
		add("/irismod.token.v1.Query/Token", &tokenv1.QueryTokenRequest{Denom: tk.GetSymbol()}, "token "+tk.GetSymbol())
		add("/irismod.token.v1.Query/Token", &tokenv1.QueryTokenRequest{Denom: tk.GetMinUnit()}, "token by min unit "+tk.GetMinUnit())
	}
	// nft
	add("/irismod.nft.Query/Denoms", &nfttypes.QueryDenomsRequest{}, "nft classes")
	for _, d := range w.nftDenoms {
		add("/irismod.nft.Query/Denom", &nfttypes.QueryDenomRequest{DenomId: d.ID}, "nft class "+d.ID)
		add("/irismod.nft.Query/Collection", &nfttypes.QueryCollectionRequest{DenomId: d.ID}, "nft collection "+d.ID)
		add("/irismod.nft.Query/Supply", &nfttypes.QuerySupplyRequest{DenomId: d.ID}, "nft supply "+d.ID)
		for _, u := range users {
			add("/irismod.nft.Query/NFTsOfOwner", &nfttypes.QueryNFTsOfOwnerRequest{DenomId: d.ID, Owner: u.Addr.String()}, "nfts of "+u.Name+" in "+d.ID)
			add("/irismod.nft.Query/Supply", &nfttypes.QuerySupplyRequest{DenomId: d.ID, Owner: u.Addr.String()}, "nft balance of "+u.Name+" in "+d.ID)
		}
	}
	for _, u := range users {
		add("/irismod.nft.Query/NFTsOfOwner", &nfttypes.QueryNFTsOfOwnerRequest{Owner: u.Addr.String()}, "nfts of "+u.Name+" in all classes")
	}
	for _, x := range w.nfts {
		add("/irismod.nft.Query/NFT", &nfttypes.QueryNFTRequest{DenomId: x.Denom, TokenId: x.ID}, "nft "+x.Denom+"/"+x.ID)
	}
	// mt
	add("/irismod.mt.Query/Denoms", &mttypes.QueryDenomsRequest{}, "mt classes")
	for _, d := range k.MT.GetDenoms(ctx) {
		add("/irismod.mt.Query/Denom", &mttypes.QueryDenomRequest{DenomId: d.Id}, "mt class "+d.Id)
		add("/irismod.mt.Query/MTs", &mttypes.QueryMTsRequest{DenomId: d.Id}, "mts of "+d.Id)
		add("/irismod.mt.Query/Supply", &mttypes.QuerySupplyRequest{DenomId: d.Id}, "mt class supply "+d.Id)
		for _, u := range users {
			add("/irismod.mt.Query/Balances", &mttypes.QueryBalancesRequest{Owner: u.Addr.String(), DenomId: d.Id}, "mt balances of "+u.Name+" in "+d.Id)
		}
		for _, mt := range k.MT.GetMTs(ctx, d.Id) {
			add("/irismod.mt.Query/MT", &mttypes.QueryMTRequest{DenomId: d.Id, MtId: mt.GetID()}, "mt "+mt.GetID())
			add("/irismod.mt.Query/MTSupply", &mttypes.QueryMTSupplyRequest{DenomId: d.Id, MtId: mt.GetID()}, "mt supply "+mt.GetID())
		}
	}
	// service
	add("/irismod.service.Query/Params", &servicetypes.QueryParamsRequest{}, "service params")
	k.Service.IterateServiceDefinitions(ctx, func(d servicetypes.ServiceDefinition) bool {
		add("/irismod.service.Query/Definition", &servicetypes.QueryDefinitionRequest{ServiceName: d.Name}, "service definition "+d.Name)
		add("/irismod.service.Query/Bindings", &servicetypes.QueryBindingsRequest{ServiceName: d.Name}, "service bindings of "+d.Name)
		for _, u := range users {
			// the owner-filtered form reads a secondary index that is not part of the genesis
			add("/irismod.service.Query/Bindings", &servicetypes.QueryBindingsRequest{ServiceName: d.Name, Owner: u.Addr.String()}, "service bindings of "+d.Name+" owned by "+u.Name)
		}
		return false
	})
	k.Service.IterateServiceBindings(ctx, func(b servicetypes.ServiceBinding) bool {
		add("/irismod.service.Query/Binding", &servicetypes.QueryBindingRequest{ServiceName: b.ServiceName, Provider: b.Provider}, "service binding "+b.ServiceName+"/"+b.Provider)
		return false
	})
	k.Service.IterateServiceBindings(ctx, func(b servicetypes.ServiceBinding) bool {
		// what a provider has earned and not yet withdrawn is owed to it across a restart
		add("/irismod.service.Query/EarnedFees", &servicetypes.QueryEarnedFeesRequest{Provider: b.Provider}, "fees earned by provider "+b.Provider)
		return false
	})
	for _, u := range users {
		add("/irismod.service.Query/WithdrawAddress", &servicetypes.QueryWithdrawAddressRequest{Owner: u.Addr.String()}, "withdraw address of "+u.Name)
	}
	k.Service.IterateRequestContexts(ctx, func(id tmbytes.HexBytes, rc servicetypes.RequestContext) bool {
		add("/irismod.service.Query/RequestContext", &servicetypes.QueryRequestContextRequest{RequestContextId: id.String()}, "request context "+id.String())
		return false
	})
	// oracle
	add("/irismod.oracle.Query/Feeds", &oracletypes.QueryFeedsRequest{}, "feeds")
	add("/irismod.oracle.Query/Feeds", &oracletypes.QueryFeedsRequest{State: "running"}, "running feeds")
	add("/irismod.oracle.Query/Feeds", &oracletypes.QueryFeedsRequest{State: "paused"}, "paused feeds")
	k.Oracle.IteratorFeeds(ctx, func(f oracletypes.Feed) {
		add("/irismod.oracle.Query/Feed", &oracletypes.QueryFeedRequest{FeedName: f.FeedName}, "feed "+f.FeedName)
		add("/irismod.oracle.Query/FeedValue", &oracletypes.QueryFeedValueRequest{FeedName: f.FeedName}, "feed value history of "+f.FeedName)
	})
	// random: the pending queue
	add("/irismod.random.Query/RandomRequestQueue", &randomtypes.QueryRandomRequestQueueRequest{}, "pending random requests")
	// record: every stored record by id
	keys, _ := rawStore(n, ctx, "record", recordtypes.RecordKey)
	for _, key := range keys {
		id := hex.EncodeToString(key[1:])
		add("/irismod.record.Query/Record", &recordtypes.QueryRecordRequest{RecordId: id}, "record "+id)
	}
	return qs
}

func rawStore(n *chain.Node, ctx sdk.Context, name string, prefix []byte) (keys, vals [][]byte) {
	c := &chain.Case{E: &chain.Env{App: n.App}, Ctx: ctx}
	return c.RawStore(name, prefix)
}

// irismodSections extracts the ten irismod sections of an exported app state.
func irismodSections(appState []byte) (map[string]json.RawMessage, error) {
	var all map[string]json.RawMessage
	if err := json.Unmarshal(appState, &all); err != nil {
		return nil, err
	}
	out := map[string]json.RawMessage{}
	for _, m := range chain.IrismodModules {
		out[m] = compactJSON(all[m])
	}
	return out, nil
}

func compactJSON(raw json.RawMessage) json.RawMessage {
	var buf bytes.Buffer
	if err := json.Compact(&buf, raw); err != nil {
		return raw
	}
	return buf.Bytes()
}

// reexport exports the irismod modules of an imported, not yet started application from its genesis state.
func reexport(n *chain.Node, ctx sdk.Context) (out map[string]json.RawMessage, err error) {
	defer func() {
		if p := recover(); p != nil {
			err = fmt.Errorf("export panicked: %v", p)
		}
	}()
	gs, err := n.App.ModuleManager.ExportGenesisForModules(ctx, n.App.AppCodec(), chain.IrismodModules)
	if err != nil {
		return nil, err
	}
	out = map[string]json.RawMessage{}
	for _, m := range chain.IrismodModules {
		out[m] = compactJSON(gs[m])
	}
	return out, nil
}

// c12Excl are the generator/oracle switches named after known findings (DESIGN §5); a switch is active while
// its signature is listed as status=known.
type c12Counters struct {
	roundTrips, zeroHeight, queries int
	skipped                         map[string]int
	sectionsNonEmpty                int
}

// roundTrip exports `n` (as-is, or zero-height after the modules' own preparation), imports the result into a
// fresh application and applies the three clauses. It returns the number of queries compared.
func roundTrip(n *chain.Node, w *world, zeroHeight bool, cnt *c12Counters) error {
	_, err := roundTripNode(n, w, zeroHeight, cnt)
	return err
}

// roundTripNode is roundTrip that also hands out the imported application (nil when the round trip was skipped
// or failed); the imported node has executed no block yet.
func roundTripNode(n *chain.Node, w *world, zeroHeight bool, cnt *c12Counters) (*chain.Node, error) {
	imp, err := roundTripImpl(n, w, zeroHeight, cnt)
	if err != nil {
		return nil, err
	}
	return imp, nil
}

func roundTripImpl(n *chain.Node, w *world, zeroHeight bool, cnt *c12Counters) (*chain.Node, error) {
	mode := "as-is"
	srcCtx := n.Ctx()
	if zeroHeight {
		mode = "zero-height"
		// what an application's zero-height export does for these modules before exporting
		cctx := n.CheckCtx()
		if err := safeRun(func() {
			service.PrepForZeroHeightGenesis(cctx, n.K.Service)
			oracle.PrepForZeroHeightGenesis(cctx, n.K.Oracle)
			htlc.PrepForZeroHeightGenesis(cctx, n.K.HTLC)
			random.PrepForZeroHeightGenesis(cctx, n.K.Random)
		}); err != nil {
			return nil, pbt.Failf("C12/prep-failed", "zero-height preparation failed at height %d: %v", n.Height, err)
		}
		srcCtx = cctx
	} else if pbt.IsKnown("C12/asis-running-context-rejected") {
		// known finding F9e: an as-is export that contains a request context which is not paused with a completed
		// batch is rejected by service genesis validation. Excluded by construction: no as-is round trip then.
		running := false
		n.K.Service.IterateRequestContexts(srcCtx, func(id tmbytes.HexBytes, rc servicetypes.RequestContext) bool {
			if rc.State != servicetypes.PAUSED || rc.BatchState != servicetypes.BATCHCOMPLETED {
				running = true
			}
			return running
		})
		if running {
			cnt.skipped["C12/asis-running-context-rejected"]++
			return nil, nil
		}
	}
	ex, err := n.Export(zeroHeight)
	if err != nil {
		return nil, pbt.Failf("C12/export-failed", "%s export at height %d failed: %v", mode, n.Height, err)
	}
	src, err := irismodSections(ex.AppState)
	if err != nil {
		return nil, pbt.Failf("C12/export-failed", "%s export is not JSON: %v", mode, err)
	}
	// (1) import
	opts := nodeOpts
	opts.GenesisTime = n.Time
	opts.SkipCrisis = os.Getenv("VERIF_C12_SKIP_CRISIS") != ""
	initial := ex.Height
	if initial < 1 {
		initial = 1
	}
	imp, err := chain.NewNode(opts, ex.AppState, initial)
	if err != nil {
		if !zeroHeight && strings.Contains(err.Error(), "invalid request context") {
			return nil, pbt.Failf("C12/asis-running-context-rejected", "as-is export of height %d (contains a request context that is running or whose batch is not completed) is rejected by import: %v", n.Height, firstLine(err.Error()))
		}
		return nil, pbt.Failf("C12/import-rejected/"+slug(err.Error()), "%s export of height %d is rejected by import: %v", mode, n.Height, firstLine(err.Error()))
	}
	impCtx := imp.Ctx().WithBlockHeight(srcCtx.BlockHeight()).WithBlockTime(srcCtx.BlockTime())
	if zeroHeight {
		impCtx = imp.Ctx().WithBlockTime(srcCtx.BlockTime())
	}
	if err := safeRun(func() { imp.App.CrisisKeeper.AssertInvariants(impCtx) }); err != nil {
		return nil, pbt.Failf("C12/import-invariant/"+slug(err.Error()), "invariants broken after importing the %s export of height %d: %v", mode, n.Height, firstLine(err.Error()))
	}
	// (2) fixpoint
	again, err := reexport(imp, impCtx)
	if err != nil {
		return nil, pbt.Failf("C12/reexport-failed", "%s: exporting the imported state failed: %v", mode, err)
	}
	var diff []string
	for _, m := range chain.IrismodModules {
		if !bytes.Equal(src[m], again[m]) {
			diff = append(diff, m)
		}
	}
	for _, m := range diff {
		sig := "C12/not-a-fixpoint/" + m
		if m == "record" && sameRecordMultiset(src[m], again[m]) {
			// known finding F9c: the record genesis carries no ids; import recomputes them with a fresh counter, so
			// ids (and with them the export order) change. Same multiset of records = exactly this finding.
			sig = "C12/record-ids-change-on-import"
		}
		if m == "oracle" && bytes.Equal(collapseFeedValues(src[m]), again[m]) {
			// known finding F9b: import stores every exported value of a feed under the same key, so only the last
			// one listed (the oldest) survives. Exactly that and nothing else differs.
			sig = "C12/oracle-value-history-collapses"
		}
		if pbt.IsKnown(sig) {
			cnt.skipped[sig]++
			continue
		}
		return nil, pbt.Failf(sig, "%s export of height %d: module sections %v change on import+export\n first : %s\n second: %s", mode, n.Height, diff,
			clip(string(src[m])), clip(string(again[m])))
	}
	// (3) queries
	qctx := srcCtx
	if zeroHeight {
		// the prepared state is what is exported; heights are relative to the restart
		qctx = srcCtx.WithBlockHeight(impCtx.BlockHeight())
	}
	for _, q := range catalogue(n, srcCtx, w) {
		if zeroHeight && q.Path == "/irismod.service.Query/EarnedFees" {
			// the zero-height preparation has paid the earned fees out (and leaves the tallies behind in the prepared
			// state, which is not exported)
			continue
		}
		a, err := runQuery(n, qctx, q)
		if err != nil {
			return nil, pbt.Failf("harness/query", "%v", err)
		}
		b, err := runQuery(imp, impCtx, q)
		if err != nil {
			return nil, pbt.Failf("harness/query", "%v", err)
		}
		cnt.queries++
		if a != b {
			mod := strings.Split(strings.TrimPrefix(q.Path, "/irismod."), ".")[0]
			sig := "C12/query-differs/" + mod
			if mod == "record" {
				sig = "C12/record-ids-change-on-import"
			}
			if q.Path == "/irismod.oracle.Query/FeedValue" {
				sig = "C12/oracle-value-history-collapses"
			}
			if q.Path == "/irismod.service.Query/EarnedFees" && !zeroHeight {
				sig = sigFeeBooks
			}
			if pbt.IsKnown(sig) {
				cnt.skipped[sig]++
				continue
			}
			return nil, pbt.Failf(sig, "%s export of height %d: query %q (%s) answers differently after import\n before: %s\n after : %s", mode, n.Height, q.Desc, q.Path,
				decodeAnswer(a), decodeAnswer(b))
		}
	}
	cnt.roundTrips++
	if zeroHeight {
		cnt.zeroHeight++
	}
	ne := 0
	for _, m := range chain.IrismodModules {
		if len(src[m]) > 120 {
			ne++
		}
	}
	if ne > cnt.sectionsNonEmpty {
		cnt.sectionsNonEmpty = ne
	}
	return imp, nil
}

// collapseFeedValues rewrites an oracle genesis section so that every feed keeps only the last listed value.
func collapseFeedValues(raw json.RawMessage) json.RawMessage {
	var g struct {
		Entries []map[string]json.RawMessage `json:"entries"`
	}
	if json.Unmarshal(raw, &g) != nil {
		return raw
	}
	var buf bytes.Buffer
	buf.WriteString(`{"entries":[`)
	for i, e := range g.Entries {
		var vals []json.RawMessage
		_ = json.Unmarshal(e["values"], &vals)
		if len(vals) > 1 {
			vals = vals[len(vals)-1:]
		}
		vb, _ := json.Marshal(vals)
		if i > 0 {
			buf.WriteByte(',')
		}
		fmt.Fprintf(&buf, `{"feed":%s,"state":%s,"values":%s}`, compactJSON(e["feed"]), compactJSON(e["state"]), vb)
	}
	buf.WriteString("]}")
	return buf.Bytes()
}

// sameRecordMultiset compares two record genesis sections as multisets of records.
func sameRecordMultiset(a, b json.RawMessage) bool {
	parse := func(raw json.RawMessage) ([]string, bool) {
		var g struct {
			Records []json.RawMessage `json:"records"`
		}
		if json.Unmarshal(raw, &g) != nil {
			return nil, false
		}
		out := make([]string, len(g.Records))
		for i, r := range g.Records {
			out[i] = string(compactJSON(r))
		}
		sort.Strings(out)
		return out, true
	}
	x, ok1 := parse(a)
	y, ok2 := parse(b)
	if !ok1 || !ok2 || len(x) != len(y) {
		return false
	}
	for i := range x {
		if x[i] != y[i] {
			return false
		}
	}
	return true
}

func decodeAnswer(s string) string {
	if strings.HasPrefix(s, "ERR") {
		return clip(s)
	}
	bz, _ := hex.DecodeString(s)
	return clip(fmt.Sprintf("%q", bz))
}

func clip(s string) string {
	if len(s) > 900 {
		return s[:900] + "…"
	}
	return s
}

var slugRe = regexp.MustCompile(`[^a-z]+`)
var digitTok = regexp.MustCompile(`\S*\d\S*`)

// slug turns an error text into a stable signature component: lower-case words only (no numbers, ids, addresses).
func slug(s string) string {
	s = strings.TrimPrefix(firstLine(s), "InitChain panicked: ")
	s = digitTok.ReplaceAllString(s, " ")
	var words []string
	for _, w := range strings.Split(slugRe.ReplaceAllString(strings.ToLower(s), " "), " ") {
		if len(w) >= 2 && len(w) <= 14 {
			words = append(words, w)
		}
		if len(words) == 6 {
			break
		}
	}
	return strings.Join(words, "-")
}

func firstLine(s string) string {
	if i := strings.Index(s, "\n"); i >= 0 {
		s = s[:i]
	}
	return clip(s)
}

func safeRun(f func()) (err error) {
	defer func() {
		if p := recover(); p != nil {
			err = fmt.Errorf("%v", p)
		}
	}()
	f()
	return nil
}

type c12Machine struct {
	n   *chain.Node
	h   *hist
	ops []blockOp
	cnt c12Counters
	ok  int
	// shadow is the application that imported an as-is export of n at height shadowFrom; from then on every
	// block of the history is executed on both, and the re-imported chain must keep behaving like the original.
	shadow                              *chain.Node
	shadowFrom                          int64
	forks, shadowBlocks, shadowTxs      int
	shadowOK, shadowDue, shadowCompared int
	zhBlocks, shadowEnded, forkSkipped  int
	start                               int64
}

func newC12() pbt.Machine[blockOp] {
	m := &c12Machine{}
	m.cnt.skipped = map[string]int{}
	return m
}

// build creates the node at the initial height named by the first operation.
func (m *c12Machine) build(start int64) {
	if start < 1 {
		start = 1
	}
	n, err := chain.NewNode(nodeOpts, nil, start)
	if err != nil {
		panic(err)
	}
	m.n, m.start = n, start
	m.h = &hist{n: m.n, w: newWorld(), rich: 4, maxIdle: 60}
}

func (m *c12Machine) Next(t *rapid.T) blockOp {
	if m.n == nil {
		return blockOp{Genesis: "default", Start: drawStart(t)}
	}
	op := m.h.nextBlock(t, 4)
	if len(m.ops) > 3 {
		switch rapid.IntRange(0, 9).Draw(t, "export") {
		case 0:
			op.Export = "asis"
		case 1, 2:
			// the imported application becomes a second chain that executes the rest of the history as well
			if m.shadow == nil || rapid.IntRange(0, 3).Draw(t, "refork") == 0 {
				op.Export = "fork"
			}
		}
	}
	return op
}

func (m *c12Machine) Apply(op blockOp) error {
	if m.n == nil {
		m.build(op.Start)
		if op.Genesis != "" {
			return nil
		}
	}
	for _, b := range expandIdle(op) {
		if err := m.applyOne(b); err != nil {
			return err
		}
	}
	return nil
}

// shadowSig turns a C13 queue clause into the signature of the C12 clause "the re-imported chain keeps working".
func shadowSig(err error) error {
	if v, ok := err.(*pbt.Violation); ok {
		return pbt.Failf("C12/imported-chain/"+strings.TrimPrefix(v.Sig, "C13/"), "%s", v.Msg)
	}
	return err
}

func (m *c12Machine) applyOne(op blockOp) error {
	dueBefore := 0
	if m.shadow != nil && apphashDependent(m.n, op) {
		// An oracle-seeded random request picks its provider from a generator seeded with the app hash
		// (random/keeper/service.go RequestService). The app hash is chain data, but it is not part of a genesis: the
		// re-imported chain legitimately has another one. The comparison ends here, with the final clauses.
		if m.shadow.Height > m.shadowFrom {
			if err := m.compareChains(); err != nil {
				return err
			}
		}
		m.shadow = nil
		m.shadowEnded++
	}
	if m.shadow != nil {
		dueBefore = dueCount(m.n)
	}
	resp, err := runBlock(m.n, op)
	if err != nil {
		return pbt.Failf("C12/block-failed", "%v", err)
	}
	m.h.observe(op, resp)
	m.ops = append(m.ops, op)
	for _, r := range resp.TxResults {
		if r.Code == 0 {
			m.ok++
		}
	}
	if m.shadow != nil {
		sresp, err := runBlock(m.shadow, op)
		if err != nil {
			return pbt.Failf("C12/imported-chain/block-halt", "the chain that imported the export of height %d does not complete block %d: %v", m.shadowFrom, m.shadow.Height+1, firstLine(err.Error()))
		}
		m.shadowBlocks++
		if dueBefore > 0 {
			m.shadowDue++
		}
		if len(sresp.TxResults) != len(resp.TxResults) {
			return pbt.Failf("harness/shadow", "tx result counts differ: %d vs %d", len(resp.TxResults), len(sresp.TxResults))
		}
		for i, r := range resp.TxResults {
			q := sresp.TxResults[i]
			m.shadowTxs++
			if r.Code == 0 {
				m.shadowOK++
			}
			// acceptance only: the reason of a refusal may differ where a module documents that finished items are
			// dropped on export (a claim of a completed HTLC is "not open" on one chain and "unknown" on the other)
			if (r.Code == 0) != (q.Code == 0) {
				return pbt.Failf("C12/imported-chain/tx-result-differs", "block %d, tx %d (%s): the original chain answers code %d %s (%s), the chain that imported its export of height %d answers code %d %s (%s)",
					m.n.Height, i, clip(string(bytes.Join(rawMsgs(op.Txs[i].Msgs), []byte(" ; ")))), r.Code, r.Codespace, firstLine(r.Log), m.shadowFrom, q.Code, q.Codespace, firstLine(q.Log))
			}
		}
		if err := queueHygiene(m.shadow); err != nil {
			return shadowSig(err)
		}
	}
	switch op.Export {
	case "asis":
		return roundTrip(m.n, m.h.w, false, &m.cnt)
	case "fork":
		imp, err := roundTripNode(m.n, m.h.w, false, &m.cnt)
		if err != nil {
			return err
		}
		if imp != nil && pbt.IsKnown(sigFeeBooks) && serviceFeeBooks(m.n) {
			// known finding: the imported chain has lost what providers earned and the volumes that price later requests;
			// from here on fees, balances and with them transaction results legitimately differ. Excluded by
			// construction: such a state is round-tripped (minus the earned-fee queries) but not continued.
			m.cnt.skipped[sigFeeBooks+"(not continued)"]++
			imp = nil
		}
		if imp != nil && serviceSchedulePending(m.n) {
			// A paused request context may still have an entry in the service queues (its next batch, or the expiry of
			// its last one). The queues are not part of the service genesis, so on the imported chain a later start
			// issues the next batch at once instead of at the scheduled height: request ids and timing then differ
			// although every context is preserved. Such a state is round-tripped but not continued.
			m.forkSkipped++
			imp = nil
		}
		if imp != nil {
			imp.CopyOffChain(m.n)
			if err := queueHygiene(imp); err != nil {
				return shadowSig(err)
			}
			m.shadow, m.shadowFrom = imp, m.n.Height
			m.forks++
		}
	}
	return nil
}

// apphashDependent reports whether the block holds an oracle-seeded random request while the seed service has
// more than one provider bound.
func apphashDependent(n *chain.Node, op blockOp) bool {
	found := false
	bindings := 0
	for _, tx := range op.Txs {
		for _, raw := range tx.Msgs {
			c := compactJSON(raw)
			if bytes.Contains(c, []byte(`"/irismod.random.MsgRequestRandom"`)) && bytes.Contains(c, []byte(`"oracle":true`)) {
				found = true
			}
			if bytes.Contains(c, []byte(`"/irismod.service.MsgBindService"`)) && bytes.Contains(c, []byte(`"service_name":"`+randomtypes.ServiceName+`"`)) {
				bindings++ // a provider bound earlier in the same block counts as well
			}
		}
	}
	if !found {
		return false
	}
	n.K.Service.IterateServiceBindings(n.Ctx(), func(b servicetypes.ServiceBinding) bool {
		if b.ServiceName == randomtypes.ServiceName {
			bindings++
		}
		return false
	})
	return bindings >= 2
}

func rawMsgs(in []json.RawMessage) [][]byte {
	out := make([][]byte, len(in))
	for i, r := range in {
		out[i] = r
	}
	return out
}

// sigFeeBooks names the finding that the service genesis carries neither the earned-fee tallies nor the request
// volumes: an as-is export drops them (the zero-height preparation pays the earned fees out first).
const sigFeeBooks = "C12/asis-service-fee-books-dropped"

// serviceFeeBooks reports whether the service store holds earned-fee tallies or request volumes.
func serviceFeeBooks(n *chain.Node) bool {
	ctx := n.Ctx()
	a, _ := rawStore(n, ctx, "service", servicetypes.RequestVolumeKey)
	b, _ := rawStore(n, ctx, "service", servicetypes.EarnedFeesKey)
	return len(a)+len(b) > 0
}

// serviceSchedulePending reports whether the service module's new-batch or expiry queue holds an entry.
func serviceSchedulePending(n *chain.Node) bool {
	ctx := n.Ctx()
	a, _ := rawStore(n, ctx, "service", servicetypes.NewRequestBatchKey)
	b, _ := rawStore(n, ctx, "service", servicetypes.ExpiredRequestBatchKey)
	return len(a)+len(b) > 0
}

// dueCount is the number of queue entries of htlc, farm, service and random that fall due in the next block.
func dueCount(n *chain.Node) int {
	ctx := n.Ctx()
	next := uint64(n.Height + 1)
	c := 0
	for _, q := range []struct {
		store  string
		prefix []byte
	}{{"htlc", htlctypes.HTLCExpiredQueueKey}, {"farm", farmtypes.ActiveFarmPoolKey}, {"service", servicetypes.NewRequestBatchKey}, {"service", servicetypes.ExpiredRequestBatchKey}} {
		keys, _ := rawStore(n, ctx, q.store, q.prefix)
		for _, k := range keys {
			if len(k) >= 9 && binary.BigEndian.Uint64(k[1:9]) == next {
				c++
			}
		}
	}
	n.K.Random.IterateRandomRequestQueue(ctx, func(height int64, reqID []byte, r randomtypes.Request) bool {
		if uint64(height)+1 == next {
			c++
		}
		return false
	})
	return c
}

// compareChains requires the original chain and the chain that imported its export to agree, after both executed
// the same blocks, on the exported irismod genesis and on the query catalogue.
func (m *c12Machine) compareChains() error {
	a, _, err := exportSections(m.n)
	if err != nil {
		return pbt.Failf("C12/export-failed", "as-is export at height %d failed: %v", m.n.Height, err)
	}
	b, _, err := exportSections(m.shadow)
	if err != nil {
		return pbt.Failf("C12/imported-chain/export-failed", "the chain that imported the export of height %d cannot be exported at height %d: %v", m.shadowFrom, m.shadow.Height, err)
	}
	for _, mod := range chain.IrismodModules {
		x, y := compactJSON(a[mod]), compactJSON(b[mod])
		if bytes.Equal(x, y) {
			continue
		}
		sig := "C12/imported-chain/state-differs/" + mod
		if mod == "record" && sameRecordMultiset(x, y) {
			sig = "C12/record-ids-change-on-import"
		}
		if pbt.IsKnown(sig) {
			m.cnt.skipped[sig]++
			continue
		}
		return pbt.Failf(sig, "%d blocks after the export of height %d was imported, the two chains (same blocks executed) export different %s states\n original: %s\n imported: %s",
			m.n.Height-m.shadowFrom, m.shadowFrom, mod, clipDiff(string(x), string(y)), clipDiff(string(y), string(x)))
	}
	ctxA, ctxB := m.n.Ctx(), m.shadow.Ctx()
	for _, q := range catalogue(m.n, ctxA, m.h.w) {
		x, err := runQuery(m.n, ctxA, q)
		if err != nil {
			return pbt.Failf("harness/query", "%v", err)
		}
		y, err := runQuery(m.shadow, ctxB, q)
		if err != nil {
			return pbt.Failf("harness/query", "%v", err)
		}
		m.cnt.queries++
		if x != y {
			mod := strings.Split(strings.TrimPrefix(q.Path, "/irismod."), ".")[0]
			sig := "C12/imported-chain/query-differs/" + mod
			if mod == "record" {
				sig = "C12/record-ids-change-on-import"
			}
			if pbt.IsKnown(sig) {
				m.cnt.skipped[sig]++
				continue
			}
			return pbt.Failf(sig, "%d blocks after the export of height %d was imported, query %q (%s) is answered differently by the two chains\n original: %s\n imported: %s",
				m.n.Height-m.shadowFrom, m.shadowFrom, q.Desc, q.Path, decodeAnswer(x), decodeAnswer(y))
		}
	}
	m.shadowCompared++
	return nil
}

// clipDiff shows a around the first position where it differs from b.
func clipDiff(a, b string) string {
	i := 0
	for i < len(a) && i < len(b) && a[i] == b[i] {
		i++
	}
	from := i - 200
	if from < 0 {
		from = 0
	}
	to := i + 400
	if to > len(a) {
		to = len(a)
	}
	return "…" + a[from:to] + "…"
}

// zhIdleBlocks is the number of empty blocks executed on the chain that imported the zero-height export.
const zhIdleBlocks = 8

func (m *c12Machine) Finish() error {
	if len(m.ops) == 0 {
		return nil
	}
	if m.shadow != nil && m.shadow.Height > m.shadowFrom {
		// (an imported application that has executed no block yet was compared by the round trip itself)
		if err := m.compareChains(); err != nil {
			return err
		}
	}
	if err := roundTrip(m.n, m.h.w, false, &m.cnt); err != nil {
		return err
	}
	imp, err := roundTripNode(m.n, m.h.w, true, &m.cnt)
	if err != nil || imp == nil {
		return err
	}
	// the restarted chain must be able to go on: a few empty blocks, queue scans and the registered invariants
	for i := 0; i < zhIdleBlocks; i++ {
		if _, err := imp.Block([]time.Duration{time.Second, time.Nanosecond, 7 * time.Minute, 6 * time.Second}[i%4], nil); err != nil {
			return pbt.Failf("C12/imported-chain/block-halt", "the chain restarted from the zero-height export of height %d does not complete block %d: %v", m.n.Height, imp.Height+1, firstLine(err.Error()))
		}
		m.zhBlocks++
		if err := queueHygiene(imp); err != nil {
			return shadowSig(err)
		}
	}
	if err := safeRun(func() { imp.App.CrisisKeeper.AssertInvariants(imp.Ctx()) }); err != nil {
		return pbt.Failf("C12/imported-chain/invariant/"+slug(err.Error()), "invariants broken %d blocks after restarting from the zero-height export of height %d: %v", zhIdleBlocks, m.n.Height, firstLine(err.Error()))
	}
	return nil
}

func (m *c12Machine) Classify() (bool, []string) {
	var cl []string
	if m.n == nil {
		return false, nil
	}
	if m.start > 1 {
		cl = append(cl, "chain-started-above-height-1")
	}
	w := m.h.w
	if m.cnt.sectionsNonEmpty >= 5 {
		cl = append(cl, "sections>=5")
	}
	if m.cnt.sectionsNonEmpty >= 8 {
		cl = append(cl, "sections>=8")
	}
	if m.cnt.zeroHeight > 0 {
		cl = append(cl, "zero-height")
	}
	if m.cnt.roundTrips-m.cnt.zeroHeight > 0 {
		cl = append(cl, "as-is")
	}
	ctx := m.n.Ctx()
	openHTLC := false
	m.n.K.HTLC.IterateHTLCs(ctx, func(id tmbytes.HexBytes, h htlctypes.HTLC) bool {
		openHTLC = openHTLC || h.State == htlctypes.Open
		return openHTLC
	})
	feedVals := false
	m.n.K.Oracle.IteratorFeeds(ctx, func(f oracletypes.Feed) {
		if len(m.n.K.Oracle.GetFeedValues(ctx, f.FeedName)) >= 2 {
			feedVals = true
		}
	})
	keys, _ := rawStore(m.n, ctx, "record", recordtypes.RecordKey)
	durable := 0
	for name, ok := range map[string]bool{"open-htlc": openHTLC, "feed-values>=2": feedVals, "records>=2": len(keys) >= 2,
		"farm-staker": len(w.stakers) > 0, "token-burned": len(m.n.K.Token.GetAllBurnCoin(ctx)) > 0} {
		if ok {
			cl = append(cl, name)
			durable++
		}
	}
	if passedProposals(m.n) > 0 {
		cl = append(cl, "params-changed-by-proposal")
	}
	if m.forks > 0 {
		cl = append(cl, "forked")
	}
	if m.shadowBlocks >= 10 {
		cl = append(cl, "imported-chain-ran>=10-blocks")
	}
	if m.shadowOK >= 5 {
		cl = append(cl, "imported-chain-ran>=5-ok-txs")
	}
	if m.shadowDue > 0 {
		cl = append(cl, "imported-chain-processed-due-items")
	}
	if m.shadowCompared > 0 {
		cl = append(cl, "imported-chain-compared-at-end")
	}
	if m.zhBlocks > 0 {
		cl = append(cl, "zero-height-chain-continued")
	}
	if m.forkSkipped > 0 {
		cl = append(cl, "not-continued:service-schedule-pending")
	}
	if m.shadowEnded > 0 {
		cl = append(cl, "comparison-ended:provider-drawn-from-app-hash")
	}
	sort.Strings(cl)
	for k, v := range m.cnt.skipped {
		if v > 0 {
			cl = append(cl, "skipped:"+k)
		}
	}
	cl = append(cl, w.shapeClasses()...)
	return m.cnt.sectionsNonEmpty >= 5 && durable >= 1 && m.cnt.roundTrips >= 1, cl
}

const c12Rule = "rapid state machine over blocks of signed txs (all ten modules) on one ABCI node; export/import round trips at generated heights (as-is) and at the end (as-is and zero-height after the modules' PrepForZeroHeightGenesis); clauses: import accepted + invariants, re-export fixpoint per irismod module, query catalogue byte-identical; non-trivial = an executed round trip whose export has >=5 non-empty irismod sections and >=1 of open HTLC / feed with >=2 values / >=2 records / farm staker / burned token; distinct by SHA-256 of the op list"

func init() { pbt.RegisterMachine("c12", newC12) }

func TestC12(t *testing.T) { pbt.RunMachine(t, "C12", "c12", c12Rule, newC12) }
