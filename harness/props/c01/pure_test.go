package c01

import (
	"fmt"
	"math/big"
	"testing"

	sdkmath "cosmossdk.io/math"
	"pgregory.net/rapid"

	coinswapkeeper "mods.irisnet.org/modules/coinswap/keeper"

	"verifharness/gen"
	"verifharness/pbt"
)

// C01 layer 1: keeper.GetInputPrice / keeper.GetOutputPrice as pure functions.

type pureIn struct {
	Fn   string `json:"fn"` // "in": GetInputPrice(X,Rin,Rout,fee); "out": GetOutputPrice(X,Rin,Rout,fee)
	X    string `json:"x"`
	Rin  string `json:"rin"`
	Rout string `json:"rout"`
	Fee  string `json:"fee"` // f, fee = f / 10^18, 0 < f < 10^18
	How  string `json:"how,omitempty"`
}

func genFee(t *rapid.T, label string) *big.Int {
	switch uni(t, label+"/shape", 9+1) {
	case 0:
		return big.NewInt(1) // 10^-18
	case 1:
		return sub(bigD, big1) // 1 - 10^-18
	case 2, 3:
		return big.NewInt(3_000_000_000_000_000) // 0.003 (default)
	case 4:
		return big.NewInt(500_000_000_000_000_000) // 0.5
	case 5:
		return mul(big.NewInt(int64(rapid.IntRange(1, 999).Draw(t, label+"/milli"))), gen.Pow10(15))
	case 6:
		return mul(big.NewInt(int64(rapid.IntRange(1, 9).Draw(t, label+"/digit"))), gen.Pow10(uni(t, label+"/pow", 17+1)))
	default:
		return new(big.Int).SetUint64(rapid.Uint64Range(1, 999_999_999_999_999_999).Draw(t, label+"/any"))
	}
}

// sized draws a positive integer: either by shape (gen.Amount) or with a uniformly drawn bit length.
func sized(t *rapid.T, label string, maxBits int) *big.Int {
	if maxBits < 1 {
		maxBits = 1
	}
	if maxBits >= 22 && rapid.Bool().Draw(t, label+"/byshape") {
		return gen.Amount(t, label, uint(maxBits))
	}
	return gen.Bits(t, label, uint(rapid.IntRange(1, maxBits).Draw(t, label+"/bits")))
}

func genPure(t *rapid.T) pureIn {
	f := genFee(t, "fee")
	delta := sub(bigD, f)
	in := pureIn{Fee: f.String()}
	budget := uni(t, "budget", 9+1) < 7 // keep most cases inside the 256-bit range
	switch k := uni(t, "fn", 9+1); {
	case k < 4: // exact input
		in.Fn, in.How = "in", "random"
		rin := sized(t, "rin", 128)
		rout := sized(t, "rout", 128)
		xb := 128
		if budget {
			// x*delta*rout must stay below 2^256
			if lim := 255 - delta.BitLen() - rout.BitLen(); lim < xb {
				xb = lim
			}
		}
		x := sized(t, "x", xb)
		in.X, in.Rin, in.Rout = x.String(), rin.String(), rout.String()
	case k < 7: // exact output, random
		in.Fn, in.How = "out", "random"
		rout := add(sized(t, "rout", 128), big1) // >= 2
		if rout.Cmp(pow128) > 0 {
			rout = new(big.Int).Set(pow128)
		}
		var out *big.Int
		switch uni(t, "outshape", 5+1) {
		case 0:
			out = sub(rout, big1) // all but one unit
		case 1:
			out = quo(rout, big2)
		case 2:
			out = big.NewInt(1)
		default:
			out = sized(t, "out", rout.BitLen())
		}
		if out.Cmp(rout) >= 0 {
			out = sub(rout, big1)
		}
		if out.Sign() <= 0 {
			out = big.NewInt(1)
		}
		rb := 128
		if budget {
			if lim := 255 - 60 - out.BitLen(); lim < rb {
				rb = lim
			}
		}
		rin := sized(t, "rin", rb)
		in.X, in.Rin, in.Rout = out.String(), rin.String(), rout.String()
	default: // exact output, constructive: Rin*out*D divisible by (Rout-out)*delta
		in.Fn, in.How = "out", "constructive"
		m := sized(t, "m", 40)
		out := sized(t, "out", 60)
		md := mul(m, delta)
		g := new(big.Int).GCD(nil, nil, md, bigD)
		q := quo(md, g)
		q2 := quo(q, new(big.Int).GCD(nil, nil, q, out))
		j := big.NewInt(int64(rapid.IntRange(1, 1000).Draw(t, "j")))
		rin := mul(q2, j)
		if rin.Cmp(pow128) > 0 {
			rin = q2
		}
		if rin.Cmp(pow128) > 0 { // cannot be represented within the bounds: fall back to a plain case
			in.How = "constructive-fallback"
			rin = sized(t, "rin", 100)
		}
		in.X, in.Rin, in.Rout = out.String(), rin.String(), add(out, m).String()
	}
	return in
}

// callPrice runs the function under test, catching its panics.
func callPrice(fn string, x, rin, rout, f *big.Int) (res *big.Int, panicked interface{}) {
	defer func() {
		if p := recover(); p != nil {
			res, panicked = nil, p
		}
	}()
	fee := sdkmath.LegacyNewDecFromBigIntWithPrec(f, 18)
	X, RI, RO := sdkmath.NewIntFromBigInt(x), sdkmath.NewIntFromBigInt(rin), sdkmath.NewIntFromBigInt(rout)
	var r sdkmath.Int
	if fn == "in" {
		r = coinswapkeeper.GetInputPrice(X, RI, RO, fee)
	} else {
		r = coinswapkeeper.GetOutputPrice(X, RI, RO, fee)
	}
	return r.BigInt(), nil
}

func over256(vs ...*big.Int) bool {
	for _, v := range vs {
		if v.Cmp(max256) > 0 {
			return true
		}
	}
	return false
}

func checkPure(in pureIn) (error, bool, []string) {
	x, rin, rout, f := bi(in.X), bi(in.Rin), bi(in.Rout), bi(in.Fee)
	delta := sub(bigD, f)
	if x.Sign() <= 0 || rin.Sign() <= 0 || rout.Sign() <= 0 || f.Sign() <= 0 || f.Cmp(bigD) >= 0 || (in.Fn == "out" && x.Cmp(rout) >= 0) {
		return fmt.Errorf("harness: input outside the callers' preconditions: %+v", in), false, nil
	}
	classes := []string{"fn-" + in.Fn, "how-" + in.How}
	if x.Cmp(pow64) > 0 || rin.Cmp(pow64) > 0 || rout.Cmp(pow64) > 0 {
		classes = append(classes, "operand>2^64")
	}
	if f.Cmp(big1) == 0 || delta.Cmp(big1) == 0 {
		classes = append(classes, "fee-extreme")
	}
	got, pnc := callPrice(in.Fn, x, rin, rout, f)
	if pnc != nil {
		// A panic is tolerated only as the SDK's 256-bit range refusal, and only when a product the
		// formula needs really leaves that range.
		var inter bool
		if in.Fn == "in" {
			a := mul(x, delta)
			inter = over256(a, mul(a, rout), mul(rin, bigD), add(mul(rin, bigD), a))
		} else {
			n1 := mul(rin, x)
			inter = over256(n1, mul(n1, bigD), mul(sub(rout, x), delta))
		}
		if !isOverflowText(fmt.Sprint(pnc)) {
			return pbt.Failf("C01/pure-panic", "%s panicked: %v on %+v", in.Fn, pnc, in), false, nil
		}
		if !inter {
			return pbt.Failf("C01/pure-unexpected-overflow", "%s refused %+v although every product fits in 256 bits: %v", in.Fn, in, pnc), false, nil
		}
		return nil, false, append(classes, "overflow-refused")
	}
	if in.Fn == "in" {
		y := got
		_, exact := refInputPrice(x, rin, rout, delta)
		if y.Sign() < 0 || y.Cmp(rout) >= 0 {
			return pbt.Failf("C01/pure-input-range", "GetInputPrice=%s outside [0,Rout) for %+v", y, in), false, nil
		}
		if !ruleHolds(rin, rout, x, y, delta) {
			return pbt.Failf("C01/pure-input-rule", "GetInputPrice=%s breaks (Rin+(1-fee)x)(Rout-y) >= Rin*Rout for %+v", y, in), false, nil
		}
		if y1 := add(y, big1); y1.Cmp(rout) < 0 && ruleHolds(rin, rout, x, y1, delta) {
			return pbt.Failf("C01/pure-input-not-largest", "GetInputPrice=%s but %s also satisfies the rule for %+v", y, y1, in), false, nil
		}
		if exact {
			classes = append(classes, "exact-division")
		} else {
			classes = append(classes, "inexact")
		}
		if y.Sign() == 0 {
			classes = append(classes, "zero-output")
		}
		return nil, !exact, classes
	}
	p := got
	pmin, exact := refOutputPriceMin(x, rin, rout, delta)
	if p.Cmp(pmin) < 0 {
		return pbt.Failf("C01/pure-output-underpriced", "GetOutputPrice=%s below the smallest payment %s satisfying the rule for %+v", p, pmin, in), false, nil
	}
	if !ruleHolds(rin, rout, p, x, delta) { // implied by p >= pmin; kept as an independent evaluation of the rule
		return pbt.Failf("C01/pure-output-rule", "GetOutputPrice=%s breaks the rule for %+v", p, in), false, nil
	}
	if p.Cmp(add(pmin, big1)) > 0 {
		return pbt.Failf("C01/pure-output-overpriced", "GetOutputPrice=%s more than one unit above the smallest payment %s for %+v", p, pmin, in), false, nil
	}
	if exact {
		classes = append(classes, "exact-division")
		if p.Cmp(pmin) > 0 {
			classes = append(classes, "exact-division-charged-plus-one")
		}
	} else {
		classes = append(classes, "inexact")
	}
	return nil, true, classes
}

const c01PureRule = "rapid-generated (x,Rin,Rout,fee) for keeper.GetInputPrice/GetOutputPrice: operands by shape and by bit length 1..128, fee any 18-decimal value in (0,1) incl. 10^-18, 0.003, 1-10^-18, plus a constructive generator for the exact-division residue of the output price; non-trivial = the function returned (no 256-bit refusal) and the quotient is inexact, or it is an exact-division output case; distinct by SHA-256 of the input"

func init() { pbt.RegisterPure("c01pure", checkPure) }

func TestC01Pure(t *testing.T) {
	pbt.RunPure(t, "C01", "c01pure", c01PureRule, genPure, checkPure)
}
