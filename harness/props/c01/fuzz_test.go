package c01

import (
	"testing"

	"pgregory.net/rapid"
)

// FuzzC01Price drives the pure price check with the native coverage-guided fuzzer (thorough tier only).
func FuzzC01Price(f *testing.F) {
	f.Fuzz(rapid.MakeFuzz(func(t *rapid.T) {
		in := genPure(t)
		if err, _, _ := checkPure(in); err != nil {
			t.Fatalf("%v (%+v)", err, in)
		}
	}))
}
