package c01

import (
	"fmt"
	"math/big"
	"os"
	"sort"
	"strconv"
	"strings"
	"sync"
	"testing"
	"time"

	sdkmath "cosmossdk.io/math"
	sdk "github.com/cosmos/cosmos-sdk/types"
	banktypes "github.com/cosmos/cosmos-sdk/x/bank/types"
	"pgregory.net/rapid"

	cstypes "mods.irisnet.org/modules/coinswap/types"
	"mods.irisnet.org/simapp"

	"verifharness/chain"
	"verifharness/gen"
	"verifharness/pbt"
)

// C01 layer 2 and C02: one state machine over the coinswap messages, two oracles.
//
//   mode "C01": after every successful message the value per liquidity share of every pool must not
//               have fallen, untouched pools must be bit-identical, and every swap leg read off the pool
//               reserves must satisfy the fee-inclusive constant-product rule optimally.
//   mode "C02": the balance-sheet difference of the whole bank state around every message must be exactly
//               what the message is allowed to move (structural, amounts are read from designated cells of
//               the sheet, never recomputed with a price formula); bounds and deadlines respected; a
//               rejected message is re-run on a branch with loosened bounds to show that the rejection
//               was justified.
//
// Both modes: a removal whose coin is not a liquidity token (look-alike denom) is expected to be rejected without
// any effect; if it is accepted, C02 reports it (no pool stands behind the coin) and C01 holds the pool whose
// sequence the denom carries against the share-value clause.  The "reimport" operation takes the module through
// its own genesis; afterwards the registry read-back (pools, lpt-denom index, next sequence, standard denom,
// parameters) and every other clause go on as before, new pools must get fresh lpt denoms.

// Environment switches (generator only, Apply never reads them):
//   VERIF_C02_AVOID_F1=1  never generate a routed (token-to-token) swap whose recipient differs from the
//                         sender, so that histories continue past finding F1 (C02/routed-intermediate-leak)
//   VERIF_C01_TOTALS=1    print op-level totals and rejection reasons when the binary exits (tuning aid)

const std = "stake"

var poolDenoms = []string{"btc", "eth", "usdt", "BTC"}

// burstDenoms are the counterparty coins of the pools a "burst" creates: with them a history holds more than ten
// pools, so that pool numbers get two digits (lpt-10 sorts before lpt-9, and lpt-1 is a prefix of it)
var burstDenoms = []string{"c00", "c01", "c02", "c03", "c04", "c05", "c06", "c07", "c08", "c09", "c10", "c11"}

// Look-alike denominations: coins that are NOT the liquidity token of any pool but whose denom has the shape
// "<name>-<N>" (exactly what types.ParseLptDenom / MsgRemoveLiquidity.ValidateBasic accept), N being a pool
// sequence the machine can reach (1..3): other prefixes, other letter case, leading zeros.  Two of the traders
// hold each of them from genesis (the i-th denom: U(i mod 4) holds 2^100, U(i+1 mod 4) holds 1000; bank genesis
// edited through chain.Options.GenesisMod), so a removal "with" them is only stopped by the pool lookup.
// lookalikeOther are never held by anybody: a shape ValidateBasic refuses, sequence numbers without a pool.
var (
	lookalikeHeld  = []string{"voucher-1", "lpt-01", "LPT-1", "xlpt-2", "lpt-002", "Lpt-2", "ibc/lpt-3", "lpt-03", "lpT-3"}
	lookalikeOther = []string{"lpt-1-1", "lpt-1x", "voucher-4", "lpt-0", "lpt-999"}
)

var (
	csEnvOnce sync.Once
	csEnvDflt *chain.Env
)

// csEnv is the environment of this package: the default universe plus balances of the look-alike denoms.
func csEnv() *chain.Env {
	csEnvOnce.Do(func() {
		users := chain.MakeUsers(6)
		csEnvDflt = chain.NewEnv(chain.Options{ExtraDenoms: append([]string{"BTC", "STAKE"}, burstDenoms...), GenesisMod: func(app *simapp.SimApp, gs simapp.GenesisState) {
			cdc := app.AppCodec()
			var bg banktypes.GenesisState
			cdc.MustUnmarshalJSON(gs[banktypes.ModuleName], &bg)
			give := func(u int, c sdk.Coin) {
				for i := range bg.Balances {
					if bg.Balances[i].Address == users[u].Addr.String() {
						bg.Balances[i].Coins = bg.Balances[i].Coins.Add(c)
						bg.Supply = bg.Supply.Add(c)
						return
					}
				}
				panic("look-alike coins: no genesis balance entry for user " + users[u].Name)
			}
			for i, d := range lookalikeHeld {
				give(i%4, sdk.NewCoin(d, sdkmath.NewIntFromBigInt(gen.Pow2(100))))
				give((i+1)%4, sdk.NewCoin(d, sdkmath.NewInt(1000)))
			}
			gs[banktypes.ModuleName] = cdc.MustMarshalJSON(&bg)
		}})
	})
	return csEnvDflt
}

// aliasSeq parses a denom of the shape "<name>-<digits>" on its own (harness side): the number a lenient
// reader would take for a pool sequence.  ok=false for any other shape.
func aliasSeq(denom string) (uint64, bool) {
	i := strings.Index(denom, "-")
	if i <= 0 || strings.Count(denom, "-") != 1 || i == len(denom)-1 {
		return 0, false
	}
	for _, c := range denom[i+1:] {
		if c < '0' || c > '9' {
			return 0, false
		}
	}
	n, err := strconv.ParseUint(denom[i+1:], 10, 64)
	return n, err == nil
}

type paramsSpec struct {
	Fee      string `json:"fee"`     // f/10^18
	UniFee   string `json:"uni_fee"` // f/10^18
	Tax      string `json:"tax"`     // f/10^18
	FeeDenom string `json:"fee_denom"`
	FeeAmt   string `json:"fee_amt"`
	Auth     string `json:"auth"` // "gov" | "uN"
}

type csOp struct {
	Kind     string      `json:"kind"` // add | remove | adduni | removeuni | swap | send | params | block | reimport
	Who      int         `json:"who"`
	PadTo    bool        `json:"pad_to,omitempty"`   // swap: a blank follows the recipient's address (refusing that spelling is fine; an accepted order pays the account named)
	UpperTo  bool        `json:"upper_to,omitempty"` // swap: the recipient's address is written in upper case (bech32 allows it); not combined with blocked recipients, see DESIGN §9.3 F28
	To       string      `json:"to,omitempty"`       // swap recipient / send target: self | uN | blockedN | pool:<denom> | next | mod
	Pool     string      `json:"pool,omitempty"`     // counterparty denom naming the pool
	Denom    string      `json:"denom,omitempty"`    // adduni/removeuni side, send denom ("lpt:<denom>" = that pool's share token); remove with Pool "": the literal (look-alike) denom of WithdrawLiquidity
	In       string      `json:"in,omitempty"`
	Out      string      `json:"out,omitempty"`
	Buy      bool        `json:"buy,omitempty"`
	A        string      `json:"a,omitempty"` // add: exact standard | remove: shares | adduni: exact token | removeuni: shares | swap: input amount | send: amount
	B        string      `json:"b,omitempty"` // add: max token | remove: min standard | adduni: min shares | removeuni: min token | swap: output amount
	C        string      `json:"c,omitempty"` // add: min shares | remove: min token
	Deadline int64       `json:"deadline,omitempty"`
	Dt       int64       `json:"dt,omitempty"`
	P        *paramsSpec `json:"p,omitempty"`
}

type poolInfo struct {
	denom string
	lpt   string
	seq   uint64
	addr  sdk.AccAddress
}

type csParams struct {
	fee, uniFee, tax *big.Int
	feeDenom         string
	feeAmt           *big.Int
}

type csMachine struct {
	mode  string // "C01" | "C02"
	c     *chain.Case
	sheet chain.Sheet
	pools map[string]*poolInfo
	order []string
	seq   uint64 // next pool sequence
	par   csParams

	cnt map[string]int // class counters
	// non-trivial bookkeeping
	swapOddOK, liqOddOK int
	donated             map[string]bool // pool denom -> a donation reached the escrow before
	feeChanged          bool
	avoidF1             bool
	parChanged          bool            // an accepted parameter update happened
	reimports           int             // genesis round trips so far
	atReimport          map[string]bool // pools that existed at the last round trip
}

func newMachine(mode string) *csMachine {
	c := csEnv().NewCase()
	c.IrismodOnly = true
	m := &csMachine{mode: mode, c: c, pools: map[string]*poolInfo{}, seq: 1, cnt: map[string]int{}, donated: map[string]bool{}}
	m.par = csParams{fee: big.NewInt(3_000_000_000_000_000), uniFee: big.NewInt(2_000_000_000_000_000),
		tax: big.NewInt(400_000_000_000_000_000), feeDenom: std, feeAmt: big.NewInt(5000)}
	m.sheet = c.Snapshot()
	m.avoidF1 = os.Getenv("VERIF_C02_AVOID_F1") != ""
	return m
}

func newC01() pbt.Machine[csOp] { return newMachine("C01") }
func newC02() pbt.Machine[csOp] { return newMachine("C02") }

// ---------------------------------------------------------------------------------------------
// state access

func cell(s chain.Sheet, addr sdk.AccAddress, denom string) *big.Int {
	if v, ok := s.Bal[addr.String()+"/"+denom]; ok {
		return v
	}
	return new(big.Int)
}

func supply(s chain.Sheet, denom string) *big.Int {
	if v, ok := s.Sup[denom]; ok {
		return v
	}
	return new(big.Int)
}

func dcell(d chain.Delta, addr sdk.AccAddress, denom string) *big.Int {
	if v, ok := d.Bal[addr.String()+"/"+denom]; ok {
		return v
	}
	return new(big.Int)
}

func dsup(d chain.Delta, denom string) *big.Int {
	if v, ok := d.Sup[denom]; ok {
		return v
	}
	return new(big.Int)
}

func (m *csMachine) user(i int) sdk.AccAddress { return m.c.E.Users[i].Addr }

func (m *csMachine) pstate(s chain.Sheet, p *poolInfo) (S, T, L *big.Int) {
	return cell(s, p.addr, std), cell(s, p.addr, p.denom), supply(s, p.lpt)
}

func escrowOf(seq uint64) (string, sdk.AccAddress) {
	lpt := fmt.Sprintf("lpt-%d", seq)
	return lpt, cstypes.GetReservePoolAddr(lpt)
}

// resolve turns an address spec of an op into an address.
func (m *csMachine) resolve(spec string, who int) (addr sdk.AccAddress, blocked bool) {
	switch {
	case spec == "" || spec == "self":
		return m.user(who), false
	case spec == "mod":
		return chain.ModuleAddr(cstypes.ModuleName), false
	case spec == "next":
		_, a := escrowOf(m.seq)
		return a, false
	case strings.HasPrefix(spec, "blocked"):
		i, _ := strconv.Atoi(spec[len("blocked"):])
		b := chain.BlockedAddrs()
		return b[i%len(b)], true
	case strings.HasPrefix(spec, "pool:"):
		if p, ok := m.pools[spec[5:]]; ok {
			return p.addr, false
		}
		_, a := escrowOf(m.seq)
		return a, false
	case strings.HasPrefix(spec, "u"):
		i, _ := strconv.Atoi(spec[1:])
		return m.user(i % len(m.c.E.Users)), false
	}
	panic("bad address spec " + spec)
}

func (m *csMachine) resolveDenom(d string) string {
	if strings.HasPrefix(d, "lpt:") {
		if p, ok := m.pools[d[4:]]; ok {
			return p.lpt
		}
		return "lpt-999"
	}
	return d
}

func (m *csMachine) deadlinePassed(deadline int64) bool {
	now := m.c.Time()
	return now.Unix() > deadline || (now.Unix() == deadline && now.Nanosecond() > 0)
}

// ---------------------------------------------------------------------------------------------
// generator

func (m *csMachine) amount(t *rapid.T, label string, maxBits int) *big.Int {
	switch s := uni(t, label+"/shape", 99+1); {
	case s < 15:
		return big.NewInt(int64(rapid.IntRange(1, 20).Draw(t, label+"/tiny")))
	case s < 40:
		return big.NewInt(int64(rapid.IntRange(21, 1_000_000).Draw(t, label+"/medium")))
	case s < 85:
		return gen.Bits(t, label+"/bits", uint(rapid.IntRange(21, maxBits).Draw(t, label+"/nbits")))
	default:
		k := uint(rapid.IntRange(21, maxBits).Draw(t, label+"/k"))
		switch uni(t, label+"/bkind", 3+1) {
		case 0:
			return gen.Pow2(k)
		case 1:
			return sub(gen.Pow2(k), big1)
		case 2:
			return add(gen.Pow2(k), big1)
		default:
			return add(gen.Pow10(int(k)*3/10), big.NewInt(int64(rapid.IntRange(-1, 1).Draw(t, label+"/off"))))
		}
	}
}

// rel draws an amount related to a live quantity.
func (m *csMachine) rel(t *rapid.T, label string, ref *big.Int) *big.Int {
	var v *big.Int
	switch uni(t, label+"/rel", 11+1) {
	case 0, 1:
		v = big.NewInt(int64(rapid.IntRange(1, 20).Draw(t, label+"/tiny")))
	case 2:
		v = quo(ref, big2)
	case 3, 4:
		v = quo(ref, big.NewInt(int64(rapid.IntRange(3, 1000).Draw(t, label+"/div"))))
	case 5:
		v = quo(ref, big.NewInt(100000))
	case 6:
		v = sub(ref, big1)
	case 7:
		v = new(big.Int).Set(ref)
	case 8:
		v = add(ref, big1)
	case 9:
		v = mul(ref, big.NewInt(int64(rapid.IntRange(2, 50).Draw(t, label+"/mul"))))
	default:
		bits := ref.BitLen() + 2
		if bits < 22 {
			bits = 22
		}
		if bits > 128 {
			bits = 128
		}
		v = m.amount(t, label, bits)
	}
	if v.Sign() <= 0 {
		v = big.NewInt(1)
	}
	return capAmt(v)
}

// capAmt keeps generated amounts inside what an sdk.Int can carry (prices explode when 1-fee is 10^-18).
func capAmt(v *big.Int) *big.Int {
	if v.BitLen() > 250 {
		return gen.Pow2(250)
	}
	return v
}

func clampRoom(v, reserve *big.Int) *big.Int {
	room := sub(pow128, reserve)
	if room.Sign() <= 0 {
		return big.NewInt(1)
	}
	if v.Cmp(room) > 0 {
		return room
	}
	return v
}

// lower draws a minimum around the expected amount: met exactly, missed by one, loose, far off.
func lower(t *rapid.T, label string, expected *big.Int, floor int64) *big.Int {
	var v *big.Int
	switch uni(t, label+"/lb", 9+1) {
	case 0, 1, 2, 3:
		v = new(big.Int).Set(expected)
	case 4:
		v = add(expected, big1)
	case 5:
		v = sub(expected, big1)
	case 6, 7, 8:
		v = big.NewInt(floor)
	default:
		v = add(mul(expected, big2), big.NewInt(5))
	}
	if v.Cmp(big.NewInt(floor)) < 0 {
		v = big.NewInt(floor)
	}
	return capAmt(v)
}

// upper draws a maximum around the expected amount.
func upper(t *rapid.T, label string, expected, huge *big.Int) *big.Int {
	var v *big.Int
	switch uni(t, label+"/ub", 9+1) {
	case 0, 1, 2, 3:
		v = new(big.Int).Set(expected)
	case 4:
		v = sub(expected, big1)
	case 5:
		v = add(expected, big1)
	case 6, 7, 8:
		v = new(big.Int).Set(huge)
	default:
		v = quo(expected, big2)
	}
	if v.Sign() <= 0 {
		v = big.NewInt(1)
	}
	return capAmt(v)
}

func (m *csMachine) genDeadline(t *rapid.T) int64 {
	sec := m.c.Time().Unix()
	switch uni(t, "deadline", 11+1) {
	case 0:
		return sec // passed iff the block time has a sub-second part
	case 1:
		return sec + 1
	case 2:
		return rapid.SampledFrom([]int64{sec - 1, 1, sec - 100000}).Draw(t, "past")
	default:
		return sec + 1_000_000
	}
}

func (m *csMachine) genWho(t *rapid.T) int {
	if uni(t, "poor", 19+1) == 0 {
		return 4
	}
	return uni(t, "who", 3+1)
}

func (m *csMachine) livePools() (out []*poolInfo) {
	for _, d := range m.order {
		p := m.pools[d]
		S, T, L := m.pstate(m.sheet, p)
		if S.Sign() > 0 && T.Sign() > 0 && L.Sign() > 0 {
			out = append(out, p)
		}
	}
	return
}

// holder picks a user holding shares of the pool (nil amounts if nobody does).
func (m *csMachine) holder(t *rapid.T, p *poolInfo) (int, *big.Int) {
	var idx []int
	for i := range m.c.E.Users {
		if cell(m.sheet, m.user(i), p.lpt).Sign() > 0 {
			idx = append(idx, i)
		}
	}
	if len(idx) == 0 || uni(t, "nonholder", 19+1) == 0 {
		i := uni(t, "who", 3+1)
		return i, cell(m.sheet, m.user(i), p.lpt)
	}
	i := rapid.SampledFrom(idx).Draw(t, "holder")
	return i, cell(m.sheet, m.user(i), p.lpt)
}

func (m *csMachine) Next(t *rapid.T) csOp {
	live := m.livePools()
	k := uni(t, "kind", 99+1)
	if len(live) == 0 && k < 70 {
		return m.genAdd(t)
	}
	switch {
	case k < 13:
		return m.genAdd(t)
	case k < 22 && len(live) > 0:
		return m.genRemove(t, live)
	case k < 32 && len(live) > 0:
		return m.genAddUni(t, live)
	case k < 41 && len(live) > 0:
		return m.genRemoveUni(t, live)
	case k < 69 && len(live) > 0:
		return m.genSwap(t, live)
	case k < 73 && len(m.order) > 0:
		return m.genRemoveLookalike(t)
	case k < 83:
		return m.genSend(t)
	case k < 90:
		return m.genParams(t)
	case k < 93:
		return csOp{Kind: "reimport"}
	case k < 94 && m.cnt["op-burst"] == 0 && uni(t, "burstgate", 3+1) == 0:
		// eight to twelve further pools in one go (each goes through the ordinary add-liquidity rules)
		n := rapid.IntRange(8, len(burstDenoms)).Draw(t, "burst")
		return csOp{Kind: "burst", Who: m.genWho(t), A: m.amount(t, "std", 40).String(), B: m.amount(t, "tok", 40).String(), C: fmt.Sprint(n), Deadline: 4102444800}
	default:
		return csOp{Kind: "block", Dt: gen.Dt(t, "dt")}
	}
}

func (m *csMachine) genAdd(t *rapid.T) csOp {
	op := csOp{Kind: "add", Who: m.genWho(t), Pool: rapid.SampledFrom(poolDenoms).Draw(t, "pool"), Deadline: m.genDeadline(t)}
	p, exists := m.pools[op.Pool]
	var S, T, L *big.Int
	if exists {
		S, T, L = m.pstate(m.sheet, p)
	}
	if !exists || S.Sign() == 0 || T.Sign() == 0 || L.Sign() == 0 {
		bits := rapid.SampledFrom([]int{24, 40, 64, 64, 100, 128}).Draw(t, "scale")
		a := m.amount(t, "std", bits)
		b := m.amount(t, "tok", bits)
		if exists {
			a, b = clampRoom(a, S), clampRoom(b, T)
		}
		op.A, op.B, op.C = a.String(), b.String(), lower(t, "minliq", a, 0).String()
		return op
	}
	a := clampRoom(m.rel(t, "std", S), S)
	dep, mint := genAddLater(S, T, L, a)
	if add(T, dep).Cmp(pow128) > 0 || add(L, mint).Cmp(pow128) > 0 { // stay inside the bounds of the property
		a = big.NewInt(int64(rapid.IntRange(1, 20).Draw(t, "small")))
		dep, mint = genAddLater(S, T, L, a)
	}
	op.A = a.String()
	op.B = upper(t, "maxtok", dep, mul(dep, big.NewInt(1000))).String()
	op.C = lower(t, "minliq", mint, 0).String()
	return op
}

func (m *csMachine) genRemove(t *rapid.T, live []*poolInfo) csOp {
	p := rapid.SampledFrom(live).Draw(t, "pool")
	who, bal := m.holder(t, p)
	S, T, L := m.pstate(m.sheet, p)
	var w *big.Int
	switch uni(t, "w", 9+1) {
	case 0, 1:
		w = new(big.Int).Set(bal) // everything this account holds
	case 2:
		w = add(bal, big1)
	case 3:
		w = new(big.Int).Set(L) // whole supply
	default:
		w = m.rel(t, "shares", bal)
		if w.Cmp(bal) > 0 && bal.Sign() > 0 && uni(t, "keep", 3+1) > 0 {
			w = new(big.Int).Set(bal)
		}
	}
	if w.Sign() <= 0 {
		w = big.NewInt(1)
	}
	outS, outT := genRemove(S, T, L, w)
	return csOp{Kind: "remove", Who: who, Pool: p.denom, A: w.String(), B: lower(t, "minstd", outS, 0).String(),
		C: lower(t, "mintok", outT, 0).String(), Deadline: m.genDeadline(t)}
}

// genRemoveLookalike: MsgRemoveLiquidity whose WithdrawLiquidity coin is not a liquidity token but looks like one
// ("<name>-<N>"), mostly with N the sequence of an existing pool and held by the sender; the minima are aimed at
// what a reader that took the coin for shares of pool N would pay out.
func (m *csMachine) genRemoveLookalike(t *rapid.T) csOp {
	op := csOp{Kind: "remove", Who: m.genWho(t), Deadline: m.genDeadline(t)}
	var matching []string
	for _, d := range lookalikeHeld {
		if n, ok := aliasSeq(d); ok && m.poolBySeq(n) != nil {
			matching = append(matching, d)
		}
	}
	switch k := uni(t, "fake", 19+1); {
	case k < 15 && len(matching) > 0:
		op.Denom = rapid.SampledFrom(matching).Draw(t, "matching")
	case k < 18:
		op.Denom = rapid.SampledFrom(lookalikeHeld).Draw(t, "held")
	default:
		op.Denom = rapid.SampledFrom(lookalikeOther).Draw(t, "other")
	}
	var holders []int
	for i := range m.c.E.Users {
		if cell(m.sheet, m.user(i), op.Denom).Sign() > 0 {
			holders = append(holders, i)
		}
	}
	if len(holders) > 0 && uni(t, "nonholder", 9+1) > 0 {
		op.Who = rapid.SampledFrom(holders).Draw(t, "holder")
	}
	bal := cell(m.sheet, m.user(op.Who), op.Denom)
	sup := supply(m.sheet, op.Denom)
	var p *poolInfo
	if n, ok := aliasSeq(op.Denom); ok {
		p = m.poolBySeq(n)
	}
	var w *big.Int
	switch k := uni(t, "w", 9+1); {
	case k < 3 && bal.Sign() > 0:
		w = new(big.Int).Set(bal)
	case k < 5 && bal.Sign() > 0:
		w = quo(bal, big.NewInt(int64(rapid.IntRange(2, 9).Draw(t, "div"))))
	case k < 7 && p != nil: // an amount that would be a plausible share amount of the aliased pool
		_, _, L := m.pstate(m.sheet, p)
		w = m.rel(t, "shares", L)
	case k < 8:
		w = add(bal, big1)
	default:
		w = m.amount(t, "w", 128)
	}
	if w.Sign() <= 0 {
		w = big.NewInt(1)
	}
	outS, outT := big.NewInt(0), big.NewInt(0)
	if p != nil && sup.Sign() > 0 {
		S, T, _ := m.pstate(m.sheet, p)
		outS, outT = genRemove(S, T, sup, w)
	}
	op.A, op.B, op.C = capAmt(w).String(), lower(t, "minstd", outS, 0).String(), lower(t, "mintok", outT, 0).String()
	return op
}

func (m *csMachine) poolBySeq(n uint64) *poolInfo {
	for _, d := range m.order {
		if m.pools[d].seq == n {
			return m.pools[d]
		}
	}
	return nil
}

func (m *csMachine) genAddUni(t *rapid.T, live []*poolInfo) csOp {
	p := rapid.SampledFrom(live).Draw(t, "pool")
	side := m.genSide(t, p)
	_, _, L := m.pstate(m.sheet, p)
	tb := cell(m.sheet, p.addr, side)
	x := clampRoom(m.rel(t, "x", tb), tb)
	mint := genAddUni(tb, L, x, sub(bigD, m.par.uniFee))
	return csOp{Kind: "adduni", Who: m.genWho(t), Pool: p.denom, Denom: side, A: x.String(),
		B: lower(t, "minliq", mint, 0).String(), Deadline: m.genDeadline(t)}
}

// genSide: the coin of a one-sided add/remove: either reserve coin of the pool, rarely a coin the pool does not
// trade (a third coin that donations may have put on the escrow, another pool's coin, the pool's own share token).
func (m *csMachine) genSide(t *rapid.T, p *poolInfo) string {
	// a coin the pool does not trade but that somebody parked on its escrow account is the likeliest wrong side
	var parked []string
	for _, d := range append([]string{"point", p.lpt}, poolDenoms...) {
		if d != p.denom && cell(m.sheet, p.addr, d).Sign() > 0 {
			parked = append(parked, d)
		}
	}
	if len(parked) > 0 && uni(t, "parkedside", 5+1) == 0 {
		return rapid.SampledFrom(parked).Draw(t, "parked")
	}
	if uni(t, "foreignside", 24+1) == 0 {
		return rapid.SampledFrom([]string{"point", "btc", "eth", "usdt", "BTC", p.lpt}).Draw(t, "foreign")
	}
	return rapid.SampledFrom([]string{std, p.denom}).Draw(t, "side")
}

func (m *csMachine) genRemoveUni(t *rapid.T, live []*poolInfo) csOp {
	p := rapid.SampledFrom(live).Draw(t, "pool")
	side := m.genSide(t, p)
	who, bal := m.holder(t, p)
	_, _, L := m.pstate(m.sheet, p)
	tb := cell(m.sheet, p.addr, side)
	w := m.rel(t, "shares", bal)
	if w.Cmp(bal) > 0 && bal.Sign() > 0 && uni(t, "keep", 3+1) > 0 {
		w = new(big.Int).Set(bal)
	}
	var out *big.Int
	if w.Cmp(L) <= 0 {
		out = genRemoveUni(tb, L, w, sub(bigD, m.par.uniFee))
	} else {
		out = big.NewInt(1)
	}
	return csOp{Kind: "removeuni", Who: who, Pool: p.denom, Denom: side, A: w.String(),
		B: lower(t, "mintok", out, 1).String(), Deadline: m.genDeadline(t)}
}

func (m *csMachine) genRecipient(t *rapid.T, who int, double bool) string {
	if double && m.avoidF1 {
		return "self"
	}
	switch k := uni(t, "rcpt", 99+1); {
	case k < 38:
		return "self"
	case k < 70:
		o := uni(t, "other", 3+1)
		if o == who {
			o = (o + 1) % 4
		}
		return fmt.Sprintf("u%d", o)
	case k < 80:
		return rapid.SampledFrom([]string{"u4", "u5"}).Draw(t, "poorrcpt")
	case k < 85:
		return fmt.Sprintf("blocked%d", uni(t, "blocked", 4+1))
	case k < 94:
		return "pool:" + rapid.SampledFrom(poolDenoms).Draw(t, "rpool")
	default:
		return "mod"
	}
}

// exactOutput looks for an output amount whose price division leaves no remainder (the residue where
// "floor+1" charges one unit more than necessary); nil if none is found among the 64 largest outputs.
func exactOutput(rin, rout, delta *big.Int) *big.Int {
	for i := int64(1); i <= 64; i++ {
		mm := big.NewInt(i)
		out := sub(rout, mm)
		if out.Sign() <= 0 {
			return nil
		}
		if _, exact := refOutputPriceMin(out, rin, rout, delta); exact {
			return out
		}
	}
	return nil
}

// codePay mirrors the shape of the output price (floor+1); used to aim bounds only.
func codePay(out, rin, rout, delta *big.Int) *big.Int {
	if out.Cmp(rout) >= 0 || rin.Sign() == 0 {
		return big.NewInt(1)
	}
	pmin, exact := refOutputPriceMin(out, rin, rout, delta)
	if exact {
		return add(pmin, big1)
	}
	return pmin
}

func (m *csMachine) genSwap(t *rapid.T, live []*poolInfo) csOp {
	op := csOp{Kind: "swap", Who: m.genWho(t), Buy: rapid.Bool().Draw(t, "buy"), Deadline: m.genDeadline(t)}
	delta := sub(bigD, m.par.fee)
	double := len(live) >= 2 && uni(t, "double", 99+1) < 45
	if uni(t, "nopool", 19+1) == 0 { // a pair whose pool may not exist
		// a pair whose pool may not exist, incl. a coin that differs from the standard coin by letter case only
		op.In, op.Out = rapid.SampledFrom(append([]string{"STAKE", "STAKE"}, poolDenoms...)).Draw(t, "in"), rapid.SampledFrom([]string{std, "btc", "eth", "usdt", "BTC", "point", "STAKE"}).Draw(t, "out")
		op.A, op.B = m.amount(t, "a", 64).String(), "1"
		if op.Buy {
			op.A, op.B = bigHuge.String(), m.amount(t, "b", 30).String()
		}
		op.To = m.genRecipient(t, op.Who, op.Out != std)
		op.UpperTo = !strings.HasPrefix(op.To, "blocked") && rapid.IntRange(0, 1<<20).Draw(t, "upper-to")%8 == 7
		op.PadTo = !strings.HasPrefix(op.To, "blocked") && op.To != "self" && rapid.IntRange(0, 1<<20).Draw(t, "pad-to")%12 == 11
		return op
	}
	bal := func(d string) *big.Int { return cell(m.sheet, m.user(op.Who), d) }
	if !double {
		p := rapid.SampledFrom(live).Draw(t, "pool")
		S, T, _ := m.pstate(m.sheet, p)
		rin, rout := S, T
		op.In, op.Out = std, p.denom
		if rapid.Bool().Draw(t, "dir") {
			rin, rout = T, S
			op.In, op.Out = p.denom, std
		}
		if !op.Buy {
			x := clampRoom(m.rel(t, "x", rin), rin)
			y, _ := refInputPrice(x, rin, rout, delta)
			op.A, op.B = x.String(), lower(t, "min", y, 1).String()
		} else {
			out := m.rel(t, "out", rout)
			if out.Cmp(rout) >= 0 && uni(t, "drain", 4+1) > 0 {
				out = sub(rout, big1)
				if out.Sign() <= 0 {
					out = big.NewInt(1)
				}
			}
			if uni(t, "exactdiv", 8) == 0 {
				if e := exactOutput(rin, rout, delta); e != nil {
					out = e
				}
			}
			pay := codePay(out, rin, rout, delta)
			op.A, op.B = upper(t, "max", pay, bal(op.In)).String(), out.String()
		}
		op.To = m.genRecipient(t, op.Who, false)
		op.UpperTo = !strings.HasPrefix(op.To, "blocked") && rapid.IntRange(0, 1<<20).Draw(t, "upper-to")%8 == 7
		op.PadTo = !strings.HasPrefix(op.To, "blocked") && op.To != "self" && rapid.IntRange(0, 1<<20).Draw(t, "pad-to")%12 == 11
		return op
	}
	i := rapid.IntRange(0, len(live)-1).Draw(t, "p1")
	j := rapid.IntRange(0, len(live)-2).Draw(t, "p2")
	if j >= i {
		j++
	}
	p1, p2 := live[i], live[j]
	S1, T1, _ := m.pstate(m.sheet, p1)
	S2, T2, _ := m.pstate(m.sheet, p2)
	op.In, op.Out = p1.denom, p2.denom
	if !op.Buy {
		x := clampRoom(m.rel(t, "x", T1), T1)
		mid, _ := refInputPrice(x, T1, S1, delta)
		y := big.NewInt(0)
		if mid.Sign() > 0 {
			y, _ = refInputPrice(mid, S2, T2, delta)
		}
		op.A, op.B = x.String(), lower(t, "min", y, 1).String()
	} else {
		out := m.rel(t, "out", T2)
		if out.Cmp(T2) >= 0 && uni(t, "drain", 4+1) > 0 {
			out = sub(T2, big1)
			if out.Sign() <= 0 {
				out = big.NewInt(1)
			}
		}
		mid := codePay(out, S2, T2, delta)
		pay := codePay(mid, T1, S1, delta)
		op.A, op.B = upper(t, "max", pay, bal(op.In)).String(), out.String()
	}
	op.To = m.genRecipient(t, op.Who, true)
	op.UpperTo = !strings.HasPrefix(op.To, "blocked") && rapid.IntRange(0, 1<<20).Draw(t, "upper-to")%8 == 7
	op.PadTo = !strings.HasPrefix(op.To, "blocked") && op.To != "self" && rapid.IntRange(0, 1<<20).Draw(t, "pad-to")%12 == 11
	return op
}

func (m *csMachine) genSend(t *rapid.T) csOp {
	op := csOp{Kind: "send", Who: uni(t, "who", 3+1)}
	switch k := uni(t, "sendkind", 9+1); {
	case k < 7: // donation to a pool escrow (existing, or the one the next pool will get)
		if len(m.order) > 0 && uni(t, "future", 9+1) > 0 {
			d := rapid.SampledFrom(m.order).Draw(t, "pool")
			op.To = "pool:" + d
			op.Denom = rapid.SampledFrom([]string{std, d, std, d, "point", "lpt:" + d, rapid.SampledFrom(poolDenoms).Draw(t, "othercoin"), "STAKE"}).Draw(t, "denom")
			ref := cell(m.sheet, m.pools[d].addr, m.resolveDenom(op.Denom))
			if ref.Sign() == 0 {
				ref = big.NewInt(1000)
			}
			op.A = clampRoom(m.rel(t, "amt", ref), ref).String()
			if strings.HasPrefix(op.Denom, "lpt:") {
				// a holder parks some of the pool's own share tokens on the pool's escrow account (they stay outstanding)
				who, bal := m.holder(t, m.pools[d])
				op.Who = who
				if bal.Sign() > 0 {
					op.A = m.rel(t, "lptamt", bal).String()
				}
			}
		} else {
			op.To = "next"
			op.Denom = rapid.SampledFrom([]string{std, "btc", "eth", "usdt", "BTC", "point"}).Draw(t, "denom")
			op.A = m.amount(t, "amt", 64).String()
		}
	case k < 9: // share tokens change hands
		if len(m.order) == 0 {
			op.To, op.Denom, op.A = "u4", std, "100000"
			break
		}
		d := rapid.SampledFrom(m.order).Draw(t, "pool")
		who, bal := m.holder(t, m.pools[d])
		op.Who, op.Denom = who, "lpt:"+d
		op.To = fmt.Sprintf("u%d", uni(t, "to", 5+1))
		op.A = m.rel(t, "amt", bal).String()
	default: // fund a poor account
		op.To = rapid.SampledFrom([]string{"u4", "u5"}).Draw(t, "to")
		op.Denom = rapid.SampledFrom([]string{std, "btc", "eth", "usdt", "BTC"}).Draw(t, "denom")
		if uni(t, "fakecoin", 3+1) == 0 {
			op.Denom = rapid.SampledFrom(lookalikeHeld).Draw(t, "fake")
		}
		op.A = m.amount(t, "amt", 100).String()
	}
	return op
}

func (m *csMachine) genParams(t *rapid.T) csOp {
	p := &paramsSpec{Fee: genFee(t, "fee").String(), Tax: genFee(t, "tax").String(), Auth: "gov"}
	if uni(t, "keepfee", 2+1) == 0 {
		p.Fee = m.par.fee.String()
	}
	if uni(t, "unizero", 3+1) == 0 {
		p.UniFee = "0"
	} else {
		p.UniFee = genFee(t, "unifee").String()
	}
	p.FeeDenom = rapid.SampledFrom([]string{std, std, "point", "btc"}).Draw(t, "feedenom")
	switch uni(t, "feeamt", 3+1) {
	case 0:
		p.FeeAmt = "1"
	case 1:
		p.FeeAmt = "5000"
	case 2:
		p.FeeAmt = big.NewInt(int64(rapid.IntRange(2, 100000).Draw(t, "feesmall"))).String()
	default:
		p.FeeAmt = m.amount(t, "feeamtbig", 100).String()
	}
	if uni(t, "auth", 11+1) == 0 {
		p.Auth = fmt.Sprintf("u%d", uni(t, "authuser", 3+1))
	}
	return csOp{Kind: "params", P: p}
}

// ---------------------------------------------------------------------------------------------
// execution

func coin(denom string, amt *big.Int) sdk.Coin {
	return sdk.Coin{Denom: denom, Amount: sdkmath.NewIntFromBigInt(amt)}
}

func dec18(f *big.Int) sdkmath.LegacyDec { return sdkmath.LegacyNewDecFromBigIntWithPrec(f, 18) }

// build turns the op into a message; loosened=true relaxes every user bound and the deadline (used by
// the justified-rejection probe only).
func (m *csMachine) build(op csOp, loosened bool) sdk.Msg {
	sender := m.user(op.Who)
	deadline := op.Deadline
	if loosened {
		deadline = m.c.Time().Unix() + 1_000_000
	}
	switch op.Kind {
	case "add":
		maxTok, minLiq := bi(op.B), bi(op.C)
		if loosened {
			minLiq = big.NewInt(0)
			// a first deposit takes MaxToken as it is, so only later deposits get a loosened maximum
			if p, ok := m.pools[op.Pool]; ok {
				S, T, L := m.pstate(m.sheet, p)
				if b := cell(m.sheet, sender, op.Pool); S.Sign() > 0 && T.Sign() > 0 && L.Sign() > 0 && b.Cmp(maxTok) > 0 {
					maxTok = b
				}
			}
		}
		return &cstypes.MsgAddLiquidity{MaxToken: coin(op.Pool, maxTok), ExactStandardAmt: sdkmath.NewIntFromBigInt(bi(op.A)),
			MinLiquidity: sdkmath.NewIntFromBigInt(minLiq), Deadline: deadline, Sender: sender.String()}
	case "remove":
		lpt := "lpt-999"
		if p, ok := m.pools[op.Pool]; ok {
			lpt = p.lpt
		} else if op.Pool == "" && op.Denom != "" {
			lpt = op.Denom // look-alike denom, taken literally
		}
		minStd, minTok := bi(op.B), bi(op.C)
		if loosened {
			minStd, minTok = big.NewInt(0), big.NewInt(0)
		}
		return &cstypes.MsgRemoveLiquidity{WithdrawLiquidity: coin(lpt, bi(op.A)), MinToken: sdkmath.NewIntFromBigInt(minTok),
			MinStandardAmt: sdkmath.NewIntFromBigInt(minStd), Deadline: deadline, Sender: sender.String()}
	case "adduni":
		minLiq := bi(op.B)
		if loosened {
			minLiq = big.NewInt(0)
		}
		return &cstypes.MsgAddUnilateralLiquidity{CounterpartyDenom: op.Pool, ExactToken: coin(op.Denom, bi(op.A)),
			MinLiquidity: sdkmath.NewIntFromBigInt(minLiq), Deadline: deadline, Sender: sender.String()}
	case "removeuni":
		minTok := bi(op.B)
		if loosened {
			minTok = big.NewInt(1)
		}
		return &cstypes.MsgRemoveUnilateralLiquidity{CounterpartyDenom: op.Pool, MinToken: coin(op.Denom, minTok),
			ExactLiquidity: sdkmath.NewIntFromBigInt(bi(op.A)), Deadline: deadline, Sender: sender.String()}
	case "swap":
		rcpt, _ := m.resolve(op.To, op.Who)
		in, out := bi(op.A), bi(op.B)
		if loosened {
			if op.Buy {
				if b := cell(m.sheet, sender, op.In); b.Cmp(in) > 0 {
					in = b
				}
			} else {
				out = big.NewInt(1)
			}
		}
		to := rcpt.String()
		if op.UpperTo {
			to = strings.ToUpper(to)
		}
		if op.PadTo {
			to += " "
		}
		return &cstypes.MsgSwapOrder{Input: cstypes.Input{Address: sender.String(), Coin: coin(op.In, in)},
			Output: cstypes.Output{Address: to, Coin: coin(op.Out, out)}, Deadline: deadline, IsBuyOrder: op.Buy}
	case "send":
		to, _ := m.resolve(op.To, op.Who)
		return &banktypes.MsgSend{FromAddress: sender.String(), ToAddress: to.String(), Amount: sdk.Coins{coin(m.resolveDenom(op.Denom), bi(op.A))}}
	case "params":
		auth := m.c.E.Gov
		if op.P.Auth != "gov" {
			auth, _ = m.resolve(op.P.Auth, 0)
		}
		return &cstypes.MsgUpdateParams{Authority: auth.String(), Params: cstypes.Params{Fee: dec18(bi(op.P.Fee)),
			UnilateralLiquidityFee: dec18(bi(op.P.UniFee)), TaxRate: dec18(bi(op.P.Tax)), PoolCreationFee: coin(op.P.FeeDenom, bi(op.P.FeeAmt))}}
	}
	panic("bad op kind " + op.Kind)
}

func (m *csMachine) fail(what, format string, args ...interface{}) error {
	return pbt.Failf(m.mode+"/"+what, format, args...)
}

func (m *csMachine) Apply(op csOp) error {
	if op.Kind == "block" {
		end, begin := m.c.NextBlock(time.Duration(op.Dt), nil)
		after := m.c.Snapshot()
		if end.Outcome != chain.OK || begin.Outcome != chain.OK {
			return m.fail("block-hook", "block hooks failed: end=%v begin=%v", end, begin)
		}
		if d := chain.Diff(m.sheet, after); !d.Empty() {
			return m.fail("block-moved-coins", "coins moved across a block boundary: %s", d)
		}
		m.sheet = after
		m.cnt["op-block"]++
		return nil
	}
	if op.Kind == "reimport" {
		return m.applyReimport()
	}
	if op.Kind == "burst" {
		n, err := strconv.Atoi(op.C)
		if err != nil || n < 1 || n > len(burstDenoms) {
			return fmt.Errorf("bad replay op %+v", op)
		}
		for i := 0; i < n; i++ {
			if err := m.Apply(csOp{Kind: "add", Who: op.Who, Pool: burstDenoms[i], A: op.A, B: op.B, C: "1", Deadline: op.Deadline}); err != nil {
				return err
			}
		}
		m.cnt["op-burst"]++
		if len(m.pools) > 10 {
			m.cnt["pools>10"]++
		}
		return nil
	}
	before := m.sheet
	msg := m.build(op, false)
	res := m.c.Deliver(msg)
	after := m.c.Snapshot()
	delta := chain.Diff(before, after)
	m.cnt["op-"+op.Kind]++
	if res.Outcome != chain.OK {
		if !delta.Empty() {
			return m.fail("rejected-had-effect", "%s was %v but moved coins: %s", op.Kind, res, delta)
		}
		switch {
		case res.Outcome == chain.Overflow || (res.Outcome == chain.Panicked && isOverflowText(fmt.Sprint(res.Panic))):
			m.cnt["overflow-rejected"]++
		case res.Outcome == chain.Panicked:
			m.cnt["panicked"]++
			m.cnt["panicked-"+op.Kind]++
		default:
			m.cnt["rejected-"+op.Kind]++
			if opTotals != nil {
				why := res.Err.Error()
				if len(why) > 60 {
					why = why[len(why)-60:]
				}
				opMu.Lock()
				opTotals["why "+op.Kind+": "+why]++
				opMu.Unlock()
			}
		}
		if op.Kind == "remove" && op.Pool == "" {
			m.classifyLookalike(op)
		}
		if m.mode == "C02" {
			if err := m.probeRejection(op, res); err != nil {
				return err
			}
		}
		return nil
	}
	m.cnt["ok-"+op.Kind]++
	// must-reject conditions the properties name
	if op.Kind != "send" && op.Kind != "params" && m.deadlinePassed(op.Deadline) {
		return m.fail("deadline-ignored", "%s accepted at block time %s with deadline %d", op.Kind, m.c.Time().Format(time.RFC3339Nano), op.Deadline)
	}
	if op.Kind == "params" && op.P.Auth != "gov" {
		return m.fail("params-unauthorized", "parameter change by %s accepted", op.P.Auth)
	}

	// model update: pool creation
	created := false
	if op.Kind == "add" {
		if _, ok := m.pools[op.Pool]; !ok {
			lpt, addr := escrowOf(m.seq)
			m.pools[op.Pool] = &poolInfo{denom: op.Pool, lpt: lpt, seq: m.seq, addr: addr}
			m.order = append(m.order, op.Pool)
			if m.pools["btc"] != nil && m.pools["BTC"] != nil {
				m.cnt["two-pools-whose-coins-differ-by-letter-case"]++
			}
			m.seq++
			created = true
			m.cnt["pool-created"]++
			if m.reimports > 0 {
				m.cnt["pool-created-after-reimport"]++
			}
		}
	}
	if m.reimports > 0 {
		switch {
		case op.Kind == "swap":
			m.cnt["swap-after-reimport"]++
		case (op.Kind == "remove" || op.Kind == "removeuni") && m.atReimport[op.Pool]:
			m.cnt["liquidity-removed-after-reimport"]++
		case (op.Kind == "add" || op.Kind == "adduni") && m.atReimport[op.Pool]:
			m.cnt["liquidity-added-after-reimport"]++
		}
	}

	var err error
	if m.mode == "C02" {
		err = m.oracleC02(op, res, before, delta, created)
	} else {
		err = m.oracleC01(op, before, after, delta)
	}
	if err != nil {
		return err
	}
	if op.Kind == "params" {
		nf := bi(op.P.Fee)
		if nf.Cmp(m.par.fee) != 0 || bi(op.P.UniFee).Cmp(m.par.uniFee) != 0 {
			m.feeChanged = true
			m.cnt["fee-changed"]++
		}
		m.par = csParams{fee: nf, uniFee: bi(op.P.UniFee), tax: bi(op.P.Tax), feeDenom: op.P.FeeDenom, feeAmt: bi(op.P.FeeAmt)}
		m.parChanged = true
	}
	m.sheet = after
	return m.readback()
}

// classifyLookalike counts a rejected removal whose coin is not a liquidity token.  The mandatory class is the
// one where nothing but the pool lookup stands between the message and a payout: the denom passes validation,
// its number is the sequence of a pool with liquidity, the sender holds the amount, the deadline has not passed.
func (m *csMachine) classifyLookalike(op csOp) {
	n, ok := aliasSeq(op.Denom)
	var p *poolInfo
	if ok {
		p = m.poolBySeq(n)
	}
	funded := cell(m.sheet, m.user(op.Who), op.Denom).Cmp(bi(op.A)) >= 0
	live := false
	if p != nil {
		S, T, L := m.pstate(m.sheet, p)
		live = S.Sign() > 0 && T.Sign() > 0 && L.Sign() > 0
	}
	switch {
	case p != nil && live && funded && !m.deadlinePassed(op.Deadline):
		m.cnt["lookalike-lpt-removal"]++
		if strings.EqualFold(op.Denom, p.lpt) {
			m.cnt["lookalike-lpt-removal-case-variant"]++
		} else if strings.HasPrefix(op.Denom, "lpt-") {
			m.cnt["lookalike-lpt-removal-leading-zeros"]++
		} else {
			m.cnt["lookalike-lpt-removal-other-prefix"]++
		}
		if op.Who >= 4 {
			m.cnt["lookalike-lpt-removal-by-poor-account"]++
		}
	case p != nil:
		m.cnt["lookalike-lpt-removal-unfunded-or-late"]++
	default:
		m.cnt["lookalike-lpt-removal-no-such-sequence"]++
	}
}

// applyReimport takes the coinswap module through its own genesis (export, wipe the whole store, import): the
// restored state is a reachable state, so the history goes on and every oracle clause keeps running on it.
// Checked here: export/import do not fail, no coin moves, a second export equals the first; checked by readback:
// pools, both indexes, next sequence, standard denom and parameters are what the model says.
func (m *csMachine) applyReimport() error {
	k := m.c.E.K.Coinswap
	cdc := m.c.E.App.AppCodec()
	exported, stage, err := m.c.Reimport(cstypes.ModuleName)
	if err != nil {
		return m.fail("reimport-"+stage, "coinswap genesis round trip with %d pools (next sequence %d): %v; exported %s", len(m.pools), m.seq, err, exported)
	}
	after := m.c.Snapshot()
	if d := chain.Diff(m.sheet, after); !d.Empty() {
		return m.fail("reimport-moved-coins", "coinswap genesis round trip moved coins: %s", d)
	}
	m.sheet = after
	var g1 cstypes.GenesisState
	if err := cdc.UnmarshalJSON(exported, &g1); err != nil {
		return m.fail("reimport-export", "exported coinswap genesis does not parse: %v", err)
	}
	g2 := k.ExportGenesis(m.c.Ctx)
	if a, b := string(cdc.MustMarshalJSON(&g1)), string(cdc.MustMarshalJSON(&g2)); a != b {
		return m.fail("reimport-lossy", "coinswap genesis differs after export+import: before %s, after %s", a, b)
	}
	m.reimports++
	m.atReimport = map[string]bool{}
	livePools := 0
	for d, p := range m.pools {
		m.atReimport[d] = true
		if _, _, L := m.pstate(m.sheet, p); L.Sign() > 0 {
			livePools++
		}
	}
	m.cnt["op-reimport"]++
	m.cnt["reimport"]++
	if livePools > 0 {
		m.cnt["reimport-with-pools"]++
	}
	if livePools > 0 && len(m.pools) < len(poolDenoms) {
		m.cnt["reimport-with-pools-and-room-for-more"]++
	}
	if m.parChanged {
		m.cnt["reimport-with-changed-params"]++
	}
	return m.readback()
}

// readback compares the pool registry (primary records, the index by liquidity-token denom, the next sequence,
// the standard denom) and the parameters in the store with the model.
func (m *csMachine) readback() error {
	k := m.c.E.K.Coinswap
	g := k.ExportGenesis(m.c.Ctx)
	pools := g.Pool
	if len(pools) != len(m.pools) {
		return m.fail("registry", "store has %d pools, model %d", len(pools), len(m.pools))
	}
	for _, sp := range pools {
		p, ok := m.pools[sp.CounterpartyDenom]
		if !ok || sp.LptDenom != p.lpt || sp.EscrowAddress != p.addr.String() || sp.StandardDenom != std || sp.Id != "pool-"+p.denom {
			return m.fail("registry", "stored pool %+v does not match the model %+v", sp, p)
		}
		if ip, ok := k.GetPoolByLptDenom(m.c.Ctx, p.lpt); !ok || ip.Id != sp.Id || ip.LptDenom != p.lpt {
			return m.fail("registry", "pool %s is not found under its liquidity-token denom %s (got %+v, found=%v)", sp.Id, p.lpt, ip, ok)
		}
	}
	if g.Sequence != m.seq {
		return m.fail("registry", "next pool sequence in the store is %d, model %d (%d pools)", g.Sequence, m.seq, len(m.pools))
	}
	if g.StandardDenom != std || k.GetStandardDenom(m.c.Ctx) != std {
		return m.fail("registry", "standard denom in the store is %q", g.StandardDenom)
	}
	ps := g.Params
	if ps.Fee.BigInt().Cmp(m.par.fee) != 0 || ps.UnilateralLiquidityFee.BigInt().Cmp(m.par.uniFee) != 0 || ps.TaxRate.BigInt().Cmp(m.par.tax) != 0 ||
		ps.PoolCreationFee.Denom != m.par.feeDenom || ps.PoolCreationFee.Amount.BigInt().Cmp(m.par.feeAmt) != 0 {
		return m.fail("params-readback", "stored params %s differ from the last accepted update %+v", ps.String(), m.par)
	}
	return nil
}

// swapPools returns the pools of a swap route (nil entries when the pool does not exist in the model).
func (m *csMachine) swapPools(op csOp) (double bool, p1, p2 *poolInfo) {
	double = op.In != std && op.Out != std
	if double {
		return true, m.pools[op.In], m.pools[op.Out]
	}
	d := op.In
	if d == std {
		d = op.Out
	}
	return false, m.pools[d], nil
}

// ---------------------------------------------------------------------------------------------
// C01 oracle

func (m *csMachine) oracleC01(op csOp, before, after chain.Sheet, delta chain.Delta) error {
	touched := map[string]bool{}
	switch op.Kind {
	case "add", "remove", "adduni", "removeuni":
		touched[op.Pool] = true
		if op.Kind == "remove" && op.Pool == "" {
			// accepted removal with a coin that is no liquidity token: the pool whose sequence the denom carries is
			// held against the share-value clause, every other pool against "untouched"
			if n, ok := aliasSeq(op.Denom); ok {
				if p := m.poolBySeq(n); p != nil {
					touched[p.denom] = true
				}
			}
			m.cnt["lookalike-lpt-removal-accepted"]++
		}
	case "swap":
		if op.In != std {
			touched[op.In] = true
		}
		if op.Out != std {
			touched[op.Out] = true
		}
	}
	var rcpt sdk.AccAddress
	if op.Kind == "swap" || op.Kind == "send" {
		rcpt, _ = m.resolve(op.To, op.Who)
		for _, p := range m.pools {
			if p.addr.Equals(rcpt) {
				touched[p.denom] = true
			}
		}
	}
	for _, d := range m.order {
		p := m.pools[d]
		S, T, L := m.pstate(before, p)
		S2, T2, L2 := m.pstate(after, p)
		same := S.Cmp(S2) == 0 && T.Cmp(T2) == 0 && L.Cmp(L2) == 0
		if !touched[d] && !same {
			return m.fail("untouched-pool-changed", "%s on %v changed pool %s: (%s,%s,%s) -> (%s,%s,%s)", op.Kind, op, d, S, T, L, S2, T2, L2)
		}
		if same {
			continue
		}
		if S.Cmp(pow64) > 0 || T.Cmp(pow64) > 0 {
			m.cnt["reserves>2^64"]++
		}
		if S2.Cmp(pow128) > 0 || T2.Cmp(pow128) > 0 || L2.Cmp(pow128) > 0 {
			m.cnt["beyond-2^128"]++
		}
		if L.Sign() > 0 && L2.Sign() > 0 && !valuePerShareOK(S, T, L, S2, T2, L2) {
			return m.fail("value-per-share-fell", "%s %+v: pool %s (S,T,L)=(%s,%s,%s) -> (%s,%s,%s): S'T'L^2 < STL'^2", op.Kind, op, d, S, T, L, S2, T2, L2)
		}
		odd := new(big.Int).Mod(S, big10).Sign() != 0 || new(big.Int).Mod(T, big10).Sign() != 0
		if L.Sign() > 0 && L2.Sign() > 0 {
			m.cnt["share-value-checked"]++
			if m.donated[d] {
				m.cnt["donation-before-op"]++
			}
			if m.feeChanged {
				m.cnt["fee-change-before-op"]++
			}
			if odd && op.Kind == "swap" {
				m.swapOddOK++
			}
			if odd && (op.Kind == "add" || op.Kind == "remove" || op.Kind == "adduni" || op.Kind == "removeuni") {
				m.liqOddOK++
			}
		}
	}
	if op.Kind == "send" && strings.HasPrefix(op.To, "pool:") {
		if p, ok := m.pools[op.To[5:]]; ok {
			m.donated[p.denom] = true
			m.cnt["donation"]++
		}
	}
	switch op.Kind {
	case "adduni":
		m.cnt["one-sided-add"]++
	case "removeuni":
		m.cnt["one-sided-remove"]++
	case "swap":
		double, p1, p2 := m.swapPools(op)
		if p1 == nil || (double && p2 == nil) {
			return m.fail("swap-without-pool", "swap %+v succeeded without its pools", op)
		}
		if op.UpperTo {
			m.cnt["swap-recipient-in-upper-case"]++
		}
		if p1.addr.Equals(rcpt) || (p2 != nil && p2.addr.Equals(rcpt)) {
			m.cnt["swap-recipient-is-pool"]++
			return nil // the pool's own delta mixes leg and payout; only the share value is checked
		}
		deltaFee := sub(bigD, m.par.fee)
		leg := func(p *poolInfo, in, out string) error {
			rin, rout := cell(before, p.addr, in), cell(before, p.addr, out)
			paid, received := dcell(delta, p.addr, in), neg(dcell(delta, p.addr, out))
			if sig, msg := checkLeg("C01", rin, rout, paid, received, deltaFee, !op.Buy); sig != "" {
				return pbt.Failf(sig, "swap %+v, leg %s->%s on pool %s: %s", op, in, out, p.denom, msg)
			}
			m.cnt["leg-checked"]++
			if op.Buy {
				if _, exact := refOutputPriceMin(received, rin, rout, deltaFee); exact {
					m.cnt["buy-leg-exact-division"]++
				}
			}
			return nil
		}
		if !double {
			m.cnt["single-hop"]++
			return leg(p1, op.In, op.Out)
		}
		m.cnt["double-hop"]++
		if err := leg(p1, op.In, std); err != nil {
			return err
		}
		return leg(p2, std, op.Out)
	}
	return nil
}

// ---------------------------------------------------------------------------------------------
// C02 oracle

type swapObs struct {
	sold, bought, mid *big.Int
	boughtKnown       bool
}

// expectSwap reads the traded amounts off designated cells and returns the only delta the property allows.
func (m *csMachine) expectSwap(op csOp, delta chain.Delta) (chain.Delta, swapObs, error) {
	sender := m.user(op.Who)
	rcpt, _ := m.resolve(op.To, op.Who)
	double, p1, p2 := m.swapPools(op)
	if p1 == nil || (double && p2 == nil) {
		return chain.Delta{}, swapObs{}, m.fail("swap-without-pool", "swap %+v succeeded without its pools", op)
	}
	o := swapObs{sold: neg(dcell(delta, sender, op.In)), boughtKnown: true}
	last := p1
	if double {
		last = p2
	}
	switch {
	case op.Buy:
		o.bought = bi(op.B)
	case last.addr.Equals(rcpt):
		o.bought, o.boughtKnown = new(big.Int), false // paid out of and into the same account
	default:
		o.bought = dcell(delta, rcpt, op.Out)
	}
	e := chain.NewExpect()
	e.Move(sender, p1.addr, op.In, o.sold)
	if double {
		o.mid = neg(dcell(delta, p1.addr, std))
		e.Move(p1.addr, p2.addr, std, o.mid)
	}
	e.Move(last.addr, rcpt, op.Out, o.bought)
	return e.Delta(), o, nil
}

func (m *csMachine) oracleC02(op csOp, res chain.Result, before chain.Sheet, delta chain.Delta, created bool) error {
	sender := m.user(op.Who)
	e := chain.NewExpect()
	switch op.Kind {
	case "send":
		to, _ := m.resolve(op.To, op.Who)
		e.Move(sender, to, m.resolveDenom(op.Denom), bi(op.A))
		if !chain.SameDelta(delta, e.Delta()) {
			return m.fail("send-settlement", "bank send %+v moved %s, expected %s", op, delta, e.Delta())
		}
		if op.To == "next" {
			m.cnt["donation-to-future-escrow"]++
		} else if strings.HasPrefix(op.To, "pool:") {
			m.cnt["donation"]++
			if strings.HasPrefix(op.Denom, "lpt:") && op.Denom[4:] == op.To[5:] {
				m.cnt["own-share-tokens-parked-on-the-escrow"]++
			}
		}
		return nil
	case "params":
		if !delta.Empty() {
			return m.fail("params-moved-coins", "parameter update moved coins: %s", delta)
		}
		return nil
	case "swap":
		rcpt, blocked := m.resolve(op.To, op.Who)
		if blocked {
			return m.fail("blocked-recipient-accepted", "swap to blocked address %s accepted", rcpt)
		}
		if len(delta.Sup) != 0 {
			return m.fail("supply-changed", "swap %+v changed supplies: %s", op, delta)
		}
		want, o, err := m.expectSwap(op, delta)
		if err != nil {
			return err
		}
		double := o.mid != nil
		if !chain.SameDelta(delta, want) {
			// "the intermediate standard coin nets to zero for both": the sender of a routed swap sells a
			// non-standard coin, so any change of its standard-coin balance is the intermediate leaking
			if double && !rcpt.Equals(sender) && dcell(delta, sender, std).Sign() != 0 {
				return m.fail("routed-intermediate-leak", "routed swap %+v: sender paid %s %s on top of the sold coin and the recipient received %s %s besides the bought coin; moved %s, allowed %s",
					op, neg(dcell(delta, sender, std)), std, dcell(delta, rcpt, std), std, delta, want)
			}
			return m.fail("swap-settlement", "swap %+v moved %s, allowed %s", op, delta, want)
		}
		if o.sold.Sign() <= 0 || (o.boughtKnown && o.bought.Sign() <= 0) || (double && o.mid.Sign() <= 0) {
			return m.fail("swap-settlement", "swap %+v with a non-positive leg: sold=%s bought=%s mid=%v", op, o.sold, o.bought, o.mid)
		}
		if !op.Buy {
			if o.sold.Cmp(bi(op.A)) != 0 {
				return m.fail("swap-exact-side", "sell order %+v debited %s instead of the exact input", op, o.sold)
			}
			if o.boughtKnown && o.bought.Cmp(bi(op.B)) < 0 {
				return m.fail("bound-violated", "sell order %+v paid out %s, below the minimum", op, o.bought)
			}
			if o.boughtKnown && o.bought.Cmp(bi(op.B)) == 0 {
				m.cnt["bound-met-exactly"]++
			}
		} else {
			if o.sold.Cmp(bi(op.A)) > 0 {
				return m.fail("bound-violated", "buy order %+v charged %s, above the maximum", op, o.sold)
			}
			if o.sold.Cmp(bi(op.A)) == 0 {
				m.cnt["bound-met-exactly"]++
			}
		}
		if double {
			m.cnt["routed"]++
			if !rcpt.Equals(sender) {
				m.cnt["routed-recipient-other"]++
			}
		} else if !rcpt.Equals(sender) {
			m.cnt["recipient-other"]++
		}
		if op.UpperTo {
			m.cnt["recipient-in-upper-case"]++
		}
		if op.Deadline == m.c.Time().Unix() || op.Deadline == m.c.Time().Unix()+1 {
			m.cnt["deadline-boundary-accepted"]++
		}
		return nil
	}

	// liquidity messages
	p := m.pools[op.Pool]
	if p == nil {
		return m.fail("liquidity-without-pool", "%s %+v succeeded without a pool", op.Kind, op)
	}
	minted := dsup(delta, p.lpt) // positive: minted, negative: burned
	var respCoins sdk.Coins
	switch r := res.Resp.(type) {
	case *cstypes.MsgAddLiquidityResponse:
		if r.MintToken != nil {
			respCoins = sdk.Coins{*r.MintToken}
		}
	case *cstypes.MsgAddUnilateralLiquidityResponse:
		if r.MintToken != nil {
			respCoins = sdk.Coins{*r.MintToken}
		}
	case *cstypes.MsgRemoveLiquidityResponse:
		respCoins = r.WithdrawCoins
	case *cstypes.MsgRemoveUnilateralLiquidityResponse:
		respCoins = r.WithdrawCoins
	default:
		return m.fail("response", "unexpected response %T to %s", res.Resp, op.Kind)
	}
	respAmt := func(denom string) *big.Int {
		v := new(big.Int)
		for _, c := range respCoins {
			if c.Denom == denom {
				v.Add(v, c.Amount.BigInt())
			}
		}
		return v
	}
	e.Add(sender, p.lpt, minted).Supply(p.lpt, minted)
	switch op.Kind {
	case "add":
		a := bi(op.A)
		dep := dcell(delta, p.addr, op.Pool)
		e.Move(sender, p.addr, std, a).Move(sender, p.addr, op.Pool, dep)
		if created {
			// the fee is taken under the parameters in force before this message
			tax := quo(mul(m.par.feeAmt, m.par.tax), bigD)
			burn := sub(m.par.feeAmt, tax)
			e.Move(sender, chain.ModuleAddr("fee_collector"), m.par.feeDenom, tax)
			e.Add(sender, m.par.feeDenom, neg(burn)).Supply(m.par.feeDenom, neg(burn))
		}
		if !chain.SameDelta(delta, e.Delta()) {
			if created {
				return m.fail("pool-creation-settlement", "first add %+v (creation fee %s%s, tax rate %s/1e18) moved %s, allowed %s", op, m.par.feeAmt, m.par.feeDenom, m.par.tax, delta, e.Delta())
			}
			return m.fail("add-settlement", "add %+v moved %s, allowed %s", op, delta, e.Delta())
		}
		if dep.Sign() <= 0 || dep.Cmp(bi(op.B)) > 0 {
			return m.fail("bound-violated", "add %+v took %s %s, outside (0, max]", op, dep, op.Pool)
		}
		if minted.Sign() < 0 || minted.Cmp(bi(op.C)) < 0 {
			return m.fail("bound-violated", "add %+v minted %s shares, below the minimum", op, minted)
		}
		if respAmt(p.lpt).Cmp(minted) != 0 || len(respCoins) != 1 {
			return m.fail("response", "add response %s, minted %s%s", respCoins, minted, p.lpt)
		}
		if dep.Cmp(bi(op.B)) == 0 || minted.Cmp(bi(op.C)) == 0 {
			m.cnt["liquidity-bound-met-exactly"]++
		}
		if created && m.par.feeDenom != std {
			m.cnt["pool-created-fee-other-denom"]++
		}
	case "adduni":
		if op.Denom != std && op.Denom != p.denom {
			// shares minted against a coin that is neither reserve are not minted against a deposit
			return m.fail("one-sided-add-of-a-coin-the-pool-does-not-trade", "one-sided add %+v accepted: pool %s trades %s and %s", op, p.denom, std, p.denom)
		}
		e.Move(sender, p.addr, op.Denom, bi(op.A))
		if !chain.SameDelta(delta, e.Delta()) {
			return m.fail("adduni-settlement", "one-sided add %+v moved %s, allowed %s", op, delta, e.Delta())
		}
		if minted.Sign() < 0 || minted.Cmp(bi(op.B)) < 0 {
			return m.fail("bound-violated", "one-sided add %+v minted %s shares, below the minimum", op, minted)
		}
		if respAmt(p.lpt).Cmp(minted) != 0 {
			return m.fail("response", "one-sided add response %s, minted %s%s", respCoins, minted, p.lpt)
		}
		if minted.Cmp(bi(op.B)) == 0 {
			m.cnt["liquidity-bound-met-exactly"]++
		}
		m.cnt["one-sided-add"]++
	case "remove":
		w := bi(op.A)
		outS, outT := neg(dcell(delta, p.addr, std)), neg(dcell(delta, p.addr, op.Pool))
		e.Move(p.addr, sender, std, outS).Move(p.addr, sender, op.Pool, outT)
		if !chain.SameDelta(delta, e.Delta()) {
			return m.fail("remove-settlement", "remove %+v moved %s, allowed %s", op, delta, e.Delta())
		}
		if neg(minted).Cmp(w) != 0 {
			return m.fail("remove-settlement", "remove %+v burned %s shares instead of %s", op, neg(minted), w)
		}
		if outS.Sign() < 0 || outT.Sign() < 0 || outS.Cmp(bi(op.B)) < 0 || outT.Cmp(bi(op.C)) < 0 {
			return m.fail("bound-violated", "remove %+v returned %s%s,%s%s, below the minima", op, outS, std, outT, op.Pool)
		}
		if respAmt(std).Cmp(outS) != 0 || respAmt(op.Pool).Cmp(outT) != 0 {
			return m.fail("response", "remove response %s, withdrawn %s%s,%s%s", respCoins, outS, std, outT, op.Pool)
		}
		if outS.Cmp(bi(op.B)) == 0 || outT.Cmp(bi(op.C)) == 0 {
			m.cnt["liquidity-bound-met-exactly"]++
		}
	case "removeuni":
		if op.Denom != std && op.Denom != p.denom {
			return m.fail("one-sided-remove-of-a-coin-the-pool-does-not-trade", "one-sided remove %+v accepted: pool %s trades %s and %s", op, p.denom, std, p.denom)
		}
		w := bi(op.A)
		out := neg(dcell(delta, p.addr, op.Denom))
		e.Move(p.addr, sender, op.Denom, out)
		if !chain.SameDelta(delta, e.Delta()) {
			return m.fail("removeuni-settlement", "one-sided remove %+v moved %s, allowed %s", op, delta, e.Delta())
		}
		if neg(minted).Cmp(w) != 0 {
			return m.fail("removeuni-settlement", "one-sided remove %+v burned %s shares instead of %s", op, neg(minted), w)
		}
		if out.Cmp(bi(op.B)) < 0 {
			return m.fail("bound-violated", "one-sided remove %+v returned %s, below the minimum", op, out)
		}
		if respAmt(op.Denom).Cmp(out) != 0 {
			return m.fail("response", "one-sided remove response %s, withdrawn %s%s", respCoins, out, op.Denom)
		}
		if out.Cmp(bi(op.B)) == 0 {
			m.cnt["liquidity-bound-met-exactly"]++
		}
		m.cnt["one-sided-remove"]++
	}
	return nil
}

// probeRejection re-runs a rejected message on a branch with every user bound loosened and the deadline
// moved out. If that succeeds and what it does lies within the original bounds while the original deadline
// had not passed, the rejection was not justified by the bounds the user gave.
func (m *csMachine) probeRejection(op csOp, orig chain.Result) error {
	switch op.Kind {
	case "send", "params":
		return nil
	}
	if m.deadlinePassed(op.Deadline) {
		m.cnt["deadline-rejected"]++
		return nil
	}
	if op.Kind == "swap" {
		if _, blocked := m.resolve(op.To, op.Who); blocked {
			m.cnt["blocked-recipient-rejected"]++
			return nil
		}
		if op.PadTo {
			m.cnt["padded-recipient-rejected"]++
			return nil
		}
	}
	if op.Kind == "adduni" || op.Kind == "removeuni" {
		if p := m.pools[op.Pool]; p != nil && op.Denom != std && op.Denom != p.denom && cell(m.sheet, p.addr, op.Denom).Sign() > 0 {
			m.cnt["one-sided-op-on-a-parked-foreign-coin-rejected"]++
		}
	}
	// first the deadline alone: a deadline that has not passed must not be the reason
	if far := m.c.Time().Unix() + 1_000_000; op.Deadline != far {
		op2 := op
		op2.Deadline = far
		if r := m.c.Branch().Deliver(m.build(op2, false)); r.Outcome == chain.OK {
			return m.fail("deadline-not-passed-rejected", "%s %+v was %v at block time %s although its deadline has not passed and it executes with a later deadline",
				op.Kind, op, orig, m.c.Time().Format(time.RFC3339Nano))
		}
	}
	br := m.c.Branch()
	res := br.Deliver(m.build(op, true))
	if res.Outcome != chain.OK {
		return nil
	}
	delta := chain.Diff(m.sheet, br.Snapshot())
	within, missByOne := false, false
	cmpLower := func(got, min *big.Int) { // got >= min required
		if got.Cmp(min) < 0 {
			within = false
			if add(got, big1).Cmp(min) == 0 {
				missByOne = true
			}
		}
	}
	cmpUpper := func(got, max *big.Int) {
		if got.Cmp(max) > 0 {
			within = false
			if sub(got, big1).Cmp(max) == 0 {
				missByOne = true
			}
		}
	}
	within = true
	switch op.Kind {
	case "swap":
		_, o, err := m.expectSwap(op, delta)
		if err != nil {
			return nil
		}
		if op.Buy {
			cmpUpper(o.sold, bi(op.A))
		} else if o.boughtKnown {
			cmpLower(o.bought, bi(op.B))
		} else {
			return nil
		}
	case "add":
		p := m.pools[op.Pool]
		var lpt string
		var addr sdk.AccAddress
		if p != nil {
			lpt, addr = p.lpt, p.addr
		} else {
			lpt, addr = escrowOf(m.seq)
		}
		cmpUpper(dcell(delta, addr, op.Pool), bi(op.B))
		cmpLower(dsup(delta, lpt), bi(op.C))
	case "adduni":
		p := m.pools[op.Pool]
		if p == nil {
			return nil
		}
		cmpLower(dsup(delta, p.lpt), bi(op.B))
	case "remove":
		p := m.pools[op.Pool]
		if p == nil {
			return nil
		}
		cmpLower(neg(dcell(delta, p.addr, std)), bi(op.B))
		cmpLower(neg(dcell(delta, p.addr, op.Pool)), bi(op.C))
	case "removeuni":
		p := m.pools[op.Pool]
		if p == nil {
			return nil
		}
		cmpLower(neg(dcell(delta, p.addr, op.Denom)), bi(op.B))
	}
	if within {
		return m.fail("bound-met-rejected", "%s %+v was %v although the same message with loosened bounds executes within the original bounds (moves %s)", op.Kind, op, orig, delta)
	}
	m.cnt["bound-rejected"]++
	if missByOne {
		m.cnt["bound-missed-by-one"]++
	}
	return nil
}

// ---------------------------------------------------------------------------------------------

func (m *csMachine) Finish() error {
	if opTotals != nil {
		opMu.Lock()
		for k, v := range m.cnt {
			opTotals[m.mode+" "+k] += v
		}
		opMu.Unlock()
	}
	return nil
}

// Optional op-level totals for tuning the generator (VERIF_C01_TOTALS=1): printed when the binary exits.
var (
	opMu     sync.Mutex
	opTotals map[string]int
)

func TestMain(mn *testing.M) {
	if os.Getenv("VERIF_C01_TOTALS") != "" {
		opTotals = map[string]int{}
	}
	code := mn.Run()
	if opTotals != nil {
		keys := make([]string, 0, len(opTotals))
		for k := range opTotals {
			keys = append(keys, k)
		}
		sort.Strings(keys)
		for _, k := range keys {
			fmt.Printf("TOTAL %-40s %d\n", k, opTotals[k])
		}
	}
	os.Exit(code)
}

func (m *csMachine) Classify() (bool, []string) {
	var cl []string
	for k, v := range m.cnt {
		if v > 0 {
			cl = append(cl, k)
		}
	}
	sort.Strings(cl)
	if m.mode == "C01" {
		return m.swapOddOK > 0 && m.liqOddOK > 0, cl
	}
	nt := m.cnt["recipient-other"] > 0 || m.cnt["routed"] > 0 || m.cnt["bound-met-exactly"] > 0 || m.cnt["bound-missed-by-one"] > 0
	return nt, cl
}

const c01Rule = "rapid state machine on the K-driver (irismod blockers only): up to 4 pools (btc/eth/usdt and BTC - a coin that differs from another pool's by letter case only - against stake), traders U0-U3 plus a poor account; rules add (first/later), remove, one-sided add/remove (either side), swap (sell/buy x single/double hop x recipient self/other/poor/blocked/pool escrow/module account), bank send (donation of either reserve coin or a third coin to an existing or future escrow address, share-token transfers), parameter update by the authority (fee, one-sided fee, tax rate, creation fee anywhere in their valid ranges) or by a user, next block, removal with a coin that only looks like a liquidity token (<name>-<N>, N a pool sequence: other prefix, other letter case, leading zeros; held by the sender from genesis), one-sided add/remove naming a coin the pool does not trade, genesis round trip of the coinswap module (export, wipe the store, import) after which the history continues; amounts by shape up to 2^128 and relative to live reserves, bounds drawn around the reference price (met exactly, off by one, loose, far off), deadlines around the block time; non-trivial = history with >=1 successful swap and >=1 successful liquidity change on a pool whose reserves are not both multiples of 10; distinct by SHA-256 of the op list"

const c02Rule = "same machine as C01 layer 2 with the balance-sheet oracle (every bank balance and supply before/after each message); non-trivial = history with a successful swap whose recipient differs from the sender, or a routed (double-hop) swap, or a swap bound met exactly, or a message rejected for a bound missed by exactly one unit (shown by re-running it with loosened bounds on a branch); distinct by SHA-256 of the op list"

func init() {
	pbt.RegisterMachine("c01", newC01)
	pbt.RegisterMachine("c02", newC02)
}

func TestReplay(t *testing.T) { pbt.ReplayMain(t) }

func TestC01(t *testing.T) { pbt.RunMachine(t, "C01", "c01", c01Rule, newC01) }

func TestC02(t *testing.T) { pbt.RunMachine(t, "C02", "c02", c02Rule, newC02) }

// The *Long entry points are the same machines; the driver gives them their own seed, a longer history
// (-rapid.steps) and their own process, so that deep pool states are reached within the quick budget.
func TestC01Long(t *testing.T) { pbt.RunMachine(t, "C01", "c01", c01Rule, newC01) }

func TestC02Long(t *testing.T) { pbt.RunMachine(t, "C02", "c02", c02Rule, newC02) }
