package c01

import (
	"fmt"
	"math/big"
	"math/bits"
	"strings"

	"pgregory.net/rapid"
)

// uni draws uniformly from [0,n). rapid's integer generators are deliberately biased towards small
// values, which is wrong for weighted choices between rules; fair bits with rejection are not.
func uni(t *rapid.T, label string, n int) int {
	if n <= 1 {
		return 0
	}
	w := bits.Len(uint(n - 1))
	for {
		v := 0
		for i := 0; i < w; i++ {
			if rapid.Bool().Draw(t, label) {
				v |= 1 << i
			}
		}
		if v < n {
			return v
		}
	}
}

// Reference arithmetic for the coinswap properties C01/C02.  math/big only; nothing in this file calls
// the code under test.
//
// Notation: D = 10^18 (LegacyDec precision), fee = f/D with 0 < f < D, delta = D - f.
// The constant-product rule with the fee charged on the input side, scaled by D:
//
//	(Rin*D + delta*paid) * (Rout - received) >= Rin*Rout*D

var (
	bigD    = new(big.Int).Exp(big.NewInt(10), big.NewInt(18), nil)
	big0    = big.NewInt(0)
	big1    = big.NewInt(1)
	big2    = big.NewInt(2)
	big10   = big.NewInt(10)
	pow128  = new(big.Int).Lsh(big.NewInt(1), 128)
	pow64   = new(big.Int).Lsh(big.NewInt(1), 64)
	max256  = new(big.Int).Sub(new(big.Int).Lsh(big.NewInt(1), 256), big.NewInt(1))
	bigHuge = new(big.Int).Lsh(big.NewInt(1), 190)
)

func bi(s string) *big.Int {
	v, ok := new(big.Int).SetString(s, 10)
	if !ok {
		panic("bad integer " + s)
	}
	return v
}

func mul(a, b *big.Int) *big.Int { return new(big.Int).Mul(a, b) }
func add(a, b *big.Int) *big.Int { return new(big.Int).Add(a, b) }
func sub(a, b *big.Int) *big.Int { return new(big.Int).Sub(a, b) }
func quo(a, b *big.Int) *big.Int { return new(big.Int).Quo(a, b) } // operands non-negative
func neg(a *big.Int) *big.Int    { return new(big.Int).Neg(a) }

// ruleHolds evaluates the fee-inclusive constant-product rule for one leg.
func ruleHolds(rin, rout, paid, received, delta *big.Int) bool {
	lhs := mul(add(mul(rin, bigD), mul(delta, paid)), sub(rout, received))
	rhs := mul(mul(rin, rout), bigD)
	return lhs.Cmp(rhs) >= 0
}

// refInputPrice is the largest y with ruleHolds(rin, rout, x, y): floor(delta*x*rout / (rin*D + delta*x)).
func refInputPrice(x, rin, rout, delta *big.Int) (y *big.Int, exact bool) {
	num := mul(mul(delta, x), rout)
	den := add(mul(rin, bigD), mul(delta, x))
	q, r := new(big.Int).QuoRem(num, den, new(big.Int))
	return q, r.Sign() == 0
}

// refOutputPriceMin is the smallest p with ruleHolds(rin, rout, p, out): ceil(rin*out*D / ((rout-out)*delta)).
// exact reports whether the division has no remainder (the one residue where "floor+1" is one unit above it).
func refOutputPriceMin(out, rin, rout, delta *big.Int) (pmin *big.Int, exact bool) {
	num := mul(mul(rin, out), bigD)
	den := mul(sub(rout, out), delta)
	q, r := new(big.Int).QuoRem(num, den, new(big.Int))
	if r.Sign() == 0 {
		return q, true
	}
	return q.Add(q, big1), false
}

// checkLeg is the C01 oracle for one swap leg observed on a pool.
// exactIn: the leg had a fixed input (sell order) – received must be the largest the rule allows;
// otherwise the leg had a fixed output (buy order) – paid must be at most one unit above the smallest.
func checkLeg(sigPrefix string, rin, rout, paid, received, delta *big.Int, exactIn bool) (string, string) {
	ctx := fmt.Sprintf("Rin=%s Rout=%s paid=%s received=%s delta=%s", rin, rout, paid, received, delta)
	if paid.Sign() <= 0 || received.Sign() < 0 || received.Cmp(rout) >= 0 {
		return sigPrefix + "/leg-shape", "swap leg with non-positive payment or draining output: " + ctx
	}
	if !ruleHolds(rin, rout, paid, received, delta) {
		return sigPrefix + "/leg-rule", "constant-product rule with fee on the input side broken: " + ctx
	}
	if exactIn {
		r1 := add(received, big1)
		if r1.Cmp(rout) < 0 && ruleHolds(rin, rout, paid, r1, delta) {
			return sigPrefix + "/leg-not-largest", "exact-input leg pays out less than the rule allows: " + ctx
		}
		return "", ""
	}
	if received.Sign() == 0 {
		return sigPrefix + "/leg-shape", "exact-output leg with zero output: " + ctx
	}
	pmin, _ := refOutputPriceMin(received, rin, rout, delta)
	if paid.Cmp(add(pmin, big1)) > 0 {
		return sigPrefix + "/leg-overpaid", fmt.Sprintf("exact-output leg charges more than smallest+1 (smallest=%s): %s", pmin, ctx)
	}
	return "", ""
}

// valuePerShareOK: S'*T'*L^2 >= S*T*L'^2.
func valuePerShareOK(s, t, l, s2, t2, l2 *big.Int) bool {
	lhs := mul(mul(s2, t2), mul(l, l))
	rhs := mul(mul(s, t), mul(l2, l2))
	return lhs.Cmp(rhs) >= 0
}

// --- formulas used by the generator only (to aim bounds at the boundary) -------------------------

func genAddLater(s, t, l, a *big.Int) (deposit, mint *big.Int) {
	return add(quo(mul(t, a), s), big1), quo(mul(l, a), s)
}

func genRemove(s, t, l, w *big.Int) (outS, outT *big.Int) {
	return quo(mul(w, s), l), quo(mul(w, t), l)
}

func genAddUni(tb, l, x, deltaU *big.Int) *big.Int {
	if tb.Sign() == 0 {
		return big.NewInt(0)
	}
	sq := quo(mul(mul(add(mul(bigD, tb), mul(deltaU, x)), l), l), mul(bigD, tb))
	return sub(new(big.Int).Sqrt(sq), l)
}

func genRemoveUni(tb, l, w, deltaU *big.Int) *big.Int {
	if l.Sign() == 0 {
		return big.NewInt(0)
	}
	n := mul(mul(mul(sub(add(l, l), w), w), tb), deltaU)
	return quo(n, mul(mul(l, l), bigD))
}

func isOverflowText(s string) bool {
	s = strings.ToLower(s)
	if strings.Contains(s, "Int64()") || strings.Contains(s, "Uint64()") {
		return false // conversion of an existing number to a machine integer: not a range refusal
	}
	return strings.Contains(s, "overflow") || strings.Contains(s, "out of bound") || strings.Contains(s, "out of range")
}
