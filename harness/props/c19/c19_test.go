package c19

import (
	"bytes"
	"context"
	"encoding/hex"
	"fmt"
	"math"
	"strings"
	"testing"
	"time"

	sdk "github.com/cosmos/cosmos-sdk/types"
	"pgregory.net/rapid"

	nfttypes "mods.irisnet.org/modules/nft/types"
	randomtypes "mods.irisnet.org/modules/random/types"
	recordtypes "mods.irisnet.org/modules/record/types"

	"verifharness/chain"
	"verifharness/gen"
	"verifharness/pbt"
)

// C19 Record: a stored record is immutable and its id is unique and permanent.

type c19Content struct {
	Digest, Algo, URI, Meta string
}

type c19Op struct {
	Kind     string       `json:"kind"` // create | block | foreign | query | age
	OddID    string       `json:"odd_id,omitempty"`
	Who      int          `json:"who,omitempty"`
	Contents []c19Content `json:"contents,omitempty"`
	Copies   int          `json:"copies,omitempty"`  // identical messages in the one transaction
	Large    bool         `json:"large,omitempty"`   // some content is larger than 1 KiB
	NoTx     bool         `json:"no_tx,omitempty"`   // executed outside a signed transaction (e.g. by a passed proposal in the end blocker): empty tx bytes
	Dt       int64        `json:"dt,omitempty"`      // block: time step (ns)
	Foreign  int          `json:"foreign,omitempty"` // which other-module operation
}

type c19Rec struct {
	creator  string
	txHash   string
	contents []c19Content
}

type c19Machine struct {
	c          *chain.Case
	recs       map[string]c19Rec // id -> record
	order      []string
	raw        map[string][]byte // record store image of the previous step
	dup        map[string]int    // creator+contents -> count
	nDup       int
	nNoTx      int
	nLarge     int
	nBatch     int
	nOddQuery  int
	nAged      int
	queryPanic string
	nOps       int
	seq        int
}

func newC19() pbt.Machine[c19Op] {
	c := gen.Env().NewCase()
	c.IrismodOnly = false
	return &c19Machine{c: c, recs: map[string]c19Rec{}, raw: map[string][]byte{}, dup: map[string]int{}}
}

var c19Digests = []string{"d0", "d1", "QmHash", ""}
var c19Algos = []string{"sha256", "md5", ""}

func (m *c19Machine) Next(t *rapid.T) c19Op {
	if m.nOps == 0 && rapid.IntRange(0, 2).Draw(t, "aged") == 0 {
		// the history starts on a chain that has already created almost 2^32 records: the module's record counter is
		// a few steps before the end of its range (a state no generated history is long enough to reach)
		return c19Op{Kind: "age", Who: rapid.IntRange(0, 6).Draw(t, "left")}
	}
	switch k := rapid.IntRange(0, 9).Draw(t, "kind"); {
	case k < 6:
		op := c19Op{Kind: "create", Who: rapid.IntRange(0, 2).Draw(t, "who"), Copies: rapid.SampledFrom([]int{1, 1, 2, 3}).Draw(t, "copies"),
			NoTx: rapid.IntRange(0, 3).Draw(t, "notx") == 0}
		if m.nBatch == 0 && rapid.IntRange(0, 1<<20).Draw(t, "batch")%25 == 24 {
			// one transaction carrying a few hundred identical messages (a notary's batch): the per-record counter is the
			// only thing that tells the records apart, over more than one byte of its range
			op.Copies = rapid.IntRange(257, 300).Draw(t, "batchsize")
		}
		n := rapid.IntRange(1, 3).Draw(t, "n")
		large := false
		for i := 0; i < n; i++ {
			// mostly valid, small alphabet so that byte-identical records are common
			// incl. strings with leading/trailing blanks: valid input that must read back verbatim
			d := rapid.SampledFrom([]string{"d0", "d0", "d1", "QmHash", "", " d0 ", "d1\n", "\uFFFD", "d\uFFFD0", "Zur M\u00fchle", "\u8bb0\u5f55"}).Draw(t, "digest")
			a := rapid.SampledFrom([]string{"sha256", "sha256", "md5", "", "sha256\n", " md5"}).Draw(t, "algo")
			if rapid.IntRange(0, 9).Draw(t, "valid") < 9 {
				if d == "" {
					d = "d0"
				}
				if a == "" {
					a = "sha256"
				}
			}
			meta := rapid.SampledFrom([]string{"", "m", "m", "caf\uFFFD \U0001F600", "\u200b", "a\x00b"}).Draw(t, "meta")
			if rapid.IntRange(0, 4).Draw(t, "big") == 0 {
				// records whose encoding exceeds one or several KiB (buffer reuse, chunking and the like only show there)
				n := rapid.SampledFrom([]int{300, 1100, 1100, 2500, 9000}).Draw(t, "metalen")
				meta = strings.Repeat(rapid.SampledFrom([]string{"x", "y", "zz"}).Draw(t, "fill"), n)[:n]
				large = true
			}
			op.Contents = append(op.Contents, c19Content{d, a, rapid.SampledFrom([]string{"", "ipfs://x"}).Draw(t, "uri"), meta})
		}
		op.Large = large
		return op
	case k < 7:
		return c19Op{Kind: "block", Dt: gen.Dt(t, "dt")}
	case k < 8:
		// a read with an id nobody was given: empty, one byte, odd length, not hex, shortened or lengthened real id
		q := rapid.SampledFrom([]string{"", "0", "05", "ff", "0x", "zz", "0505", strings.Repeat("ab", 31), strings.Repeat("cd", 33), "real-prefix", "real-plus", "real-0x"}).Draw(t, "odd id")
		return c19Op{Kind: "query", OddID: q, Who: rapid.IntRange(0, 50).Draw(t, "which")}
	default:
		return c19Op{Kind: "foreign", Who: rapid.IntRange(0, 2).Draw(t, "who"), Foreign: rapid.IntRange(0, 2).Draw(t, "foreign")}
	}
}

func (m *c19Machine) Apply(op c19Op) error {
	m.nOps++
	switch op.Kind {
	case "create":
		u := m.c.E.Users[op.Who]
		msg := &recordtypes.MsgCreateRecord{Creator: u.Addr.String()}
		valid := len(op.Contents) > 0
		for _, ct := range op.Contents {
			msg.Contents = append(msg.Contents, recordtypes.Content{Digest: ct.Digest, DigestAlgo: ct.Algo, URI: ct.URI, Meta: ct.Meta})
			if ct.Digest == "" || ct.Algo == "" {
				valid = false
			}
		}
		msgs := make([]sdk.Msg, 0, op.Copies)
		for i := 0; i < op.Copies; i++ {
			msgs = append(msgs, msg)
		}
		if op.Large {
			m.nLarge++
		}
		if op.Copies > 256 && valid {
			m.nBatch++
		}
		var txBytes []byte // nil = unique bytes per transaction
		if op.NoTx {
			// a message routed by a module (gov/group proposal execution) runs with the context's empty tx bytes:
			// the recorded tx hash is then the same every time, in every block
			txBytes = []byte{}
			m.nNoTx++
		}
		res := m.c.DeliverTx(txBytes, msgs...)
		last := res[len(res)-1]
		if !valid {
			if last.Outcome == chain.OK {
				return pbt.Failf("C19/invalid-accepted", "record with missing digest/algo accepted: %+v", op)
			}
			break
		}
		if last.Outcome != chain.OK || len(res) != op.Copies {
			return pbt.Failf("C19/create-failed", "valid record creation failed: %v", last)
		}
		for _, r := range res {
			resp, ok := r.Resp.(*recordtypes.MsgCreateRecordResponse)
			if !ok {
				return pbt.Failf("C19/response", "unexpected response %T", r.Resp)
			}
			id := strings.ToLower(resp.Id)
			if ev := chain.EventAttrs(r.Events, "create_record", "record_id"); len(ev) != 1 || strings.ToLower(ev[0]) != id {
				return pbt.Failf("C19/event-id", "event record ids %v != response id %s", ev, id)
			}
			if _, dup := m.recs[id]; dup {
				return pbt.Failf("C19/id-reused", "id %s returned twice", id)
			}
			m.recs[id] = c19Rec{creator: u.Addr.String(), txHash: r.TxHash, contents: op.Contents}
			m.order = append(m.order, id)
			key := fmt.Sprintf("%d|%v", op.Who, op.Contents)
			m.dup[key]++
			if m.dup[key] == 2 {
				m.nDup++
			}
		}
	case "age":
		if len(m.order) > 0 || op.Who < 0 || op.Who > 6 {
			return fmt.Errorf("bad replay op %+v", op)
		}
		m.c.E.K.Record.SetIntraTxCounter(m.c.Ctx, math.MaxUint32-uint32(op.Who))
		m.nAged++
	case "block":
		end, begin := m.c.NextBlock(time.Duration(op.Dt), nil)
		if end.Outcome != chain.OK || begin.Outcome != chain.OK {
			return pbt.Failf("C19/block-hook", "block hooks failed: end=%v begin=%v", end, begin)
		}
	case "query":
		// reads never change anything: whatever they answer, every clause of check() must still hold afterwards
		id := op.OddID
		if strings.HasPrefix(id, "real-") {
			if len(m.order) == 0 {
				break
			}
			real := m.order[op.Who%len(m.order)]
			switch id {
			case "real-prefix":
				id = real[:2*(1+op.Who%4)]
			case "real-plus":
				id = real + "00"
			default:
				id = "0x" + real
			}
		}
		func() {
			defer func() {
				if p := recover(); p != nil {
					m.queryPanic = fmt.Sprintf("query of id %q panicked: %v", id, p)
				}
			}()
			// (the module answers an unknown id with an empty record and no error; the property says nothing about
			// that, so the answer itself is not judged)
			_, _ = m.c.E.K.Record.Record(context.Context(m.c.Ctx), &recordtypes.QueryRecordRequest{RecordId: id})
		}()
		if m.queryPanic != "" {
			return pbt.Failf("C19/odd-query", "%s", m.queryPanic)
		}
		m.nOddQuery++
	case "foreign":
		u := m.c.E.Users[op.Who]
		m.seq++
		switch op.Foreign {
		case 0:
			m.c.Deliver(&nfttypes.MsgIssueDenom{Id: fmt.Sprintf("rcls%d", m.seq), Name: "n", Sender: u.Addr.String()})
		case 1:
			m.c.Deliver(&randomtypes.MsgRequestRandom{BlockInterval: 1, Consumer: u.Addr.String()})
		default:
			// a record-looking write through another module's free-form field
			m.c.Deliver(&nfttypes.MsgIssueDenom{Id: fmt.Sprintf("rdat%d", m.seq), Name: "n", Sender: u.Addr.String(), Data: "\x01record"})
		}
	}
	return m.check()
}

func (m *c19Machine) check() error {
	// (1) every id ever returned reads back exactly
	for _, id := range m.order {
		want := m.recs[id]
		resp, err := m.c.E.K.Record.Record(context.Context(m.c.Ctx), &recordtypes.QueryRecordRequest{RecordId: id})
		if err != nil || resp.Record == nil {
			return pbt.Failf("C19/query-failed", "query of %s failed: %v", id, err)
		}
		got := resp.Record
		if got.Creator != want.creator || !strings.EqualFold(got.TxHash, want.txHash) || len(got.Contents) != len(want.contents) {
			return pbt.Failf("C19/readback", "record %s reads back as %+v, submitted %+v", id, got, want)
		}
		for i, ct := range want.contents {
			g := got.Contents[i]
			if g.Digest != ct.Digest || g.DigestAlgo != ct.Algo || g.URI != ct.URI || g.Meta != ct.Meta {
				return pbt.Failf("C19/readback", "record %s content %d reads back as %+v, submitted %+v", id, i, g, ct)
			}
		}
		// upper-case id form must resolve to the same record
		up, err := m.c.E.K.Record.Record(context.Context(m.c.Ctx), &recordtypes.QueryRecordRequest{RecordId: strings.ToUpper(id)})
		if err != nil || up.Record == nil || up.Record.Creator != want.creator {
			return pbt.Failf("C19/readback-case", "record %s not readable by upper-case id", id)
		}
	}
	// (2) the record store only grows; stored bytes never change
	keys, vals := m.c.RawStore("record", recordtypes.RecordKey)
	now := map[string][]byte{}
	for i, k := range keys {
		now[hex.EncodeToString(k)] = vals[i]
	}
	for k, v := range m.raw {
		nv, ok := now[k]
		if !ok {
			return pbt.Failf("C19/deleted", "stored record %s disappeared", k)
		}
		if !bytes.Equal(nv, v) {
			return pbt.Failf("C19/mutated", "stored record %s changed", k)
		}
	}
	if len(now) != len(m.order) {
		return pbt.Failf("C19/store-count", "record store has %d records, %d ids were returned", len(now), len(m.order))
	}
	m.raw = now
	return nil
}

func (m *c19Machine) Finish() error { return nil }

func (m *c19Machine) Classify() (bool, []string) {
	var cl []string
	if m.nDup > 0 {
		cl = append(cl, "byte-identical-records")
	}
	if len(m.order) >= 5 {
		cl = append(cl, "records>=5")
	}
	if m.nLarge >= 2 {
		cl = append(cl, "large-records>=2")
	}
	if m.nBatch > 0 {
		cl = append(cl, "one-transaction-with->256-identical-records")
	}
	if m.nNoTx >= 2 {
		cl = append(cl, "same-tx-hash-in-different-txs")
	}
	if m.nOddQuery > 0 {
		cl = append(cl, "queries-with-ids-never-returned")
	}
	if m.nAged > 0 && len(m.order) >= 8 {
		cl = append(cl, "record-counter-wrapped")
	}
	return m.nDup > 0, cl
}

const c19Rule = "rapid state machine: create (1-3 contents from a small alphabet, 1-3 identical messages per tx - rarely a batch of 257-300 -, 3 creators) / block (all-module blockers) / other-module message / read with an id nobody was given (empty, one byte, odd length, not hex, shortened or lengthened real id); non-trivial = history with >=2 byte-identical records (same creator and contents); distinct by SHA-256 of the op list"

func init() { pbt.RegisterMachine("c19", newC19) }

func TestReplay(t *testing.T) { pbt.ReplayMain(t) }

func TestC19(t *testing.T) { pbt.RunMachine(t, "C19", "c19", c19Rule, newC19) }
