package c18

import (
	"context"
	"crypto/sha256"
	"encoding/binary"
	"encoding/hex"
	"fmt"
	"math/big"
	"regexp"
	"sort"
	"strings"
	"sync"
	"testing"
	"time"

	sdkmath "cosmossdk.io/math"
	sdk "github.com/cosmos/cosmos-sdk/types"
	"pgregory.net/rapid"

	randomtypes "mods.irisnet.org/modules/random/types"
	servicetypes "mods.irisnet.org/modules/service/types"
	"mods.irisnet.org/simapp"

	"verifharness/chain"
	"verifharness/gen"
	"verifharness/pbt"
)

// C18 Random: each request is fulfilled once, on time, reproducibly, within [0,1).

// ---------------------------------------------------------------------------------------------
// environment: the random service definition is installed at genesis, the request timeout is short

const c18Timeout = 3 // service MaxRequestTimeout (blocks)

var (
	c18Once sync.Once
	c18E    *chain.Env
)

func c18Env() *chain.Env {
	c18Once.Do(func() {
		c18E = chain.NewEnv(chain.Options{AllRich: true, GenesisMod: func(app *simapp.SimApp, gs simapp.GenesisState) {
			var sg servicetypes.GenesisState
			app.AppCodec().MustUnmarshalJSON(gs[servicetypes.ModuleName], &sg)
			sg.Definitions = append(sg.Definitions, servicetypes.GetRandomSvcDefinition())
			sg.Params.MaxRequestTimeout = c18Timeout
			gs[servicetypes.ModuleName] = app.AppCodec().MustMarshalJSON(&sg)
		}})
	})
	return c18E
}

// ---------------------------------------------------------------------------------------------
// independent re-implementation of the documented mixing

var c18Pow20 = new(big.Int).Exp(big.NewInt(10), big.NewInt(20), nil)

func c18Sum(b []byte) *big.Int {
	s := sha256.Sum256(b)
	return new(big.Int).SetBytes(s[:])
}

// c18Ref: seed = sha256(bytes(ts + sha256(hash)/ts + sha256(addr)/ts [+ sha256(oracleSeed)/ts])), number = seed mod 10^20
// printed with 20 fractional digits.
func c18Ref(hash []byte, ts int64, addr []byte, oracleSeed []byte, oracle bool) string {
	t := big.NewInt(ts)
	sum := new(big.Int).Set(t)
	sum.Add(sum, new(big.Int).Quo(c18Sum(hash), t))
	sum.Add(sum, new(big.Int).Quo(c18Sum(addr), t))
	if oracle {
		sum.Add(sum, new(big.Int).Quo(c18Sum(oracleSeed), t))
	}
	r := new(big.Int).Mod(c18Sum(sum.Bytes()), c18Pow20)
	digits := r.String()
	return "0." + strings.Repeat("0", 20-len(digits)) + digits
}

var c18ValueRe = regexp.MustCompile(`^0\.\d{20}$`)

func c18ReqID(height int64, consumer string) string {
	var b [8]byte
	binary.BigEndian.PutUint64(b[:], uint64(height))
	s := sha256.Sum256(append(b[:], []byte(consumer)...))
	return hex.EncodeToString(s[:])
}

// ---------------------------------------------------------------------------------------------
// history machine

type c18Op struct {
	Kind     string `json:"kind"` // bind | request | block | respond
	Who      int    `json:"who,omitempty"`
	Interval uint64 `json:"interval,omitempty"`
	Oracle   bool   `json:"oracle,omitempty"`
	Restart  bool   `json:"restart,omitempty"` // block: export and import the module between this block and the next
	SameTx   bool   `json:"same_tx,omitempty"` // request: a further message of the transaction that carried the block's previous request
	FeeCap   string `json:"fee_cap,omitempty"` // amount of stake (decimal)
	Dt       int64  `json:"dt,omitempty"`
	Hash     string `json:"hash,omitempty"` // app hash of the previous block as seen by the next block (hex)
	Meta     bool   `json:"meta,omitempty"` // also run the block on a branch with an unrelated extra request
	Target   int    `json:"target,omitempty"`
	Mode     string `json:"mode,omitempty"` // valid | badbody | error
	Seed     string `json:"seed,omitempty"` // 64 hex digits
}

const (
	c18Queued    = "queued"
	c18Done      = "done"
	c18Started   = "started"   // oracle: service context running, seed request not yet issued
	c18Requested = "requested" // oracle: seed request waiting for the provider
	c18Dead      = "dead"      // oracle: failed / timed out / never answered usefully: no number may ever appear
)

type c18Req struct {
	id, consumer, tx, ctxID string
	who                     int
	h, due                  int64
	oracle                  bool
	state                   string
	value                   string
	doneHeight              int64
	start                   int64 // oracle: height whose begin-block started the context
	svcReq                  string
	why                     string
	orphan                  bool  // fault injected: the service context was removed while the request was queued
	timeout                 int64 // oracle: the service module's maximum request timeout when the request was made
}

type c18Machine struct {
	c        *chain.Case
	reqs     []*c18Req
	bound    bool
	asked    map[int]bool // requesters that already asked in the current block
	curHash  []byte
	provider int

	nMultiDue, nMultiDueSameWho, nOracleOK, nOracleDone, nBadBody, nErrResp, nTimeout, nSkipped, nNoBinding int
	nOracleRefused, nOracleLax                                                                              int
	nZeroInterval, nLarge, nMeta, nPlainDone, nFeeRefused, nSameTx                                          int
	blockTx                                                                                                 []byte // tx bytes of the block's latest request
	nBoundaryRestart, nBoundaryRestartDue                                                                   int
	maxTimeout                                                                                              int64 // the service parameter in force (model)
	nTimeoutChanged, nTimeoutLoweredWhilePending                                                            int
	nStartFailed, nReimport, nReimportMulti                                                                 int
}

const c18Requesters = 4 // U0..U3; U4 = unrelated requester on metamorphic branches; U5 = provider

func newC18() pbt.Machine[c18Op] {
	return &c18Machine{c: c18Env().NewCase(), asked: map[int]bool{}, provider: 5, maxTimeout: c18Timeout}
}

func (m *c18Machine) addr(i int) sdk.AccAddress { return m.c.E.Users[i].Addr }

func c18Bytes(t *rapid.T, label string, n int) string {
	return hex.EncodeToString(rapid.SliceOfN(rapid.Byte(), n, n).Draw(t, label))
}

func (m *c18Machine) Next(t *rapid.T) c18Op {
	if !m.bound && rapid.IntRange(0, 9).Draw(t, "bind?") < 7 {
		return c18Op{Kind: "bind"}
	}
	var free []int
	for i := 0; i < c18Requesters; i++ {
		if !m.asked[i] {
			free = append(free, i)
		}
	}
	var waiting, oracles []int
	for i, r := range m.reqs {
		if r.state == c18Requested {
			waiting = append(waiting, i)
		}
		if r.oracle {
			oracles = append(oracles, i)
		}
	}
	var queuedOracles []int
	for i, r := range m.reqs {
		if r.oracle && r.state == c18Queued && !r.orphan && r.due-m.c.Height() <= 20 {
			queuedOracles = append(queuedOracles, i)
		}
	}
	if len(queuedOracles) > 0 && rapid.IntRange(0, 11).Draw(t, "orphan?") == 0 {
		// fault injection: the service context of a pending oracle request vanishes (a state that a genesis import
		// with a dangling request produces), so the service call cannot be started at the due block
		return c18Op{Kind: "orphan", Target: rapid.SampledFrom(queuedOracles).Draw(t, "orphan")}
	}
	if nq := len(m.reqs); nq > 0 && rapid.IntRange(0, 14).Draw(t, "reimport?") == 0 {
		// restart from the module's own exported genesis: the pending queue is what the genesis carries
		return c18Op{Kind: "reimport"}
	}
	if m.bound && rapid.IntRange(0, 1<<20).Draw(t, "svcparams")%20 == 19 {
		return c18Op{Kind: "svcparams", Interval: uint64(rapid.SampledFrom([]int{2, 3, 3, 5, 8}).Draw(t, "maxtimeout"))}
	}
	k := rapid.IntRange(0, 99).Draw(t, "kind")
	switch {
	case k < 42 && len(free) > 0:
		op := c18Op{Kind: "request", Who: rapid.SampledFrom(free).Draw(t, "who")}
		h := m.c.Height()
		// due heights of pending requests that can still be joined
		var dues []int64
		for _, r := range m.reqs {
			if r.state == c18Queued && r.due >= h && r.due-h <= 20 {
				dues = append(dues, r.due)
			}
		}
		switch s := rapid.IntRange(0, 99).Draw(t, "interval/shape"); {
		case s < 55 && len(dues) > 0:
			op.Interval = uint64(rapid.SampledFrom(dues).Draw(t, "interval/join") - h)
		case s < 85:
			op.Interval = uint64(rapid.IntRange(0, 4).Draw(t, "interval/small"))
		case s < 95:
			op.Interval = uint64(rapid.IntRange(5, 20).Draw(t, "interval/mid"))
		default:
			op.Interval = rapid.SampledFrom([]uint64{1 << 62, 1<<62 - 1, 1 << 40, 1 << 32, 1000}).Draw(t, "interval/large")
		}
		op.SameTx = rapid.IntRange(0, 2).Draw(t, "sametx") == 0
		if rapid.IntRange(0, 99).Draw(t, "oracle?") < 38 {
			op.Oracle = true
			op.FeeCap = rapid.SampledFrom([]string{"10", "10", "10", "10", "10", "2", "2", "1", "1", "1", "1", "3213876088517980551083924184682325205044405987565585670602752"}).Draw(t, "feecap")
			if op.Interval > 3 && rapid.IntRange(0, 3).Draw(t, "oracle/soon") > 0 {
				op.Interval = uint64(rapid.IntRange(0, 2).Draw(t, "oracle/interval"))
			}
		}
		return op
	case k < 58 && len(oracles) > 0:
		op := c18Op{Kind: "respond", Seed: c18Bytes(t, "seed", 32)}
		if len(waiting) > 0 && rapid.IntRange(0, 9).Draw(t, "respond/live") < 9 {
			op.Target = rapid.SampledFrom(waiting).Draw(t, "target")
		} else {
			op.Target = rapid.SampledFrom(oracles).Draw(t, "anytarget")
		}
		op.Mode = rapid.SampledFrom([]string{"valid", "valid", "valid", "badbody", "error"}).Draw(t, "mode")
		if rapid.Bool().Draw(t, "seed/upper") {
			op.Seed = strings.ToUpper(op.Seed)
		}
		return op
	default:
		n := 32
		if rapid.IntRange(0, 19).Draw(t, "hash/odd") == 0 {
			n = rapid.SampledFrom([]int{1, 20, 64}).Draw(t, "hash/len")
		}
		return c18Op{Kind: "block", Dt: gen.DtFar(t, "dt", m.c.Time()), Hash: c18Bytes(t, "hash", n), Meta: rapid.IntRange(0, 4).Draw(t, "meta") == 0,
			Restart: rapid.IntRange(0, 7).Draw(t, "restart") == 0}
	}
}

func (m *c18Machine) Apply(op c18Op) error {
	switch op.Kind {
	case "bind":
		return m.applyBind()
	case "request":
		return m.applyRequest(op)
	case "block":
		return m.applyBlock(op)
	case "respond":
		return m.applyRespond(op)
	case "orphan":
		return m.applyOrphan(op)
	case "reimport":
		return m.applyReimport()
	}
	if op.Kind == "svcparams" {
		// the authority changes the service module's maximum request timeout: requests already made keep the value
		// that was in force when they were made
		if op.Interval < 1 || op.Interval > 100 {
			return fmt.Errorf("bad replay op %+v", op)
		}
		ps := m.c.E.K.Service.GetParams(m.c.Ctx)
		ps.MaxRequestTimeout = int64(op.Interval)
		if r := m.c.Deliver(&servicetypes.MsgUpdateParams{Authority: m.c.E.Gov.String(), Params: ps}); r.Outcome != chain.OK {
			return pbt.Failf("harness/svcparams", "valid service parameter change refused: %v", r)
		}
		if int64(op.Interval) < m.maxTimeout {
			for _, r := range m.reqs {
				if r.oracle && r.state == c18Queued && !r.orphan {
					m.nTimeoutLoweredWhilePending++
					break
				}
			}
		}
		m.maxTimeout = int64(op.Interval)
		m.nTimeoutChanged++
		return m.check()
	}
	return fmt.Errorf("unknown op kind %q", op.Kind)
}

func (m *c18Machine) applyBind() error {
	if m.bound {
		return nil
	}
	p := m.addr(m.provider).String()
	res := m.c.Deliver(&servicetypes.MsgBindService{ServiceName: randomtypes.ServiceName, Provider: p, Owner: p,
		Deposit: sdk.NewCoins(sdk.NewCoin("stake", sdkmath.NewInt(1_000_000))), Pricing: `{"price":"2stake"}`, QoS: 1, Options: "{}"})
	if res.Outcome != chain.OK {
		return fmt.Errorf("harness: binding the random service failed: %v", res)
	}
	m.bound = true
	return m.check()
}

func (m *c18Machine) applyRequest(op c18Op) error {
	if op.Who < 0 || op.Who >= c18Requesters || op.Interval > 1<<62 {
		return fmt.Errorf("bad replay op %+v", op)
	}
	if m.asked[op.Who] {
		return nil // a second request of one requester in one block is outside the id scheme (quantifier)
	}
	consumer := m.addr(op.Who)
	msg := &randomtypes.MsgRequestRandom{BlockInterval: op.Interval, Consumer: consumer.String(), Oracle: op.Oracle}
	accept, noBinding := true, false
	if op.Oracle {
		capAmt, ok := sdkmath.NewIntFromString(op.FeeCap)
		if !ok || !capAmt.IsPositive() {
			return fmt.Errorf("bad replay op %+v", op)
		}
		msg.ServiceFeeCap = sdk.NewCoins(sdk.NewCoin("stake", capAmt))
		switch {
		case !m.bound:
			accept, noBinding = false, true
		case capAmt.BigInt().Cmp(m.c.Balance(consumer, "stake").BigInt()) > 0:
			accept = false
		}
	}
	h := m.c.Height()
	// requests of several consumers may travel in one transaction (several signers): they share its hash
	if !op.SameTx || m.blockTx == nil {
		m.blockTx = m.c.NewTxBytes()
	} else {
		m.nSameTx++
	}
	res := m.c.DeliverTx(m.blockTx, msg)[0]
	if res.Outcome == chain.Panicked || res.Outcome == chain.Overflow {
		return pbt.Failf("C18/request-panic", "request %+v panicked: %v", op, res.Panic)
	}
	// The preconditions of an oracle request (a bound provider, a fee cap within the balance) belong to the service
	// module, the property does not state them: the model predicts them (classes), but follows the code if it decides
	// otherwise. A plain request has no precondition.
	if res.Outcome != chain.OK {
		if !op.Oracle {
			return pbt.Failf("C18/request-refused", "plain request %+v refused: %v", op, res)
		}
		switch {
		case accept:
			m.nOracleRefused++
		case noBinding:
			m.nNoBinding++
		default:
			m.nFeeRefused++
		}
		return m.check()
	}
	if !accept {
		m.nOracleLax++
	}
	m.asked[op.Who] = true
	r := &c18Req{id: c18ReqID(h, consumer.String()), consumer: consumer.String(), who: op.Who, h: h, due: h + int64(op.Interval),
		oracle: op.Oracle, state: c18Queued, tx: strings.ToLower(res.TxHash), timeout: m.maxTimeout}
	if ids := chain.EventAttrs(res.Events, "request_random", "request_id"); len(ids) != 1 || !strings.EqualFold(ids[0], r.id) {
		return pbt.Failf("C18/request-id", "request id in event %v, documented scheme gives %s", ids, r.id)
	}
	if gh := chain.EventAttrs(res.Events, "request_random", "generate_height"); len(gh) != 1 || gh[0] != fmt.Sprint(r.due) {
		return pbt.Failf("C18/generate-height", "generate_height %v, want %d", gh, r.due)
	}
	if op.Oracle {
		// learn the service context id from the queue entry
		q, err := m.c.E.K.Random.RandomRequestQueue(context.Context(m.c.Ctx), &randomtypes.QueryRandomRequestQueueRequest{Height: r.due})
		if err != nil {
			return pbt.Failf("C18/queue-query", "%v", err)
		}
		for _, e := range q.Requests {
			if e.Consumer == r.consumer && e.Height == r.h {
				r.ctxID = e.ServiceContextID
			}
		}
		if len(r.ctxID) == 0 {
			return pbt.Failf("C18/not-queued", "oracle request %s not in the queue of height %d", r.id, r.due)
		}
		m.nOracleOK++
	}
	if op.Interval == 0 {
		m.nZeroInterval++
	}
	if op.Interval >= 1000 {
		m.nLarge++
	}
	m.reqs = append(m.reqs, r)
	return m.check()
}

func (m *c18Machine) svcReqID(r *c18Req) (string, error) {
	ctxID, err := hex.DecodeString(r.ctxID)
	if err != nil {
		return "", err
	}
	return servicetypes.GenerateRequestID(ctxID, 1, r.start, 0).String(), nil
}

func (m *c18Machine) applyBlock(op c18Op) error {
	hash, err := hex.DecodeString(op.Hash)
	if err != nil || len(hash) == 0 || op.Dt <= 0 {
		return fmt.Errorf("bad replay op %+v", op)
	}
	H := m.c.Height()
	var due []*c18Req
	perWho := map[int]int{}
	for _, r := range m.reqs {
		if r.state == c18Queued && r.due == H {
			due = append(due, r)
			perWho[r.who]++
		}
	}

	// metamorphic branch: an unrelated request (other requester, other tx bytes) joins the block; the numbers of the
	// requests due now must be the same on both branches
	var branch *chain.Case
	if op.Meta && len(due) > 0 {
		branch = m.c.Branch()
		extra := branch.Deliver(&randomtypes.MsgRequestRandom{BlockInterval: 0, Consumer: m.addr(4).String()})
		if extra.Outcome != chain.OK {
			return pbt.Failf("C18/request-refused", "plain request on the branch refused: %v", extra)
		}
		if e, b := branch.NextBlock(time.Duration(op.Dt), hash); e.Outcome != chain.OK || b.Outcome != chain.OK {
			return pbt.Failf("C18/block-hook", "branch block hooks failed: end=%v begin=%v", e, b)
		}
		m.nMeta++
	}

	end := m.c.EndBlock()
	m.c.Advance(time.Duration(op.Dt), hash)
	if op.Restart {
		// the chain is restarted from its exported genesis between the two blocks, as an export-based upgrade does it:
		// the import runs at the new chain's initial height, the requests due in the block just ended are still queued
		if _, stage, err := m.c.Reimport("random", randomtypes.RandomRequestQueueKey); err != nil {
			return pbt.Failf("C18/reimport-"+stage, "random genesis round trip at the boundary to height %d: %v", m.c.Height(), err)
		}
		m.nBoundaryRestart++
		if len(due) > 0 {
			m.nBoundaryRestartDue++
		}
	}
	begin := m.c.BeginBlock()
	if end.Outcome != chain.OK || begin.Outcome != chain.OK {
		return pbt.Failf("C18/block-hook", "block hooks failed: end=%v begin=%v", end, begin)
	}
	m.curHash = hash
	m.asked = map[int]bool{}
	m.blockTx = nil
	ts := m.c.Time().Unix()
	if ts <= 0 {
		return fmt.Errorf("harness: non-positive block time")
	}

	// end-block of H (service module): seed requests are issued for contexts started in begin-block H, batches that
	// were started at H-timeout expire
	for _, r := range m.reqs {
		switch {
		case r.state == c18Started && r.start == H:
			id, err := m.svcReqID(r)
			if err != nil {
				return fmt.Errorf("harness: %v", err)
			}
			idb, _ := hex.DecodeString(id)
			if _, found := m.c.E.K.Service.GetRequest(m.c.Ctx, idb); found && m.c.E.K.Service.IsRequestActive(m.c.Ctx, idb) {
				r.state, r.svcReq = c18Requested, id
			} else {
				r.state, r.why = c18Dead, "no provider within the fee cap"
				m.nSkipped++
			}
		case r.state == c18Requested && r.start+r.timeout == H:
			r.state, r.why = c18Dead, "timed out"
			m.nTimeout++
		}
	}

	// begin-block of H+1 (random module): the queue of H is drained
	wantGen := map[string]int{}
	wantSvc := map[string]int{}
	for _, r := range due {
		if r.oracle && r.orphan {
			// the service call cannot be started: the request leaves the queue and never yields a number
			r.state, r.why = c18Dead, "service call could not be started"
			m.nStartFailed++
		} else if r.oracle {
			r.state, r.start = c18Started, H+1
			wantSvc[r.id]++
		} else {
			r.state, r.doneHeight = c18Done, H
			r.value = c18Ref(hash, ts, m.addr(r.who), nil, false)
			wantGen[r.id]++
			m.nPlainDone++
		}
	}
	if err := c18SameIDs(chain.EventAttrs(begin.Events, "generate_random", "request_id"), wantGen); err != nil {
		return pbt.Failf("C18/fulfilment-events", "begin-block of %d generate_random: %v", H+1, err)
	}
	if err := c18SameIDs(chain.EventAttrs(begin.Events, "request_service", "request_id"), wantSvc); err != nil {
		return pbt.Failf("C18/oracle-start-events", "begin-block of %d request_service: %v", H+1, err)
	}
	if len(due) >= 2 {
		m.nMultiDue++
		for _, n := range perWho {
			if n >= 2 {
				m.nMultiDueSameWho++
				break
			}
		}
	}
	if branch != nil {
		for _, r := range due {
			a, errA := m.c.E.K.Random.Random(context.Context(m.c.Ctx), &randomtypes.QueryRandomRequest{ReqId: r.id})
			b, errB := m.c.E.K.Random.Random(context.Context(branch.Ctx), &randomtypes.QueryRandomRequest{ReqId: r.id})
			if (errA == nil) != (errB == nil) || (errA == nil && *a.Random != *b.Random) {
				return pbt.Failf("C18/depends-on-unrelated-input", "request %s: %v / %v on the main history, %v / %v with an unrelated extra request", r.id, a, errA, b, errB)
			}
		}
	}
	return m.check()
}

func c18SameIDs(got []string, want map[string]int) error {
	g := map[string]int{}
	for _, id := range got {
		g[strings.ToLower(id)]++
	}
	if len(g) != len(want) {
		return fmt.Errorf("events for %v, expected %v", g, want)
	}
	for id, n := range want {
		if g[id] != n {
			return fmt.Errorf("events for %v, expected %v", g, want)
		}
	}
	return nil
}

// applyReimport exports the random genesis (the pending queue), wipes the queue and imports it again: every
// pending request must still be there, and the history goes on as if nothing had happened.
func (m *c18Machine) applyReimport() error {
	nq := 0
	multi := map[int64]int{}
	for _, r := range m.reqs {
		if r.state == c18Queued {
			nq++
			multi[r.due]++
		}
	}
	if _, stage, err := m.c.Reimport("random", randomtypes.RandomRequestQueueKey); err != nil {
		return pbt.Failf("C18/reimport-"+stage, "random genesis round trip with %d pending requests: %v", nq, err)
	}
	m.nReimport++
	for _, n := range multi {
		if n >= 2 {
			m.nReimportMulti++
			break
		}
	}
	return m.check()
}

func (m *c18Machine) applyOrphan(op c18Op) error {
	if op.Target < 0 || op.Target >= len(m.reqs) {
		return nil
	}
	r := m.reqs[op.Target]
	if !r.oracle || r.state != c18Queued || r.orphan {
		return nil
	}
	ctxID, err := hex.DecodeString(r.ctxID)
	if err != nil {
		return fmt.Errorf("harness: %v", err)
	}
	if !m.c.RawDelete("service", servicetypes.GetRequestContextKey(ctxID)) {
		return fmt.Errorf("harness: request context %s of oracle request %s not in the service store", r.ctxID, r.id)
	}
	r.orphan = true
	return m.check()
}

func (m *c18Machine) applyRespond(op c18Op) error {
	if op.Target < 0 || op.Target >= len(m.reqs) || !m.reqs[op.Target].oracle {
		return nil
	}
	seed, err := hex.DecodeString(op.Seed)
	if err != nil || len(seed) != 32 {
		return fmt.Errorf("bad replay op %+v", op)
	}
	r := m.reqs[op.Target]
	if r.svcReq == "" {
		return nil // nothing to answer (not requested yet, skipped)
	}
	msg := &servicetypes.MsgRespondService{RequestId: r.svcReq, Provider: m.addr(m.provider).String()}
	switch op.Mode {
	case "valid":
		msg.Result, msg.Output = `{"code":200,"message":""}`, fmt.Sprintf(`{"header":{},"body":{"seed":"%s"}}`, op.Seed)
	case "badbody":
		msg.Result, msg.Output = `{"code":200,"message":""}`, `{"header":{},"body":{"seed":"zz","extra":1}}`
	case "error":
		msg.Result = `{"code":500,"message":"no entropy"}`
	default:
		return fmt.Errorf("bad replay op %+v", op)
	}
	res := m.c.Deliver(msg)
	if res.Outcome == chain.Panicked || res.Outcome == chain.Overflow {
		return pbt.Failf("C18/response-panic", "response %+v panicked: %v", op, res.Panic)
	}
	genEv := chain.EventAttrs(res.Events, "generate_random", "request_id")
	if r.state != c18Requested {
		// late / duplicate answer: the service module refuses it; whatever happens, the full comparison below
		// shows that nothing changed on the random side
		if res.Outcome == chain.OK && len(genEv) > 0 {
			return pbt.Failf("C18/fulfilled-twice", "answer to %s request %s produced a number", r.state, r.id)
		}
		return m.check()
	}
	if res.Outcome != chain.OK {
		return fmt.Errorf("harness: response to live seed request refused: %v", res)
	}
	switch op.Mode {
	case "valid":
		r.state, r.doneHeight = c18Done, m.c.Height()-1
		r.value = c18Ref(m.curHash, m.c.Time().Unix(), m.addr(r.who), seed, true)
		m.nOracleDone++
		if len(genEv) != 1 || !strings.EqualFold(genEv[0], r.id) {
			return pbt.Failf("C18/fulfilment-events", "valid seed response for %s: generate_random events %v", r.id, genEv)
		}
	case "badbody":
		r.state, r.why = c18Dead, "response body does not match the schema"
		m.nBadBody++
	case "error":
		r.state, r.why = c18Dead, "provider reported an error"
		m.nErrResp++
	}
	if op.Mode != "valid" && len(genEv) > 0 {
		return pbt.Failf("C18/number-from-failed-oracle-call", "%s response for %s produced a number", op.Mode, r.id)
	}
	return m.check()
}

// check compares the queue and every request's result with the model.
func (m *c18Machine) check() error {
	k := m.c.E.K.Random
	ctx := context.Context(m.c.Ctx)
	key := func(h int64, consumer, tx string, oracle bool) string {
		return fmt.Sprintf("%d|%s|%s|%v", h, consumer, strings.ToLower(tx), oracle)
	}
	wantAll := map[string]int{}
	byDue := map[int64]map[string]int{}
	nDone := 0
	for _, r := range m.reqs {
		if r.state == c18Queued {
			kk := key(r.h, r.consumer, r.tx, r.oracle)
			wantAll[kk]++
			if byDue[r.due] == nil {
				byDue[r.due] = map[string]int{}
			}
			byDue[r.due][kk]++
		}
		res, err := k.Random(ctx, &randomtypes.QueryRandomRequest{ReqId: r.id})
		if r.state == c18Done {
			nDone++
			if err != nil {
				return pbt.Failf("C18/not-fulfilled", "request %s (made at %d, due %d, oracle=%v) has no number at height %d: %v", r.id, r.h, r.due, r.oracle, m.c.Height(), err)
			}
			g := res.Random
			if !c18ValueRe.MatchString(g.Value) {
				return pbt.Failf("C18/format", "request %s: value %q is not 0.<20 digits>", r.id, g.Value)
			}
			if g.Value != r.value {
				return pbt.Failf("C18/value", "request %s: value %s, documented mixing gives %s", r.id, g.Value, r.value)
			}
			if g.Height != r.doneHeight || !strings.EqualFold(g.RequestTxHash, r.tx) {
				return pbt.Failf("C18/result-record", "request %s: stored (tx %s, height %d), want (tx %s, height %d)", r.id, g.RequestTxHash, g.Height, r.tx, r.doneHeight)
			}
			continue
		}
		if err == nil {
			sig := "C18/fulfilled-early"
			if r.state == c18Dead {
				sig = "C18/number-from-failed-oracle-call"
			}
			return pbt.Failf(sig, "request %s (made at %d, due %d, oracle=%v, state %s %s) has number %s at height %d", r.id, r.h, r.due, r.oracle, r.state, r.why, res.Random.Value, m.c.Height())
		}
	}
	cmp := func(height int64, want map[string]int) error {
		q, err := k.RandomRequestQueue(ctx, &randomtypes.QueryRandomRequestQueueRequest{Height: height})
		if err != nil {
			return pbt.Failf("C18/queue-query", "%v", err)
		}
		got := map[string]int{}
		for _, e := range q.Requests {
			got[key(e.Height, e.Consumer, e.TxHash, e.Oracle)]++
		}
		ok := len(got) == len(want)
		for kk, n := range want {
			ok = ok && got[kk] == n
		}
		if !ok {
			return pbt.Failf("C18/queue", "pending queue (height filter %d) at height %d = %v, model %v", height, m.c.Height(), c18Keys(got), c18Keys(want))
		}
		return nil
	}
	if err := cmp(0, wantAll); err != nil {
		return err
	}
	for due, want := range byDue {
		if due == 0 {
			continue
		}
		if err := cmp(due, want); err != nil {
			return err
		}
	}
	// the height being drained next must hold exactly the model's entries (also when the model has none)
	if _, ok := byDue[m.c.Height()]; !ok {
		if err := cmp(m.c.Height(), map[string]int{}); err != nil {
			return err
		}
	}
	n := 0
	k.IterateRandoms(m.c.Ctx, func(randomtypes.Random) bool { n++; return false })
	if n != nDone {
		return pbt.Failf("C18/phantom-number", "%d numbers stored, %d requests fulfilled in the model", n, nDone)
	}
	return nil
}

func c18Keys(m map[string]int) []string {
	var out []string
	for k, n := range m {
		out = append(out, fmt.Sprintf("%s x%d", k, n))
	}
	sort.Strings(out)
	return out
}

func (m *c18Machine) Finish() error { return nil }

func (m *c18Machine) Classify() (bool, []string) {
	var cl []string
	add := func(c bool, name string) {
		if c {
			cl = append(cl, name)
		}
	}
	add(m.nMultiDue > 0, ">=2-due-at-one-height")
	add(m.nMultiDueSameWho > 0, ">=2-due-at-one-height-same-requester")
	add(m.nOracleOK > 0, "oracle-request")
	add(m.nOracleDone > 0, "oracle-fulfilled")
	add(m.nBadBody > 0, "oracle-invalid-body")
	add(m.nErrResp > 0, "oracle-error-response")
	add(m.nTimeout > 0, "oracle-timeout")
	add(m.nStartFailed > 0, "oracle-start-failed")
	add(m.nReimport > 0, "genesis-round-trip")
	add(m.nReimportMulti > 0, "genesis-round-trip-with->=2-pending-at-one-height")
	add(m.nSkipped > 0, "oracle-fee-cap-below-price")
	add(m.nNoBinding > 0, "oracle-without-binding-refused")
	add(m.nFeeRefused > 0, "oracle-fee-cap-above-balance-refused")
	add(m.nOracleRefused > 0, "oracle-request-unexpectedly-refused")
	add(m.nOracleLax > 0, "oracle-request-unexpectedly-accepted")
	add(m.nZeroInterval > 0, "interval-0")
	add(m.nLarge > 0, "large-interval-stays-queued")
	add(m.nSameTx > 0, "requests-of-several-consumers-in-one-tx")
	add(m.nBoundaryRestart > 0, "restart-at-a-block-boundary")
	add(m.nTimeoutChanged > 0, "service-max-timeout-changed")
	add(m.nTimeoutLoweredWhilePending > 0, "service-max-timeout-lowered-while-an-oracle-request-is-queued")
	add(m.nBoundaryRestartDue > 0, "restart-at-a-block-boundary-with-requests-due")
	add(m.c.Time().Year() > 2262 && m.nPlainDone > 0, "block-time-beyond-2262")
	add(m.nMeta > 0, "metamorphic-branch")
	add(m.nPlainDone >= 3, "plain-fulfilled>=3")
	return m.nMultiDue > 0 && m.nOracleOK > 0, cl
}

const c18Rule = "rapid state machine: bind provider / request (4 requesters, at most one per requester per block; interval joining a pending due height, 0..20, or large up to 2^62; plain or oracle with fee cap above/below the price or above the balance) / block (generated app hash and time step; optionally also on a branch with an unrelated extra request) / provider response (valid seed, schema-violating body, error result, or none until the timeout of 3 blocks) / genesis round trip of the pending queue (export, wipe, import) / fault injection: the service context of a queued oracle request removed from the store, so the service call cannot start at the due block; non-trivial = history with >=2 requests due at one height and >=1 accepted oracle request; distinct by SHA-256 of the op list"

func init() { pbt.RegisterMachine("c18", newC18) }

func TestReplay(t *testing.T) { pbt.ReplayMain(t) }

func TestC18(t *testing.T) { pbt.RunMachine(t, "C18", "c18", c18Rule, newC18) }
