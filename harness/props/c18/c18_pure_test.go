package c18

import (
	"encoding/hex"
	"fmt"
	"math"
	"math/big"
	"testing"

	"pgregory.net/rapid"

	randomtypes "mods.irisnet.org/modules/random/types"

	"verifharness/pbt"
)

// The PRNG as a pure function of (block hash, block timestamp, requester, oracle seed) against the independent
// re-implementation c18Ref.

type c18PureIn struct {
	Hash   string `json:"hash"` // hex
	Ts     int64  `json:"ts"`   // positive Unix seconds
	Addr   string `json:"addr"` // hex
	Seed   string `json:"seed"` // hex
	Oracle bool   `json:"oracle"`
}

func c18PureGen(t *rapid.T) c18PureIn {
	in := c18PureIn{Oracle: rapid.Bool().Draw(t, "oracle")}
	hl := rapid.SampledFrom([]int{32, 32, 32, 32, 0, 1, 20, 64}).Draw(t, "hash/len")
	in.Hash = c18Bytes(t, "hash", hl)
	al := rapid.SampledFrom([]int{20, 20, 20, 20, 32, 0, 1}).Draw(t, "addr/len")
	in.Addr = c18Bytes(t, "addr", al)
	sl := rapid.SampledFrom([]int{32, 32, 32, 0, 5}).Draw(t, "seed/len")
	in.Seed = c18Bytes(t, "seed", sl)
	switch s := rapid.IntRange(0, 99).Draw(t, "ts/shape"); {
	case s < 55:
		in.Ts = rapid.Int64Range(1_000_000_000, 4_000_000_000).Draw(t, "ts/real")
	case s < 70:
		in.Ts = rapid.Int64Range(1, 1000).Draw(t, "ts/small")
	case s < 80:
		in.Ts = rapid.SampledFrom([]int64{1, 2, 1 << 31, 1<<31 - 1, 1 << 32, 1 << 62, math.MaxInt64, math.MaxInt64 - 1, 253402300799}).Draw(t, "ts/boundary")
	default:
		in.Ts = rapid.Int64Range(1, math.MaxInt64).Draw(t, "ts/any")
	}
	return in
}

func c18PureCheck(in c18PureIn) (error, bool, []string) {
	hash, e1 := hex.DecodeString(in.Hash)
	addr, e2 := hex.DecodeString(in.Addr)
	seed, e3 := hex.DecodeString(in.Seed)
	if e1 != nil || e2 != nil || e3 != nil || in.Ts <= 0 {
		return fmt.Errorf("bad replay input %+v", in), false, nil
	}
	rat := randomtypes.MakePRNG(hash, in.Ts, addr, seed, in.Oracle).GetRand()
	got := rat.FloatString(randomtypes.RandPrec)
	want := c18Ref(hash, in.Ts, addr, seed, in.Oracle)
	if rat.Sign() < 0 || rat.Cmp(big.NewRat(1, 1)) >= 0 {
		return pbt.Failf("C18/pure-range", "%+v -> %s outside [0,1)", in, rat), false, nil
	}
	if !c18ValueRe.MatchString(got) {
		return pbt.Failf("C18/pure-format", "%+v -> %q is not 0.<20 digits>", in, got), false, nil
	}
	if got != want {
		return pbt.Failf("C18/pure-value", "%+v -> %s, documented mixing gives %s", in, got, want), false, nil
	}
	// exactness: 20 digits lose nothing (the number is k/10^20)
	back, _ := new(big.Rat).SetString(got)
	if back == nil || back.Cmp(rat) != 0 {
		return pbt.Failf("C18/pure-precision", "%+v -> %s printed as %s", in, rat, got), false, nil
	}
	// reproducible, and without the oracle flag the seed is not an input
	again := randomtypes.MakePRNG(append([]byte{}, hash...), in.Ts, append([]byte{}, addr...), nil, in.Oracle).GetRand().FloatString(randomtypes.RandPrec)
	if !in.Oracle && again != got {
		return pbt.Failf("C18/pure-depends-on-unused-seed", "%+v: %s with the seed, %s without", in, got, again), false, nil
	}
	var cl []string
	if in.Oracle {
		cl = append(cl, "oracle-seeded")
		if len(seed) == 32 && again == got {
			return pbt.Failf("C18/pure-seed-ignored", "%+v: oracle seed does not influence the number %s", in, got), false, nil
		}
	} else {
		cl = append(cl, "plain")
	}
	if got[2] == '0' {
		cl = append(cl, "leading-zero-digit")
	}
	if in.Ts < 1000 {
		cl = append(cl, "tiny-timestamp")
	}
	if in.Ts > 1<<40 {
		cl = append(cl, "huge-timestamp")
	}
	realistic := len(hash) == 32 && len(addr) == 20 && in.Ts >= 1_000_000_000 && in.Ts <= 4_000_000_000 && (!in.Oracle || len(seed) == 32)
	if realistic {
		cl = append(cl, "realistic")
	}
	return nil, realistic, cl
}

const c18PureRule = "pure function MakePRNG(hash, ts, addr, seed, oracle).GetRand() against an independent re-implementation; hash 0/1/20/32/64 bytes, address 0/1/20/32 bytes, seed 0/5/32 bytes, positive timestamps (realistic, tiny, boundary, any up to MaxInt64); non-trivial = realistic input (32-byte hash, 20-byte address, Unix time 10^9..4*10^9, 32-byte seed when oracle); distinct by SHA-256 of the input"

func init() { pbt.RegisterPure("c18pure", c18PureCheck) }

func TestC18Pure(t *testing.T) {
	pbt.RunPure(t, "C18", "c18pure", c18PureRule, c18PureGen, c18PureCheck)
}
