package c18

import (
	"testing"

	"pgregory.net/rapid"
)

// FuzzC18PRNG drives the pure PRNG check with the native coverage-guided fuzzer (thorough tier only).
func FuzzC18PRNG(f *testing.F) {
	f.Fuzz(rapid.MakeFuzz(func(t *rapid.T) {
		in := c18PureGen(t)
		if err, _, _ := c18PureCheck(in); err != nil {
			t.Fatalf("%v (%+v)", err, in)
		}
	}))
}
