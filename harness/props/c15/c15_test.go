package c15

import (
	"bytes"
	"context"
	"encoding/json"
	"fmt"
	"math/big"
	"os"
	"strings"
	"testing"

	"github.com/cosmos/cosmos-sdk/codec"
	sdk "github.com/cosmos/cosmos-sdk/types"
	"github.com/cosmos/cosmos-sdk/types/query"
	"pgregory.net/rapid"

	mtkeeper "mods.irisnet.org/modules/mt/keeper"
	mttypes "mods.irisnet.org/modules/mt/types"

	"verifharness/chain"
	"verifharness/gen"
	"verifharness/pbt"
)

// C15 MT: balances always add up to supply; only the class owner mints.
//
// Reference ledger in math/big (a wrap of an unsigned 64-bit counter is visible as a disagreement). The model
// predicts the acceptance of every message exactly; after every message every query answer, the exported
// balances of *all* holders and the supply counters are compared with the ledger.

const c15Sentinel = "[do-not-modify]"

var c15Max = new(big.Int).SetUint64(^uint64(0))

type c15Op struct {
	Kind   string `json:"kind"` // issue | mint | edit | transfer | burn | xferdenom | reimport
	Who    int    `json:"who"`
	To     int    `json:"to,omitempty"`     // recipient; -1 = empty recipient field (mint: defaults to the sender)
	Denom  int    `json:"denom"`            // index into the classes issued so far; out of range = an id that was never generated
	MT     int    `json:"mt"`               // index into all tokens created so far (any class); -1 = "create a new token" (mint) / unknown id
	Amount uint64 `json:"amount,omitempty"` // full unsigned 64-bit range
	Name   string `json:"name,omitempty"`
	Data   string `json:"data,omitempty"`
	// Pad (mint only): optional fields are given as white space instead of left empty (id "  " = generate an id,
	// recipient "  " = the sender) and a given token id is surrounded by blanks (the handler trims it)
	Pad bool `json:"pad,omitempty"`
}

type c15Denom struct {
	id, owner, name string
	data            []byte
	mts             map[string]*c15MT
	handed          bool
}

type c15MT struct {
	denom, id string
	data      []byte
	supply    *big.Int
	bal       map[string]*big.Int // holder address -> amount (absent = 0)
}

type c15Machine struct {
	c      *chain.Case
	denoms []*c15Denom
	byID   map[string]*c15Denom
	mts    []*c15MT
	allIDs map[string]bool

	nOverflow, nUnderflow, nSelf, nStranger, nMintExisting, nBurnAll, nHandoverMint, nAccepted, nMaxSupply, nLax, nInvalidRefused int

	// genesis round trips (restart of the module from its own export)
	nReimport, nReimportMulti, nReimportZeroSupply, nReimportZeroBalance, nReimportMaxSupply, nReimportHanded int
	nBurst, nReimportAfterBurst                                                                               int
	quiet                                                                                                     bool // inside a burst
	nReimportEmptyClass                                                                                       int
	sinceReimport                                                                                             int // accepted messages since the last round trip (-1 = no round trip yet)
	multiAtReimport                                                                                           bool
	nMintNewAfterReimport, nMintNewAfterMultiReimport, nIssueAfterReimport, nMintExistingAfterReimport        int
	nSpendAfterReimport                                                                                       int
	// optional fields and actors
	cnt map[string]int
}

const c15Users = 4

func newC15() pbt.Machine[c15Op] {
	return &c15Machine{c: gen.Env().NewCase(), byID: map[string]*c15Denom{}, allIDs: map[string]bool{}, cnt: map[string]int{}, sinceReimport: -1}
}

func (m *c15Machine) addr(i int) string { return m.c.E.Users[i].Addr.String() }

func (m *c15Machine) userOf(a string) int {
	for i := range m.c.E.Users {
		if m.addr(i) == a {
			return i
		}
	}
	return 0
}

func (m *c15Machine) denomAt(i int) (*c15Denom, string) {
	if i >= 0 && i < len(m.denoms) {
		return m.denoms[i], m.denoms[i].id
	}
	return nil, fmt.Sprintf("%064x", 0xdead0000+i) // well-formed but never generated
}

func (m *c15Machine) mtAt(i int) (*c15MT, string) {
	if i >= 0 && i < len(m.mts) {
		return m.mts[i], m.mts[i].id
	}
	return nil, fmt.Sprintf("%064x", 0xbeef0000+i)
}

func c15Bal(t *c15MT, a string) *big.Int {
	if t == nil {
		return new(big.Int)
	}
	if b, ok := t.bal[a]; ok {
		return b
	}
	return new(big.Int)
}

// ---------------------------------------------------------------------------------------------
// generator

// amount draws a uint64 by shape around the live quantities held/supply; spend = the amount leaves an
// account (transfer, burn), otherwise it is minted.
func c15Amount(t *rapid.T, held, supply *big.Int, spend bool) uint64 {
	room := new(big.Int).Sub(c15Max, supply) // largest mint that fits
	pick := func(b *big.Int, off int64) uint64 {
		v := new(big.Int).Add(b, big.NewInt(off))
		if v.Sign() < 0 {
			return 0
		}
		if v.Cmp(c15Max) > 0 {
			return ^uint64(0)
		}
		return v.Uint64()
	}
	s := rapid.IntRange(0, 99).Draw(t, "amt/shape")
	switch {
	case s < 25:
		return uint64(rapid.IntRange(1, 20).Draw(t, "amt/tiny"))
	case s < 32:
		return rapid.Uint64Range(21, 1_000_000).Draw(t, "amt/medium")
	case s < 42:
		return gen.Bits(t, "amt/large", uint(rapid.IntRange(21, 64).Draw(t, "amt/bits"))).Uint64()
	case s < 50:
		return rapid.SampledFrom([]uint64{^uint64(0), ^uint64(0) - 1, 1 << 63, 1<<63 - 1, 1<<63 + 1, 1 << 32, 0}).Draw(t, "amt/boundary")
	}
	// relative to a live quantity
	off := int64(rapid.SampledFrom([]int{0, 0, 0, -1, 1}).Draw(t, "amt/off"))
	if spend {
		switch {
		case s < 80:
			return pick(held, off)
		case s < 90:
			return pick(new(big.Int).Rsh(held, 1), 0)
		default:
			return pick(supply, off)
		}
	}
	switch {
	case s < 85:
		return pick(room, off)
	case s < 92:
		return pick(new(big.Int).Rsh(room, 1), 0)
	default:
		return pick(supply, off)
	}
}

func (m *c15Machine) drawDenom(t *rapid.T) int {
	if len(m.denoms) == 0 || rapid.IntRange(0, 24).Draw(t, "denom/odd") == 0 {
		return len(m.denoms) + rapid.IntRange(0, 1).Draw(t, "denom/unknown")
	}
	return rapid.IntRange(0, len(m.denoms)-1).Draw(t, "denom")
}

// drawMT picks a token index, mostly one of the given class.
func (m *c15Machine) drawMT(t *rapid.T, d *c15Denom) int {
	var in []int
	for i, x := range m.mts {
		if d != nil && x.denom == d.id {
			in = append(in, i)
		}
	}
	r := rapid.IntRange(0, 24).Draw(t, "mt/pick")
	switch {
	case r == 0:
		return len(m.mts) + 3
	case (r == 1 || len(in) == 0) && len(m.mts) > 0:
		return rapid.IntRange(0, len(m.mts)-1).Draw(t, "mt/any")
	case len(in) == 0:
		return len(m.mts) + 3
	default:
		return rapid.SampledFrom(in).Draw(t, "mt")
	}
}

func (m *c15Machine) drawWho(t *rapid.T, rightful string) int {
	if rightful != "" && rapid.IntRange(0, 3).Draw(t, "rightful") > 0 {
		return m.userOf(rightful)
	}
	return rapid.IntRange(0, c15Users-1).Draw(t, "who")
}

// holderOf returns a user index that holds some of the token (or any user).
func (m *c15Machine) drawHolder(t *rapid.T, tk *c15MT) int {
	var hs []int
	if tk != nil {
		for i := 0; i <= c15Users; i++ {
			if c15Bal(tk, m.addr(i)).Sign() > 0 {
				hs = append(hs, i)
			}
		}
	}
	if len(hs) > 0 && rapid.IntRange(0, 5).Draw(t, "holder/any") > 0 {
		return rapid.SampledFrom(hs).Draw(t, "holder")
	}
	return rapid.IntRange(0, c15Users).Draw(t, "anyholder")
}

// holding counts the classes that hold at least one token.
func (m *c15Machine) holding() int {
	n := 0
	for _, d := range m.denoms {
		if len(d.mts) > 0 {
			n++
		}
	}
	return n
}

func (m *c15Machine) Next(t *rapid.T) c15Op {
	// restart of the module from its own exported genesis: at any point of the history, more often while the state
	// is one a restart has not seen yet (two or more classes holding tokens)
	if len(m.denoms) > 0 {
		odds := 40
		zero := false
		for _, x := range m.mts {
			zero = zero || x.supply.Sign() == 0
		}
		if (m.holding() >= 2 && m.nReimportMulti == 0) || (zero && m.nReimportZeroSupply == 0) {
			odds = 8
		}
		if m.nBurst > 0 && m.nReimportAfterBurst == 0 {
			odds = 5
		}
		// (rapid draws small values far more often than large ones; the remainder of a large draw is close to uniform)
		if rapid.IntRange(0, 1<<20).Draw(t, "reimport")%odds == odds-1 {
			return c15Op{Kind: "reimport", Denom: -1, MT: -1}
		}
	}
	if len(m.denoms) > 0 && m.nBurst == 0 && rapid.IntRange(0, 1<<20).Draw(t, "burst")%150 == 149 {
		return c15Op{Kind: "burst", Denom: rapid.IntRange(0, len(m.denoms)-1).Draw(t, "burstdenom"), MT: -1, To: rapid.IntRange(-1, len(m.c.E.Users)-1).Draw(t, "burstto"),
			Amount: uint64(rapid.IntRange(101, 125).Draw(t, "burstn"))}
	}
	k := rapid.IntRange(0, 99).Draw(t, "kind")
	// the ids generated right after a round trip tell whether the sequences survived it
	if m.sinceReimport >= 0 && m.sinceReimport < 3 && rapid.IntRange(0, 1).Draw(t, "after-reimport") == 0 {
		k = rapid.SampledFrom([]int{0, 10, 10, 10, 30}).Draw(t, "after-reimport/kind")
	}
	if len(m.denoms) == 0 && k >= 15 {
		k = 0
	}
	if len(m.mts) == 0 && k >= 25 && k < 92 {
		k = 15
	}
	switch {
	case k < 8: // issue class
		return c15Op{Kind: "issue", Who: rapid.IntRange(0, c15Users-1).Draw(t, "who"), Denom: -1, MT: -1,
			Name: rapid.SampledFrom([]string{"cls", "cls", " padded ", "x", "", "  "}).Draw(t, "name"),
			Data: rapid.SampledFrom([]string{"", "cd"}).Draw(t, "data")}
	case k < 25: // mint a new token
		di := m.drawDenom(t)
		d, _ := m.denomAt(di)
		rightful := ""
		if d != nil {
			rightful = d.owner
		}
		op := c15Op{Kind: "mint", Denom: di, MT: -1, Who: m.drawWho(t, rightful), To: rapid.IntRange(-1, c15Users).Draw(t, "to"),
			Data: rapid.SampledFrom([]string{"", "td", c15Sentinel}).Draw(t, "data"), Pad: rapid.IntRange(0, 5).Draw(t, "pad") == 0}
		if rapid.IntRange(0, 5).Draw(t, "to-self") == 0 {
			op.To = op.Who // recipient given and equal to the sender
		}
		op.Amount = c15Amount(t, new(big.Int), new(big.Int), false)
		return op
	case k < 45: // mint more of an existing token
		di := m.drawDenom(t)
		d, _ := m.denomAt(di)
		mi := m.drawMT(t, d)
		tk, _ := m.mtAt(mi)
		rightful, supply := "", new(big.Int)
		if d != nil {
			rightful = d.owner
		}
		if tk != nil {
			supply = tk.supply
		}
		op := c15Op{Kind: "mint", Denom: di, MT: mi, Who: m.drawWho(t, rightful), To: rapid.IntRange(-1, c15Users).Draw(t, "to"),
			Pad: rapid.IntRange(0, 5).Draw(t, "pad") == 0}
		if rapid.IntRange(0, 5).Draw(t, "to-self") == 0 {
			op.To = op.Who
		}
		op.Amount = c15Amount(t, supply, supply, false)
		if rapid.IntRange(0, 19).Draw(t, "data-with-id") == 0 {
			op.Data = "td"
		}
		return op
	case k < 55: // edit
		di := m.drawDenom(t)
		d, _ := m.denomAt(di)
		rightful := ""
		if d != nil {
			rightful = d.owner
		}
		return c15Op{Kind: "edit", Denom: di, MT: m.drawMT(t, d), Who: m.drawWho(t, rightful),
			Data: rapid.SampledFrom([]string{"", "e1", "e2", c15Sentinel}).Draw(t, "data"), Pad: rapid.IntRange(0, 9).Draw(t, "pad") == 0}
	case k < 78: // transfer
		di := m.drawDenom(t)
		d, _ := m.denomAt(di)
		mi := m.drawMT(t, d)
		tk, _ := m.mtAt(mi)
		who := m.drawHolder(t, tk)
		op := c15Op{Kind: "transfer", Denom: di, MT: mi, Who: who, To: rapid.IntRange(0, c15Users).Draw(t, "to")}
		if rapid.IntRange(0, 3).Draw(t, "self") == 0 {
			op.To = who
		}
		supply := new(big.Int)
		if tk != nil {
			supply = tk.supply
		}
		op.Amount = c15Amount(t, c15Bal(tk, m.addr(who)), supply, true)
		op.Pad = rapid.IntRange(0, 9).Draw(t, "pad") == 0
		return op
	case k < 92: // burn
		di := m.drawDenom(t)
		d, _ := m.denomAt(di)
		mi := m.drawMT(t, d)
		tk, _ := m.mtAt(mi)
		who := m.drawHolder(t, tk)
		if d != nil && rapid.IntRange(0, 7).Draw(t, "burn/class-owner") == 0 {
			who = m.userOf(d.owner) // the class owner, holder or not
		}
		supply := new(big.Int)
		if tk != nil {
			supply = tk.supply
		}
		return c15Op{Kind: "burn", Denom: di, MT: mi, Who: who, Amount: c15Amount(t, c15Bal(tk, m.addr(who)), supply, true),
			Pad: rapid.IntRange(0, 9).Draw(t, "pad") == 0}
	default: // class hand-over
		di := m.drawDenom(t)
		d, _ := m.denomAt(di)
		rightful := ""
		if d != nil {
			rightful = d.owner
		}
		return c15Op{Kind: "xferdenom", Denom: di, MT: -1, Who: m.drawWho(t, rightful), To: rapid.IntRange(0, c15Users).Draw(t, "to")}
	}
}

// ---------------------------------------------------------------------------------------------
// model step + execution

func (m *c15Machine) Apply(op c15Op) error {
	if op.Kind == "reimport" {
		return m.applyReimport()
	}
	if op.Kind == "burst" {
		// more new tokens in one class than a default query page holds (100); the class owner mints them one by one
		// through the ordinary rules, the listing, supply and invariant clauses are evaluated once at the end
		d, _ := m.denomAt(op.Denom)
		if d == nil || op.Amount < 1 || op.Amount > 400 {
			return fmt.Errorf("bad replay op %+v", op)
		}
		m.quiet = true
		for i := uint64(0); i < op.Amount; i++ {
			one := c15Op{Kind: "mint", Who: m.userOf(d.owner), To: op.To, Denom: op.Denom, MT: -1, Amount: 1 + i%7, Name: "bulk"}
			if err := m.Apply(one); err != nil {
				m.quiet = false
				return err
			}
		}
		m.quiet = false
		m.nBurst++
		return m.check()
	}
	nu := len(m.c.E.Users)
	if op.Who < 0 || op.Who >= nu || op.To < -1 || op.To >= nu {
		return fmt.Errorf("bad replay op %+v", op)
	}
	sender := m.addr(op.Who)
	rcptField, rcpt := "", sender
	if op.To >= 0 {
		rcptField, rcpt = m.addr(op.To), m.addr(op.To)
	}
	d, denomID := m.denomAt(op.Denom)
	tk, mtID := m.mtAt(op.MT)
	if tk != nil && (d == nil || tk.denom != d.id) {
		tk = nil // a token of another class: unknown under this class id
	}
	amt := new(big.Int).SetUint64(op.Amount)

	var msg sdk.Msg
	accept, why := false, "" // why = the property clause that forbids acceptance
	valid := true            // input validation the property does not talk about (zero amount, empty name, metadata on a top-up)
	c0, c1, c2 := m.nOverflow, m.nUnderflow, m.nStranger
	var commit func(res chain.Result) error
	var notes []string // optional-field / actor classes of this message, counted when it is accepted
	refusedNote := ""  // class counted when a well-formed message is refused
	note := func(c bool, name string) {
		if c {
			notes = append(notes, name)
		}
	}
	switch op.Kind {
	case "issue":
		msg = &mttypes.MsgIssueDenom{Name: op.Name, Data: []byte(op.Data), Sender: sender}
		valid = strings.TrimSpace(op.Name) != ""
		accept = true
		note(op.Data == "", "issue-without-data")
		note(op.Data != "", "issue-with-data")
		note(strings.TrimSpace(op.Name) != op.Name, "issue-padded-name")
		commit = func(res chain.Result) error {
			ids := chain.EventAttrs(res.Events, "issue_denom", "denom_id")
			if len(ids) != 1 || ids[0] == "" {
				return pbt.Failf("C15/issue-event", "issue_denom event ids %v", ids)
			}
			if m.allIDs["d:"+ids[0]] {
				return pbt.Failf("C15/class-id-reused", "generated class id %s was generated before", ids[0])
			}
			m.allIDs["d:"+ids[0]] = true
			nd := &c15Denom{id: ids[0], owner: sender, name: strings.TrimSpace(op.Name), data: []byte(op.Data), mts: map[string]*c15MT{}}
			m.denoms = append(m.denoms, nd)
			m.byID[nd.id] = nd
			if m.sinceReimport >= 0 {
				m.nIssueAfterReimport++
			}
			return nil
		}
	case "mint":
		newTok := op.MT < 0
		mm := &mttypes.MsgMintMT{DenomId: denomID, Amount: op.Amount, Data: []byte(op.Data), Sender: sender, Recipient: rcptField}
		if !newTok {
			mm.Id = mtID
		}
		if op.Pad { // white space instead of nothing, blanks around a given id: the handler trims
			if newTok {
				mm.Id = "  "
			} else {
				mm.Id = " " + mtID + " "
			}
			if op.To < 0 {
				mm.Recipient = "  "
			}
		}
		msg = mm
		note(op.To < 0 && !op.Pad, "mint-recipient-empty")
		note(op.To < 0 && op.Pad, "mint-recipient-blank")
		note(op.To == op.Who, "mint-recipient-is-sender")
		note(op.To >= 0 && op.To != op.Who, "mint-recipient-other")
		note(newTok && !op.Pad, "mint-id-empty")
		note(newTok && op.Pad, "mint-id-blank")
		note(!newTok && op.Pad, "mint-id-padded")
		note(newTok && op.Data == "", "mint-new-without-data")
		note(newTok && op.Data != "", "mint-new-with-data")
		valid = op.Amount != 0 && (newTok || len(op.Data) == 0)
		switch {
		case d == nil:
			why = "C15/mint-into-missing-class"
		case d.owner != sender:
			why = "C15/mint-by-non-owner"
			m.nStranger++
		case !newTok && tk == nil:
			why = "C15/mint-of-missing-token"
		case !newTok && new(big.Int).Add(tk.supply, amt).Cmp(c15Max) > 0:
			why = "C15/supply-overflow"
			m.nOverflow++
		default:
			accept = true
		}
		commit = func(res chain.Result) error {
			ids := chain.EventAttrs(res.Events, "mint_mt", "mt_id")
			if len(ids) != 1 || ids[0] == "" {
				return pbt.Failf("C15/mint-event", "mint_mt event ids %v", ids)
			}
			t := tk
			if newTok {
				if m.allIDs["t:"+ids[0]] {
					return pbt.Failf("C15/token-id-reused", "generated token id %s was generated before", ids[0])
				}
				m.allIDs["t:"+ids[0]] = true
				t = &c15MT{denom: d.id, id: ids[0], data: []byte(op.Data), supply: new(big.Int), bal: map[string]*big.Int{}}
				d.mts[t.id] = t
				m.mts = append(m.mts, t)
				if m.sinceReimport >= 0 {
					m.nMintNewAfterReimport++
					if m.multiAtReimport {
						m.nMintNewAfterMultiReimport++
					}
				}
			} else {
				if ids[0] != tk.id {
					return pbt.Failf("C15/mint-event", "minted %s, event says %s", tk.id, ids[0])
				}
				m.nMintExisting++
				if m.sinceReimport >= 0 {
					m.nMintExistingAfterReimport++
				}
			}
			t.supply = new(big.Int).Add(t.supply, amt)
			t.bal[rcpt] = new(big.Int).Add(c15Bal(t, rcpt), amt)
			if sup := chain.EventAttrs(res.Events, "mint_mt", "supply"); len(sup) != 1 || sup[0] != t.supply.String() {
				return pbt.Failf("C15/mint-event", "mint event supply %v, ledger %s", sup, t.supply)
			}
			if d.handed {
				m.nHandoverMint++
			}
			if t.supply.Cmp(c15Max) == 0 {
				m.nMaxSupply++
			}
			return nil
		}
	case "edit":
		msg = &mttypes.MsgEditMT{Id: mtID, DenomId: denomID, Data: []byte(op.Data), Sender: sender}
		switch {
		case d == nil:
			why = "C15/edit-in-missing-class"
		case d.owner != sender:
			why = "C15/edit-by-non-owner"
			m.nStranger++
		case tk == nil:
			why = "C15/edit-of-missing-token"
		default:
			accept = true
		}
		note(op.Data == c15Sentinel, "edit-do-not-modify")
		note(op.Data == "", "edit-to-empty-data")
		note(op.Data != "" && op.Data != c15Sentinel, "edit-changes-data")
		commit = func(chain.Result) error {
			if op.Data != c15Sentinel {
				tk.data = []byte(op.Data)
			}
			return nil
		}
	case "transfer":
		if op.To < 0 {
			return fmt.Errorf("bad replay op %+v", op)
		}
		msg = &mttypes.MsgTransferMT{Id: mtID, DenomId: denomID, Sender: sender, Recipient: rcpt, Amount: op.Amount}
		held := c15Bal(tk, sender)
		valid = op.Amount != 0
		switch {
		case held.Cmp(amt) < 0:
			why = "C15/transfer-more-than-held"
			m.nUnderflow++
		default:
			accept = true
		}
		commit = func(chain.Result) error {
			if tk == nil { // only reachable with a (leniently accepted) zero amount
				return nil
			}
			tk.bal[sender] = new(big.Int).Sub(c15Bal(tk, sender), amt)
			tk.bal[rcpt] = new(big.Int).Add(c15Bal(tk, rcpt), amt)
			if rcpt == sender {
				m.nSelf++
			}
			if m.sinceReimport >= 0 {
				m.nSpendAfterReimport++
			}
			return nil
		}
	case "burn":
		msg = &mttypes.MsgBurnMT{Id: mtID, DenomId: denomID, Sender: sender, Amount: op.Amount}
		held := c15Bal(tk, sender)
		valid = op.Amount != 0
		switch {
		case held.Cmp(amt) < 0:
			why = "C15/burn-more-than-held"
			m.nUnderflow++
			if d != nil && tk != nil && d.owner == sender && held.Sign() == 0 && tk.supply.Sign() > 0 {
				refusedNote = "burn-by-class-owner-without-balance-refused"
			}
		default:
			accept = true
		}
		note(d != nil && tk != nil && d.owner == sender, "burn-by-holder-who-owns-the-class")
		note(d != nil && tk != nil && d.owner != sender, "burn-by-holder-who-does-not-own-the-class")
		commit = func(chain.Result) error {
			if tk == nil { // only reachable with a (leniently accepted) zero amount
				return nil
			}
			tk.bal[sender] = new(big.Int).Sub(c15Bal(tk, sender), amt)
			tk.supply = new(big.Int).Sub(tk.supply, amt)
			if tk.supply.Sign() == 0 {
				m.nBurnAll++
			}
			if m.sinceReimport >= 0 {
				m.nSpendAfterReimport++
			}
			return nil
		}
	case "xferdenom":
		if op.To < 0 {
			return fmt.Errorf("bad replay op %+v", op)
		}
		msg = &mttypes.MsgTransferDenom{Id: denomID, Sender: sender, Recipient: rcpt}
		switch {
		case d == nil:
			why = "C15/handover-of-missing-class"
		case d.owner != sender:
			why = "C15/class-handover-by-non-owner"
			m.nStranger++
		default:
			accept = true
		}
		note(rcpt == sender, "class-handover-to-current-owner")
		note(rcpt != sender, "class-handover-to-other")
		commit = func(chain.Result) error {
			d.owner = rcpt
			d.handed = true
			return nil
		}
	default:
		return fmt.Errorf("unknown op kind %q", op.Kind)
	}

	if op.Pad && tk != nil {
		// blanks around the token id (validation lets them through, the mint handler trims them): whether the other
		// handlers find the token under that spelling is not the property's business - but an accepted operation acts on
		// the token it names, and the ledger follows it
		switch x := msg.(type) {
		case *mttypes.MsgEditMT:
			x.Id, valid = " "+x.Id+" ", false
		case *mttypes.MsgTransferMT:
			x.Id, valid = " "+x.Id+" ", false
		case *mttypes.MsgBurnMT:
			x.Id, valid = " "+x.Id+" ", false
		}
		if !valid {
			m.cnt["padded-id-outside-mint"]++
		}
	}
	if !valid { // a refusal of malformed input says nothing about the rules of the property
		m.nOverflow, m.nUnderflow, m.nStranger = c0, c1, c2
	}
	// accept = no clause of the property forbids the operation; malformed input must additionally be refused by the
	// documented validation - where the code is laxer the ledger follows it (counted), the property does not care
	res := m.c.Deliver(msg)
	switch {
	case res.Outcome == chain.Panicked || res.Outcome == chain.Overflow:
		return pbt.Failf("C15/panic", "%s panicked: %v", op.Kind, res.Panic)
	case accept && valid && res.Outcome != chain.OK:
		return pbt.Failf("C15/rightful-"+op.Kind+"-refused", "ledger accepts %+v, code: %v", op, res)
	case !accept && res.Outcome == chain.OK:
		return pbt.Failf(why, "ledger refuses %+v, code accepted it", op)
	}
	if res.Outcome == chain.OK {
		if !valid {
			m.nLax++
		}
		if err := commit(res); err != nil {
			return err
		}
		m.nAccepted++
		for _, n := range notes {
			m.cnt[n]++
		}
	} else if !valid {
		m.nInvalidRefused++
	} else if refusedNote != "" {
		m.cnt[refusedNote]++
	}
	if m.sinceReimport >= 0 {
		m.sinceReimport++
	}
	if m.quiet {
		return nil
	}
	return m.check()
}

// ---------------------------------------------------------------------------------------------
// restart: the module is exported, its store wiped, the export imported; the history goes on

func (m *c15Machine) exportJSON() json.RawMessage {
	mod, ok := m.c.E.App.ModuleManager.Modules["mt"].(interface {
		ExportGenesis(sdk.Context, codec.JSONCodec) json.RawMessage
	})
	if !ok {
		panic("mt module has no ExportGenesis of the expected shape")
	}
	return mod.ExportGenesis(m.c.Ctx, m.c.E.App.AppCodec())
}

// applyReimport takes the mt module through its own genesis. The genesis carries every class, token and balance
// (sequences are rebuilt from the counts), so the ledger stays as it is: every clause of check() holds on the restored
// state, and whatever is generated afterwards must be new.
// c15WrapEdit adds 2^63 to the balances of two holders of one token (nil if no token has two holders below 2^63).
func c15WrapEdit(_ string, exported json.RawMessage) json.RawMessage {
	var g map[string]interface{}
	if json.Unmarshal(exported, &g) != nil {
		return nil
	}
	type ref struct {
		b map[string]interface{}
	}
	byTok := map[string][]ref{}
	var order []string
	owners, _ := g["owners"].([]interface{})
	for _, o := range owners {
		om, _ := o.(map[string]interface{})
		denoms, _ := om["denoms"].([]interface{})
		for _, d := range denoms {
			dm, _ := d.(map[string]interface{})
			bals, _ := dm["balances"].([]interface{})
			for _, b := range bals {
				bm, _ := b.(map[string]interface{})
				amt, ok := new(big.Int).SetString(fmt.Sprint(bm["amount"]), 10)
				if !ok || amt.BitLen() > 63 {
					continue
				}
				k := fmt.Sprint(dm["denom_id"]) + "/" + fmt.Sprint(bm["mt_id"])
				if len(byTok[k]) == 0 {
					order = append(order, k)
				}
				byTok[k] = append(byTok[k], ref{bm})
			}
		}
	}
	for _, k := range order {
		if rs := byTok[k]; len(rs) >= 2 {
			for _, r := range rs[:2] {
				amt, _ := new(big.Int).SetString(fmt.Sprint(r.b["amount"]), 10)
				r.b["amount"] = new(big.Int).Add(amt, new(big.Int).Lsh(big.NewInt(1), 63)).String()
			}
			out, _ := json.Marshal(g)
			return out
		}
	}
	return nil
}

func (m *c15Machine) applyReimport() error {
	zeroSupply, zeroBal, maxSupply, handed, empty := false, false, false, false, false
	for _, d := range m.denoms {
		handed = handed || d.handed
		empty = empty || len(d.mts) == 0
		for _, t := range d.mts {
			zeroSupply = zeroSupply || t.supply.Sign() == 0
			maxSupply = maxSupply || t.supply.Cmp(c15Max) == 0
			for _, b := range t.bal {
				zeroBal = zeroBal || (b.Sign() == 0 && t.supply.Sign() > 0)
			}
		}
	}
	multi := m.holding() >= 2
	// every other restart first offers the module a hand-edited file in which two holders of one token each got 2^63 more:
	// the amounts of that token then add up to its declared supply only modulo 2^64. The import has to refuse it (the
	// export is then imported as it is); a module that accepts it holds balances that exceed the supply
	if m.nReimport%2 == 1 {
		m.c.GenesisEdit = c15WrapEdit
	}
	ei, er := m.c.EditedImports, m.c.EditedRefused
	before, stage, err := m.c.Reimport("mt")
	m.c.GenesisEdit = nil
	if m.c.EditedImports > ei {
		return pbt.Failf("C15/genesis-with-wrapping-balances-imported", "the mt module imported a genesis in which the balances of a token exceed its supply by 2^64 (the sums agree only modulo 2^64)\nexported: %s", before)
	}
	if m.c.EditedRefused > er {
		m.cnt["genesis-with-wrapping-balances-refused"]++
	}
	if err != nil {
		return pbt.Failf("C15/reimport-"+stage, "mt genesis round trip with %d classes / %d tokens: %v\nexported: %s", len(m.denoms), len(m.mts), err, before)
	}
	if err := m.check(); err != nil { // classes, tokens, balances and supplies as before
		return err
	}
	if after := m.exportJSON(); !bytes.Equal(before, after) {
		return pbt.Failf("C15/reimport-export-differs", "the restored state exports a different genesis\nbefore: %s\nafter:  %s", before, after)
	}
	m.nReimport++
	b2i := func(b bool) int {
		if b {
			return 1
		}
		return 0
	}
	m.nReimportMulti += b2i(multi)
	for _, d := range m.denoms {
		if len(d.mts) > 100 {
			m.nReimportAfterBurst++
		}
	}
	m.nReimportZeroSupply += b2i(zeroSupply)
	m.nReimportZeroBalance += b2i(zeroBal)
	m.nReimportMaxSupply += b2i(maxSupply)
	m.nReimportHanded += b2i(handed)
	m.nReimportEmptyClass += b2i(empty)
	m.sinceReimport, m.multiAtReimport = 0, multi
	return m.probeIDs()
}

// probeIDs continues the history on a throw-away branch with one new class and one new token in every class (minted
// by the class owner): none of the generated ids may have been generated before.
func (m *c15Machine) probeIDs() error {
	if os.Getenv("VERIF_C15_NO_PROBE") != "" { // development switch: measures what the history alone detects
		return nil
	}
	b := m.c.Branch()
	seen := map[string]bool{}
	res := b.Deliver(&mttypes.MsgIssueDenom{Name: "probe", Sender: m.addr(0)})
	ids := chain.EventAttrs(res.Events, "issue_denom", "denom_id")
	if res.Outcome != chain.OK || len(ids) != 1 {
		return pbt.Failf("C15/rightful-issue-refused", "issuing one more class: %v (ids %v)", res, ids)
	}
	if m.allIDs["d:"+ids[0]] {
		return pbt.Failf("C15/class-id-reused", "the next class would get id %s, which was generated before", ids[0])
	}
	for _, d := range m.denoms {
		res := b.Deliver(&mttypes.MsgMintMT{DenomId: d.id, Amount: 1, Sender: d.owner})
		ids := chain.EventAttrs(res.Events, "mint_mt", "mt_id")
		if res.Outcome != chain.OK || len(ids) != 1 {
			return pbt.Failf("C15/rightful-mint-refused", "minting one more token into class %s by its owner: %v (ids %v)", d.id, res, ids)
		}
		if m.allIDs["t:"+ids[0]] || seen[ids[0]] {
			return pbt.Failf("C15/token-id-reused", "the next token of class %s would get id %s, which was generated before", d.id, ids[0])
		}
		seen[ids[0]] = true
	}
	return nil
}

// ---------------------------------------------------------------------------------------------
// observation

func (m *c15Machine) check() error {
	k := m.c.E.K.MT
	ctx := context.Context(m.c.Ctx)

	// every holder's balance as exported (all addresses, not only the universe), summed in big.Int
	sums := map[string]*big.Int{}     // denom|mt -> sum over holders
	exported := map[string]*big.Int{} // holder|denom|mt -> amount
	for _, o := range k.ExportGenesisState(m.c.Ctx).Owners {
		for _, db := range o.Denoms {
			for _, b := range db.Balances {
				key := db.DenomId + "|" + b.MtId
				if sums[key] == nil {
					sums[key] = new(big.Int)
				}
				sums[key].Add(sums[key], new(big.Int).SetUint64(b.Amount))
				exported[o.Address+"|"+key] = new(big.Int).SetUint64(b.Amount)
			}
		}
	}
	for key, s := range sums {
		parts := strings.SplitN(key, "|", 2)
		d := m.byID[parts[0]]
		if d == nil || d.mts[parts[1]] == nil {
			if s.Sign() != 0 {
				return pbt.Failf("C15/phantom-balance", "balances of unknown token %s sum to %s", key, s)
			}
		}
	}

	// list queries are followed page by page (histories can create more than one page of classes)
	var listed []mttypes.Denom
	for page := (*query.PageRequest)(nil); ; {
		lres, err := k.Denoms(ctx, &mttypes.QueryDenomsRequest{Pagination: page})
		if err != nil {
			return pbt.Failf("C15/denoms-query", "%v", err)
		}
		listed = append(listed, lres.Denoms...)
		if lres.Pagination == nil || len(lres.Pagination.NextKey) == 0 {
			break
		}
		page = &query.PageRequest{Key: lres.Pagination.NextKey}
	}
	if len(listed) != len(m.denoms) {
		return pbt.Failf("C15/class-list", "Denoms lists %d classes, ledger %d", len(listed), len(m.denoms))
	}
	seenDenom := map[string]bool{}
	for _, g := range listed {
		if m.byID[g.Id] == nil || seenDenom[g.Id] {
			return pbt.Failf("C15/class-list", "Denoms lists unknown/duplicate class %q", g.Id)
		}
		seenDenom[g.Id] = true
	}
	for _, d := range m.denoms {
		dres, err := k.Denom(ctx, &mttypes.QueryDenomRequest{DenomId: d.id})
		if err != nil {
			return pbt.Failf("C15/class-lost", "class %s: %v", d.id, err)
		}
		g := dres.Denom
		if g.Id != d.id || g.Name != d.name || g.Owner != d.owner || !bytes.Equal(g.Data, d.data) {
			return pbt.Failf("C15/class-record", "class %s reads %+v, ledger owner=%s name=%q data=%q", d.id, *g, d.owner, d.name, d.data)
		}
		if n := k.GetDenomSupply(m.c.Ctx, d.id); n != uint64(len(d.mts)) {
			return pbt.Failf("C15/class-token-count", "class %s counts %d tokens, ledger %d", d.id, n, len(d.mts))
		}
		var mts []mttypes.MT
		for page := (*query.PageRequest)(nil); ; {
			mres, err := k.MTs(ctx, &mttypes.QueryMTsRequest{DenomId: d.id, Pagination: page})
			if err != nil {
				return pbt.Failf("C15/mts-query", "%v", err)
			}
			mts = append(mts, mres.Mts...)
			if mres.Pagination == nil || len(mres.Pagination.NextKey) == 0 {
				break
			}
			page = &query.PageRequest{Key: mres.Pagination.NextKey}
		}
		if len(mts) != len(d.mts) {
			return pbt.Failf("C15/token-list", "class %s lists %d tokens, ledger %d", d.id, len(mts), len(d.mts))
		}
		seen := map[string]bool{}
		for _, g := range mts {
			t := d.mts[g.Id]
			if t == nil || seen[g.Id] {
				return pbt.Failf("C15/token-list", "class %s lists unknown/duplicate token %s", d.id, g.Id)
			}
			seen[g.Id] = true
			if new(big.Int).SetUint64(g.Supply).Cmp(t.supply) != 0 || !bytes.Equal(g.Data, t.data) {
				return pbt.Failf("C15/token-record", "token %s/%s lists supply=%d data=%q, ledger supply=%s data=%q", d.id, g.Id, g.Supply, g.Data, t.supply, t.data)
			}
		}
		for _, t := range d.mts {
			if t.supply.Sign() < 0 || t.supply.Cmp(c15Max) > 0 {
				return fmt.Errorf("harness: ledger supply out of range %s", t.supply)
			}
			tres, err := k.MT(ctx, &mttypes.QueryMTRequest{DenomId: d.id, MtId: t.id})
			if err != nil {
				return pbt.Failf("C15/token-lost", "token %s/%s: %v", d.id, t.id, err)
			}
			if tres.Mt.Id != t.id || new(big.Int).SetUint64(tres.Mt.Supply).Cmp(t.supply) != 0 || !bytes.Equal(tres.Mt.Data, t.data) {
				return pbt.Failf("C15/token-record", "token %s/%s reads supply=%d data=%q, ledger supply=%s data=%q", d.id, t.id, tres.Mt.Supply, tres.Mt.Data, t.supply, t.data)
			}
			sres, err := k.MTSupply(ctx, &mttypes.QueryMTSupplyRequest{DenomId: d.id, MtId: t.id})
			if err != nil || new(big.Int).SetUint64(sres.Amount).Cmp(t.supply) != 0 {
				return pbt.Failf("C15/supply", "supply of %s/%s = %v (%v), ledger %s", d.id, t.id, sres, err, t.supply)
			}
			sum := sums[d.id+"|"+t.id]
			if sum == nil {
				sum = new(big.Int)
			}
			if sum.Cmp(t.supply) != 0 {
				return pbt.Failf("C15/balances-vs-supply", "token %s/%s: holders' balances sum to %s, supply %s", d.id, t.id, sum, t.supply)
			}
			for a, b := range t.bal {
				if b.Sign() < 0 {
					return fmt.Errorf("harness: negative ledger balance")
				}
				e := exported[a+"|"+d.id+"|"+t.id]
				if e == nil {
					e = new(big.Int)
				}
				if e.Cmp(b) != 0 {
					return pbt.Failf("C15/balance", "U%d holds %s of %s/%s, ledger %s", m.userOf(a), e, d.id, t.id, b)
				}
			}
		}
		// Balances query per universe user
		// (accounts that never held a token of the class are covered by the export above: an entry there that the
		// ledger does not know fails as C15/phantom-balance or C15/balances-vs-supply)
		touched := map[string]bool{}
		for _, t := range d.mts {
			for a := range t.bal {
				touched[a] = true
			}
		}
		for i := range m.c.E.Users {
			a := m.addr(i)
			if !touched[a] {
				continue
			}
			var bals []mttypes.Balance
			for page := (*query.PageRequest)(nil); ; {
				bres, err := k.Balances(ctx, &mttypes.QueryBalancesRequest{Owner: a, DenomId: d.id, Pagination: page})
				if err != nil {
					return pbt.Failf("C15/balances-query", "%v", err)
				}
				bals = append(bals, bres.Balance...)
				if bres.Pagination == nil || len(bres.Pagination.NextKey) == 0 {
					break
				}
				page = &query.PageRequest{Key: bres.Pagination.NextKey}
			}
			n := 0
			for _, b := range bals {
				t := d.mts[b.MtId]
				if t == nil {
					if b.Amount != 0 {
						return pbt.Failf("C15/phantom-balance", "U%d holds %d of unknown token %s/%s", i, b.Amount, d.id, b.MtId)
					}
					continue
				}
				if new(big.Int).SetUint64(b.Amount).Cmp(c15Bal(t, a)) != 0 {
					return pbt.Failf("C15/balance", "Balances(U%d) %s/%s = %d, ledger %s", i, d.id, b.MtId, b.Amount, c15Bal(t, a))
				}
				if b.Amount != 0 {
					n++
				}
			}
			want := 0
			for _, t := range d.mts {
				if c15Bal(t, a).Sign() > 0 {
					want++
				}
			}
			if n != want {
				return pbt.Failf("C15/balance", "Balances(U%d, %s) lists %d non-zero entries, ledger %d", i, d.id, n, want)
			}
		}
	}
	// a class id that was never generated does not exist
	if _, err := k.Denom(ctx, &mttypes.QueryDenomRequest{DenomId: fmt.Sprintf("%064x", 0xdead0000+len(m.denoms))}); err == nil {
		return pbt.Failf("C15/phantom-class", "never generated class id resolves")
	}
	if msg, broken := mtkeeper.SupplyInvariant(k)(m.c.Ctx); broken {
		return pbt.Failf("C15/supply-invariant", "%s", msg)
	}
	return nil
}

func (m *c15Machine) Finish() error { return m.probeIDs() }

func (m *c15Machine) Classify() (bool, []string) {
	var cl []string
	add := func(c bool, name string) {
		if c {
			cl = append(cl, name)
		}
	}
	add(m.nOverflow > 0, "overflow-attempt")
	add(m.nUnderflow > 0, "underflow-attempt")
	add(m.nSelf > 0, "transfer-to-self")
	add(m.nStranger > 0, "non-owner-refused")
	add(m.nMintExisting > 0, "mint-existing-token")
	add(m.nBurnAll > 0, "supply-burned-to-zero")
	add(m.nHandoverMint > 0, "handover-then-mint")
	add(m.nMaxSupply > 0, "supply-at-max-uint64")
	add(m.nAccepted >= 10, "accepted>=10")
	add(m.nInvalidRefused > 0, "malformed-input-refused")
	add(m.nLax > 0, "malformed-input-accepted(validation-laxer-than-documented)")
	add(len(m.mts) >= 3, "tokens>=3")
	add(m.nReimport > 0, "reimport")
	add(m.nReimport >= 2, "reimport-twice")
	add(m.nReimportMulti > 0, "reimport-with-2+-classes-holding-tokens")
	add(m.nBurst > 0, "class-with->100-tokens")
	add(m.nReimportAfterBurst > 0, "reimport-with-a-class-of->100-tokens")
	add(m.nReimportEmptyClass > 0, "reimport-with-class-without-tokens")
	add(m.nReimportZeroSupply > 0, "reimport-with-token-burned-to-zero")
	add(m.nReimportZeroBalance > 0, "reimport-with-emptied-holder")
	add(m.nReimportMaxSupply > 0, "reimport-with-supply-at-max-uint64")
	add(m.nReimportHanded > 0, "reimport-with-handed-over-class")
	add(m.nMintNewAfterReimport > 0, "reimport-then-new-token")
	add(m.nMintNewAfterMultiReimport > 0, "reimport-with-2+-classes-then-new-token")
	add(m.nIssueAfterReimport > 0, "reimport-then-new-class")
	add(m.nMintExistingAfterReimport > 0, "reimport-then-mint-existing-token")
	add(m.nSpendAfterReimport > 0, "reimport-then-transfer-or-burn")
	for _, n := range c15Notes {
		add(m.cnt[n] > 0, n)
	}
	return (m.nOverflow > 0 || m.nUnderflow > 0) && m.nSelf > 0, cl
}

var c15Notes = []string{
	"issue-without-data", "issue-with-data", "issue-padded-name",
	"mint-recipient-empty", "mint-recipient-blank", "mint-recipient-is-sender", "mint-recipient-other",
	"mint-id-empty", "mint-id-blank", "mint-id-padded", "mint-new-without-data", "mint-new-with-data",
	"edit-do-not-modify", "edit-to-empty-data", "edit-changes-data",
	"class-handover-to-current-owner", "class-handover-to-other",
	"burn-by-holder-who-owns-the-class", "burn-by-holder-who-does-not-own-the-class", "burn-by-class-owner-without-balance-refused",
}

const c15Rule = "rapid state machine, 4 senders / 5 recipients: issue class / mint new token / mint existing token (recipient empty, blank, the sender, another account; id empty, blank, padded) / edit (incl. the do-not-modify placeholder) / transfer (incl. to self) / burn (by holders and by the class owner) / class hand-over (incl. to the current owner) / restart of the module from its own exported genesis (the ledger continues; one more class and one more token per class are generated on a side branch after every restart and at the end), ids referenced by creation index (also ids of other classes and never generated ids), amounts over the whole uint64 range by shape (tiny, random bit length, 2^63 and 2^64-1 boundaries, held-1/held/held+1, room-1/room/room+1 where room = 2^64-1-supply); non-trivial = history with an attempted overflow (mint beyond 2^64-1) or underflow (transfer/burn of more than held) and an accepted transfer to self; distinct by SHA-256 of the op list"

func init() { pbt.RegisterMachine("c15", newC15) }

func TestReplay(t *testing.T) { pbt.ReplayMain(t) }

func TestC15(t *testing.T) { pbt.RunMachine(t, "C15", "c15", c15Rule, newC15) }
