package c20

import (
	"bytes"
	"encoding/hex"
	"errors"
	"math/big"
	"os"
	"os/exec"
	"path/filepath"
	"strings"
	"testing"

	gogoproto "github.com/cosmos/gogoproto/proto"
	"google.golang.org/protobuf/encoding/protowire"
	"google.golang.org/protobuf/proto"
	"google.golang.org/protobuf/reflect/protoreflect"
	"google.golang.org/protobuf/types/dynamicpb"
	"pgregory.net/rapid"

	"verifharness/pbt"
)

// Native fuzz target of C20 (thorough tier): arbitrary bytes are handed to the decoders of both families.
//
// * a well-formed encoding (standard decoder accepts it, valid UTF-8, no unknown fields, no singular
//   field occurring twice) must be accepted by the api type, and by the gogoproto type unless a customtype
//   numeral / std time / std duration holds something the Go type cannot represent;
// * when both accept a well-formed encoding, the canonical gogoproto re-encoding is the same whether or not the
//   value made a detour through the api type, the api type reads it back, and for values the gogoproto types
//   represent exactly (non-nullable fields present, canonical numerals) the two re-encodings are byte-identical.
// Outside these domains only panics are failures (the decoders of embedded well-known types legitimately differ
// on unknown fields and wrong wire types); disagreements there are counted.

type fuzzCase struct {
	Type    string   `json:"type"`
	Hex     string   `json:"hex"`
	Exclude []string `json:"exclude,omitempty"`
	// FillMapValues: map entries without a value are given an empty one before decoding (exclusion of the known
	// finding C20/wire-api-panics-on-valueless-map-entry)
	FillMapValues bool `json:"fill_map_values,omitempty"`
}

type wireShapeInfo struct {
	malformed bool
	dupMsg    bool
}

// walkWire inspects an encoding along the descriptor without decoding values.
func walkWire(md protoreflect.MessageDescriptor, b []byte, info *wireShapeInfo, depth int) {
	if depth > 50 {
		return
	}
	seen := map[protowire.Number]bool{}
	for len(b) > 0 {
		num, typ, n := protowire.ConsumeTag(b)
		if n < 0 {
			info.malformed = true
			return
		}
		m := protowire.ConsumeFieldValue(num, typ, b[n:])
		if m < 0 {
			info.malformed = true
			return
		}
		val := b[n : n+m]
		b = b[n+m:]
		fd := md.Fields().ByNumber(num)
		if fd == nil {
			continue
		}
		if !fd.IsList() && !fd.IsMap() {
			// a singular field occurring twice: "last one wins / merge" per the standard; customtype and std
			// fields of gogoproto decode each occurrence on its own, so this is outside the compared domain
			if seen[num] {
				info.dupMsg = true
			}
			seen[num] = true
		}
		if typ != protowire.BytesType {
			continue
		}
		sub := fieldMessage(fd)
		inner, _ := protowire.ConsumeBytes(val)
		if fd.IsMap() {
			e := inner
			seenKV := map[protowire.Number]bool{}
			for len(e) > 0 {
				en, et, x := protowire.ConsumeTag(e)
				if x < 0 {
					info.malformed = true
					return
				}
				y := protowire.ConsumeFieldValue(en, et, e[x:])
				if y < 0 {
					info.malformed = true
					return
				}
				// the generated map-entry decoders of both families do not look at the wire type and do not
				// expect anything but one key and one value
				if (en != 1 && en != 2) || seenKV[en] || (en == 1 && et != wireTypeOf(fd.MapKey())) || (en == 2 && et != wireTypeOf(fd.MapValue())) {
					info.dupMsg = true
				}
				seenKV[en] = true
				if en == 2 && et == protowire.BytesType && sub != nil {
					v, _ := protowire.ConsumeBytes(e[x : x+y])
					walkWire(sub, v, info, depth+1)
				}
				e = e[x+y:]
			}
			continue
		}
		if sub == nil {
			continue
		}
		walkWire(sub, inner, info, depth+1)
	}
}

func wireTypeOf(fd protoreflect.FieldDescriptor) protowire.Type {
	switch fd.Kind() {
	case protoreflect.StringKind, protoreflect.BytesKind, protoreflect.MessageKind:
		return protowire.BytesType
	case protoreflect.Fixed32Kind, protoreflect.Sfixed32Kind, protoreflect.FloatKind:
		return protowire.Fixed32Type
	case protoreflect.Fixed64Kind, protoreflect.Sfixed64Kind, protoreflect.DoubleKind:
		return protowire.Fixed64Type
	case protoreflect.GroupKind:
		return protowire.StartGroupType
	}
	return protowire.VarintType
}

func hasUnknown(m protoreflect.Message) bool {
	if len(m.GetUnknown()) > 0 {
		return true
	}
	found := false
	m.Range(func(fd protoreflect.FieldDescriptor, v protoreflect.Value) bool {
		switch {
		case fd.IsMap():
			if fd.MapValue().Message() != nil {
				v.Map().Range(func(_ protoreflect.MapKey, mv protoreflect.Value) bool {
					if hasUnknown(mv.Message()) {
						found = true
					}
					return !found
				})
			}
		case fd.IsList():
			if fd.Message() != nil {
				for i := 0; i < v.List().Len() && !found; i++ {
					found = hasUnknown(v.List().Get(i).Message())
				}
			}
		case fd.Message() != nil:
			found = hasUnknown(v.Message())
		}
		return !found
	})
	return found
}

// representability of a decoded value by the gogoproto Go types.
//
//	acceptable: the gogoproto decoder has to take it
//	exact     : … and re-encodes it to the same bytes (nothing to normalise)
func representable(m protoreflect.Message, via *fieldOpt) (acceptable, exact bool) {
	acceptable, exact = true, true
	md := m.Descriptor()
	if via != nil && via.Stdtime && md.FullName() == "google.protobuf.Timestamp" {
		s := m.Get(md.Fields().ByName("seconds")).Int()
		n := m.Get(md.Fields().ByName("nanos")).Int()
		ok := s >= minTimeSeconds && s <= maxTimeSeconds && n >= 0 && n < 1e9
		return ok, ok
	}
	if via != nil && via.Stdduration && md.FullName() == "google.protobuf.Duration" {
		s := m.Get(md.Fields().ByName("seconds")).Int()
		n := m.Get(md.Fields().ByName("nanos")).Int()
		const maxSeconds = int64(10000 * 365.25 * 24 * 60 * 60)
		if s < -maxSeconds || s > maxSeconds || n <= -1e9 || n >= 1e9 || (s < 0 && n > 0) || (s > 0 && n < 0) {
			return false, false
		}
		total := new(big.Int).Add(new(big.Int).Mul(big.NewInt(s), big.NewInt(1e9)), big.NewInt(n))
		ok := total.IsInt64()
		return ok, ok
	}
	fs := md.Fields()
	for i := 0; i < fs.Len(); i++ {
		fd := fs.Get(i)
		o := optsOf(fd)
		if mandatory(fd) && !m.Has(fd) {
			exact = false
		}
		if !m.Has(fd) {
			continue
		}
		v := m.Get(fd)
		one := func(x protoreflect.Value, elem bool) {
			if sub := fd.Message(); sub != nil && !fd.IsMap() {
				a, e := representable(x.Message(), &o)
				acceptable = acceptable && a
				exact = exact && e
				return
			}
			if bits, num := numeralBits(o); num && fd.Kind() == protoreflect.StringKind {
				s := x.String()
				if s == "" {
					// decodes to a nil number, written back as "0"
					exact = false
					return
				}
				z := new(big.Int)
				if err := z.UnmarshalText([]byte(s)); err != nil || z.BitLen() > bits {
					acceptable, exact = false, false
					return
				}
				if z.String() != s {
					exact = false
				}
			}
		}
		switch {
		case fd.IsMap():
			v.Map().Range(func(_ protoreflect.MapKey, mv protoreflect.Value) bool {
				if sub := fd.MapValue().Message(); sub != nil {
					a, e := representable(mv.Message(), nil)
					acceptable = acceptable && a
					exact = exact && e
				}
				return true
			})
		case fd.IsList():
			for j := 0; j < v.List().Len(); j++ {
				one(v.List().Get(j), true)
			}
		default:
			one(v, false)
		}
	}
	return
}

func fuzzCore(c fuzzCase) (error, bool, []string) {
	md, derr := apiDescriptor(c.Type)
	mt, aerr := apiType(c.Type)
	_, gerr := gogoNew(c.Type)
	if derr != nil || aerr != nil || gerr != nil {
		return pbt.Failf("C20/wire-type-missing", "%s: api descriptor: %v; api Go type: %v; gogoproto Go type: %v", c.Type, derr, aerr, gerr), false, nil
	}
	data, herr := hex.DecodeString(c.Hex)
	if herr != nil {
		return pbt.Failf("harness/bad-case", "hex: %v", herr), false, nil
	}
	excl := map[protoreflect.FullName]bool{}
	for _, f := range c.Exclude {
		excl[protoreflect.FullName(f)] = true
	}
	strip := func(b []byte) []byte {
		s, err := stripFields(md, b, excl)
		if err != nil {
			return b
		}
		return s
	}
	data = strip(data)
	if c.FillMapValues {
		data, _ = mapValueWalk(md, data, "fill", nil)
	}

	var p proto.Message
	var g gogoproto.Message
	var pErr, gErr error
	if e := safely(func() error { p, pErr = apiDecode(mt, data); return nil }); e != nil {
		// a nil map value met by proto.checkInitialized: the recorded finding (the entry boundaries the generated
		// decoders honour are too loose to re-create "entry without value" from outside, so go by the stack)
		if es := e.Error(); hasMessageMap(md, map[protoreflect.FullName]bool{}) && strings.Contains(es, "nil pointer dereference") &&
			strings.Contains(es, "_map).Range") && strings.Contains(es, "checkInitialized") {
			return pbt.Failf(sigValuelessMap, "%s: the api decoder panics on %s (map entry without a value): %v", c.Type, short(data), e), false, nil
		}
		return pbt.Failf("C20/fuzz-panic", "%s: api decoder panics on %s: %v", c.Type, short(data), e), false, nil
	}
	if e := safely(func() error { g, gErr = gogoDecode(c.Type, data); return nil }); e != nil {
		return pbt.Failf("C20/fuzz-panic", "%s: gogoproto decoder panics on %s: %v", c.Type, short(data), e), false, nil
	}
	d := dynamicpb.NewMessage(md)
	var dErr error
	// protobuf-go 1.34's reflection-based map decoder panics ("cannot convert nil to map key") on an entry whose
	// key occurs a second time with a wrong wire type: such input is outside the compared domain anyway
	if e := safely(func() error { dErr = proto.Unmarshal(data, d); return nil }); e != nil {
		dErr = e
	}
	var shape wireShapeInfo
	walkWire(md, data, &shape, 0)

	classes := []string{}
	if shape.malformed {
		// not an encoding by the standard's rules (truncated, tag with a field number beyond 2^29-1, …).  The
		// generated decoders of both families share a leniency here (they truncate the field number to int32)
		// and embedded well-known types use other decoders, so only agreement is counted.
		switch {
		case (pErr == nil) != (gErr == nil):
			classes = append(classes, "malformed-decoders-disagree")
		case pErr == nil:
			classes = append(classes, "malformed-accepted-by-both")
		default:
			classes = append(classes, "malformed-rejected-by-both")
		}
		return nil, false, classes
	}
	wellFormed := dErr == nil && !hasUnknown(d) && !shape.dupMsg
	if !wellFormed {
		switch {
		case (pErr == nil) != (gErr == nil):
			classes = append(classes, "outside-domain-decoders-disagree")
		case pErr == nil:
			classes = append(classes, "outside-domain-both-accept")
		default:
			classes = append(classes, "outside-domain-both-reject")
		}
		return nil, false, classes
	}
	acceptable, exact := representable(d, nil)
	if pErr != nil {
		return pbt.Failf("C20/fuzz-api-rejects-valid", "%s: well-formed encoding %s rejected by the api type: %v", c.Type, short(data), pErr), false, nil
	}
	if acceptable && gErr != nil {
		return pbt.Failf("C20/fuzz-gogo-rejects-valid", "%s: well-formed, representable encoding %s rejected by the gogoproto type: %v", c.Type, short(data), gErr), false, nil
	}
	if !acceptable {
		if gErr == nil {
			return pbt.Failf("C20/fuzz-gogo-accepts-unrepresentable", "%s: gogoproto type accepts %s although a customtype/std field holds an unrepresentable value", c.Type, short(data)), false, nil
		}
		return nil, false, append(classes, "well-formed-unrepresentable-rejected-by-gogo")
	}
	var vi valueInfo
	inspect(d, &vi)
	same := func(x, y []byte) bool {
		if !vi.multiMap {
			return bytes.Equal(x, y)
		}
		if len(x) != len(y) {
			return false
		}
		mx, e1 := apiDecode(mt, x)
		my, e2 := apiDecode(mt, y)
		return e1 == nil && e2 == nil && proto.Equal(mx, my)
	}
	bgRaw, err := gogoproto.Marshal(g)
	if err != nil {
		return pbt.Failf("C20/wire-gogo-marshal", "%s: %v", c.Type, err), false, nil
	}
	bg := strip(bgRaw)
	pb, err := proto.Marshal(p)
	if err != nil {
		return pbt.Failf("C20/wire-api-marshal", "%s: %v", c.Type, err), false, nil
	}
	g2, err := gogoDecode(c.Type, pb)
	if err != nil {
		return pbt.Failf("C20/fuzz-gogo-rejects-api-reencoding", "%s: input %s, api re-encoding %s: %v", c.Type, short(data), short(pb), err), false, nil
	}
	bg2Raw, err := gogoproto.Marshal(g2)
	if err != nil {
		return pbt.Failf("C20/wire-gogo-marshal", "%s: %v", c.Type, err), false, nil
	}
	if bg2 := strip(bg2Raw); !same(bg, bg2) {
		return pbt.Failf("C20/fuzz-canonical-differs", "%s: input %s: gogoproto re-encoding %s, after a detour through the api type %s", c.Type, short(data), short(bg), short(bg2)), false, nil
	}
	if _, err := apiDecode(mt, bg); err != nil {
		return pbt.Failf("C20/fuzz-api-rejects-gogo-reencoding", "%s: input %s, gogoproto re-encoding %s: %v", c.Type, short(data), short(bg), err), false, nil
	}
	if exact {
		classes = append(classes, "exactly-representable")
		if !same(pb, bg) {
			return pbt.Failf("C20/fuzz-bytes-differ", "%s: input %s: api re-encoding %s, gogoproto re-encoding %s", c.Type, short(data), short(pb), short(bg)), false, nil
		}
	} else {
		classes = append(classes, "normalised-by-gogo")
	}
	det, _ := proto.MarshalOptions{Deterministic: true}.Marshal(d)
	if bytes.Equal(det, data) {
		classes = append(classes, "canonical-input")
	} else {
		classes = append(classes, "non-canonical-input")
	}
	return nil, vi.nested && vi.repeated && vi.scalar, append(classes, "well-formed-both-accept")
}

func checkFuzz(c fuzzCase) (error, bool, []string) {
	err, nt, classes := fuzzCore(c)
	if err == nil {
		return nil, nt, classes
	}
	var v *pbt.Violation
	if md, derr := apiDescriptor(c.Type); derr == nil && errors.As(err, &v) && strings.HasPrefix(v.Sig, "C20/fuzz-") {
		for _, ff := range fieldFindings {
			if contains(c.Exclude, string(ff.Field)) || !reaches(md, ff.Field) {
				continue
			}
			c2 := c
			c2.Exclude = append(append([]string{}, c.Exclude...), string(ff.Field))
			var e2 error
			if p := safely(func() error { e2, _, _ = fuzzCore(c2); return nil }); p == nil && e2 == nil {
				return pbt.Failf(ff.Sig, "%s: the decoders disagree on %s, and agree once field %s is left out: %s: %s", c.Type, c.Hex, ff.Field, v.Sig, v.Msg), false, nil
			}
		}
	}
	return err, false, nil
}

func init() { pbt.RegisterPure("fuzz", checkFuzz) }

// FuzzC20Wire: go test -fuzz target (thorough tier only; as a plain test it runs the seed corpus).
func FuzzC20Wire(f *testing.F) {
	types, err := wireTypes()
	if err != nil || len(types) == 0 {
		f.Fatalf("harness: no message types (%v)", err)
	}
	for i, typ := range types {
		typ := typ
		f.Add(uint16(i), []byte{})
		g := rapid.Custom(func(t *rapid.T) wireCase { return genWireCase(t, typ) })
		for k := 1; k <= 3; k++ {
			c := g.Example(k)
			bz, _ := hex.DecodeString(c.Hex)
			f.Add(uint16(i), bz)
		}
	}
	st := pbt.NewStats("C20", "fuzz", "well-formed encoding accepted by both decoders")
	f.Cleanup(st.Flush)
	f.Fuzz(func(t *testing.T, idx uint16, data []byte) {
		c := fuzzCase{Type: types[int(idx)%len(types)], Hex: hex.EncodeToString(data)}
		if md, err := apiDescriptor(c.Type); err == nil {
			c.Exclude, _ = activeExclusions(md)
		}
		c.FillMapValues = avoidValuelessMap()
		var nt bool
		var classes []string
		err := safely(func() error {
			var e error
			e, nt, classes = checkFuzz(c)
			return e
		})
		if err != nil {
			var v *pbt.Violation
			if errors.As(err, &v) && pbt.IsKnown(v.Sig) {
				st.Exclude(v.Sig)
				return
			}
			p := writeViolationFile("fuzz", int(idx)%len(types), c, err)
			t.Fatalf("VIOLATION-FILE %s\n%v", p, err)
		}
		st.Case(c, nt, classes)
	})
}

// TestC20FuzzNative runs the native fuzzer from inside an ordinary test, so that the check driver (which only
// knows -test.run) can use it in the thorough tier: it re-executes this test binary with -test.fuzz for
// $VERIF_C20_FUZZTIME (default 120s in the thorough tier; skipped in the quick tier unless the variable is set).
// The binary built by `go test -c` carries no coverage instrumentation, so this is mutation of the generated seed
// corpus without coverage guidance (about 80 000 executions per second on 16 workers); see the package report for
// the instrumented invocation.
func TestC20FuzzNative(t *testing.T) {
	dur := os.Getenv("VERIF_C20_FUZZTIME")
	if dur == "" {
		if os.Getenv("VERIF_TIER") != "thorough" {
			t.Skip("native fuzzing runs in the thorough tier (or with VERIF_C20_FUZZTIME=60s)")
		}
		dur = "120s"
	}
	dir := pbt.OutDir()
	cmd := exec.Command(os.Args[0], "-test.run", "^$", "-test.fuzz", "^FuzzC20Wire$", "-test.fuzztime", dur,
		"-test.fuzzcachedir", filepath.Join(dir, "fuzzcache"), "-test.timeout", "0")
	cmd.Dir = dir
	cmd.Env = os.Environ()
	out, err := cmd.CombinedOutput()
	text := string(out)
	if i := strings.Index(text, "VIOLATION-FILE"); i >= 0 {
		end := i + 3000
		if end > len(text) {
			end = len(text)
		}
		t.Fatalf("%s", text[i:end])
	}
	if err != nil {
		if len(text) > 3000 {
			text = text[len(text)-3000:]
		}
		t.Fatalf("harness: native fuzzing did not run to completion: %v\n%s", err, text)
	}
	lines := strings.Split(strings.TrimSpace(text), "\n")
	if len(lines) > 3 {
		lines = lines[len(lines)-3:]
	}
	t.Log(strings.Join(lines, "\n"))
}
