package c20

// Both generated families are linked into this test binary: every package under
// mods.irisnet.org/api/irismod/... (protobuf-go "pulsar" code, registers with protoregistry.GlobalFiles /
// GlobalTypes) and every mods.irisnet.org/modules/*/types package (gogoproto code, registers with the
// gogoproto registry).  The table below also gives access to the hand-registered gRPC service descriptors
// of both families (`*_grpc.pb.go` on the api side, `_Msg_serviceDesc`/`_Query_serviceDesc` on the gogo side,
// the latter captured through the generated Register*Server functions).

import (
	"context"
	"errors"

	"google.golang.org/grpc"

	apicoinswap "mods.irisnet.org/api/irismod/coinswap"
	_ "mods.irisnet.org/api/irismod/coinswap/module/v1"
	apifarm "mods.irisnet.org/api/irismod/farm"
	_ "mods.irisnet.org/api/irismod/farm/module/v1"
	apihtlc "mods.irisnet.org/api/irismod/htlc"
	_ "mods.irisnet.org/api/irismod/htlc/module/v1"
	apimt "mods.irisnet.org/api/irismod/mt"
	_ "mods.irisnet.org/api/irismod/mt/module/v1"
	apinft "mods.irisnet.org/api/irismod/nft"
	_ "mods.irisnet.org/api/irismod/nft/module/v1"
	apioracle "mods.irisnet.org/api/irismod/oracle"
	_ "mods.irisnet.org/api/irismod/oracle/module/v1"
	apirandom "mods.irisnet.org/api/irismod/random"
	_ "mods.irisnet.org/api/irismod/random/module/v1"
	apirecord "mods.irisnet.org/api/irismod/record"
	_ "mods.irisnet.org/api/irismod/record/module/v1"
	apiservice "mods.irisnet.org/api/irismod/service"
	_ "mods.irisnet.org/api/irismod/service/module/v1"
	_ "mods.irisnet.org/api/irismod/token/module/v1"
	apitokenv1 "mods.irisnet.org/api/irismod/token/v1"
	apitokenv1beta1 "mods.irisnet.org/api/irismod/token/v1beta1"

	coinswaptypes "mods.irisnet.org/modules/coinswap/types"
	farmtypes "mods.irisnet.org/modules/farm/types"
	htlctypes "mods.irisnet.org/modules/htlc/types"
	mttypes "mods.irisnet.org/modules/mt/types"
	nfttypes "mods.irisnet.org/modules/nft/types"
	oracletypes "mods.irisnet.org/modules/oracle/types"
	randomtypes "mods.irisnet.org/modules/random/types"
	recordtypes "mods.irisnet.org/modules/record/types"
	servicetypes "mods.irisnet.org/modules/service/types"
	_ "mods.irisnet.org/modules/token/types"
	tokenv1 "mods.irisnet.org/modules/token/types/v1"
	tokenv1beta1 "mods.irisnet.org/modules/token/types/v1beta1"
)

// capture implements the gogoproto grpc.Server interface and remembers the service descriptors handed to it.
type capture struct{ descs []*grpc.ServiceDesc }

func (c *capture) RegisterService(sd *grpc.ServiceDesc, _ interface{}) { c.descs = append(c.descs, sd) }

// grpcPair is one service as hand-registered by the two families.
type grpcPair struct {
	Name string
	API  *grpc.ServiceDesc
	Gogo *grpc.ServiceDesc
}

func grpcPairs() []grpcPair {
	c := &capture{}
	coinswaptypes.RegisterMsgServer(c, nil)
	coinswaptypes.RegisterQueryServer(c, nil)
	farmtypes.RegisterMsgServer(c, nil)
	farmtypes.RegisterQueryServer(c, nil)
	htlctypes.RegisterMsgServer(c, nil)
	htlctypes.RegisterQueryServer(c, nil)
	mttypes.RegisterMsgServer(c, nil)
	mttypes.RegisterQueryServer(c, nil)
	nfttypes.RegisterMsgServer(c, nil)
	nfttypes.RegisterQueryServer(c, nil)
	oracletypes.RegisterMsgServer(c, nil)
	oracletypes.RegisterQueryServer(c, nil)
	randomtypes.RegisterMsgServer(c, nil)
	randomtypes.RegisterQueryServer(c, nil)
	recordtypes.RegisterMsgServer(c, nil)
	recordtypes.RegisterQueryServer(c, nil)
	servicetypes.RegisterMsgServer(c, nil)
	servicetypes.RegisterQueryServer(c, nil)
	tokenv1.RegisterMsgServer(c, nil)
	tokenv1.RegisterQueryServer(c, nil)
	tokenv1beta1.RegisterMsgServer(c, nil)
	tokenv1beta1.RegisterQueryServer(c, nil)
	api := []*grpc.ServiceDesc{
		&apicoinswap.Msg_ServiceDesc, &apicoinswap.Query_ServiceDesc,
		&apifarm.Msg_ServiceDesc, &apifarm.Query_ServiceDesc,
		&apihtlc.Msg_ServiceDesc, &apihtlc.Query_ServiceDesc,
		&apimt.Msg_ServiceDesc, &apimt.Query_ServiceDesc,
		&apinft.Msg_ServiceDesc, &apinft.Query_ServiceDesc,
		&apioracle.Msg_ServiceDesc, &apioracle.Query_ServiceDesc,
		&apirandom.Msg_ServiceDesc, &apirandom.Query_ServiceDesc,
		&apirecord.Msg_ServiceDesc, &apirecord.Query_ServiceDesc,
		&apiservice.Msg_ServiceDesc, &apiservice.Query_ServiceDesc,
		&apitokenv1.Msg_ServiceDesc, &apitokenv1.Query_ServiceDesc,
		&apitokenv1beta1.Msg_ServiceDesc, &apitokenv1beta1.Query_ServiceDesc,
	}
	byName := map[string]*grpcPair{}
	var order []string
	get := func(n string) *grpcPair {
		if p, ok := byName[n]; ok {
			return p
		}
		byName[n] = &grpcPair{Name: n}
		order = append(order, n)
		return byName[n]
	}
	for _, d := range api {
		get(d.ServiceName).API = d
	}
	for _, d := range c.descs {
		get(d.ServiceName).Gogo = d
	}
	out := make([]grpcPair, 0, len(order))
	for _, n := range order {
		out = append(out, *byName[n])
	}
	return out
}

// recConn is a client connection that only records which method a generated client invokes.
type recConn struct{ methods []string }

func (r *recConn) Invoke(_ context.Context, method string, _, _ interface{}, _ ...grpc.CallOption) error {
	r.methods = append(r.methods, method)
	return nil
}

func (r *recConn) NewStream(_ context.Context, _ *grpc.StreamDesc, method string, _ ...grpc.CallOption) (grpc.ClientStream, error) {
	r.methods = append(r.methods, method)
	return nil, errors.New("recConn: no streams")
}

// grpcClients returns, per service name, the generated client of the api family and of the gogoproto family, both
// talking to cc.
func grpcClients(cc *recConn) map[string][2]interface{} {
	return map[string][2]interface{}{
		apicoinswap.Msg_ServiceDesc.ServiceName:       {apicoinswap.NewMsgClient(cc), coinswaptypes.NewMsgClient(cc)},
		apicoinswap.Query_ServiceDesc.ServiceName:     {apicoinswap.NewQueryClient(cc), coinswaptypes.NewQueryClient(cc)},
		apifarm.Msg_ServiceDesc.ServiceName:           {apifarm.NewMsgClient(cc), farmtypes.NewMsgClient(cc)},
		apifarm.Query_ServiceDesc.ServiceName:         {apifarm.NewQueryClient(cc), farmtypes.NewQueryClient(cc)},
		apihtlc.Msg_ServiceDesc.ServiceName:           {apihtlc.NewMsgClient(cc), htlctypes.NewMsgClient(cc)},
		apihtlc.Query_ServiceDesc.ServiceName:         {apihtlc.NewQueryClient(cc), htlctypes.NewQueryClient(cc)},
		apimt.Msg_ServiceDesc.ServiceName:             {apimt.NewMsgClient(cc), mttypes.NewMsgClient(cc)},
		apimt.Query_ServiceDesc.ServiceName:           {apimt.NewQueryClient(cc), mttypes.NewQueryClient(cc)},
		apinft.Msg_ServiceDesc.ServiceName:            {apinft.NewMsgClient(cc), nfttypes.NewMsgClient(cc)},
		apinft.Query_ServiceDesc.ServiceName:          {apinft.NewQueryClient(cc), nfttypes.NewQueryClient(cc)},
		apioracle.Msg_ServiceDesc.ServiceName:         {apioracle.NewMsgClient(cc), oracletypes.NewMsgClient(cc)},
		apioracle.Query_ServiceDesc.ServiceName:       {apioracle.NewQueryClient(cc), oracletypes.NewQueryClient(cc)},
		apirandom.Msg_ServiceDesc.ServiceName:         {apirandom.NewMsgClient(cc), randomtypes.NewMsgClient(cc)},
		apirandom.Query_ServiceDesc.ServiceName:       {apirandom.NewQueryClient(cc), randomtypes.NewQueryClient(cc)},
		apirecord.Msg_ServiceDesc.ServiceName:         {apirecord.NewMsgClient(cc), recordtypes.NewMsgClient(cc)},
		apirecord.Query_ServiceDesc.ServiceName:       {apirecord.NewQueryClient(cc), recordtypes.NewQueryClient(cc)},
		apiservice.Msg_ServiceDesc.ServiceName:        {apiservice.NewMsgClient(cc), servicetypes.NewMsgClient(cc)},
		apiservice.Query_ServiceDesc.ServiceName:      {apiservice.NewQueryClient(cc), servicetypes.NewQueryClient(cc)},
		apitokenv1.Msg_ServiceDesc.ServiceName:        {apitokenv1.NewMsgClient(cc), tokenv1.NewMsgClient(cc)},
		apitokenv1.Query_ServiceDesc.ServiceName:      {apitokenv1.NewQueryClient(cc), tokenv1.NewQueryClient(cc)},
		apitokenv1beta1.Msg_ServiceDesc.ServiceName:   {apitokenv1beta1.NewMsgClient(cc), tokenv1beta1.NewMsgClient(cc)},
		apitokenv1beta1.Query_ServiceDesc.ServiceName: {apitokenv1beta1.NewQueryClient(cc), tokenv1beta1.NewQueryClient(cc)},
	}
}
