package c20

import (
	"bytes"
	"crypto/sha256"
	"errors"
	"fmt"
	"sort"
	"strings"
	"sync"
	"testing"

	msgv1 "cosmossdk.io/api/cosmos/msg/v1"
	"cosmossdk.io/core/address"
	"cosmossdk.io/x/tx/signing"
	cosmos_proto "github.com/cosmos/cosmos-proto"
	codectypes "github.com/cosmos/cosmos-sdk/codec/types"
	sdk "github.com/cosmos/cosmos-sdk/types"
	gogoproto "github.com/cosmos/gogoproto/proto"
	"google.golang.org/protobuf/proto"
	"google.golang.org/protobuf/reflect/protoreflect"
	"google.golang.org/protobuf/types/descriptorpb"
	"google.golang.org/protobuf/types/dynamicpb"

	"verifharness/chain"
	"verifharness/gen"
	"verifharness/pbt"
)

// Oracle 3 of C20: every request type of every Msg service is registered as an sdk.Msg, declares
// cosmos.msg.v1.signer naming an existing string field (directly, or through a nested message that declares
// its own signer), and the x/tx signing context of the app returns exactly the address put there.

type signerItem struct {
	Service string   `json:"service"`
	Method  string   `json:"method"`
	Request string   `json:"request"`
	Exclude []string `json:"exclude,omitempty"` // fields left out of the gogoproto-encoded variant (known findings)
}

func signerItems() ([]signerItem, error) {
	u := loadUniverse()
	if u.err != nil {
		return nil, u.err
	}
	seen := map[string]bool{}
	var items []signerItem
	add := func(fd *descriptorpb.FileDescriptorProto) {
		for _, s := range fd.Service {
			if s.GetName() != "Msg" {
				continue
			}
			for _, m := range s.Method {
				it := signerItem{Service: fd.GetPackage() + "." + s.GetName(), Method: m.GetName(), Request: strings.TrimPrefix(m.GetInputType(), ".")}
				k := it.Service + "/" + it.Method + "/" + it.Request
				if seen[k] {
					continue
				}
				seen[k] = true
				if md, err := apiDescriptor(it.Request); err == nil {
					it.Exclude, _ = activeExclusions(md)
				}
				items = append(items, it)
			}
		}
	}
	for _, fn := range keys(u.api) {
		add(u.api[fn])
	}
	for _, fn := range keys(u.gogo) {
		add(u.gogo[fn])
	}
	sort.Slice(items, func(i, j int) bool {
		return items[i].Service+"/"+items[i].Method < items[j].Service+"/"+items[j].Method
	})
	return items, nil
}

func findMessageProto(files map[string]*descriptorpb.FileDescriptorProto, name string) *descriptorpb.DescriptorProto {
	for _, fd := range files {
		if m := flatten(fd).messages[name]; m != nil {
			return m
		}
	}
	return nil
}

func signerOption(m *descriptorpb.DescriptorProto) []string {
	if m == nil || m.Options == nil {
		return nil
	}
	s, _ := proto.GetExtension(m.Options, msgv1.E_Signer).([]string)
	return s
}

// testAddress derives the k-th address for a request type (lengths 20, 32, 1 and 255 bytes).
func testAddress(req string, k int) []byte {
	lens := []int{20, 32, 1, 255}
	n := lens[k%len(lens)]
	var out []byte
	for i := 0; len(out) < n; i++ {
		h := sha256.Sum256([]byte(fmt.Sprintf("%s|%d|%d", req, k, i)))
		out = append(out, h[:]...)
	}
	return out[:n]
}

// placeSigners walks the signer declaration of md, writes fresh addresses into m and returns the addresses
// in the order the declaration names them.  variant selects the address lengths.
func placeSigners(m protoreflect.Message, codecOf func(protoreflect.FieldDescriptor) address.Codec, req string, variant int, depth int, counter *int) ([][]byte, error) {
	md := m.Descriptor()
	if depth > 8 {
		return nil, pbt.Failf("C20/signers-bad-field", "%s: signer declaration nests deeper than 8 messages", md.FullName())
	}
	names, _ := proto.GetExtension(md.Options(), msgv1.E_Signer).([]string)
	if len(names) == 0 {
		return nil, pbt.Failf("C20/signers-no-signer-option", "%s declares no cosmos.msg.v1.signer", md.FullName())
	}
	if depth > 0 && len(names) != 1 {
		return nil, pbt.Failf("C20/signers-bad-field", "nested message %s must name exactly one signer field, names %v", md.FullName(), names)
	}
	var want [][]byte
	next := func(fd protoreflect.FieldDescriptor) (string, []byte, error) {
		bz := testAddress(req, variant+*counter)
		*counter++
		s, err := codecOf(fd).BytesToString(bz)
		if err != nil {
			return "", nil, pbt.Failf("harness/address", "cannot encode a %d-byte address: %v", len(bz), err)
		}
		return s, bz, nil
	}
	for _, n := range names {
		fd := md.Fields().ByName(protoreflect.Name(n))
		if fd == nil {
			return nil, pbt.Failf("C20/signers-bad-field", "%s: cosmos.msg.v1.signer names %q, which is not a field of the message", md.FullName(), n)
		}
		if fd.IsMap() || fd.HasOptionalKeyword() {
			return nil, pbt.Failf("C20/signers-bad-field", "%s.%s: signer field is a map or optional", md.FullName(), n)
		}
		reps := 1
		if fd.IsList() {
			reps = 2
		}
		switch fd.Kind() {
		case protoreflect.StringKind:
			for r := 0; r < reps; r++ {
				s, bz, err := next(fd)
				if err != nil {
					return nil, err
				}
				if fd.IsList() {
					m.Mutable(fd).List().Append(protoreflect.ValueOfString(s))
				} else {
					m.Set(fd, protoreflect.ValueOfString(s))
				}
				want = append(want, bz)
			}
		case protoreflect.MessageKind:
			for r := 0; r < reps; r++ {
				var child protoreflect.Message
				if fd.IsList() {
					child = m.Mutable(fd).List().AppendMutable().Message()
				} else {
					child = m.Mutable(fd).Message()
				}
				w, err := placeSigners(child, codecOf, req, variant, depth+1, counter)
				if err != nil {
					return nil, err
				}
				want = append(want, w...)
			}
		default:
			return nil, pbt.Failf("C20/signers-bad-field", "%s.%s: signer field has kind %s, not string", md.FullName(), n, fd.Kind())
		}
	}
	return want, nil
}

func sameSigners(a, b [][]byte) bool {
	if len(a) != len(b) {
		return false
	}
	for i := range a {
		if !bytes.Equal(a[i], b[i]) {
			return false
		}
	}
	return true
}

var (
	gogoCtxOnce sync.Once
	gogoCtx     *signing.Context
	gogoCtxErr  error
)

// gogoSigningContext: a signing context that sees only the descriptors registered by the gogoproto family.
func gogoSigningContext(app *signing.Context) (*signing.Context, error) {
	gogoCtxOnce.Do(func() {
		files, ok := gogoproto.GogoResolver.(signing.ProtoFileResolver)
		if !ok {
			gogoCtxErr = fmt.Errorf("gogoproto resolver %T cannot range over files", gogoproto.GogoResolver)
			return
		}
		gogoCtx, gogoCtxErr = signing.NewContext(signing.Options{FileResolver: files,
			AddressCodec: app.AddressCodec(), ValidatorAddressCodec: app.ValidatorAddressCodec()})
	})
	return gogoCtx, gogoCtxErr
}

var (
	envOnce sync.Once
	envVal  *chain.Env
	envErr  error
)

// safeEnv builds the app once; an app that cannot be built (runtime validates every Msg service's signer
// declarations while wiring the modules) is a violation of its own, reported once.
func safeEnv() (*chain.Env, error) {
	envOnce.Do(func() {
		defer func() {
			if p := recover(); p != nil {
				msg := fmt.Sprint(p)
				if len(msg) > 1500 {
					msg = msg[:1500]
				}
				envErr = pbt.Failf("C20/signers-app-cannot-be-built", "building the app with all ten modules panics: %s", msg)
			}
		}()
		envVal = gen.Env()
	})
	return envVal, envErr
}

func checkSigner(it signerItem) (error, bool, []string) {
	u := loadUniverse()
	if u.err != nil {
		return pbt.Failf("harness/universe", "%v", u.err), false, nil
	}
	env, eerr := safeEnv()
	if eerr != nil {
		return eerr, false, nil
	}
	app := env.App
	ir := app.InterfaceRegistry()
	url := "/" + it.Request
	classes := []string{"method"}

	// --- registration -------------------------------------------------------------------------------
	resolved, err := ir.Resolve(url)
	if err != nil {
		return pbt.Failf("C20/signers-not-registered", "%s.%s: request type %s does not resolve in the app's interface registry: %v", it.Service, it.Method, it.Request, err), false, classes
	}
	if _, ok := resolved.(sdk.Msg); !ok {
		return pbt.Failf("C20/signers-not-registered", "%s resolves to %T, which is not an sdk.Msg", url, resolved), false, classes
	}
	if want := gogoproto.MessageType(it.Request); want == nil || fmt.Sprintf("%T", resolved) != want.String() {
		return pbt.Failf("C20/signers-not-registered", "%s resolves to %T, the gogoproto type registered under that name is %v", url, resolved, want), false, classes
	}
	if !contains(ir.ListImplementations(sdk.MsgInterfaceProtoName), url) {
		return pbt.Failf("C20/signers-not-registered", "%s is not listed among the implementations of %s", url, sdk.MsgInterfaceProtoName), false, classes
	}
	var asMsg sdk.Msg
	if err := ir.UnpackAny(&codectypes.Any{TypeUrl: url}, &asMsg); err != nil || asMsg == nil {
		return pbt.Failf("C20/signers-not-registered", "an Any with type url %s does not unpack as sdk.Msg: %v", url, err), false, classes
	}

	// --- signer declaration, both families -------------------------------------------------------------
	sg, sa := signerOption(findMessageProto(u.gogo, it.Request)), signerOption(findMessageProto(u.api, it.Request))
	if len(sg) == 0 || len(sa) == 0 {
		return pbt.Failf("C20/signers-no-signer-option", "%s: cosmos.msg.v1.signer gogoproto=%v api=%v", it.Request, sg, sa), false, classes
	}
	if !sameStrings(sg, sa) {
		return pbt.Failf("C20/signers-option-differs", "%s: cosmos.msg.v1.signer gogoproto=%v api=%v", it.Request, sg, sa), false, classes
	}

	// --- the signing context returns exactly the addresses put into the named field(s) -----------------
	sctx := app.TxConfig().SigningContext()
	if sctx == nil {
		return pbt.Failf("harness/signing-context", "TxConfig has no signing context"), false, classes
	}
	codecOf := func(fd protoreflect.FieldDescriptor) address.Codec {
		if s, _ := proto.GetExtension(fd.Options(), cosmos_proto.E_Scalar).(string); s == "cosmos.ValidatorAddressString" {
			return sctx.ValidatorAddressCodec()
		}
		return sctx.AddressCodec()
	}
	mt, err := apiType(it.Request)
	if err != nil {
		return pbt.Failf("C20/wire-type-missing", "%v", err), false, classes
	}
	gctx, err := gogoSigningContext(sctx)
	if err != nil {
		return pbt.Failf("harness/signing-context", "%v", err), false, classes
	}
	gd, err := gogoproto.GogoResolver.FindDescriptorByName(protoreflect.FullName(it.Request))
	if err != nil {
		return pbt.Failf("C20/desc-message-missing", "%s is not described by the gogoproto family: %v", it.Request, err), false, classes
	}
	excl := map[protoreflect.FullName]bool{}
	for _, f := range it.Exclude {
		excl[protoreflect.FullName(f)] = true
	}
	nested := false
	for variant := 0; variant < 4; variant++ {
		// (a) api message, app signing context
		pm := mt.New()
		n := 0
		want, err := placeSigners(pm, codecOf, it.Request, variant, 0, &n)
		if err != nil {
			return err, false, classes
		}
		for _, name := range sa {
			if fd := pm.Descriptor().Fields().ByName(protoreflect.Name(name)); fd != nil && (fd.Kind() == protoreflect.MessageKind || fd.IsList()) {
				nested = true
			}
		}
		got, err := sctx.GetSigners(pm.Interface())
		if err != nil || !sameSigners(got, want) {
			return pbt.Failf("C20/signers-wrong-signers", "%s (api message): signing context returns %x (%v), the signer field(s) %v hold %x", it.Request, got, err, sa, want), false, classes
		}
		// (b) dynamic message over the gogoproto family's descriptor, signing context over that family only
		dm := dynamicpb.NewMessage(gd.(protoreflect.MessageDescriptor))
		n = 0
		want2, err := placeSigners(dm, codecOf, it.Request, variant, 0, &n)
		if err != nil {
			return err, false, classes
		}
		got, err = gctx.GetSigners(dm)
		if err != nil || !sameSigners(got, want2) || !sameSigners(want, want2) {
			return pbt.Failf("C20/signers-wrong-signers", "%s (gogoproto descriptor): signing context returns %x (%v), the signer field(s) %v hold %x", it.Request, got, err, sg, want2), false, classes
		}
		// (c) the way a transaction takes: gogoproto-encoded message inside an Any, signers through the app codec
		bz, err := proto.Marshal(pm.Interface())
		if err != nil {
			return pbt.Failf("C20/wire-api-marshal", "%s: %v", it.Request, err), false, classes
		}
		gm, err := gogoDecode(it.Request, bz)
		if err != nil {
			return pbt.Failf("C20/wire-gogo-rejects-api-bytes", "%s: %v", it.Request, err), false, classes
		}
		gbz, err := gogoproto.Marshal(gm)
		if err != nil {
			return pbt.Failf("C20/wire-gogo-marshal", "%s: %v", it.Request, err), false, classes
		}
		viaAny := func(b []byte) ([][]byte, error) {
			s, _, err := app.AppCodec().GetMsgAnySigners(&codectypes.Any{TypeUrl: url, Value: b})
			return s, err
		}
		sb, serr := stripFields(pm.Descriptor(), gbz, excl)
		if serr != nil {
			sb = gbz
		}
		got, err = viaAny(sb)
		if err != nil || !sameSigners(got, want) {
			base := pbt.Failf("C20/signers-wrong-signers-gogo-encoded", "%s (gogoproto encoding %s in an Any): the app codec returns signers %x (%v), the signer field(s) %v hold %x", it.Request, short(gbz), got, err, sg, want)
			// attribution to a recorded one-field finding
			for _, ff := range fieldFindings {
				if excl[ff.Field] || !reaches(pm.Descriptor(), ff.Field) {
					continue
				}
				e2 := map[protoreflect.FullName]bool{ff.Field: true}
				for k := range excl {
					e2[k] = true
				}
				if sb2, err2 := stripFields(pm.Descriptor(), gbz, e2); err2 == nil {
					if got2, err3 := viaAny(sb2); err3 == nil && sameSigners(got2, want) {
						return pbt.Failf(ff.Sig, "%s: signers cannot be read from the gogoproto encoding, and can once field %s is left out: %v", it.Request, ff.Field, base), false, classes
					}
				}
			}
			return base, false, classes
		}
	}
	if len(it.Exclude) > 0 {
		classes = append(classes, "with-excluded-field")
	}
	if nested || len(sa) > 1 {
		classes = append(classes, "nested-or-multiple-signers")
	}
	return nil, true, classes
}

const signersRule = "Msg service method whose request type is registered and declares a signer (all of them are checked with 4 address lengths x 3 ways of reading the signers)"

func init() { pbt.RegisterPure("signers", checkSigner) }

// TestC20Signers enumerates every method of every Msg service of both families.
func TestC20Signers(t *testing.T) {
	items, err := signerItems()
	if err != nil || len(items) == 0 {
		t.Fatalf("harness: no Msg service methods (%v)", err)
	}
	st := pbt.NewStats("C20", "signers", signersRule)
	st.Exhaustive = true
	defer st.Flush()
	if _, err := safeEnv(); err != nil {
		p := writeViolationFile("signers", 0, items[0], err)
		t.Fatalf("VIOLATION-FILE %s\n%v", p, err)
	}
	for i, it := range items {
		for _, f := range it.Exclude {
			for _, ff := range fieldFindings {
				if string(ff.Field) == f {
					st.Exclude(ff.Sig)
				}
			}
		}
		var nt bool
		var classes []string
		it := it
		err := safely(func() error {
			var e error
			e, nt, classes = checkSigner(it)
			return e
		})
		if err != nil {
			var v *pbt.Violation
			if errors.As(err, &v) && pbt.IsKnown(v.Sig) {
				st.Exclude(v.Sig)
				continue
			}
			p := writeViolationFile("signers", i, it, err)
			t.Errorf("VIOLATION-FILE %s\n%v", p, err)
			continue
		}
		st.Case(it, nt, classes)
	}
}
