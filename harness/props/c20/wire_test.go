package c20

import (
	"bytes"
	"encoding/hex"
	"encoding/json"
	"errors"
	"fmt"
	"math"
	"math/big"
	"os"
	"path/filepath"
	"reflect"
	"runtime/debug"
	"sort"
	"strings"
	"sync"
	"testing"

	gogoproto "github.com/cosmos/gogoproto/proto"
	"google.golang.org/protobuf/encoding/prototext"
	"google.golang.org/protobuf/encoding/protowire"
	"google.golang.org/protobuf/proto"
	"google.golang.org/protobuf/reflect/protoreflect"
	"google.golang.org/protobuf/reflect/protoregistry"
	"google.golang.org/protobuf/types/dynamicpb"
	"pgregory.net/rapid"

	"verifharness/pbt"
)

// Oracle 2 of C20: a value of any irismod message type survives the trip through the other family.
//
// Values are generated from the message descriptor alone (protoreflect + dynamicpb) and encoded with the
// standard protobuf-go encoder.  From the api side the value is restricted to what the gogoproto Go types
// can represent (DESIGN §4 C20): fields marked (gogoproto.nullable)=false are populated, customtype Int /
// LegacyDec strings hold canonical numerals within range, std time / duration are within range.  From the
// gogoproto side the starting point is the gogoproto value decoded from the bytes, whatever it normalises.

// ---- field options ------------------------------------------------------------------------------------

const (
	extNullable    = 65001
	extCustomtype  = 65003
	extStdtime     = 65010
	extStdduration = 65011
)

type fieldOpt struct {
	NonNullable bool
	Customtype  string
	Stdtime     bool
	Stdduration bool
}

var (
	foMu    sync.Mutex
	foCache = map[protoreflect.FullName]fieldOpt{}
)

func optsOf(fd protoreflect.FieldDescriptor) fieldOpt {
	foMu.Lock()
	defer foMu.Unlock()
	if o, ok := foCache[fd.FullName()]; ok {
		return o
	}
	var o fieldOpt
	f := optionFields(fd.Options())
	if v, ok := f[extNullable]; ok {
		if x, n := protowire.ConsumeVarint(v); n > 0 && x == 0 {
			o.NonNullable = true
		}
	}
	if v, ok := f[extCustomtype]; ok {
		if s, n := protowire.ConsumeBytes(v); n > 0 {
			o.Customtype = string(s)
		}
	}
	if v, ok := f[extStdtime]; ok {
		if x, n := protowire.ConsumeVarint(v); n > 0 && x != 0 {
			o.Stdtime = true
		}
	}
	if v, ok := f[extStdduration]; ok {
		if x, n := protowire.ConsumeVarint(v); n > 0 && x != 0 {
			o.Stdduration = true
		}
	}
	foCache[fd.FullName()] = o
	return o
}

// numeralBits tells whether a string field is a big-number customtype and its bit bound.
func numeralBits(o fieldOpt) (int, bool) {
	switch {
	case strings.HasSuffix(o.Customtype, "math.Int") || strings.HasSuffix(o.Customtype, "types.Int"):
		return 256, true
	case strings.HasSuffix(o.Customtype, "math.LegacyDec") || strings.HasSuffix(o.Customtype, "types.Dec"):
		return 315, true
	}
	return 0, false
}

// ---- known findings that are excluded by leaving out exactly one field ---------------------------------

type fieldFinding struct {
	Sig   string
	Field protoreflect.FullName
}

var fieldFindings = []fieldFinding{
	// F13: declared cosmos.base.v1beta1.Coin, generated with customtype LegacyDec on the gogoproto side
	{Sig: "C20/wire-coinswap-params-fee", Field: "irismod.coinswap.Params.fee"},
}

// activeExclusions = fields of the findings listed as known (pbt.IsKnown) that are reachable from md.
func activeExclusions(md protoreflect.MessageDescriptor) (fields []string, sigs []string) {
	for _, ff := range fieldFindings {
		if pbt.IsKnown(ff.Sig) && reaches(md, ff.Field) {
			fields = append(fields, string(ff.Field))
			sigs = append(sigs, ff.Sig)
		}
	}
	return
}

var (
	reachMu    sync.Mutex
	reachCache = map[string]bool{}
)

// reaches reports whether a value of md can contain the field (through any chain of message fields).
func reaches(md protoreflect.MessageDescriptor, field protoreflect.FullName) bool {
	reachMu.Lock()
	defer reachMu.Unlock()
	return reachesRec(md, field, map[protoreflect.FullName]bool{})
}

func reachesRec(md protoreflect.MessageDescriptor, field protoreflect.FullName, seen map[protoreflect.FullName]bool) bool {
	key := string(md.FullName()) + "|" + string(field)
	if v, ok := reachCache[key]; ok {
		return v
	}
	if seen[md.FullName()] {
		return false
	}
	seen[md.FullName()] = true
	res := false
	fs := md.Fields()
	for i := 0; i < fs.Len() && !res; i++ {
		fd := fs.Get(i)
		if fd.FullName() == field {
			res = true
			break
		}
		if sub := fieldMessage(fd); sub != nil && reachesRec(sub, field, seen) {
			res = true
		}
	}
	delete(seen, md.FullName())
	reachCache[key] = res
	return res
}

// fieldMessage = message type carried by a field (singular, repeated or map value), nil for scalars.
func fieldMessage(fd protoreflect.FieldDescriptor) protoreflect.MessageDescriptor {
	if fd.IsMap() {
		return fd.MapValue().Message()
	}
	return fd.Message()
}

// stripFields removes every occurrence of the listed fields from an encoding of md (descriptor-driven walk
// over the wire format; everything else is copied verbatim).
func stripFields(md protoreflect.MessageDescriptor, b []byte, excl map[protoreflect.FullName]bool) ([]byte, error) {
	if len(excl) == 0 {
		return b, nil
	}
	touches := false
	for f := range excl {
		if reaches(md, f) {
			touches = true
		}
	}
	if !touches {
		return b, nil
	}
	var out []byte
	for len(b) > 0 {
		num, typ, n := protowire.ConsumeTag(b)
		if n < 0 {
			return nil, protowire.ParseError(n)
		}
		m := protowire.ConsumeFieldValue(num, typ, b[n:])
		if m < 0 {
			return nil, protowire.ParseError(m)
		}
		raw := b[:n+m]
		val := b[n : n+m]
		b = b[n+m:]
		fd := md.Fields().ByNumber(num)
		if fd == nil {
			out = append(out, raw...)
			continue
		}
		if excl[fd.FullName()] {
			continue
		}
		sub := fieldMessage(fd)
		if sub == nil || typ != protowire.BytesType {
			out = append(out, raw...)
			continue
		}
		inner, k := protowire.ConsumeBytes(val)
		if k < 0 {
			return nil, protowire.ParseError(k)
		}
		if fd.IsMap() {
			// map entry: field 2 is the value message
			var entry []byte
			e := inner
			for len(e) > 0 {
				en, et, x := protowire.ConsumeTag(e)
				if x < 0 {
					return nil, protowire.ParseError(x)
				}
				y := protowire.ConsumeFieldValue(en, et, e[x:])
				if y < 0 {
					return nil, protowire.ParseError(y)
				}
				if en == 2 && et == protowire.BytesType {
					v, _ := protowire.ConsumeBytes(e[x : x+y])
					sv, err := stripFields(sub, v, excl)
					if err != nil {
						return nil, err
					}
					entry = protowire.AppendTag(entry, en, et)
					entry = protowire.AppendBytes(entry, sv)
				} else {
					entry = append(entry, e[:x+y]...)
				}
				e = e[x+y:]
			}
			out = protowire.AppendTag(out, num, typ)
			out = protowire.AppendBytes(out, entry)
			continue
		}
		s, err := stripFields(sub, inner, excl)
		if err != nil {
			return nil, err
		}
		out = protowire.AppendTag(out, num, typ)
		out = protowire.AppendBytes(out, s)
	}
	return out, nil
}

// mapValueWalk rewrites message-valued map entries of an encoding of md:
//
//	mode "drop"  removes the value of the entries for which pick() says so (what gogoproto writes for a nil
//	             map value: `if v != nil { … }`),
//	mode "fill"  gives entries without a value an empty one,
//	mode "count" changes nothing.
//
// It returns the (possibly rewritten) bytes and the number of entries without a value in the result.
func mapValueWalk(md protoreflect.MessageDescriptor, b []byte, mode string, pick func() bool) ([]byte, int) {
	var out []byte
	valueless := 0
	for len(b) > 0 {
		num, typ, n, m := lenientField(b)
		if n < 0 {
			return append(out, b...), valueless
		}
		raw, val := b[:n+m], b[n:n+m]
		b = b[n+m:]
		fd := md.Fields().ByNumber(num)
		var sub protoreflect.MessageDescriptor
		if fd != nil {
			sub = fieldMessage(fd)
		}
		if sub == nil || typ != protowire.BytesType || sub.FullName() == "google.protobuf.Any" {
			out = append(out, raw...)
			continue
		}
		inner, _ := protowire.ConsumeBytes(val)
		if !fd.IsMap() {
			r, k := mapValueWalk(sub, inner, mode, pick)
			valueless += k
			out = protowire.AppendBytes(append(out, raw[:n]...), r)
			continue
		}
		var entry []byte
		has := false
		for e := inner; len(e) > 0; {
			en, et, x, y := lenientField(e)
			// inside an entry the generated decoders read field 1 as the key and field 2 as the value whatever
			// the wire type says
			if w, k := protowire.ConsumeVarint(e); k > 0 && (int32(w>>3) == 2 || (int32(w>>3) == 1 && wireTypeOf(fd.MapKey()) == protowire.BytesType)) {
				if _, l := protowire.ConsumeBytes(e[k:]); l > 0 {
					en, et, x, y = protowire.Number(w>>3), protowire.BytesType, k, l
				} else {
					x = -1
				}
			}
			if x < 0 {
				entry = append(entry, e...)
				break
			}
			if en == 2 && et == protowire.BytesType {
				if mode == "drop" && pick() {
					e = e[x+y:]
					continue
				}
				has = true
				v, _ := protowire.ConsumeBytes(e[x : x+y])
				r, k := mapValueWalk(sub, v, mode, pick)
				valueless += k
				entry = protowire.AppendBytes(append(entry, e[:x]...), r)
			} else {
				if en == 2 {
					has = true // the generated decoders read any field 2 as the value
				}
				entry = append(entry, e[:x+y]...)
			}
			e = e[x+y:]
		}
		if !has {
			if mode == "fill" {
				entry = protowire.AppendBytes(protowire.AppendTag(entry, 2, protowire.BytesType), nil)
			} else {
				valueless++
			}
		}
		out = protowire.AppendBytes(append(out, raw[:n]...), entry)
	}
	return out, valueless
}

// lenientField splits off one field the way the generated decoders of both families do: the tag is any varint
// of up to 10 bytes and the field number is truncated to int32 (the standard limits it to 2^29-1).
// It returns the field number, wire type, length of the tag and length of the value; n < 0 if not parseable.
func lenientField(b []byte) (protowire.Number, protowire.Type, int, int) {
	wire, n := protowire.ConsumeVarint(b)
	if n < 0 {
		return 0, 0, -1, 0
	}
	num := int32(wire >> 3)
	typ := protowire.Type(wire & 7)
	if num <= 0 {
		return 0, 0, -1, 0
	}
	var m int
	switch typ {
	case protowire.VarintType:
		_, m = protowire.ConsumeVarint(b[n:])
	case protowire.Fixed32Type:
		_, m = protowire.ConsumeFixed32(b[n:])
	case protowire.Fixed64Type:
		_, m = protowire.ConsumeFixed64(b[n:])
	case protowire.BytesType:
		_, m = protowire.ConsumeBytes(b[n:])
	case protowire.StartGroupType:
		// skip to the matching end group
		depth, i := 1, n
		for depth > 0 {
			if i >= len(b) {
				return 0, 0, -1, 0
			}
			w, k := protowire.ConsumeVarint(b[i:])
			if k < 0 {
				return 0, 0, -1, 0
			}
			i += k
			switch protowire.Type(w & 7) {
			case protowire.StartGroupType:
				depth++
			case protowire.EndGroupType:
				depth--
			case protowire.VarintType:
				_, k = protowire.ConsumeVarint(b[i:])
				if k < 0 {
					return 0, 0, -1, 0
				}
				i += k
			case protowire.Fixed32Type:
				i += 4
			case protowire.Fixed64Type:
				i += 8
			case protowire.BytesType:
				_, k = protowire.ConsumeBytes(b[i:])
				if k < 0 {
					return 0, 0, -1, 0
				}
				i += k
			default:
				return 0, 0, -1, 0
			}
		}
		if i > len(b) {
			return 0, 0, -1, 0
		}
		m = i - n
	default:
		return 0, 0, -1, 0
	}
	if m < 0 {
		return 0, 0, -1, 0
	}
	return protowire.Number(num), typ, n, m
}

// hasMessageMap: a value of md can contain a map with message values.
func hasMessageMap(md protoreflect.MessageDescriptor, seen map[protoreflect.FullName]bool) bool {
	if seen[md.FullName()] {
		return false
	}
	seen[md.FullName()] = true
	fs := md.Fields()
	for i := 0; i < fs.Len(); i++ {
		fd := fs.Get(i)
		if fd.IsMap() && fd.MapValue().Message() != nil {
			return true
		}
		if sub := fieldMessage(fd); sub != nil && hasMessageMap(sub, seen) {
			return true
		}
	}
	return false
}

// second finding of the wire oracle: the api decoder panics on a map entry without a value.
const sigValuelessMap = "C20/wire-api-panics-on-valueless-map-entry"

func avoidValuelessMap() bool {
	return pbt.IsKnown(sigValuelessMap) || os.Getenv("VERIF_C20_AVOID_VALUELESS_MAP") != ""
}

// ---- the two families ---------------------------------------------------------------------------------

func apiType(name string) (protoreflect.MessageType, error) {
	mt, err := protoregistry.GlobalTypes.FindMessageByName(protoreflect.FullName(name))
	if err != nil {
		return nil, fmt.Errorf("api family has no Go type for %s: %w", name, err)
	}
	return mt, nil
}

func gogoNew(name string) (gogoproto.Message, error) {
	t := gogoproto.MessageType(name)
	if t == nil || t.Kind() != reflect.Ptr {
		return nil, fmt.Errorf("gogoproto family has no Go type for %s", name)
	}
	m, ok := reflect.New(t.Elem()).Interface().(gogoproto.Message)
	if !ok {
		return nil, fmt.Errorf("gogoproto type of %s is not a message", name)
	}
	return m, nil
}

func gogoDecode(name string, b []byte) (gogoproto.Message, error) {
	m, err := gogoNew(name)
	if err != nil {
		return nil, err
	}
	if err := gogoproto.Unmarshal(b, m); err != nil {
		return nil, err
	}
	return m, nil
}

func apiDecode(mt protoreflect.MessageType, b []byte) (proto.Message, error) {
	m := mt.New().Interface()
	if err := proto.Unmarshal(b, m); err != nil {
		return nil, err
	}
	return m, nil
}

// wireTypes lists the message types subject to the wire oracle: every message (map entries aside) of every
// irismod file that exists in both families.  Types of api-only files (module config objects) have no twin.
func wireTypes() ([]string, error) {
	u := loadUniverse()
	if u.err != nil {
		return nil, u.err
	}
	set := map[string]bool{}
	for fn := range u.source {
		g, a := u.gogo[fn], u.api[fn]
		if g == nil || a == nil {
			continue
		}
		for _, fd := range []flat{flatten(g), flatten(a)} {
			for n, m := range fd.messages {
				if m.GetOptions().GetMapEntry() {
					continue
				}
				set[n] = true
			}
		}
	}
	l := keys(set)
	sort.Strings(l)
	return l, nil
}

// ---- cases ---------------------------------------------------------------------------------------------

type wireCase struct {
	Type    string   `json:"type"`
	From    string   `json:"from"`              // api | gogo
	Shape   string   `json:"shape,omitempty"`   // informational
	Hex     string   `json:"hex"`               // standard encoding of the generated value
	Exclude []string `json:"exclude,omitempty"` // fields left out of the comparison (known findings)
	Text    string   `json:"text,omitempty"`    // informational

	excluded []string // signatures of known findings whose exclusion applied to this case (statistics only)
}

// ---- generator -------------------------------------------------------------------------------------------

type genCtx struct {
	t      *rapid.T
	strict bool // api side: only what gogoproto can represent
	excl   map[protoreflect.FullName]bool
	n      int
}

func (g *genCtx) label(s string) string { g.n++; return fmt.Sprintf("%s#%d", s, g.n) }

var (
	minTimeSeconds int64 = -62135596800
	maxTimeSeconds int64 = 253402300799
)

var anyTargets = []string{"irismod.token.v1.Token", "irismod.token.v1beta1.Token", "cosmos.base.v1beta1.Coin"}

func (g *genCtx) numeral(bits int, shape string) string {
	t := g.t
	var v *big.Int
	k := rapid.IntRange(0, 9).Draw(t, g.label("num/kind"))
	if shape == "maximal" {
		k = 2 + k%2
	}
	if shape == "empty" || shape == "default" {
		k = 0
	}
	switch k {
	case 0:
		v = new(big.Int)
	case 1:
		v = big.NewInt(int64(rapid.IntRange(1, 20).Draw(t, g.label("num/small"))))
	case 2:
		v = new(big.Int).Sub(new(big.Int).Lsh(big.NewInt(1), uint(bits)), big.NewInt(1))
	case 3:
		v = new(big.Int).Neg(new(big.Int).Sub(new(big.Int).Lsh(big.NewInt(1), uint(bits)), big.NewInt(1)))
	case 4:
		v = new(big.Int).Exp(big.NewInt(10), big.NewInt(int64(rapid.IntRange(0, 30).Draw(t, g.label("num/pow10")))), nil)
	default:
		nb := rapid.IntRange(1, bits).Draw(t, g.label("num/bits"))
		v = big.NewInt(1)
		for v.BitLen() < nb {
			v.Lsh(v, 16)
			v.Or(v, big.NewInt(int64(rapid.IntRange(0, 65535).Draw(t, g.label("num/chunk")))))
		}
		if v.BitLen() > nb {
			v.Rsh(v, uint(v.BitLen()-nb))
		}
		if rapid.IntRange(0, 3).Draw(t, g.label("num/neg")) == 0 {
			v.Neg(v)
		}
	}
	s := v.String()
	if !g.strict {
		// forms gogoproto (big.Int.UnmarshalText, base 0) accepts and normalises
		switch rapid.IntRange(0, 7).Draw(t, g.label("num/form")) {
		case 0:
			if v.Sign() >= 0 {
				s = "+" + s
			}
		case 1:
			if v.Sign() == 0 {
				s = "-0"
			}
		case 2:
			h := new(big.Int).Abs(v).Text(16)
			s = "0x" + h
			if v.Sign() < 0 {
				s = "-" + s
			}
		}
	}
	return s
}

var alphabet = []rune("abcxyz019/._-: ABCé世\u00a0")

func (g *genCtx) str(shape string) string {
	t := g.t
	switch shape {
	case "empty", "default":
		return ""
	case "maximal":
		n := rapid.SampledFrom([]int{127, 128, 129, 300}).Draw(t, g.label("str/len"))
		return strings.Repeat("m", n)
	}
	switch rapid.IntRange(0, 9).Draw(t, g.label("str/kind")) {
	case 0:
		return ""
	case 1:
		return strings.Repeat("x", rapid.IntRange(120, 140).Draw(t, g.label("str/long")))
	case 2:
		return rapid.SampledFrom([]string{"stake", "iaa1qqqqqqqqqqqqqqqqqqqqqqqqqqqqqqqqzk3k5e", "0", "-1", "1.5", "\x00", "\u2028"}).Draw(t, g.label("str/pick"))
	default:
		n := rapid.IntRange(1, 12).Draw(t, g.label("str/n"))
		var sb strings.Builder
		for i := 0; i < n; i++ {
			sb.WriteRune(rapid.SampledFrom(alphabet).Draw(t, g.label("str/r")))
		}
		return sb.String()
	}
}

func (g *genCtx) bytesVal(shape string) []byte {
	t := g.t
	switch shape {
	case "empty", "default":
		return nil
	case "maximal":
		return bytes.Repeat([]byte{0xff}, 200)
	}
	return rapid.SliceOfN(rapid.Byte(), 0, 20).Draw(t, g.label("bytes"))
}

var (
	i64s = []int64{0, 1, -1, 127, 128, 300, 16383, 16384, math.MaxInt32, math.MinInt32, math.MaxInt64, math.MinInt64}
	u64s = []uint64{0, 1, 127, 128, 300, 16383, 16384, math.MaxUint32, math.MaxUint32 + 1, math.MaxInt64, math.MaxUint64}
)

func (g *genCtx) i64(shape string) int64 {
	switch shape {
	case "empty", "default":
		return 0
	case "maximal":
		return rapid.SampledFrom([]int64{math.MaxInt64, math.MinInt64}).Draw(g.t, g.label("i64/max"))
	}
	if rapid.IntRange(0, 2).Draw(g.t, g.label("i64/kind")) == 0 {
		return rapid.Int64().Draw(g.t, g.label("i64"))
	}
	return rapid.SampledFrom(i64s).Draw(g.t, g.label("i64/pick"))
}

func (g *genCtx) u64(shape string) uint64 {
	switch shape {
	case "empty", "default":
		return 0
	case "maximal":
		return math.MaxUint64
	}
	if rapid.IntRange(0, 2).Draw(g.t, g.label("u64/kind")) == 0 {
		return rapid.Uint64().Draw(g.t, g.label("u64"))
	}
	return rapid.SampledFrom(u64s).Draw(g.t, g.label("u64/pick"))
}

func (g *genCtx) scalar(fd protoreflect.FieldDescriptor, shape string) protoreflect.Value {
	o := optsOf(fd)
	switch fd.Kind() {
	case protoreflect.BoolKind:
		if shape == "empty" || shape == "default" {
			return protoreflect.ValueOfBool(false)
		}
		if shape == "maximal" {
			return protoreflect.ValueOfBool(true)
		}
		return protoreflect.ValueOfBool(rapid.Bool().Draw(g.t, g.label("bool")))
	case protoreflect.EnumKind:
		vals := fd.Enum().Values()
		var picks []int32
		for i := 0; i < vals.Len(); i++ {
			picks = append(picks, int32(vals.Get(i).Number()))
		}
		picks = append(picks, -1, 99, math.MaxInt32, math.MinInt32) // proto3 enums are open
		if shape == "empty" || shape == "default" {
			return protoreflect.ValueOfEnum(0)
		}
		if shape == "maximal" {
			return protoreflect.ValueOfEnum(protoreflect.EnumNumber(picks[vals.Len()-1]))
		}
		return protoreflect.ValueOfEnum(protoreflect.EnumNumber(rapid.SampledFrom(picks).Draw(g.t, g.label("enum"))))
	case protoreflect.Int32Kind, protoreflect.Sint32Kind, protoreflect.Sfixed32Kind:
		return protoreflect.ValueOfInt32(int32(g.i64(shape)))
	case protoreflect.Int64Kind, protoreflect.Sint64Kind, protoreflect.Sfixed64Kind:
		return protoreflect.ValueOfInt64(g.i64(shape))
	case protoreflect.Uint32Kind, protoreflect.Fixed32Kind:
		return protoreflect.ValueOfUint32(uint32(g.u64(shape)))
	case protoreflect.Uint64Kind, protoreflect.Fixed64Kind:
		return protoreflect.ValueOfUint64(g.u64(shape))
	case protoreflect.FloatKind:
		return protoreflect.ValueOfFloat32(math.Float32frombits(uint32(g.u64(shape))))
	case protoreflect.DoubleKind:
		return protoreflect.ValueOfFloat64(math.Float64frombits(g.u64(shape)))
	case protoreflect.StringKind:
		if bits, ok := numeralBits(o); ok {
			return protoreflect.ValueOfString(g.numeral(bits, shape))
		}
		return protoreflect.ValueOfString(g.str(shape))
	case protoreflect.BytesKind:
		return protoreflect.ValueOfBytes(g.bytesVal(shape))
	}
	panic("unsupported kind " + fd.Kind().String())
}

// mandatory: the gogoproto Go type always carries (and always writes) this field.
func mandatory(fd protoreflect.FieldDescriptor) bool {
	if fd.IsList() || fd.IsMap() {
		return false
	}
	o := optsOf(fd)
	if !o.NonNullable {
		return false
	}
	if fd.Kind() == protoreflect.MessageKind {
		return true
	}
	_, num := numeralBits(o)
	return num
}

const maxDepth = 6

func childShape(g *genCtx, shape string) string {
	if shape != "random" {
		return shape
	}
	return rapid.SampledFrom([]string{"random", "random", "random", "empty", "default", "maximal"}).Draw(g.t, g.label("shape"))
}

func (g *genCtx) message(md protoreflect.MessageDescriptor, shape string, depth int, via *fieldOpt) protoreflect.Message {
	m := dynamicpb.NewMessage(md)
	t := g.t
	switch md.FullName() {
	case "google.protobuf.Timestamp":
		if via != nil && via.Stdtime {
			var s, n int64
			switch shape {
			case "empty", "default":
			case "maximal":
				s = rapid.SampledFrom([]int64{minTimeSeconds, maxTimeSeconds}).Draw(t, g.label("ts/s"))
				n = 999999999
			default:
				s = rapid.Int64Range(minTimeSeconds, maxTimeSeconds).Draw(t, g.label("ts/s"))
				if rapid.Bool().Draw(t, g.label("ts/near")) {
					s = rapid.Int64Range(-5, 2000000000).Draw(t, g.label("ts/s2"))
				}
				n = rapid.Int64Range(0, 999999999).Draw(t, g.label("ts/n"))
			}
			m.Set(md.Fields().ByName("seconds"), protoreflect.ValueOfInt64(s))
			m.Set(md.Fields().ByName("nanos"), protoreflect.ValueOfInt32(int32(n)))
			return m
		}
	case "google.protobuf.Duration":
		if via != nil && via.Stdduration {
			var d int64
			switch shape {
			case "empty", "default":
			case "maximal":
				d = rapid.SampledFrom([]int64{math.MaxInt64, math.MinInt64}).Draw(t, g.label("dur/max"))
			default:
				d = g.i64("random")
				if rapid.Bool().Draw(t, g.label("dur/near")) {
					d = rapid.Int64Range(-3e9, 3e12).Draw(t, g.label("dur/ns"))
				}
			}
			m.Set(md.Fields().ByName("seconds"), protoreflect.ValueOfInt64(d/1e9))
			m.Set(md.Fields().ByName("nanos"), protoreflect.ValueOfInt32(int32(d%1e9)))
			return m
		}
	case "google.protobuf.Any":
		if shape == "empty" || shape == "default" {
			return m
		}
		k := rapid.IntRange(0, 9).Draw(t, g.label("any/kind"))
		switch {
		case k < 7 && depth < maxDepth:
			target := rapid.SampledFrom(anyTargets).Draw(t, g.label("any/type"))
			if d, err := protoregistry.GlobalFiles.FindDescriptorByName(protoreflect.FullName(target)); err == nil {
				sub := &genCtx{t: t, strict: true, excl: g.excl, n: g.n + 1000}
				inner := sub.message(d.(protoreflect.MessageDescriptor), childShape(g, shape), depth+1, nil)
				g.n = sub.n
				bz, _ := proto.MarshalOptions{Deterministic: true}.Marshal(inner.Interface())
				m.Set(md.Fields().ByName("type_url"), protoreflect.ValueOfString("/"+target))
				m.Set(md.Fields().ByName("value"), protoreflect.ValueOfBytes(bz))
				return m
			}
			fallthrough
		default:
			m.Set(md.Fields().ByName("type_url"), protoreflect.ValueOfString(g.str("random")))
			m.Set(md.Fields().ByName("value"), protoreflect.ValueOfBytes(g.bytesVal("random")))
			return m
		}
	}
	fs := md.Fields()
	for i := 0; i < fs.Len(); i++ {
		fd := fs.Get(i)
		if g.excl[fd.FullName()] {
			continue
		}
		o := optsOf(fd)
		must := g.strict && mandatory(fd)
		// presence
		set := true
		switch shape {
		case "empty":
			set = must
		case "default", "maximal":
			set = true
		default:
			set = must || rapid.Uint32().Draw(t, g.label("set"))%8 != 0 // shrinks towards "unset"
		}
		if depth >= maxDepth && !must {
			set = false
		}
		if !set {
			continue
		}
		switch {
		case fd.IsMap():
			if shape == "default" {
				continue
			}
			n := rapid.IntRange(0, 3).Draw(t, g.label("map/n"))
			if shape == "maximal" {
				n = 3
			}
			mp := m.Mutable(fd).Map()
			for j := 0; j < n; j++ {
				var k protoreflect.Value
				if fd.MapKey().Kind() == protoreflect.StringKind {
					k = protoreflect.ValueOfString(fmt.Sprintf("k%d%s", j, g.str(map[bool]string{true: "empty", false: "random"}[shape == "maximal"])))
				} else {
					k = g.scalar(fd.MapKey(), "random")
				}
				var v protoreflect.Value
				if sub := fd.MapValue().Message(); sub != nil {
					v = protoreflect.ValueOfMessage(g.message(sub, childShape(g, shape), depth+1, nil))
				} else {
					v = g.scalar(fd.MapValue(), childShape(g, shape))
				}
				mp.Set(k.MapKey(), v)
			}
		case fd.IsList():
			if shape == "default" {
				continue
			}
			n := rapid.IntRange(0, 3).Draw(t, g.label("list/n"))
			if shape == "maximal" {
				n = 3
			}
			l := m.Mutable(fd).List()
			for j := 0; j < n; j++ {
				if sub := fd.Message(); sub != nil {
					l.Append(protoreflect.ValueOfMessage(g.message(sub, childShape(g, shape), depth+1, &o)))
				} else {
					es := childShape(g, shape)
					if _, num := numeralBits(o); num && g.strict && (es == "empty" || es == "default") {
						es = "random"
					}
					l.Append(g.scalar(fd, es))
				}
			}
		case fd.Kind() == protoreflect.MessageKind || fd.Kind() == protoreflect.GroupKind:
			m.Set(fd, protoreflect.ValueOfMessage(g.message(fd.Message(), childShape(g, shape), depth+1, &o)))
		default:
			v := g.scalar(fd, shape)
			if _, num := numeralBits(o); num && v.String() == "" && must {
				v = protoreflect.ValueOfString("0")
			}
			if fd.HasPresence() || !isZero(fd, v) {
				m.Set(fd, v)
			}
		}
	}
	return m
}

func isZero(fd protoreflect.FieldDescriptor, v protoreflect.Value) bool {
	switch fd.Kind() {
	case protoreflect.BoolKind:
		return !v.Bool()
	case protoreflect.EnumKind:
		return v.Enum() == 0
	case protoreflect.StringKind:
		return v.String() == ""
	case protoreflect.BytesKind:
		return len(v.Bytes()) == 0
	case protoreflect.FloatKind, protoreflect.DoubleKind:
		return math.Float64bits(v.Float()) == 0
	case protoreflect.Uint32Kind, protoreflect.Uint64Kind, protoreflect.Fixed32Kind, protoreflect.Fixed64Kind:
		return v.Uint() == 0
	default:
		return v.Int() == 0
	}
}

func apiDescriptor(name string) (protoreflect.MessageDescriptor, error) {
	d, err := protoregistry.GlobalFiles.FindDescriptorByName(protoreflect.FullName(name))
	if err != nil {
		return nil, err
	}
	md, ok := d.(protoreflect.MessageDescriptor)
	if !ok {
		return nil, fmt.Errorf("%s is not a message", name)
	}
	return md, nil
}

var shapes = []string{"random", "random", "random", "random", "empty", "default", "maximal"}

func genWireCase(t *rapid.T, typ string) wireCase {
	c := wireCase{Type: typ}
	md, err := apiDescriptor(typ)
	if err != nil {
		// one-sided type: the check reports it
		c.From = rapid.SampledFrom([]string{"api", "gogo"}).Draw(t, "from")
		return c
	}
	c.From = rapid.SampledFrom([]string{"api", "gogo"}).Draw(t, "from")
	c.Shape = rapid.SampledFrom(shapes).Draw(t, "shape")
	c.Exclude, c.excluded = activeExclusions(md)
	excl := map[protoreflect.FullName]bool{}
	for _, f := range c.Exclude {
		excl[protoreflect.FullName(f)] = true
	}
	g := &genCtx{t: t, strict: c.From == "api", excl: excl}
	m := g.message(md, c.Shape, 0, nil)
	bz, err := proto.MarshalOptions{Deterministic: true}.Marshal(m.Interface())
	if err != nil {
		panic(err)
	}
	if c.From == "gogo" && hasMessageMap(md, map[protoreflect.FullName]bool{}) {
		// a gogoproto map may hold a nil message pointer, which is written as an entry without a value
		if pbt.IsKnown(sigValuelessMap) {
			c.excluded = append(c.excluded, sigValuelessMap)
		}
		if !avoidValuelessMap() && rapid.IntRange(0, 2).Draw(t, "nil-map-values") == 2 {
			var k int
			bz, k = mapValueWalk(md, bz, "drop", func() bool { return rapid.Bool().Draw(t, "nil-map-value") })
			if k > 0 {
				c.Shape += "+nil-map-value"
			}
		}
	}
	c.Hex = hex.EncodeToString(bz)
	if txt, err := (prototext.MarshalOptions{Multiline: false}).Marshal(m.Interface()); err == nil && len(txt) < 1500 {
		c.Text = string(txt)
	}
	return c
}

// ---- value classification ------------------------------------------------------------------------------

type valueInfo struct {
	nested, repeated, scalar bool
	multiMap, anyMap         bool
	any, custom, stdtime     bool
	nonNullable              bool
	valueless                bool
}

func inspect(m protoreflect.Message, vi *valueInfo) {
	m.Range(func(fd protoreflect.FieldDescriptor, v protoreflect.Value) bool {
		o := optsOf(fd)
		if o.Customtype != "" {
			vi.custom = true
		}
		if o.Stdtime || o.Stdduration {
			vi.stdtime = true
		}
		if o.NonNullable {
			vi.nonNullable = true
		}
		switch {
		case fd.IsMap():
			vi.anyMap = true
			vi.repeated = true
			if v.Map().Len() > 1 {
				vi.multiMap = true
			}
			if fd.MapValue().Message() != nil {
				v.Map().Range(func(_ protoreflect.MapKey, mv protoreflect.Value) bool {
					vi.nested = true
					inspect(mv.Message(), vi)
					return true
				})
			}
		case fd.IsList():
			if v.List().Len() > 0 {
				vi.repeated = true
			}
			for i := 0; i < v.List().Len(); i++ {
				if fd.Message() != nil {
					vi.nested = true
					inspect(v.List().Get(i).Message(), vi)
				} else {
					vi.scalar = true
				}
			}
		case fd.Message() != nil:
			vi.nested = true
			if fd.Message().FullName() == "google.protobuf.Any" {
				vi.any = true
			}
			inspect(v.Message(), vi)
		default:
			vi.scalar = true
		}
		return true
	})
}

// ---- the check -------------------------------------------------------------------------------------------

func safely(f func() error) (err error) {
	defer func() {
		if p := recover(); p != nil {
			err = pbt.Failf("C20/panic", "%v\n%s", p, cleanStack(debug.Stack()))
		}
	}()
	return f()
}

// cleanStack keeps the function names of a stack trace (no goroutine ids, arguments or addresses: rapid only
// shrinks a failure whose message is reproducible).
func cleanStack(st []byte) string {
	var out []string
	for _, l := range strings.Split(string(st), "\n") {
		if l == "" || strings.HasPrefix(l, "\t") || strings.HasPrefix(l, "goroutine ") {
			continue
		}
		if i := strings.LastIndex(l, "("); i > 0 {
			l = l[:i]
		}
		if strings.HasPrefix(l, "runtime") || strings.HasPrefix(l, "panic") || strings.Contains(l, "c20.safely") || strings.HasPrefix(l, "testing.") || strings.HasPrefix(l, "pgregory.net/rapid") {
			continue
		}
		out = append(out, l)
		if len(out) >= 12 {
			break
		}
	}
	return " at " + strings.Join(out, "\n    ")
}

func short(b []byte) string {
	if len(b) > 160 {
		return hex.EncodeToString(b[:160]) + "…"
	}
	return hex.EncodeToString(b)
}

func wireCore(c wireCase, exclude []string) (err error, vi valueInfo) {
	md, derr := apiDescriptor(c.Type)
	mt, aerr := apiType(c.Type)
	_, gerr := gogoNew(c.Type)
	if derr != nil || aerr != nil || gerr != nil {
		return pbt.Failf("C20/wire-type-missing", "%s: api descriptor: %v; api Go type: %v; gogoproto Go type: %v", c.Type, derr, aerr, gerr), vi
	}
	in, herr := hex.DecodeString(c.Hex)
	if herr != nil {
		return pbt.Failf("harness/bad-case", "hex: %v", herr), vi
	}
	excl := map[protoreflect.FullName]bool{}
	for _, f := range exclude {
		excl[protoreflect.FullName(f)] = true
	}
	strip := func(b []byte) []byte {
		s, err := stripFields(md, b, excl)
		if err != nil {
			return b // not parseable along the descriptor: leave it to the decoders
		}
		return s
	}
	in = strip(in)
	d0 := dynamicpb.NewMessage(md)
	if err := proto.Unmarshal(in, d0); err != nil {
		return pbt.Failf("harness/bad-case", "the case bytes are not an encoding of %s: %v", c.Type, err), vi
	}
	inspect(d0, &vi)
	cmpBytes := func(what string, x, y []byte) error {
		if vi.multiMap {
			if len(x) != len(y) {
				return pbt.Failf("C20/wire-bytes-differ", "%s %s: encodings of a value with a multi-entry map differ in length: %d vs %d\n %s\n %s", c.Type, what, len(x), len(y), short(x), short(y))
			}
			return nil
		}
		if !bytes.Equal(x, y) {
			return pbt.Failf("C20/wire-bytes-differ", "%s %s:\n %s\n %s", c.Type, what, short(x), short(y))
		}
		return nil
	}
	switch c.From {
	case "api":
		p0, err := apiDecode(mt, in)
		if err != nil {
			return pbt.Failf("C20/wire-api-rejects-standard-encoding", "%s: api type cannot decode %s: %v", c.Type, short(in), err), vi
		}
		if !proto.Equal(d0, p0) {
			return pbt.Failf("C20/wire-api-decodes-differently", "%s: api type decodes %s to a value different from the descriptor-driven decoder:\n api %v\n dyn %v", c.Type, short(in), p0, d0), vi
		}
		b1, err := proto.Marshal(p0)
		if err != nil {
			return pbt.Failf("C20/wire-api-marshal", "%s: %v", c.Type, err), vi
		}
		g, err := gogoDecode(c.Type, b1)
		if err != nil {
			return pbt.Failf("C20/wire-gogo-rejects-api-bytes", "%s: gogoproto type cannot decode the api encoding %s of {%s}: %v", c.Type, short(b1), c.Text, err), vi
		}
		b2raw, err := gogoproto.Marshal(g)
		if err != nil {
			return pbt.Failf("C20/wire-gogo-marshal", "%s: %v", c.Type, err), vi
		}
		b2 := strip(b2raw)
		p1, err := apiDecode(mt, b2)
		if err != nil {
			return pbt.Failf("C20/wire-api-rejects-gogo-bytes", "%s: api type cannot decode the gogoproto re-encoding %s (of api bytes %s): %v", c.Type, short(b2), short(b1), err), vi
		}
		if !proto.Equal(p0, p1) {
			return pbt.Failf("C20/wire-value-differs", "%s: api → gogoproto → api changed the value:\n before %v\n after  %v", c.Type, p0, p1), vi
		}
		if err := cmpBytes("api encoding vs gogoproto re-encoding", b1, b2); err != nil {
			return err, vi
		}
	case "gogo":
		g0, err := gogoDecode(c.Type, in)
		if err != nil {
			return pbt.Failf("C20/wire-gogo-rejects-standard-encoding", "%s: gogoproto type cannot decode %s {%s}: %v", c.Type, short(in), c.Text, err), vi
		}
		b1raw, err := gogoproto.Marshal(g0)
		if err != nil {
			return pbt.Failf("C20/wire-gogo-marshal", "%s: %v", c.Type, err), vi
		}
		b1 := strip(b1raw)
		_, nv := mapValueWalk(md, b1, "count", nil)
		vi.valueless = nv > 0
		var p proto.Message
		if pe := safely(func() error { p, err = apiDecode(mt, b1); return nil }); pe != nil {
			if nv > 0 {
				filled, _ := mapValueWalk(md, b1, "fill", nil)
				if safely(func() error { _, _ = apiDecode(mt, filled); return nil }) == nil {
					return pbt.Failf(sigValuelessMap, "%s: the api decoder panics on the gogoproto encoding %s of a value whose map holds a nil message (entry without value), and does not once the entry is given an empty value: %v", c.Type, short(b1), pe), vi
				}
			}
			return pbt.Failf("C20/wire-api-decoder-panics", "%s: on the gogoproto encoding %s: %v", c.Type, short(b1), pe), vi
		}
		if err != nil {
			return pbt.Failf("C20/wire-api-rejects-gogo-bytes", "%s: api type cannot decode the gogoproto encoding %s: %v", c.Type, short(b1), err), vi
		}
		b2, err := proto.Marshal(p)
		if err != nil {
			return pbt.Failf("C20/wire-api-marshal", "%s: %v", c.Type, err), vi
		}
		g1, err := gogoDecode(c.Type, b2)
		if err != nil {
			return pbt.Failf("C20/wire-gogo-rejects-api-bytes", "%s: gogoproto type cannot decode the api re-encoding %s (of gogoproto bytes %s): %v", c.Type, short(b2), short(b1), err), vi
		}
		if nv > 0 {
			// protobuf cannot tell an absent map value from an empty one: the value read by the api type must be
			// what the standard decoder reads; the encodings legitimately differ (api writes the empty value)
			d1 := dynamicpb.NewMessage(md)
			if err := proto.Unmarshal(b1, d1); err != nil || !proto.Equal(d1, dynFrom(md, p)) {
				return pbt.Failf("C20/wire-api-decodes-differently", "%s: gogoproto encoding %s with a valueless map entry: api reads %v, the standard decoder %v (%v)", c.Type, short(b1), p, d1, err), vi
			}
			return nil, vi
		}
		b3raw, err := gogoproto.Marshal(g1)
		if err != nil {
			return pbt.Failf("C20/wire-gogo-marshal", "%s: %v", c.Type, err), vi
		}
		b3 := strip(b3raw)
		// equal gogoproto value: same canonical gogoproto encoding (decoded comparison when map order is free)
		if vi.multiMap {
			p3, err := apiDecode(mt, b3)
			if err != nil || !proto.Equal(p, p3) {
				return pbt.Failf("C20/wire-value-differs", "%s: gogoproto → api → gogoproto changed the value (%v):\n before %v\n after  %v", c.Type, err, p, p3), vi
			}
		} else if !bytes.Equal(b1, b3) {
			return pbt.Failf("C20/wire-value-differs", "%s: gogoproto → api → gogoproto changed the value:\n before %s\n after  %s", c.Type, short(b1), short(b3)), vi
		}
		if err := cmpBytes("gogoproto encoding vs api re-encoding", b1, b2); err != nil {
			return err, vi
		}
	default:
		return pbt.Failf("harness/bad-case", "from=%q", c.From), vi
	}
	return nil, vi
}

// dynFrom re-reads an api message through its reflection interface into a dynamic message.
func dynFrom(md protoreflect.MessageDescriptor, m proto.Message) proto.Message {
	bz, err := proto.MarshalOptions{Deterministic: true}.Marshal(m)
	d := dynamicpb.NewMessage(md)
	if err != nil {
		return d
	}
	_ = proto.Unmarshal(bz, d)
	return d
}

func checkWire(c wireCase) (error, bool, []string) {
	var vi valueInfo
	err := safely(func() error {
		var e error
		e, vi = wireCore(c, c.Exclude)
		return e
	})
	if err != nil {
		// attribution: does the disagreement disappear when exactly one field with a recorded finding is left out?
		var v *pbt.Violation
		if md, derr := apiDescriptor(c.Type); derr == nil && errors.As(err, &v) && strings.HasPrefix(v.Sig, "C20/wire-") {
			for _, ff := range fieldFindings {
				if contains(c.Exclude, string(ff.Field)) || !reaches(md, ff.Field) {
					continue
				}
				e2 := safely(func() error {
					e, _ := wireCore(c, append(append([]string{}, c.Exclude...), string(ff.Field)))
					return e
				})
				if e2 == nil {
					return pbt.Failf(ff.Sig, "%s (from %s) does not survive the trip, and does once field %s is left out: %s: %s", c.Type, c.From, ff.Field, v.Sig, v.Msg), false, nil
				}
			}
		}
		return err, false, nil
	}
	classes := []string{"from:" + c.From, "shape:" + c.Shape}
	add := func(b bool, s string) {
		if b {
			classes = append(classes, s)
		}
	}
	add(vi.any, "has-any")
	add(vi.anyMap, "has-map")
	add(vi.multiMap, "has-multi-entry-map")
	add(vi.custom, "has-customtype")
	add(vi.stdtime, "has-stdtime-or-duration")
	add(vi.nonNullable, "has-non-nullable")
	add(len(c.Exclude) > 0, "with-excluded-field")
	add(len(c.Hex) == 0, "empty-encoding")
	add(vi.valueless, "has-nil-map-value")
	return nil, vi.nested && vi.repeated && vi.scalar, classes
}

func firstLines(s string, n int) string {
	l := strings.Split(s, "\n")
	if len(l) > n {
		l = l[:n]
	}
	return strings.Join(l, "\n")
}

func contains(l []string, s string) bool {
	for _, x := range l {
		if x == s {
			return true
		}
	}
	return false
}

const wireRule = "generated message with >=1 nested message, >=1 non-empty repeated field and >=1 non-default scalar"

func init() { pbt.RegisterPure("wire", checkWire) }

// writeViolationFile: one file per (machine, slot); rapid re-runs a failing case while shrinking and the file
// name is part of the failure message, so it has to be stable (the last write is the shrunk case).
func writeViolationFile(machine string, slot int, cs interface{}, err error) string {
	bz, _ := json.Marshal(cs)
	rf := pbt.ReplayFile{Property: "C20", Machine: machine, Error: err.Error(), Case: bz}
	var v *pbt.Violation
	if errors.As(err, &v) {
		rf.Sig = v.Sig
	}
	out, _ := json.MarshalIndent(rf, "", " ")
	p := filepath.Join(pbt.OutDir(), fmt.Sprintf("violation-C20-%s-%d-%d.json", machine, os.Getpid(), slot))
	_ = os.WriteFile(p, out, 0o644)
	return p
}

// TestC20Wire: -rapid.checks values per message type, every type of both families.
func TestC20Wire(t *testing.T) {
	types, err := wireTypes()
	if err != nil || len(types) == 0 {
		t.Fatalf("harness: no message types (%v)", err)
	}
	st := pbt.NewStats("C20", "wire", wireRule)
	defer st.Flush()
	covered := 0
	for slot, typ := range types {
		typ, slot := typ, slot
		n := 0
		t.Run(strings.TrimPrefix(typ, "irismod."), func(t *testing.T) {
			rapid.Check(t, func(rt *rapid.T) {
				c := genWireCase(rt, typ)
				for _, s := range c.excluded {
					st.Exclude(s)
				}
				err, nt, classes := checkWire(c)
				if err != nil {
					var v *pbt.Violation
					if errors.As(err, &v) && pbt.IsKnown(v.Sig) {
						st.Exclude(v.Sig)
						return
					}
					p := writeViolationFile("wire", slot, c, err)
					rt.Fatalf("VIOLATION-FILE %s\n%v", p, err)
				}
				n++
				st.Case(c, nt, classes)
			})
		})
		if n > 0 {
			covered++
		}
	}
	st.Class("message-types", len(types))
	st.Class("message-types-covered", covered)
}
