package c20

import (
	"bytes"
	"compress/gzip"
	"context"
	"fmt"
	"io"
	"os"
	"path/filepath"
	"reflect"
	"regexp"
	"sort"
	"strings"
	"sync"
	"testing"

	gogoproto "github.com/cosmos/gogoproto/proto"
	"google.golang.org/grpc"
	"google.golang.org/protobuf/encoding/protowire"
	"google.golang.org/protobuf/proto"
	"google.golang.org/protobuf/reflect/protodesc"
	"google.golang.org/protobuf/reflect/protoreflect"
	"google.golang.org/protobuf/reflect/protoregistry"
	"google.golang.org/protobuf/types/descriptorpb"

	"verifharness/pbt"
)

// Oracle 1 of C20: the descriptors embedded in the two generated families are the same.
//
// gogoproto side : the gzipped FileDescriptorProto handed to gogoproto's RegisterFile by every *.pb.go
// api side       : protoregistry.GlobalFiles (raw descriptor of every *.pulsar.go), converted back to a
//                  FileDescriptorProto with protodesc
// source         : the .proto files under <repo>/proto/irismod (only their names and whether they declare a
//                  go_package: scripts/protocgen.sh generates gogoproto code exactly for those that do)

const filePrefix = "irismod/"

func repoRoot() string {
	if r := os.Getenv("VERIF_REPO"); r != "" {
		return r
	}
	return "/repo"
}

type universe struct {
	gogo   map[string]*descriptorpb.FileDescriptorProto
	api    map[string]*descriptorpb.FileDescriptorProto
	source map[string]bool // file -> declares go_package (= gogoproto code expected)
	err    error
}

var (
	uniOnce sync.Once
	uni     universe
)

func gunzip(b []byte) ([]byte, error) {
	r, err := gzip.NewReader(bytes.NewReader(b))
	if err != nil {
		return nil, err
	}
	return io.ReadAll(r)
}

var goPackageRe = regexp.MustCompile(`(?m)^\s*option\s+go_package\s*=`)

func loadUniverse() *universe {
	uniOnce.Do(func() {
		uni.gogo = map[string]*descriptorpb.FileDescriptorProto{}
		uni.api = map[string]*descriptorpb.FileDescriptorProto{}
		uni.source = map[string]bool{}
		for name, gz := range gogoproto.AllFileDescriptors() {
			if !strings.HasPrefix(name, filePrefix) {
				continue
			}
			raw, err := gunzip(gz)
			if err != nil {
				uni.err = fmt.Errorf("gogoproto descriptor of %s: %w", name, err)
				return
			}
			fd := &descriptorpb.FileDescriptorProto{}
			// one resolver for both sides: protoregistry.GlobalTypes (cosmos.msg.v1, cosmos_proto, amino
			// extensions are linked there; gogoproto's own extensions are not and stay unknown fields)
			if err := proto.Unmarshal(raw, fd); err != nil {
				uni.err = fmt.Errorf("gogoproto descriptor of %s: %w", name, err)
				return
			}
			uni.gogo[name] = fd
		}
		protoregistry.GlobalFiles.RangeFiles(func(fd protoreflect.FileDescriptor) bool {
			if strings.HasPrefix(fd.Path(), filePrefix) {
				uni.api[fd.Path()] = protodesc.ToFileDescriptorProto(fd)
			}
			return true
		})
		root := filepath.Join(repoRoot(), "proto")
		err := filepath.Walk(filepath.Join(root, "irismod"), func(p string, info os.FileInfo, err error) error {
			if err != nil {
				return err
			}
			if info.IsDir() || !strings.HasSuffix(p, ".proto") {
				return nil
			}
			bz, err := os.ReadFile(p)
			if err != nil {
				return err
			}
			rel, _ := filepath.Rel(root, p)
			uni.source[filepath.ToSlash(rel)] = goPackageRe.Match(bz)
			return nil
		})
		if err != nil {
			uni.err = fmt.Errorf("proto sources: %w", err)
		}
	})
	return &uni
}

// descItem is one enumerated element of the descriptor space.
type descItem struct {
	File string `json:"file"`
	Kind string `json:"kind"` // file | message | enum | service | method | grpc
	Name string `json:"name,omitempty"`
}

// ---- flattening -------------------------------------------------------------------------------

type flat struct {
	messages map[string]*descriptorpb.DescriptorProto
	enums    map[string]*descriptorpb.EnumDescriptorProto
	services map[string]*descriptorpb.ServiceDescriptorProto
	methods  map[string]*descriptorpb.MethodDescriptorProto
}

func flatten(fd *descriptorpb.FileDescriptorProto) flat {
	f := flat{map[string]*descriptorpb.DescriptorProto{}, map[string]*descriptorpb.EnumDescriptorProto{},
		map[string]*descriptorpb.ServiceDescriptorProto{}, map[string]*descriptorpb.MethodDescriptorProto{}}
	if fd == nil {
		return f
	}
	pkg := fd.GetPackage()
	var walk func(prefix string, m *descriptorpb.DescriptorProto)
	walk = func(prefix string, m *descriptorpb.DescriptorProto) {
		n := prefix + "." + m.GetName()
		f.messages[n] = m
		for _, e := range m.EnumType {
			f.enums[n+"."+e.GetName()] = e
		}
		for _, c := range m.NestedType {
			walk(n, c)
		}
	}
	for _, m := range fd.MessageType {
		walk(pkg, m)
	}
	for _, e := range fd.EnumType {
		f.enums[pkg+"."+e.GetName()] = e
	}
	for _, s := range fd.Service {
		sn := pkg + "." + s.GetName()
		f.services[sn] = s
		for _, m := range s.Method {
			f.methods[sn+"."+m.GetName()] = m
		}
	}
	return f
}

func descItems() ([]descItem, error) {
	u := loadUniverse()
	if u.err != nil {
		return nil, u.err
	}
	files := map[string]bool{}
	for n := range u.gogo {
		files[n] = true
	}
	for n := range u.api {
		files[n] = true
	}
	for n := range u.source {
		files[n] = true
	}
	var names []string
	for n := range files {
		names = append(names, n)
	}
	sort.Strings(names)
	var items []descItem
	for _, fn := range names {
		items = append(items, descItem{File: fn, Kind: "file"})
		a, b := flatten(u.gogo[fn]), flatten(u.api[fn])
		add := func(kind string, x, y []string) {
			set := map[string]bool{}
			for _, n := range append(x, y...) {
				set[n] = true
			}
			var l []string
			for n := range set {
				l = append(l, n)
			}
			sort.Strings(l)
			for _, n := range l {
				items = append(items, descItem{File: fn, Kind: kind, Name: n})
			}
		}
		add("message", keys(a.messages), keys(b.messages))
		add("gotype", keys(a.messages), keys(b.messages))
		add("enum", keys(a.enums), keys(b.enums))
		add("service", keys(a.services), keys(b.services))
		add("method", keys(a.methods), keys(b.methods))
	}
	for _, p := range grpcPairs() {
		items = append(items, descItem{File: "", Kind: "grpc", Name: p.Name})
	}
	return items, nil
}

func keys[V any](m map[string]V) []string {
	var l []string
	for k := range m {
		l = append(l, k)
	}
	sort.Strings(l)
	return l
}

// ---- option decoding (for messages and for the wire generator) --------------------------------------

// optionFields lists the raw fields of an options message by number (known extensions and unknown fields alike).
func optionFields(opts proto.Message) map[protowire.Number][]byte {
	out := map[protowire.Number][]byte{}
	if opts == nil || !opts.ProtoReflect().IsValid() {
		return out
	}
	bz, err := proto.MarshalOptions{Deterministic: true}.Marshal(opts)
	if err != nil {
		return out
	}
	for len(bz) > 0 {
		num, typ, n := protowire.ConsumeTag(bz)
		if n < 0 {
			return out
		}
		bz = bz[n:]
		m := protowire.ConsumeFieldValue(num, typ, bz)
		if m < 0 {
			return out
		}
		out[num] = append([]byte(nil), bz[:m]...)
		bz = bz[m:]
	}
	return out
}

func describeOptions(opts proto.Message) string {
	f := optionFields(opts)
	var nums []int
	for n := range f {
		nums = append(nums, int(n))
	}
	sort.Ints(nums)
	var parts []string
	for _, n := range nums {
		parts = append(parts, fmt.Sprintf("%d=%x", n, f[protowire.Number(n)]))
	}
	return "{" + strings.Join(parts, " ") + "}"
}

func hasOptionAtLeast(opts proto.Message, min int) bool {
	for n := range optionFields(opts) {
		if int(n) >= min {
			return true
		}
	}
	return false
}

// ---- the check ----------------------------------------------------------------------------------------

func stripFileLevel(fd *descriptorpb.FileDescriptorProto) *descriptorpb.FileDescriptorProto {
	c := proto.Clone(fd).(*descriptorpb.FileDescriptorProto)
	c.Options = nil
	c.SourceCodeInfo = nil
	return c
}

func names[T interface{ GetName() string }](l []T) []string {
	var out []string
	for _, x := range l {
		out = append(out, x.GetName())
	}
	return out
}

func sameStrings(a, b []string) bool {
	if len(a) != len(b) {
		return false
	}
	for i := range a {
		if a[i] != b[i] {
			return false
		}
	}
	return true
}

func checkDesc(it descItem) (error, bool, []string) {
	u := loadUniverse()
	if u.err != nil {
		return pbt.Failf("harness/universe", "%v", u.err), false, nil
	}
	classes := []string{"kind:" + it.Kind}
	if it.Kind == "grpc" {
		return checkGRPC(it, classes)
	}
	if it.Kind == "gotype" {
		return checkGoType(it, classes)
	}
	g, a := u.gogo[it.File], u.api[it.File]
	wantGogo, inSource := u.source[it.File]
	switch it.Kind {
	case "file":
		if !inSource {
			return pbt.Failf("C20/desc-file-not-in-source", "%s is registered (gogoproto=%v api=%v) but proto/%s does not exist",
				it.File, g != nil, a != nil, it.File), false, classes
		}
		if a == nil {
			return pbt.Failf("C20/desc-file-missing-api", "%s: no descriptor registered by the api (pulsar) family (gogoproto side present: %v)",
				it.File, g != nil), false, classes
		}
		if g == nil {
			if wantGogo {
				return pbt.Failf("C20/desc-file-missing-gogo", "%s declares a go_package but no gogoproto descriptor is registered for it", it.File), false, classes
			}
			// app-wiring config object (no go_package): generated for the api family only, by construction of scripts/protocgen.sh
			return nil, false, append(classes, "api-only-module-config")
		}
		if !wantGogo {
			classes = append(classes, "gogo-without-go_package")
		}
		if g.GetName() != a.GetName() || g.GetPackage() != a.GetPackage() || g.GetSyntax() != a.GetSyntax() ||
			!sameStrings(g.Dependency, a.Dependency) || fmt.Sprint(g.PublicDependency) != fmt.Sprint(a.PublicDependency) ||
			fmt.Sprint(g.WeakDependency) != fmt.Sprint(a.WeakDependency) {
			return pbt.Failf("C20/desc-file-header", "%s: name/package/syntax/imports differ: gogoproto (%s %s %s %v) api (%s %s %s %v)", it.File,
				g.GetName(), g.GetPackage(), g.GetSyntax(), g.Dependency, a.GetName(), a.GetPackage(), a.GetSyntax(), a.Dependency), false, classes
		}
		if !sameStrings(names(g.MessageType), names(a.MessageType)) || !sameStrings(names(g.EnumType), names(a.EnumType)) ||
			!sameStrings(names(g.Service), names(a.Service)) || len(g.Extension) != len(a.Extension) {
			return pbt.Failf("C20/desc-file-shape", "%s: top-level elements differ (order matters): gogoproto messages %v enums %v services %v; api messages %v enums %v services %v",
				it.File, names(g.MessageType), names(g.EnumType), names(g.Service), names(a.MessageType), names(a.EnumType), names(a.Service)), false, classes
		}
		if !proto.Equal(stripFileLevel(g), stripFileLevel(a)) {
			return pbt.Failf("C20/desc-file-not-equal", "%s: FileDescriptorProto (file options and source info removed) of the two families are not proto.Equal", it.File), false, classes
		}
		return nil, true, append(classes, "file-equal")
	}
	if a == nil || g == nil {
		// presence of the file is judged by the "file" item; elements of a one-sided file are listed but cannot be compared
		if a != nil && !wantGogo {
			return nil, false, append(classes, "api-only-module-config")
		}
		return pbt.Failf("C20/desc-"+it.Kind+"-missing", "%s %s: file %s is missing on the %s side", it.Kind, it.Name, it.File,
			map[bool]string{true: "gogoproto", false: "api"}[g == nil]), false, classes
	}
	fg, fa := flatten(g), flatten(a)
	missing := func(inG, inA bool) error {
		if inG && inA {
			return nil
		}
		return pbt.Failf("C20/desc-"+it.Kind+"-missing", "%s %s (%s) exists on the %s side only", it.Kind, it.Name, it.File,
			map[bool]string{true: "gogoproto", false: "api"}[inG])
	}
	switch it.Kind {
	case "message":
		mg, ma := fg.messages[it.Name], fa.messages[it.Name]
		if err := missing(mg != nil, ma != nil); err != nil {
			return err, false, classes
		}
		// fields, by position (declaration order is part of the descriptor) and by number
		if len(mg.Field) != len(ma.Field) {
			return pbt.Failf("C20/desc-field", "%s: %d fields (gogoproto) vs %d (api): %v vs %v", it.Name, len(mg.Field), len(ma.Field), names(mg.Field), names(ma.Field)), false, classes
		}
		for i := range mg.Field {
			x, y := mg.Field[i], ma.Field[i]
			cx, cy := proto.Clone(x).(*descriptorpb.FieldDescriptorProto), proto.Clone(y).(*descriptorpb.FieldDescriptorProto)
			cx.Options, cy.Options = nil, nil
			if !proto.Equal(cx, cy) {
				return pbt.Failf("C20/desc-field", "%s field #%d: gogoproto {%v} api {%v}", it.Name, i, cx, cy), false, classes
			}
			if !proto.Equal(x.Options, y.Options) && !(optEmpty(x.Options) && optEmpty(y.Options)) {
				return pbt.Failf("C20/desc-field-options", "%s.%s: options differ: gogoproto %s api %s", it.Name, x.GetName(),
					describeOptions(x.Options), describeOptions(y.Options)), false, classes
			}
			if hasOptionAtLeast(x.Options, 1000) {
				classes = append(classes, "field-with-extension-options")
			}
			classes = append(classes, "field")
		}
		if !proto.Equal(mg.Options, ma.Options) && !(optEmpty(mg.Options) && optEmpty(ma.Options)) {
			return pbt.Failf("C20/desc-message-options", "%s: message options differ: gogoproto %s api %s", it.Name,
				describeOptions(mg.Options), describeOptions(ma.Options)), false, classes
		}
		if hasOptionAtLeast(mg.Options, 1000) {
			classes = append(classes, "message-with-extension-options")
		}
		sx, sy := proto.Clone(mg).(*descriptorpb.DescriptorProto), proto.Clone(ma).(*descriptorpb.DescriptorProto)
		for _, s := range []*descriptorpb.DescriptorProto{sx, sy} {
			s.Field, s.Options = nil, nil
			// nested messages and enums are items of their own; keep their order
			for i, n := range s.NestedType {
				s.NestedType[i] = &descriptorpb.DescriptorProto{Name: n.Name}
			}
			for i, n := range s.EnumType {
				s.EnumType[i] = &descriptorpb.EnumDescriptorProto{Name: n.Name}
			}
		}
		if !proto.Equal(sx, sy) {
			return pbt.Failf("C20/desc-message-shape", "%s: oneofs/reserved/nested declarations differ: gogoproto {%v} api {%v}", it.Name, sx, sy), false, classes
		}
		return nil, len(mg.Field) > 0, classes
	case "enum":
		eg, ea := fg.enums[it.Name], fa.enums[it.Name]
		if err := missing(eg != nil, ea != nil); err != nil {
			return err, false, classes
		}
		if !proto.Equal(eg, ea) {
			return pbt.Failf("C20/desc-enum", "%s: gogoproto {%v} api {%v}", it.Name, eg, ea), false, classes
		}
		for range eg.Value {
			classes = append(classes, "enum-value")
		}
		// the generated Go tables of the enum must say what the descriptor says: gogoproto's registered
		// name->number table (used by its JSON decoder), the String() of the Go enum type of both families
		// (number->name), and the api family's registered enum type
		if vm := gogoproto.EnumValueMap(it.Name); vm != nil {
			want := map[string]int32{}
			for _, v := range eg.Value {
				want[v.GetName()] = v.GetNumber()
			}
			if !reflect.DeepEqual(vm, want) {
				return pbt.Failf("C20/enum-table", "%s: gogoproto's registered value table %v, descriptor %v", it.Name, vm, want), false, classes
			}
			classes = append(classes, "enum-table:gogo-values")
		}
		if rt := gogoEnumGoTypes()[it.Name]; rt != nil {
			for _, v := range eg.Value {
				x := reflect.New(rt).Elem()
				x.SetInt(int64(v.GetNumber()))
				if st, ok := x.Interface().(fmt.Stringer); ok && st.String() != v.GetName() {
					return pbt.Failf("C20/enum-table", "%s: gogoproto Go type %s prints %d as %q, descriptor name %q", it.Name, rt, v.GetNumber(), st.String(), v.GetName()), false, classes
				}
			}
			classes = append(classes, "enum-table:gogo-names")
		}
		if et, err := protoregistry.GlobalTypes.FindEnumByName(protoreflect.FullName(it.Name)); err == nil {
			for _, v := range ea.Value {
				ev := et.Descriptor().Values().ByName(protoreflect.Name(v.GetName()))
				if ev == nil || int32(ev.Number()) != v.GetNumber() {
					return pbt.Failf("C20/enum-table", "%s: api enum type has %v for %s, descriptor %d", it.Name, ev, v.GetName(), v.GetNumber()), false, classes
				}
				if st, ok := et.New(protoreflect.EnumNumber(v.GetNumber())).(fmt.Stringer); ok && st.String() != v.GetName() {
					return pbt.Failf("C20/enum-table", "%s: api Go type prints %d as %q, descriptor name %q", it.Name, v.GetNumber(), st.String(), v.GetName()), false, classes
				}
			}
			classes = append(classes, "enum-table:api")
		}
		return nil, true, classes
	case "service":
		sg, sa := fg.services[it.Name], fa.services[it.Name]
		if err := missing(sg != nil, sa != nil); err != nil {
			return err, false, classes
		}
		if !sameStrings(names(sg.Method), names(sa.Method)) {
			return pbt.Failf("C20/desc-service", "%s: methods differ: gogoproto %v api %v", it.Name, names(sg.Method), names(sa.Method)), false, classes
		}
		if !proto.Equal(sg.Options, sa.Options) && !(optEmpty(sg.Options) && optEmpty(sa.Options)) {
			return pbt.Failf("C20/desc-service-options", "%s: service options differ: gogoproto %s api %s", it.Name,
				describeOptions(sg.Options), describeOptions(sa.Options)), false, classes
		}
		return nil, true, classes
	case "method":
		mg, ma := fg.methods[it.Name], fa.methods[it.Name]
		if err := missing(mg != nil, ma != nil); err != nil {
			return err, false, classes
		}
		cx, cy := proto.Clone(mg).(*descriptorpb.MethodDescriptorProto), proto.Clone(ma).(*descriptorpb.MethodDescriptorProto)
		cx.Options, cy.Options = nil, nil
		if !proto.Equal(cx, cy) {
			return pbt.Failf("C20/desc-method", "%s: gogoproto {%v} api {%v}", it.Name, cx, cy), false, classes
		}
		if !proto.Equal(mg.Options, ma.Options) && !(optEmpty(mg.Options) && optEmpty(ma.Options)) {
			return pbt.Failf("C20/desc-method-options", "%s: method options differ: gogoproto %s api %s", it.Name,
				describeOptions(mg.Options), describeOptions(ma.Options)), false, classes
		}
		if hasOptionAtLeast(mg.Options, 1000) {
			classes = append(classes, "method-with-extension-options")
		}
		return nil, true, classes
	}
	return pbt.Failf("harness/bad-item", "unknown kind %q", it.Kind), false, classes
}

// resolvePath walks a generated type's (file descriptor, index path) pair to the message it denotes.
func resolvePath(gz []byte, path []int) (file, name string, err error) {
	raw, err := gunzip(gz)
	if err != nil {
		return "", "", err
	}
	fd := &descriptorpb.FileDescriptorProto{}
	if err := proto.Unmarshal(raw, fd); err != nil {
		return "", "", err
	}
	if len(path) == 0 || path[0] < 0 || path[0] >= len(fd.MessageType) {
		return fd.GetName(), "", fmt.Errorf("index path %v outside the %d top-level messages", path, len(fd.MessageType))
	}
	m := fd.MessageType[path[0]]
	name = fd.GetPackage() + "." + m.GetName()
	for _, i := range path[1:] {
		if i < 0 || i >= len(m.NestedType) {
			return fd.GetName(), name, fmt.Errorf("index path %v outside the nested messages of %s", path, name)
		}
		m = m.NestedType[i]
		name += "." + m.GetName()
	}
	return fd.GetName(), name, nil
}

// checkGoType: the Go type registered under a message name must, through its own generated accessors, carry that
// message's descriptor - gogoproto types through Descriptor() (file bytes + index path, what the SDK's tx decoder
// and golang/protobuf's legacy wrapper use), api types through ProtoReflect().Descriptor() and their deprecated
// Descriptor() method.
func checkGoType(it descItem, classes []string) (error, bool, []string) {
	full := it.Name
	nontrivial := false
	// (map entry messages are registered as Go map types: they have no accessors of their own)
	if rt := gogoproto.MessageType(full); rt != nil && rt.Kind() == reflect.Ptr && rt.Elem().Kind() == reflect.Struct {
		v := reflect.New(rt.Elem()).Interface()
		if d, ok := v.(interface{ Descriptor() ([]byte, []int) }); ok {
			gz, path := d.Descriptor()
			file, name, err := resolvePath(gz, path)
			if err != nil {
				return pbt.Failf("C20/gotype-descriptor-path", "gogoproto type %s registered as %s: Descriptor() does not resolve: %v", rt, full, err), false, classes
			}
			if name != full || file != it.File {
				return pbt.Failf("C20/gotype-descriptor-mismatch", "gogoproto type %s is registered as %s (%s) but its Descriptor() denotes %s (%s)", rt, full, it.File, name, file), false, classes
			}
			classes = append(classes, "gotype:gogo")
			nontrivial = true
		}
		// the field metadata the Go type carries in its struct tags (number, proto name, JSON name: what jsonpb and the
		// amino-JSON signing path go by) against the descriptor
		if fd := loadUniverse().gogo[it.File]; fd != nil {
			if md := flatten(fd).messages[full]; md != nil {
				byNum := map[string]*descriptorpb.FieldDescriptorProto{}
				for _, f := range md.Field {
					byNum[fmt.Sprint(f.GetNumber())] = f
				}
				for i := 0; i < rt.Elem().NumField(); i++ {
					tag, ok := rt.Elem().Field(i).Tag.Lookup("protobuf")
					if !ok {
						continue
					}
					parts := strings.Split(tag, ",")
					if len(parts) < 3 {
						continue
					}
					f := byNum[parts[1]]
					if f == nil {
						return pbt.Failf("C20/gotype-struct-tag", "gogoproto type %s field %s: tag %q names field number %s, which %s does not have", rt, rt.Elem().Field(i).Name, tag, parts[1], full), false, classes
					}
					name, json := "", ""
					for _, kv := range parts[3:] {
						if strings.HasPrefix(kv, "name=") {
							name = kv[5:]
						}
						if strings.HasPrefix(kv, "json=") {
							json = kv[5:]
						}
					}
					if json == "" {
						json = name
					}
					if name != f.GetName() || (f.JsonName != nil && json != f.GetJsonName()) {
						return pbt.Failf("C20/gotype-struct-tag", "gogoproto type %s field %s: tag says name=%s json=%s, the descriptor says %s / %s", rt, rt.Elem().Field(i).Name, name, json, f.GetName(), f.GetJsonName()), false, classes
					}
					classes = append(classes, "gotype:struct-tag")
				}
			}
		}
		if n, ok := v.(interface{ XXX_MessageName() string }); ok && n.XXX_MessageName() != full {
			return pbt.Failf("C20/gotype-descriptor-mismatch", "gogoproto type %s is registered as %s but names itself %s", rt, full, n.XXX_MessageName()), false, classes
		}
	}
	if mt, err := protoregistry.GlobalTypes.FindMessageByName(protoreflect.FullName(full)); err == nil {
		msg := mt.New().Interface()
		if got := msg.ProtoReflect().Descriptor().FullName(); string(got) != full {
			return pbt.Failf("C20/gotype-descriptor-mismatch", "api type %T is registered as %s but its reflection descriptor is %s", msg, full, got), false, classes
		}
		if got := msg.ProtoReflect().Descriptor().ParentFile().Path(); got != it.File {
			return pbt.Failf("C20/gotype-descriptor-mismatch", "api type %T (%s) reports file %s, registered under %s", msg, full, got, it.File), false, classes
		}
		if d, ok := msg.(interface{ Descriptor() ([]byte, []int) }); ok {
			gz, path := d.Descriptor()
			file, name, err := resolvePath(gz, path)
			if err != nil {
				return pbt.Failf("C20/gotype-descriptor-path", "api type %T registered as %s: Descriptor() does not resolve: %v", msg, full, err), false, classes
			}
			if name != full || file != it.File {
				return pbt.Failf("C20/gotype-descriptor-mismatch", "api type %T is registered as %s (%s) but its Descriptor() denotes %s (%s)", msg, full, it.File, name, file), false, classes
			}
			classes = append(classes, "gotype:api")
			nontrivial = true
		}
	}
	return nil, nontrivial, classes
}

var (
	enumTypesOnce sync.Once
	enumTypes     map[string]reflect.Type
	enumTagRe     = regexp.MustCompile(`enum=([A-Za-z0-9_.]+)`)
)

// gogoEnumGoTypes finds the Go type of every enum of the gogoproto family through the struct tags of the message
// fields that use it (gogoproto registers only the value table of an enum, not its Go type).
func gogoEnumGoTypes() map[string]reflect.Type {
	enumTypesOnce.Do(func() {
		enumTypes = map[string]reflect.Type{}
		u := loadUniverse()
		for _, fd := range u.gogo {
			for name := range flatten(fd).messages {
				rt := gogoproto.MessageType(name)
				if rt == nil || rt.Kind() != reflect.Ptr || rt.Elem().Kind() != reflect.Struct {
					continue
				}
				st := rt.Elem()
				for i := 0; i < st.NumField(); i++ {
					m := enumTagRe.FindStringSubmatch(st.Field(i).Tag.Get("protobuf"))
					if m == nil {
						continue
					}
					ft := st.Field(i).Type
					for ft.Kind() == reflect.Slice || ft.Kind() == reflect.Ptr {
						ft = ft.Elem()
					}
					if ft.Kind() == reflect.Int32 {
						enumTypes[m[1]] = ft
					}
				}
			}
		}
	})
	return enumTypes
}

func optEmpty(m proto.Message) bool {
	return m == nil || !m.ProtoReflect().IsValid() || len(optionFields(m)) == 0
}

// checkGRPC compares the hand-registered gRPC service descriptors (grpc.ServiceDesc) of both families with
// the protobuf service descriptor.
func checkGRPC(it descItem, classes []string) (error, bool, []string) {
	var p *grpcPair
	for _, q := range grpcPairs() {
		if q.Name == it.Name {
			q := q
			p = &q
		}
	}
	if p == nil {
		return pbt.Failf("C20/desc-grpc", "%s: no such gRPC service descriptor in either family", it.Name), false, classes
	}
	if p.API == nil || p.Gogo == nil {
		return pbt.Failf("C20/desc-grpc", "%s: gRPC service descriptor present in api=%v gogoproto=%v", it.Name, p.API != nil, p.Gogo != nil), false, classes
	}
	u := loadUniverse()
	am, gm := []string{}, []string{}
	for _, m := range p.API.Methods {
		am = append(am, m.MethodName)
	}
	for _, m := range p.Gogo.Methods {
		gm = append(gm, m.MethodName)
	}
	if !sameStrings(am, gm) || len(p.API.Streams) != len(p.Gogo.Streams) {
		return pbt.Failf("C20/desc-grpc", "%s: gRPC methods differ: api %v gogoproto %v", it.Name, am, gm), false, classes
	}
	if fmt.Sprint(p.API.Metadata) != fmt.Sprint(p.Gogo.Metadata) {
		return pbt.Failf("C20/desc-grpc", "%s: gRPC metadata (file) differ: api %v gogoproto %v", it.Name, p.API.Metadata, p.Gogo.Metadata), false, classes
	}
	file, _ := p.API.Metadata.(string)
	for side, fd := range map[string]*descriptorpb.FileDescriptorProto{"gogoproto": u.gogo[file], "api": u.api[file]} {
		if fd == nil {
			return pbt.Failf("C20/desc-grpc", "%s: file %q named by the gRPC descriptor is not registered on the %s side", it.Name, file, side), false, classes
		}
		sd := flatten(fd).services[it.Name]
		if sd == nil {
			return pbt.Failf("C20/desc-grpc", "%s: not declared in %s (%s side)", it.Name, file, side), false, classes
		}
		if !sameStrings(names(sd.Method), am) {
			return pbt.Failf("C20/desc-grpc", "%s: gRPC methods %v differ from the protobuf service descriptor %v (%s side)", it.Name, am, names(sd.Method), side), false, classes
		}
	}
	// the routes the generated code really uses: the method a generated client invokes and the method a generated
	// server handler reports to interceptors, in both families, against "/<service>/<method>" of the descriptor
	cc := &recConn{}
	clients, ok := grpcClients(cc)[it.Name]
	if !ok {
		return pbt.Failf("harness/no-grpc-client", "%s: no generated client in the harness table", it.Name), false, classes
	}
	for i, side := range []string{"api", "gogoproto"} {
		sd := []*grpc.ServiceDesc{p.API, p.Gogo}[i]
		cl := reflect.ValueOf(clients[i])
		if cl.NumMethod() != len(am) {
			return pbt.Failf("C20/desc-grpc", "%s: the %s client has %d methods, the service %d", it.Name, side, cl.NumMethod(), len(am)), false, classes
		}
		for _, md := range sd.Methods {
			want := "/" + it.Name + "/" + md.MethodName
			fn := cl.MethodByName(md.MethodName)
			if !fn.IsValid() {
				return pbt.Failf("C20/desc-grpc", "%s: the %s client has no method %s", it.Name, side, md.MethodName), false, classes
			}
			cc.methods = nil
			fn.Call([]reflect.Value{reflect.ValueOf(context.Background()), reflect.New(fn.Type().In(1).Elem())})
			if len(cc.methods) != 1 || cc.methods[0] != want {
				return pbt.Failf("C20/grpc-route", "%s: the %s client's %s invokes %v, the service method is %s", it.Name, side, md.MethodName, cc.methods, want), false, classes
			}
			var seen string
			_, err := md.Handler(nil, context.Background(), func(interface{}) error { return nil },
				func(_ context.Context, _ interface{}, info *grpc.UnaryServerInfo, _ grpc.UnaryHandler) (interface{}, error) {
					seen = info.FullMethod
					return nil, nil
				})
			if err != nil || seen != want {
				return pbt.Failf("C20/grpc-route", "%s: the %s server handler of %s reports %q (%v), the service method is %s", it.Name, side, md.MethodName, seen, err, want), false, classes
			}
			classes = append(classes, "grpc-route")
		}
	}
	for range am {
		classes = append(classes, "grpc-method")
	}
	return nil, true, classes
}

const descRule = "element (file, message, enum, service, method, gRPC service descriptor, Go type of a message with its own Descriptor()/reflection accessors) present in both families and non-empty"

func init() { pbt.RegisterPure("descriptors", checkDesc) }

// TestC20Descriptors enumerates every file, message, field, enum, service and method of both families.
func TestC20Descriptors(t *testing.T) {
	items, err := descItems()
	if err != nil {
		t.Fatalf("harness: %v", err)
	}
	if len(items) == 0 {
		t.Fatalf("harness: nothing registered under %s", filePrefix)
	}
	pbt.Enumerate(t, "C20", "descriptors", descRule, items, checkDesc)
}

func TestReplay(t *testing.T) { pbt.ReplayMain(t) }
