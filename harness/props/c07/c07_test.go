package c07

// C07 Service: deposits and fees are conserved across escrow, providers and consumers.
// C08 Service: each request gets exactly one outcome; contexts follow their schedule.
//
// One state machine serves both properties. The service plumbing lives in svc_test.go, the reference
// arithmetic in model_test.go, the generator in gen_test.go. The machine runs in one of two modes
// ("C07" | "C08"); each mode checks its own oracle clauses and carries its own signatures. Clauses that only
// keep the reference model in step with the code ("sync-…") are checked in both modes.

import (
	"fmt"
	"math/big"
	"os"
	"sort"
	"strings"
	"testing"
	"time"

	sdkmath "cosmossdk.io/math"
	sdk "github.com/cosmos/cosmos-sdk/types"
	gogotypes "github.com/cosmos/gogoproto/types"

	servicetypes "mods.irisnet.org/modules/service/types"

	"verifharness/chain"
	"verifharness/gen"
	"verifharness/pbt"
)

const baseDenom = "stake"

// Switches (environment, read once):
//
//	VERIF_C07_MODEL_F2=1        the model mirrors finding F2 (consumer charged the undiscounted base price; the
//	                            surplus is tracked as "stranded" in the request escrow) so that histories continue
//	                            past it; hits are counted in class f2-mirrored.
//	VERIF_C07_AVOID_F2=1        the generator emits no discounts at all (F2 cannot occur by construction).
//	VERIF_C07_AVOID_MULTIDENOM=1  the generator prices every binding in the base denom (F3 cannot occur).
var (
	swModelF2    = os.Getenv("VERIF_C07_MODEL_F2") != ""
	swAvoidF2    = os.Getenv("VERIF_C07_AVOID_F2") != ""
	swMultiDenom = os.Getenv("VERIF_C07_AVOID_MULTIDENOM") == ""
	// VERIF_C08_RATE_OUTAGE=1: the generator also takes the exchange-rate source of a denom away for a while
	// (off by default: rate outages are outside the quantifier of C07/C08).
	swRateOutage = os.Getenv("VERIF_C08_RATE_OUTAGE") != ""
	swDebug      = os.Getenv("VERIF_C07_DEBUG") != ""
	swOpStats    = os.Getenv("VERIF_C07_OPSTATS") != "" // report per-op accept/reject classes as well
	// VERIF_C08_AVOID_OVER_TOTAL=1: the generator never resumes a paused context whose batch counter has reached
	// its repeated total (finding C08/batch-over-total cannot occur by construction).
	swAvoidOverTotal = os.Getenv("VERIF_C08_AVOID_OVER_TOTAL") != ""
)

// Op is one step of a history (plain data).
type Op struct {
	Kind      string       `json:"kind"`
	Who       int          `json:"who,omitempty"`  // acting user index (owner / consumer)
	Svc       int          `json:"svc,omitempty"`  // service index
	Prov      int          `json:"prov,omitempty"` // provider index (-1 = all, withdraw)
	Amt       string       `json:"amt,omitempty"`  // deposit / fee cap
	Pricing   *PricingSpec `json:"pricing,omitempty"`
	QoS       uint64       `json:"qos,omitempty"`
	Provs     []int        `json:"provs,omitempty"`
	Timeout   int64        `json:"timeout,omitempty"`
	Repeated  bool         `json:"repeated,omitempty"`
	Freq      uint64       `json:"freq,omitempty"`
	Total     int64        `json:"total,omitempty"`
	Module    bool         `json:"module,omitempty"`    // context owned by the harness module (keeper path)
	Threshold uint32       `json:"threshold,omitempty"` // response threshold (module contexts)
	Paused    bool         `json:"paused,omitempty"`    // module context created paused
	Ctx       int          `json:"ctx,omitempty"`       // context index (creation order)
	Req       int          `json:"req,omitempty"`       // request index (creation order)
	Ctl       string       `json:"ctl,omitempty"`       // pause | start | kill
	Stranger  bool         `json:"stranger,omitempty"`  // signed by somebody who is not the consumer
	Keeper    bool         `json:"keeper,omitempty"`    // through the keeper instead of a message
	Wrong     bool         `json:"wrong,omitempty"`     // respond: by a provider the request is not addressed to
	Code      int          `json:"code,omitempty"`      // respond: result code
	Output    bool         `json:"output,omitempty"`    // respond: with an output document
	Addr      int          `json:"addr,omitempty"`      // withdraw address index
	Dt        int64        `json:"dt,omitempty"`        // block: time step (ns)
	N         int          `json:"n,omitempty"`         // block: number of blocks
	Params    *ParamSpec   `json:"params,omitempty"`
	Opts      bool         `json:"opts,omitempty"`  // updbind / bind: sends a non-default options document; define: tags and descriptions
	AsIs      bool         `json:"asis,omitempty"`  // restart: as-is genesis round trip instead of the zero-height restart
	Denom     string       `json:"denom,omitempty"` // rate
	Rate      string       `json:"rate,omitempty"`
	Upper     bool         `json:"upper,omitempty"` // the acting account writes its own address in upper case (respond, context control, withdraw, set-withdraw-address)
}

const (
	stActive = iota
	stAnswered
	stExpired
	stDropped // refunded and forgotten by a zero-height restart
)

type mBinding struct {
	svc      string
	prov     int
	owner    int
	deposit  *big.Int
	pricing  PricingSpec
	qos      uint64
	avail    bool
	disabled time.Time
	restored bool // went through a genesis import
}

type mBatch struct {
	counter   uint64
	issuedAt  int64
	expAt     int64
	nReq      int
	nResp     int
	completed bool
	threshold uint32
	outputs   []string
}

type mCtx struct {
	id        string
	consumer  int
	svc       string
	provs     []int
	cap       *big.Int
	timeout   int64
	repeated  bool
	freq      uint64
	total     int64
	module    bool
	threshold uint32

	exists    bool
	state     servicetypes.RequestContextState
	counter   uint64
	createdH  int64
	firstDue  bool
	lastIssue int64
	clean     bool // running at every observation and not updated since the last issue
	modified  bool // an update of its settings was accepted at some point
	restarted bool // reset by a zero-height restart (its in-flight batch, if any, was forgotten)
	batch     *mBatch

	nBatches     int
	pausedAt     int // number of batches when last paused by its consumer (-1 = never)
	pauseResumed bool
}

type mReq struct {
	id       string
	ctx      *mCtx
	batch    uint64
	prov     int
	denom    string
	fee      *big.Int
	reqH     int64
	expH     int64
	status   int
	discount bool
}

type machine struct {
	prop string
	s    *Svc
	E    *chain.Env

	params ParamSpec
	rates  map[string]string

	defs    map[string]bool
	binds   map[string]*mBinding
	bindOrd []string
	owners  map[int]int // provider -> owner (user index)
	wd      map[int]sdk.AccAddress
	vol     map[string]uint64
	earned  map[int]coins
	ctxs    []*mCtx
	ctxByID map[string]*mCtx
	reqs    []*mReq
	reqByID map[string]*mReq

	stranded coins

	cl   map[string]int
	nOps int
}

const (
	nProviders = 5 // provider indices 0..4
	nServices  = 3
)

// svcNames: two services and a third whose name differs from the first by letter case only (names are compared byte
// for byte: they are three services).
var svcNames = [nServices]string{"svc0", "svc1", "Svc0"}

func svcName(i int) string { return svcNames[((i%nServices)+nServices)%nServices] }

func bindKey(svc string, prov int) string { return fmt.Sprintf("%s|%d", svc, prov) }

func (m *machine) volKey(consumer int, svc string, prov int) string {
	return fmt.Sprintf("%d|%s|%d", consumer, svc, prov)
}

func (m *machine) user(i int) sdk.AccAddress {
	n := len(m.E.Users)
	return m.E.Users[((i%n)+n)%n].Addr
}

func provIdx(i int) int { return ((i % nProviders) + nProviders) % nProviders }

// provAddr is the address of provider i. Provider 3 is the account of owner U1, so that bindings with
// owner == provider (bound by U1) and owner != provider occur side by side.
func provAddr(i int) sdk.AccAddress {
	if i == 3 {
		return gen.Env().Users[1].Addr
	}
	return SvcProviderAddr(i)
}

// addrOf maps a withdraw-address index to an address: the six users plus one account outside the universe.
func (m *machine) addrOf(i int) sdk.AccAddress {
	if i == 6 {
		return SvcProviderAddr(100)
	}
	return m.user(i)
}

func newMachine(prop string) *machine {
	E := gen.Env()
	if swMultiDenom {
		InstallRateSource(E)
	}
	m := &machine{prop: prop, E: E, s: NewSvc(E), defs: map[string]bool{}, binds: map[string]*mBinding{},
		owners: map[int]int{}, wd: map[int]sdk.AccAddress{}, vol: map[string]uint64{}, earned: map[int]coins{},
		ctxByID: map[string]*mCtx{}, reqByID: map[string]*mReq{}, stranded: coins{}, cl: map[string]int{}}
	m.rates = map[string]string{"btc": "2", "eth": "0.5", "usdt": "3"} // usdt sorts after the base denom: a fee of two denoms is debited base denom first
	SetRates(m.rates)
	p := m.s.Params()
	m.params = ParamSpec{Tax: decString(p.ServiceFeeTax), Slash: decString(p.SlashFraction), Multiple: p.MinDepositMultiple,
		MinDeposit: p.MinDeposit.AmountOf(baseDenom).String(), MaxTimeout: p.MaxRequestTimeout,
		Arbitration: int64(p.ArbitrationTimeLimit / time.Second), Complaint: int64(p.ComplaintRetrospect / time.Second)}
	return m
}

func decString(d sdkmath.LegacyDec) string { return d.String() }

func (m *machine) sig(s string) string { return m.prop + "/" + s }

func (m *machine) failf(sig, format string, a ...interface{}) error {
	return pbt.Failf(m.sig(sig), format, a...)
}

func (m *machine) c07() bool { return m.prop == "C07" }
func (m *machine) c08() bool { return m.prop == "C08" }

func coin(denom string, amt *big.Int) sdk.Coins {
	if amt == nil || amt.Sign() <= 0 {
		return sdk.Coins{}
	}
	return sdk.NewCoins(sdk.NewCoin(denom, sdkmath.NewIntFromBigInt(amt)))
}

func toCoins(c sdk.Coins) coins {
	out := coins{}
	for _, x := range c {
		out.add(x.Denom, x.Amount.BigInt())
	}
	return out
}

// ---------------------------------------------------------------------------------------------
// running one step

type stepResult struct {
	res   chain.Result
	delta chain.Delta
	cbs   []CbRecord
}

// step executes f, observes the balance sheet around it and collects callback invocations.
func (m *machine) step(kind string, f func() chain.Result) (stepResult, error) {
	var before chain.Sheet
	if m.c07() {
		before = m.s.C.Snapshot()
	}
	DrainCallbacks()
	r := f()
	cbs := DrainCallbacks()
	sr := stepResult{res: r}
	if r.Outcome == chain.Panicked {
		return sr, m.failf("panic", "%s panicked: %v", kind, r.Panic)
	}
	if r.Outcome == chain.OK {
		sr.cbs = cbs
		m.cl["ok/"+kind]++
	} else {
		m.cl["rej/"+kind]++
		if swDebug {
			fmt.Printf("  %s rejected: %v %v\n", kind, r.Err, r.Panic)
		}
	}
	if m.c07() {
		sr.delta = chain.Diff(before, m.s.C.Snapshot())
		if r.Outcome != chain.OK && !sr.delta.Empty() {
			return sr, m.failf("rejected-with-effect", "%s was rejected but moved coins: %s", kind, sr.delta)
		}
	}
	return sr, nil
}

func (m *machine) wantDelta(kind string, sr stepResult, e *chain.Expect) error {
	if !m.c07() {
		return nil
	}
	if !chain.SameDelta(sr.delta, e.Delta()) {
		return m.failf(kind+"-delta", "%s moved %s, expected %s", kind, sr.delta, e.Delta())
	}
	return nil
}

func sameCbs(got, want []CbRecord) bool {
	norm := func(rs []CbRecord) []string {
		var out []string
		for _, r := range rs {
			o := append([]string{}, r.Outputs...)
			sort.Strings(o)
			out = append(out, fmt.Sprintf("%s|%s|%v|%v|%s", r.Kind, r.CtxID, o, r.ErrNil, r.Cause))
		}
		sort.Strings(out)
		return out
	}
	a, b := norm(got), norm(want)
	if len(a) != len(b) {
		return false
	}
	for i := range a {
		if a[i] != b[i] {
			return false
		}
	}
	return true
}

func (m *machine) wantCallbacks(kind string, got, want []CbRecord) error {
	if !m.c08() {
		return nil
	}
	if !sameCbs(got, want) {
		return m.failf("callback", "%s: callbacks invoked %+v, expected %+v", kind, got, want)
	}
	for _, w := range want {
		if w.Kind == "resp" {
			if w.ErrNil {
				m.cl["callback-with-outputs"]++
			} else {
				m.cl["callback-below-threshold"]++
			}
		}
	}
	return nil
}

// outcome compares the code's accept/reject with a prediction (sig names the clause).
func (m *machine) outcome(sig, kind string, r chain.Result, wantOK bool, why string) error {
	if (r.Outcome == chain.OK) != wantOK {
		return m.failf(sig, "%s: outcome %v, expected ok=%v (%s)", kind, r, wantOK, why)
	}
	return nil
}

// ---------------------------------------------------------------------------------------------
// Apply

func (m *machine) Apply(op Op) error {
	m.nOps++
	if n := len(m.E.Users); true {
		op.Who = ((op.Who % n) + n) % n
	}
	if swDebug {
		fmt.Printf("op %d h=%d %+v\n", m.nOps, m.s.C.Height(), op)
	}
	m.s.Upper = op.Upper
	defer func() { m.s.Upper = false }()
	if op.Upper {
		switch op.Kind {
		case "respond", "ctl", "updctx", "withdraw", "setwd":
			m.cl["own-address-in-upper-case"]++
		}
	}
	var err error
	switch op.Kind {
	case "define":
		err = m.doDefine(op)
	case "bind":
		err = m.doBind(op)
	case "updbind":
		err = m.doUpdBind(op)
	case "disable":
		err = m.doDisable(op)
	case "enable":
		err = m.doEnable(op)
	case "refund":
		err = m.doRefund(op)
	case "setwd":
		err = m.doSetWd(op)
	case "call":
		err = m.doCall(op)
	case "respond":
		err = m.doRespond(op)
	case "ctl":
		err = m.doCtl(op)
	case "updctx":
		err = m.doUpdCtx(op)
	case "withdraw":
		err = m.doWithdraw(op)
	case "params":
		err = m.doParams(op)
	case "rate":
		err = m.doRate(op)
	case "restart":
		err = m.doRestart(op)
	case "block":
		n := op.N
		if n < 1 {
			n = 1
		}
		for i := 0; i < n && err == nil; i++ {
			err = m.doBlock(op.Dt)
			if err == nil && i < n-1 {
				err = m.invariants()
			}
		}
	default:
		return nil
	}
	if err != nil {
		return err
	}
	return m.invariants()
}

func (m *machine) doDefine(op Op) error {
	name := svcName(op.Svc)
	sr, err := m.step("define", func() chain.Result {
		if op.Opts {
			return m.s.DefineWith(m.user(op.Who), name, "a longer description of "+name, "", []string{"t1", "tag-2"})
		}
		return m.s.Define(m.user(op.Who), name)
	})
	if err != nil {
		return err
	}
	if err := m.outcome("sync-outcome", "define", sr.res, !m.defs[name], "definition is new"); err != nil {
		return err
	}
	if sr.res.Outcome == chain.OK {
		m.defs[name] = true
	}
	if err := m.wantCallbacks("define", sr.cbs, nil); err != nil {
		return err
	}
	return m.wantDelta("define", sr, chain.NewExpect())
}

func (m *machine) rateOK(p PricingSpec) bool {
	if p.Denom == baseDenom {
		return true
	}
	_, ok := m.rates[p.Denom]
	return ok
}

func (m *machine) doBind(op Op) error {
	if op.Pricing == nil {
		return nil
	}
	name, prov, owner := svcName(op.Svc), provIdx(op.Prov), op.Who
	dep := mustBig(op.Amt)
	sr, err := m.step("bind", func() chain.Result {
		if op.Opts {
			return m.s.BindWith(m.user(owner), provAddr(prov), name, coin(baseDenom, dep), op.Pricing.JSON(), op.QoS, `{"region":"x","n":[1,2]}`)
		}
		return m.s.Bind(m.user(owner), provAddr(prov), name, coin(baseDenom, dep), op.Pricing.JSON(), op.QoS)
	})
	if err != nil {
		return err
	}
	_, exists := m.binds[bindKey(name, prov)]
	curOwner, owned := m.owners[prov]
	md, rok := m.params.minDeposit(*op.Pricing, baseDenom, m.rates)
	want := m.defs[name] && !exists && (!owned || m.user(curOwner).Equals(m.user(owner))) && dep.Sign() > 0 &&
		op.QoS >= 1 && op.QoS <= uint64(m.params.MaxTimeout) && op.Pricing.wellFormed() && rok && dep.Cmp(md) >= 0
	if err := m.outcome("sync-outcome", "bind", sr.res, want, fmt.Sprintf("defined=%v exists=%v minDeposit=%v", m.defs[name], exists, md)); err != nil {
		return err
	}
	e := chain.NewExpect()
	if sr.res.Outcome == chain.OK {
		m.binds[bindKey(name, prov)] = &mBinding{svc: name, prov: prov, owner: owner, deposit: dep, pricing: *op.Pricing, qos: op.QoS, avail: true}
		m.bindOrd = append(m.bindOrd, bindKey(name, prov))
		if !owned {
			m.owners[prov] = owner
		}
		e.Move(m.user(owner), SvcDepositEscrow, baseDenom, dep)
		if op.Pricing.Denom != baseDenom {
			m.cl["bind-non-base-denom"]++
		}
	}
	if err := m.wantCallbacks("bind", sr.cbs, nil); err != nil {
		return err
	}
	return m.wantDelta("bind", sr, e)
}

func (m *machine) doUpdBind(op Op) error {
	name, prov, owner := svcName(op.Svc), provIdx(op.Prov), op.Who
	add := new(big.Int)
	if op.Amt != "" {
		add = mustBig(op.Amt)
	}
	pj := ""
	if op.Pricing != nil {
		pj = op.Pricing.JSON()
	}
	sr, err := m.step("updbind", func() chain.Result {
		opts := ""
		if op.Opts {
			opts = `{"o":1}`
		}
		return m.s.UpdateBinding(m.user(owner), provAddr(prov), name, coin(baseDenom, add), pj, op.QoS, opts)
	})
	if err != nil {
		return err
	}
	b := m.binds[bindKey(name, prov)]
	want := b != nil && m.user(b.owner).Equals(m.user(owner))
	why := "binding/owner"
	if want {
		updated := op.QoS != 0 || add.Sign() > 0 || op.Pricing != nil || op.Opts
		if !updated {
			m.cl["updbind-empty"]++ // nothing to change: accepted as a no-op whatever the deposit
		}
		if op.QoS != 0 && op.QoS > uint64(m.params.MaxTimeout) {
			want, why = false, "qos"
		}
		pr := b.pricing
		if op.Pricing != nil {
			pr = *op.Pricing
			if !pr.wellFormed() { // a missing exchange rate only matters for the deposit check of an available binding

				want, why = false, "pricing"
			}
		}
		if want && b.avail && updated {
			md, ok := m.params.minDeposit(pr, baseDenom, m.rates)
			if !ok || new(big.Int).Add(b.deposit, add).Cmp(md) < 0 {
				want, why = false, fmt.Sprintf("min deposit %v", md)
			}
		}
	}
	if err := m.outcome("sync-outcome", "updbind", sr.res, want, why); err != nil {
		return err
	}
	e := chain.NewExpect()
	if sr.res.Outcome == chain.OK {
		b.deposit = new(big.Int).Add(b.deposit, add)
		if op.Pricing != nil {
			b.pricing = *op.Pricing
		}
		if op.QoS != 0 {
			b.qos = op.QoS
		}
		if add.Sign() > 0 {
			e.Move(m.user(owner), SvcDepositEscrow, baseDenom, add)
		}
	}
	if err := m.wantCallbacks("updbind", sr.cbs, nil); err != nil {
		return err
	}
	return m.wantDelta("updbind", sr, e)
}

func (m *machine) doDisable(op Op) error {
	name, prov, owner := svcName(op.Svc), provIdx(op.Prov), op.Who
	now := m.s.C.Time()
	sr, err := m.step("disable", func() chain.Result { return m.s.Disable(m.user(owner), provAddr(prov), name) })
	if err != nil {
		return err
	}
	b := m.binds[bindKey(name, prov)]
	want := b != nil && m.user(b.owner).Equals(m.user(owner)) && b.avail
	if err := m.outcome("sync-outcome", "disable", sr.res, want, "binding/owner/available"); err != nil {
		return err
	}
	if sr.res.Outcome == chain.OK {
		b.avail, b.disabled = false, now
	}
	if err := m.wantCallbacks("disable", sr.cbs, nil); err != nil {
		return err
	}
	return m.wantDelta("disable", sr, chain.NewExpect())
}

func (m *machine) doEnable(op Op) error {
	name, prov, owner := svcName(op.Svc), provIdx(op.Prov), op.Who
	add := new(big.Int)
	if op.Amt != "" {
		add = mustBig(op.Amt)
	}
	sr, err := m.step("enable", func() chain.Result {
		return m.s.Enable(m.user(owner), provAddr(prov), name, coin(baseDenom, add))
	})
	if err != nil {
		return err
	}
	b := m.binds[bindKey(name, prov)]
	want := b != nil && m.user(b.owner).Equals(m.user(owner)) && !b.avail
	why := "binding/owner/unavailable"
	if want {
		md, ok := m.params.minDeposit(b.pricing, baseDenom, m.rates)
		if !ok || new(big.Int).Add(b.deposit, add).Cmp(md) < 0 {
			want, why = false, fmt.Sprintf("min deposit %v", md)
		}
	}
	if err := m.outcome("sync-outcome", "enable", sr.res, want, why); err != nil {
		return err
	}
	e := chain.NewExpect()
	if sr.res.Outcome == chain.OK {
		b.deposit = new(big.Int).Add(b.deposit, add)
		b.avail = true
		if add.Sign() > 0 {
			e.Move(m.user(owner), SvcDepositEscrow, baseDenom, add)
		}
	}
	if err := m.wantCallbacks("enable", sr.cbs, nil); err != nil {
		return err
	}
	return m.wantDelta("enable", sr, e)
}

func (m *machine) doRefund(op Op) error {
	name, prov, owner := svcName(op.Svc), provIdx(op.Prov), op.Who
	now := m.s.C.Time()
	sr, err := m.step("refund", func() chain.Result { return m.s.RefundDeposit(m.user(owner), provAddr(prov), name) })
	if err != nil {
		return err
	}
	b := m.binds[bindKey(name, prov)]
	want := b != nil && m.user(b.owner).Equals(m.user(owner)) && !b.avail && b.deposit.Sign() > 0
	if want {
		refundable := b.disabled.Add(time.Duration(m.params.Arbitration) * time.Second).Add(time.Duration(m.params.Complaint) * time.Second)
		want = !now.Before(refundable)
	}
	if err := m.outcome("sync-outcome", "refund", sr.res, want, "binding/owner/unavailable/window"); err != nil {
		return err
	}
	e := chain.NewExpect()
	if sr.res.Outcome == chain.OK {
		e.Move(SvcDepositEscrow, m.user(b.owner), baseDenom, b.deposit)
		b.deposit = new(big.Int)
		m.cl["deposit-refunded"]++
	}
	if err := m.wantCallbacks("refund", sr.cbs, nil); err != nil {
		return err
	}
	return m.wantDelta("refund", sr, e)
}

func (m *machine) doSetWd(op Op) error {
	sr, err := m.step("setwd", func() chain.Result { return m.s.SetWithdrawAddress(m.user(op.Who), m.addrOf(op.Addr)) })
	if err != nil {
		return err
	}
	if sr.res.Outcome == chain.OK {
		m.wd[((op.Who%len(m.E.Users))+len(m.E.Users))%len(m.E.Users)] = m.addrOf(op.Addr)
	}
	if err := m.wantCallbacks("setwd", sr.cbs, nil); err != nil {
		return err
	}
	return m.wantDelta("setwd", sr, chain.NewExpect())
}

func (m *machine) provAddrs(ps []int) []sdk.AccAddress {
	out := make([]sdk.AccAddress, len(ps))
	for i, p := range ps {
		out[i] = provAddr(provIdx(p))
	}
	return out
}

func hasDup(ps []int) bool {
	seen := map[int]bool{}
	for _, p := range ps {
		if seen[provIdx(p)] {
			return true
		}
		seen[provIdx(p)] = true
	}
	return false
}

func (m *machine) doCall(op Op) error {
	name := svcName(op.Svc)
	cap := mustBig(op.Amt)
	cs := CallSpec{Svc: name, Providers: m.provAddrs(op.Provs), Consumer: m.user(op.Who), FeeCap: coin(baseDenom, cap),
		Timeout: op.Timeout, Repeated: op.Repeated, Frequency: op.Freq, Total: op.Total}
	H := m.s.C.Height()
	var id string
	kind := "call"
	if op.Module {
		kind = "mcall"
	}
	sr, err := m.step(kind, func() chain.Result {
		var r chain.Result
		if op.Module {
			id, r = m.s.ModuleCall(VerifModule, cs, !op.Paused, op.Threshold)
		} else {
			id, r = m.s.Call(cs)
		}
		return r
	})
	if err != nil {
		return err
	}
	want := m.defs[name] && len(op.Provs) >= 1 && len(op.Provs) <= 10 && !hasDup(op.Provs) && cap.Sign() > 0 &&
		op.Timeout >= 1 && op.Timeout <= m.params.MaxTimeout
	if op.Repeated {
		want = want && (op.Freq == 0 || op.Freq >= uint64(op.Timeout)) && (op.Total == -1 || op.Total > 0)
	}
	if op.Module {
		want = want && op.Threshold >= 1 && int(op.Threshold) <= len(op.Provs)
	}
	if err := m.outcome("sync-outcome", kind, sr.res, want, "definition/providers/timeout/repetition"); err != nil {
		return err
	}
	if sr.res.Outcome == chain.OK {
		if _, dup := m.ctxByID[id]; dup {
			return m.failf("context-id-reused", "context id %s returned twice", id)
		}
		c := &mCtx{id: id, consumer: op.Who, svc: name, cap: cap, timeout: op.Timeout, repeated: op.Repeated, freq: op.Freq,
			total: op.Total, module: op.Module, exists: true, state: servicetypes.RUNNING, createdH: H, firstDue: true, pausedAt: -1}
		for _, p := range op.Provs {
			c.provs = append(c.provs, provIdx(p))
		}
		if op.Module {
			c.threshold = op.Threshold
			if op.Paused {
				c.state, c.firstDue = servicetypes.PAUSED, false
			}
		}
		if c.repeated {
			if c.freq == 0 {
				c.freq = uint64(c.timeout)
			}
		} else {
			c.freq, c.total = 0, 0
		}
		if !op.Repeated && (op.Freq != 0 || op.Total != 0) {
			// the repetition fields of a one-shot call are not validated and must not matter: one batch, then removed
			m.cl["oneshot-with-repeated-fields"]++
		}
		m.ctxs = append(m.ctxs, c)
		m.ctxByID[id] = c
	}
	if err := m.wantCallbacks(kind, sr.cbs, nil); err != nil {
		return err
	}
	return m.wantDelta(kind, sr, chain.NewExpect())
}

func (m *machine) doRespond(op Op) error {
	if len(m.reqs) == 0 {
		return nil
	}
	r := m.reqs[((op.Req%len(m.reqs))+len(m.reqs))%len(m.reqs)]
	prov := r.prov
	if op.Wrong {
		prov = provIdx(r.prov + 1 + op.Prov%(nProviders-1))
		if prov == r.prov {
			prov = provIdx(r.prov + 1)
		}
	}
	code := op.Code
	if code != 200 && code != 400 && code != 500 {
		code = 200
	}
	output := ""
	if op.Output {
		output = SvcOutputN(len(m.reqs)*1000 + m.nOps)
	}
	wellFormed := (code == 200) == op.Output
	sr, err := m.step("respond", func() chain.Result { return m.s.Respond(provAddr(prov), r.id, SvcResult(code), output) })
	if err != nil {
		return err
	}
	want := wellFormed && !op.Wrong && r.status == stActive
	sig := "sync-outcome"
	if wellFormed {
		// C08: a well-formed answer succeeds iff it comes from the addressed provider while the request is active
		sig = "respond-outcome"
		switch {
		case op.Wrong:
			m.cl["respond-wrong-provider"]++
		case r.status == stAnswered:
			m.cl["respond-duplicate"]++
		case r.status == stExpired || r.status == stDropped:
			m.cl["respond-late"]++
		}
	}
	if err := m.outcome(sig, "respond", sr.res, want, fmt.Sprintf("wrong=%v status=%d wellFormed=%v", op.Wrong, r.status, wellFormed)); err != nil {
		return err
	}
	e := chain.NewExpect()
	var wantCbs []CbRecord
	if sr.res.Outcome == chain.OK {
		tax := floorMul(r.fee, mustRat(m.params.Tax))
		if tax.Sign() > 0 {
			e.Move(SvcRequestEscrow, SvcFeeCollector, r.denom, tax)
		}
		if m.earned[r.prov] == nil {
			m.earned[r.prov] = coins{}
		}
		m.earned[r.prov].add(r.denom, new(big.Int).Sub(r.fee, tax))
		r.status = stAnswered
		m.vol[m.volKey(r.ctx.consumer, r.ctx.svc, r.prov)]++
		m.cl["answered"]++
		if b := m.binds[bindKey(r.ctx.svc, r.prov)]; b != nil && b.restored && r.fee.Sign() > 0 {
			m.cl["restart-then-earned-fee-on-restored-binding"]++
			if provAddr(r.prov).Equals(m.user(b.owner)) {
				m.cl["restart-then-earned-fee-owner==provider"]++
			} else {
				m.cl["restart-then-earned-fee-owner!=provider"]++
			}
		}
		if r.discount {
			m.cl["answered-discounted"]++
		}
		if b := r.ctx.batch; b != nil && b.counter == r.batch {
			b.nResp++
			if output != "" {
				b.outputs = append(b.outputs, output)
			}
			if b.nResp == b.nReq && !b.completed {
				b.completed = true
				if r.ctx.module {
					wantCbs = append(wantCbs, CbRecord{Kind: "resp", CtxID: r.ctx.id, Outputs: b.outputs, ErrNil: len(b.outputs) >= int(b.threshold)})
				}
			}
		} else {
			return m.failf("sync-batch", "answered request %s does not belong to the current batch of its context", r.id)
		}
	}
	if err := m.wantCallbacks("respond", sr.cbs, wantCbs); err != nil {
		return err
	}
	return m.wantDelta("respond", sr, e)
}

func (m *machine) pickCtx(i int) *mCtx {
	if len(m.ctxs) == 0 {
		return nil
	}
	return m.ctxs[((i%len(m.ctxs))+len(m.ctxs))%len(m.ctxs)]
}

// signer of a context operation: the consumer, or somebody else.
func (m *machine) ctxSigner(c *mCtx, stranger bool, who int) sdk.AccAddress {
	if !stranger {
		return m.user(c.consumer)
	}
	a := m.user(who)
	if a.Equals(m.user(c.consumer)) {
		a = m.user(who + 1)
	}
	return a
}

func (m *machine) doCtl(op Op) error {
	c := m.pickCtx(op.Ctx)
	if c == nil {
		return nil
	}
	if op.Ctl != "pause" && op.Ctl != "start" && op.Ctl != "kill" {
		return nil
	}
	signer := m.ctxSigner(c, op.Stranger, op.Who)
	keeper := op.Keeper && c.module // the keeper path bypasses the message-level authority check of plain contexts
	sr, err := m.step(op.Ctl, func() chain.Result {
		if keeper {
			return m.s.ModuleControl(op.Ctl, c.id, signer)
		}
		return m.s.Control(op.Ctl, c.id, signer)
	})
	if err != nil {
		return err
	}
	// authority: only the consumer's operations succeed (module-owned contexts refuse the message path altogether)
	if op.Stranger {
		m.cl["ctl-stranger"]++
		if err := m.outcome("authority", op.Ctl, sr.res, false, "not the consumer"); err != nil {
			return err
		}
	}
	want := c.exists && !op.Stranger && (!c.module || keeper)
	if want {
		switch op.Ctl {
		case "pause":
			want = c.repeated && c.state == servicetypes.RUNNING
		case "start":
			want = c.state == servicetypes.PAUSED
		case "kill":
			want = c.repeated
		}
	}
	if err := m.outcome("sync-outcome", op.Ctl, sr.res, want, fmt.Sprintf("exists=%v state=%v repeated=%v module=%v", c.exists, c.state, c.repeated, c.module)); err != nil {
		return err
	}
	if sr.res.Outcome == chain.OK {
		switch op.Ctl {
		case "pause":
			c.state = servicetypes.PAUSED
			c.pausedAt = c.nBatches
		case "start":
			c.state = servicetypes.RUNNING
		case "kill":
			c.state = servicetypes.COMPLETED
			m.cl["killed"]++
		}
		c.clean = false
	}
	if err := m.wantCallbacks(op.Ctl, sr.cbs, nil); err != nil {
		return err
	}
	return m.wantDelta(op.Ctl, sr, chain.NewExpect())
}

func (m *machine) doUpdCtx(op Op) error {
	c := m.pickCtx(op.Ctx)
	if c == nil {
		return nil
	}
	signer := m.ctxSigner(c, op.Stranger, op.Who)
	u := CtxUpdate{Providers: m.provAddrs(op.Provs), Timeout: op.Timeout, Frequency: op.Freq, Total: op.Total, Threshold: op.Threshold}
	if op.Amt != "" {
		u.FeeCap = coin(baseDenom, mustBig(op.Amt))
	}
	keeper := op.Keeper && c.module
	sr, err := m.step("updctx", func() chain.Result {
		if keeper {
			return m.s.ModuleUpdateContext(c.id, signer, u)
		}
		return m.s.UpdateContext(c.id, signer, u)
	})
	if err != nil {
		return err
	}
	if op.Stranger {
		m.cl["ctl-stranger"]++
		if err := m.outcome("authority", "updctx", sr.res, false, "not the consumer"); err != nil {
			return err
		}
	}
	if (!c.exists || (c.module && !keeper)) && sr.res.Outcome == chain.OK {
		return m.failf("sync-outcome", "updctx accepted for a context that is gone or module-owned: %+v", op)
	}
	if sr.res.Outcome == chain.OK {
		// settings are configuration: re-read them
		cc, ok := m.s.Context(c.id)
		if !ok {
			return m.failf("sync-context", "context %s vanished in an update", c.id)
		}
		c.timeout, c.freq, c.total, c.threshold = cc.Timeout, cc.RepeatedFrequency, cc.RepeatedTotal, cc.ResponseThreshold
		c.cap = cc.ServiceFeeCap.AmountOf(baseDenom).BigInt()
		c.provs = c.provs[:0]
		for _, p := range cc.Providers {
			idx := -1
			for i := 0; i < nProviders; i++ {
				if provAddr(i).String() == p {
					idx = i
				}
			}
			c.provs = append(c.provs, idx)
		}
		c.clean, c.modified = false, true
		m.cl["context-updated"]++
		if !c.repeated && (op.Freq != 0 || op.Total != 0) {
			// accepted repetition settings on a one-shot context: it stays one-shot (c.repeated is not re-read)
			m.cl["oneshot-updated-with-repeated-fields"]++
		}
	}
	if err := m.wantCallbacks("updctx", sr.cbs, nil); err != nil {
		return err
	}
	return m.wantDelta("updctx", sr, chain.NewExpect())
}

func (m *machine) doWithdraw(op Op) error {
	owner := op.Who
	e := chain.NewExpect()
	var sr stepResult
	var err error
	wdAddr := m.user(owner)
	if a, ok := m.wd[((owner%len(m.E.Users))+len(m.E.Users))%len(m.E.Users)]; ok {
		wdAddr = a
	}
	if op.Prov < 0 {
		sr, err = m.step("withdraw-all", func() chain.Result { return m.s.WithdrawAll(m.user(owner)) })
		if err != nil {
			return err
		}
		if sr.res.Outcome == chain.OK {
			for p, o := range m.owners {
				if !m.user(o).Equals(m.user(owner)) {
					continue
				}
				for _, d := range m.earned[p].denoms() {
					e.Move(SvcRequestEscrow, wdAddr, d, m.earned[p][d])
					m.cl["withdraw-paid"]++
				}
				delete(m.earned, p)
			}
		}
		if err := m.wantCallbacks("withdraw", sr.cbs, nil); err != nil {
			return err
		}
		return m.wantDelta("withdraw", sr, e)
	}
	prov := provIdx(op.Prov)
	sr, err = m.step("withdraw", func() chain.Result { return m.s.Withdraw(m.user(owner), provAddr(prov)) })
	if err != nil {
		return err
	}
	o, owned := m.owners[prov]
	want := owned && m.user(o).Equals(m.user(owner))
	if err := m.outcome("withdraw-authority", "withdraw", sr.res, want, "only the provider's owner withdraws"); err != nil {
		return err
	}
	if sr.res.Outcome == chain.OK {
		for _, d := range m.earned[prov].denoms() {
			e.Move(SvcRequestEscrow, wdAddr, d, m.earned[prov][d])
			m.cl["withdraw-paid"]++
			if b := m.anyRestoredBinding(prov); b {
				m.cl["restart-then-withdraw"]++
			}
		}
		delete(m.earned, prov)
	}
	if err := m.wantCallbacks("withdraw", sr.cbs, nil); err != nil {
		return err
	}
	return m.wantDelta("withdraw", sr, e)
}

// doRestart takes the service module through its genesis and lets the history continue.
//
// as-is: export, wipe exactly the prefixes the genesis carries, import; admissible only while every stored context
// is PAUSED with a COMPLETED batch (anything else is rejected by the genesis validation: known finding F9e). The
// model is untouched: nothing may change.
//
// zero-height (the real restart): service.PrepForZeroHeightGenesis, then export, wipe the whole store, import. The
// model learns exactly what the preparation documents and what the genesis visibly does not carry: fees of active
// requests go back to the consumers (no slash) and the requests are forgotten; earned fees are paid out to the
// provider addresses and the tallies are gone; every context is PAUSED with no batch outstanding (killed ones
// included), queues are empty; request volumes (volume discounts) start again at zero.
func (m *machine) doRestart(op Op) error {
	if op.AsIs {
		if !m.s.AsIsAdmissible() {
			m.cl["skipped:C12/asis-running-context-rejected"]++
			return nil
		}
		sr, err := m.step("restart-asis", func() chain.Result {
			if stage, e := m.s.ReimportAsIs(); e != nil {
				return chain.Result{Outcome: chain.Rejected, Err: fmt.Errorf("%s: %w", stage, e)}
			}
			return chain.Result{Outcome: chain.OK}
		})
		if err != nil {
			return err
		}
		if sr.res.Outcome != chain.OK {
			return m.failf("reimport-asis", "as-is genesis round trip of a state with only paused contexts failed: %v", sr.res.Err)
		}
		m.noteRestart("restart-asis")
		if err := m.wantCallbacks("restart", sr.cbs, nil); err != nil {
			return err
		}
		return m.wantDelta("restart", sr, chain.NewExpect())
	}
	e := chain.NewExpect()
	for _, r := range m.reqs {
		if r.status == stActive && r.fee.Sign() > 0 {
			e.Move(SvcRequestEscrow, m.user(r.ctx.consumer), r.denom, r.fee)
		}
	}
	for p := 0; p < nProviders; p++ {
		for _, d := range m.earned[p].denoms() {
			e.Move(SvcRequestEscrow, provAddr(p), d, m.earned[p][d])
		}
	}
	sr, err := m.step("restart", func() chain.Result {
		if r := m.s.PrepZeroHeight(); r.Outcome != chain.OK {
			if r.Err == nil {
				r.Err = fmt.Errorf("prepare: %v", r.Panic)
			}
			r.Outcome = chain.Rejected
			return r
		}
		if stage, e := m.s.ReimportZeroHeight(); e != nil {
			return chain.Result{Outcome: chain.Rejected, Err: fmt.Errorf("%s: %w", stage, e)}
		}
		return chain.Result{Outcome: chain.OK}
	})
	if err != nil {
		return err
	}
	if sr.res.Outcome != chain.OK {
		return m.failf("reimport-zero-height", "zero-height restart of the service module failed: %v", sr.res.Err)
	}
	nDropped := 0
	for _, r := range m.reqs {
		if r.status == stActive {
			r.status = stDropped
			nDropped++
		}
	}
	if nDropped > 0 {
		m.cl["restart-with-active-requests"]++
	}
	if len(e.Delta().Bal) > 0 {
		m.cl["restart-paying-out"]++
	}
	m.earned = map[int]coins{}
	m.vol = map[string]uint64{}
	for _, c := range m.ctxs {
		if !c.exists {
			continue
		}
		if c.batch != nil {
			m.cl["restart-with-batch-in-flight"]++
		}
		c.state, c.batch, c.clean, c.firstDue, c.restarted = servicetypes.PAUSED, nil, false, false, true
		m.cl["restart-with-contexts"]++
	}
	m.noteRestart("restart")
	if err := m.wantCallbacks("restart", sr.cbs, nil); err != nil {
		return err
	}
	return m.wantDelta("restart", sr, e)
}

func (m *machine) anyRestoredBinding(prov int) bool {
	for _, k := range m.bindOrd {
		if b := m.binds[k]; b.prov == prov && b.restored {
			return true
		}
	}
	return false
}

func (m *machine) noteRestart(class string) {
	m.cl[class]++
	for _, k := range m.bindOrd {
		b := m.binds[k]
		b.restored = true
		if provAddr(b.prov).Equals(m.user(b.owner)) {
			m.cl["restart-with-owner==provider"]++
		} else {
			m.cl["restart-with-owner!=provider"]++
		}
	}
	if len(m.wd) > 0 {
		m.cl["restart-with-withdraw-address"]++
	}
}

func (m *machine) doParams(op Op) error {
	if op.Params == nil {
		return nil
	}
	ps := *op.Params
	p := m.s.Params()
	p.ServiceFeeTax = sdkmath.LegacyMustNewDecFromStr(ps.Tax)
	p.SlashFraction = sdkmath.LegacyMustNewDecFromStr(ps.Slash)
	p.MinDepositMultiple = ps.Multiple
	p.MinDeposit = coin(baseDenom, mustBig(ps.MinDeposit))
	p.MaxRequestTimeout = ps.MaxTimeout
	p.ArbitrationTimeLimit = time.Duration(ps.Arbitration) * time.Second
	p.ComplaintRetrospect = time.Duration(ps.Complaint) * time.Second
	sr, err := m.step("params", func() chain.Result { return m.s.UpdateParams(p) })
	if err != nil {
		return err
	}
	if err := m.outcome("sync-outcome", "params", sr.res, true, "valid parameters"); err != nil {
		return err
	}
	m.params = ps
	if err := m.wantCallbacks("params", sr.cbs, nil); err != nil {
		return err
	}
	return m.wantDelta("params", sr, chain.NewExpect())
}

func (m *machine) doRate(op Op) error {
	if op.Denom == "" {
		return nil
	}
	if op.Rate == "" { // outage of the rate source (only generated under VERIF_C08_RATE_OUTAGE)
		delete(m.rates, op.Denom)
		SetRates(m.rates)
		return nil
	}
	m.rates[op.Denom] = op.Rate
	SetRates(m.rates)
	return nil
}

// ---------------------------------------------------------------------------------------------
// blocks

type eligible struct {
	prov  int
	denom string
	fee   *big.Int // recorded on the request
	base  *big.Int // undiscounted price
	disc  bool
}

// eligibleProviders applies the provider filter of a new batch: bound, available, QoS within the timeout and
// discounted price (in the base denom) within the fee cap.
func (m *machine) eligibleProviders(c *mCtx, now time.Time) []eligible {
	var out []eligible
	for _, p := range c.provs {
		b := m.binds[bindKey(c.svc, p)]
		if b == nil || !b.avail || b.qos > uint64(c.timeout) {
			if swOpStats {
				switch {
				case b == nil:
					m.cl["filter/unbound"]++
				case !b.avail:
					m.cl["filter/unavailable"]++
				default:
					m.cl["filter/qos"]++
				}
			}
			continue
		}
		price := mustBig(b.pricing.Price)
		d := b.pricing.discount(now, m.vol[m.volKey(c.consumer, c.svc, p)])
		fee := floorMul(price, d)
		ex := fee
		if b.pricing.Denom != baseDenom {
			r, ok := m.rates[b.pricing.Denom]
			if !ok {
				return nil
			}
			ex = floorMul(price, new(big.Rat).Mul(d, mustRat(r)))
		}
		if swOpStats {
			if ex.Cmp(c.cap) <= 0 {
				m.cl["filter/pass"]++
			} else {
				m.cl["filter/cap"]++
			}
		}
		if ex.Cmp(c.cap) <= 0 {
			out = append(out, eligible{prov: p, denom: b.pricing.Denom, fee: fee, base: price, disc: d.Cmp(ratOne) != 0})
		}
	}
	return out
}

// rateMissing tells whether pricing a new batch of c needs an exchange rate that the rate source cannot give
// (the module then issues nothing and reports a no_exchange_rate event).
func (m *machine) rateMissing(c *mCtx) bool {
	for _, p := range c.provs {
		b := m.binds[bindKey(c.svc, p)]
		if b == nil || !b.avail || b.qos > uint64(c.timeout) || b.pricing.Denom == baseDenom {
			continue
		}
		if _, ok := m.rates[b.pricing.Denom]; !ok {
			return true
		}
	}
	return false
}

// staleQueueEntries lists contexts whose new-batch / expired-batch queue marker points below minHeight: such an
// entry can never be processed any more.
func (m *machine) staleQueueEntries(minHeight int64) []string {
	var out []string
	for _, q := range []struct {
		name   string
		prefix []byte
	}{{"new-batch", servicetypes.NewRequestBatchHeightKey}, {"expired-batch", servicetypes.ExpiredRequestBatchHeightKey}} {
		keys, vals := m.s.C.RawStore(servicetypes.StoreKey, q.prefix)
		for i, k := range keys {
			var h gogotypes.Int64Value
			m.E.App.AppCodec().MustUnmarshal(vals[i], &h)
			if h.Value < minHeight {
				out = append(out, fmt.Sprintf("%s queue entry of context %X at height %d", q.name, k[1:], h.Value))
			}
		}
	}
	return out
}

func (m *machine) doBlock(dt int64) error {
	if dt <= 0 {
		dt = int64(time.Second)
	}
	H, now := m.s.C.Height(), m.s.C.Time()
	before := m.s.C.Snapshot()
	DrainCallbacks()
	end, begin := m.s.NextBlock(time.Duration(dt))
	if end.Outcome != chain.OK || begin.Outcome != chain.OK {
		return m.failf("block-hook", "block hooks failed at height %d: end=%v begin=%v", H, end, begin)
	}
	cbs := DrainCallbacks()
	got := chain.Diff(before, m.s.C.Snapshot())
	m.cl["blocks"]++

	e := chain.NewExpect()
	var wantCbs []CbRecord
	slashRat := mustRat(m.params.Slash)
	refunded := map[int]coins{} // consumer -> refunds
	charged := map[int]coins{}  // consumer -> Σ recorded fees of new requests
	issuedFor := map[int]bool{} // consumers for whom requests were issued in this block
	pausedFor := map[int]bool{} // consumers one of whose contexts was paused for lack of funds in this block
	slashed := new(big.Int)

	// ---- expirations at H: every still-active request is slashed and refunded once
	var expiring []*mReq
	for _, r := range m.reqs {
		if r.status == stActive && r.expH == H {
			expiring = append(expiring, r)
		}
	}
	sort.Slice(expiring, func(i, j int) bool { return expiring[i].id < expiring[j].id })
	for _, r := range expiring {
		if b := m.binds[bindKey(r.ctx.svc, r.prov)]; b != nil {
			s := floorMul(b.deposit, slashRat)
			b.deposit = new(big.Int).Sub(b.deposit, s)
			slashed.Add(slashed, s)
			if s.Sign() > 0 {
				e.Move(SvcDepositEscrow, SvcFeeCollector, baseDenom, s)
				m.cl["slashed"]++
			}
			if b.avail {
				if md, ok := m.params.minDeposit(b.pricing, baseDenom, m.rates); !ok || b.deposit.Cmp(md) < 0 {
					b.avail, b.disabled = false, now
					m.cl["slash-disabled-binding"]++
				}
			}
		}
		if r.fee.Sign() > 0 {
			e.Move(SvcRequestEscrow, m.user(r.ctx.consumer), r.denom, r.fee)
			if refunded[r.ctx.consumer] == nil {
				refunded[r.ctx.consumer] = coins{}
			}
			refunded[r.ctx.consumer].add(r.denom, r.fee)
		}
		r.status = stExpired
		m.cl["expired"]++
		if r.discount {
			m.cl["expired-discounted"]++
		}
	}
	expiredBatch := map[*mCtx]bool{}
	for _, c := range m.ctxs {
		if b := c.batch; c.exists && b != nil && b.expAt == H {
			expiredBatch[c] = true
			if !b.completed {
				b.completed = true
				if c.module {
					wantCbs = append(wantCbs, CbRecord{Kind: "resp", CtxID: c.id, Outputs: b.outputs, ErrNil: len(b.outputs) >= int(b.threshold)})
				}
				if b.nReq > 0 && b.nResp > 0 && b.nResp < b.nReq {
					m.cl["partial-batch"]++
				}
				if b.nReq == 0 {
					m.cl["skipped-batch-expired"]++
				}
			}
			c.batch = nil
		}
	}

	// ---- new batches: observed from the batch counters, contents predicted
	known := map[string]bool{}
	for _, r := range m.reqs {
		known[r.id] = true
	}
	newReqs := map[string][]ReqInfo{}
	for _, ri := range m.s.Requests() {
		if !known[ri.ID] {
			newReqs[ri.CtxID] = append(newReqs[ri.CtxID], ri)
		}
	}
	order := append([]*mCtx{}, m.ctxs...)
	sort.Slice(order, func(i, j int) bool { return order[i].id < order[j].id })
	for _, c := range order {
		if !c.exists {
			continue
		}
		cc, found := m.s.Context(c.id)
		if !found {
			// a context is removed when a batch expires (last batch, killed) or, having used up its total, instead of a further batch
			exhausted := c.repeated && c.total > 0 && int64(c.counter) >= c.total && c.state == servicetypes.RUNNING
			if !expiredBatch[c] && !exhausted {
				return m.failf("context-vanished", "context %s disappeared at height %d without a batch expiring", c.id, H)
			}
			c.exists = false
			m.cl["context-removed"]++
			if len(newReqs[c.id]) > 0 {
				return m.failf("batch-content", "removed context %s got new requests", c.id)
			}
			continue
		}
		if expiredBatch[c] && !c.repeated {
			sig := "oneshot-not-removed"
			if !m.c08() {
				sig = "sync-context" // C07: the model removes a one-shot context with its batch
			}
			return m.failf(sig, "one-shot context %s still exists after its batch expired at height %d", c.id, H)
		}
		prevState := c.state
		issued := false
		switch cc.BatchCounter {
		case c.counter:
		case c.counter + 1:
			issued = true
		default:
			return m.failf("batch-counter", "context %s: batch counter went %d -> %d in one block", c.id, c.counter, cc.BatchCounter)
		}
		due := prevState == servicetypes.RUNNING &&
			((c.firstDue && H == c.createdH) ||
				(c.repeated && c.lastIssue != 0 && c.clean && H == c.lastIssue+int64(c.freq) && (c.total < 0 || int64(c.counter) < c.total)))
		if issued {
			if m.c08() {
				if prevState != servicetypes.RUNNING {
					return m.failf("batch-while-paused", "context %s issued batch %d at height %d while %v", c.id, cc.BatchCounter, H, prevState)
				}
				if c.lastIssue != 0 && c.clean && H != c.lastIssue+int64(c.freq) {
					return m.failf("batch-timing", "context %s (frequency %d, unmodified, running): batch %d issued at %d, batch %d at %d",
						c.id, c.freq, c.counter, c.lastIssue, cc.BatchCounter, H)
				}
				if c.lastIssue != 0 && c.clean {
					m.cl["timing-checked"]++
				}
				if !c.repeated && cc.BatchCounter > 1 && !c.restarted {
					return m.failf("oneshot-second-batch", "one-shot context %s issued batch %d", c.id, cc.BatchCounter)
				}
				if c.repeated && !c.modified && c.total > 0 && int64(cc.BatchCounter) > c.total {
					return m.failf("batch-over-total", "context %s issued batch %d of %d", c.id, cc.BatchCounter, c.total)
				}
			}
			el := m.eligibleProviders(c, now)
			if len(el) == 0 || len(el) < int(c.threshold) {
				el = nil
				m.cl["skipped-batch"]++
			}
			gotReqs := newReqs[c.id]
			delete(newReqs, c.id)
			if len(gotReqs) != len(el) {
				return m.failf("batch-content", "context %s batch %d: %d requests created, %d providers pass the filter (%+v vs %+v)",
					c.id, cc.BatchCounter, len(gotReqs), len(el), gotReqs, el)
			}
			for i, ri := range gotReqs {
				w := el[i]
				if ri.Provider != provAddr(w.prov).String() || ri.Batch != cc.BatchCounter || ri.ReqH != H || ri.ExpH != H+c.timeout || !ri.Active || ri.Answered {
					return m.failf("batch-content", "context %s batch %d request %d: %+v, expected provider %d issued at %d expiring at %d",
						c.id, cc.BatchCounter, i, ri, w.prov, H, H+c.timeout)
				}
				if !toCoins(ri.Fee).equal(toCoins(coin(w.denom, w.fee))) {
					return m.failf("request-fee", "context %s batch %d request to provider %d records fee %s, pricing gives %s%s",
						c.id, cc.BatchCounter, w.prov, ri.Fee, w.fee, w.denom)
				}
				r := &mReq{id: ri.ID, ctx: c, batch: cc.BatchCounter, prov: w.prov, denom: w.denom, fee: w.fee, reqH: H, expH: ri.ExpH, discount: w.disc}
				m.reqs = append(m.reqs, r)
				m.reqByID[r.id] = r
				m.cl["requests"]++
				if w.disc {
					m.cl["requests-discounted"]++
				}
				if w.denom != baseDenom {
					m.cl["requests-non-base-denom"]++
				}
				pay := w.fee
				if swModelF2 && w.base.Cmp(w.fee) != 0 {
					pay = w.base
					m.stranded.add(w.denom, new(big.Int).Sub(w.base, w.fee))
					m.cl["f2-mirrored"]++
				}
				if pay.Sign() > 0 {
					e.Move(m.user(c.consumer), SvcRequestEscrow, w.denom, pay)
				}
				if charged[c.consumer] == nil {
					charged[c.consumer] = coins{}
				}
				charged[c.consumer].add(w.denom, pay)
				issuedFor[c.consumer] = true
			}
			c.batch = &mBatch{counter: cc.BatchCounter, issuedAt: H, expAt: H + c.timeout, nReq: len(el), threshold: c.threshold}
			c.counter = cc.BatchCounter
			c.lastIssue, c.clean = H, true
			c.nBatches++
			if c.pausedAt >= 0 && c.nBatches > c.pausedAt {
				c.pauseResumed = true
			}
		} else if due && m.rateMissing(c) {
			m.cl["rate-outage-miss"]++ // cannot be priced: tolerated, but the context must not be lost (stale-queue clause below)
			c.clean = false
		} else if due && m.c08() && cc.State != servicetypes.PAUSED {
			return m.failf("batch-missed", "context %s (state %v, frequency %d, last batch at %d, counter %d of %d) issued nothing at height %d",
				c.id, cc.State, c.freq, c.lastIssue, c.counter, c.total, H)
		}
		if cc.State != prevState {
			if !(prevState == servicetypes.RUNNING && cc.State == servicetypes.PAUSED && !issued) {
				return m.failf("state-changed-in-block", "context %s went %v -> %v in the end-block of height %d (batch issued: %v)", c.id, prevState, cc.State, H, issued)
			}
			// paused by the module: the consumer could not pay
			m.cl["funds-pause"]++
			pausedFor[c.consumer] = true
			// the shape in which a charge can half happen: the fee has a part in the base denom that the consumer can
			// pay and a part in a denom that is debited after it (coins are debited in denom order) and that the consumer
			// does not hold at all
			if el := m.eligibleProviders(c, now); len(el) > 0 {
				fee := coins{}
				for _, w := range el {
					fee.add(w.denom, w.fee)
				}
				bal := m.s.Balances(m.user(c.consumer))
				if f := fee[baseDenom]; f != nil && f.Sign() > 0 && bal.AmountOf(baseDenom).BigInt().Cmp(f) >= 0 {
					for d, f := range fee {
						if d > baseDenom && f.Sign() > 0 && bal.AmountOf(d).IsZero() {
							m.cl["funds-pause-with-base-part-payable-and-a-later-denom-not-held"]++
							break
						}
					}
				}
			}
			if c.module {
				cause := "insufficient balances"
				if m.rateMissing(c) {
					cause = "no exchange rate" // behaviour of the proposed fix for C08/context-stalled
				}
				wantCbs = append(wantCbs, CbRecord{Kind: "state", CtxID: c.id, Cause: cause})
			}
			c.state, c.clean = cc.State, false
		}
		if H >= c.createdH {
			c.firstDue = false
		}
	}
	for id, rs := range newReqs {
		return m.failf("batch-content", "%d requests appeared for context %s which issued no batch", len(rs), id)
	}

	if err := m.wantCallbacks("block", cbs, wantCbs); err != nil {
		return err
	}
	if m.c08() {
		if stale := m.staleQueueEntries(H + 1); len(stale) > 0 {
			return m.failf("context-stalled", "after the end-block of height %d: %s — it will never be processed, the context issues no further batch and cannot be restarted", H, strings.Join(stale, "; "))
		}
	}

	// ---- coins
	want := e.Delta()
	if m.c07() {
		for u := range m.E.Users {
			hasNew := issuedFor[u]
			for _, d := range []string{baseDenom, "btc", "eth", "usdt"} {
				k := m.user(u).String() + "/" + d
				g, w := got.Bal[k], want.Bal[k]
				if g == nil {
					g = new(big.Int)
				}
				if w == nil {
					w = new(big.Int)
				}
				if g.Cmp(w) != 0 {
					if pausedFor[u] && g.Cmp(w) < 0 {
						return m.failf("failed-charge-debit", "height %d: consumer U%d could not pay for a batch (context paused, no request issued) but its %s balance changed by %s, expected %s; supply of %s changed by %v",
							H, u, d, g, w, d, got.Sup[d])
					}
					if hasNew {
						return m.failf("consumer-charge", "height %d: consumer U%d balance of %s changed by %s; fees recorded on the requests issued for them %s, refunds %s",
							H, u, d, g, charged[u], refunded[u])
					}
					return m.failf("expiry-refund", "height %d: consumer U%d balance of %s changed by %s, expected refunds %s", H, u, d, g, refunded[u])
				}
			}
		}
		if !chain.SameDelta(got, want) {
			return m.failf("block-delta", "end-block of height %d moved %s, expected %s", H, got, want)
		}
	} else {
		// C08: expiry effects only (slash and refund), leaving the charge of new batches to C07
		key := func(a sdk.AccAddress, d string) string { return a.String() + "/" + d }
		cmp := func(k string) error {
			g, w := got.Bal[k], want.Bal[k]
			if g == nil {
				g = new(big.Int)
			}
			if w == nil {
				w = new(big.Int)
			}
			if g.Cmp(w) != 0 {
				return m.failf("expiry-effects", "height %d: %s changed by %s, expected %s (slash / refund of expired requests)", H, k, g, w)
			}
			return nil
		}
		if err := cmp(key(SvcDepositEscrow, baseDenom)); err != nil {
			return err
		}
		if err := cmp(key(SvcFeeCollector, baseDenom)); err != nil {
			return err
		}
		for u := range m.E.Users {
			if issuedFor[u] || pausedFor[u] { // charges (and failed charges) are C07's business
				continue
			}
			for _, d := range []string{baseDenom, "btc", "eth", "usdt"} {
				if err := cmp(key(m.user(u), d)); err != nil {
					return err
				}
			}
		}
	}
	return nil
}

// ---------------------------------------------------------------------------------------------
// invariants after every step

func (m *machine) invariants() error {
	s := m.s
	// contexts: existence, state, counter
	for _, c := range m.ctxs {
		cc, found := s.Context(c.id)
		if found != c.exists {
			return m.failf("sync-context", "context %s exists=%v, model says %v", c.id, found, c.exists)
		}
		if !found {
			continue
		}
		if cc.State != c.state || cc.BatchCounter != c.counter {
			return m.failf("sync-context", "context %s state=%v counter=%d, model says %v %d", c.id, cc.State, cc.BatchCounter, c.state, c.counter)
		}
		if c.state != servicetypes.RUNNING {
			c.clean = false
		}
	}
	// requests: one outcome each
	reqs := s.Requests()
	codeActive := map[string]bool{}
	activeFees := coins{}
	for _, ri := range reqs {
		r := m.reqByID[ri.ID]
		if r == nil {
			return m.failf("sync-requests", "request %s exists in the store but was never seen issued", ri.ID)
		}
		if ri.Active {
			codeActive[ri.ID] = true
			activeFees.addAll(toCoins(ri.Fee))
		}
		if ri.Active && ri.Answered {
			return m.failf("outcome", "request %s is answered and still active", ri.ID)
		}
		switch r.status {
		case stActive:
			if !ri.Active || ri.Answered {
				return m.failf("outcome", "request %s should be awaiting its response: active=%v answered=%v", ri.ID, ri.Active, ri.Answered)
			}
		case stAnswered:
			if ri.Active || !ri.Answered {
				return m.failf("outcome", "request %s was answered: active=%v answered=%v", ri.ID, ri.Active, ri.Answered)
			}
		case stExpired:
			if ri.Active || ri.Answered {
				return m.failf("outcome", "request %s expired: active=%v answered=%v", ri.ID, ri.Active, ri.Answered)
			}
		case stDropped:
			return m.failf("outcome", "request %s was refunded and dropped by a restart but is stored again", ri.ID)
		}
	}
	for _, r := range m.reqs {
		if r.status == stActive && !codeActive[r.id] {
			return m.failf("outcome", "request %s should still be active (expires at %d, height %d)", r.id, r.expH, s.C.Height())
		}
	}
	nActive := 0
	for _, r := range m.reqs {
		if r.status == stActive {
			nActive++
		}
	}
	if mk := s.ActiveMarkers(); len(mk) != nActive {
		return m.failf("outcome", "%d active markers in the store, %d requests await a response", len(mk), nActive)
	}
	// bindings
	depSum := new(big.Int)
	seen := 0
	for _, b := range s.Bindings() {
		depSum.Add(depSum, b.Deposit.AmountOf(baseDenom).BigInt())
		var mb *mBinding
		for i := 0; i < nProviders; i++ {
			if provAddr(i).String() == b.Provider {
				mb = m.binds[bindKey(b.ServiceName, i)]
			}
		}
		if mb == nil {
			return m.failf("sync-binding", "binding %s/%s unknown to the model", b.ServiceName, b.Provider)
		}
		seen++
		if b.Available != mb.avail {
			return m.failf("sync-binding", "binding %s/%d available=%v, model says %v", mb.svc, mb.prov, b.Available, mb.avail)
		}
		if m.c07() && b.Deposit.AmountOf(baseDenom).BigInt().Cmp(mb.deposit) != 0 {
			return m.failf("binding-deposit", "binding %s/%d records deposit %s, expected %s", mb.svc, mb.prov, b.Deposit, mb.deposit)
		}
	}
	if seen != len(m.binds) {
		return m.failf("sync-binding", "%d bindings stored, model has %d", seen, len(m.binds))
	}
	if !m.c07() {
		return nil
	}
	// (1) deposit escrow = Σ recorded deposits
	if got := toCoins(s.Balances(SvcDepositEscrow)); !got.equal(toCoins(coin(baseDenom, depSum))) {
		return m.failf("deposit-escrow", "deposit escrow holds %s, bindings record %s%s", got, depSum, baseDenom)
	}
	// (2) request escrow = Σ fees awaiting a response + Σ unwithdrawn earned fees
	total, per := s.EarnedAll()
	liab := activeFees.clone()
	liab.addAll(toCoins(total))
	liab.addAll(m.stranded)
	if got := toCoins(s.Balances(SvcRequestEscrow)); !got.equal(liab) {
		return m.failf("request-escrow", "request escrow holds %s; fees of active requests %s + earned fees %s (+ mirrored F2 surplus %s)", got, activeFees, total, m.stranded)
	}
	// (3) provider-side and owner-side tallies agree, and both agree with the model
	byOwner := map[int]coins{}
	for p := 0; p < nProviders; p++ {
		got := toCoins(per[provAddr(p).String()])
		want := m.earned[p]
		if want == nil {
			want = coins{}
		}
		if !got.equal(want) {
			return m.failf("earned-tally", "provider %d earned-fee tally %s, expected %s", p, got, want)
		}
		if o, ok := m.owners[p]; ok {
			if byOwner[o] == nil {
				byOwner[o] = coins{}
			}
			byOwner[o].addAll(got)
		}
	}
	for u := range m.E.Users {
		want := byOwner[u]
		if want == nil {
			want = coins{}
		}
		if got := toCoins(s.OwnerEarned(m.user(u))); !got.equal(want) {
			return m.failf("owner-tally", "owner U%d tally %s, its providers' tallies add up to %s", u, got, want)
		}
	}
	return nil
}

func (m *machine) Finish() error { return nil }

// opTotals accumulates class totals over all cases of the process (printed by TestMain under VERIF_C07_OPSTATS).
var opTotals = map[string]int{}

func TestMain(mn *testing.M) {
	code := mn.Run()
	if swOpStats {
		var ks []string
		for k := range opTotals {
			ks = append(ks, k)
		}
		sort.Strings(ks)
		for _, k := range ks {
			fmt.Printf("TOTAL %-32s %d\n", k, opTotals[k])
		}
	}
	os.Exit(code)
}

func (m *machine) Classify() (bool, []string) {
	var cl []string
	if swOpStats {
		for k, v := range m.cl {
			opTotals[k] += v
		}
		opTotals["cases"]++
	}
	for k, v := range m.cl {
		if v > 0 && (swOpStats || (!strings.HasPrefix(k, "ok/") && !strings.HasPrefix(k, "rej/"))) {
			cl = append(cl, k)
		}
	}
	repeated3, pauseResume := false, false
	for _, c := range m.ctxs {
		if c.repeated && c.nBatches >= 3 {
			cl = append(cl, "repeated>=3-batches")
			if c.pauseResumed {
				repeated3, pauseResume = true, true
			}
		}
		if c.pauseResumed {
			cl = append(cl, "pause-resume")
		}
	}
	_ = pauseResume
	sort.Strings(cl)
	cl = dedup(cl)
	var nt bool
	if m.c07() {
		nt = m.cl["answered"] > 0 && m.cl["expired"] > 0 && m.cl["requests-discounted"] > 0
	} else {
		nt = repeated3 || m.cl["partial-batch"] > 0
	}
	return nt, cl
}

func dedup(s []string) []string {
	var out []string
	for i, x := range s {
		if i == 0 || x != s[i-1] {
			out = append(out, x)
		}
	}
	return out
}

// ---------------------------------------------------------------------------------------------

const c07Rule = "rapid state machine on the K-driver (irismod blockers): define / bind (pricing grammar: base price, 0-2 time promotions around the block times, 0-3 ascending volume promotions, optionally priced in btc/eth/usdt through a harness rate source) / update / disable / enable / refund-deposit / set-withdraw-address / call (one-shot, repeated, module-owned with thresholds) / respond / pause / start / kill / update-context / withdraw / update-params (tax, slash, deposit rules) / blocks; <=5 providers, 2 owners, 4 consumers (2 poor); non-trivial = history with >=1 answered and >=1 expired request and >=1 request issued under a discount != 1; distinct by SHA-256 of the op list"

const c08Rule = "same machine as C07 with the scheduling/outcome oracles: non-trivial = a repeated context with >=3 batches that was paused and resumed by its consumer, or a batch closed at expiry where some but not all providers had answered; distinct by SHA-256 of the op list"

func newC07() pbt.Machine[Op] { return newMachine("C07") }
func newC08() pbt.Machine[Op] { return newMachine("C08") }

func init() {
	pbt.RegisterMachine("c07", newC07)
	pbt.RegisterMachine("c08", newC08)
}

func TestReplay(t *testing.T) { pbt.ReplayMain(t) }

func TestC07(t *testing.T) { pbt.RunMachine(t, "C07", "c07", c07Rule, newC07) }

func TestC08(t *testing.T) { pbt.RunMachine(t, "C08", "c08", c08Rule, newC08) }
