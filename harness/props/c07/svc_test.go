package c07

// Service plumbing shared by the C07/C08 machines and meant to be reusable by other machines (an oracle
// feed machine needs the same define / bind / call / respond / next-block / enumerate-requests steps).
// Nothing in this file knows about a reference model or an oracle: every function performs one step against
// the code under test and returns what the code answered.

import (
	"encoding/hex"
	"fmt"
	"sort"
	"strings"
	"sync"
	"time"

	storetypes "cosmossdk.io/store/types"
	"github.com/cometbft/cometbft/crypto"
	tmbytes "github.com/cometbft/cometbft/libs/bytes"
	sdk "github.com/cosmos/cosmos-sdk/types"

	service "mods.irisnet.org/modules/service"
	servicetypes "mods.irisnet.org/modules/service/types"

	"verifharness/chain"
)

// ---------------------------------------------------------------------------------------------
// fixed documents

const (
	// SvcSchemas is a minimal valid service schema document.
	SvcSchemas = `{"input":{"type":"object"},"output":{"type":"object"}}`
	// SvcInput is a minimal valid request input.
	SvcInput = `{"header":{}}`
	// SvcOutput is a minimal valid response output.
	SvcOutput = `{"header":{},"body":{}}`
	// VerifModule is the name under which the harness registers its callbacks with the service keeper.
	VerifModule = "verif"
)

// SvcResult renders a response result document with the given code (200 | 400 | 500).
func SvcResult(code int) string { return fmt.Sprintf(`{"code":%d,"message":""}`, code) }

// SvcOutputN renders a distinguishable valid output document.
func SvcOutputN(n int) string { return fmt.Sprintf(`{"header":{},"body":{"n":%d}}`, n) }

// Module accounts of the service module.
var (
	SvcDepositEscrow = chain.ModuleAddr(servicetypes.DepositAccName)
	SvcRequestEscrow = chain.ModuleAddr(servicetypes.RequestAccName)
	SvcFeeCollector  = chain.ModuleAddr(servicetypes.FeeCollectorName) // e2e.AppConfig wires the service tax to this account
)

// SvcProviderAddr returns the i-th deterministic provider address (providers need no funds and no key: the
// K-driver does not run ante handlers).
func SvcProviderAddr(i int) sdk.AccAddress {
	return sdk.AccAddress(crypto.AddressHash([]byte(fmt.Sprintf("verif-svc-provider-%d", i))))
}

// ---------------------------------------------------------------------------------------------
// callbacks of the harness "module"

// CbRecord is one invocation of a callback registered by the harness under VerifModule.
type CbRecord struct {
	Kind    string   // "resp" | "state"
	CtxID   string   // upper-case hex
	Outputs []string // resp
	ErrNil  bool     // resp: err == nil
	Cause   string   // state
}

var (
	cbOnce sync.Once
	cbMu   sync.Mutex
	cbLog  []CbRecord
)

// RegisterVerifModule registers the recording callbacks once per process. The keeper value held by the
// harness shares its callback maps with the running module.
func RegisterVerifModule(e *chain.Env) {
	cbOnce.Do(func() {
		if err := e.K.Service.RegisterResponseCallback(VerifModule,
			func(ctx sdk.Context, id tmbytes.HexBytes, outputs []string, err error) {
				cbMu.Lock()
				cbLog = append(cbLog, CbRecord{Kind: "resp", CtxID: strings.ToUpper(hex.EncodeToString(id)),
					Outputs: append([]string{}, outputs...), ErrNil: err == nil})
				cbMu.Unlock()
			}); err != nil {
			panic(err)
		}
		if err := e.K.Service.RegisterStateCallback(VerifModule,
			func(ctx sdk.Context, id tmbytes.HexBytes, cause string) {
				cbMu.Lock()
				cbLog = append(cbLog, CbRecord{Kind: "state", CtxID: strings.ToUpper(hex.EncodeToString(id)), Cause: cause})
				cbMu.Unlock()
			}); err != nil {
			panic(err)
		}
	})
}

// DrainCallbacks returns and clears the invocations recorded since the last drain.
func DrainCallbacks() []CbRecord {
	cbMu.Lock()
	defer cbMu.Unlock()
	out := cbLog
	cbLog = nil
	return out
}

// ---------------------------------------------------------------------------------------------
// exchange-rate source for prices that are not in the base denom
//
// The service keeper asks the module service registered under the name "oracle" for "<denom>-<base>" rates.
// The oracle keeper's own implementation answers from a running feed with a fresh value; instead of driving
// feeds, the multi-denom switch substitutes a table-driven rate source through the keeper's public
// SetModuleService (the ModuleService value is the service keeper's whole interface to that source).
// The table belongs to the running case (reset by the machine constructor).

var (
	rateOnce sync.Once
	rateMu   sync.Mutex
	rates    = map[string]string{} // denom -> decimal rate to the base denom
)

// SetRates replaces the rate table of the running case.
func SetRates(r map[string]string) {
	rateMu.Lock()
	rates = map[string]string{}
	for k, v := range r {
		rates[k] = v
	}
	rateMu.Unlock()
}

// InstallRateSource replaces the "oracle" module service by the table-driven one (once per process).
func InstallRateSource(e *chain.Env) {
	rateOnce.Do(func() {
		e.K.Service.SetModuleService(servicetypes.RegisterModuleName, &servicetypes.ModuleService{
			ServiceName: servicetypes.OraclePriceServiceName,
			Provider:    servicetypes.OraclePriceServiceProvider,
			ReuquestService: func(ctx sdk.Context, input string) (string, string) {
				// input is `{"header":{},"body":{"pair":"<denom>-<base>"}` (sic: the keeper omits the closing brace)
				i := strings.Index(input, `"pair":"`)
				if i < 0 {
					return `{"code":"400","message":"bad input"}`, ""
				}
				pair := input[i+len(`"pair":"`):]
				if j := strings.Index(pair, `"`); j >= 0 {
					pair = pair[:j]
				}
				denom := pair
				if j := strings.LastIndex(pair, "-"); j >= 0 {
					denom = pair[:j]
				}
				rateMu.Lock()
				r, ok := rates[denom]
				rateMu.Unlock()
				if !ok {
					return `{"code":"400","message":"feed not found"}`, ""
				}
				return `{"code":"200","message":""}`, fmt.Sprintf(`{"header":{},"body":{"rate":"%s"}}`, r)
			},
		})
	})
}

// ---------------------------------------------------------------------------------------------
// Svc: one case plus the service steps

// Svc wraps a case with the service-module steps.
type Svc struct {
	C   *chain.Case
	ktx uint64
	// Upper: the acting account writes its own address in upper case in the message being sent (bech32 allows it; it is
	// the same account)
	Upper bool
}

func (s *Svc) sp(a sdk.AccAddress) string {
	if s.Upper {
		return strings.ToUpper(a.String())
	}
	return a.String()
}

// NewSvc starts a case on e. The begin blockers of height 1 are run once so that the service module's
// per-block internal index exists as on a real chain (InitChain does not run them).
func NewSvc(e *chain.Env) *Svc {
	RegisterVerifModule(e)
	DrainCallbacks()
	c := e.NewCase()
	c.IrismodOnly = true
	c.BeginBlock()
	return &Svc{C: c}
}

func (s *Svc) k() *chain.Env { return s.C.E }

// KeeperTx runs fn against the keeper the way a module would inside a transaction of its own: unique tx
// bytes, a branch that is written only on success, recover().
func (s *Svc) KeeperTx(fn func(ctx sdk.Context) error) (r chain.Result) {
	s.ktx++
	tx := []byte(fmt.Sprintf("verif-svc-keeper-tx-%d", s.ktx))
	mctx, write := s.C.Ctx.CacheContext()
	mctx = mctx.WithTxBytes(tx).WithEventManager(sdk.NewEventManager()).WithGasMeter(storetypes.NewInfiniteGasMeter())
	defer func() {
		if p := recover(); p != nil {
			r.Panic = p
			r.Outcome = chain.Panicked
			if strings.Contains(fmt.Sprint(p), "overflow") {
				r.Outcome = chain.Overflow
			}
		}
	}()
	if err := fn(mctx); err != nil {
		return chain.Result{Outcome: chain.Rejected, Err: err}
	}
	write()
	return chain.Result{Outcome: chain.OK, Events: mctx.EventManager().ABCIEvents()}
}

// Define a service.
func (s *Svc) Define(author sdk.AccAddress, name string) chain.Result {
	return s.DefineWith(author, name, "d", "a", nil)
}

// DefineWith defines a service with the optional fields chosen by the caller.
func (s *Svc) DefineWith(author sdk.AccAddress, name, description, authorDescription string, tags []string) chain.Result {
	return s.C.Deliver(&servicetypes.MsgDefineService{Name: name, Description: description, Tags: tags, Author: author.String(),
		AuthorDescription: authorDescription, Schemas: SvcSchemas})
}

// Bind provider to a service.
func (s *Svc) Bind(owner, provider sdk.AccAddress, svc string, deposit sdk.Coins, pricing string, qos uint64) chain.Result {
	return s.BindWith(owner, provider, svc, deposit, pricing, qos, "{}")
}

// BindWith binds with an explicit options document.
func (s *Svc) BindWith(owner, provider sdk.AccAddress, svc string, deposit sdk.Coins, pricing string, qos uint64, options string) chain.Result {
	return s.C.Deliver(&servicetypes.MsgBindService{ServiceName: svc, Provider: provider.String(), Deposit: deposit,
		Pricing: pricing, QoS: qos, Options: options, Owner: owner.String()})
}

// UpdateBinding changes deposit (added), pricing ("" = keep), QoS (0 = keep) and options ("" = keep).
func (s *Svc) UpdateBinding(owner, provider sdk.AccAddress, svc string, deposit sdk.Coins, pricing string, qos uint64, options string) chain.Result {
	return s.C.Deliver(&servicetypes.MsgUpdateServiceBinding{ServiceName: svc, Provider: provider.String(), Deposit: deposit,
		Pricing: pricing, QoS: qos, Options: options, Owner: owner.String()})
}

// Disable a binding.
func (s *Svc) Disable(owner, provider sdk.AccAddress, svc string) chain.Result {
	return s.C.Deliver(&servicetypes.MsgDisableServiceBinding{ServiceName: svc, Provider: provider.String(), Owner: owner.String()})
}

// Enable a binding, optionally adding deposit.
func (s *Svc) Enable(owner, provider sdk.AccAddress, svc string, deposit sdk.Coins) chain.Result {
	return s.C.Deliver(&servicetypes.MsgEnableServiceBinding{ServiceName: svc, Provider: provider.String(), Deposit: deposit, Owner: owner.String()})
}

// RefundDeposit of a disabled binding.
func (s *Svc) RefundDeposit(owner, provider sdk.AccAddress, svc string) chain.Result {
	return s.C.Deliver(&servicetypes.MsgRefundServiceDeposit{ServiceName: svc, Provider: provider.String(), Owner: owner.String()})
}

// SetWithdrawAddress of an owner.
func (s *Svc) SetWithdrawAddress(owner, addr sdk.AccAddress) chain.Result {
	return s.C.Deliver(&servicetypes.MsgSetWithdrawAddress{Owner: s.sp(owner), WithdrawAddress: addr.String()})
}

// CallSpec describes a request context.
type CallSpec struct {
	Svc       string
	Providers []sdk.AccAddress
	Consumer  sdk.AccAddress
	FeeCap    sdk.Coins
	Timeout   int64
	Repeated  bool
	Frequency uint64
	Total     int64
}

func addrStrings(as []sdk.AccAddress) []string {
	out := make([]string, len(as))
	for i, a := range as {
		out[i] = a.String()
	}
	return out
}

// Call creates a request context through MsgCallService; the id (upper-case hex) is taken from the response.
func (s *Svc) Call(cs CallSpec) (string, chain.Result) {
	r := s.C.Deliver(&servicetypes.MsgCallService{ServiceName: cs.Svc, Providers: addrStrings(cs.Providers),
		Consumer: cs.Consumer.String(), Input: SvcInput, ServiceFeeCap: cs.FeeCap, Timeout: cs.Timeout,
		Repeated: cs.Repeated, RepeatedFrequency: cs.Frequency, RepeatedTotal: cs.Total})
	if r.Outcome != chain.OK {
		return "", r
	}
	resp, ok := r.Resp.(*servicetypes.MsgCallServiceResponse)
	if !ok {
		return "", chain.Result{Outcome: chain.Rejected, Err: fmt.Errorf("unexpected response %T", r.Resp)}
	}
	return strings.ToUpper(resp.RequestContextId), r
}

// ModuleCall creates a request context the way another module does: keeper.CreateRequestContext with a
// module name (callbacks), a response threshold and an initial state.
func (s *Svc) ModuleCall(module string, cs CallSpec, running bool, threshold uint32) (string, chain.Result) {
	var id tmbytes.HexBytes
	state := servicetypes.PAUSED
	if running {
		state = servicetypes.RUNNING
	}
	r := s.KeeperTx(func(ctx sdk.Context) error {
		var err error
		id, err = s.k().K.Service.CreateRequestContext(ctx, cs.Svc, cs.Providers, cs.Consumer, SvcInput, cs.FeeCap,
			cs.Timeout, cs.Repeated, cs.Frequency, cs.Total, state, threshold, module)
		return err
	})
	if r.Outcome != chain.OK {
		return "", r
	}
	return strings.ToUpper(hex.EncodeToString(id)), r
}

// Respond to a request.
func (s *Svc) Respond(provider sdk.AccAddress, requestID, result, output string) chain.Result {
	return s.C.Deliver(&servicetypes.MsgRespondService{RequestId: requestID, Provider: s.sp(provider), Result: result, Output: output})
}

// Control sends pause | start | kill for a context as a message signed by `signer`.
func (s *Svc) Control(kind, ctxID string, signer sdk.AccAddress) chain.Result {
	switch kind {
	case "pause":
		return s.C.Deliver(&servicetypes.MsgPauseRequestContext{RequestContextId: ctxID, Consumer: s.sp(signer)})
	case "start":
		return s.C.Deliver(&servicetypes.MsgStartRequestContext{RequestContextId: ctxID, Consumer: s.sp(signer)})
	case "kill":
		return s.C.Deliver(&servicetypes.MsgKillRequestContext{RequestContextId: ctxID, Consumer: s.sp(signer)})
	}
	panic("bad control kind " + kind)
}

// ModuleControl performs pause | start | kill through the keeper (the path of a module that owns the context).
func (s *Svc) ModuleControl(kind, ctxID string, consumer sdk.AccAddress) chain.Result {
	id, _ := hex.DecodeString(ctxID)
	return s.KeeperTx(func(ctx sdk.Context) error {
		switch kind {
		case "pause":
			return s.k().K.Service.PauseRequestContext(ctx, id, consumer)
		case "start":
			return s.k().K.Service.StartRequestContext(ctx, id, consumer)
		case "kill":
			return s.k().K.Service.KillRequestContext(ctx, id, consumer)
		}
		panic("bad control kind " + kind)
	})
}

// CtxUpdate are the updatable settings of a context (zero values = keep).
type CtxUpdate struct {
	Providers []sdk.AccAddress
	FeeCap    sdk.Coins
	Timeout   int64
	Frequency uint64
	Total     int64
	Threshold uint32 // module path only
}

// UpdateContext through MsgUpdateRequestContext.
func (s *Svc) UpdateContext(ctxID string, signer sdk.AccAddress, u CtxUpdate) chain.Result {
	return s.C.Deliver(&servicetypes.MsgUpdateRequestContext{RequestContextId: ctxID, Providers: addrStrings(u.Providers),
		ServiceFeeCap: u.FeeCap, Timeout: u.Timeout, RepeatedFrequency: u.Frequency, RepeatedTotal: u.Total, Consumer: s.sp(signer)})
}

// ModuleUpdateContext through the keeper.
func (s *Svc) ModuleUpdateContext(ctxID string, consumer sdk.AccAddress, u CtxUpdate) chain.Result {
	id, _ := hex.DecodeString(ctxID)
	return s.KeeperTx(func(ctx sdk.Context) error {
		return s.k().K.Service.UpdateRequestContext(ctx, id, u.Providers, u.Threshold, u.FeeCap, u.Timeout, u.Frequency, u.Total, consumer)
	})
}

// Withdraw the earned fees of one provider (message).
func (s *Svc) Withdraw(owner, provider sdk.AccAddress) chain.Result {
	return s.C.Deliver(&servicetypes.MsgWithdrawEarnedFees{Owner: s.sp(owner), Provider: s.sp(provider)})
}

// WithdrawAll withdraws the earned fees of all providers of an owner. The message handler cannot express it
// (it rejects an empty provider address), so this goes through the keeper.
func (s *Svc) WithdrawAll(owner sdk.AccAddress) chain.Result {
	return s.KeeperTx(func(ctx sdk.Context) error { return s.k().K.Service.WithdrawEarnedFees(ctx, owner, nil) })
}

// UpdateParams as the module authority.
func (s *Svc) UpdateParams(p servicetypes.Params) chain.Result {
	return s.C.Deliver(&servicetypes.MsgUpdateParams{Authority: s.k().Gov.String(), Params: p})
}

// Params currently in force.
func (s *Svc) Params() servicetypes.Params { return s.k().K.Service.GetParams(s.C.Ctx) }

// NextBlock ends the current block and begins the next one dt later.
func (s *Svc) NextBlock(dt time.Duration) (end, begin chain.HookResult) {
	return s.C.NextBlock(dt, nil)
}

// ---------------------------------------------------------------------------------------------
// restarts

// GenesisPrefixes are the store prefixes whose content the service genesis carries (parameters, definitions,
// bindings with their owner / pricing indexes, withdraw addresses, request contexts). Requests, responses, queues,
// request volumes and earned fees are not exported.
var GenesisPrefixes = [][]byte{
	servicetypes.ParamsKey, servicetypes.ServiceDefinitionKey, servicetypes.ServiceBindingKey, servicetypes.OwnerServiceBindingKey,
	servicetypes.OwnerKey, servicetypes.OwnerProviderKey, servicetypes.PricingKey, servicetypes.WithdrawAddrKey, servicetypes.RequestContextKey,
}

// AsIsAdmissible tells whether the module's genesis validation accepts an as-is export of the current state:
// every stored request context must be PAUSED with a COMPLETED batch (anything else is known finding F9e).
func (s *Svc) AsIsAdmissible() bool {
	ok := true
	s.k().K.Service.IterateRequestContexts(s.C.Ctx, func(_ tmbytes.HexBytes, rc servicetypes.RequestContext) bool {
		if rc.State != servicetypes.PAUSED || rc.BatchState != servicetypes.BATCHCOMPLETED {
			ok = false
		}
		return !ok
	})
	return ok
}

// ReimportAsIs exports the genesis as it is, wipes exactly the prefixes the genesis carries and imports it again.
func (s *Svc) ReimportAsIs() (stage string, err error) {
	_, stage, err = s.C.Reimport(servicetypes.ModuleName, GenesisPrefixes...)
	return
}

// PrepZeroHeight runs the module's zero-height preparation (refund of the fees of active requests, pay-out of
// earned fees, reset of every context to PAUSED / batch COMPLETED) as one atomic step.
func (s *Svc) PrepZeroHeight() chain.Result {
	return s.KeeperTx(func(ctx sdk.Context) error {
		service.PrepForZeroHeightGenesis(ctx, s.k().K.Service)
		return nil
	})
}

// ReimportZeroHeight is the second half of a real restart: export, wipe the whole store, import.
func (s *Svc) ReimportZeroHeight() (stage string, err error) {
	_, stage, err = s.C.Reimport(servicetypes.ModuleName)
	return
}

// ---------------------------------------------------------------------------------------------
// observation

// ReqInfo is one stored request as the code sees it.
type ReqInfo struct {
	ID       string // upper-case hex
	CtxID    string // upper-case hex
	Batch    uint64
	Provider string
	Fee      sdk.Coins
	ReqH     int64
	ExpH     int64
	Active   bool
	Answered bool   // a response record exists
	Output   string // of the response record
}

// Requests enumerates every stored request (ordered by id).
func (s *Svc) Requests() []ReqInfo {
	var out []ReqInfo
	k := s.k().K.Service
	k.IterateRequests(s.C.Ctx, func(id tmbytes.HexBytes, r servicetypes.CompactRequest) bool {
		ri := ReqInfo{ID: strings.ToUpper(hex.EncodeToString(id)), CtxID: strings.ToUpper(r.RequestContextId),
			Batch: r.RequestContextBatchCounter, Provider: r.Provider, Fee: r.ServiceFee, ReqH: r.RequestHeight, ExpH: r.ExpirationHeight}
		ri.Active = k.IsRequestActive(s.C.Ctx, id)
		if resp, ok := k.GetResponse(s.C.Ctx, id); ok {
			ri.Answered, ri.Output = true, resp.Output
		}
		out = append(out, ri)
		return false
	})
	sort.Slice(out, func(i, j int) bool { return out[i].ID < out[j].ID })
	return out
}

// ActiveMarkers enumerates the request ids carrying an active marker (whether or not a request record exists).
func (s *Svc) ActiveMarkers() []string {
	keys, _ := s.C.RawStore(servicetypes.StoreKey, servicetypes.ActiveRequestByIDKey)
	out := make([]string, 0, len(keys))
	for _, k := range keys {
		out = append(out, strings.ToUpper(hex.EncodeToString(k[1:])))
	}
	sort.Strings(out)
	return out
}

// Context reads a request context.
func (s *Svc) Context(ctxID string) (servicetypes.RequestContext, bool) {
	id, err := hex.DecodeString(ctxID)
	if err != nil {
		return servicetypes.RequestContext{}, false
	}
	return s.k().K.Service.GetRequestContext(s.C.Ctx, id)
}

// Bindings enumerates every binding.
func (s *Svc) Bindings() []servicetypes.ServiceBinding {
	var out []servicetypes.ServiceBinding
	s.k().K.Service.IterateServiceBindings(s.C.Ctx, func(b servicetypes.ServiceBinding) bool {
		out = append(out, b)
		return false
	})
	return out
}

// EarnedAll sums every provider-side earned-fee record, and also returns them per provider (bech32).
func (s *Svc) EarnedAll() (total sdk.Coins, per map[string]sdk.Coins) {
	per = map[string]sdk.Coins{}
	total = sdk.NewCoins()
	keys, vals := s.C.RawStore(servicetypes.StoreKey, servicetypes.EarnedFeesKey)
	for i, k := range keys {
		var coin sdk.Coin
		s.k().App.AppCodec().MustUnmarshal(vals[i], &coin)
		p := sdk.AccAddress(k[1 : 1+servicetypes.AddrLen]).String()
		if coin.Amount.IsPositive() {
			per[p] = per[p].Add(coin)
			total = total.Add(coin)
		}
	}
	return
}

// OwnerEarned reads the owner-side tally.
func (s *Svc) OwnerEarned(owner sdk.AccAddress) sdk.Coins {
	c, _ := s.k().K.Service.GetOwnerEarnedFees(s.C.Ctx, owner)
	return c
}

// ProviderEarned reads the provider-side tally.
func (s *Svc) ProviderEarned(provider sdk.AccAddress) sdk.Coins {
	c, _ := s.k().K.Service.GetEarnedFees(s.C.Ctx, provider)
	return c
}

// Volume of answered requests of (consumer, service, provider).
func (s *Svc) Volume(consumer sdk.AccAddress, svc string, provider sdk.AccAddress) uint64 {
	return s.k().K.Service.GetRequestVolume(s.C.Ctx, consumer, svc, provider)
}

// WithdrawAddr of an owner.
func (s *Svc) WithdrawAddr(owner sdk.AccAddress) sdk.AccAddress {
	return s.k().K.Service.GetWithdrawAddress(s.C.Ctx, owner)
}

// Balances of addr as coins.
func (s *Svc) Balances(addr sdk.AccAddress) sdk.Coins {
	return s.k().App.BankKeeper.GetAllBalances(s.C.Ctx, addr)
}
