package c07

// Generator of the C07/C08 machine: draws the next op as plain data from the live model state so that most
// messages succeed. All randomness is in here.

import (
	"math/big"
	"time"

	"pgregory.net/rapid"

	servicetypes "mods.irisnet.org/modules/service/types"

	"verifharness/gen"
)

var discountAlphabet = []string{"0.5", "0.9", "0.1", "0.25", "0.75", "0.99", "0.01", "0.333333", "0.999999", "0.000001", "0.6", "0.05"}

func drawDiscount(t *rapid.T, label string) string {
	return rapid.SampledFrom(discountAlphabet).Draw(t, label)
}

func (m *machine) drawPricing(t *rapid.T) *PricingSpec {
	p := &PricingSpec{Denom: baseDenom}
	switch k := rapid.IntRange(0, 19).Draw(t, "price/kind"); {
	case k == 0:
		p.Price = "0"
	case k < 12:
		p.Price = big.NewInt(int64(rapid.IntRange(1, 40).Draw(t, "price/tiny"))).String()
	default:
		p.Price = gen.Amount(t, "price", 40).String()
	}
	if swMultiDenom && rapid.IntRange(0, 3).Draw(t, "price/denom") == 0 {
		p.Denom = rapid.SampledFrom([]string{"btc", "eth"}).Draw(t, "price/denomname")
	}
	if swAvoidF2 {
		return p
	}
	now := m.s.C.Time().Unix()
	// 0-2 promotions by time placed around the current block time
	nT := rapid.SampledFrom([]int{0, 0, 1, 1, 2}).Draw(t, "price/ntime")
	start := now + int64(rapid.IntRange(-30, 20).Draw(t, "price/tstart"))
	for i := 0; i < nT; i++ {
		dur := int64(rapid.SampledFrom([]int{1, 5, 20, 60, 600, 86400}).Draw(t, "price/tdur"))
		p.ByTime = append(p.ByTime, PromoT{Start: start, End: start + dur, Discount: drawDiscount(t, "price/tdisc")})
		start += dur + int64(rapid.IntRange(0, 30).Draw(t, "price/tgap"))
	}
	// 0-3 ascending promotions by volume
	nV := rapid.SampledFrom([]int{0, 1, 1, 2, 3}).Draw(t, "price/nvol")
	vol := uint64(0)
	for i := 0; i < nV; i++ {
		vol += uint64(rapid.IntRange(1, 3).Draw(t, "price/vstep"))
		p.ByVol = append(p.ByVol, PromoV{Volume: vol, Discount: drawDiscount(t, "price/vdisc")})
	}
	return p
}

func (m *machine) drawParams(t *rapid.T) *ParamSpec {
	ps := m.params
	switch rapid.IntRange(0, 5).Draw(t, "params/what") {
	case 0, 1:
		ps.Tax = rapid.SampledFrom([]string{"0", "0.05", "0.5", "0.999999999999999999", "0.333333333333333333", "0.000000000000000001", "0.1", "0.9"}).Draw(t, "params/tax")
	case 2, 3:
		ps.Slash = rapid.SampledFrom([]string{"0", "0.001", "1", "0.5", "0.999999999999999999", "0.333333333333333333", "0.01", "0.1"}).Draw(t, "params/slash")
	case 4:
		ps.Multiple = int64(rapid.SampledFrom([]int{1, 2, 10, 1000}).Draw(t, "params/multiple"))
		ps.MinDeposit = rapid.SampledFrom([]string{"1", "10", "5000"}).Draw(t, "params/mindeposit")
	default:
		ps.Arbitration = int64(rapid.SampledFrom([]int{1, 5, 60, 432000}).Draw(t, "params/arbitration"))
		ps.Complaint = int64(rapid.SampledFrom([]int{1, 5, 60, 1296000}).Draw(t, "params/complaint"))
		ps.MaxTimeout = int64(rapid.SampledFrom([]int{100, 100, 6, 20}).Draw(t, "params/maxtimeout"))
	}
	return &ps
}

func (m *machine) definedSvcs() []int {
	var out []int
	for i := 0; i < nServices; i++ {
		if m.defs[svcName(i)] {
			out = append(out, i)
		}
	}
	return out
}

func svcIndex(name string) int {
	for i := 0; i < nServices; i++ {
		if svcName(i) == name {
			return i
		}
	}
	return 0
}

// drawBinding picks an existing binding (nil if none).
func (m *machine) drawBinding(t *rapid.T) *mBinding {
	if len(m.bindOrd) == 0 {
		return nil
	}
	return m.binds[rapid.SampledFrom(m.bindOrd).Draw(t, "binding")]
}

func (m *machine) ownerFor(t *rapid.T, b *mBinding) int {
	if rapid.IntRange(0, 11).Draw(t, "owner/wrong") == 0 {
		return 1 - b.owner
	}
	return b.owner
}

func (m *machine) activeReqs() []int {
	var out []int
	for i, r := range m.reqs {
		if r.status == stActive {
			out = append(out, i)
		}
	}
	return out
}

func (m *machine) Next(t *rapid.T) Op {
	c08 := m.c08()
	defs := m.definedSvcs()
	// bootstrap: a service and a couple of bindings first
	if len(defs) == 0 && rapid.IntRange(0, 9).Draw(t, "boot/define") < 9 {
		return Op{Kind: "define", Who: rapid.IntRange(0, 1).Draw(t, "who"), Svc: 0}
	}
	if len(defs) > 0 && len(m.bindOrd) < 2 && rapid.IntRange(0, 9).Draw(t, "boot/bind") < 7 {
		return m.genBind(t, defs)
	}
	if len(m.bindOrd) >= 2 && len(m.ctxs) == 0 && rapid.IntRange(0, 9).Draw(t, "boot/call") < 6 {
		return m.genCall(t, defs, false)
	}

	type w struct {
		kind string
		w    int
	}
	active := m.activeReqs()
	ws := []w{
		{"define", 1}, {"bind", 6}, {"updbind", 4}, {"disable", 2}, {"enable", 3}, {"refund", 2}, {"setwd", 2},
		{"call", 12}, {"mcall", 4}, {"respond", 6}, {"ctl", 6}, {"updctx", 3}, {"withdraw", 6}, {"params", 3}, {"block", 24},
	}
	if c08 {
		ws = []w{
			{"define", 1}, {"bind", 5}, {"updbind", 2}, {"disable", 2}, {"enable", 2}, {"refund", 1}, {"setwd", 1},
			{"call", 12}, {"mcall", 9}, {"respond", 6}, {"ctl", 12}, {"updctx", 4}, {"withdraw", 2}, {"params", 2}, {"block", 26},
		}
	}
	if swMultiDenom {
		ws = append(ws, w{"rate", 1})
	}
	for i := range ws {
		if ws[i].kind == "respond" && len(active) > 0 {
			ws[i].w += 22
		}
		if ws[i].kind == "bind" && len(m.bindOrd) >= 6 {
			ws[i].w = 1
		}
	}
	total := 0
	for _, x := range ws {
		total += x.w
	}
	pick := rapid.IntRange(0, total-1).Draw(t, "kind")
	kind := ""
	for _, x := range ws {
		if pick < x.w {
			kind = x.kind
			break
		}
		pick -= x.w
	}

	switch kind {
	case "define":
		return Op{Kind: "define", Who: rapid.IntRange(0, 1).Draw(t, "who"), Svc: rapid.IntRange(0, nServices-1).Draw(t, "svc")}
	case "bind":
		return m.genBind(t, defs)
	case "updbind":
		b := m.drawBinding(t)
		if b == nil {
			return m.genBind(t, defs)
		}
		op := Op{Kind: "updbind", Who: m.ownerFor(t, b), Svc: svcIndex(b.svc), Prov: b.prov}
		what := rapid.IntRange(0, 6).Draw(t, "upd/what")
		if what&1 != 0 || what == 0 {
			op.Pricing = m.drawPricing(t)
		}
		if what&2 != 0 {
			op.QoS = uint64(rapid.IntRange(1, 8).Draw(t, "upd/qos"))
		}
		if what&4 != 0 || op.Pricing != nil {
			// top the deposit up to what the (new) pricing needs, sometimes one short
			pr := b.pricing
			if op.Pricing != nil {
				pr = *op.Pricing
			}
			add := gen.Amount(t, "upd/deposit", 30)
			if md, ok := m.params.minDeposit(pr, baseDenom, m.rates); ok && md.Cmp(b.deposit) > 0 {
				add = new(big.Int).Sub(md, b.deposit)
				if rapid.IntRange(0, 9).Draw(t, "upd/short") == 0 && add.Cmp(bi(1)) > 0 {
					add.Sub(add, bi(1))
				}
			}
			op.Amt = add.String()
		}
		return op
	case "disable":
		b := m.drawBinding(t)
		if b == nil {
			return m.genBind(t, defs)
		}
		return Op{Kind: "disable", Who: m.ownerFor(t, b), Svc: svcIndex(b.svc), Prov: b.prov}
	case "enable":
		b := m.pickBinding(t, func(b *mBinding) bool { return !b.avail })
		if b == nil {
			return Op{Kind: "block", N: 1, Dt: gen.Dt(t, "dt")}
		}
		op := Op{Kind: "enable", Who: m.ownerFor(t, b), Svc: svcIndex(b.svc), Prov: b.prov}
		if md, ok := m.params.minDeposit(b.pricing, baseDenom, m.rates); ok && md.Cmp(b.deposit) > 0 {
			add := new(big.Int).Sub(md, b.deposit)
			if rapid.IntRange(0, 9).Draw(t, "enable/short") == 0 && add.Cmp(bi(1)) > 0 {
				add.Sub(add, bi(1))
			}
			op.Amt = add.String()
		} else if rapid.IntRange(0, 2).Draw(t, "enable/extra") == 0 {
			op.Amt = gen.Amount(t, "enable/deposit", 30).String()
		}
		return op
	case "refund":
		b := m.pickBinding(t, func(b *mBinding) bool { return !b.avail && b.deposit.Sign() > 0 })
		if b == nil {
			return Op{Kind: "block", N: 1, Dt: gen.Dt(t, "dt")}
		}
		return Op{Kind: "refund", Who: m.ownerFor(t, b), Svc: svcIndex(b.svc), Prov: b.prov}
	case "setwd":
		return Op{Kind: "setwd", Who: rapid.IntRange(0, 1).Draw(t, "who"), Addr: rapid.IntRange(0, 6).Draw(t, "addr")}
	case "call":
		return m.genCall(t, defs, false)
	case "mcall":
		return m.genCall(t, defs, true)
	case "respond":
		if len(m.reqs) == 0 {
			return Op{Kind: "block", N: 1, Dt: gen.Dt(t, "dt")}
		}
		op := Op{Kind: "respond"}
		if len(active) > 0 && rapid.IntRange(0, 9).Draw(t, "respond/target") < 8 {
			op.Req = rapid.SampledFrom(active).Draw(t, "respond/active")
		} else {
			op.Req = rapid.IntRange(0, len(m.reqs)-1).Draw(t, "respond/any")
		}
		if rapid.IntRange(0, 9).Draw(t, "respond/wrong") == 0 {
			op.Wrong, op.Prov = true, rapid.IntRange(0, nProviders-2).Draw(t, "respond/other")
		}
		switch rapid.IntRange(0, 11).Draw(t, "respond/form") {
		case 0:
			op.Code = 400
		case 1:
			op.Code = 500
		case 2:
			op.Code = 200 // malformed: no output with code 200
		case 3:
			op.Code, op.Output = 400, true // malformed: output with an error code
		default:
			op.Code, op.Output = 200, true
		}
		return op
	case "ctl", "updctx":
		if len(m.ctxs) == 0 {
			return m.genCall(t, defs, false)
		}
		// prefer contexts that still exist and repeat
		var cand []int
		for i, c := range m.ctxs {
			if c.exists && c.repeated {
				cand = append(cand, i)
			}
		}
		idx := rapid.IntRange(0, len(m.ctxs)-1).Draw(t, "ctx/any")
		if len(cand) > 0 && rapid.IntRange(0, 9).Draw(t, "ctx/pref") < 8 {
			idx = rapid.SampledFrom(cand).Draw(t, "ctx/repeated")
		}
		c := m.ctxs[idx]
		op := Op{Kind: kind, Ctx: idx}
		if rapid.IntRange(0, 7).Draw(t, "ctx/stranger") == 0 {
			op.Stranger, op.Who = true, rapid.IntRange(0, 5).Draw(t, "ctx/who")
		}
		if c.module {
			op.Keeper = rapid.IntRange(0, 7).Draw(t, "ctx/keeper") > 0
		}
		if kind == "ctl" {
			switch {
			case c.state == servicetypes.PAUSED && rapid.IntRange(0, 9).Draw(t, "ctl/resume") < 8:
				op.Ctl = "start"
			default:
				op.Ctl = rapid.SampledFrom([]string{"pause", "pause", "pause", "start", "kill"}).Draw(t, "ctl/kind")
			}
			if swAvoidOverTotal && op.Ctl == "start" && c.repeated && c.total > 0 && int64(c.counter) >= c.total {
				op.Ctl = "kill" // resuming a context that has used up its total issues an extra batch (finding C08/batch-over-total)
			}
			return op
		}
		switch rapid.IntRange(0, 4).Draw(t, "updctx/what") {
		case 0:
			op.Provs = m.drawProviders(t, c.svc)
		case 1:
			op.Amt = gen.Amount(t, "updctx/cap", 50).String()
		case 2:
			op.Timeout = int64(rapid.IntRange(1, 6).Draw(t, "updctx/timeout"))
			op.Freq = uint64(op.Timeout) + uint64(rapid.IntRange(0, 3).Draw(t, "updctx/freqextra"))
		case 3:
			op.Freq = uint64(rapid.IntRange(1, 9).Draw(t, "updctx/freq"))
		default:
			op.Total = int64(rapid.SampledFrom([]int{-1, 1, 2, 3, 5, 8}).Draw(t, "updctx/total"))
		}
		if c.module && rapid.IntRange(0, 2).Draw(t, "updctx/thr") == 0 {
			op.Threshold = uint32(rapid.IntRange(1, 3).Draw(t, "updctx/threshold"))
		}
		return op
	case "withdraw":
		op := Op{Kind: "withdraw", Who: rapid.IntRange(0, 1).Draw(t, "who")}
		// prefer a provider with a tally
		var have []int
		for p, e := range m.earned {
			if len(e) > 0 {
				have = append(have, p)
			}
		}
		sortInts(have)
		switch {
		case rapid.IntRange(0, 5).Draw(t, "withdraw/all") == 0:
			op.Prov = -1
		case len(have) > 0 && rapid.IntRange(0, 9).Draw(t, "withdraw/pref") < 8:
			op.Prov = rapid.SampledFrom(have).Draw(t, "withdraw/prov")
			if o, ok := m.owners[op.Prov]; ok && rapid.IntRange(0, 9).Draw(t, "withdraw/owner") < 9 {
				op.Who = o
			}
		default:
			op.Prov = rapid.IntRange(0, nProviders-1).Draw(t, "withdraw/anyprov")
		}
		return op
	case "params":
		return Op{Kind: "params", Params: m.drawParams(t)}
	case "rate":
		return Op{Kind: "rate", Denom: rapid.SampledFrom([]string{"btc", "eth"}).Draw(t, "rate/denom"),
			Rate: rapid.SampledFrom([]string{"2", "0.5", "1", "0.001", "1000", "1.5", "0.333333"}).Draw(t, "rate/value")}
	default:
		n := rapid.SampledFrom([]int{1, 1, 1, 2, 2, 3, 4, 6}).Draw(t, "block/n")
		return Op{Kind: "block", N: n, Dt: gen.Dt(t, "dt")}
	}
}

func sortInts(a []int) {
	for i := 1; i < len(a); i++ {
		for j := i; j > 0 && a[j] < a[j-1]; j-- {
			a[j], a[j-1] = a[j-1], a[j]
		}
	}
}

func (m *machine) pickBinding(t *rapid.T, pred func(*mBinding) bool) *mBinding {
	var keys []string
	for _, k := range m.bindOrd {
		if pred(m.binds[k]) {
			keys = append(keys, k)
		}
	}
	if len(keys) == 0 {
		return nil
	}
	return m.binds[rapid.SampledFrom(keys).Draw(t, "binding/filtered")]
}

func (m *machine) genBind(t *rapid.T, defs []int) Op {
	op := Op{Kind: "bind", Svc: rapid.IntRange(0, nServices-1).Draw(t, "svc")}
	if len(defs) > 0 && rapid.IntRange(0, 11).Draw(t, "bind/undefined") > 0 {
		op.Svc = rapid.SampledFrom(defs).Draw(t, "bind/svc")
	}
	// prefer a provider not yet bound to this service (index 4 is never bound so that calls can name an unbound one)
	var free []int
	for p := 0; p < nProviders-1; p++ {
		if m.binds[bindKey(svcName(op.Svc), p)] == nil {
			free = append(free, p)
		}
	}
	op.Prov = rapid.IntRange(0, nProviders-2).Draw(t, "bind/prov")
	if len(free) > 0 && rapid.IntRange(0, 11).Draw(t, "bind/rebind") > 0 {
		op.Prov = rapid.SampledFrom(free).Draw(t, "bind/free")
	}
	op.Who = rapid.IntRange(0, 1).Draw(t, "bind/owner")
	if o, ok := m.owners[op.Prov]; ok && rapid.IntRange(0, 11).Draw(t, "bind/otherowner") > 0 {
		op.Who = o
	}
	op.Pricing = m.drawPricing(t)
	op.QoS = uint64(rapid.SampledFrom([]int{1, 1, 1, 2, 3, 5, 8}).Draw(t, "bind/qos"))
	dep := bi(1)
	if md, ok := m.params.minDeposit(*op.Pricing, baseDenom, m.rates); ok && md.Sign() > 0 {
		dep = md
	}
	// a multiple of the minimum so that a slash does not always push the binding below it
	dep = new(big.Int).Mul(dep, bi(int64(rapid.SampledFrom([]int{1, 1, 2, 3}).Draw(t, "bind/depmult"))))
	switch rapid.IntRange(0, 9).Draw(t, "bind/deposit") {
	case 0:
		if dep.Cmp(bi(1)) > 0 {
			dep = new(big.Int).Sub(dep, bi(1)) // one short
		}
	case 1, 2, 3, 4, 5:
		dep = new(big.Int).Add(dep, gen.Amount(t, "bind/extra", 30))
	}
	op.Amt = dep.String()
	return op
}

func (m *machine) drawProviders(t *rapid.T, svc string) []int {
	// bound providers of the service first, plus the odd unbound / foreign one
	var bound []int
	for p := 0; p < nProviders; p++ {
		if m.binds[bindKey(svc, p)] != nil {
			bound = append(bound, p)
		}
	}
	n := rapid.SampledFrom([]int{1, 1, 2, 2, 3, 4}).Draw(t, "provs/n")
	seen := map[int]bool{}
	var out []int
	for i := 0; i < n; i++ {
		p := rapid.IntRange(0, nProviders-1).Draw(t, "provs/any")
		if len(bound) > 0 && rapid.IntRange(0, 9).Draw(t, "provs/bound") < 8 {
			p = rapid.SampledFrom(bound).Draw(t, "provs/pick")
		}
		if seen[p] && rapid.IntRange(0, 19).Draw(t, "provs/dup") > 0 {
			continue
		}
		seen[p] = true
		out = append(out, p)
	}
	if len(out) == 0 {
		out = []int{rapid.IntRange(0, nProviders-1).Draw(t, "provs/one")}
	}
	return out
}

func (m *machine) genCall(t *rapid.T, defs []int, module bool) Op {
	op := Op{Kind: "call", Module: module, Svc: rapid.IntRange(0, nServices-1).Draw(t, "svc")}
	if len(defs) > 0 && rapid.IntRange(0, 15).Draw(t, "call/undefined") > 0 {
		op.Svc = rapid.SampledFrom(defs).Draw(t, "call/svc")
	}
	op.Who = rapid.SampledFrom([]int{2, 2, 2, 3, 3, 3, 4, 5}).Draw(t, "call/consumer")
	op.Provs = m.drawProviders(t, svcName(op.Svc))
	op.Timeout = int64(rapid.SampledFrom([]int{1, 1, 2, 2, 3, 3, 4, 6}).Draw(t, "call/timeout"))
	if rapid.IntRange(0, 29).Draw(t, "call/longtimeout") == 0 {
		op.Timeout = int64(rapid.SampledFrom([]int{100, 101, 50}).Draw(t, "call/timeout2"))
	}
	// fee cap relative to what the chosen providers charge right now
	now := m.s.C.Time()
	var fees []*big.Int
	for _, p := range op.Provs {
		if b := m.binds[bindKey(svcName(op.Svc), p)]; b != nil {
			f := b.pricing.fee(now, m.vol[m.volKey(op.Who, svcName(op.Svc), p)])
			if b.pricing.Denom != baseDenom {
				if r, ok := m.rates[b.pricing.Denom]; ok {
					f = floorMul(mustBig(b.pricing.Price), new(big.Rat).Mul(b.pricing.discount(now, m.vol[m.volKey(op.Who, svcName(op.Svc), p)]), mustRat(r)))
				}
			}
			fees = append(fees, f, mustBig(b.pricing.Price))
		}
	}
	cap := gen.Pow2(60)
	if len(fees) > 0 {
		switch rapid.IntRange(0, 9).Draw(t, "call/capkind") {
		case 0, 1:
			cap = rapid.SampledFrom(fees).Draw(t, "call/capfee")
		case 2:
			cap = new(big.Int).Sub(rapid.SampledFrom(fees).Draw(t, "call/capfee"), bi(1))
		case 3:
			cap = new(big.Int).Add(rapid.SampledFrom(fees).Draw(t, "call/capfee"), bi(1))
		}
	}
	if cap.Sign() <= 0 {
		cap = bi(1)
	}
	op.Amt = cap.String()
	if rapid.IntRange(0, 9).Draw(t, "call/repeated") < 6 {
		op.Repeated = true
		switch rapid.IntRange(0, 5).Draw(t, "call/freqkind") {
		case 0:
			op.Freq = 0
		case 1:
			if op.Timeout > 1 && rapid.IntRange(0, 3).Draw(t, "call/freqshort") == 0 {
				op.Freq = uint64(op.Timeout - 1) // invalid
			} else {
				op.Freq = uint64(op.Timeout)
			}
		default:
			op.Freq = uint64(op.Timeout) + uint64(rapid.IntRange(0, 3).Draw(t, "call/freqextra"))
		}
		op.Total = int64(rapid.SampledFrom([]int{-1, -1, 1, 2, 3, 3, 5, 0}).Draw(t, "call/total"))
	}
	if module {
		op.Threshold = uint32(rapid.IntRange(1, len(op.Provs)).Draw(t, "call/threshold"))
		if rapid.IntRange(0, 19).Draw(t, "call/badthreshold") == 0 {
			op.Threshold = uint32(len(op.Provs) + 1)
		}
		op.Paused = rapid.IntRange(0, 4).Draw(t, "call/paused") == 0
	}
	return op
}

var _ = time.Second
