package c07

// Generator of the C07/C08 machine: draws the next op as plain data from the live model state so that most
// messages succeed. All randomness is in here.

import (
	"math/big"
	"math/bits"
	"time"

	"pgregory.net/rapid"

	servicetypes "mods.irisnet.org/modules/service/types"

	"verifharness/gen"
)

var discountAlphabet = []string{"0.5", "0.9", "0.1", "0.25", "0.75", "0.99", "0.01", "0.333333", "0.999999", "0.000001", "0.6", "0.05"}

func drawDiscount(t *rapid.T, label string) string {
	return pickFrom(t, label, discountAlphabet)
}

func (m *machine) drawPricing(t *rapid.T) *PricingSpec {
	p := &PricingSpec{Denom: baseDenom}
	switch k := uni(t, "price/kind", 20); {
	case k == 0:
		p.Price = "0"
	case k < 12:
		p.Price = big.NewInt(int64(rapid.IntRange(1, 40).Draw(t, "price/tiny"))).String()
	default:
		p.Price = gen.Amount(t, "price", 40).String()
	}
	if swMultiDenom && uni(t, "price/denom", 4) == 0 {
		p.Denom = pickFrom(t, "price/denomname", []string{"btc", "eth", "usdt"})
	}
	if swAvoidF2 {
		return p
	}
	now := m.s.C.Time().Unix()
	// 0-2 promotions by time placed around the current block time
	nT := pickFrom(t, "price/ntime", []int{0, 0, 1, 1, 2})
	start := now + int64((uni(t, "price/tstart", 51) - 30))
	for i := 0; i < nT; i++ {
		dur := int64(pickFrom(t, "price/tdur", []int{1, 5, 20, 60, 600, 86400}))
		p.ByTime = append(p.ByTime, PromoT{Start: start, End: start + dur, Discount: drawDiscount(t, "price/tdisc")})
		start += dur + int64(uni(t, "price/tgap", 31))
	}
	// 0-3 ascending promotions by volume
	nV := pickFrom(t, "price/nvol", []int{0, 1, 1, 2, 3})
	vol := uint64(0)
	for i := 0; i < nV; i++ {
		vol += uint64(rapid.IntRange(1, 3).Draw(t, "price/vstep"))
		p.ByVol = append(p.ByVol, PromoV{Volume: vol, Discount: drawDiscount(t, "price/vdisc")})
	}
	return p
}

func (m *machine) drawParams(t *rapid.T) *ParamSpec {
	ps := m.params
	switch uni(t, "params/what", 8) {
	case 0, 1:
		ps.Tax = pickFrom(t, "params/tax", []string{"0", "0.05", "0.5", "0.999999999999999999", "0.333333333333333333", "0.000000000000000001", "0.1", "0.9"})
	case 2, 3:
		ps.Slash = pickFrom(t, "params/slash", []string{"0", "0.001", "1", "0.5", "0.999999999999999999", "0.333333333333333333", "0.01", "0.1"})
	case 4:
		ps.Multiple = int64(pickFrom(t, "params/multiple", []int{1, 2, 10, 1000}))
		ps.MinDeposit = pickFrom(t, "params/mindeposit", []string{"1", "10", "5000"})
	default:
		ps.Arbitration = int64(pickFrom(t, "params/arbitration", []int{1, 1, 5, 60, 432000}))
		ps.Complaint = int64(pickFrom(t, "params/complaint", []int{1, 1, 5, 60, 1296000}))
		ps.MaxTimeout = int64(pickFrom(t, "params/maxtimeout", []int{100, 100, 6, 20}))
	}
	return &ps
}

func (m *machine) definedSvcs() []int {
	var out []int
	for i := 0; i < nServices; i++ {
		if m.defs[svcName(i)] {
			out = append(out, i)
		}
	}
	return out
}

func svcIndex(name string) int {
	for i := 0; i < nServices; i++ {
		if svcName(i) == name {
			return i
		}
	}
	return 0
}

// drawBinding picks an existing binding (nil if none).
func (m *machine) drawBinding(t *rapid.T) *mBinding {
	if len(m.bindOrd) == 0 {
		return nil
	}
	return m.binds[pickFrom(t, "binding", m.bindOrd)]
}

func (m *machine) ownerFor(t *rapid.T, b *mBinding) int {
	if uni(t, "owner/wrong", 12) == 0 {
		return 1 - b.owner
	}
	return b.owner
}

func (m *machine) activeReqs() []int {
	var out []int
	for i, r := range m.reqs {
		if r.status == stActive {
			out = append(out, i)
		}
	}
	return out
}

func (m *machine) Next(t *rapid.T) Op {
	op := m.next(t)
	op.Upper = rapid.IntRange(0, 1<<20).Draw(t, "upper")%8 == 7
	return op
}

func (m *machine) next(t *rapid.T) Op {
	c08 := m.c08()
	defs := m.definedSvcs()
	// bootstrap: a service and a couple of bindings first
	if len(defs) == 0 && uni(t, "boot/define", 10) < 9 {
		return Op{Kind: "define", Who: uni(t, "who", 2), Svc: 0, Opts: uni(t, "define/opts", 2) == 0}
	}
	if len(defs) > 0 && len(m.bindOrd) < 2 && uni(t, "boot/bind", 10) < 7 {
		return m.genBind(t, defs)
	}
	if len(m.bindOrd) >= 2 && len(m.ctxs) == 0 && uni(t, "boot/call", 10) < 6 {
		return m.genCall(t, defs, false)
	}

	type w struct {
		kind string
		w    int
	}
	active := m.activeReqs()
	ws := []w{
		{"define", 1}, {"bind", 6}, {"updbind", 4}, {"disable", 2}, {"enable", 3}, {"refund", 2}, {"setwd", 2},
		{"call", 12}, {"mcall", 4}, {"respond", 6}, {"ctl", 6}, {"updctx", 3}, {"withdraw", 6}, {"params", 3}, {"block", 24}, {"restart", 3},
	}
	if c08 {
		ws = []w{
			{"define", 1}, {"bind", 5}, {"updbind", 2}, {"disable", 2}, {"enable", 2}, {"refund", 1}, {"setwd", 1},
			{"call", 12}, {"mcall", 9}, {"respond", 6}, {"ctl", 12}, {"updctx", 4}, {"withdraw", 2}, {"params", 2}, {"block", 26}, {"restart", 3},
		}
	}
	if swMultiDenom {
		ws = append(ws, w{"rate", 1})
		if swRateOutage {
			ws = append(ws, w{"rate", 3})
		}
	}
	nUnavail := 0
	for _, k := range m.bindOrd {
		if !m.binds[k].avail {
			nUnavail++
		}
	}
	for i := range ws {
		if ws[i].kind == "enable" && nUnavail > 0 {
			ws[i].w += 4 * nUnavail
		}
		if ws[i].kind == "refund" && nUnavail > 0 && m.params.Arbitration+m.params.Complaint < 3600 {
			ws[i].w += 4
		}
		if ws[i].kind == "respond" && len(active) > 0 {
			ws[i].w += 22
		}
		if ws[i].kind == "bind" && len(m.bindOrd) >= 6 {
			ws[i].w = 1
		}
	}
	total := 0
	for _, x := range ws {
		total += x.w
	}
	pick := uni(t, "kind", (total-1)+1)
	kind := ""
	for _, x := range ws {
		if pick < x.w {
			kind = x.kind
			break
		}
		pick -= x.w
	}

	switch kind {
	case "define":
		return Op{Kind: "define", Who: uni(t, "who", 2), Svc: uni(t, "svc", (nServices-1)+1), Opts: uni(t, "define/opts", 2) == 0}
	case "bind":
		return m.genBind(t, defs)
	case "updbind":
		b := m.drawBinding(t)
		if b == nil {
			return m.genBind(t, defs)
		}
		op := Op{Kind: "updbind", Who: m.ownerFor(t, b), Svc: svcIndex(b.svc), Prov: b.prov}
		what := uni(t, "upd/what", 10)
		switch what {
		case 7: // nothing set at all: a valid no-op
			return op
		case 8: // only the options
			op.Opts = true
			return op
		case 9:
			op.Opts, what = true, 2
		}
		if what&1 != 0 || what == 0 {
			op.Pricing = m.drawPricing(t)
		}
		if what&2 != 0 {
			op.QoS = uint64(pickFrom(t, "upd/qos", []int{1, 1, 1, 2, 3, 4, 8}))
		}
		if what&4 != 0 || op.Pricing != nil {
			// top the deposit up to what the (new) pricing needs, sometimes one short
			pr := b.pricing
			if op.Pricing != nil {
				pr = *op.Pricing
			}
			add := gen.Amount(t, "upd/deposit", 30)
			if md, ok := m.params.minDeposit(pr, baseDenom, m.rates); ok && md.Cmp(b.deposit) > 0 {
				add = new(big.Int).Sub(md, b.deposit)
				if uni(t, "upd/short", 10) == 0 && add.Cmp(bi(1)) > 0 {
					add.Sub(add, bi(1))
				}
			}
			op.Amt = add.String()
		}
		return op
	case "disable":
		b := m.drawBinding(t)
		if b == nil {
			return m.genBind(t, defs)
		}
		return Op{Kind: "disable", Who: m.ownerFor(t, b), Svc: svcIndex(b.svc), Prov: b.prov}
	case "enable":
		b := m.pickBinding(t, func(b *mBinding) bool { return !b.avail })
		if b == nil {
			return Op{Kind: "block", N: 1, Dt: gen.Dt(t, "dt")}
		}
		op := Op{Kind: "enable", Who: m.ownerFor(t, b), Svc: svcIndex(b.svc), Prov: b.prov}
		if md, ok := m.params.minDeposit(b.pricing, baseDenom, m.rates); ok && md.Cmp(b.deposit) > 0 {
			add := new(big.Int).Sub(md, b.deposit)
			if uni(t, "enable/short", 10) == 0 && add.Cmp(bi(1)) > 0 {
				add.Sub(add, bi(1))
			}
			op.Amt = add.String()
		} else if uni(t, "enable/extra", 3) == 0 {
			op.Amt = gen.Amount(t, "enable/deposit", 30).String()
		}
		return op
	case "refund":
		b := m.pickBinding(t, func(b *mBinding) bool { return !b.avail && b.deposit.Sign() > 0 })
		if b == nil {
			return Op{Kind: "block", N: 1, Dt: gen.Dt(t, "dt")}
		}
		return Op{Kind: "refund", Who: m.ownerFor(t, b), Svc: svcIndex(b.svc), Prov: b.prov}
	case "setwd":
		return Op{Kind: "setwd", Who: uni(t, "who", 2), Addr: uni(t, "addr", 7)}
	case "call":
		return m.genCall(t, defs, false)
	case "mcall":
		return m.genCall(t, defs, true)
	case "respond":
		if len(m.reqs) == 0 {
			return Op{Kind: "block", N: 1, Dt: gen.Dt(t, "dt")}
		}
		op := Op{Kind: "respond"}
		if len(active) > 0 && uni(t, "respond/target", 10) < 8 {
			op.Req = pickFrom(t, "respond/active", active)
		} else {
			op.Req = uni(t, "respond/any", len(m.reqs))
		}
		if uni(t, "respond/wrong", 10) == 0 {
			op.Wrong, op.Prov = true, uni(t, "respond/other", (nProviders-2)+1)
		}
		switch uni(t, "respond/form", 12) {
		case 0:
			op.Code = 400
		case 1:
			op.Code = 500
		case 2:
			op.Code = 200 // malformed: no output with code 200
		case 3:
			op.Code, op.Output = 400, true // malformed: output with an error code
		default:
			op.Code, op.Output = 200, true
		}
		return op
	case "ctl", "updctx":
		if len(m.ctxs) == 0 {
			return m.genCall(t, defs, false)
		}
		// prefer contexts that still exist and repeat
		var cand []int
		for i, c := range m.ctxs {
			if c.exists && c.repeated {
				cand = append(cand, i)
			}
		}
		idx := uni(t, "ctx/any", len(m.ctxs))
		if len(cand) > 0 && uni(t, "ctx/pref", 10) < 8 {
			idx = pickFrom(t, "ctx/repeated", cand)
		}
		// updates also go to one-shot contexts while they live, with repetition settings that must not turn them
		// into repeated ones
		oneshotShape := false
		if kind == "updctx" {
			var shots []int
			for i, c := range m.ctxs {
				if c.exists && !c.repeated {
					shots = append(shots, i)
				}
			}
			if len(shots) > 0 && uni(t, "ctx/oneshot", 10) < 4 {
				idx, oneshotShape = pickFrom(t, "ctx/oneshotpick", shots), true
			}
		}
		c := m.ctxs[idx]
		op := Op{Kind: kind, Ctx: idx}
		if oneshotShape {
			if c.module {
				op.Keeper = uni(t, "ctx/keeper", 8) > 0
			}
			if uni(t, "ctx/stranger", 12) == 0 {
				op.Stranger, op.Who = true, uni(t, "ctx/who", 6)
			}
			op.Freq = uint64(pickFrom(t, "updctx/osfreq", []int64{c.timeout, c.timeout, c.timeout + 3, c.timeout - 1, 1}))
			op.Total = int64(pickFrom(t, "updctx/ostotal", []int{-1, -1, 2, 5, 1, 0}))
			if uni(t, "updctx/ostimeout", 4) == 0 {
				op.Timeout = int64(1 + uni(t, "updctx/ostimeoutv", int(op.Freq)+1))
			}
			return op
		}
		if uni(t, "ctx/stranger", 8) == 0 {
			op.Stranger, op.Who = true, uni(t, "ctx/who", 6)
		}
		if c.module {
			op.Keeper = uni(t, "ctx/keeper", 8) > 0
		}
		if kind == "ctl" {
			switch {
			case c.state == servicetypes.PAUSED && uni(t, "ctl/resume", 10) < 8:
				op.Ctl = "start"
			default:
				op.Ctl = pickFrom(t, "ctl/kind", []string{"pause", "pause", "pause", "start", "kill"})
			}
			if swAvoidOverTotal && op.Ctl == "start" && c.repeated && c.total > 0 && int64(c.counter) >= c.total {
				op.Ctl = "kill" // resuming a context that has used up its total issues an extra batch (finding C08/batch-over-total)
			}
			return op
		}
		switch uni(t, "updctx/what", 6) {
		case 5:
			// only the timeout (0 elsewhere = unchanged), possibly above the stored frequency
			op.Timeout = int64(pickFrom(t, "updctx/timeoutonly", []int{1, 2, 4, 7, 12, 40, 100}))
		case 0:
			op.Provs = m.drawProviders(t, c.svc)
		case 1:
			op.Amt = gen.Amount(t, "updctx/cap", 50).String()
		case 2:
			op.Timeout = int64(rapid.IntRange(1, 6).Draw(t, "updctx/timeout"))
			op.Freq = uint64(op.Timeout) + uint64(uni(t, "updctx/freqextra", 4))
		case 3:
			op.Freq = uint64(rapid.IntRange(1, 9).Draw(t, "updctx/freq"))
		default:
			op.Total = int64(pickFrom(t, "updctx/total", []int{-1, 1, 2, 3, 5, 8}))
		}
		if c.module && uni(t, "updctx/thr", 3) == 0 {
			op.Threshold = uint32(rapid.IntRange(1, 3).Draw(t, "updctx/threshold"))
		}
		return op
	case "withdraw":
		op := Op{Kind: "withdraw", Who: uni(t, "who", 2)}
		// prefer a provider with a tally
		var have []int
		for p, e := range m.earned {
			if len(e) > 0 {
				have = append(have, p)
			}
		}
		sortInts(have)
		switch {
		case uni(t, "withdraw/all", 6) == 0 && !c08: // keeper-only path (no message reaches it); with F3 it pays a stale tally out of other requests' escrow
			op.Prov = -1
		case len(have) > 0 && uni(t, "withdraw/pref", 10) < 8:
			op.Prov = pickFrom(t, "withdraw/prov", have)
			if o, ok := m.owners[op.Prov]; ok && uni(t, "withdraw/owner", 10) < 9 {
				op.Who = o
			}
		default:
			op.Prov = uni(t, "withdraw/anyprov", (nProviders-1)+1)
		}
		return op
	case "restart":
		// the as-is round trip is only admissible while every context is paused with a completed batch: propose it
		// mostly when the model thinks so (Apply decides from the stored state and counts the skipped ones)
		admissible := true
		for _, c := range m.ctxs {
			if c.exists && (c.state != servicetypes.PAUSED || (c.batch != nil && !c.batch.completed)) {
				admissible = false
			}
		}
		if len(m.bindOrd) == 0 && uni(t, "restart/early", 4) > 0 {
			return m.genBind(t, defs) // a restart with nothing bound exercises little
		}
		asis := uni(t, "restart/asis", 10) < 1
		if admissible {
			asis = uni(t, "restart/asis", 10) < 6
		}
		return Op{Kind: "restart", AsIs: asis}
	case "params":
		return Op{Kind: "params", Params: m.drawParams(t)}
	case "rate":
		if swRateOutage && uni(t, "rate/outage", 3) == 0 {
			return Op{Kind: "rate", Denom: pickFrom(t, "rate/denom", []string{"btc", "eth", "usdt"})}
		}
		return Op{Kind: "rate", Denom: pickFrom(t, "rate/denom", []string{"btc", "eth", "usdt"}),
			Rate: pickFrom(t, "rate/value", []string{"2", "0.5", "1", "0.001", "1000", "1.5", "0.333333"})}
	default:
		n := pickFrom(t, "block/n", []int{1, 1, 1, 2, 2, 3, 4, 6})
		return Op{Kind: "block", N: n, Dt: gen.Dt(t, "dt")}
	}
}

// uni draws a uniformly distributed integer in [0, n). rapid's own integer generators favour small values
// (geometric bit length), which would distort the op mix; single bits are unbiased.
func uni(t *rapid.T, label string, n int) int {
	if n <= 1 {
		return 0
	}
	nb := bits.Len(uint(n-1)) + 4
	v := 0
	for i := 0; i < nb; i++ {
		if rapid.Bool().Draw(t, label) {
			v |= 1 << i
		}
	}
	return v % n
}

func pickFrom[T any](t *rapid.T, label string, xs []T) T { return xs[uni(t, label, len(xs))] }

func sortInts(a []int) {
	for i := 1; i < len(a); i++ {
		for j := i; j > 0 && a[j] < a[j-1]; j-- {
			a[j], a[j-1] = a[j-1], a[j]
		}
	}
}

func (m *machine) pickBinding(t *rapid.T, pred func(*mBinding) bool) *mBinding {
	var keys []string
	for _, k := range m.bindOrd {
		if pred(m.binds[k]) {
			keys = append(keys, k)
		}
	}
	if len(keys) == 0 {
		return nil
	}
	return m.binds[pickFrom(t, "binding/filtered", keys)]
}

func (m *machine) genBind(t *rapid.T, defs []int) Op {
	op := Op{Kind: "bind", Svc: uni(t, "svc", (nServices-1)+1)}
	if len(defs) > 0 && uni(t, "bind/undefined", 12) > 0 {
		op.Svc = pickFrom(t, "bind/svc", defs)
	}
	// prefer a provider not yet bound to this service (index 4 is never bound so that calls can name an unbound one)
	var free []int
	for p := 0; p < nProviders-1; p++ {
		if m.binds[bindKey(svcName(op.Svc), p)] == nil {
			free = append(free, p)
		}
	}
	op.Prov = uni(t, "bind/prov", (nProviders-2)+1)
	if len(free) > 0 && uni(t, "bind/rebind", 12) > 0 {
		op.Prov = pickFrom(t, "bind/free", free)
	}
	op.Who = uni(t, "bind/owner", 2)
	if o, ok := m.owners[op.Prov]; ok && uni(t, "bind/otherowner", 12) > 0 {
		op.Who = o
	}
	op.Pricing = m.drawPricing(t)
	op.Opts = uni(t, "bind/opts", 3) == 0
	op.QoS = uint64(pickFrom(t, "bind/qos", []int{1, 1, 1, 1, 1, 2, 2, 3, 5}))
	dep := bi(1)
	if md, ok := m.params.minDeposit(*op.Pricing, baseDenom, m.rates); ok && md.Sign() > 0 {
		dep = md
	}
	// a multiple of the minimum so that a slash does not always push the binding below it
	dep = new(big.Int).Mul(dep, bi(int64(pickFrom(t, "bind/depmult", []int{1, 2, 2, 3, 4}))))
	switch uni(t, "bind/deposit", 10) {
	case 0:
		if dep.Cmp(bi(1)) > 0 {
			dep = new(big.Int).Sub(dep, bi(1)) // one short
		}
	case 1, 2, 3, 4, 5:
		dep = new(big.Int).Add(dep, gen.Amount(t, "bind/extra", 30))
	}
	op.Amt = dep.String()
	return op
}

func (m *machine) drawProviders(t *rapid.T, svc string) []int {
	// bound providers of the service first, plus the odd unbound / foreign one
	var bound []int
	for p := 0; p < nProviders; p++ {
		if m.binds[bindKey(svc, p)] != nil {
			bound = append(bound, p)
		}
	}
	n := pickFrom(t, "provs/n", []int{1, 1, 2, 2, 3, 4})
	seen := map[int]bool{}
	var out []int
	for i := 0; i < n; i++ {
		p := uni(t, "provs/any", (nProviders-1)+1)
		if len(bound) > 0 && uni(t, "provs/bound", 10) < 8 {
			p = pickFrom(t, "provs/pick", bound)
		}
		if seen[p] && uni(t, "provs/dup", 20) > 0 {
			continue
		}
		seen[p] = true
		out = append(out, p)
	}
	if len(out) == 0 {
		out = []int{uni(t, "provs/one", (nProviders-1)+1)}
	}
	return out
}

func (m *machine) genCall(t *rapid.T, defs []int, module bool) Op {
	op := Op{Kind: "call", Module: module, Svc: uni(t, "svc", (nServices-1)+1)}
	if len(defs) > 0 && uni(t, "call/undefined", 16) > 0 {
		op.Svc = pickFrom(t, "call/svc", defs)
	}
	op.Who = pickFrom(t, "call/consumer", []int{2, 2, 2, 3, 3, 3, 4, 5})
	op.Provs = m.drawProviders(t, svcName(op.Svc))
	op.Timeout = int64(pickFrom(t, "call/timeout", []int{1, 1, 2, 2, 3, 3, 4, 6}))
	if uni(t, "call/longtimeout", 30) == 0 {
		op.Timeout = int64(pickFrom(t, "call/timeout2", []int{100, 101, 50}))
	}
	// fee cap relative to what the chosen providers charge right now
	now := m.s.C.Time()
	var fees []*big.Int
	for _, p := range op.Provs {
		if b := m.binds[bindKey(svcName(op.Svc), p)]; b != nil {
			f := b.pricing.fee(now, m.vol[m.volKey(op.Who, svcName(op.Svc), p)])
			if b.pricing.Denom != baseDenom {
				if r, ok := m.rates[b.pricing.Denom]; ok {
					f = floorMul(mustBig(b.pricing.Price), new(big.Rat).Mul(b.pricing.discount(now, m.vol[m.volKey(op.Who, svcName(op.Svc), p)]), mustRat(r)))
				}
			}
			fees = append(fees, f, mustBig(b.pricing.Price))
		}
	}
	cap := gen.Pow2(60)
	if len(fees) > 0 {
		switch uni(t, "call/capkind", 10) {
		case 0, 1:
			cap = pickFrom(t, "call/capfee", fees)
		case 2:
			cap = new(big.Int).Sub(pickFrom(t, "call/capfee", fees), bi(1))
		case 3:
			cap = new(big.Int).Add(pickFrom(t, "call/capfee", fees), bi(1))
		}
	}
	if cap.Sign() <= 0 {
		cap = bi(1)
	}
	op.Amt = cap.String()
	if uni(t, "call/repeated", 10) < 6 {
		op.Repeated = true
		switch uni(t, "call/freqkind", 6) {
		case 0:
			op.Freq = 0
		case 1:
			if op.Timeout > 1 && uni(t, "call/freqshort", 4) == 0 {
				op.Freq = uint64(op.Timeout - 1) // invalid
			} else {
				op.Freq = uint64(op.Timeout)
			}
		default:
			op.Freq = uint64(op.Timeout) + uint64(uni(t, "call/freqextra", 4))
		}
		op.Total = int64(pickFrom(t, "call/total", []int{-1, -1, 1, 2, 3, 3, 5, 0}))
	} else if uni(t, "call/oneshotfields", 3) == 0 {
		// one-shot call carrying repetition fields: the message validation ignores them for repeated=false, and so
		// must the module (one batch, then removed)
		op.Freq = uint64(pickFrom(t, "call/osfreq", []int64{0, 1, op.Timeout - 1, op.Timeout, op.Timeout + 3}))
		op.Total = int64(pickFrom(t, "call/ostotal", []int{-1, -1, 1, 2, 5, -3, 0}))
		if op.Freq == 0 && op.Total == 0 {
			op.Total = -1
		}
	}
	if module {
		op.Threshold = uint32((1 + uni(t, "call/threshold", len(op.Provs))))
		if uni(t, "call/badthreshold", 20) == 0 {
			op.Threshold = uint32(len(op.Provs) + 1)
		}
		op.Paused = uni(t, "call/paused", 5) == 0
	}
	return op
}

var _ = time.Second
