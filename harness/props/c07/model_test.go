package c07

// Reference arithmetic for the service properties (math/big only; never calls the code under test).

import (
	"fmt"
	"math/big"
	"sort"
	"strings"
	"time"
)

// ---- numbers ----------------------------------------------------------------------------------

func bi(v int64) *big.Int { return big.NewInt(v) }

func mustBig(s string) *big.Int {
	v, ok := new(big.Int).SetString(s, 10)
	if !ok {
		panic("bad integer " + s)
	}
	return v
}

// mustRat parses a decimal fraction such as "0.05".
func mustRat(s string) *big.Rat {
	r, ok := new(big.Rat).SetString(s)
	if !ok {
		panic("bad decimal " + s)
	}
	return r
}

// floorMul = floor(a * r) for a >= 0, r >= 0.
func floorMul(a *big.Int, r *big.Rat) *big.Int {
	n := new(big.Int).Mul(a, r.Num())
	return n.Quo(n, r.Denom())
}

var ratOne = big.NewRat(1, 1)

// coins is a denom -> amount map without zero entries.
type coins map[string]*big.Int

func (c coins) add(denom string, v *big.Int) {
	cur, ok := c[denom]
	if !ok {
		cur = new(big.Int)
	}
	cur = new(big.Int).Add(cur, v)
	if cur.Sign() == 0 {
		delete(c, denom)
	} else {
		c[denom] = cur
	}
}

func (c coins) addAll(o coins) {
	for d, v := range o {
		c.add(d, v)
	}
}

func (c coins) clone() coins {
	o := coins{}
	for d, v := range c {
		o[d] = new(big.Int).Set(v)
	}
	return o
}

func (c coins) equal(o coins) bool {
	if len(c) != len(o) {
		return false
	}
	for d, v := range c {
		w, ok := o[d]
		if !ok || v.Cmp(w) != 0 {
			return false
		}
	}
	return true
}

func (c coins) String() string {
	var parts []string
	for d, v := range c {
		parts = append(parts, v.String()+d)
	}
	sort.Strings(parts)
	return "[" + strings.Join(parts, ",") + "]"
}

func (c coins) denoms() []string {
	var ds []string
	for d := range c {
		ds = append(ds, d)
	}
	sort.Strings(ds)
	return ds
}

// ---- pricing ----------------------------------------------------------------------------------

// PromoT is a promotion by time (unix seconds, [Start, End)).
type PromoT struct {
	Start    int64  `json:"start"`
	End      int64  `json:"end"`
	Discount string `json:"discount"`
}

// PromoV is a promotion by volume.
type PromoV struct {
	Volume   uint64 `json:"volume"`
	Discount string `json:"discount"`
}

// PricingSpec is the generated pricing of a binding (plain data; rendered to the module's JSON document).
type PricingSpec struct {
	Price  string   `json:"price"`
	Denom  string   `json:"denom"`
	ByTime []PromoT `json:"by_time,omitempty"`
	ByVol  []PromoV `json:"by_vol,omitempty"`
}

// JSON renders the pricing document accepted by the module's pricing schema.
func (p PricingSpec) JSON() string {
	var sb strings.Builder
	fmt.Fprintf(&sb, `{"price":"%s%s"`, p.Price, p.Denom)
	if len(p.ByTime) > 0 {
		sb.WriteString(`,"promotions_by_time":[`)
		for i, t := range p.ByTime {
			if i > 0 {
				sb.WriteString(",")
			}
			fmt.Fprintf(&sb, `{"start_time":"%s","end_time":"%s","discount":"%s"}`,
				time.Unix(t.Start, 0).UTC().Format(time.RFC3339), time.Unix(t.End, 0).UTC().Format(time.RFC3339), t.Discount)
		}
		sb.WriteString("]")
	}
	if len(p.ByVol) > 0 {
		sb.WriteString(`,"promotions_by_volume":[`)
		for i, v := range p.ByVol {
			if i > 0 {
				sb.WriteString(",")
			}
			fmt.Fprintf(&sb, `{"volume":%d,"discount":"%s"}`, v.Volume, v.Discount)
		}
		sb.WriteString("]")
	}
	sb.WriteString("}")
	return sb.String()
}

// wellFormed tells whether the module's own rules admit the pricing (ordering contracts of CheckPricing).
func (p PricingSpec) wellFormed() bool {
	for i, t := range p.ByTime {
		if t.End <= t.Start || (i > 0 && t.Start < p.ByTime[i-1].End) {
			return false
		}
	}
	for i, v := range p.ByVol {
		if v.Volume < 1 || (i > 0 && v.Volume < p.ByVol[i-1].Volume) {
			return false
		}
		for j := 0; j < i; j++ { // the schema demands unique items
			if p.ByVol[j] == v {
				return false
			}
		}
	}
	for i := range p.ByTime {
		for j := 0; j < i; j++ {
			if p.ByTime[j] == p.ByTime[i] {
				return false
			}
		}
	}
	return true
}

// discount in force for a block time and an answered-request volume.
func (p PricingSpec) discount(now time.Time, volume uint64) *big.Rat {
	d := new(big.Rat).Set(ratOne)
	for _, t := range p.ByTime {
		if !now.Before(time.Unix(t.Start, 0)) && now.Before(time.Unix(t.End, 0)) {
			d.Mul(d, mustRat(t.Discount))
			break
		}
	}
	// volume: the last promotion whose threshold has been reached
	idx := -1
	for i, v := range p.ByVol {
		if volume >= v.Volume {
			idx = i
		}
	}
	if idx >= 0 {
		d.Mul(d, mustRat(p.ByVol[idx].Discount))
	}
	return d
}

// fee recorded on a request = floor(price * discounts), in the pricing denom.
func (p PricingSpec) fee(now time.Time, volume uint64) *big.Int {
	return floorMul(mustBig(p.Price), p.discount(now, volume))
}

// ---- parameters -------------------------------------------------------------------------------

// ParamSpec is the generated part of the module parameters.
type ParamSpec struct {
	Tax         string `json:"tax"`
	Slash       string `json:"slash"`
	Multiple    int64  `json:"multiple"`
	MinDeposit  string `json:"min_deposit"`
	MaxTimeout  int64  `json:"max_timeout"`
	Arbitration int64  `json:"arbitration_s"`
	Complaint   int64  `json:"complaint_s"`
}

// minDeposit required for a pricing: max(price*multiple, param) with the price taken in the base denom.
// ok=false when a needed exchange rate is missing.
func (ps ParamSpec) minDeposit(p PricingSpec, base string, rate map[string]string) (*big.Int, bool) {
	price := mustBig(p.Price)
	if p.Denom != base && price.Sign() > 0 {
		r, ok := rate[p.Denom]
		if !ok {
			return nil, false
		}
		price = floorMul(price, mustRat(r))
		if price.Sign() == 0 {
			price = bi(1)
		}
	}
	md := new(big.Int).Mul(price, bi(ps.Multiple))
	if param := mustBig(ps.MinDeposit); md.Sign() > 0 && md.Cmp(param) < 0 {
		md = param
	}
	return md, true
}
