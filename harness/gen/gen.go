// Package gen holds generators and small helpers shared by the property packages.
package gen

import (
	"math/big"
	"sync"
	"time"

	sdkmath "cosmossdk.io/math"
	"pgregory.net/rapid"

	"verifharness/chain"
)

var (
	envOnce sync.Once
	envDflt *chain.Env
)

// Env returns the process-wide default K-driver environment (chain.Options{}).
func Env() *chain.Env {
	envOnce.Do(func() { envDflt = chain.NewEnv(chain.Options{}) })
	return envDflt
}

func Pow2(k uint) *big.Int { return new(big.Int).Lsh(big.NewInt(1), k) }

func Pow10(k int) *big.Int { return new(big.Int).Exp(big.NewInt(10), big.NewInt(int64(k)), nil) }

// Amount draws a positive integer by shape with magnitudes up to 2^maxBits (DESIGN §2.3):
// 45 % tiny (1..20), 20 % medium (<=10^6), 20 % large with a random bit length, 15 % boundary values.
func Amount(t *rapid.T, label string, maxBits uint) *big.Int {
	bound := Pow2(maxBits)
	var v *big.Int
	switch s := rapid.IntRange(0, 99).Draw(t, label+"/shape"); {
	case s < 45:
		v = big.NewInt(int64(rapid.IntRange(1, 20).Draw(t, label+"/tiny")))
	case s < 65:
		v = big.NewInt(int64(rapid.IntRange(21, 1000000).Draw(t, label+"/medium")))
	case s < 85:
		bits := rapid.IntRange(21, int(maxBits)).Draw(t, label+"/bits")
		v = Bits(t, label+"/large", uint(bits))
	default:
		k := uint(rapid.IntRange(1, int(maxBits)).Draw(t, label+"/k"))
		switch rapid.IntRange(0, 4).Draw(t, label+"/bkind") {
		case 0:
			v = Pow2(k)
		case 1:
			v = new(big.Int).Sub(Pow2(k), big.NewInt(1))
		case 2:
			v = new(big.Int).Add(Pow2(k), big.NewInt(1))
		case 3:
			v = Pow10(int(k) * 3 / 10)
		default:
			v = new(big.Int).Set(bound)
		}
	}
	if v.Sign() <= 0 {
		v = big.NewInt(1)
	}
	if v.Cmp(bound) > 0 {
		v = bound
	}
	return v
}

// Bits draws an integer with exactly `bits` bits.
func Bits(t *rapid.T, label string, bits uint) *big.Int {
	if bits == 0 {
		return new(big.Int)
	}
	v := big.NewInt(1)
	rem := bits - 1
	for rem > 0 {
		n := rem
		if n > 32 {
			n = 32
		}
		chunk := rapid.Uint64Range(0, (1<<n)-1).Draw(t, label)
		v.Lsh(v, n)
		v.Or(v, new(big.Int).SetUint64(chunk))
		rem -= n
	}
	return v
}

func ToInt(b *big.Int) sdkmath.Int { return sdkmath.NewIntFromBigInt(b) }

// BigOf parses a decimal integer (panics on garbage: replay files are trusted).
func BigOf(s string) *big.Int {
	v, ok := new(big.Int).SetString(s, 10)
	if !ok {
		panic("bad integer " + s)
	}
	return v
}

// DtFar is Dt with a rare jump of two to three centuries: block time is whatever consensus agrees on, and times
// beyond the year 2262 no longer fit a signed 64-bit count of nanoseconds.
//
// A block header carries its time as a protobuf timestamp, which ends with the year 9999: jumps are only taken while
// the clock is before 2300, so a history stays far below that limit.
func DtFar(t *rapid.T, label string, now time.Time) int64 {
	if rapid.IntRange(0, 39).Draw(t, label+"/far") == 0 && now.Year() < 2300 {
		return int64(365*24*time.Hour) * int64(rapid.IntRange(200, 290).Draw(t, label+"/years"))
	}
	return Dt(t, label)
}

// Dt draws a block-time increment in nanoseconds: 1 ns … days, mostly seconds.
func Dt(t *rapid.T, label string) int64 {
	switch rapid.IntRange(0, 9).Draw(t, label+"/k") {
	case 0:
		return 1
	case 1:
		return int64(time.Millisecond) * int64(rapid.IntRange(1, 999).Draw(t, label+"/ms"))
	case 2:
		return int64(time.Hour) * int64(rapid.IntRange(1, 72).Draw(t, label+"/h"))
	default:
		return int64(time.Second) * int64(rapid.IntRange(1, 10).Draw(t, label+"/s"))
	}
}
